// Package other holds types that have the same names as types in package zoo.
package other

type Person struct {
	ID   int    `db:"id"`
	Name string `db:"name"`
}

type M map[string]any

type Ints []int

type Address struct {
	ID     int    `db:"id"`
	Street string `db:"street"`
}

type Omit struct {
	ID int `db:"id,omitempty"`
}

type MS map[string]string

type Kinds struct {
	I int `db:"i"`
}

type S []any
