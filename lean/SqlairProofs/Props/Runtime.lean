/-
  Runtime properties of the model of sqlair.go (SqlairModel/Runtime.lean):
  C14 (iterator protocol), C15 (Get / GetAll), C13 (release on every path),
  C12 (transactions), C20 (context).  All statements hold for every script, world,
  iterator state and call sequence (inductions on the fetch list / the call list).
-/
import SqlairProofs.Runtime.Order
import SqlairProofs.Runtime.Get
import SqlairProofs.Runtime.Tx

namespace Sqlair.Rt

/-! ### scripts of the non-vacuity examples -/

/-- one row, then a driver failure, then a row that is never reached; close fails too -/
def sMixed : Script :=
  { hasOutputs := true, fetch := [.ok { id := 1 }, .error (.inj 3), .ok { id := 2 }], closeErr := some (.inj 4) }
/-- three good rows -/
def sGood : Script :=
  { hasOutputs := true, fetch := [.ok { id := 1 }, .ok { id := 2 }, .ok { id := 3 }] }
/-- second row does not convert -/
def sBadScan : Script :=
  { hasOutputs := true, fetch := [.ok { id := 1 }, .ok { id := 2, scanOK := false }, .ok { id := 3 }] }
/-- no rows -/
def sEmpty : Script := { hasOutputs := true }
/-- a statement without outputs, one-shot inside a transaction -/
def sExecTx : Script := { hasOutputs := false, onTx := true, result := 7 }
/-- the context is done -/
def sCtx : Script := { hasOutputs := true, ctxDone := true, fetch := [.ok { id := 1 }] }
/-- the transaction has ended -/
def sTxDone : Script := { hasOutputs := true, onTx := true, txDone := true, fetch := [.ok { id := 1 }] }

def it0 (s : Script) : Iter := (iterOpen s {}).1
def w0 (s : Script) : World := (iterOpen s {}).2

/-! ## C14 — iterator protocol -/

/-- **C14.1** After a `Close` returning `e`, whatever is called afterwards, every later `Close`
    returns `e` again and the world (driver log, connections) stays exactly as the first
    `Close` left it.  (Holds for every iterator state, well-formed or not.) -/
theorem close_idempotent {it it1 it2 : Iter} {w w1 w2 : World} {e : Option Err} {cs : List Call}
    {outs : List Out} (h1 : it.close w = (it1, w1, e)) (h2 : run it1 w1 cs = (it2, w2, outs)) :
    (it2.close w2).2.2 = e ∧ (it2.close w2).2.1 = w1 ∧ (∀ e', Out.closed e' ∈ outs → e' = e) := by
  have hr : it1.rows = none := by have := Iter.close_rows it w; rwa [h1] at this
  have he : it1.err = e := by have := Iter.close_err it w; rwa [h1] at this
  obtain ⟨r1, r2, r3⟩ := run_of_rows_none hr w1 cs
  have ro := run_of_rows_none_outs hr w1 cs
  rw [h2] at r1 r2 r3 ro
  simp only at r1 r2 r3 ro
  rw [Iter.close_of_rows_none r1]
  exact ⟨by rw [← he, ← r2], r3, fun e' h => by rw [← he]; exact ro e' h⟩

/-- **C14.1, on traces**: all `Close` calls of any call sequence on any iterator agree -/
theorem close_results_agree (it : Iter) (w : World) (cs : List Call) (e1 e2 : Option Err)
    (h1 : Out.closed e1 ∈ (run it w cs).2.2) (h2 : Out.closed e2 ∈ (run it w cs).2.2) : e1 = e2 :=
  run_closed_agree it w cs e1 e2 h1 h2

example :
    (run (it0 sMixed) (w0 sMixed)
        [.next, .get .valid, .next, .close, .next, .get .valid, .close, .cancel, .close]).2.2 =
      [.bool true, .got (.row 1), .bool false, .closed (some (.inj 3)), .bool false,
       .got (.err (.inj 3)), .closed (some (.inj 3)), .none, .closed (some (.inj 3))] := by
  decide

/-- **C14.6** After `Close` no call has any effect on the world: no driver event, no
    connection movement, whatever the calls. -/
theorem no_events_after_end {it it1 : Iter} {w w1 : World} {e : Option Err}
    (h1 : it.close w = (it1, w1, e)) (cs : List Call) :
    (run it1 w1 cs).2.1 = w1 ∧ (run it1 w1 cs).2.1.log = w1.log := by
  have hr : it1.rows = none := by have := Iter.close_rows it w; rwa [h1] at this
  have := (run_of_rows_none hr w1 cs).2.2
  exact ⟨this, by rw [this]⟩

example :
    (run (it0 sGood) (w0 sGood) [.next, .close]).2.1.log = [.prepare, .query, .next, .rowsClose] ∧
    (run (it0 sGood) (w0 sGood) [.next, .close, .next, .get .valid, .cancel, .close, .next]).2.1.log =
      [.prepare, .query, .next, .rowsClose] := by
  decide

/-- **C14.2** Once `Next` has returned false, every later `Next` returns false, whatever is
    called in between.  (Holds for every iterator state.) -/
theorem next_false_sticky {it it1 it2 : Iter} {w w1 w2 : World} {cs : List Call} {outs : List Out}
    (h1 : it.next w = (it1, w1, false)) (h2 : run it1 w1 cs = (it2, w2, outs)) :
    (it2.next w2).2.2 = false ∧ (∀ b, Out.bool b ∈ outs → b = false) := by
  have hend : it1.ended = true := by
    have := Iter.ended_of_next_false it w (by rw [h1])
    rwa [h1] at this
  have r1 := run_ended hend w1 cs
  have r2 := run_ended_outs hend w1 cs
  rw [h2] at r1 r2
  exact ⟨by rw [Iter.next_of_ended r1], r2⟩

example :
    (run (it0 sMixed) (w0 sMixed) [.next, .next, .next, .get .valid, .cancel, .next, .close, .next]).2.2 =
      [.bool true, .bool false, .bool false, .got (.err (.wrapped (.inj 3))), .none, .bool false,
       .closed (some (.inj 3)), .bool false] := by
  decide

/-- **C14.3** The rows made current by the successful `Next` calls of ANY call sequence
    (cancellations included) on a fresh iterator are a prefix of the rows the driver delivers
    before its first failure — in driver order, each at most once — which in turn are a
    prefix of all `.ok` rows of the script. -/
theorem rows_in_order_once (s : Script) (w : World) (cs : List Call) :
    delivered (iterOpen s w).1 (iterOpen s w).2 cs <+: (leadRows s.fetch).map (fun r => some r.id) ∧
      leadRows s.fetch <+: okRows s.fetch := by
  refine ⟨?_, leadRows_prefix_okRows _⟩
  have := delivered_prefix (iterOpen s w).1 (iterOpen s w).2 cs
  rw [iterOpen_remaining] at this
  cases hop : s.opensRows
  · rw [hop] at this
    simp only [Bool.false_eq_true, if_false, leadRows, List.map_nil, List.prefix_nil] at this
    rw [this]; exact List.nil_prefix
  · simpa [hop] using this

/-- **C14.3, completeness**: if the statement ran, nothing closes or cancels the iteration and
    there are enough `Next` calls, every row before the driver's first failure is delivered;
    when no fetch fails these are all rows. -/
theorem rows_in_order_complete (s : Script) (w : World) (cs : List Call) (hs : s.opensRows = true)
    (hc : ∀ c ∈ cs, c ≠ .cancel ∧ c ≠ .close) (hn : (leadRows s.fetch).length ≤ cs.count .next) :
    delivered (iterOpen s w).1 (iterOpen s w).2 cs = (leadRows s.fetch).map (fun r => some r.id) := by
  have hrem := iterOpen_remaining s w
  simp only [hs, if_true] at hrem
  have := delivered_complete (iterOpen s w).1 (iterOpen s w).2 cs hc (by rw [hrem]; exact hn)
  rw [this, hrem]

theorem rows_in_order_all (s : Script) (w : World) (cs : List Call) (rows : List Row)
    (hs : s.opensRows = true) (hf : s.fetch = rows.map .ok)
    (hc : ∀ c ∈ cs, c ≠ .cancel ∧ c ≠ .close) (hn : rows.length ≤ cs.count .next) :
    delivered (iterOpen s w).1 (iterOpen s w).2 cs = rows.map (fun r => some r.id) := by
  have := rows_in_order_complete s w cs hs hc (by rw [hf, leadRows_map_ok]; exact hn)
  rw [this, hf, leadRows_map_ok]

/-- **C14.3, Get**: a row stored by `Get` is the current row, i.e. the one made current by
    the last successful `Next`. -/
theorem get_row_is_current {it : Iter} {a : GetArgs} {id : Nat} (h : it.get a = .row id) :
    it.curId = some id :=
  Iter.get_row_cur h

/-- **C14.3, Get on traces**: on a fresh iterator, whenever `Get` (after any call sequence,
    cancellations included) stores a row, it is the row made current by the last successful
    `Next` of that sequence. -/
theorem got_row_is_last_delivered (s : Script) (w : World) (cs : List Call) (a : GetArgs) (id : Nat)
    (h : (run (iterOpen s w).1 (iterOpen s w).2 cs).1.get a = .row id) :
    (delivered (iterOpen s w).1 (iterOpen s w).2 cs).getLast? = some (some id) := by
  have h0 : (iterOpen s w).1.curId = none := by
    rw [iterOpen_eq]; simp only [Iter.curId, Script.openRows]; split <;> simp
  have hcur := Iter.get_row_cur h
  rcases cur_is_last_delivered (iterOpen_WF s w) (iterOpen s w).2 cs [] (.inl h0) with h' | h'
  · rw [hcur] at h'; simp at h'
  · rw [hcur] at h'; simpa using h'

example : delivered (it0 sGood) (w0 sGood) [.next, .get .valid, .next, .next, .next, .next] = [some 1, some 2, some 3] := by
  decide
example : delivered (it0 sMixed) (w0 sMixed) [.next, .next, .next, .next] = [some 1] := by decide
example : delivered (it0 sGood) (w0 sGood) [.next, .cancel, .next, .next] = [some 1] := by decide

/-- **C14.4** On the iterator returned by `Query.Iter`, before any `Next`: `Get` with
    destinations (valid or not) or a nil Outcome is an error (the statement's error if it
    failed, else sqlair's "get-before-next"); `Get(&Outcome)` succeeds iff the statement ran. -/
theorem get_before_next_is_error (s : Script) (w : World) :
    (iterOpen s w).1.get .valid = .err (s.openErr.getD (.wrapped (.sqlair "get-before-next"))) ∧
    (iterOpen s w).1.get .invalid = .err (s.openErr.getD (.wrapped (.sqlair "get-before-next"))) ∧
    (iterOpen s w).1.get .nilOutcome = .err (s.openErr.getD (.wrapped (.sqlair "nil-outcome"))) ∧
    (s.runsOK = true →
      (iterOpen s w).1.get .outcome = .outcome (if s.hasOutputs then none else some s.result)) ∧
    (∀ e, s.openErr = some e → (iterOpen s w).1.get .outcome = .err e) := by
  rw [iterOpen_eq]
  cases hoe : s.openErr with
  | none =>
    have hro : s.runsOK = true := by simp [Script.runsOK, hoe]
    cases hout : s.hasOutputs <;> simp [Iter.get, hro]
  | some e => simp [Iter.get, Script.runsOK, hoe]

example : (it0 sGood).get .valid = .err (.wrapped (.sqlair "get-before-next")) ∧
    (it0 sExecTx).get .outcome = .outcome (some 7) ∧ (it0 sGood).get .outcome = .outcome none ∧
    (it0 sCtx).get .outcome = .err .ctx := by decide

/-- **C14.5 (fetch failure)** If a `Next` on a well-formed iterator consumes a driver fetch
    failure `e`, that `Next` returns false and — whatever is called afterwards — every `Close`
    returns `some e`.  (A well-formed iterator holding rows has no stored error, so `e` itself
    is reported.) -/
theorem early_end_reported_fetch {it it1 it2 : Iter} {w w1 w2 : World} {r : Rows} {e : Err}
    {rest : List (Except Err Row)} {b : Bool} {cs : List Call} {outs : List Out}
    (hwf : it.WF) (hr : it.rows = some r) (ho : r.closed = false) (hf : r.fetch = .error e :: rest)
    (h1 : it.next w = (it1, w1, b)) (h2 : run it1 w1 cs = (it2, w2, outs)) :
    b = false ∧ (it2.close w2).2.2 = some e ∧ (∀ e', Out.closed e' ∈ outs → e' = some e) := by
  have he : it.err = none := by
    cases h : it.err with
    | none => rfl
    | some e' => have := hwf.err_rows (by simp [h]); simp [hr] at this
  obtain ⟨hb, hp⟩ := Iter.next_fetch_error he hr ho hf w
  have hwf1 := Iter.next_WF hwf w
  rw [h1] at hb hp hwf1
  have p2 := run_pending hwf1 hp w1 cs
  have o2 := run_pending_outs hwf1 hp w1 cs
  rw [h2] at p2 o2
  exact ⟨hb, Iter.close_of_pending p2 w2, o2⟩

/-- **C14.5 (cancellation)** If the context is cancelled while the rows of a well-formed
    iterator are open, every later `Close` returns the context's error. -/
theorem early_end_reported_cancel {it it1 it2 : Iter} {w w1 w2 : World} {r : Rows}
    {cs : List Call} {outs : List Out}
    (hwf : it.WF) (hr : it.rows = some r) (ho : r.closed = false)
    (h1 : it.cancel w = (it1, w1)) (h2 : run it1 w1 cs = (it2, w2, outs)) :
    (it2.close w2).2.2 = some .ctx ∧ (∀ e', Out.closed e' ∈ outs → e' = some .ctx) := by
  have he : it.err = none := by
    cases h : it.err with
    | none => rfl
    | some e' => have := hwf.err_rows (by simp [h]); simp [hr] at this
  have hp := Iter.cancel_open he hr ho ((hwf.rows_wf r hr).lasterr_none ho) w
  have hwf1 := Iter.cancel_WF hwf w
  rw [h1] at hp hwf1
  have p2 := run_pending hwf1 hp w1 cs
  have o2 := run_pending_outs hwf1 hp w1 cs
  rw [h2] at p2 o2
  exact ⟨Iter.close_of_pending p2 w2, o2⟩

/-- the hypotheses of `early_end_reported_fetch` / `_cancel` are met by a reachable state:
    `sMixed` after its first `Next` -/
example :
    (run (it0 sMixed) (w0 sMixed) [.next]).1.WF ∧
    ∃ r rest, (run (it0 sMixed) (w0 sMixed) [.next]).1.rows = some r ∧ r.closed = false ∧
      r.fetch = .error (.inj 3) :: rest :=
  ⟨reachable_WF sMixed {} [.next], _, _, rfl, rfl, rfl⟩

/-- **C14.5 (from the script)** If the driver fails with `e` after `oks.length` rows and a call
    sequence `cs1` without `Close`/cancel contains more than that many `Next`s, then after any
    further calls `cs2` a `Close` returns `some e`, as does every `Close` within `cs2`. -/
theorem early_end_reported_script (s : Script) (w : World) (oks : List Row) (e : Err)
    (rest : List (Except Err Row)) (cs1 cs2 : List Call)
    (hs : s.opensRows = true) (hf : s.fetch = oks.map .ok ++ .error e :: rest)
    (hc : ∀ c ∈ cs1, c ≠ .cancel ∧ c ≠ .close) (hn : oks.length < cs1.count .next) :
    (run (iterOpen s w).1 (iterOpen s w).2 (cs1 ++ cs2 ++ [.close])).2.2.getLast? = some (.closed (some e)) ∧
    (∀ e', Out.closed e' ∈ (run (iterOpen s w).1 (iterOpen s w).2 (cs1 ++ cs2)).2.2 → e' = some e) := by
  have hrows := iterOpen_rows s w
  rw [Script.openRows_of_opensRows hs] at hrows
  have herr : (iterOpen s w).1.err = none := by
    rw [iterOpen_err]
    have h := hs
    simp only [Script.opensRows, Script.runsOK, Bool.and_eq_true, Option.isNone_iff_eq_none] at h
    exact h.2
  have hp := run_reaches_error (iterOpen_WF s w) herr hrows rfl hf (iterOpen s w).2 cs1 hc hn
  have hwf1 := run_WF (iterOpen_WF s w) (iterOpen s w).2 cs1
  have hp2 := run_pending hwf1 hp (run (iterOpen s w).1 (iterOpen s w).2 cs1).2.1 cs2
  have ho2 := run_pending_outs hwf1 hp (run (iterOpen s w).1 (iterOpen s w).2 cs1).2.1 cs2
  constructor
  · rw [run_append, run_append]
    simp only [run_cons, run_nil, step_close]
    rw [List.getLast?_append]
    simp [Iter.close_of_pending hp2]
  · intro e' he'
    rw [run_append] at he'
    simp only [List.mem_append] at he'
    rcases he' with he' | he'
    · -- no Close in cs1
      exfalso
      clear hp hp2 ho2 hwf1 hn
      generalize (iterOpen s w).1 = it at he'
      generalize (iterOpen s w).2 = w' at he'
      induction cs1 generalizing it w' with
      | nil => simp at he'
      | cons c cs ih =>
        rw [run_cons] at he'
        simp only [List.mem_cons] at he'
        rcases he' with he' | he'
        · cases c with
          | close => exact (hc .close (by simp)).2 rfl
          | next => simp at he'
          | get a => simp at he'
          | cancel => simp at he'
        · exact ih (fun c h => hc c (by simp [h])) _ _ he'
    · exact ho2 e' he'

example :
    (run (it0 sMixed) (w0 sMixed) [.next, .get .valid, .next, .next, .get .valid, .cancel, .close]).2.2.getLast?
      = some (.closed (some (.inj 3))) := by decide
example :
    (run (it0 sGood) (w0 sGood) [.next, .cancel, .get .valid, .next, .close, .close]).2.2 =
      [.bool true, .none, .got (.err (.wrapped .ctx)), .bool false, .closed (some .ctx), .closed (some .ctx)] := by
  decide

/-! ## C15 — Get / GetAll -/

/-- **C15.9** `GetAll` is all-or-nothing: on any error nothing is appended. -/
theorem getAll_all_or_nothing (s : Script) (n : Nat) (v : Bool) (w : World) :
    (queryGetAll s n v w).1.err ≠ none → (queryGetAll s n v w).1.appended = [] := by
  rw [queryGetAll_fst]
  unfold getAllSpec
  repeat' split
  all_goals simp

example : (queryGetAll sMixed 1 true {}).1 = { err := some (.inj 3), appended := [] } := by decide
example : (queryGetAll sBadScan 1 true {}).1 = { err := some (.wrapped .scan), appended := [] } := by decide

/-- The row loop of `GetAll` never runs out of fuel (and never reaches its "unreachable"
    branch): it ends without error or with a wrapped `Get` error. -/
theorem getAll_fuel_never_exhausted (s : Script) (v : Bool) (w : World) :
    (getAllLoop (s.fetch.length + 2) (iterOpen s w).1 (iterOpen s w).2 [] v).2.2.2 = none ∨
    ∃ e, (getAllLoop (s.fetch.length + 2) (iterOpen s w).1 (iterOpen s w).2 [] v).2.2.2 = some (.wrapped e) := by
  rcases gaLoop_exit s v w with h | ⟨e, h, _⟩
  · exact .inl h
  · exact .inr ⟨e, h⟩

/-- **C15.10** If `GetAll` on a statement with outputs reports success, then the statement
    ran without error, EVERY fetch succeeded, EVERY row converted, `Close` reported nothing,
    there was at least one row, and exactly the ids of all rows were appended, in order.
    (So a fetch failure at any row, a scan failure at any row, or a close error is never
    presented as success.) -/
theorem getAll_success_complete (s : Script) (n : Nat) (v : Bool) (w : World)
    (h : (queryGetAll s n v w).1.err = none) (ho : s.hasOutputs = true) :
    s.runsOK = true ∧ (∀ x ∈ s.fetch, ∃ row, x = .ok row ∧ row.scanOK = true) ∧ s.fetch ≠ [] ∧
      s.closeErr = none ∧ v = true ∧
      (queryGetAll s n v w).1.appended = (okRows s.fetch).map (·.id) := by
  rw [queryGetAll_fst] at h ⊢
  unfold getAllSpec at h ⊢
  simp only [ho, Bool.not_true, Bool.false_and, Bool.false_eq_true, if_false, if_true] at h ⊢
  cases hoe : s.openErr with
  | some e => simp [hoe] at h
  | none =>
    simp only [hoe] at h ⊢
    cases hl : (loopRes s.closeErr v s.fetch []).2 with
    | some e => simp [hl] at h
    | none =>
      obtain ⟨h1, h2, h3, h4⟩ := loopRes_none hl
      simp only [hl] at h ⊢
      split at h
      · simp at h
      · rename_i hne
        have hne' : s.fetch ≠ [] := by
          intro hnil
          rw [hnil] at hne
          simp [loopRes] at hne
        simp only [hne]
        refine ⟨by simp [Script.runsOK, hoe], h2, hne', h1, h3 hne', ?_⟩
        simpa using h4

/-- **C15.10, converse**: the all-good case does succeed (so the theorem above is not vacuous) -/
theorem getAll_success_of_all_ok (s : Script) (n : Nat) (w : World) (rows : List Row)
    (hs : s.opensRows = true) (hf : s.fetch = rows.map .ok) (hne : rows ≠ [])
    (hk : ∀ r ∈ rows, r.scanOK = true) (hce : s.closeErr = none) :
    (queryGetAll s n true w).1 = { err := none, appended := rows.map (·.id) } := by
  have h := hs
  simp only [Script.opensRows, Script.runsOK, Bool.and_eq_true, Option.isNone_iff_eq_none] at h
  rw [queryGetAll_fst]
  unfold getAllSpec
  simp only [h.1, Bool.not_true, Bool.false_and, Bool.false_eq_true, if_false, h.2, if_true, hce, hf]
  rw [loopRes_all_ok [] hk (fun _ => rfl)]
  cases rows with
  | nil => exact absurd rfl hne
  | cons r rest => simp

/-- **C14.5 / C15 (GetAll)**: a driver fetch failure reached after rows that all convert is
    returned by `GetAll` (instead of success or `ErrNoRows`). -/
theorem getAll_fetch_error_reported (s : Script) (n : Nat) (v : Bool) (w : World) (oks : List Row)
    (e : Err) (rest : List (Except Err Row))
    (hs : s.opensRows = true) (hf : s.fetch = oks.map .ok ++ .error e :: rest)
    (hk : ∀ r ∈ oks, r.scanOK = true) (hv : oks ≠ [] → v = true) :
    (queryGetAll s n v w).1 = { err := some e, appended := [] } := by
  have h := hs
  simp only [Script.opensRows, Script.runsOK, Bool.and_eq_true, Option.isNone_iff_eq_none] at h
  rw [queryGetAll_fst]
  unfold getAllSpec
  simp only [h.1, Bool.not_true, Bool.false_and, Bool.false_eq_true, if_false, h.2, if_true, hf]
  rw [loopRes_fetch_error [] hk hv]

/-- a close error after a complete, successful iteration is returned by `GetAll` -/
theorem getAll_close_error_reported (s : Script) (n : Nat) (w : World) (rows : List Row) (e : Err)
    (hs : s.opensRows = true) (hf : s.fetch = rows.map .ok)
    (hk : ∀ r ∈ rows, r.scanOK = true) (hce : s.closeErr = some e) :
    (queryGetAll s n true w).1 = { err := some e, appended := [] } := by
  have h' := hs
  simp only [Script.opensRows, Script.runsOK, Bool.and_eq_true, Option.isNone_iff_eq_none] at h'
  have hclose : ∀ (acc : List Nat), (loopRes (some e) true (rows.map .ok) acc).2 = some e := by
    clear hf
    induction rows with
    | nil => intro acc; simp [loopRes]
    | cons r rest ih =>
      intro acc
      simp only [List.map_cons, loopRes, if_true, hk r (by simp)]
      exact ih (fun r hr => hk r (by simp [hr])) _
  rw [queryGetAll_fst]
  unfold getAllSpec
  simp only [h'.1, Bool.not_true, Bool.false_and, Bool.false_eq_true, if_false, h'.2, if_true, hf, hce,
    hclose]

example : (queryGetAll sGood 1 true {}).1 = { err := none, appended := [1, 2, 3] } := by decide
example : (queryGetAll { sGood with closeErr := some (.inj 4) } 1 true {}).1 = { err := some (.inj 4) } := by decide

/-- injected driver errors are never `sql.ErrNoRows` (only the first fetch matters to `Get`) -/
structure Script.NoInjectedNoRows (s : Script) : Prop where
  prepare : s.prepareErr ≠ some .noRows
  run : s.runErr ≠ some .noRows
  close : s.closeErr ≠ some .noRows
  fetch : s.fetch.head? ≠ some (.error .noRows)

theorem Script.openErr_ne_noRows {s : Script} (h : s.NoInjectedNoRows) : s.openErr ≠ some .noRows := by
  obtain ⟨h1, h2, _, _⟩ := h
  obtain ⟨ho, ca, tx, td, cd, pe, re, fe, ce, res⟩ := s
  cases ca <;> cases tx <;> cases td <;> cases cd <;> cases pe <;> cases re <;>
    simp_all [Script.openErr]

/-- **C15.7, exact**: all the ways `Get`/`Run` can return `ErrNoRows` in the model — the genuine
    one (statement with outputs ran, no row, nothing reported by close), or a driver that
    itself injects `ErrNoRows` at prepare/run/first fetch/close. -/
theorem get_noRows_iff_exact (s : Script) (c : GetCall) (w : World) :
    (queryGet s c w).1.err = some .noRows ↔
      ¬ (s.hasOutputs = false ∧ c.dests > 0) ∧
      (s.openErr = some .noRows ∨
       (s.openErr = none ∧ s.hasOutputs = true ∧
        ((s.fetch = [] ∧ (s.closeErr = none ∨ s.closeErr = some .noRows)) ∨
         (∃ rest, s.fetch = .error .noRows :: rest) ∨
         (∃ row rest, s.fetch = .ok row :: rest ∧ c.dests ≠ 0 ∧ c.destsValid = true ∧
            row.scanOK = true ∧ s.closeErr = some .noRows)))) := by
  rw [queryGet_fst]
  unfold getSpec
  by_cases hrej : s.hasOutputs = false ∧ c.dests > 0
  · simp [hrej]
  · have hrej' : (!s.hasOutputs && decide (c.dests > 0)) = false := by
      cases h : s.hasOutputs <;> simp_all
    simp only [hrej', Bool.false_eq_true, if_false, hrej, not_false_eq_true, true_and]
    cases hoe : s.openErr with
    | some e => simp
    | none =>
      cases hout : s.hasOutputs with
      | false => simp
      | true =>
        simp only [Bool.not_true, Bool.false_eq_true, if_false]
        cases hf : s.fetch with
        | nil => cases hce : s.closeErr <;> simp
        | cons x rest =>
          cases x with
          | error e => simp
          | ok row =>
            by_cases hd : c.dests = 0 <;> cases hdv : c.destsValid <;> cases hk : row.scanOK <;> simp [hd, hk]

/-- **C15.7** With a driver that never injects `ErrNoRows` itself: `Get`/`Run` returns
    `ErrNoRows` iff the statement has outputs, ran without error, delivered no row at all
    (not even a failing fetch) and closing reported nothing; and then nothing is stored.
    GAP (hence `_partial`): without `NoInjectedNoRows` the equivalence is false — an injected
    `ErrNoRows` (prepare/run/first fetch/close) is passed on unchanged, see the counterexample
    below; `get_noRows_iff_exact` is the unconditional truth. -/
theorem get_noRows_iff_partial (s : Script) (c : GetCall) (w : World) (hinj : s.NoInjectedNoRows) :
    (queryGet s c w).1.err = some .noRows ↔
      s.hasOutputs = true ∧ s.runsOK = true ∧ s.fetch = [] ∧ s.closeErr = none := by
  rw [get_noRows_iff_exact]
  have h0 := Script.openErr_ne_noRows hinj
  obtain ⟨_, _, h3, h4⟩ := hinj
  constructor
  · rintro ⟨_, h | ⟨h1, h2, h | ⟨rest, h⟩ | ⟨row, rest, _, _, _, _, h⟩⟩⟩
    · exact absurd h h0
    · rcases h with ⟨hf, hc | hc⟩
      · exact ⟨h2, by simp [Script.runsOK, h1], hf, hc⟩
      · exact absurd hc h3
    · rw [h] at h4; simp at h4
    · exact absurd h h3
  · rintro ⟨h1, h2, h3', h4'⟩
    refine ⟨by simp [h1], .inr ⟨by simpa [Script.runsOK] using h2, h1, .inl ⟨h3', .inl h4'⟩⟩⟩

theorem get_noRows_stores_nothing (s : Script) (c : GetCall) (w : World) (hinj : s.NoInjectedNoRows)
    (h : (queryGet s c w).1.err = some .noRows) : (queryGet s c w).1.stored = none := by
  obtain ⟨h1, h2, h3, h4⟩ := (get_noRows_iff_partial s c w hinj).1 h
  rw [queryGet_fst]
  unfold getSpec
  have h2' : s.openErr = none := by simpa [Script.runsOK] using h2
  simp [h1, h2', h3]

example : (queryGet sEmpty { dests := 1 } {}).1 = { err := some .noRows } := by decide
example : sEmpty.NoInjectedNoRows := ⟨by decide, by decide, by decide, by simp [sEmpty]⟩
/-- without the hypothesis the sketched equivalence is false: a close error equal to
    `ErrNoRows` is passed on although a row was fetched and stored -/
example : (queryGet { hasOutputs := true, fetch := [.ok { id := 1 }], closeErr := some .noRows } { dests := 1 } {}).1
    = { err := some .noRows, stored := some 1 } := by decide
/-- a failing first fetch is not "no rows" -/
example : (queryGet { hasOutputs := true, fetch := [.error (.inj 3)] } { dests := 1 } {}).1 = { err := some (.inj 3) } := by
  decide

/-- **C15.8** If the statement runs, the first fetch delivers a row that converts and the
    destinations are valid, `Get` stores that row and returns exactly the close error. -/
theorem get_first_row (s : Script) (c : GetCall) (w : World) (row : Row) (rest : List (Except Err Row))
    (hs : s.opensRows = true) (hf : s.fetch = .ok row :: rest) (hk : row.scanOK = true)
    (hd : c.dests > 0) (hv : c.destsValid = true) :
    (queryGet s c w).1.stored = some row.id ∧ (queryGet s c w).1.err = s.closeErr ∧
      (queryGet s c w).1.outcome = (if c.outcome then some none else none) := by
  have h := hs
  simp only [Script.opensRows, Script.runsOK, Bool.and_eq_true, Option.isNone_iff_eq_none] at h
  rw [queryGet_fst]
  unfold getSpec
  have hd' : c.dests ≠ 0 := by omega
  simp [h.1, h.2, hf, hk, hv, hd']

/-- **C14.5 / C15 (Get)**: a failing first fetch is what `Get`/`Run` returns -/
theorem get_fetch_error_reported (s : Script) (c : GetCall) (w : World) (e : Err)
    (rest : List (Except Err Row)) (hs : s.opensRows = true) (hf : s.fetch = .error e :: rest) :
    (queryGet s c w).1.err = some e ∧ (queryGet s c w).1.stored = none := by
  have h := hs
  simp only [Script.opensRows, Script.runsOK, Bool.and_eq_true, Option.isNone_iff_eq_none] at h
  rw [queryGet_fst]
  unfold getSpec
  simp [h.1, h.2, hf]

example : (queryGet sMixed { dests := 1 } {}).1 = { err := some (.inj 4), stored := some 1 } := by decide
example : (queryGet sGood { outcome := true, dests := 1 } {}).1 = { err := none, stored := some 1, outcome := some none } := by
  decide

/-! ## C13 — release on every path -/

/-- what "a result set was opened" means: `Query.Iter` returns rows iff `opensRows`, i.e. iff the
    driver's Query was called (the `query` event is among those `Query.Iter` emits) and succeeded -/
theorem opens_rows_iff (s : Script) (w : World) :
    (iterOpen s w).1.rows.isSome = s.opensRows ∧
    (iterOpen s w).2.log = w.log ++ s.openEvents ∧
    (s.opensRows = true ↔ Ev.query ∈ s.openEvents ∧ s.runErr = none) := by
  refine ⟨by rw [iterOpen_rows, Script.openRows_isSome], by rw [iterOpen_eq], Script.opensRows_iff_query s⟩

/-- **C13.11 (Get/Run)** On every path `Get` returns with as many connections in use as
    before, the driver log only grew, and the number of `rowsClose` events emitted equals the
    number of result sets opened: 1 if the driver's Query was called and succeeded
    (`Script.opensRows_iff_query`), else 0. -/
theorem queryGet_releases (s : Script) (c : GetCall) (w : World) :
    (queryGet s c w).2.inUse = w.inUse ∧
    ∃ evs, (queryGet s c w).2.log = w.log ++ evs ∧
      evs.count .rowsClose = if s.opensRows then 1 else 0 := by
  obtain ⟨h1, h2⟩ := queryGet_bal s c w
  obtain ⟨evs, hevs⟩ := queryGet_log s c w
  refine ⟨h1, evs, hevs.symm, ?_⟩
  simp only [World.closes, ← hevs, List.count_append] at h2
  omega

/-- **C13.11 (GetAll)** -/
theorem queryGetAll_releases (s : Script) (n : Nat) (v : Bool) (w : World) :
    (queryGetAll s n v w).2.inUse = w.inUse ∧
    ∃ evs, (queryGetAll s n v w).2.log = w.log ++ evs ∧
      evs.count .rowsClose = if s.opensRows then 1 else 0 := by
  obtain ⟨h1, h2⟩ := queryGetAll_bal s n v w
  obtain ⟨evs, hevs⟩ := queryGetAll_log s n v w
  refine ⟨h1, evs, hevs.symm, ?_⟩
  simp only [World.closes, ← hevs, List.count_append] at h2
  omega

/-- **C13.11 (Iterator)** Any call sequence containing a `Close` (anywhere — calls after it
    change nothing) leaves as many connections in use as before `Query.Iter`, and closes
    the result set exactly once if one was opened. -/
theorem iter_close_releases (s : Script) (w : World) (cs : List Call) (h : Call.close ∈ cs) :
    (run (iterOpen s w).1 (iterOpen s w).2 cs).2.1.inUse = w.inUse ∧
    ∃ evs, (run (iterOpen s w).1 (iterOpen s w).2 cs).2.1.log = w.log ++ evs ∧
      evs.count .rowsClose = if s.opensRows then 1 else 0 := by
  have hb := run_bal (iterOpen_bal s w) cs
  obtain ⟨h1, h2⟩ := hb.of_rows_none (run_rows_none_of_close _ _ cs h)
  obtain ⟨evs, hevs⟩ := (iterOpen_log s w).trans (run_log (iterOpen s w).1 (iterOpen s w).2 cs)
  refine ⟨h1, evs, hevs.symm, ?_⟩
  simp only [World.closes, ← hevs, List.count_append] at h2
  omega

/-- no call sequence whatsoever closes a result set twice (or one that was not opened) -/
theorem iter_closes_at_most_once (s : Script) (w : World) (cs : List Call) :
    ∃ evs, (run (iterOpen s w).1 (iterOpen s w).2 cs).2.1.log = w.log ++ evs ∧
      evs.count .rowsClose ≤ if s.opensRows then 1 else 0 := by
  have hb := (run_bal (iterOpen_bal s w) cs).closes
  obtain ⟨evs, hevs⟩ := (iterOpen_log s w).trans (run_log (iterOpen s w).1 (iterOpen s w).2 cs)
  refine ⟨evs, hevs.symm, ?_⟩
  simp only [World.closes, ← hevs, List.count_append] at hb
  omega

example : (queryGetAll sMixed 1 true { log := [.begin], inUse := 5 }).2.inUse = 5 ∧
    (queryGetAll sMixed 1 true {}).2.log = [.prepare, .query, .next, .next, .rowsClose] ∧
    sMixed.opensRows = true := by decide
example : (run (it0 sGood) (w0 sGood) [.next]).2.1.inUse = 1 ∧
    (run (it0 sGood) (w0 sGood) [.next, .close, .close]).2.1.inUse = 0 := by decide

/-! ## C12 — transactions -/

/-- **C12.12** Any sequence of Commit/Rollback calls on a live transaction: the first call
    alone reaches the driver (one event, connection released, the driver's answer returned);
    every later call returns `ErrTxDone` and does nothing. -/
theorem tx_finish_once (w : World) (c : FinCall) (rest : List FinCall) :
    runFinish {} w (c :: rest) =
      ({ done := true }, { log := w.log ++ [finEv c.1], inUse := w.inUse - 1 },
       c.2 :: rest.map fun _ => some .txDone) :=
  runFinish_fresh rfl w c rest

/-- exactly one finisher event is emitted -/
theorem tx_finish_one_event (w : World) (l : List FinCall) (hne : l ≠ []) :
    ∃ ev, ev.isFin = true ∧ (runFinish {} w l).2.1.log = w.log ++ [ev] := by
  cases l with
  | nil => exact absurd rfl hne
  | cons c rest => exact ⟨finEv c.1, finEv_isFin _, by rw [tx_finish_once]⟩

example : runFinish {} { log := [.begin], inUse := 1 } [(false, none), (true, none), (false, some (.inj 9))] =
    ({ done := true }, { log := [.begin, .rollback], inUse := 0 }, [none, some .txDone, some .txDone]) := by
  rw [tx_finish_once]; rfl

/-- **C12.12** A statement on a finished transaction runs nothing: the world is untouched and
    the iterator carries `ErrTxDone` (or the context's error when that is looked at first). -/
theorem tx_done_runs_nothing (s : Script) (w : World) (h1 : s.onTx = true) (h2 : s.txDone = true) :
    (iterOpen s w).2 = w ∧ (iterOpen s w).1.rows = none ∧
      ((iterOpen s w).1.err = some .txDone ∨ ((iterOpen s w).1.err = some .ctx ∧ s.ctxDone = true)) := by
  have he := Script.openErr_of_txDone h1 h2
  refine ⟨iterOpen_world_of_no_events (Script.openEvents_of_txDone h1 h2) he w, ?_, ?_⟩
  · rw [iterOpen_rows]; exact Script.openRows_of_not_opensRows (Script.not_opensRows_of_openErr he)
  · rw [iterOpen_err, he]
    cases s.cached <;> cases hc : s.ctxDone <;> simp

example : (iterOpen sTxDone { log := [.begin, .commit], inUse := 0 }).2.log = [.begin, .commit] ∧
    (it0 sTxDone).err = some .txDone := by decide

/-- **C12.13** n concurrent finishers, each one atomic compare-and-swap step: in ANY order
    (any permutation `l'` of the calls `l`) exactly one finisher event is emitted, by one of
    the calls, which gets the driver's answer; all others get `ErrTxDone`. -/
theorem tx_finish_perm (w : World) (l l' : List FinCall) (hp : l'.Perm l) (hne : l ≠ []) :
    ∃ c ∈ l,
      (runFinish {} w l').2.1.log = w.log ++ [finEv c.1] ∧
      (runFinish {} w l').2.1.inUse = w.inUse - 1 ∧
      (runFinish {} w l').2.2 = c.2 :: List.replicate (l.length - 1) (some .txDone) := by
  cases l' with
  | nil => exact absurd (List.Perm.nil_eq hp) (fun h => hne h.symm)
  | cons c rest =>
    refine ⟨c, hp.subset (by simp), ?_⟩
    rw [tx_finish_once]
    refine ⟨rfl, rfl, ?_⟩
    have hlen : l.length = rest.length + 1 := by rw [← hp.length_eq]; simp
    simp only [hlen, Nat.add_sub_cancel]
    congr 1
    exact List.map_const' ..

/-- **C12.13** exactly one call does not return `ErrTxDone`, provided the driver itself never
    answers a Commit/Rollback with `ErrTxDone`; without that proviso: at most one.
    GAP (hence `_partial`): if the driver answers the winner with `ErrTxDone`, every call
    returns `ErrTxDone` (counterexample below); `tx_finish_perm` is the unconditional truth. -/
theorem tx_finish_perm_winner_partial (w : World) (l l' : List FinCall) (hp : l'.Perm l) (hne : l ≠ []) :
    ((runFinish {} w l').2.2.filter (fun e => decide (e ≠ some .txDone))).length ≤ 1 ∧
    ((∀ c ∈ l, c.2 ≠ some .txDone) →
      ((runFinish {} w l').2.2.filter (fun e => decide (e ≠ some .txDone))).length = 1) := by
  obtain ⟨c, hc, _, _, h3⟩ := tx_finish_perm w l l' hp hne
  rw [h3]
  have hrep : (List.replicate (l.length - 1) (some Err.txDone)).filter (fun e => decide (e ≠ some .txDone)) = [] := by
    rw [List.filter_eq_nil_iff]; intro a ha; simp [(List.mem_replicate.1 ha).2]
  constructor
  · rw [List.filter_cons, hrep]; split <;> simp
  · intro hall
    rw [List.filter_cons, hrep]; simp [hall c hc]

example : (runFinish {} {} [(true, some (.inj 9)), (false, none), (true, none)]).2.2 = [some (.inj 9), some .txDone, some .txDone] ∧
    (runFinish {} {} [(false, none), (true, none), (true, some (.inj 9))]).2.1.log = [.rollback] := by
  constructor <;> (rw [tx_finish_once]; rfl)
/-- the proviso is needed: a driver answering `ErrTxDone` to the winner leaves no visible winner -/
example : ((runFinish {} {} [(true, some .txDone), (false, none)]).2.2.filter (fun e => decide (e ≠ some .txDone))).length = 0 := by
  rw [tx_finish_once]; decide

/-! ## C20 — context -/

/-- **C20.14** With a done context `Query.Iter` runs nothing: the world is untouched (no driver
    event at all) and the iterator carries the context's error (or `ErrTxDone` on the
    cached-statement path of a finished transaction, which is checked first). -/
theorem cancelled_runs_nothing (s : Script) (w : World) (h : s.ctxDone = true) :
    (iterOpen s w).2 = w ∧ (iterOpen s w).1.rows = none ∧
      ((iterOpen s w).1.err = some .ctx ∨
       ((iterOpen s w).1.err = some .txDone ∧ s.onTx = true ∧ s.txDone = true ∧ s.cached = true)) := by
  have he := Script.openErr_of_ctxDone h
  refine ⟨iterOpen_world_of_no_events (Script.openEvents_of_ctxDone h) he w, ?_, ?_⟩
  · rw [iterOpen_rows]; exact Script.openRows_of_not_opensRows (Script.not_opensRows_of_openErr he)
  · rw [iterOpen_err, he]
    cases s.onTx <;> cases s.txDone <;> cases s.cached <;> simp

/-- **C20.14 (Get/Run)**: the world is untouched — in particular no `exec`/`query` event — and
    the error is the iterator's (unless the call was rejected before running anything). -/
theorem cancelled_get (s : Script) (c : GetCall) (w : World) (h : s.ctxDone = true) :
    (queryGet s c w).2 = w ∧
      ((queryGet s c w).1.err = (iterOpen s w).1.err ∨
       (queryGet s c w).1.err = some (.sqlair "outputs-not-referenced")) ∧
      ((queryGet s c w).1.err = some .ctx ∨ (queryGet s c w).1.err = some .txDone ∨
       (queryGet s c w).1.err = some (.sqlair "outputs-not-referenced")) ∧
      (queryGet s c w).1.stored = none := by
  obtain ⟨h1, h2, h3⟩ := cancelled_runs_nothing s w h
  have he := Script.openErr_of_ctxDone h
  have hw : (queryGet s c w).2 = w := by
    rcases queryGet_world_of_rows_none h2 c with h' | h'
    · exact h'
    · rw [h', h1]
  have herr : (queryGet s c w).1 = { err := (iterOpen s w).1.err } ∨
      (queryGet s c w).1 = { err := some (.sqlair "outputs-not-referenced") } := by
    rw [queryGet_fst, iterOpen_err]
    unfold getSpec
    split
    · exact .inr rfl
    · left; simp [he]
  refine ⟨hw, ?_, ?_, ?_⟩
  · rcases herr with h' | h' <;> simp [h']
  · rcases herr with h' | h'
    · rcases h3 with h3 | ⟨h3, _⟩ <;> simp [h', h3]
    · simp [h']
  · rcases herr with h' | h' <;> simp [h']

/-- **C20.14 (GetAll)** -/
theorem cancelled_getAll (s : Script) (n : Nat) (v : Bool) (w : World) (h : s.ctxDone = true) :
    (queryGetAll s n v w).2 = w ∧
      ((queryGetAll s n v w).1.err = (iterOpen s w).1.err ∨
       (queryGetAll s n v w).1.err = some (.sqlair "outputs-not-referenced")) ∧
      ((queryGetAll s n v w).1.err = some .ctx ∨ (queryGetAll s n v w).1.err = some .txDone ∨
       (queryGetAll s n v w).1.err = some (.sqlair "outputs-not-referenced")) ∧
      (queryGetAll s n v w).1.appended = [] := by
  obtain ⟨h1, h2, h3⟩ := cancelled_runs_nothing s w h
  have he := Script.openErr_of_ctxDone h
  have hw : (queryGetAll s n v w).2 = w := by
    rcases queryGetAll_world_of_rows_none h2 n v with h' | h'
    · exact h'
    · rw [h', h1]
  have herr : (queryGetAll s n v w).1 = { err := (iterOpen s w).1.err } ∨
      (queryGetAll s n v w).1 = { err := some (.sqlair "outputs-not-referenced") } := by
    rw [queryGetAll_fst, iterOpen_err]
    unfold getAllSpec
    split
    · exact .inr rfl
    · left; simp [he]
  refine ⟨hw, ?_, ?_, ?_⟩
  · rcases herr with h' | h' <;> simp [h']
  · rcases herr with h' | h'
    · rcases h3 with h3 | ⟨h3, _⟩ <;> simp [h', h3]
    · simp [h']
  · rcases herr with h' | h' <;> simp [h']

/-- the same for a finished transaction (C12): `Get`/`GetAll` run nothing -/
theorem tx_done_get (s : Script) (c : GetCall) (w : World) (h1 : s.onTx = true) (h2 : s.txDone = true) :
    (queryGet s c w).2 = w ∧ (queryGet s c w).1.err ≠ none := by
  obtain ⟨g1, g2, g3⟩ := tx_done_runs_nothing s w h1 h2
  have he := Script.openErr_of_txDone h1 h2
  constructor
  · rcases queryGet_world_of_rows_none g2 c with h' | h'
    · exact h'
    · rw [h', g1]
  · rw [queryGet_fst]; unfold getSpec; split <;> simp [he]

example : (queryGet sCtx { dests := 1 } { log := [.begin], inUse := 1 }).2.log = [.begin] ∧
    (queryGet sCtx { dests := 1 } {}).1 = { err := some .ctx } ∧
    (queryGetAll sCtx 1 true {}).1 = { err := some .ctx } := by decide

end Sqlair.Rt
