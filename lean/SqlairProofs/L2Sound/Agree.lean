/-
  L2Sound/Agree: the observation the model produces agrees with the model: `affected` is
  empty, `bindAcceptDiffers` is `none` (so `holdsC07`, `holdsC08`, `holdsC04rej` hold).
-/
import SqlairProofs.L2Sound.Defs
import SqlairProofs.L2Sound.Bytes

namespace Sqlair

theorem l2s_runModel {C : Cls} {tt : TypeTable} {segs : List OSeg} {samples : List (Option Nat)}
    {tes : List TExpr} {args : List GoVal} {pq : Primed}
    (hp : bindTypes C tt segs samples = .ok tes) (hb : bindInputs tt tes args = .ok pq) :
    runModel C tt segs samples args = { prep := .ok tes, bind := .ok pq } := by
  unfold runModel
  rw [hp]
  simp only [hb]

/-- every piece is found at its place in the rendering of the pieces -/
theorem l2s_firstBadPiece : ∀ (ps : List Piece) (a : Bytes),
    firstBadPiece ps (a ++ concatBytes (ps.map Piece.render)) a.size = none := by
  intro ps
  induction ps with
  | nil => intro a; simp [firstBadPiece, concatBytes_nil]
  | cons p rest ih =>
    intro a
    have hsql : a ++ concatBytes ((p :: rest).map Piece.render) =
        a ++ p.render ++ concatBytes (rest.map Piece.render) := by
      rw [List.map_cons, concatBytes_cons, Array.append_assoc]
    have hnext := ih (a ++ p.render)
    rw [← hsql, Array.size_append] at hnext
    unfold firstBadPiece
    simp only [l2s_hasPrefixAt_mid' hsql rfl, if_true]
    exact hnext

theorem l2s_firstBadPiece_model (pq : Primed) :
    firstBadPiece pq.pieces (modelBindObs pq).sql 0 = none := by
  have := l2s_firstBadPiece pq.pieces #[]
  simp only [modelBindObs, renderSQL_eq_concat]
  simpa using this

end Sqlair
