/-
  C19, translation invariance: inserting `k > 0` newlines in front of the query moves the
  reported line by exactly `k`, leaves column and message unchanged, and does not change
  whether the query is accepted.

  Assumptions (all proved for the Go-faithful instances, see `SqlairProofs/Parser/ShiftDefs.lean`):
  * `DecOK E`     -- the rune decoder is sane                      (`decodeRune_DecOK`)
  * `DecLocal E`  -- ... and local                                 (`decodeRune_DecLocal`)
  * `ClassSep E`  -- tab, newline, CR, space, `-`, `/` are neither letters nor digits
                                                                   (`ClassSep.of_ascii`)
-/
import SqlairProofs.Props.Parser
import SqlairProofs.Parser.ShiftMain

namespace Sqlair

/-- the structural statement: same verdict; on success the nodes correspond (`SegsShift`), on
    failure the error is the same error `k` lines further down -/
theorem c19_shift_parse (E : Env) (h : DecOK E) (hl : DecLocal E) (hsep : ClassSep E)
    (k : Nat) (hk : 0 < k) : PRel k (parse E) (parse (shiftEnv k E)) :=
  parse_shift h hl hsep hk

/-- a rejected query is rejected with the same error kind at the same column, `k` lines
    further down -/
theorem c19_shift_error (E : Env) (h : DecOK E) (hl : DecLocal E) (hsep : ClassSep E)
    (k : Nat) (hk : 0 < k) (e : PErr) (hp : parse E = .error e) :
    parse (shiftEnv k E) = .error { line := e.line + k, col := e.col, kind := e.kind } := by
  have hP := parse_shift h hl hsep hk
  rw [hp] at hP
  cases hq : parse (shiftEnv k E) with
  | ok segs' => rw [hq] at hP; exact hP.elim
  | error e' => rw [hq] at hP; rw [show e' = e.sh k from hP]; rfl

/-- an accepted query is accepted, and its nodes are those of the base run moved by `k`
    offsets, with the `k` newlines in the first bypass node -/
theorem c19_shift_nodes (E : Env) (h : DecOK E) (hl : DecLocal E) (hsep : ClassSep E)
    (k : Nat) (hk : 0 < k) (segs : List Seg) (hp : parse E = .ok segs) :
    ∃ segs', parse (shiftEnv k E) = .ok segs' ∧ SegsShift k segs segs' := by
  have hP := parse_shift h hl hsep hk
  rw [hp] at hP
  cases hq : parse (shiftEnv k E) with
  | ok segs' => rw [hq] at hP; exact ⟨segs', rfl, hP⟩
  | error e' => rw [hq] at hP; exact hP.elim

/-- whether a query is accepted does not depend on leading newlines -/
theorem c19_shift_accept_iff (E : Env) (h : DecOK E) (hl : DecLocal E) (hsep : ClassSep E)
    (k : Nat) : (parse (shiftEnv k E)).isOk = (parse E).isOk := by
  rcases Nat.eq_zero_or_pos k with rfl | hk
  · rw [shiftEnv_zero]
  · have hP := parse_shift h hl hsep hk
    cases hq : parse E <;> cases hq' : parse (shiftEnv k E) <;> rw [hq, hq'] at hP
    · rfl
    · exact hP.elim
    · exact hP.elim
    · rfl

/-! ### the observed nodes -/

theorem shift_extract_zero (k : Nat) (inp : Bytes) (b : Nat) :
    (Array.replicate k (10 : UInt8) ++ inp).extract 0 (b + k) =
      Array.replicate k 10 ++ inp.extract 0 b := by
  rw [Array.extract_append]
  simp

theorem shift_extract_nl (k : Nat) (inp : Bytes) :
    (Array.replicate k (10 : UInt8) ++ inp).extract 0 k = Array.replicate k 10 := by
  simp

/-- the observed nodes (raw texts) of the shifted run: those of the base run, with the `k`
    newlines as a new first bypass node or in front of the text of the first bypass node -/
inductive OSegsShift (k : Nat) : List OSeg → List OSeg → Prop where
  | fresh (l : List OSeg) :
      OSegsShift k l ({ kind := .bypass, raw := Array.replicate k 10 } :: l)
  | merged (raw : Bytes) (rest : List OSeg) :
      OSegsShift k ({ kind := .bypass, raw := raw } :: rest)
        ({ kind := .bypass, raw := Array.replicate k 10 ++ raw } :: rest)

theorem toOSeg_sh (k : Nat) (E : Env) (x : Seg) :
    (x.sh k).toOSeg (shiftEnv k E).inp = x.toOSeg E.inp := by
  unfold Seg.toOSeg Seg.sh
  simp only [shiftEnv_inp, shift_extract]

theorem SegsShift.toOSegs {k : Nat} (E : Env) {l l' : List Seg} (hs : SegsShift k l l') :
    OSegsShift k (l.map (Seg.toOSeg E.inp)) (l'.map (Seg.toOSeg (shiftEnv k E).inp)) := by
  have hmap : ∀ r : List Seg, (r.map (Seg.sh k)).map (Seg.toOSeg (shiftEnv k E).inp) =
      r.map (Seg.toOSeg E.inp) := by
    intro r
    rw [List.map_map]
    exact List.map_congr_left (fun x _ => toOSeg_sh k E x)
  cases hs with
  | fresh l =>
    rw [List.map_cons, hmap]
    have : Seg.toOSeg (shiftEnv k E).inp { kind := .bypass, a := 0, b := k } =
        { kind := .bypass, raw := Array.replicate k 10 } := by
      unfold Seg.toOSeg
      simp only [shiftEnv_inp, shift_extract_nl]
    rw [this]
    exact OSegsShift.fresh _
  | merged b rest =>
    rw [List.map_cons, List.map_cons, hmap]
    have : Seg.toOSeg (shiftEnv k E).inp { kind := .bypass, a := 0, b := b + k } =
        { kind := .bypass, raw := Array.replicate k 10 ++ E.inp.extract 0 b } := by
      unfold Seg.toOSeg
      simp only [shiftEnv_inp, shift_extract_zero]
    rw [this]
    exact OSegsShift.merged _ _

/-- an accepted query is accepted, and the observed nodes are those of the base run, with
    the `k` newlines as a new first bypass node or in front of the first bypass node -/
theorem c19_shift_obs_nodes (E : Env) (h : DecOK E) (hl : DecLocal E) (hsep : ClassSep E)
    (k : Nat) (hk : 0 < k) (osegs : List OSeg) (hp : modelObs E = .ok osegs) :
    ∃ osegs', modelObs (shiftEnv k E) = .ok osegs' ∧ OSegsShift k osegs osegs' := by
  unfold modelObs at hp ⊢
  cases hq : parse E with
  | error e => rw [hq] at hp; cases hp
  | ok segs =>
    rw [hq] at hp
    obtain ⟨segs', hq', hs⟩ := c19_shift_nodes E h hl hsep k hk segs hq
    rw [hq']
    cases hp
    exact ⟨_, rfl, hs.toOSegs E⟩

/-- on a single-line input the model reports line 1 -/
theorem error_line_single (E : Env) (h : DecOK E) (hc : ClassOK E) (e : PErr)
    (hp : parse E = .error e) (hnl : hasNewline E.inp = false) : e.line = 1 := by
  obtain ⟨off, _, heq⟩ := c19_error_offset_partial E h hc e hp
  rw [lineColOf_eq] at heq
  have := (Prod.mk.inj heq).1
  rw [nlCount_of_not_hasNewline _ hnl] at this
  exact this

/-- **C19, translation invariance**, as the predicate `shiftOK` that the differential
    harness evaluates on the implementation's observations.  (`0 < k` is needed: `shiftOK 0`
    is false of a rejected single-line query, whose observation shows no line at all; see
    `shiftOK_zero_counterexample`.) -/
theorem c19_newline_shift (E : Env) (h : DecOK E) (hl : DecLocal E) (hsep : ClassSep E)
    (k : Nat) (hk : 0 < k) : shiftOK k (modelObs E) (modelObs (shiftEnv k E)) = true := by
  have hP := parse_shift h hl hsep hk
  unfold modelObs
  cases hq : parse E with
  | ok segs =>
    cases hq' : parse (shiftEnv k E) with
    | ok segs' => rfl
    | error e' => rw [hq, hq'] at hP; exact hP.elim
  | error e =>
    cases hq' : parse (shiftEnv k E) with
    | ok segs' => rw [hq, hq'] at hP; exact hP.elim
    | error e' =>
      rw [hq, hq'] at hP
      have he' : e' = e.sh k := hP
      subst he'
      have hnl' : hasNewline (shiftEnv k E).inp = true := shift_hasNewline k E.inp hk
      have hline : (if hasNewline E.inp = true then some e.line else none).getD 1 = e.line := by
        cases hnl : hasNewline E.inp with
        | true => rfl
        | false => exact (error_line_single E h hsep.classOK e hq hnl).symm
      show ((if hasNewline (shiftEnv k E).inp = true then some (e.sh k).line else none) ==
          some ((if hasNewline E.inp = true then some e.line else none).getD 1 + k) &&
        some (e.sh k).col == some e.col && (e.sh k).kind.render == e.kind.render) = true
      rw [hnl', hline]
      simp only [if_true, PErr.sh_line, PErr.sh_col, PErr.sh_kind, beq_self_eq_true, Bool.and_self]

/-- C19 for the Go implementation's decoder and any classifier that agrees with the ASCII
    tables below 128 -/
theorem c19_newline_shift_go (inp : Bytes) (letter digit : Nat → Bool)
    (hletter : ∀ c, c < 128 → letter c = ((65 ≤ c && c ≤ 90) || (97 ≤ c && c ≤ 122)))
    (hdigit : ∀ c, c < 128 → digit c = (48 ≤ c && c ≤ 57)) (k : Nat) (hk : 0 < k) :
    shiftOK k (modelObs { inp := inp, dec := decodeRune, letter := letter, digit := digit })
      (modelObs (shiftEnv k { inp := inp, dec := decodeRune, letter := letter, digit := digit })) = true :=
  c19_newline_shift _ (decodeRune_DecOK _ _ _) (decodeRune_DecLocal _ _ _)
    (ClassSep.of_ascii _ hletter hdigit) k hk

/-- **C19** as the harness evaluates it (`holdsC19`): the error position lies inside the
    input, and every shifted observation is the base observation moved by its `k` lines -/
theorem c19_holds (E : Env) (h : DecOK E) (hl : DecLocal E) (hsep : ClassSep E) (ks : List Nat) :
    holdsC19 E.inp (modelObs E) (ks.map fun k => (k, modelObs (shiftEnv k E))) = true := by
  unfold holdsC19
  rw [Bool.and_eq_true]
  refine ⟨c19_error_position_partial E h hsep.classOK, ?_⟩
  rw [List.all_eq_true]
  intro x hx
  obtain ⟨k, _, rfl⟩ := List.mem_map.mp hx
  show (k == 0 || shiftOK k (modelObs E) (modelObs (shiftEnv k E))) = true
  rcases Nat.eq_zero_or_pos k with rfl | hk
  · rfl
  · rw [c19_newline_shift E h hl hsep k hk, Bool.or_true]

/-! ### non-vacuity -/

theorem asciiEnv_DecLocal (s : String) : DecLocal (asciiEnv s) := decodeRune_DecLocal _ _ _

theorem asciiEnv_ClassSep (s : String) : ClassSep (asciiEnv s) :=
  ClassSep.of_ascii _ (fun _ _ => rfl) (fun _ _ => rfl)

/-- the shifted environment is the environment of the shifted string -/
example : (shiftEnv 2 (asciiEnv "SELECT &T FROM t")).inp = (asciiEnv "\n\nSELECT &T FROM t").inp := by
  decide +kernel

/-- base run: a single-line input, so no line is shown; column 8, unqualified `T` -/
example : modelObs (asciiEnv "SELECT &T FROM t") =
    .err none (some 8) (EKind.unqualified #[84]).render := by decide +kernel

/-- shifted run: line 3, the same column and message -/
example : modelObs (shiftEnv 2 (asciiEnv "SELECT &T FROM t")) =
    .err (some 3) (some 8) (EKind.unqualified #[84]).render := by decide +kernel

example : parseError (shiftEnv 2 (asciiEnv "SELECT &T FROM t")) =
    some { line := 3, col := 8, kind := .unqualified #[84] } := by decide +kernel

/-- an accepted query: the nodes move by 2, the two newlines join the first bypass node -/
example : parseNodes (shiftEnv 2 (asciiEnv "SELECT &T.* FROM t WHERE x=$M.y")) =
    some [(.bypass, 0, 9), (.output, 9, 13), (.bypass, 13, 29), (.member, 29, 33)] := by
  decide +kernel

/-- a query that starts with a name at offset 0 followed directly by an expression
    (the position-absolute test of `advanceToNextExpression`) -/
example : parseNodes (asciiEnv "$M.y") = some [(.member, 0, 4)] ∧
    parseNodes (shiftEnv 3 (asciiEnv "$M.y")) = some [(.bypass, 0, 3), (.member, 3, 7)] := by
  decide +kernel

/-- the empty query: accepted without nodes; shifted, one bypass node -/
example : parseNodes (asciiEnv "") = some [] ∧
    parseNodes (shiftEnv 3 (asciiEnv "")) = some [(.bypass, 0, 3)] := by
  decide +kernel

/-- ... and on the observations: the text of the first bypass node gets the newlines -/
example : modelObs (shiftEnv 2 (asciiEnv "a$M.y")) =
    .ok [{ kind := .bypass, raw := #[10, 10, 97] },
         { kind := .member, raw := #[36, 77, 46, 121], types := [{ ty := #[77], member := #[121] }] }] := by
  decide +kernel

/-- `shiftOK 0` is not reflexive: a rejected single-line query shows no line, while
    `shiftOK` expects `some (1 + 0)`.  Hence the hypothesis `0 < k` (the harness predicate
    `holdsC19` skips `k = 0` for the same reason). -/
theorem shiftOK_zero_counterexample :
    ∃ E : Env, DecOK E ∧ DecLocal E ∧ ClassSep E ∧
      shiftOK 0 (modelObs E) (modelObs (shiftEnv 0 E)) = false :=
  ⟨asciiEnv "&T", asciiEnv_DecOK _, asciiEnv_DecLocal _, asciiEnv_ClassSep _, by decide +kernel⟩

end Sqlair
