/-
  Spec/L1: observations of the parser layer and the executable `holds` predicates of the
  parser properties (C01 tiling, C02 opacity of literals/comments, C19 error positions).
  The predicates are what the theorems in SqlairProofs/Props are about *and* what the
  driver evaluates on the implementation's observations.
-/
import SqlairModel.Lexer

namespace Sqlair

/-- an observed node: like `Seg` but carrying its raw text instead of a span -/
structure OSeg where
  kind : SegKind
  raw : Bytes
  cols : List Col := []
  types : List Acc := []
  vals : List Val := []
deriving DecidableEq, Repr, Inhabited

inductive ParseObs where
  | ok (segs : List OSeg)
  /-- line: as printed (absent for single-line input); col: absent if the error text
      carries no position at all -/
  | err (line : Option Nat) (col : Option Nat) (msg : Bytes)
deriving DecidableEq, Repr, Inhabited

def Seg.toOSeg (inp : Bytes) (s : Seg) : OSeg :=
  { kind := s.kind, raw := inp.extract s.a s.b, cols := s.cols, types := s.types, vals := s.vals }

def bytesOfStr (s : String) : Bytes := s.toUTF8.data

/-- port of the `fmt` formats of the parser's error messages -/
def EKind.render : EKind → Bytes
  | .missingQuote => bytesOfStr "missing closing quote in string literal"
  | .missingParen => bytesOfStr "missing closing parenthesis"
  | .sliceInOutput n => bytesOfStr "cannot use slice syntax \"" ++ n ++ bytesOfStr "[:]\" in output expression"
  | .sliceInOutputAnon => bytesOfStr "cannot use slice syntax in output expression"
  | .invalidSlice n => bytesOfStr "invalid slice: expected '" ++ n ++ bytesOfStr "[:]'"
  | .unqualified n => bytesOfStr "unqualified type, expected " ++ n ++ bytesOfStr ".* or " ++ n ++
      bytesOfStr ".<db tag> or " ++ n ++ bytesOfStr "[:]"
  | .invalidSuffix n => bytesOfStr "invalid identifier suffix following \"" ++ n ++ bytesOfStr "\""
  | .invalidInList => bytesOfStr "invalid expression in list"
  | .missingParens => bytesOfStr "missing closing parentheses"
  | .asMissingParens => bytesOfStr "missing parentheses around types after \"AS\""
  | .asUnexpectedParens => bytesOfStr "unexpected parentheses around types after \"AS\""
  | .funcIntoStar raw => bytesOfStr "cannot read function call \"" ++ raw ++ bytesOfStr "\" into asterisk"
  | .starInInput t => bytesOfStr "invalid asterisk placement in input \"$" ++ t ++ bytesOfStr ".*\""
  | .valuesMissingParens => bytesOfStr "missing parentheses around types after \"VALUES\""
  | .starInBasic => bytesOfStr "internal error: cannot have asterisk accessor in renaming expression"
  | .fuel => bytesOfStr "MODEL-OUT-OF-FUEL"

def Bytes.startsWith (b p : Bytes) : Bool := p.size ≤ b.size && b.extract 0 p.size == p
def Bytes.endsWith (b p : Bytes) : Bool := p.size ≤ b.size && b.extract (b.size - p.size) b.size == p

/-- does an observed message text match the model's error kind?  `%q` of arbitrary text
    (function calls) is Go's `strconv.Quote`, which is not modelled: only the fixed parts
    are compared for that kind. -/
def EKind.matches (k : EKind) (msg : Bytes) : Bool :=
  match k with
  | .funcIntoStar _ =>
    msg.startsWith (bytesOfStr "cannot read function call ") && msg.endsWith (bytesOfStr " into asterisk")
  | k => k.render == msg

def hasNewline (inp : Bytes) : Bool := inp.any (· == 10)

/-- (line, col) of byte offset `off` (1-based; a newline byte belongs to the line it ends) -/
def lineColOf (inp : Bytes) (off : Nat) : Nat × Nat :=
  let pre := inp.extract 0 off
  let line := 1 + (pre.toList.filter (· == 10)).length
  -- offset of the start of the current line
  let rec lastNl : Nat → Nat
    | 0 => 0
    | i+1 => if inp.getD i 0 == 10 then i+1 else lastNl i
  (line, off - lastNl (min off inp.size) + 1)

/-- is (line, col) the position of some offset `≤ inp.size`? -/
def posInRange (inp : Bytes) (line col : Nat) : Bool :=
  (List.range (inp.size + 1)).any (fun off => lineColOf inp off == (line, col))

/-- the model's observation -/
def modelObs (E : Env) : ParseObs :=
  match parse E with
  | .ok segs => .ok (segs.map (Seg.toOSeg E.inp))
  | .error e => .err (if hasNewline E.inp then some e.line else none) (some e.col) e.kind.render

/-- agreement of an implementation observation with the model's result -/
def agreesWithModel (E : Env) (obs : ParseObs) : Bool :=
  match parse E, obs with
  | .ok segs, .ok osegs => segs.map (Seg.toOSeg E.inp) == osegs
  | .error e, .err line col msg =>
    line == (if hasNewline E.inp then some e.line else none) && col == some e.col && e.kind.matches msg
  | _, _ => false

/-! ### C01 (parser part): the nodes tile the input -/
def flattenRaws (segs : List OSeg) : Bytes := segs.foldl (fun acc s => acc ++ s.raw) #[]

def holdsC01 (inp : Bytes) (obs : ParseObs) : Bool :=
  match obs with
  | .ok segs => flattenRaws segs == inp
  | .err .. => true

/-- the span of every expression node is exactly one expression: parsed on its own (by the
    model) the node's raw text yields that single node again.  A node that swallowed bytes
    in front of its expression (a `$` consumed by an abandoned attempt) fails this: those
    bytes would not reach the driver. -/
def exprSpansExact (E : Env) (obs : ParseObs) : Bool :=
  match obs with
  | .ok segs => segs.all fun s => s.kind == .bypass ||
      (match parse { E with inp := s.raw } with
       | .ok [one] => one.toOSeg s.raw == s
       | _ => false)
  | .err .. => true

/-! ### C02: literals and comments are opaque -/

/-- spans of the observed nodes, by cumulative length -/
def spansOf (segs : List OSeg) : List (SegKind × Nat × Nat) :=
  (segs.foldl (fun (acc : Nat × List (SegKind × Nat × Nat)) s =>
    (acc.1 + s.raw.size, (s.kind, acc.1, acc.1 + s.raw.size) :: acc.2)) (0, [])).2.reverse

def boundsOutsideRegions (regions : List Region) (spans : List (SegKind × Nat × Nat)) : Bool :=
  spans.all fun (k, a, b) =>
    k == .bypass || regions.all fun r => !(r.strictlyInside a) && !(r.strictlyInside b)

def holdsC02 (E : Env) (obs : ParseObs) : Bool :=
  match lexRegions E, obs with
  | .error _, .ok _ => false           -- an unclosed literal was accepted
  | .error _, .err .. => true
  | .ok _, .err .. => true
  | .ok regions, .ok segs => boundsOutsideRegions regions (spansOf segs)

/-! ### C02, metamorphic form: what a literal or comment contains does not matter -/

/-- the interior of a region: between the quotes of a literal; after `--` up to the end of
    a line comment; between `/*` and the closing `*/` (or the end of input) -/
def Region.interior (inp : Bytes) (r : Region) : Nat × Nat :=
  match r.kind with
  | .lit => (r.a + 1, r.b - 1)
  | .comment =>
    if inp.getD r.a 0 == 45 then (r.a + 2, r.b)
    else if r.a + 4 ≤ r.b && inp.getD (r.b - 2) 0 == 42 && inp.getD (r.b - 1) 0 == 47 then (r.a + 2, r.b - 2)
    else (r.a + 2, r.b)

/-- the input with the interior of every region overwritten by the letter `x`; newlines
    are kept (line numbers of later errors legitimately depend on them) -/
def blankRegions (inp : Bytes) (regions : List Region) : Bytes :=
  (List.range inp.size).foldl (fun acc i =>
    if inp.getD i 0 != 10 && regions.any (fun r => let (lo, hi) := r.interior inp; lo ≤ i && i < hi) then acc.push 120
    else acc.push (inp.getD i 0)) (Array.mkEmpty inp.size)

/-- kinds and sizes of the nodes, or the position of the error -/
def ParseObs.shape : ParseObs → Except (Option Nat × Option Nat) (List (SegKind × Nat))
  | .ok segs => .ok (segs.map fun s => (s.kind, s.raw.size))
  | .err line col _ => .error (line, col)

/-- C02 as a relation between two runs: the query and the query with its literal and
    comment interiors blanked are parsed into the same node structure (or rejected at the
    same position) -/
def holdsC02opaque (orig blanked : ParseObs) : Bool :=
  match orig.shape, blanked.shape with
  | .ok a, .ok b => a == b
  | .error a, .error b => a == b
  | _, _ => false

/-! ### C19: error positions -/

/-- one rejected query: the error names a column, a line iff the input has several lines,
    and the position lies inside the text -/
def errorPositionOK (inp : Bytes) (obs : ParseObs) : Bool :=
  match obs with
  | .ok _ => true
  | .err line col _ =>
    match col with
    | none => false
    | some c =>
      (line.isSome == hasNewline inp) && posInRange inp (line.getD 1) c

/-- the observation of `"\n"^k ++ q` is the observation of `q` moved by `k` lines -/
def shiftOK (k : Nat) (base shifted : ParseObs) : Bool :=
  match base, shifted with
  | .ok _, .ok _ => true
  | .err line col msg, .err line' col' msg' =>
    line' == some (line.getD 1 + k) && col' == col && msg' == msg
  | _, _ => false

def holdsC19 (inp : Bytes) (obs : ParseObs) (shifts : List (Nat × ParseObs)) : Bool :=
  errorPositionOK inp obs && shifts.all fun (k, o) => k == 0 || shiftOK k obs o

end Sqlair
