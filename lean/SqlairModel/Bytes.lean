/-
  Bytes: byte strings, Go-faithful UTF-8 decoding (port of utf8.DecodeRuneInString),
  ASCII helpers.  Core Lean only (this module is linked into the driver executable).
-/
namespace Sqlair

abbrev Bytes := Array UInt8

/-- Byte at `i` as a Nat (0 when out of range; every use is guarded). -/
@[inline] def bAt (b : Bytes) (i : Nat) : Nat := (b.getD i 0).toNat

/-- Port of Go's `utf8.DecodeRuneInString(s[pos:])` for `pos < s.size`:
    returns (rune, size).  Invalid encodings give (U+FFFD, 1).  For `pos ≥ size`
    it returns (U+FFFD, 0) as Go does for the empty string. -/
def decodeRune (s : Bytes) (pos : Nat) : Nat × Nat :=
  if pos ≥ s.size then (0xFFFD, 0) else
  let n := s.size - pos
  let s0 := bAt s pos
  if s0 < 0x80 then (s0, 1)
  else if s0 < 0xC2 then (0xFFFD, 1)
  else if s0 < 0xE0 then
    -- two bytes, second in 80..BF
    if n < 2 then (0xFFFD, 1) else
    let s1 := bAt s (pos+1)
    if s1 < 0x80 ∨ 0xBF < s1 then (0xFFFD, 1)
    else ((s0 % 0x20) * 64 + (s1 % 0x40), 2)
  else if s0 < 0xF0 then
    -- three bytes
    let lo := if s0 = 0xE0 then 0xA0 else 0x80
    let hi := if s0 = 0xED then 0x9F else 0xBF
    if n < 3 then (0xFFFD, 1) else
    let s1 := bAt s (pos+1)
    if s1 < lo ∨ hi < s1 then (0xFFFD, 1) else
    let s2 := bAt s (pos+2)
    if s2 < 0x80 ∨ 0xBF < s2 then (0xFFFD, 1)
    else ((s0 % 0x10) * 4096 + (s1 % 0x40) * 64 + (s2 % 0x40), 3)
  else if s0 < 0xF5 then
    let lo := if s0 = 0xF0 then 0x90 else 0x80
    let hi := if s0 = 0xF4 then 0x8F else 0xBF
    if n < 4 then (0xFFFD, 1) else
    let s1 := bAt s (pos+1)
    if s1 < lo ∨ hi < s1 then (0xFFFD, 1) else
    let s2 := bAt s (pos+2)
    if s2 < 0x80 ∨ 0xBF < s2 then (0xFFFD, 1) else
    let s3 := bAt s (pos+3)
    if s3 < 0x80 ∨ 0xBF < s3 then (0xFFFD, 1)
    else ((s0 % 0x08) * 262144 + (s1 % 0x40) * 4096 + (s2 % 0x40) * 64 + (s3 % 0x40), 4)
  else (0xFFFD, 1)

/-- ASCII lower-casing of one byte value. -/
@[inline] def asciiLower (c : Nat) : Nat := if 65 ≤ c ∧ c ≤ 90 then c + 32 else c

/-- `strings.EqualFold(inp[pos:pos+kw.length], kw)` for an ASCII keyword `kw`:
    modelled as byte-wise ASCII case-insensitive comparison (DESIGN §3). -/
def foldEqAt (inp : Bytes) (pos : Nat) : List Nat → Bool
  | [] => true
  | k :: ks => asciiLower (bAt inp pos) == asciiLower k && foldEqAt inp (pos+1) ks

def Bytes.ofString (s : String) : Bytes := s.toUTF8.data

def hexDigit (n : Nat) : Char :=
  if n < 10 then Char.ofNat (48 + n) else Char.ofNat (87 + n)

def Bytes.toHex (b : Bytes) : String :=
  b.foldl (fun acc x => (acc.push (hexDigit (x.toNat / 16))).push (hexDigit (x.toNat % 16))) ""

def hexVal (c : Char) : Option Nat :=
  if '0' ≤ c ∧ c ≤ '9' then some (c.toNat - 48)
  else if 'a' ≤ c ∧ c ≤ 'f' then some (c.toNat - 87)
  else if 'A' ≤ c ∧ c ≤ 'F' then some (c.toNat - 55)
  else none

def Bytes.ofHex (s : String) : Option Bytes :=
  let rec go : List Char → Bytes → Option Bytes
    | [], acc => some acc
    | [_], _ => none
    | a :: b :: rest, acc =>
      match hexVal a, hexVal b with
      | some x, some y => go rest (acc.push (UInt8.ofNat (x * 16 + y)))
      | _, _ => none
  go s.toList #[]

end Sqlair
