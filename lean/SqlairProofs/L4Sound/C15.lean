/-
  L4Sound, C15: Get / Run / GetAll on the predicted observation.
-/
import SqlairProofs.L4Sound.Fetch

namespace Sqlair.Rt

/-! ### a clean run -/

theorem l4s_td_of_not_early {c : Case} (h : c.l4s_isEarly = false) : c.l4s_td = false := by
  simp [Case.l4s_td, l4s_pre_not_early h]

theorem l4s_cleanRun {c : Case} (h : c.cleanRun = true) :
    l4s_queryErr c = none ∧ c.l4s_td = false ∧ (c.script false).openErr = none ∧
      (c.script false).closeErr = none ∧ c.fetchErrAt = none := by
  unfold Case.cleanRun at h
  simp only [Bool.and_eq_true, Bool.not_eq_true', Option.isNone_iff_eq_none, Bool.and_eq_false_iff,
    bne_eq_false_iff_eq] at h
  obtain ⟨⟨⟨⟨⟨h1, h2⟩, h3⟩, h4⟩, h5⟩, h6⟩ := h
  have hne : c.l4s_isEarly = false := by
    unfold Case.l4s_isEarly
    rcases h6 with h6 | h6
    · simp [h6]
    · simp [h6]
  refine ⟨?_, l4s_td_of_not_early hne, ?_, by simp [Case.script, h4], h5⟩
  · unfold l4s_queryErr
    rcases h6 with h6 | h6 <;> simp [h6]
  · simp [Script.openErr, Case.script, h1, h2, h3]

/-! ### results of the operation -/

theorem l4s_queryErr_cases (c : Case) : l4s_queryErr c = none ∨ l4s_queryErr c = some .txDone := by
  unfold l4s_queryErr; split <;> simp

/-- `Get` / `Run` reporting success on a statement with outputs stored the first row -/
theorem l4s_getSpec_ok {s : Script} {call : GetCall} (h : (getSpec s call).err = none) (ho : s.hasOutputs = true) :
    ∃ row rest, s.fetch = .ok row :: rest ∧ (getSpec s call).stored = some row.id := by
  unfold getSpec at h ⊢
  simp only [ho, Bool.not_true, Bool.false_and, Bool.false_eq_true, if_false] at h ⊢
  cases hoe : s.openErr with
  | some e => simp [hoe] at h
  | none =>
    simp only [hoe] at h ⊢
    cases hf : s.fetch with
    | nil => simp [hf] at h
    | cons x rest =>
      cases x with
      | error e => simp [hf] at h
      | ok row =>
        refine ⟨row, rest, rfl, ?_⟩
        simp only [hf] at h ⊢
        split at h
        · simp at h
        · split at h
          · rename_i h1 h2; simp [h1, h2]
          · simp at h

/-! ### the parts of `holdsC15` -/

def l4s_c15a (c : Case) (o : Obs) : Bool :=
  (!(c.cleanRun && c.hasOutputs && c.nrows == 0 &&
      (c.op == "get" || c.op == "run" ||
       (c.op == "getall" && (c.dests.startsWith "valid" || c.dests == "invalid" || c.dests == "none" ||
          c.dests == "sliceint" || c.dests == "sliceptrint"))))
    || (o.returns.headD "") == "noRows")

def l4s_c15gr (c : Case) (o : Obs) : Bool :=
  ((o.returns.headD "") != "noRows" || (c.hasOutputs && o.stored == 0 && c.fetchErrAt != some 0 && c.nrows == 0)) &&
  (!(c.op == "get" && (o.returns.headD "") == "" && c.hasOutputs &&
      (c.dests == "valid" || c.dests == "outcome+valid" || c.dests == "niloutcome+valid"))
    || o.stored == 1) &&
  (!(c.op == "get" && (o.returns.headD "") == "" && c.dests.startsWith "outcome") ||
    o.outcome == (if c.hasOutputs then "nil" else "r:7"))

def l4s_c15ga (c : Case) (o : Obs) : Bool :=
  o.priorKept && o.rowsFaithful &&
    (if (o.returns.headD "") == "" then o.appended == (List.range c.nrows).map (· + 1) || !c.hasOutputs
     else o.appended.isEmpty)

theorem l4s_holdsC15_eq (c : Case) (o : Obs) :
    holdsC15 c o = (l4s_c15a c o && match c.op with
      | "get" | "run" => l4s_c15gr c o
      | "getall" => l4s_c15ga c o
      | _ => true) := rfl

theorem l4s_holdsC15_other {c : Case} (o : Obs) (h1 : c.op ≠ "get") (h2 : c.op ≠ "run") (h3 : c.op ≠ "getall") :
    holdsC15 c o = true := by
  rw [l4s_holdsC15_eq]
  have ha : l4s_c15a c o = true := by
    unfold l4s_c15a; simp [h1, h2, h3]
  rw [ha]
  split
  · exact absurd ‹_› h1
  · exact absurd ‹_› h2
  · exact absurd ‹_› h3
  · rfl

/-- the three facts `holdsC15` needs of a Get / Run -/
theorem l4s_holdsC15_of_getrun {c : Case} {o : Obs} (hop : c.op = "get" ∨ c.op = "run")
    (g1 : c.cleanRun = true → c.hasOutputs = true → c.nrows = 0 → o.returns.headD "" = "noRows")
    (g2 : o.returns.headD "" = "noRows" →
      c.hasOutputs = true ∧ o.stored = 0 ∧ c.fetchErrAt ≠ some 0 ∧ c.nrows = 0)
    (g3 : c.op = "get" → o.returns.headD "" = "" → c.hasOutputs = true → o.stored = 1)
    (g4 : c.op = "get" → o.returns.headD "" = "" → c.dests.startsWith "outcome" = true →
      o.outcome = (if c.hasOutputs then "nil" else "r:7")) :
    holdsC15 c o = true := by
  rw [l4s_holdsC15_eq]
  have ha : l4s_c15a c o = true := by
    unfold l4s_c15a
    simp only [Bool.or_eq_true, Bool.not_eq_true', beq_iff_eq]
    by_cases h1 : c.cleanRun = true
    · by_cases h2 : c.hasOutputs = true
      · by_cases h3 : c.nrows = 0
        · exact .inr (g1 h1 h2 h3)
        · left; simp [h3]
      · left; simp [h2]
    · left; simp [h1]
  have hgr : l4s_c15gr c o = true := by
    unfold l4s_c15gr
    simp only [Bool.and_eq_true, Bool.or_eq_true, bne_iff_ne, ne_eq, Bool.not_eq_true', beq_iff_eq,
      Bool.and_eq_false_iff]
    refine ⟨⟨?_, ?_⟩, ?_⟩
    · by_cases hr : o.returns.headD "" = "noRows"
      · obtain ⟨a, b, c', d⟩ := g2 hr
        right
        refine ⟨⟨⟨a, b⟩, ?_⟩, d⟩
        simpa using c'
      · exact .inl hr
    · by_cases h1 : c.op = "get"
      · by_cases h2 : o.returns.headD "" = ""
        · by_cases h3 : c.hasOutputs = true
          · exact .inr (g3 h1 h2 h3)
          · left; left; right; simpa using h3
        · left; left; left; right; simpa using h2
      · left; left; left; left; simpa using h1
    · by_cases h1 : c.op = "get"
      · by_cases h2 : o.returns.headD "" = ""
        · by_cases h3 : c.dests.startsWith "outcome" = true
          · exact .inr (g4 h1 h2 h3)
          · left; right; simpa using h3
        · left; left; right; simpa using h2
      · left; left; left; simpa using h1
  rw [ha]
  rcases hop with h | h <;> simp only [h, hgr] <;> rfl

theorem l4s_holdsC15_of_getall {c : Case} {o : Obs} (hop : c.op = "getall")
    (hpk : o.priorKept = true) (hrf : o.rowsFaithful = true)
    (a1 : c.cleanRun = true → c.hasOutputs = true → c.nrows = 0 →
      (c.dests.startsWith "valid" = true ∨ c.dests = "invalid" ∨ c.dests = "none" ∨ c.dests = "sliceint" ∨
        c.dests = "sliceptrint") → o.returns.headD "" = "noRows")
    (a2 : o.returns.headD "" = "" → o.appended = (List.range c.nrows).map (· + 1) ∨ c.hasOutputs = false)
    (a3 : o.returns.headD "" ≠ "" → o.appended = []) :
    holdsC15 c o = true := by
  rw [l4s_holdsC15_eq]
  have ha : l4s_c15a c o = true := by
    unfold l4s_c15a
    simp only [Bool.or_eq_true, Bool.not_eq_true', beq_iff_eq]
    by_cases h1 : c.cleanRun = true
    · by_cases h2 : c.hasOutputs = true
      · by_cases h3 : c.nrows = 0
        · by_cases h4 : (c.dests.startsWith "valid" = true ∨ c.dests = "invalid" ∨ c.dests = "none" ∨
              c.dests = "sliceint" ∨ c.dests = "sliceptrint")
          · exact .inr (a1 h1 h2 h3 h4)
          · left
            have hg : c.op ≠ "get" := by rw [hop]; decide
            have hr : c.op ≠ "run" := by rw [hop]; decide
            simp only [not_or] at h4
            simp [hg, hr, h4.1, h4.2.1, h4.2.2.1, h4.2.2.2.1, h4.2.2.2.2]
        · left; simp [h3]
      · left; simp [h2]
    · left; simp [h1]
  have hga : l4s_c15ga c o = true := by
    unfold l4s_c15ga
    simp only [hpk, hrf, Bool.and_self, Bool.true_and]
    by_cases hr : o.returns.headD "" = ""
    · simp only [hr, beq_self_eq_true, if_true]
      rcases a2 hr with h | h
      · simp [h]
      · simp [h]
    · have : (o.returns.headD "" == "") = false := by simpa using hr
      simp only [this, Bool.false_eq_true, if_false]
      simp [a3 hr]
  rw [ha]
  simp only [hop, hga]
  rfl

/-! ### the observation's result fields -/

theorem l4s_obs_returns (win : String) (c : Case) (p : Pred) : (predObsW win c p).returns = p.returns := rfl
theorem l4s_obs_stored (win : String) (c : Case) (p : Pred) : (predObsW win c p).stored = p.stored := rfl
theorem l4s_obs_appended (win : String) (c : Case) (p : Pred) : (predObsW win c p).appended = p.appended := rfl
theorem l4s_single_returns (c : Case) : (l4s_predictSingle c).returns = (l4s_m c).1.returns := rfl
theorem l4s_single_stored (c : Case) : (l4s_predictSingle c).stored = (l4s_m c).1.stored := rfl
theorem l4s_single_appended (c : Case) : (l4s_predictSingle c).appended = (l4s_m c).1.appended := rfl
theorem l4s_single_outcome (c : Case) : (l4s_predictSingle c).outcome = (l4s_m c).1.outcome := rfl

/-- Get / Run: what the operation returns and stores -/
theorem l4s_m_getrun {c : Case} (hop : c.op = "get" ∨ c.op = "run") :
    (l4s_queryErr c = some .txDone ∧ (l4s_m c).1.returns = ["txDone"] ∧ (l4s_m c).1.stored = 0) ∨
    (l4s_queryErr c = none ∧ ∃ call : GetCall,
      (l4s_m c).1.returns = [renderOpt (queryGet (c.script c.l4s_td) call (l4s_w1 c)).1.err] ∧
      ((l4s_m c).1.stored = (queryGet (c.script c.l4s_td) call (l4s_w1 c)).1.stored.getD 0 ∨
       ((l4s_m c).1.stored = 0 ∧ c.op = "run"))) := by
  have hni : c.op ≠ "iter" := by rcases hop with h | h <;> rw [h] <;> decide
  rcases l4s_queryErr_cases c with hq | hq
  · right
    refine ⟨hq, ?_⟩
    rcases hop with h | h
    · exact ⟨l4s_getCall c, by unfold l4s_m; rw [l4s_mid_get hq h]; rfl, .inl (by unfold l4s_m; rw [l4s_mid_get hq h]; rfl)⟩
    · exact ⟨{}, by unfold l4s_m; rw [l4s_mid_run hq h]; rfl, .inr ⟨by unfold l4s_m; rw [l4s_mid_run hq h]; rfl, h⟩⟩
  · left
    refine ⟨hq, ?_, ?_⟩
    · unfold l4s_m; rw [l4s_mid_of_err hq, l4s_midErr_other hni]; rfl
    · unfold l4s_m; rw [l4s_mid_of_err hq, l4s_midErr_other hni]

/-- the Outcome a successful `Get` fills -/
theorem l4s_getSpec_ok_outcome {s : Script} {call : GetCall} (h : (getSpec s call).err = none) :
    (getSpec s call).outcome =
      if call.outcome then some (if s.hasOutputs then none else some s.result) else none := by
  unfold getSpec at h ⊢
  cases hrej : (!s.hasOutputs && decide (call.dests > 0))
  · simp only [hrej, Bool.false_eq_true, if_false] at h ⊢
    cases hoe : s.openErr with
    | some e => simp [hoe] at h
    | none =>
      simp only [hoe] at h ⊢
      cases hout : s.hasOutputs with
      | false => simp
      | true =>
        simp only [hout, Bool.not_true, Bool.false_eq_true, if_false] at h ⊢
        cases hf : s.fetch with
        | nil => simp [hf] at h
        | cons x rest =>
          cases x with
          | error e => simp [hf] at h
          | ok row =>
            simp only [hf] at h ⊢
            split at h
            · simp at h
            · rename_i h1
              simp only [h1]
              split at h
              · rename_i h2; simp [h2]
              · simp at h
  · simp [hrej] at h

theorem l4s_holdsC15_getrun (win : String) {c : Case} (hop : c.op = "get" ∨ c.op = "run") :
    holdsC15 c (predObsW win c (l4s_predictSingle c)) = true := by
  apply l4s_holdsC15_of_getrun hop
  all_goals simp only [l4s_obs_returns, l4s_obs_stored, l4s_single_returns, l4s_single_stored]
  · intro h1 h2 h3
    obtain ⟨hq, htd, hoe, hce, hfe⟩ := l4s_cleanRun h1
    rcases l4s_m_getrun hop with ⟨hq', _⟩ | ⟨_, call, hr, _⟩
    · rw [hq] at hq'; cases hq'
    · rw [hr, htd]
      have : (queryGet (c.script false) call (l4s_w1 c)).1.err = some .noRows := by
        rw [get_noRows_iff_partial _ _ _ (l4s_script_noInjectedNoRows c false)]
        exact ⟨h2, by simp [Script.runsOK, hoe], l4s_fetch_nil.2 ⟨h3, hfe⟩, hce⟩
      rw [this]; rfl
  · intro hr
    rcases l4s_m_getrun hop with ⟨_, hr', _⟩ | ⟨_, call, hr', hst⟩
    · rw [hr'] at hr; exact absurd hr (by decide)
    · rw [hr'] at hr
      have herr : (queryGet (c.script c.l4s_td) call (l4s_w1 c)).1.err = some .noRows := by
        cases he : (queryGet (c.script c.l4s_td) call (l4s_w1 c)).1.err with
        | none => rw [he] at hr; exact absurd hr (by decide)
        | some e => rw [he] at hr; rw [l4s_render_eq_noRows.1 hr]
      have hinj := l4s_script_noInjectedNoRows c c.l4s_td
      obtain ⟨h1, _, h3, _⟩ := (get_noRows_iff_partial _ _ _ hinj).1 herr
      have hst0 := get_noRows_stores_nothing _ _ _ hinj herr
      obtain ⟨hn, hf⟩ := l4s_fetch_nil.1 h3
      refine ⟨h1, ?_, by rw [hf]; simp, hn⟩
      rcases hst with hst | ⟨hst, _⟩
      · rw [hst, hst0]; rfl
      · exact hst
  · intro hget hr ho
    rcases l4s_m_getrun hop with ⟨_, hr', _⟩ | ⟨_, call, hr', hst⟩
    · rw [hr'] at hr; exact absurd hr (by decide)
    · rw [hr'] at hr
      have herr : (queryGet (c.script c.l4s_td) call (l4s_w1 c)).1.err = none := l4s_renderOpt_eq_empty.1 hr
      rw [queryGet_fst] at herr
      obtain ⟨row, rest, hf, hs⟩ := l4s_getSpec_ok herr ho
      have hrow := l4s_fetch_head_ok hf
      rcases hst with hst | ⟨_, hrun⟩
      · rw [hst, queryGet_fst, hs, hrow]; rfl
      · rw [hget] at hrun; exact absurd hrun (by decide)
  · intro hget hr hoc
    show (l4s_m c).1.outcome = _
    have hni : c.op ≠ "iter" := by rw [hget]; decide
    rcases l4s_queryErr_cases c with hq | hq
    · have hret : (l4s_m c).1.returns = [renderOpt (queryGet (c.script c.l4s_td) (l4s_getCall c) (l4s_w1 c)).1.err] := by
        unfold l4s_m; rw [l4s_mid_get hq hget]; rfl
      have hout : (l4s_m c).1.outcome =
          if (l4s_getCall c).outcome then
            (match (queryGet (c.script c.l4s_td) (l4s_getCall c) (l4s_w1 c)).1.outcome with
              | some (some n) => s!"r:{n}" | _ => "nil")
          else "" := by
        unfold l4s_m; rw [l4s_mid_get hq hget]; rfl
      rw [hret] at hr
      have herr : (queryGet (c.script c.l4s_td) (l4s_getCall c) (l4s_w1 c)).1.err = none :=
        l4s_renderOpt_eq_empty.1 hr
      rw [queryGet_fst] at herr
      have hco : (l4s_getCall c).outcome = true := hoc
      rw [hout, queryGet_fst, l4s_getSpec_ok_outcome herr, hco]
      have hres : (c.script c.l4s_td).result = 7 := rfl
      have hho : (c.script c.l4s_td).hasOutputs = c.hasOutputs := rfl
      rw [hres, hho]
      cases c.hasOutputs
      · decide
      · rfl
    · have hret : (l4s_m c).1.returns = ["txDone"] := by
        unfold l4s_m; rw [l4s_mid_of_err hq, l4s_midErr_other hni]; rfl
      rw [hret] at hr; exact absurd hr (by decide)

/-! ### GetAll -/

/-- the argument lists of the destination forms that are not refused up front -/
theorem l4s_getAllArgs_accepted {c : Case}
    (h : c.dests.startsWith "valid" = true ∨ c.dests = "invalid" ∨ c.dests = "none" ∨ c.dests = "sliceint" ∨
      c.dests = "sliceptrint") :
    l4s_getAllArgs c = [] ∨ l4s_getAllArgs c = [.ok] ∨ l4s_getAllArgs c = [.badElem] ∨
      l4s_getAllArgs c = [.ok, .badElem] := by
  rcases h with h | h | h | h | h
  · have hne : ∀ lit : String, lit.startsWith "valid" = false → c.dests ≠ lit := by
      intro lit hl heq; rw [heq, hl] at h; cases h
    right; left
    unfold l4s_getAllArgs
    simp [hne "none" (by decide +kernel), hne "nonptr" (by decide +kernel), hne "nilptr" (by decide +kernel),
      hne "ptrnonslice" (by decide +kernel), hne "sliceint" (by decide +kernel), hne "sliceptrint" (by decide +kernel)]
  · right; left; unfold l4s_getAllArgs; simp [h]
  · left; unfold l4s_getAllArgs; simp [h]
  · right; right; left; unfold l4s_getAllArgs; simp [h]
  · right; right; right; unfold l4s_getAllArgs; simp [h]

theorem l4s_getAllSpec_empty {s : Script} (ho : s.hasOutputs = true) (hoe : s.openErr = none)
    (hf : s.fetch = []) (hce : s.closeErr = none) (n : Nat) (dv : Bool) :
    getAllSpec s n dv = { err := some .noRows } := by
  unfold getAllSpec
  simp [ho, hoe, hf, hce, loopRes]

theorem l4s_getAllArgsSpec_empty {s : Script} (ho : s.hasOutputs = true) (hoe : s.openErr = none)
    (hf : s.fetch = []) (hce : s.closeErr = none) {args : List SliceArg}
    (ha : args = [] ∨ args = [.ok] ∨ args = [.badElem] ∨ args = [.ok, .badElem]) (dv : Bool) :
    (l4s_getAllArgsSpec s args dv).err = some .noRows := by
  unfold l4s_getAllArgsSpec
  rcases ha with rfl | rfl | rfl | rfl
  · simp [ho, l4s_getAllSpec_empty ho hoe hf hce]
  · simp [ho, SliceArg.rejectedUpFront, l4s_getAllSpec_empty ho hoe hf hce]
  · simp [ho, SliceArg.rejectedUpFront, hoe, hf, hce]
  · simp [ho, SliceArg.rejectedUpFront, hoe, hf, hce]

theorem l4s_getAllArgsSpec_appended (s : Script) (args : List SliceArg) (dv : Bool)
    (h : (l4s_getAllArgsSpec s args dv).err ≠ none) : (l4s_getAllArgsSpec s args dv).appended = [] := by
  unfold l4s_getAllArgsSpec at h ⊢
  split
  · rfl
  · split
    · rfl
    · split
      · repeat' split
        all_goals rfl
      · rename_i h1 h2 h3
        simp only [h1, h2, h3, if_false, Bool.false_eq_true] at h
        have := getAll_all_or_nothing s args.length dv {}
        rw [queryGetAll_fst] at this
        exact this h

/-- success of `GetAll` on a statement with outputs: every row, in order -/
theorem l4s_getAllArgsSpec_ok {s : Script} {args : List SliceArg} {dv : Bool}
    (h : (l4s_getAllArgsSpec s args dv).err = none) (ho : s.hasOutputs = true) :
    (∀ x ∈ s.fetch, ∃ row, x = Except.ok row ∧ row.scanOK = true) ∧
    (l4s_getAllArgsSpec s args dv).appended = (okRows s.fetch).map (·.id) := by
  unfold l4s_getAllArgsSpec at h ⊢
  split at h
  · simp at h
  · split at h
    · simp at h
    · split at h
      · exfalso
        simp only [ho, Bool.not_true, Bool.false_eq_true, if_false] at h
        repeat' split at h
        all_goals simp at h
      · rename_i h1 h2 h3
        simp only [h1, h2, h3, if_false, Bool.false_eq_true]
        have h' : (queryGetAll s args.length dv {}).1.err = none := by rw [queryGetAll_fst]; exact h
        obtain ⟨_, g2, _, _, _, g6⟩ := getAll_success_complete s args.length dv {} h' ho
        rw [queryGetAll_fst] at g6
        exact ⟨g2, g6⟩

/-- GetAll: what the operation returns and appends -/
theorem l4s_m_getall {c : Case} (hop : c.op = "getall") :
    (l4s_queryErr c = some .txDone ∧ (l4s_m c).1.returns = ["txDone"] ∧ (l4s_m c).1.appended = []) ∨
    (l4s_queryErr c = none ∧ ∃ dv : Bool,
      (l4s_m c).1.returns = [renderOpt (l4s_getAllArgsSpec (c.script c.l4s_td) (l4s_getAllArgs c) dv).err] ∧
      (l4s_m c).1.appended = (l4s_getAllArgsSpec (c.script c.l4s_td) (l4s_getAllArgs c) dv).appended) := by
  have hni : c.op ≠ "iter" := by rw [hop]; decide
  rcases l4s_queryErr_cases c with hq | hq
  · right
    refine ⟨hq, c.dests.startsWith "valid" && !c.fewCols, ?_, ?_⟩
    · unfold l4s_m; rw [l4s_mid_getall hq hop]
      show [renderOpt (queryGetAllArgs _ _ _ _).1.err] = _
      rw [l4s_queryGetAllArgs_fst]
    · unfold l4s_m; rw [l4s_mid_getall hq hop]
      show (queryGetAllArgs _ _ _ _).1.appended = _
      rw [l4s_queryGetAllArgs_fst]
  · left
    refine ⟨hq, ?_, ?_⟩
    · unfold l4s_m; rw [l4s_mid_of_err hq, l4s_midErr_other hni]; rfl
    · unfold l4s_m; rw [l4s_mid_of_err hq, l4s_midErr_other hni]

theorem l4s_holdsC15_getall (win : String) {c : Case} (hop : c.op = "getall") :
    holdsC15 c (predObsW win c (l4s_predictSingle c)) = true := by
  apply l4s_holdsC15_of_getall hop rfl rfl
  all_goals simp only [l4s_obs_returns, l4s_obs_appended, l4s_single_returns, l4s_single_appended]
  · intro h1 h2 h3 h4
    obtain ⟨hq, htd, hoe, hce, hfe⟩ := l4s_cleanRun h1
    rcases l4s_m_getall hop with ⟨hq', _⟩ | ⟨_, dv, hr, _⟩
    · rw [hq] at hq'; cases hq'
    · rw [hr, htd, l4s_getAllArgsSpec_empty (s := c.script false) h2 hoe (l4s_fetch_nil.2 ⟨h3, hfe⟩) hce
        (l4s_getAllArgs_accepted h4)]
      rfl
  · intro hr
    rcases l4s_m_getall hop with ⟨_, hr', _⟩ | ⟨_, dv, hr', ha⟩
    · rw [hr'] at hr; exact absurd hr (by decide)
    · rw [hr'] at hr
      have herr := l4s_renderOpt_eq_empty.1 hr
      cases ho : c.hasOutputs with
      | false => exact .inr rfl
      | true =>
        left
        obtain ⟨g1, g2⟩ := l4s_getAllArgsSpec_ok herr (s := c.script c.l4s_td) ho
        rw [ha, g2]
        exact (l4s_fetch_all_ok g1).2
  · intro hr
    rcases l4s_m_getall hop with ⟨_, _, ha⟩ | ⟨_, dv, hr', ha⟩
    · exact ha
    · rw [ha]
      apply l4s_getAllArgsSpec_appended
      intro hnone
      rw [hr', hnone] at hr
      exact hr rfl

/-! ### C15, all cases -/

theorem l4s_holdsC15_all (win : String) (c : Case) : holdsC15 c (predObsW win c (predict c)) = true := by
  by_cases h1 : c.op = "get"
  · rw [l4s_predict_single (by rw [h1]; decide)]; exact l4s_holdsC15_getrun win (.inl h1)
  · by_cases h2 : c.op = "run"
    · rw [l4s_predict_single (by rw [h2]; decide)]; exact l4s_holdsC15_getrun win (.inr h2)
    · by_cases h3 : c.op = "getall"
      · rw [l4s_predict_single (by rw [h3]; decide)]; exact l4s_holdsC15_getall win h3
      · exact l4s_holdsC15_other _ h1 h2 h3

end Sqlair.Rt
