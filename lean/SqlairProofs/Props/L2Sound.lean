/-
  Props/L2Sound: the observation-level predicates of `SqlairModel/Spec/L2.lean` are theorems
  of the model.

  `modelBindObs pq` is the observation a run produces that behaves exactly like the model
  (`bindTypes` and `bindInputs` succeed with `pq`; the driver receives `renderSQL pq.pieces`
  and the parameters `sqlair_<n>`).  For ALL classifiers, type tables, nodes, samples and
  arguments:

  * `c03_present_model`   : `holdsC03present args (modelBindObs pq) = true`
                            (under the explicit bound `args.all (GoVal.l2s_fits 16)`: height
                            at most 16, no `.invalid` node — both needed, witnesses below);
    `c03_present_fuelfree`: the fuel-free form, for ALL arguments: every driver value is the
                            text of a node (`L2sIn`) of an argument;
  * `literals_verbatim_model` : `literalsVerbatim segs (modelBindObs pq) = true`;
  * `c01_exact_model`         : `holdsC01exact segs (modelBindObs pq) = true`.

  So, when the implementation agrees with the model, these predicates cannot raise a false
  alarm.  Helper lemmas: `SqlairProofs/L2Sound/*.lean`.
-/
import SqlairProofs.L2Sound.Defs
import SqlairProofs.L2Sound.Present
import SqlairProofs.L2Sound.Bytes
import SqlairProofs.L2Sound.Nodes
import SqlairProofs.L2Sound.Literals
import SqlairProofs.L2Sound.Exact
import SqlairProofs.L2Sound.Agree
import SqlairProofs.L2Sound.Chunks
import SqlairProofs.Props.Bind

namespace Sqlair

/-! ## fixtures (non-vacuity witnesses)

  Type table: `type U struct { C string "db:c" }`, `type S []string`, `string`. -/
namespace L2sEx

def C : Cls := PrepExample.C

def tt : TypeTable := #[
  { kind := .struct, kindStr := "struct", name := bs "U", fields := [
      { name := bs "C", tag := bs "c", exported := true, anon := false, ty := 2 }] },
  { kind := .slice, kindStr := "slice", name := bs "S", elem := 2 },
  { kind := .string, kindStr := "string", name := #[] } ]

def fc : SField := { name := bs "C", tag := bs "c", omitEmpty := false, index := [0] }

def leaf (s : String) : GoVal := .leaf { t := 2, zero := false, r := s }
def argU : GoVal := .struct { t := 0, zero := false, r := "{U}" } [leaf "c"]
def argS : GoVal := .slice { t := 1, zero := false, r := "[S]" } [leaf "x", leaf "y", leaf "z"]

/-- `SELECT x WHERE a=$U.c AND b IN ($S[:])` -/
def segsIn : List OSeg := [
  { kind := .bypass, raw := bs "SELECT x WHERE a=" },
  { kind := .member, raw := bs "$U.c", types := [{ ty := bs "U", member := bs "c" }] },
  { kind := .bypass, raw := bs " AND b IN (" },
  { kind := .slice, raw := bs "$S[:]", types := [{ ty := bs "S", member := #[] }] },
  { kind := .bypass, raw := bs ")" } ]

def tesIn : List TExpr := [
  .bypass (bs "SELECT x WHERE a="), .input (.field 0 (bs "U") fc), .bypass (bs " AND b IN ("),
  .input (.slice 1 (bs "S")), .bypass (bs ")") ]

def pqIn : Primed :=
  { pieces := [.text (bs "SELECT x WHERE a="), .inputs 0 1, .text (bs " AND b IN ("), .inputs 1 3,
      .text (bs ")")],
    params := [(0, "c"), (1, "x"), (2, "y"), (3, "z")],
    outputs := [] }

theorem prepIn : bindTypes C tt segsIn [some 0, some 1] = .ok tesIn := by rfl
theorem bindIn : bindInputs tt tesIn [argU, argS] = .ok pqIn := by rfl

example : renderSQL pqIn.pieces = bs "SELECT x WHERE a=@sqlair_0 AND b IN (@sqlair_1, @sqlair_2, @sqlair_3)" := by
  decide +kernel

/-- `INSERT INTO t (c, d) VALUES ($U.c, 'x y')` -/
def segsLit : List OSeg := [
  { kind := .bypass, raw := bs "INSERT INTO t " },
  { kind := .basicInsert, raw := bs "(c, d) VALUES ($U.c, 'x y')",
    cols := [{ table := #[], column := bs "c", func := false }, { table := #[], column := bs "d", func := false }],
    vals := [.acc { ty := bs "U", member := bs "c" }, .lit (bs "'x y'")] } ]

def tesLit : List TExpr := [
  .bypass (bs "INSERT INTO t "),
  .insert [.insert (.field 0 (bs "U") fc) (bs "c") true, .literal (bs "d") (bs "'x y'")] ]

def pqLit : Primed :=
  { pieces := [.text (bs "INSERT INTO t "), .insert [bs "c", bs "d"] [[.ph 0, .lit (bs "'x y'")]]],
    params := [(0, "c")],
    outputs := [] }

theorem prepLit : bindTypes C tt segsLit [some 0] = .ok tesLit := by rfl
theorem bindLit : bindInputs tt tesLit [argU] = .ok pqLit := by rfl

example : renderSQL pqLit.pieces = bs "INSERT INTO t (c, d) VALUES (@sqlair_0, 'x y')" := by decide +kernel

end L2sEx

/-! ## C03, value level: nothing is made up -/

/-- C03 (value level, fuel-free, for ALL typed expressions and ALL arguments): every value the
    model hands to the driver is the driver text `v.h.r` of a node `v` of one of the argument
    trees (`L2sIn v k a`: reached from the argument `a` in `k` steps through struct fields,
    non-nil pointers, map values and slice elements). -/
theorem c03_present_fuelfree {tt : TypeTable} {tes : List TExpr} {args : List GoVal} {pq : Primed}
    (hb : bindInputs tt tes args = .ok pq) :
    ∀ p ∈ (modelBindObs pq).params, ∃ a ∈ args, ∃ v k, L2sIn v k a ∧ p.2 = v.h.r := by
  intro p hp
  simp only [modelBindObs, List.mem_map] at hp
  obtain ⟨q, hq, rfl⟩ := hp
  exact l2s_params_from_args hb q hq

/-- C03 (value level, Boolean form) for ARBITRARY typed expressions (not only those
    `bindTypes` produces): the parameters are among `GoVal.texts 16` of the arguments as soon
    as the fuel 16 covers the height of the arguments and no node is `.invalid`
    (`l2s_params_in_texts` is the same for every fuel `d`) -/
theorem c03_present_bound {tt : TypeTable} {tes : List TExpr} {args : List GoVal} {pq : Primed}
    (hb : bindInputs tt tes args = .ok pq) (hd : args.all (GoVal.l2s_fits 16) = true) :
    holdsC03present args (modelBindObs pq) = true := by
  unfold holdsC03present
  rw [l2s_guard]
  simp only [Bool.false_eq_true, if_false, List.all_eq_true]
  intro p hp
  simp only [modelBindObs, List.mem_map] at hp
  obtain ⟨q, hq, rfl⟩ := hp
  obtain ⟨a, ha, hmem⟩ := l2s_params_in_texts hb hd q hq
  rw [List.contains_iff_mem, List.mem_flatMap]
  exact ⟨a, ha, hmem⟩

/-- C03 (`holdsC03present`) is a theorem of the model: on the observation the model itself
    produces, every value handed to the driver is found among the driver texts of the nodes of
    the argument trees.  Hypothesis `hd`: the arguments fit the fuel 16 of `GoVal.texts 16`
    (height at most 16; no `.invalid` node, which `GoVal.texts` does not list).  Both parts are
    needed: see `c03_present_needs_height` and `c03_present_needs_valid` below. -/
theorem c03_present_model {C : Cls} {tt : TypeTable} {segs : List OSeg} {samples : List (Option Nat)}
    {tes : List TExpr} {args : List GoVal} {pq : Primed}
    (_hp : bindTypes C tt segs samples = .ok tes) (hb : bindInputs tt tes args = .ok pq)
    (hd : args.all (GoVal.l2s_fits 16) = true) :
    holdsC03present args (modelBindObs pq) = true :=
  c03_present_bound hb hd

/-- the same under the well-formedness checker of the no-panic theorems (what Go's type
    system guarantees of every real `reflect.Value` of height at most 16) -/
theorem c03_present_model_valWF {C : Cls} {tt : TypeTable} {segs : List OSeg} {samples : List (Option Nat)}
    {tes : List TExpr} {args : List GoVal} {pq : Primed}
    (hp : bindTypes C tt segs samples = .ok tes) (hb : bindInputs tt tes args = .ok pq)
    (hd : args.all (valWF tt 16) = true) :
    holdsC03present args (modelBindObs pq) = true :=
  c03_present_model hp hb (List.all_eq_true.2 fun a ha => l2s_fits_of_valWF 16 a (List.all_eq_true.1 hd a ha))

/-- non-vacuity: a bulk insert with two rows, a single-value column, a literal column, a
    plain input and an output (six parameters); the theorem applies, and the predicate is
    evaluated on this non-trivial observation -/
example : holdsC03present BindExample.args (modelBindObs BindExample.expected) = true :=
  c03_present_bound BindExample.bindInputs_example (by decide +kernel)

example : (modelBindObs BindExample.expected).params =
    [("sqlair_0", "a0"), ("sqlair_2", "b0"), ("sqlair_4", "c"), ("sqlair_1", "a1"), ("sqlair_3", "b1"),
      ("sqlair_5", "c")] ∧
    holdsC03present BindExample.args (modelBindObs BindExample.expected) = true := by decide +kernel

/-- non-vacuity with `bindTypes`: prepared statement with a member and a slice input -/
example : holdsC03present [L2sEx.argU, L2sEx.argS] (modelBindObs L2sEx.pqIn) = true :=
  c03_present_model L2sEx.prepIn L2sEx.bindIn (by decide +kernel)

example : holdsC03present PrepExample.args
    (modelBindObs (match bindInputs PrepExample.tt PrepExample.tes PrepExample.args with
      | .ok pq => pq | .error _ => ⟨[], [], []⟩)) = true := by decide +kernel

/-- the predicate is not trivially true: a made-up value (`"C"` instead of `"c"`), or a
    truncated one, is rejected -/
example : holdsC03present [L2sEx.argU, L2sEx.argS]
    { modelBindObs L2sEx.pqIn with params := [("sqlair_0", "C"), ("sqlair_1", "x"), ("sqlair_2", "y"), ("sqlair_3", "z")] }
    = false := by decide +kernel

example : holdsC03present BindExample.args
    { modelBindObs BindExample.expected with params := [("sqlair_0", "a")] } = false := by decide +kernel

/-! ### the hypothesis `l2s_fits 16` is needed

  FINDING (model artefact / harness bound).  Without the height bound the Boolean statement

      ∀ C tt segs samples tes args pq, bindTypes C tt segs samples = .ok tes →
        bindInputs tt tes args = .ok pq → holdsC03present args (modelBindObs pq) = true

  is FALSE of the model.  Witness `c03_present_needs_height`: a struct `T0` embedding `T1`
  embedding … `T15`, whose field `A` (tag `a`) therefore sits 17 levels deep; `$T.a` is located
  by `bindInputs`, but `GoVal.texts 16` stops one level above it.  (The fuel-free statement
  `c03_present_fuelfree` holds of this run as of every run.) -/

def l2sDeepTT : TypeTable :=
  ((List.range 15).map fun i =>
    ({ kind := .struct, kindStr := "struct", name := bs "T", fields := [
        { name := bs "E", tag := #[], exported := true, anon := true, ty := i + 1 }] } : TypeDesc)).toArray ++
  #[{ kind := .struct, kindStr := "struct", name := bs "T", fields := [
        { name := bs "A", tag := bs "a", exported := true, anon := false, ty := 16 }] },
    { kind := .string, kindStr := "string", name := #[] }]

def l2sDeepVal : Nat → GoVal
  | 0 => .leaf { t := 16, zero := false, r := "deep" }
  | n + 1 => .struct { t := 15 - n, zero := false, r := "{}" } [l2sDeepVal n]

def l2sDeepSegs : List OSeg := [{ kind := .member, raw := bs "$T.a", types := [{ ty := bs "T", member := bs "a" }] }]

def l2sDeepTes : List TExpr :=
  [.input (.field 0 (bs "T") { name := bs "A", tag := bs "a", omitEmpty := false,
                               index := [0, 0, 0, 0, 0, 0, 0, 0, 0, 0, 0, 0, 0, 0, 0, 0] })]

def l2sDeepPq : Primed := { pieces := [.inputs 0 1], params := [(0, "deep")], outputs := [] }

theorem c03_present_needs_height :
    bindTypes PrepExample.C l2sDeepTT l2sDeepSegs [some 0] = .ok l2sDeepTes ∧
    bindInputs l2sDeepTT l2sDeepTes [l2sDeepVal 16] = .ok l2sDeepPq ∧
    holdsC03present [l2sDeepVal 16] (modelBindObs l2sDeepPq) = false ∧
    (l2sDeepVal 16).l2s_fits 16 = false ∧ (l2sDeepVal 16).l2s_fits 17 = true :=
  ⟨by rfl, by rfl, by decide +kernel, by decide +kernel, by decide +kernel⟩

/-! FINDING (model artefact).  An `.invalid` node inside an argument (no real `reflect.Value`
  has one as a struct field, slice element or map value) is located with the text `""` of the
  default header, which `GoVal.texts` does not list: without "no `.invalid` node" the statement
  is false as well (`c03_present_needs_valid`). -/

def l2sInvalidArg : GoVal := .struct { t := 0, zero := false, r := "{U}" } [.invalid]

def l2sInvalidPq : Primed := { pieces := [.inputs 0 1], params := [(0, "")], outputs := [] }

theorem c03_present_needs_valid :
    bindTypes L2sEx.C L2sEx.tt
      [{ kind := .member, raw := #[], types := [{ ty := bs "U", member := bs "c" }] }] [some 0] =
      .ok [.input (.field 0 (bs "U") L2sEx.fc)] ∧
    bindInputs L2sEx.tt [.input (.field 0 (bs "U") L2sEx.fc)] [l2sInvalidArg] = .ok l2sInvalidPq ∧
    holdsC03present [l2sInvalidArg] (modelBindObs l2sInvalidPq) = false :=
  ⟨by rfl, by rfl, by decide +kernel⟩

/-! ## C02 / C04: literal values of an insert are kept byte for byte -/

/-- `literalsVerbatim` is a theorem of the model: every literal value written in a
    `(cols) VALUES (…)` node occurs, byte for byte, in the SQL the model renders — for all
    nodes, samples and arguments, without further hypotheses. -/
theorem literals_verbatim_model {C : Cls} {tt : TypeTable} {segs : List OSeg} {samples : List (Option Nat)}
    {tes : List TExpr} {args : List GoVal} {pq : Primed}
    (hp : bindTypes C tt segs samples = .ok tes) (hb : bindInputs tt tes args = .ok pq) :
    literalsVerbatim segs (modelBindObs pq) = true := by
  unfold literalsVerbatim
  rw [l2s_guard]
  simp only [Bool.false_eq_true, if_false, List.all_eq_true]
  intro s hs
  by_cases hk : s.kind = .basicInsert
  · rw [Bool.or_eq_true]
    right
    rw [List.all_eq_true]
    intro v hv
    cases v with
    | acc a => rfl
    | lit b => exact l2s_findFrom_isSome_of_infix (l2s_literals_in_sql hp hb s hs hk b hv)
  · simp [hk]

/-- as a statement about occurrences: the SQL is `pre ++ literal ++ post` -/
theorem literals_verbatim_infix {C : Cls} {tt : TypeTable} {segs : List OSeg} {samples : List (Option Nat)}
    {tes : List TExpr} {args : List GoVal} {pq : Primed}
    (hp : bindTypes C tt segs samples = .ok tes) (hb : bindInputs tt tes args = .ok pq) :
    ∀ s ∈ segs, s.kind = .basicInsert → ∀ b, Val.lit b ∈ s.vals →
      ∃ pre post, renderSQL pq.pieces = pre ++ b ++ post :=
  l2s_literals_in_sql hp hb

/-- non-vacuity: an insert with a member value and the literal `'x y'` -/
example : literalsVerbatim L2sEx.segsLit (modelBindObs L2sEx.pqLit) = true :=
  literals_verbatim_model L2sEx.prepLit L2sEx.bindLit

example : (modelBindObs L2sEx.pqLit).sql = bs "INSERT INTO t (c, d) VALUES (@sqlair_0, 'x y')" ∧
    literalsVerbatim L2sEx.segsLit (modelBindObs L2sEx.pqLit) = true := by decide +kernel

/-- the predicate is not trivially true: a literal whose blank was dropped is rejected -/
example : literalsVerbatim L2sEx.segsLit
    { modelBindObs L2sEx.pqLit with sql := bs "INSERT INTO t (c, d) VALUES (@sqlair_0, 'xy')" } = false := by
  decide +kernel

/-! ## C01, exact form for inputs-only statements -/

/-- the matcher accepts the model's SQL of every inputs-only statement none of whose bypass
    chunks starts with a digit (the part of `cleanForTokens` that is used) -/
theorem c01_exact_match {C : Cls} {tt : TypeTable} {segs : List OSeg} {samples : List (Option Nat)}
    {tes : List TExpr} {args : List GoVal} {pq : Primed}
    (hp : bindTypes C tt segs samples = .ok tes) (hb : bindInputs tt tes args = .ok pq)
    (hio : inputsOnly segs = true)
    (hclean : ∀ s ∈ segs, s.kind = .bypass → isDigitB (s.raw.getD 0 0) = false) :
    matchInputsOnly segs (renderSQL pq.pieces) 0 = true :=
  l2s_matchInputsOnly_model hp hb hio hclean

/-- `holdsC01exact` is a theorem of the model: for statements whose nodes are only bypass
    chunks, member inputs and slice inputs (`inputsOnly`) and that are `cleanForTokens`, the
    SQL the model renders is matched exactly: the bypass chunks verbatim, one placeholder per
    member, a comma separated placeholder list (possibly empty) per slice, nothing else.
    Outside the guards the predicate is `true` by definition; no further hypothesis. -/
theorem c01_exact_model {C : Cls} {tt : TypeTable} {segs : List OSeg} {samples : List (Option Nat)}
    {tes : List TExpr} {args : List GoVal} {pq : Primed}
    (hp : bindTypes C tt segs samples = .ok tes) (hb : bindInputs tt tes args = .ok pq) :
    holdsC01exact segs (modelBindObs pq) = true := by
  unfold holdsC01exact
  by_cases hio : inputsOnly segs = true
  · by_cases hcl : cleanForTokens segs = true
    · have hm := l2s_matchInputsOnly_model hp hb hio (l2s_clean_bypass hcl)
      simp only [modelBindObs, hio, hcl]
      simpa using hm
    · simp [hcl]
  · simp [hio]

/-- non-vacuity: `SELECT x WHERE a=$U.c AND b IN ($S[:])` with a slice of three elements; the
    guards hold, so the predicate really runs the matcher on
    `SELECT x WHERE a=@sqlair_0 AND b IN (@sqlair_1, @sqlair_2, @sqlair_3)` -/
example : holdsC01exact L2sEx.segsIn (modelBindObs L2sEx.pqIn) = true :=
  c01_exact_model L2sEx.prepIn L2sEx.bindIn

example : inputsOnly L2sEx.segsIn = true ∧ cleanForTokens L2sEx.segsIn = true ∧
    matchInputsOnly L2sEx.segsIn (modelBindObs L2sEx.pqIn).sql 0 = true ∧
    holdsC01exact L2sEx.segsIn (modelBindObs L2sEx.pqIn) = true := by decide +kernel

/-- the predicate is not trivially true: a missing separator, a changed bypass chunk and a
    placeholder too many are rejected -/
example : holdsC01exact L2sEx.segsIn
    { modelBindObs L2sEx.pqIn with sql := bs "SELECT x WHERE a=@sqlair_0 AND b IN (@sqlair_1 @sqlair_2, @sqlair_3)" }
    = false := by decide +kernel

example : holdsC01exact L2sEx.segsIn
    { modelBindObs L2sEx.pqIn with sql := bs "SELECT x WHERE a=@sqlair_0 and b IN (@sqlair_1, @sqlair_2, @sqlair_3)" }
    = false := by decide +kernel

example : holdsC01exact L2sEx.segsIn
    { modelBindObs L2sEx.pqIn with sql := bs "SELECT x WHERE a=@sqlair_0, @sqlair_9 AND b IN (@sqlair_1)" }
    = false := by decide +kernel

/-! the `cleanForTokens` guard is needed: after `$U.c` a bypass chunk that starts with a digit
  extends the digit run of the placeholder, and the matcher rejects the model's own SQL
  `@sqlair_09` (`c01_exact_needs_clean`) -/

def l2sDigitSegs : List OSeg := [
  { kind := .member, raw := bs "$U.c", types := [{ ty := bs "U", member := bs "c" }] },
  { kind := .bypass, raw := bs "9" }]

def l2sDigitPq : Primed := { pieces := [.inputs 0 1, .text (bs "9")], params := [(0, "c")], outputs := [] }

theorem c01_exact_needs_clean :
    bindTypes L2sEx.C L2sEx.tt l2sDigitSegs [some 0] = .ok [.input (.field 0 (bs "U") L2sEx.fc), .bypass (bs "9")] ∧
    bindInputs L2sEx.tt [.input (.field 0 (bs "U") L2sEx.fc), .bypass (bs "9")] [L2sEx.argU] = .ok l2sDigitPq ∧
    inputsOnly l2sDigitSegs = true ∧ cleanForTokens l2sDigitSegs = false ∧
    matchInputsOnly l2sDigitSegs (renderSQL l2sDigitPq.pieces) 0 = false ∧
    holdsC01exact l2sDigitSegs (modelBindObs l2sDigitPq) = true :=
  ⟨by rfl, by rfl, by decide +kernel, by decide +kernel, by decide +kernel, by decide +kernel⟩

/-! ## C01 end to end: the bypass chunks in order -/

/-- `holdsC01e2e` is a theorem of the model for node lists without two adjacent bypass nodes
    (`l2s_noAdjBypass`; the parser puts a bypass node only between two expressions) and a query
    text that is the concatenation of the raw texts when there is no expression (true of every
    parse, `concat_spans`): the bypass chunks occur in the model's SQL in order, the first as a
    prefix, the last as a suffix, and a query without expressions is sent unchanged.
    The adjacency hypothesis is needed: `c01_e2e_needs_noAdj` below. -/
theorem c01_e2e_model {C : Cls} {tt : TypeTable} {segs : List OSeg} {samples : List (Option Nat)}
    {tes : List TExpr} {args : List GoVal} {pq : Primed} {q : Bytes}
    (hp : bindTypes C tt segs samples = .ok tes) (hb : bindInputs tt tes args = .ok pq)
    (hadj : l2s_noAdjBypass segs = true)
    (hq : hasExpr segs = false → q = concatBytes (segs.map (·.raw))) :
    holdsC01e2e q segs (modelBindObs pq) = true := by
  have hc := l2s_bypass_pieces hp hb
  have h1 : chunksInOrder segs (modelBindObs pq).sql 0 false = true := by
    have := l2s_chunksInOrder segs pq.pieces #[] 0 false hc hadj (Nat.le_refl _) (fun _ => Or.inl rfl)
    simp only [modelBindObs, renderSQL_eq_concat]
    simpa using this
  unfold holdsC01e2e
  rw [h1]
  cases he : hasExpr segs with
  | true => simp [modelBindObs]
  | false =>
    have : renderSQL pq.pieces = q := by
      rw [hq he, renderSQL_eq_concat, l2s_all_bypass_render segs pq.pieces hc he]
    simp [this, modelBindObs]

/-- non-vacuity: the chunks `SELECT x WHERE a=`, ` AND b IN (`, `)` around two expressions -/
example : holdsC01e2e (bs "SELECT x WHERE a=$U.c AND b IN ($S[:])") L2sEx.segsIn (modelBindObs L2sEx.pqIn) = true :=
  c01_e2e_model L2sEx.prepIn L2sEx.bindIn (by decide) (by decide)

example : chunksInOrder L2sEx.segsIn (modelBindObs L2sEx.pqIn).sql 0 false = true := by decide +kernel

/-- non-vacuity of the second half: a query without expressions is sent unchanged -/
example : holdsC01e2e (bs "SELECT 1") [{ kind := .bypass, raw := bs "SELECT 1" }]
    (modelBindObs { pieces := [.text (bs "SELECT 1")], params := [], outputs := [] }) = true :=
  c01_e2e_model (C := L2sEx.C) (tt := L2sEx.tt) (samples := []) (args := []) (tes := [.bypass (bs "SELECT 1")])
    (by rfl) (by rfl) (by decide) (fun _ => by decide +kernel)

example : holdsC01e2e (bs "SELECT 1") [{ kind := .bypass, raw := bs "SELECT 1" }]
    { prepOk := true, bindOk := true, sql := bs "SELECT 2", mode := "exec", events := 2 } = false := by
  decide +kernel

/-- not trivially true: a changed chunk and a dropped final chunk are rejected -/
example : holdsC01e2e #[] L2sEx.segsIn
    { modelBindObs L2sEx.pqIn with sql := bs "SELECT x WHERE a=@sqlair_0 AND b in (@sqlair_1)" } = false := by
  decide +kernel

example : holdsC01e2e #[] L2sEx.segsIn
    { modelBindObs L2sEx.pqIn with sql := bs "SELECT x WHERE a=@sqlair_0 AND b IN (@sqlair_1" } = false := by
  decide +kernel

/-! FINDING (predicate, not model): for ARBITRARY node lists `holdsC01e2e` is false of the
  model.  Nodes `$U.c`, bypass `s`, bypass `X`: the model renders `@sqlair_0sX`; the greedy
  matcher finds the chunk `s` inside the placeholder (offset 1) and then expects `X` at
  offset 2 (`c01_e2e_needs_noAdj`).  Two adjacent bypass nodes never come out of the parser. -/

def l2sAdjSegs : List OSeg := [
  { kind := .member, raw := bs "$U.c", types := [{ ty := bs "U", member := bs "c" }] },
  { kind := .bypass, raw := bs "s" }, { kind := .bypass, raw := bs "X" }]

def l2sAdjTes : List TExpr := [.input (.field 0 (bs "U") L2sEx.fc), .bypass (bs "s"), .bypass (bs "X")]

def l2sAdjPq : Primed :=
  { pieces := [.inputs 0 1, .text (bs "s"), .text (bs "X")], params := [(0, "c")], outputs := [] }

theorem c01_e2e_needs_noAdj :
    bindTypes L2sEx.C L2sEx.tt l2sAdjSegs [some 0] = .ok l2sAdjTes ∧
    bindInputs L2sEx.tt l2sAdjTes [L2sEx.argU] = .ok l2sAdjPq ∧
    renderSQL l2sAdjPq.pieces = bs "@sqlair_0sX" ∧
    l2s_noAdjBypass l2sAdjSegs = false ∧
    holdsC01e2e (bs "$U.csX") l2sAdjSegs (modelBindObs l2sAdjPq) = false :=
  ⟨by rfl, by rfl, by decide +kernel, by decide +kernel, by decide +kernel⟩

/-! ## agreement: the model's observation never differs from the model -/

/-- `affected` reports no property on the model's own observation: every piece is found at its
    place, the parameters and the mode are the model's -/
theorem affected_model {C : Cls} {tt : TypeTable} {segs : List OSeg} {samples : List (Option Nat)}
    {tes : List TExpr} {args : List GoVal} {pq : Primed}
    (hp : bindTypes C tt segs samples = .ok tes) (hb : bindInputs tt tes args = .ok pq) :
    affected (runModel C tt segs samples args) (modelBindObs pq) = [] := by
  rw [l2s_runModel hp hb]
  unfold affected
  simp only [l2s_firstBadPiece_model, l2s_mode_ne_none]
  simp [modelBindObs]

/-- `holdsC07`, `holdsC08`, `holdsC04rej` hold of the model's own observation -/
theorem accept_model {C : Cls} {tt : TypeTable} {segs : List OSeg} {samples : List (Option Nat)}
    {tes : List TExpr} {args : List GoVal} {pq : Primed}
    (hp : bindTypes C tt segs samples = .ok tes) (hb : bindInputs tt tes args = .ok pq) :
    bindAcceptDiffers (runModel C tt segs samples args) (modelBindObs pq) = none ∧
    holdsC07 (runModel C tt segs samples args) (modelBindObs pq) = true ∧
    holdsC08 (runModel C tt segs samples args) (modelBindObs pq) = true ∧
    holdsC04rej (runModel C tt segs samples args) (modelBindObs pq) = true := by
  rw [l2s_runModel hp hb]
  simp [bindAcceptDiffers, holdsC07, holdsC08, holdsC04rej, modelBindObs]

example : affected (runModel L2sEx.C L2sEx.tt L2sEx.segsLit [some 0] [L2sEx.argU]) (modelBindObs L2sEx.pqLit) = [] :=
  affected_model L2sEx.prepLit L2sEx.bindLit

/-- not trivially empty: a changed literal is attributed to C04, a changed value to C03 -/
example : affected (runModel L2sEx.C L2sEx.tt L2sEx.segsLit [some 0] [L2sEx.argU])
    { modelBindObs L2sEx.pqLit with sql := bs "INSERT INTO t (c, d) VALUES (@sqlair_0, 'xy')" } = ["C04"] := by
  decide +kernel

example : affected (runModel L2sEx.C L2sEx.tt L2sEx.segsIn [some 0, some 1] [L2sEx.argU, L2sEx.argS])
    { modelBindObs L2sEx.pqIn with params := [("sqlair_0", "C"), ("sqlair_1", "x"), ("sqlair_2", "y"), ("sqlair_3", "z")] }
    = ["C03"] := by decide +kernel

/-! ## the token-level predicates `holdsC03` and `holdsC05` are NOT theorems of the model

  FINDING (predicates, not model).  Both scan the SQL for generated names (`@sqlair_<n>`,
  ` AS _sqlair_<n>`) and are guarded by `cleanForTokens segs`, which inspects the NODES only.
  Column names generated from struct tags come from the TYPE TABLE, and `parseTag` accepts any
  text between quotes.  With the tag `"@sqlair_99"` (resp. `"x AS _sqlair_7"`) the statement
  `SELECT &Q.* FROM t` is clean for tokens, is prepared and bound by the model, and the
  predicate is false of the model's own observation: a false alarm is possible whenever the
  generated types can carry such tags.  A true variant needs the extra hypothesis that no
  tag of the type table contains `sqlair_` (not proved here). -/

def l2sTagTT (tag : String) : TypeTable := #[
  { kind := .struct, kindStr := "struct", name := bs "Q", fields := [
      { name := bs "F", tag := bs tag, exported := true, anon := false, ty := 1 }] },
  { kind := .string, kindStr := "string", name := #[] } ]

def l2sTagSegs : List OSeg := [
  { kind := .bypass, raw := bs "SELECT " },
  { kind := .output, raw := bs "&Q.*", types := [{ ty := bs "Q", member := bs "*" }] },
  { kind := .bypass, raw := bs " FROM t" } ]

def l2sTagPq (tag : String) : Primed :=
  { pieces := [.text (bs "SELECT "), .outputs 0 [bs tag], .text (bs " FROM t")], params := [],
    outputs := [.field 0 (bs "Q") { name := bs "F", tag := bs tag, omitEmpty := false, index := [0] }] }

theorem c03_tokens_false_of_model :
    (∃ tes, bindTypes PrepExample.C (l2sTagTT "\"@sqlair_99\"") l2sTagSegs [some 0] = .ok tes ∧
      bindInputs (l2sTagTT "\"@sqlair_99\"") tes [] = .ok (l2sTagPq "\"@sqlair_99\"")) ∧
    renderSQL (l2sTagPq "\"@sqlair_99\"").pieces = bs "SELECT \"@sqlair_99\" AS _sqlair_0 FROM t" ∧
    cleanForTokens l2sTagSegs = true ∧
    holdsC03 l2sTagSegs (modelBindObs (l2sTagPq "\"@sqlair_99\"")) = false :=
  ⟨⟨_, by rfl, by rfl⟩, by decide +kernel, by decide +kernel, by decide +kernel⟩

theorem c05_tokens_false_of_model :
    (∃ tes, bindTypes PrepExample.C (l2sTagTT "\"x AS _sqlair_7\"") l2sTagSegs [some 0] = .ok tes ∧
      bindInputs (l2sTagTT "\"x AS _sqlair_7\"") tes [] = .ok (l2sTagPq "\"x AS _sqlair_7\"")) ∧
    renderSQL (l2sTagPq "\"x AS _sqlair_7\"").pieces = bs "SELECT \"x AS _sqlair_7\" AS _sqlair_0 FROM t" ∧
    cleanForTokens l2sTagSegs = true ∧
    holdsC05 l2sTagSegs (modelBindObs (l2sTagPq "\"x AS _sqlair_7\"")) = false :=
  ⟨⟨_, by rfl, by rfl⟩, by decide +kernel, by decide +kernel, by decide +kernel⟩

end Sqlair
