/-
  Translation invariance (C19, second half): definitions and primitive facts.

  `shiftEnv k E` is `E` with `k` newline bytes put in front of the input.  A scanner state
  `s` of the run on `E` corresponds to `s.sh k` of the run on `shiftEnv k E`: offsets and the
  line number move by `k`, the current rune is the same.
-/
import SqlairProofs.Parser.Main

namespace Sqlair

/-- `k` newline bytes in front of the input -/
def shiftEnv (k : Nat) (E : Env) : Env := { E with inp := Array.replicate k 10 ++ E.inp }

/-! ### the extra assumptions -/

/-- The rune decoder is local: decoding depends only on the bytes from the offset on, and a
    newline byte decodes to the newline rune.  Proved for `decodeRune` below
    (`decodeRune_DecLocal`). -/
structure DecLocal (E : Env) : Prop where
  shift : ∀ k p, p < E.len → E.dec (Array.replicate k 10 ++ E.inp) (k + p) = E.dec E.inp p
  nl : ∀ k i, i < k → E.dec (Array.replicate k 10 ++ E.inp) i = (10, 1)

/-- The characters that separate words are neither letters nor digits: tab, newline,
    carriage return, space, `-` and `/` (the two comment openers).  True of Go's
    `unicode.IsLetter` / `unicode.IsDigit`; proved below for every classifier that agrees
    with the ASCII tables below 128 (`ClassSep.of_ascii`). -/
structure ClassSep (E : Env) : Prop where
  letter : ∀ c, (c = 9 ∨ c = 10 ∨ c = 13 ∨ c = 32 ∨ c = 45 ∨ c = 47) → E.letter c = false
  digit : ∀ c, (c = 9 ∨ c = 10 ∨ c = 13 ∨ c = 32 ∨ c = 45 ∨ c = 47) → E.digit c = false

theorem ClassSep.classOK {E : Env} (h : ClassSep E) : ClassOK E :=
  ⟨h.letter 10 (by omega), h.digit 10 (by omega)⟩

theorem ClassSep.not_nameChar {E : Env} (h : ClassSep E) {c : Nat}
    (hc : c = 9 ∨ c = 10 ∨ c = 13 ∨ c = 32 ∨ c = 45 ∨ c = 47) : isNameChar E c = false := by
  unfold isNameChar
  rw [h.letter c hc, h.digit c hc]
  rcases hc with rfl | rfl | rfl | rfl | rfl | rfl <;> rfl

/-- a name character is none of the separators -/
theorem ClassSep.nameChar_ne {E : Env} (h : ClassSep E) {c : Nat} (hn : isNameChar E c = true) :
    c ≠ 9 ∧ c ≠ 10 ∧ c ≠ 13 ∧ c ≠ 32 ∧ c ≠ 45 ∧ c ≠ 47 := by
  refine ⟨?_, ?_, ?_, ?_, ?_, ?_⟩ <;> intro hc <;>
    · have := h.not_nameChar (c := c) (by omega)
      rw [hn] at this; cases this

/-! ### bytes of the shifted input -/

section
variable (k : Nat) (inp : Bytes)

theorem shift_size : (Array.replicate k (10 : UInt8) ++ inp).size = inp.size + k := by
  simp [Nat.add_comm]

theorem shift_getD_ge (i : Nat) :
    (Array.replicate k (10 : UInt8) ++ inp).getD (i + k) 0 = inp.getD i 0 := by
  have : ¬ (i + k < k) := by omega
  simp [Array.getD_eq_getD_getElem?, Array.getElem?_append, this]

theorem shift_getD_lt (i : Nat) (hi : i < k) :
    (Array.replicate k (10 : UInt8) ++ inp).getD i 0 = 10 := by
  simp [Array.getD_eq_getD_getElem?, Array.getElem?_append, hi]

theorem shift_bAt_ge (i : Nat) : bAt (Array.replicate k (10 : UInt8) ++ inp) (i + k) = bAt inp i := by
  unfold bAt; rw [shift_getD_ge]

theorem shift_bAt_ge' (i : Nat) : bAt (Array.replicate k (10 : UInt8) ++ inp) (k + i) = bAt inp i := by
  rw [Nat.add_comm]; exact shift_bAt_ge k inp i

theorem shift_bAt_lt (i : Nat) (hi : i < k) : bAt (Array.replicate k (10 : UInt8) ++ inp) i = 10 := by
  unfold bAt; rw [shift_getD_lt k inp i hi]; rfl

theorem shift_extract (a b : Nat) :
    (Array.replicate k (10 : UInt8) ++ inp).extract (a + k) (b + k) = inp.extract a b := by
  rw [Array.extract_append]
  simp

theorem shift_foldEqAt (p : Nat) (kw : List Nat) :
    foldEqAt (Array.replicate k (10 : UInt8) ++ inp) (p + k) kw = foldEqAt inp p kw := by
  induction kw generalizing p with
  | nil => rfl
  | cons c cs ih =>
    unfold foldEqAt
    rw [shift_bAt_ge, show p + k + 1 = (p + 1) + k by omega, ih]

theorem shift_hasNewline (hk : 0 < k) : hasNewline (Array.replicate k (10 : UInt8) ++ inp) = true := by
  unfold hasNewline
  rw [Array.any_eq_true]
  refine ⟨0, by rw [shift_size]; omega, ?_⟩
  simp [hk]

end

/-! ### the shifted environment -/

section
variable (k : Nat) (E : Env)

@[simp] theorem shiftEnv_len : (shiftEnv k E).len = E.len + k := shift_size k E.inp
@[simp] theorem shiftEnv_letter : (shiftEnv k E).letter = E.letter := rfl
@[simp] theorem shiftEnv_digit : (shiftEnv k E).digit = E.digit := rfl
theorem shiftEnv_dec : (shiftEnv k E).dec = E.dec := rfl
theorem shiftEnv_inp : (shiftEnv k E).inp = Array.replicate k 10 ++ E.inp := rfl

@[simp] theorem shiftEnv_isNameChar (c : Nat) : isNameChar (shiftEnv k E) c = isNameChar E c := rfl
@[simp] theorem shiftEnv_isInitialNameChar (c : Nat) :
    isInitialNameChar (shiftEnv k E) c = isInitialNameChar E c := rfl

theorem shiftEnv_zero : shiftEnv 0 E = E := by
  unfold shiftEnv; simp

variable {k E}

/-- decoding in the shifted input, at an offset of the original input -/
theorem DecLocal.dec_ge (hl : DecLocal E) {p : Nat} (hp : p < E.len) :
    (shiftEnv k E).dec (shiftEnv k E).inp (p + k) = E.dec E.inp p := by
  rw [Nat.add_comm]; exact hl.shift k p hp

/-- decoding in the shifted input, at one of the new newlines -/
theorem DecLocal.dec_lt (hl : DecLocal E) {i : Nat} (hi : i < k) :
    (shiftEnv k E).dec (shiftEnv k E).inp i = (10, 1) := hl.nl k i hi

/-- the shifted environment again satisfies the decoder assumptions -/
theorem shiftEnv_DecOK (h : DecOK E) (hl : DecLocal E) (k : Nat) : DecOK (shiftEnv k E) := by
  have key : ∀ p, p < (shiftEnv k E).len →
      (p < k ∧ (shiftEnv k E).dec (shiftEnv k E).inp p = (10, 1)) ∨
      (∃ q, p = q + k ∧ q < E.len ∧ (shiftEnv k E).dec (shiftEnv k E).inp p = E.dec E.inp q) := by
    intro p hp
    rw [shiftEnv_len] at hp
    by_cases hpk : p < k
    · exact Or.inl ⟨hpk, hl.dec_lt hpk⟩
    · refine Or.inr ⟨p - k, by omega, by omega, ?_⟩
      have := hl.dec_ge (k := k) (p := p - k) (by omega)
      rwa [show p - k + k = p by omega] at this
  constructor
  · intro p hp
    rcases key p hp with ⟨_, hd⟩ | ⟨q, rfl, hq, hd⟩
    · rw [hd]; exact Nat.le_refl _
    · rw [hd]; exact h.size_pos q hq
  · intro p hp
    rcases key p hp with ⟨hpk, hd⟩ | ⟨q, rfl, hq, hd⟩
    · rw [hd, shiftEnv_len]; show p + 1 ≤ _; omega
    · rw [hd, shiftEnv_len]; have := h.size_le q hq; omega
  · intro p hp h10
    rcases key p hp with ⟨hpk, hd⟩ | ⟨q, rfl, hq, hd⟩
    · rw [hd]; exact ⟨rfl, shift_bAt_lt k E.inp p hpk⟩
    · rw [hd] at h10 ⊢
      have := h.nl q hq h10
      exact ⟨this.1, by rw [shiftEnv_inp, shift_bAt_ge]; exact this.2⟩
  · intro p hp hne i hi hi'
    rcases key p hp with ⟨hpk, hd⟩ | ⟨q, rfl, hq, hd⟩
    · rw [hd] at hne; exact (hne rfl).elim
    · rw [hd] at hne hi'
      have := h.no_nl q hq hne (i - k) (by omega) (by omega)
      rw [shiftEnv_inp, show i = (i - k) + k by omega, shift_bAt_ge]
      exact this

end

/-! ### the concrete instances -/

/-- `decodeRune` only looks at the bytes from the offset on -/
theorem decodeRune_append (pre s : Bytes) (p : Nat) :
    decodeRune (pre ++ s) (pre.size + p) = decodeRune s p := by
  have hb : ∀ j, bAt (pre ++ s) (pre.size + p + j) = bAt s (p + j) := by
    intro j
    unfold bAt
    have : ¬ (pre.size + (p + j) < pre.size) := by omega
    simp [Array.getD_eq_getD_getElem?, Array.getElem?_append, Nat.add_assoc, this]
  have hb0 := hb 0
  simp only [Nat.add_zero] at hb0
  unfold decodeRune
  simp only [hb, hb0, Array.size_append]
  have h2 : pre.size + s.size - (pre.size + p) = s.size - p := by omega
  simp only [ge_iff_le, Nat.add_le_add_iff_left, h2]

/-- a newline byte decodes to the newline rune -/
theorem decodeRune_nl (s : Bytes) (p : Nat) (hp : p < s.size) (hb : bAt s p = 10) :
    decodeRune s p = (10, 1) := by
  unfold decodeRune
  simp only [hb]
  rw [if_neg (by omega)]
  rfl

theorem decodeRune_DecLocal (inp : Bytes) (letter digit : Nat → Bool) :
    DecLocal { inp := inp, dec := decodeRune, letter := letter, digit := digit } where
  shift := fun k p _ => by
    show decodeRune (Array.replicate k 10 ++ inp) (k + p) = decodeRune inp p
    have := decodeRune_append (Array.replicate k 10) inp p
    rwa [Array.size_replicate] at this
  nl := fun k i hi => by
    show decodeRune (Array.replicate k 10 ++ inp) i = (10, 1)
    exact decodeRune_nl _ i (by rw [shift_size]; omega) (shift_bAt_lt k inp i hi)

/-- every classifier that agrees with the ASCII tables below 128 separates words -/
theorem ClassSep.of_ascii (E : Env)
    (hletter : ∀ c, c < 128 → E.letter c = ((65 ≤ c && c ≤ 90) || (97 ≤ c && c ≤ 122)))
    (hdigit : ∀ c, c < 128 → E.digit c = (48 ≤ c && c ≤ 57)) : ClassSep E where
  letter := fun c hc => by
    rw [hletter c (by omega)]
    rcases hc with rfl | rfl | rfl | rfl | rfl | rfl <;> rfl
  digit := fun c hc => by
    rw [hdigit c (by omega)]
    rcases hc with rfl | rfl | rfl | rfl | rfl | rfl <;> rfl

end Sqlair
