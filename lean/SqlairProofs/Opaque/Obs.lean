/-
  Opacity of literals and comments, observation level: the relational theorem `opq_parse` in
  terms of `modelObs` and `holdsC02opaque`.
-/
import SqlairProofs.Opaque.Main

namespace Sqlair

theorem opq_shape_eq {inp inp2 : Bytes} (hs : inp2.size = inp.size) {l l' : List Seg}
    (hl : OpqList OpqSeg l l') :
    (l.map (Seg.toOSeg inp)).map (fun s => (s.kind, s.raw.size)) =
      (l'.map (Seg.toOSeg inp2)).map (fun s => (s.kind, s.raw.size)) := by
  induction hl with
  | nil => rfl
  | @cons a b l l' hab _ ih =>
    simp only [List.map_cons, ih]
    congr 1
    obtain ⟨hk, ha, hb⟩ := hab
    unfold Seg.toOSeg
    simp only [Array.size_extract, hk, ha, hb, hs]

/-- **C02, metamorphic form, for any two related inputs**: the observation of the model on `E`
    and on a second input related to it by `OpqEnv` have the same shape. -/
theorem opq_holds {E : Env} {inp' : Bytes} (R : OpqEnv E inp') :
    holdsC02opaque (modelObs E) (modelObs (opqEnv E inp')) = true := by
  have h := opq_parse R
  unfold modelObs
  rw [show (opqEnv E inp').inp = inp' from rfl, R.hasNl]
  generalize parse E = x at h
  generalize parse (opqEnv E inp') = y at h
  cases h with
  | ok hl =>
    simp only [holdsC02opaque, ParseObs.shape]
    rw [opq_shape_eq R.size hl]
    exact beq_self_eq_true _
  | err he =>
    simp only [holdsC02opaque, ParseObs.shape]
    rw [he.1, he.2]
    exact beq_self_eq_true _

end Sqlair
