/-
  FactsCheck/Parser: the character tables and keywords extracted from parser.go on this run
  (SqlairModel/Generated/Facts.lean, written by /verif/harness/cmd/factgen) are the ones
  the parser model uses.  A source change to such a table changes Facts.lean and breaks
  these theorems, i.e. a proof obligation of the parser properties (DESIGN §2.6).
-/
import SqlairModel.Parser
import SqlairModel.Generated.Facts

namespace Sqlair.FactsOK

/-- one- or two-byte ASCII inputs for probing the scanner functions -/
def probeEnv (bytes : List Nat) : Env :=
  { inp := (bytes.map UInt8.ofNat).toArray, dec := decodeRune,
    letter := fun c => (65 ≤ c && c ≤ 90) || (97 ≤ c && c ≤ 122), digit := fun c => 48 ≤ c && c ≤ 57 }

/-- the switch of advanceToNextExpression: characters that may start an expression -/
theorem exprTriggers_ok :
    (List.range 256).all (fun c => isExprTrigger c == Facts.exprTriggers.contains c) = true := by
  decide +kernel

/-- ... and the characters after which a name character may start one -/
theorem blankLikeTriggers_ok :
    (List.range 256).all (fun c => isBlankLikeTrigger c == Facts.blankLikeTriggers.contains c) = true := by
  decide +kernel

/-- skipBlanks skips exactly the listed characters (probed on every ASCII byte) -/
theorem blanks_ok :
    (List.range 128).all (fun c =>
      ((skipBlanks (probeEnv [c, 120]) (initSc (probeEnv [c, 120]))).pos == 1) ==
        (Facts.blanks.contains c)) = true := by
  decide +kernel

/-- skipStringLiteral opens a literal exactly on the listed quote characters -/
theorem quotes_ok :
    (List.range 128).all (fun c =>
      (match (skipStringLiteral (probeEnv [c, c]) (initSc (probeEnv [c, c]))).2 with
       | .ok _ => true | _ => false) == (Facts.quotes.contains c)) = true := by
  decide +kernel

/-- the keywords matched with skipString -/
theorem keywords_ok : Facts.keywords = [kwAS, kwVALUES] := by decide

/-- the characters skipComment tests, in source order: '-' '/' then '-' '*' then '/' -/
theorem commentChars_ok : Facts.commentChars = [45, 47, 45, 42, 47] := by decide

end Sqlair.FactsOK
