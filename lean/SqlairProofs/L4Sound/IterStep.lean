/-
  L4Sound: facts about single calls on the model's iterator used by the C14 invariants.
-/
import SqlairProofs.L4Sound.Scan
import SqlairProofs.Runtime.Order

namespace Sqlair.Rt

/-! ### the numbering of the rows of a case -/

/-- rows are numbered from `k + 1`; row number `i + 1` converts unless `i` is the bad row -/
def l4s_Seq (bad : Option Nat) : Nat → List (Except Err Row) → Prop
  | _, [] => True
  | _, .error _ :: _ => True
  | k, .ok row :: rest => row.id = k + 1 ∧ row.scanOK = (some k != bad) ∧ l4s_Seq bad (k + 1) rest

theorem l4s_Seq_range (bad : Option Nat) (tail : List (Except Err Row))
    (ht : tail = [] ∨ ∃ e t, tail = .error e :: t) (m : Nat) : ∀ k,
    l4s_Seq bad k (((List.range' k m).map fun i => (Except.ok { id := i + 1, scanOK := some i != bad } : Except Err Row)) ++ tail) := by
  induction m with
  | zero =>
    intro k
    rcases ht with rfl | ⟨e, t, rfl⟩ <;> simp [l4s_Seq]
  | succ m ih =>
    intro k
    simp only [List.range'_succ, List.map_cons, List.cons_append, l4s_Seq, true_and]
    exact ih (k + 1)

theorem l4s_Seq_fetch (c : Case) : l4s_Seq c.badRow 0 c.fetch := by
  unfold Case.fetch
  cases c.fetchErrAt with
  | none =>
    have := l4s_Seq_range c.badRow [] (.inl rfl) c.nrows 0
    simpa [List.range_eq_range'] using this
  | some k =>
    have := l4s_Seq_range c.badRow [.error (.inj 3)] (.inr ⟨_, _, rfl⟩) (min k c.nrows) 0
    show l4s_Seq c.badRow 0 (List.take k (List.map _ (List.range c.nrows)) ++ [Except.error (Err.inj 3)])
    rw [← List.map_take, List.take_range]
    simpa [List.range_eq_range'] using this

/-! ### rendered Get results -/

theorem l4s_renderGet_row {g : GetOut} (h : (l4s_renderGet g).startsWith "row:" = true) : ∃ id, g = .row id := by
  cases g with
  | row id => exact ⟨id, rfl⟩
  | err e => rw [show l4s_renderGet (.err e) = e.render from rfl, l4s_render_not_row] at h; cases h
  | outcome r =>
    exfalso
    have l1 : "row:".toList = 'r' :: ['o', 'w', ':'] := by decide
    cases r with
    | none =>
      have : l4s_renderGet (.outcome none) = "outcome:nil" := rfl
      rw [this] at h; revert h; decide +kernel
    | some n =>
      have : l4s_renderGet (.outcome (some n)) = s!"outcome:{n}" := rfl
      rw [this, l4s_not_startsWith_of_head (l4s_outcomeStr_toList n) l1 (by decide)] at h
      cases h

theorem l4s_renderGet_err_facts (e : Err) :
    (l4s_renderGet (.err e) != "" && !(l4s_renderGet (.err e)).startsWith "row:" &&
      !(l4s_renderGet (.err e)).startsWith "outcome:") = true := by
  have : l4s_renderGet (.err e) = e.render := rfl
  rw [this, l4s_render_not_row, l4s_render_not_outcome]
  simp [l4s_render_ne_empty]

theorem l4s_toString_true : (toString true == "true") = true := by decide
theorem l4s_toString_false : (toString false == "true") = false := by decide
theorem l4s_toString_false' : (toString false == "false") = true := by decide
theorem l4s_toString_true' : (toString true == "false") = false := by decide

/-! ### Get on an iterator whose iteration is over -/

theorem l4s_get_of_ended {it : Iter} (he : it.ended = true) (hs : it.started = true) (a : GetArgs) :
    ∃ e, it.get a = .err e := by
  unfold Iter.get
  cases herr : it.err with
  | some e => exact ⟨e, rfl⟩
  | none =>
    simp only [hs, Bool.not_true, Bool.false_eq_true, if_false]
    cases hr : it.rows with
    | none => exact ⟨_, rfl⟩
    | some r =>
      have hc : r.closed = true := by simpa [Iter.ended, herr, hr] using he
      cases a with
      | valid =>
        simp only [Rows.scan]
        cases hl : r.lasterr with
        | some e => exact ⟨_, rfl⟩
        | none => simp only [hc, if_true]; exact ⟨_, rfl⟩
      | outcome => exact ⟨_, rfl⟩
      | nilOutcome => exact ⟨_, rfl⟩
      | invalid => exact ⟨_, rfl⟩

/-- Get before the first Next / Close never delivers a row, and refuses bad arguments -/
theorem l4s_get_not_started {it : Iter} (hs : it.started = false) (a : GetArgs) (ha : a = .valid ∨ a = .invalid) :
    ∃ e, it.get a = .err e := by
  unfold Iter.get
  cases herr : it.err with
  | some e => exact ⟨e, rfl⟩
  | none =>
    simp only [hs, Bool.not_false, if_true]
    rcases ha with rfl | rfl <;> exact ⟨_, rfl⟩

theorem l4s_cancel_started (it : Iter) (w : World) : (it.cancel w).1.started = it.started := by
  cases hr : it.rows with
  | none => rw [Iter.cancel_of_rows_none hr]
  | some r => rw [Iter.cancel_of_rows hr]

theorem l4s_preCancel_eq_step (ca : Option Nat) (i : Nat) (it : Iter) (w : World) :
    preCancel ca i it w = (it, w) ∨ preCancel ca i it w = ((step it w .cancel).1, (step it w .cancel).2.1) := by
  rw [preCancel_eq]; split
  · right; rfl
  · left; rfl

end Sqlair.Rt
