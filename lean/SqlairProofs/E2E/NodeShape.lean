/-
  E2E/NodeShape: the nodes the parser produces carry type names only where their kind says:
  a basic insert in its values, every other expression in its `types`, a bypass node nowhere.
  So `OSeg.typeNames` is every type name occurring in a parsed node.
-/
import SqlairProofs.Bind.ParserNodes
import SqlairProofs.E2E.Uses

namespace Sqlair

def SegShape (s : Seg) : Prop :=
  (s.kind = .bypass → s.types = [] ∧ s.vals = []) ∧ (s.kind = .basicInsert → s.types = []) ∧
  (s.kind ≠ .basicInsert → s.vals = [])

section
variable {E : Env}

theorem SegShape.of_output {a b : Nat} {cols : List Col} {types : List Acc} :
    SegShape { kind := .output, a := a, b := b, cols := cols, types := types } :=
  ⟨(by intro hk; cases hk), (by intro hk; cases hk), fun _ => rfl⟩

theorem parseOutputExpr_shape' {s : Sc} : ResP SegShape (parseOutputExpr E s) := by
  unfold parseOutputExpr
  split
  · exact ResP.of_err
  · exact ResP.of_ok .of_output
  · split
    · exact ResP.of_no
    · extract_lets s3 r s4
      split
      · exact ResP.of_no
      · split
        · exact ResP.of_err
        · exact ResP.of_no
        · split
          · exact ResP.of_err
          split
          · exact ResP.of_err
          split
          · exact ResP.of_err
          · exact ResP.of_ok .of_output

theorem parseSliceInputExpr_shape' {s : Sc} : ResP SegShape (parseSliceInputExpr E s) := by
  unfold parseSliceInputExpr
  extract_lets r
  split
  · exact ResP.of_no
  · split
    · exact ResP.of_err
    · exact ResP.of_ok ⟨(by intro hk; cases hk), (by intro hk; cases hk), fun _ => rfl⟩
    · exact ResP.of_no

theorem parseMemberInputExpr_shape' {s : Sc} : ResP SegShape (parseMemberInputExpr E s) := by
  unfold parseMemberInputExpr
  split
  · exact ResP.of_err
  · exact ResP.of_no
  · split
    · exact ResP.of_err
    · exact ResP.of_ok ⟨(by intro hk; cases hk), (by intro hk; cases hk), fun _ => rfl⟩

theorem parseAsteriskInsertExpr_shape' {s : Sc} : ResP SegShape (parseAsteriskInsertExpr E s) := by
  unfold parseAsteriskInsertExpr
  extract_lets r1 r2 r3 r4
  split
  · exact ResP.of_no
  split
  · exact ResP.of_no
  split
  · exact ResP.of_no
  split
  · exact ResP.of_no
  split
  · exact ResP.of_ok ⟨(by intro hk; cases hk), (by intro hk; cases hk), fun _ => rfl⟩
  · exact ResP.of_err
  · exact ResP.of_no

theorem parseInsertExpr_shape' {s : Sc} : ResP SegShape (parseInsertExpr E s) := by
  unfold parseInsertExpr
  split
  · exact ResP.of_err
  · next heq => exact ResP.of_ok (parseAsteriskInsertExpr_shape'.elim heq)
  · split
    · extract_lets r colcp complex
      split
      · exact ResP.of_no
      clear_value complex
      split
      · exact ResP.of_ok ⟨(by intro hk; cases hk), (by intro hk; cases hk), fun _ => rfl⟩
      · split
        · exact ResP.of_err
        · exact ResP.of_ok ⟨(by intro hk; cases hk), fun _ => rfl, fun hk => absurd rfl hk⟩
        · exact ResP.of_no
    · exact ResP.of_no

theorem parseInputExpr_shape' {s : Sc} : ResP SegShape (parseInputExpr E s) := by
  unfold parseInputExpr
  split
  · exact ResP.of_err
  · next heq => exact ResP.of_ok (parseSliceInputExpr_shape'.elim heq)
  · split
    · exact ResP.of_err
    · next heq => exact ResP.of_ok (parseMemberInputExpr_shape'.elim heq)
    · exact parseInsertExpr_shape'

theorem parseOutputExpr_shape {s s' : Sc} {seg : Seg} (h : parseOutputExpr E s = (s', .ok seg)) :
    SegShape seg := parseOutputExpr_shape'.elim h

theorem parseInputExpr_shape {s s' : Sc} {seg : Seg} (h : parseInputExpr E s = (s', .ok seg)) :
    SegShape seg := parseInputExpr_shape'.elim h

theorem SegShape.bypass (a b : Nat) : SegShape { kind := .bypass, a := a, b := b } :=
  ⟨fun _ => ⟨rfl, rfl⟩, fun _ => rfl, fun _ => rfl⟩

theorem add_shape {st : PS} (hall : ∀ x ∈ st.exprs, SegShape x) (e : Option Seg)
    (he : ∀ x, e = some x → SegShape x) : ∀ x ∈ (st.add e).exprs, SegShape x := by
  unfold PS.add
  simp only []
  have h1 : ∀ x ∈ (if st.prevExprEnd ≠ st.currentExprStart
      then st.exprs ++ [{ kind := .bypass, a := st.prevExprEnd, b := st.currentExprStart }]
      else st.exprs), SegShape x := by
    split
    · intro x hx
      rcases List.mem_append.mp hx with hx | hx
      · exact hall x hx
      · rw [List.mem_singleton] at hx; rw [hx]; exact SegShape.bypass _ _
    · exact hall
  cases e with
  | none => exact h1
  | some y =>
    intro x hx
    rcases List.mem_append.mp hx with hx | hx
    · exact h1 x hx
    · rw [List.mem_singleton] at hx; rw [hx]; exact he y rfl

theorem parseLoop_shape (f : Nat) {st st' : PS} (hall : ∀ x ∈ st.exprs, SegShape x)
    (hl : parseLoop E f st = .ok st') : ∀ x ∈ st'.exprs, SegShape x := by
  induction f generalizing st with
  | zero => unfold parseLoop at hl; cases hl
  | succ f ih =>
    unfold parseLoop at hl
    split at hl
    · cases hl
    · next sc1 heq =>
      simp only [] at hl
      split at hl
      · cases hl; exact hall
      · split at hl
        · cases hl
        · next sc2 seg heq2 =>
          refine ih ?_ hl
          exact add_shape (st := { st with sc := sc2, currentExprStart := sc1.pos }) hall (some seg)
            (fun x hx => by cases hx; exact parseOutputExpr_shape heq2)
        · next sc2 heq2 =>
          split at hl
          · cases hl
          · next sc3 seg heq3 =>
            refine ih ?_ hl
            exact add_shape (st := { st with sc := sc3, currentExprStart := sc1.pos }) hall (some seg)
              (fun x hx => by cases hx; exact parseInputExpr_shape heq3)
          · next sc3 heq3 => exact ih (st := { st with sc := advanceChar E sc3, currentExprStart := sc1.pos }) hall hl

theorem parse_shape {segs : List Seg} (hp : parse E = .ok segs) : ∀ s ∈ segs, SegShape s := by
  unfold parse at hp
  split at hp
  · cases hp
  · next st heq =>
    cases hp
    exact add_shape (parseLoop_shape _ (by intro x hx; cases hx) heq) none (fun _ hx => by cases hx)

end

/-- every type name occurring anywhere in a node -/
def OSeg.allTypeNames (s : OSeg) : List Bytes := s.types.map (·.ty) ++ s.vals.filterMap valTy

/-- for a parsed node, `typeNames` is every type name occurring in the node -/
theorem SegShape.typeNames_eq {s : Seg} (h : SegShape s) (inp : Bytes) :
    (s.toOSeg inp).typeNames = (s.toOSeg inp).allTypeNames := by
  unfold OSeg.typeNames OSeg.allTypeNames
  obtain ⟨h1, h2, h3⟩ := h
  simp only [Seg.toOSeg]
  cases hk : s.kind <;> simp only []
  · obtain ⟨a, b⟩ := h1 hk; simp [a, b]
  case basicInsert => rw [h2 hk]; simp
  all_goals (rw [h3 (by rw [hk]; intro hh; cases hh)]; simp)

end Sqlair
