/-
  Props/NoPanic: property C18 ("no panic, crash or hang on any query text, type sample or
  argument value") for the reflection-based code of the model (`SqlairModel/Types.lean`,
  `Bind.lean`, `Scan.lean`).

  Where Go's `reflect` primitives would panic the model returns an error class `"panic-…"`;
  `getStructFields` reports fuel exhaustion (the model's stand-in for a hang / stack
  overflow) as `"fuel"`.  The theorems: on WELL-FORMED values (`ValWF`: the shape the type
  descriptors promise, i.e. what Go's type system guarantees of every real value), with
  locators produced by `bindTypes`, no panic class is ever returned, and `getStructFields`
  never runs out of fuel.  Helper lemmas live in `SqlairProofs/NoPanic/*.lean`.
-/
import SqlairProofs.NoPanic.Fuel
import SqlairProofs.NoPanic.Locate
import SqlairProofs.NoPanic.FieldType
import SqlairProofs.NoPanic.Prepare
import SqlairProofs.Props.Bind

namespace Sqlair

/-! ## the running example (non-vacuity witness)

  `type T struct { A int `db:"a"`; *U; B string `db:"b"` }`, `type U struct { C int `db:"c"` }`;
  nodes `$T.a`, `$T.c`, `$T.b`. -/
namespace NoPanicExample

def C : Cls := { letter := fun c => (97 ≤ c && c ≤ 122) || (65 ≤ c && c ≤ 90), digit := fun c => 48 ≤ c && c ≤ 57 }

def tt : TypeTable := #[
  { kind := .struct, kindStr := "struct", name := #[84], fields := [                 -- 0: T
      { name := #[65], tag := #[97], exported := true, anon := false, ty := 3 },
      { name := #[85], tag := #[], exported := true, anon := true, ty := 2 },
      { name := #[66], tag := #[98], exported := true, anon := false, ty := 4 }] },
  { kind := .struct, kindStr := "struct", name := #[85], fields := [                 -- 1: U
      { name := #[67], tag := #[99], exported := true, anon := false, ty := 3 }] },
  { kind := .ptr, kindStr := "ptr", name := #[], elem := 1 },                        -- 2: *U
  { kind := .other, kindStr := "int", name := #[105, 110, 116] },                    -- 3: int
  { kind := .string, kindStr := "string", name := #[115] } ]                         -- 4: string

def fa : SField := { name := #[65], tag := #[97], omitEmpty := false, index := [0] }
def fc : SField := { name := #[67], tag := #[99], omitEmpty := false, index := [1, 0] }
def fb : SField := { name := #[66], tag := #[98], omitEmpty := false, index := [2] }

theorem fields_T : getStructFields C tt (tt.size + 1) [] 0 = .ok [fa, fc, fb] := by rfl

def segs : List OSeg := [
  { kind := .member, raw := #[], types := [{ ty := #[84], member := #[97] }] },
  { kind := .member, raw := #[], types := [{ ty := #[84], member := #[99] }] },
  { kind := .member, raw := #[], types := [{ ty := #[84], member := #[98] }] } ]

def tes : List TExpr := [.input (.field 0 #[84] fa), .input (.field 0 #[84] fc), .input (.field 0 #[84] fb)]

theorem bindTypes_example : bindTypes C tt segs [some 0] = .ok tes := by rfl

def int (r : String) : GoVal := .leaf { t := 3, zero := false, r := r }
def str (r : String) : GoVal := .leaf { t := 4, zero := false, r := r }

/-- `T{A: 1, U: nil, B: "x"}` -/
def vNil : GoVal := .struct { t := 0, zero := false, r := "" }
  [int "1", .ptr { t := 2, zero := true, r := "nil" } none, str "x"]

/-- `T{A: 1, U: &U{C: 7}, B: "x"}` -/
def vSet : GoVal := .struct { t := 0, zero := false, r := "" }
  [int "1", .ptr { t := 2, zero := false, r := "&U" } (some (.struct { t := 1, zero := false, r := "" } [int "7"])), str "x"]

/-- ill-formed: a leaf where the struct `U` is promised behind the embedded pointer -/
def vBad : GoVal := .struct { t := 0, zero := false, r := "" }
  [int "1", .ptr { t := 2, zero := false, r := "&U" } (some (.leaf { t := 1, zero := false, r := "?" })), str "x"]

/-- ill-formed: a leaf of the struct type `T` -/
def vBad2 : GoVal := .leaf { t := 0, zero := false, r := "?" }

theorem vNil_wf : valWF tt 3 vNil = true := by decide
theorem vSet_wf : valWF tt 4 vSet = true := by decide
theorem vBad_not_wf : ∀ fuel, fuel ≤ 10 → valWF tt fuel vBad = false := by decide
theorem vBad2_not_wf : ¬ ValWF tt vBad2 := by
  intro h; cases h with
  | leaf _ hk => revert hk; decide

theorem bindInputs_vSet :
    bindInputs tt tes [vSet] = .ok
      { pieces := [.inputs 0 1, .inputs 1 1, .inputs 2 1],
        params := [(0, "1"), (1, "7"), (2, "x")], outputs := [] } := by rfl
theorem bindInputs_vNil : bindInputs tt tes [vNil] = .error "nil-embedded-pointer" := by rfl
/-- the hypothesis `ValWF` is needed: on ill-formed values the model does panic -/
theorem bindInputs_vBad : bindInputs tt tes [vBad] = .error "panic-field-of-non-struct" := by rfl
theorem bindInputs_vBad2 : bindInputs tt tes [vBad2] = .error "panic-field-of-non-struct" := by rfl
theorem panic_isPanic : "panic-field-of-non-struct".startsWith "panic-" = true := by decide +kernel

end NoPanicExample

/-! ## a second example: bulk slices, maps, interfaces

  `type T struct { A int `db:"a"` }`, `[]*T`, `type M map[string]any`, `type S []int`;
  nodes `(*) VALUES ($T.*, $M.k)` and `$S[:]`. -/
namespace NoPanicExample2

def tt : TypeTable := #[
  { kind := .struct, kindStr := "struct", name := #[84], fields := [                 -- 0: T
      { name := #[65], tag := #[97], exported := true, anon := false, ty := 3 }] },
  { kind := .ptr, kindStr := "ptr", name := #[], elem := 0 },                        -- 1: *T
  { kind := .slice, kindStr := "slice", name := #[], elem := 1 },                    -- 2: []*T
  { kind := .other, kindStr := "int", name := #[105, 110, 116] },                    -- 3: int
  { kind := .string, kindStr := "string", name := #[115] },                          -- 4: string
  { kind := .iface, kindStr := "interface", name := #[] },                           -- 5: any
  { kind := .map, kindStr := "map", name := #[77], key := 4, elem := 5 },            -- 6: M
  { kind := .slice, kindStr := "slice", name := #[83], elem := 3 } ]                 -- 7: S

def segs : List OSeg := [
  { kind := .astInsert, raw := #[], types := [{ ty := #[84], member := star }, { ty := #[77], member := #[107] }] },
  { kind := .slice, raw := #[], types := [{ ty := #[83], member := #[] }] } ]

def int (r : String) : GoVal := .leaf { t := 3, zero := false, r := r }
def rowT (r : String) : GoVal := .ptr { t := 1, zero := false, r := "&T" } (some (.struct { t := 0, zero := false, r := "" } [int r]))

def args : List GoVal := [
  .slice { t := 2, zero := false, r := "" } [rowT "1", rowT "2"],
  .map { t := 6, zero := false, r := "" } (some [(#[107], .iface { t := 5, zero := false, r := "5" } (some (int "5")))]),
  .slice { t := 7, zero := false, r := "" } [int "8", int "9"] ]

/-- a nil `*T` among the rows: still well-formed, rejected without panic -/
def argsNil : List GoVal := [
  .slice { t := 2, zero := false, r := "" } [rowT "1", .ptr { t := 1, zero := true, r := "nil" } none],
  args[1]!, args[2]! ]

theorem args_wf : ∀ a ∈ args ++ argsNil, valWF tt 5 a = true := by decide

theorem bind_example : ∃ tes, bindTypes NoPanicExample.C tt segs [some 0, some 6, some 7] = .ok tes ∧
    (bindInputs tt tes args).isOk = true ∧
    bindInputs tt tes argsNil = .error "nil-pointer-in-slice" := ⟨_, rfl, rfl, rfl⟩

end NoPanicExample2

/-! ## 1. well-formed values -/

/-- specification of the checker: `ValWF tt v` (inductive, `NoPanic/Defs.lean`) holds iff the
    fuel-based Boolean checker `valWF` accepts `v` with some fuel -/
theorem valWF_spec {tt : TypeTable} {v : GoVal} : ValWF tt v ↔ ∃ fuel, valWF tt fuel v = true := valWF_iff

open NoPanicExample in
example : ValWF tt vNil ∧ ValWF tt vSet := ⟨valWF_spec.2 ⟨3, vNil_wf⟩, valWF_spec.2 ⟨4, vSet_wf⟩⟩

open NoPanicExample2 in
example : ∀ a ∈ args ++ argsNil, ValWF tt a := fun a ha => valWF_spec.2 ⟨5, args_wf a ha⟩

/-! ## 5. `getStructFields` never runs out of fuel -/

/-- C18 (no hang): with the fuel `getArgInfo` passes, `getStructFields` never reports fuel
    exhaustion — for EVERY type table and type id (no hypothesis: an id outside the table
    has the default descriptor without fields, so `visiting` only ever holds ids of the
    table; `TableWF tt` is not needed).  A self-embedding type yields
    "recursive-embedding". -/
theorem getStructFields_no_fuel (C : Cls) (tt : TypeTable) (tid : Nat) :
    getStructFields C tt (tt.size + 1) [] tid ≠ .error "fuel" :=
  getStructFields_no_fuel_aux (tt.size + 1) [] tid List.nodup_nil (by intro x hx; cases hx)
    (by simp)

/-- the invariant behind it, for a call in the middle of the recursion: `visiting` holds
    pairwise distinct ids of the table and the fuel exceeds the number of remaining ids -/
theorem getStructFields_no_fuel_visiting (C : Cls) (tt : TypeTable) (fuel : Nat) (visiting : List Nat)
    (tid : Nat) (hnd : visiting.Nodup) (hlt : ∀ x ∈ visiting, x < tt.size)
    (hfuel : tt.size < fuel + visiting.length) :
    getStructFields C tt fuel visiting tid ≠ .error "fuel" :=
  getStructFields_no_fuel_aux fuel visiting tid hnd hlt hfuel

/-- the statement as sketched, under the explicit table hypothesis (a weakening of
    `getStructFields_no_fuel`) -/
theorem getStructFields_no_fuel_of_tableWF (C : Cls) (tt : TypeTable) (_ : TableWF tt) (tid : Nat)
    (_ : tid < tt.size) : getStructFields C tt (tt.size + 1) [] tid ≠ .error "fuel" :=
  getStructFields_no_fuel C tt tid

/-- hence `getArgInfo` never reports "fuel" -/
theorem getArgInfo_no_fuel (C : Cls) (tt : TypeTable) (tid : Nat) : getArgInfo C tt tid ≠ .error "fuel" := by
  intro h
  unfold getArgInfo at h
  simp only [] at h
  split at h
  · split at h
    · exact absurd (Except.error.inj h) (by decide)
    · cases h
  · split at h
    · rename_i e hg
      cases h
      exact getStructFields_no_fuel C tt tid hg
    · split at h
      · exact absurd (Except.error.inj h) (by decide)
      · cases h
  · cases h
  · exact absurd (Except.error.inj h) (by decide)

/-- non-vacuity: a self-embedding struct type is rejected as "recursive-embedding" (with ANY
    positive fuel), and the example table is well-formed -/
example :
    let tt : TypeTable := #[{ kind := .struct, kindStr := "struct", name := #[84], fields := [
      { name := #[84], tag := #[], exported := true, anon := true, ty := 0 }] }]
    getStructFields NoPanicExample.C tt (tt.size + 1) [] 0 = .error "recursive-embedding" ∧ TableWF tt :=
  ⟨by rfl, by decide⟩

example : TableWF NoPanicExample.tt := by decide

/-- C18 for Prepare (closed world): for ALL classifiers, type tables, nodes and samples,
    `bindTypes` only fails with one of the 31 classes of `prepareErrorClasses` -/
theorem bindTypes_error_classes {C : Cls} {tt : TypeTable} {segs : List OSeg} {samples : List (Option Nat)} :
    ∀ e, bindTypes C tt segs samples = .error e → e ∈ prepareErrorClasses :=
  fun _ he => bindTypes_classes he

/-- C18 for Prepare: `bindTypes` never hangs on a type sample (no "fuel"), never panics and
    never reports the internal class of `getArgInfo` — unconditionally -/
theorem bindTypes_no_panic {C : Cls} {tt : TypeTable} {segs : List OSeg} {samples : List (Option Nat)} :
    ∀ e, bindTypes C tt segs samples = .error e →
      e ≠ "fuel" ∧ ¬ (e.startsWith "panic-" = true) ∧ e ≠ "internal-unsupported-type" := by
  intro e he
  obtain ⟨h1, h2, h3, _⟩ := prepareErrorClasses_ok e (bindTypes_classes he)
  exact ⟨h1, h2, h3⟩

/-- non-vacuity: a cycle of embedded pointers `T{*U}`, `U{*T}` as a sample -/
example :
    let tt : TypeTable := #[
      { kind := .struct, kindStr := "struct", name := #[84], fields := [
          { name := #[85], tag := #[], exported := true, anon := true, ty := 3 }] },     -- 0: T {*U}
      { kind := .struct, kindStr := "struct", name := #[85], fields := [
          { name := #[84], tag := #[], exported := true, anon := true, ty := 2 }] },     -- 1: U {*T}
      { kind := .ptr, kindStr := "ptr", name := #[], elem := 0 },                        -- 2: *T
      { kind := .ptr, kindStr := "ptr", name := #[], elem := 1 } ]                       -- 3: *U
    bindTypes NoPanicExample.C tt [] [some 0] = .error "recursive-embedding" := by rfl

/-! ## 2. `fieldByIndex` -/

/-- C18: on a well-formed value of the struct type `tid`, following the index path of a field
    computed by `getStructFields` for `tid`, `fieldByIndex` finds a (well-formed) value or
    stops at a nil embedded pointer — never a panic class. -/
theorem fieldByIndex_no_panic {C : Cls} {tt : TypeTable} {fuel : Nat} {vis : List Nat} {tid : Nat}
    {fields : List SField} {f : SField} {v : GoVal}
    (hg : getStructFields C tt fuel vis tid = .ok fields) (hf : f ∈ fields)
    (hk : (tt.get tid).kind = .struct) (hv : ValWF tt v) (ht : v.tid = tid) :
    (∃ r, fieldByIndex v f.index true = .ok r ∧ ValWF tt r) ∨
      fieldByIndex v f.index true = .error "nil-embedded-pointer" :=
  fieldByIndex_wf hv ht hk (getStructFields_paths _ _ _ _ hg f hf)

/-- the same, as a statement about error classes -/
theorem fieldByIndex_no_panic' {C : Cls} {tt : TypeTable} {fuel : Nat} {vis : List Nat} {tid : Nat}
    {fields : List SField} {f : SField} {v : GoVal}
    (hg : getStructFields C tt fuel vis tid = .ok fields) (hf : f ∈ fields)
    (hk : (tt.get tid).kind = .struct) (hv : ValWF tt v) (ht : v.tid = tid) :
    ∀ e, fieldByIndex v f.index true = .error e → ¬ (e.startsWith "panic-" = true) := by
  intro e he
  rcases fieldByIndex_no_panic hg hf hk hv ht with ⟨r, hr, _⟩ | hr
  · rw [hr] at he; cases he
  · rw [hr] at he; cases he; decide +kernel

open NoPanicExample in
example : (∃ r, fieldByIndex vSet fc.index true = .ok r ∧ ValWF tt r) ∨
    fieldByIndex vSet fc.index true = .error "nil-embedded-pointer" :=
  fieldByIndex_no_panic fields_T (by simp) rfl (valWF_spec.2 ⟨4, vSet_wf⟩) rfl

open NoPanicExample in
example : fieldByIndex vSet fc.index true = .ok (int "7") ∧
    fieldByIndex vNil fc.index true = .error "nil-embedded-pointer" ∧
    fieldByIndex vBad fc.index true = .error "panic-field-of-non-struct" := ⟨rfl, rfl, rfl⟩

/-- the hypothesis `hk` (the type is a struct type) is needed: in an ill-formed TABLE whose
    non-struct type 0 has a field list, `getStructFields` computes the path `[0]`, a leaf is a
    well-formed value of type 0, and `fieldByIndex` panics -/
example :
    let tt : TypeTable := #[{ kind := .other, kindStr := "int", name := #[84], fields := [
      { name := #[65], tag := #[97], exported := true, anon := false, ty := 0 }] }]
    let v : GoVal := .leaf { t := 0, zero := false, r := "" }
    getStructFields NoPanicExample.C tt 2 [] 0 = .ok [{ name := #[65], tag := #[97], omitEmpty := false, index := [0] }] ∧
    valWF tt 1 v = true ∧ fieldByIndex v [0] true = .error "panic-field-of-non-struct" :=
  ⟨by rfl, by decide, by rfl⟩

/-! ## 3. `locateParams` -/

/-- what `bindTypes` guarantees of ALL its locators (inputs, insert columns, outputs):
    `Loc.GenOK` extends `Loc.kindOK` (`bindTypes_inputLocs_kindOK`) by "a field locator
    carries a field computed by `getStructFields` for its struct type" -/
theorem bindTypes_locs_genOK' {C : Cls} {tt : TypeTable} {segs : List OSeg}
    {samples : List (Option Nat)} {tes : List TExpr} (h : bindTypes C tt segs samples = .ok tes) :
    ∀ te ∈ tes, ∀ l ∈ te.allLocs, l.GenOK C tt :=
  bindTypes_locs_genOK h

/-- C18: for every input locator of a prepared statement and every argument table built by
    `validateInputs` from well-formed arguments, `locateParams` only fails with a class of
    the closed list `inputErrorClasses` -/
theorem locateParams_error_classes {C : Cls} {tt : TypeTable} {segs : List OSeg}
    {samples : List (Option Nat)} {tes : List TExpr} (h : bindTypes C tt segs samples = .ok tes)
    {args : List GoVal} {m : TypeToValue} (hwf : ∀ a ∈ args, ValWF tt a)
    (hm : validateInputs tt args [] = .ok m) {te : TExpr} (hte : te ∈ tes) {l : Loc}
    (hl : l ∈ te.inputLocs) {e : String} (he : locateParams tt m l = .error e) :
    e ∈ inputErrorClasses :=
  locateParams_classes (validateInputs_ttvWF hwf hm)
    (bindTypes_locs_genOK h te hte l (te.inputLocs_subset_allLocs l hl)) he

/-- C18: … hence never with a panic class -/
theorem locateParams_no_panic {C : Cls} {tt : TypeTable} {segs : List OSeg}
    {samples : List (Option Nat)} {tes : List TExpr} (h : bindTypes C tt segs samples = .ok tes)
    {args : List GoVal} {m : TypeToValue} (hwf : ∀ a ∈ args, ValWF tt a)
    (hm : validateInputs tt args [] = .ok m) {te : TExpr} (hte : te ∈ tes) {l : Loc}
    (hl : l ∈ te.inputLocs) : ∀ e, locateParams tt m l = .error e → ¬ (e.startsWith "panic-" = true) :=
  fun e he => (inputErrorClasses_not_panic e (locateParams_error_classes h hwf hm hte hl he)).1

open NoPanicExample in
example : ∀ e, locateParams tt [(0, vNil)] (.field 0 #[84] fc) = .error e → ¬ (e.startsWith "panic-" = true) :=
  locateParams_no_panic bindTypes_example (args := [vNil])
    (by intro a ha; simp only [List.mem_singleton] at ha; subst ha; exact valWF_spec.2 ⟨3, vNil_wf⟩)
    rfl (te := .input (.field 0 #[84] fc)) (by simp [tes]) (by simp [TExpr.inputLocs])

/-! ## 4. `bindInputs` -/

/-- C18 (closed world of the input side): on well-formed arguments, a prepared statement
    only makes `bindInputs` fail with one of the 20 classes of `inputErrorClasses` -/
theorem bindInputs_error_classes {C : Cls} {tt : TypeTable} {segs : List OSeg}
    {samples : List (Option Nat)} {tes : List TExpr} (h : bindTypes C tt segs samples = .ok tes)
    {args : List GoVal} (hwf : ∀ a ∈ args, ValWF tt a) :
    ∀ e, bindInputs tt tes args = .error e → e ∈ inputErrorClasses :=
  fun _ he => bindInputs_classes
    (fun te hte l hl => bindTypes_locs_genOK h te hte l (te.inputLocs_subset_allLocs l hl))
    (bindTypes_insert_locs h) (fun a ha => (hwf a ha).argWF) he

/-- the same when some arguments are untyped nils (`.invalid`, which is not `ValWF`):
    `ArgWF tt a := a = .invalid ∨ ValWF tt a` -/
theorem bindInputs_error_classes_args {C : Cls} {tt : TypeTable} {segs : List OSeg}
    {samples : List (Option Nat)} {tes : List TExpr} (h : bindTypes C tt segs samples = .ok tes)
    {args : List GoVal} (hwf : ∀ a ∈ args, ArgWF tt a) :
    ∀ e, bindInputs tt tes args = .error e → e ∈ inputErrorClasses ∧ ¬ (e.startsWith "panic-" = true) ∧ ¬ isInternal e := by
  intro e he
  have hc := bindInputs_classes
    (fun te hte l hl => bindTypes_locs_genOK h te hte l (te.inputLocs_subset_allLocs l hl))
    (bindTypes_insert_locs h) hwf he
  exact ⟨hc, inputErrorClasses_not_panic e hc⟩

open NoPanicExample in
example : bindInputs tt tes [.invalid] = .error "nil-argument" ∧ ArgWF tt .invalid := ⟨rfl, Or.inl rfl⟩

/-- C18: a prepared statement never makes `bindInputs` panic on well-formed arguments -/
theorem bindInputs_no_panic {C : Cls} {tt : TypeTable} {segs : List OSeg}
    {samples : List (Option Nat)} {tes : List TExpr} (h : bindTypes C tt segs samples = .ok tes)
    {args : List GoVal} (hwf : ∀ a ∈ args, ValWF tt a) :
    ∀ e, bindInputs tt tes args = .error e → ¬ (e.startsWith "panic-" = true) :=
  fun e he => (inputErrorClasses_not_panic e (bindInputs_error_classes h hwf e he)).1

/-- … nor report an internal error (this half needs no well-formedness: `no_internal_error`) -/
theorem bindInputs_no_panic_no_internal {C : Cls} {tt : TypeTable} {segs : List OSeg}
    {samples : List (Option Nat)} {tes : List TExpr} (h : bindTypes C tt segs samples = .ok tes)
    {args : List GoVal} (hwf : ∀ a ∈ args, ValWF tt a) :
    ∀ e, bindInputs tt tes args = .error e → ¬ (e.startsWith "panic-" = true) ∧ ¬ isInternal e :=
  fun e he => inputErrorClasses_not_panic e (bindInputs_error_classes h hwf e he)

open NoPanicExample in
example : ∀ e, bindInputs tt tes [vNil] = .error e → ¬ (e.startsWith "panic-" = true) :=
  bindInputs_no_panic bindTypes_example
    (by intro a ha; simp only [List.mem_singleton] at ha; subst ha; exact valWF_spec.2 ⟨3, vNil_wf⟩)

open NoPanicExample2 in
example : ∀ tes, bindTypes NoPanicExample.C tt segs [some 0, some 6, some 7] = .ok tes →
    ∀ e, bindInputs tt tes argsNil = .error e → ¬ (e.startsWith "panic-" = true) :=
  fun _ h => bindInputs_no_panic h
    (fun a ha => valWF_spec.2 ⟨5, args_wf a (List.mem_append_right _ ha)⟩)

open NoPanicExample in
/-- the theorem applies to the accepted argument too (there its premise is never met),
    and the hypothesis `ValWF` cannot be dropped: `bindInputs_vBad` -/
example : (bindInputs tt tes [vSet]).isOk = true ∧
    bindInputs tt tes [vNil] = .error "nil-embedded-pointer" ∧
    (∃ e, bindInputs tt tes [vBad] = .error e ∧ e.startsWith "panic-" = true) :=
  ⟨by rw [bindInputs_vSet]; rfl, bindInputs_vNil, _, bindInputs_vBad, panic_isPanic⟩

/-! ## 6. scan side

  `scanGet` is a total function returning a pair and the scan model has no panic class;
  the only degenerate value is the type id 0 of `fieldTypeOf`'s `none` branch. -/

/-- for every locator of a prepared statement (in particular its outputs), the field type
    that `locateTarget` reports was found by following existing fields of the table:
    `fieldTypeOf` never took its degenerate branch (`fieldTypeOf?` is `fieldTypeOf` with
    that branch returning `none`).  No hypothesis on the destinations is needed. -/
theorem locateTarget_no_oob {C : Cls} {tt : TypeTable} {segs : List OSeg}
    {samples : List (Option Nat)} {tes : List TExpr} (h : bindTypes C tt segs samples = .ok tes)
    {te : TExpr} (hte : te ∈ tes) {l : Loc} (hl : l ∈ te.allLocs)
    (dests : List Dest) (m : List (Nat × Nat)) {di fty : Nat} {idx : List Nat} {cat : FieldCat}
    (ht : locateTarget tt dests m l = .ok (.field di idx fty cat)) :
    fieldTypeOf? tt l.tid idx true = some fty :=
  locateTarget_field_type (bindTypes_locs_genOK h te hte l hl) ht

/-- `fieldTypeOf?` only makes the degenerate branch of `fieldTypeOf` visible -/
theorem fieldTypeOf?_eq_some {tt : TypeTable} : ∀ (path : List Nat) (tid : Nat) (first : Bool) (t : Nat),
    fieldTypeOf? tt tid path first = some t → fieldTypeOf tt tid path first = t := by
  intro path
  induction path with
  | nil => intro tid first t h; simpa [fieldTypeOf?, fieldTypeOf] using h
  | cons i rest ih =>
    intro tid first t h
    simp only [fieldTypeOf?] at h
    simp only [fieldTypeOf]
    split at h
    · rename_i fd hfd
      simp only [hfd]
      exact ih _ _ _ h
    · cases h

/-- non-vacuity: `&T.c` into a `*T` destination whose embedded pointer is set -/
example :
    let tt := NoPanicExample.tt
    let l : Loc := .field 0 #[84] NoPanicExample.fc
    let d : Dest := { form := .ptrStruct, tid := 0, fields := [([0], some "1"), ([1, 0], some "7"), ([2], some "x")] }
    locateTarget tt [d] [(0, 0)] l = .ok (.field 0 [1, 0] 3 .proxy) ∧
    fieldTypeOf? tt 0 [1, 0] true = some 3 ∧
    -- a path that leaves the table hits the degenerate branch
    fieldTypeOf? tt 0 [1, 5] true = none ∧ fieldTypeOf tt 0 [1, 5] true = 0 :=
  ⟨by rfl, by rfl, by rfl, by rfl⟩

end Sqlair
