/-
  L2Sound/C03Vals: `holdsC03vals` (C03, value level: "the k-th argument the driver receives is
  named sqlair_k and is the value of the member the k-th expression names", members found BY TAG)
  against the model, which finds the members through the INDEX PATHS of `getStructFields`.

  * `c03valsGuards`: the decidable guard under which the predicate is true of the model's own
    observation (each conjunct is necessary: `Props/L2C03Vals.lean`);
  * `MemSegs`: the typed expressions of a statement whose expressions are member inputs only;
  * `c03vals_point`: one member input: the single value the model locates is the value the search
    by tag finds in the only argument carrying the type name;
  * `c03vals_fold`: all of them, numbered from the input counter.
-/
import SqlairProofs.L2Sound.C03ValsGuard
import SqlairProofs.L2Rows.Inputs
import SqlairProofs.L2Rows.Rows
import SqlairProofs.L2Sound.Defs
import SqlairProofs.Bind.Perm
import SqlairProofs.E2E.Samples
import SqlairProofs.E2E.Shapes

namespace Sqlair

/-! ## the guard: `SqlairProofs/L2Sound/C03ValsGuard.lean` (definitions only, imported by the driver) -/

/-! ## the predicate, its body named -/

/-- what `holdsC03vals` checks of the `k`-th expression `s` and the `k`-th driver argument `p` -/
def c03valsCheck (C : Cls) (tt : TypeTable) (args : List GoVal) : Nat × OSeg × (String × String) → Bool :=
  fun (k, s, p) =>
    match s.types with
    | [a] =>
      if (args.filter (fun v => v.typeName tt == a.ty)).length != 1 then true else
      match args.find? (fun v => v.typeName tt == a.ty) with
      | some v =>
        match valueByTag C tt 8 v a.member with
        | some fv => p.1 == s!"sqlair_{k}" && p.2 == fv.h.r
        | none => false
      | none => false
    | _ => true

theorem holdsC03vals_eq (C : Cls) (tt : TypeTable) (segs : List OSeg) (args : List GoVal) (o : BindObs) :
    holdsC03vals C tt segs args o =
      (if !(o.prepOk && o.bindOk) || o.mode == "none" then true else
       if !(segs.filter (·.kind != .bypass)).all (·.kind == .member) then true else
       (segs.filter (·.kind != .bypass)).length == o.params.length &&
       ((List.range (segs.filter (·.kind != .bypass)).length).zip
          ((segs.filter (·.kind != .bypass)).zip o.params)).all (c03valsCheck C tt args)) := rfl

/-- the name the model gives to a parameter -/
def c03valsName : Nat × String → String × String := fun (n, v) => (s!"sqlair_{n}", v)

theorem modelBindObs_params (pq : Primed) : (modelBindObs pq).params = pq.params.map c03valsName := rfl

/-! ## small facts -/

theorem typeName_eq_indirect (tt : TypeTable) (v : GoVal) : v.typeName tt = (tt.get (indirect v).tid).name := by
  cases v with
  | ptr h p => cases p <;> rfl
  | _ => rfl

theorem find?_of_filter_one {α : Type} (p : α → Bool) : ∀ (l : List α) (x : α),
    (l.filter p).length = 1 → x ∈ l → p x = true → l.find? p = some x := by
  intro l
  induction l with
  | nil => intro x _ hx; cases hx
  | cons y rest ih =>
    intro x hlen hx hpx
    by_cases hy : p y = true
    · rw [List.find?_cons, hy]
      rw [List.filter_cons_of_pos hy, List.length_cons] at hlen
      have hnil : rest.filter p = [] := List.eq_nil_of_length_eq_zero (by omega)
      rcases List.mem_cons.1 hx with rfl | hx
      · rfl
      · have : x ∈ rest.filter p := List.mem_filter.2 ⟨hx, hpx⟩
        rw [hnil] at this
        cases this
    · have hy' : p y = false := by simpa using hy
      rw [List.find?_cons, hy']
      rw [List.filter_cons_of_neg hy] at hlen
      rcases List.mem_cons.1 hx with rfl | hx
      · exact absurd hpx hy
      · exact ih x hlen hx hpx

theorem ttvGet_argEntry {args : List GoVal} {tid : Nat} {s : GoVal}
    (h : ttvGet (args.map argEntry) tid = some s) :
    ∃ arg ∈ args, s = indirect arg ∧ (indirect arg).tid = tid := by
  unfold ttvGet at h
  rw [Option.map_eq_some_iff] at h
  obtain ⟨p, hp, rfl⟩ := h
  have hmem := List.mem_of_find?_eq_some hp
  have hkey := List.find?_some hp
  obtain ⟨arg, harg, rfl⟩ := List.mem_map.1 hmem
  exact ⟨arg, harg, rfl, by simpa [argEntry] using hkey⟩

theorem rowOf_of_indirect {tt : TypeTable} {tid : Nat} {arg : GoVal} (hwf : ValWF tt arg)
    (ht : (indirect arg).tid = tid) : RowOf tt tid arg := by
  refine ⟨hwf, ?_⟩
  cases arg with
  | ptr h p =>
    cases p with
    | none => exact .inl ht
    | some q => exact .inr ⟨h, q, rfl, ht⟩
  | _ => exact .inl ht

theorem valueByTag_map_arg {C : Cls} {tt : TypeTable} {arg : GoVal} {h : VH} {kv : Option (List (Bytes × GoVal))}
    (hi : indirect arg = .map h kv) (key : Bytes) : valueByTag C tt 8 arg key = mapIndex kv key := by
  cases arg with
  | ptr hd p =>
    cases p with
    | none => cases hi
    | some q =>
      simp only [indirect] at hi
      subst hi
      rfl
  | map hd kv' =>
    simp only [indirect] at hi
    cases hi
    rfl
  | _ => cases hi

/-! ## Prepare: the typed expressions of a statement of member inputs -/

/-- nodes and typed expressions of a statement whose expressions are member inputs: a bypass
    chunk per bypass node, and per member node `$T.m` the locator `getMember m` of the sample
    info named `T` -/
inductive MemSegs (infos : List (Bytes × ArgInfo)) : List OSeg → List TExpr → Prop
  | nil : MemSegs infos [] []
  | bypass {x : OSeg} {rest : List OSeg} {es : List TExpr} : x.kind = .bypass → MemSegs infos rest es →
      MemSegs infos (x :: rest) (.bypass x.raw :: es)
  | member {x : OSeg} {rest : List OSeg} {es : List TExpr} {a : Acc} {k : Bytes} {ai : ArgInfo} {l : Loc} :
      x.kind = .member → x.types = [a] → infos.find? (fun q => q.1 == a.ty) = some (k, ai) →
      ai.getMember a.member = .ok l → MemSegs infos rest es → MemSegs infos (x :: rest) (.input l :: es)

theorem inputMember_find {st st' : TEB} {ty m : Bytes} {l : Loc} (h : inputMember st ty m = .ok (l, st')) :
    ∃ k ai, st.argInfos.find? (fun q => q.1 == ty) = some (k, ai) ∧ ai.getMember m = .ok l := by
  unfold inputMember at h
  split at h
  · cases h
  · rename_i a st1 hg
    split at h
    · cases h
    · rename_i l' hm
      cases h
      obtain ⟨k, hk⟩ := getArg_find hg
      exact ⟨k, a, hk, hm⟩

theorem bindSegs_memSegs : ∀ (segs : List OSeg) (st st' : TEB),
    (segs.filter (·.kind != .bypass)).all (·.kind == .member) = true → bindSegs st segs = .ok st' →
    ∃ new, st'.exprs = st.exprs ++ new ∧ MemSegs st.argInfos segs new := by
  intro segs
  induction segs with
  | nil =>
    intro st st' _ h
    simp only [bindSegs] at h
    cases h
    exact ⟨[], by simp, .nil⟩
  | cons x rest ih =>
    intro st st' hall h
    by_cases hx : x.kind = .bypass
    · have hf : (x :: rest).filter (·.kind != .bypass) = rest.filter (·.kind != .bypass) := by
        rw [List.filter_cons]; simp [hx]
      rw [hf] at hall
      simp only [bindSegs, bindSeg_bypass_ok hx] at h
      obtain ⟨new, h1, h2⟩ := ih _ _ hall h
      exact ⟨.bypass x.raw :: new, by rw [h1]; simp [TEB.add], .bypass hx h2⟩
    · have hx' : (x.kind != .bypass) = true := by simpa using hx
      have hf : (x :: rest).filter (·.kind != .bypass) = x :: rest.filter (·.kind != .bypass) := by
        rw [List.filter_cons, if_pos hx']
      rw [hf, List.all_cons, Bool.and_eq_true] at hall
      have hk : x.kind = .member := by simpa using hall.1
      simp only [bindSegs] at h
      split at h
      · cases h
      · rename_i st1 hs
        unfold bindSeg at hs
        rw [hk] at hs
        simp only at hs
        split at hs
        · rename_i a hty
          split at hs
          · cases hs
          · rename_i l st0 hi
            cases hs
            obtain ⟨_, hex, hai⟩ := inputMember_ok hi
            obtain ⟨k, ai, hfind, hgm⟩ := inputMember_find hi
            obtain ⟨new, h1, h2⟩ := ih _ _ hall.2 h
            refine ⟨.input l :: new, by rw [h1]; simp [TEB.add, hex], ?_⟩
            have : (st0.add (.input l)).argInfos = st.argInfos := hai
            rw [this] at h2
            exact .member hk hty hfind hgm h2
        · cases hs

/-! ## one member input -/

/-- one member input `$T.m`: the model locates exactly one value, and it is the text of the member
    the search by tag finds in the only argument whose type name is `T` -/
theorem c03vals_point {C : Cls} {tt : TypeTable} {samples : List (Option Nat)} {infos : List (Bytes × ArgInfo)}
    {args : List GoVal} {m : TypeToValue}
    (hg : generateArgInfo C tt samples [] = .ok infos) (hm : validateInputs tt args [] = .ok m)
    {s : OSeg} {a : Acc} {k : Bytes} {ai : ArgInfo} {l : Loc} {p : Params} (c : Nat)
    (hty : s.types = [a]) (hfind : infos.find? (fun q => q.1 == a.ty) = some (k, ai))
    (hgm : ai.getMember a.member = .ok l)
    (hloc : locateParams tt m l = .ok p) (hb : p.bulk = false)
    (hguard : ∀ v ∈ args, v.typeName tt = a.ty → c03valsArgOK C tt v = true) :
    ∃ v, p.vals = [v] ∧ c03valsCheck C tt args (c, s, (s!"sqlair_{c}", v)) = true := by
  obtain ⟨smp, _, tid, _, _, _, hinfo, hname⟩ := generateArgInfo_mem hg (List.mem_of_find?_eq_some hfind)
  simp only at hinfo hname
  have hk : k = a.ty := by simpa using List.find?_some hfind
  obtain ⟨rfl, _⟩ := (validateInputs_nil_ok_iff tt args m).1 hm
  -- what remains once the argument and the member found by tag are known
  have finish : ∀ (arg fv : GoVal), arg ∈ args → (indirect arg).tid = tid →
      valueByTag C tt 8 arg a.member = some fv →
      c03valsCheck C tt args (c, s, (s!"sqlair_{c}", fv.h.r)) = true := by
    intro arg fv harg htid hv
    have hname' : arg.typeName tt = a.ty := by rw [typeName_eq_indirect, htid, ← hname, hk]
    unfold c03valsCheck
    simp only [hty]
    split
    · rfl
    · rename_i hcount
      have hcount : (args.filter (fun v => v.typeName tt == a.ty)).length = 1 := by simpa using hcount
      rw [find?_of_filter_one _ args arg hcount harg (by simpa using hname')]
      simp only [hv]
      simp
  cases ai with
  | slice t n => simp [ArgInfo.getMember] at hgm
  | map t n =>
    simp only [ArgInfo.getMember, Except.ok.injEq] at hgm
    subst hgm
    have htid : t = tid := by
      unfold getArgInfo at hinfo
      simp only at hinfo
      split at hinfo
      · split at hinfo
        · cases hinfo
        · cases hinfo; rfl
      · split at hinfo
        · cases hinfo
        · split at hinfo <;> cases hinfo
      · cases hinfo
      · cases hinfo
    subst htid
    unfold locateParams at hloc
    simp only at hloc
    split at hloc
    · rename_i hd kv hget
      split at hloc
      · cases hloc
      · rename_i v0 hidx
        cases hloc
        obtain ⟨arg, harg, hs, htid⟩ := ttvGet_argEntry hget
        refine ⟨v0.h.r, rfl, finish arg v0 harg htid ?_⟩
        rw [valueByTag_map_arg hs.symm]
        exact hidx
    · cases hloc
    · split at hloc
      · split at hloc
        · cases hloc
        · split at hloc
          · cases hloc
          · cases hloc; simp at hb
      · cases hloc
      · cases hloc
  | struct t n fields tags =>
    obtain ⟨rfl, _, hkind, _, _⟩ := getArgInfo_struct hinfo
    simp only [ArgInfo.getMember] at hgm
    split at hgm
    · rename_i f hf
      cases hgm
      have hfmem : f ∈ fields := List.mem_of_find?_eq_some hf
      have hftag : f.tag = a.member := by simpa using List.find?_some hf
      unfold locateParams at hloc
      simp only at hloc
      split at hloc
      · rename_i s0 hget
        split at hloc
        · cases hloc
        · rename_i v0 hidx
          cases hloc
          obtain ⟨arg, harg, hs, htid⟩ := ttvGet_argEntry hget
          have hname' : arg.typeName tt = a.ty := by rw [typeName_eq_indirect, htid, ← hname, hk]
          have hok := hguard arg harg hname'
          unfold c03valsArgOK at hok
          rw [htid, hkind] at hok
          simp only [Bool.or_eq_true, Bool.and_eq_true, beq_iff_eq, reduceCtorEq, false_or] at hok
          obtain ⟨⟨hemb, hwf⟩, htags⟩ := hok
          obtain ⟨tgs, htgs⟩ := Option.isSome_iff_exists.1 htags
          obtain ⟨fv, h1, h2⟩ := (row_by_tag hemb hinfo (rowOf_of_indirect (valWF_sound 64 arg hwf) htid) htgs).2 f hfmem
          have : fv = v0 := by
            rw [rowStruct, ← hs, hidx] at h1
            cases h1; rfl
          subst this
          refine ⟨fv.h.r, rfl, finish arg fv harg htid ?_⟩
          rw [← hftag]
          exact h2
      · split at hloc
        · split at hloc
          · cases hloc
          · split at hloc
            · cases hloc
            · cases hloc; simp at hb
        · cases hloc
        · cases hloc
    · cases hgm

/-! ## all member inputs -/

theorem inputParams_one (c : Nat) (v : String) : inputParams c [v] = [(c, v)] := by
  simp [inputParams, List.range_succ]

/-- the fold of `bindInputs` over the typed expressions of a statement of member inputs: one new
    parameter per expression, numbered from the input counter, and `c03valsCheck` holds of the
    expression, its number and its parameter -/
theorem c03vals_fold {C : Cls} {tt : TypeTable} {samples : List (Option Nat)} {infos : List (Bytes × ArgInfo)}
    {args : List GoVal} {m : TypeToValue}
    (hg : generateArgInfo C tt samples [] = .ok infos) (hm : validateInputs tt args [] = .ok m) :
    ∀ (segs : List OSeg) (es : List TExpr), MemSegs infos segs es →
    (∀ s ∈ segs, s.kind = .member → ∀ a, s.types = [a] → ∀ v ∈ args, v.typeName tt = a.ty →
      c03valsArgOK C tt v = true) →
    ∀ (qb qb' : QB), es.foldlM (addToQuery tt m) qb = .ok qb' →
    ∃ ps, qb'.params = qb.params ++ ps ∧ (segs.filter (·.kind != .bypass)).length = ps.length ∧
      ((List.range' qb.inputCount (segs.filter (·.kind != .bypass)).length).zip
        ((segs.filter (·.kind != .bypass)).zip (ps.map c03valsName))).all (c03valsCheck C tt args) = true := by
  intro segs es hms
  induction hms with
  | nil =>
    intro _ qb qb' h
    cases h
    exact ⟨[], by simp, rfl, rfl⟩
  | @bypass x rest es hx _ ih =>
    intro hgd qb qb' h
    have hf : (x :: rest).filter (·.kind != .bypass) = rest.filter (·.kind != .bypass) := by
      rw [List.filter_cons]; simp [hx]
    rw [hf]
    rw [foldlM_except_cons] at h
    simp only [addToQuery] at h
    exact ih (fun s hs => hgd s (List.mem_cons_of_mem _ hs)) { qb with pieces := qb.pieces ++ [.text x.raw] } qb' h
  | @member x rest es a k ai l hx hty hfind hgm _ ih =>
    intro hgd qb qb' h
    have hx' : (x.kind != .bypass) = true := by simp [hx]
    have hf : (x :: rest).filter (·.kind != .bypass) = x :: rest.filter (·.kind != .bypass) := by
      rw [List.filter_cons, if_pos hx']
    rw [hf]
    rw [foldlM_except_cons] at h
    cases hs : addToQuery tt m qb (.input l) with
    | error e => rw [hs] at h; cases h
    | ok q1 =>
      rw [hs] at h
      obtain ⟨p, st⟩ := addToQuery_input_spec hs
      obtain ⟨v, hv, hchk⟩ := c03vals_point (C := C) hg hm qb.inputCount hty hfind hgm st.located st.not_bulk
        (hgd x List.mem_cons_self hx a hty)
      obtain ⟨ps, h1, h2, h3⟩ := ih (fun s hs => hgd s (List.mem_cons_of_mem _ hs)) _ _ h
      have hic : q1.inputCount = qb.inputCount + 1 := by rw [st.inputCount, hv]; rfl
      refine ⟨(qb.inputCount, v) :: ps, ?_, by simp [h2], ?_⟩
      · rw [h1, st.params, hv, inputParams_one]; simp
      · rw [List.length_cons, List.range'_succ, List.map_cons, List.zip_cons_cons, List.zip_cons_cons,
          List.all_cons, Bool.and_eq_true]
        refine ⟨hchk, ?_⟩
        rw [hic] at h3
        exact h3

end Sqlair
