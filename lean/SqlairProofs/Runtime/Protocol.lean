/-
  Runtime proofs, iterator protocol: the well-formedness invariant of reachable iterators,
  closed iterators are inert, `Next = false` is sticky, pending errors reach `Close`.
-/
import SqlairProofs.Runtime.Open

namespace Sqlair.Rt

/-! ### well-formedness of reachable states -/

/-- invariant of `sql.Rows`: an error is only remembered by closed rows (every path that
    sets `lasterr` closes), and closed rows have no current row -/
structure Rows.WF (r : Rows) : Prop where
  lasterr_closed : r.lasterr ≠ none → r.closed = true
  closed_cur : r.closed = true → r.cur = none

/-- invariant of reachable iterators -/
structure Iter.WF (it : Iter) : Prop where
  err_rows : it.err ≠ none → it.rows = none
  rows_out : ∀ r, it.rows = some r → it.hasOutputs = true
  rows_wf : ∀ r, it.rows = some r → r.WF

theorem Rows.WF.lasterr_none {r : Rows} (h : r.WF) (ho : r.closed = false) : r.lasterr = none := by
  cases hl : r.lasterr with
  | none => rfl
  | some e => have := h.lasterr_closed (by simp [hl]); simp_all

theorem Rows.close_WF {r : Rows} (h : r.closed = true → r.WF) (w : World) : (r.close w).1.WF := by
  cases hc : r.closed
  · rw [Rows.close_of_open hc]; constructor <;> simp
  · rw [Rows.close_of_closed hc]; exact h hc

theorem Rows.next_WF {r : Rows} (h : r.WF) (w : World) : (r.next w).1.WF := by
  cases hc : r.closed
  · have hl := h.lasterr_none hc
    unfold Rows.next
    simp only [hc, Bool.false_eq_true, if_false]
    split
    · exact Rows.close_WF (by simp) _
    · exact Rows.close_WF (by simp) _
    · exact ⟨by simp [hl], by simp⟩
  · rw [Rows.next_of_closed hc]; exact h

theorem Rows.cancel_WF {r : Rows} (h : r.WF) (w : World) : (r.cancel w).1.WF := by
  cases hc : r.closed
  · unfold Rows.cancel
    simp only [hc, Bool.false_eq_true, if_false]
    exact Rows.close_WF (by simp) _
  · rw [Rows.cancel_of_closed hc]; exact h

theorem iterOpen_WF (s : Script) (w : World) : (iterOpen s w).1.WF := by
  rw [iterOpen_eq]
  refine ⟨?_, ?_, ?_⟩
  · intro h; simp [Script.openRows]; intro _; simpa [Script.runsOK, Option.isSome_iff_ne_none] using h
  · intro r; simp [Script.openRows]; intro h _ _; exact h
  · intro r; simp [Script.openRows]; intro _ _ h; subst h; constructor <;> simp

theorem Iter.next_WF {it : Iter} (h : it.WF) (w : World) : (it.next w).1.WF := by
  rcases Iter.next_cases it w with hn | ⟨r, he, hr, hn⟩
  · rw [hn]; exact ⟨h.err_rows, h.rows_out, h.rows_wf⟩
  · rw [hn]
    refine ⟨by simp [he], fun _ _ => h.rows_out r hr, ?_⟩
    intro r' hr'
    simp at hr'
    subst hr'
    exact Rows.next_WF (h.rows_wf r hr) w

theorem Iter.close_WF (it : Iter) (w : World) : (it.close w).1.WF :=
  ⟨by simp, by simp, by simp⟩

theorem Iter.cancel_WF {it : Iter} (h : it.WF) (w : World) : (it.cancel w).1.WF := by
  cases hr : it.rows with
  | none => rw [Iter.cancel_of_rows_none hr]; exact h
  | some r =>
    rw [Iter.cancel_of_rows hr]
    refine ⟨fun he => by have := h.err_rows he; simp_all, fun _ _ => h.rows_out r hr, ?_⟩
    intro r' hr'
    simp at hr'
    subst hr'
    exact Rows.cancel_WF (h.rows_wf r hr) w

theorem step_WF {it : Iter} (h : it.WF) (w : World) (c : Call) : (step it w c).1.WF := by
  cases c with
  | next => exact Iter.next_WF h w
  | get a => exact h
  | close => exact Iter.close_WF it w
  | cancel => exact Iter.cancel_WF h w

theorem run_WF {it : Iter} (h : it.WF) (w : World) (cs : List Call) : (run it w cs).1.WF := by
  induction cs generalizing it w with
  | nil => exact h
  | cons c cs ih => rw [run_cons]; exact ih (step_WF h w c) _

/-- every iterator reachable from `Query.Iter` by any call sequence is well-formed -/
theorem reachable_WF (s : Script) (w : World) (cs : List Call) :
    (run (iterOpen s w).1 (iterOpen s w).2 cs).1.WF :=
  run_WF (iterOpen_WF s w) _ cs

/-! ### an iterator without rows is inert -/

theorem step_of_rows_none {it : Iter} (h : it.rows = none) (w : World) (c : Call) :
    (step it w c).1.rows = none ∧ (step it w c).1.err = it.err ∧ (step it w c).2.1 = w := by
  cases c with
  | next => simp [Iter.next_of_rows_none h, h]
  | get a => simp [h]
  | close => simp [Iter.close_of_rows_none h, h]
  | cancel => simp [Iter.cancel_of_rows_none h, h]

theorem step_close_of_rows_none {it : Iter} (h : it.rows = none) (w : World) :
    (step it w .close).2.2 = .closed it.err := by
  simp [Iter.close_of_rows_none h]

theorem run_of_rows_none {it : Iter} (h : it.rows = none) (w : World) (cs : List Call) :
    (run it w cs).1.rows = none ∧ (run it w cs).1.err = it.err ∧ (run it w cs).2.1 = w := by
  induction cs generalizing it with
  | nil => simp [h]
  | cons c cs ih =>
    obtain ⟨h1, h2, h3⟩ := step_of_rows_none h w c
    rw [run_cons]
    have := ih h1
    simp only [h3] at this ⊢
    rw [← h2]; exact this

theorem run_of_rows_none_outs {it : Iter} (h : it.rows = none) (w : World) (cs : List Call) :
    ∀ e', Out.closed e' ∈ (run it w cs).2.2 → e' = it.err := by
  induction cs generalizing it with
  | nil => simp
  | cons c cs ih =>
    obtain ⟨h1, h2, h3⟩ := step_of_rows_none h w c
    intro e' he'
    rw [run_cons] at he'
    simp only [List.mem_cons] at he'
    rcases he' with he' | he'
    · cases c with
      | close => rw [step_close_of_rows_none h] at he'; simpa using he'
      | next => simp at he'
      | get a => simp at he'
      | cancel => simp at he'
    · rw [h3] at he'
      rw [← h2]; exact ih h1 e' he'


/-- after a `Close` anywhere in a call sequence the iterator has no rows -/
theorem run_rows_none_of_close (it : Iter) (w : World) (cs : List Call) (h : Call.close ∈ cs) :
    (run it w cs).1.rows = none := by
  induction cs generalizing it w with
  | nil => simp at h
  | cons c cs ih =>
    rw [run_cons]
    by_cases hc : c = .close
    · subst hc
      exact (run_of_rows_none (it := (step it w .close).1) (by simp) _ cs).1
    · exact ih _ _ (by
        rcases List.mem_cons.1 h with h | h
        · exact absurd h.symm hc
        · exact h)

/-! ### `Next = false` is sticky -/

/-- the iteration is over: stored error, no rows, or closed rows -/
def Iter.ended (it : Iter) : Bool :=
  it.err.isSome || match it.rows with
    | none => true
    | some r => r.closed

theorem Iter.ended_of_next_false (it : Iter) (w : World) (h : (it.next w).2.2 = false) :
    (it.next w).1.ended = true := by
  rcases Option.eq_none_or_eq_some it.err with he | ⟨e, he⟩
  · rcases Option.eq_none_or_eq_some it.rows with hr | ⟨r, hr⟩
    · simp [Iter.next_of_rows_none hr, Iter.ended, hr]
    · rw [Iter.next_of_rows he hr] at h ⊢
      simp [Iter.ended, he]
      exact Rows.next_false_closed r w h
  · simp [Iter.next_of_err he, Iter.ended, he]

theorem Iter.next_of_ended {it : Iter} (h : it.ended = true) (w : World) :
    it.next w = ({ it with started := true }, w, false) := by
  rcases Iter.next_cases it w with hn | ⟨r, he, hr, hn⟩
  · exact hn
  · have hc : r.closed = true := by simpa [Iter.ended, he, hr] using h
    rw [hn, Rows.next_of_closed hc]
    simp [← hr]

theorem step_ended {it : Iter} (h : it.ended = true) (w : World) (c : Call) :
    (step it w c).1.ended = true := by
  cases c with
  | next => rw [step_next, Iter.next_of_ended h]; simpa [Iter.ended] using h
  | get a => exact h
  | close => simp [Iter.ended]
  | cancel =>
    cases hr : it.rows with
    | none => simpa [Iter.cancel_of_rows_none hr] using h
    | some r => simp [Iter.cancel_of_rows hr, Iter.ended]

theorem run_ended {it : Iter} (h : it.ended = true) (w : World) (cs : List Call) :
    (run it w cs).1.ended = true := by
  induction cs generalizing it w with
  | nil => exact h
  | cons c cs ih => rw [run_cons]; exact ih (step_ended h w c) _

theorem run_ended_outs {it : Iter} (h : it.ended = true) (w : World) (cs : List Call) :
    ∀ b, Out.bool b ∈ (run it w cs).2.2 → b = false := by
  induction cs generalizing it w with
  | nil => simp
  | cons c cs ih =>
    intro b hb
    rw [run_cons] at hb
    simp only [List.mem_cons] at hb
    rcases hb with hb | hb
    · cases c with
      | next => rw [step_next, Iter.next_of_ended h] at hb; simpa using hb
      | close => simp at hb
      | get a => simp at hb
      | cancel => simp at hb
    · exact ih (step_ended h w c) _ b hb

/-! ### pending errors -/

/-- the error the iteration has ended with, if any: the stored one, else the one the rows
    remember (`Rows.Err`) -/
def Iter.pending (it : Iter) : Option Err :=
  it.err.or (it.rows.bind Rows.err)

theorem Iter.close_of_pending {it : Iter} {e : Err} (h : it.pending = some e) (w : World) :
    (it.close w).2.2 = some e := by
  cases hr : it.rows with
  | none => simpa [Iter.close_of_rows_none hr, Iter.pending, hr] using h
  | some r =>
    rw [Iter.close_of_rows hr]
    cases he : it.err with
    | some e' => simpa [Iter.pending, he] using h
    | none =>
      have hl : r.lasterr = some e := by simpa [Iter.pending, he, hr, Rows.err] using h
      cases hc : r.closed
      · simp [Rows.close_of_open hc, hl]
      · simp [Rows.close_of_closed hc, hl]

theorem step_pending {it : Iter} (hwf : it.WF) {e : Err} (h : it.pending = some e) (w : World) (c : Call) :
    (step it w c).1.pending = some e := by
  cases c with
  | get a => exact h
  | close =>
    have := Iter.close_of_pending h w
    simp [Iter.pending, this]
  | next =>
    rcases Iter.next_cases it w with hn | ⟨r, he, hr, hn⟩
    · rw [step_next, hn]; simpa [Iter.pending] using h
    · have hl : r.lasterr = some e := by simpa [Iter.pending, he, hr, Rows.err] using h
      have hc := (hwf.rows_wf r hr).lasterr_closed (by simp [hl])
      rw [step_next, hn, Rows.next_of_closed hc]
      simp [Iter.pending, he, Rows.err, hl]
  | cancel =>
    cases hr : it.rows with
    | none => simpa [Iter.cancel_of_rows_none hr] using h
    | some r =>
      cases he : it.err with
      | some e' => rw [step_cancel]; simpa [Iter.pending, he] using h
      | none =>
        have hl : r.lasterr = some e := by simpa [Iter.pending, he, hr, Rows.err] using h
        have hc := (hwf.rows_wf r hr).lasterr_closed (by simp [hl])
        rw [step_cancel, Iter.cancel_of_rows hr, Rows.cancel_of_closed hc]
        simp [Iter.pending, he, Rows.err, hl]

theorem run_pending {it : Iter} (hwf : it.WF) {e : Err} (h : it.pending = some e) (w : World) (cs : List Call) :
    (run it w cs).1.pending = some e := by
  induction cs generalizing it w with
  | nil => exact h
  | cons c cs ih => rw [run_cons]; exact ih (step_WF hwf w c) (step_pending hwf h w c) _

theorem run_pending_outs {it : Iter} (hwf : it.WF) {e : Err} (h : it.pending = some e) (w : World) (cs : List Call) :
    ∀ e', Out.closed e' ∈ (run it w cs).2.2 → e' = some e := by
  induction cs generalizing it w with
  | nil => simp
  | cons c cs ih =>
    intro e' he'
    rw [run_cons] at he'
    simp only [List.mem_cons] at he'
    rcases he' with he' | he'
    · cases c with
      | close => simp at he'; rw [he']; exact Iter.close_of_pending h w
      | next => simp at he'
      | get a => simp at he'
      | cancel => simp at he'
    · exact ih (step_WF hwf w c) (step_pending hwf h w c) _ e' he'

/-- consuming a driver fetch failure makes it pending -/
theorem Iter.next_fetch_error {it : Iter} {r : Rows} {e : Err} {rest : List (Except Err Row)}
    (he : it.err = none) (hr : it.rows = some r) (ho : r.closed = false)
    (hf : r.fetch = .error e :: rest) (w : World) :
    (it.next w).2.2 = false ∧ (it.next w).1.pending = some e := by
  rw [Iter.next_of_rows he hr]
  simp [Rows.next, ho, hf, Rows.close_of_open, Iter.pending, he, Rows.err]

/-- cancellation while the rows are open makes the context's error pending -/
theorem Iter.cancel_open {it : Iter} {r : Rows}
    (he : it.err = none) (hr : it.rows = some r) (ho : r.closed = false) (hl : r.lasterr = none) (w : World) :
    (it.cancel w).1.pending = some .ctx := by
  rw [Iter.cancel_of_rows hr]
  simp [Rows.cancel, ho, hl, Rows.close_of_open, Iter.pending, he, Rows.err]

end Sqlair.Rt
