/-
  Props/L2RowsModel: `holdsC04rows` (C04, row faithfulness of an INSERT expansion) is TRUE OF THE
  MODEL'S OWN OBSERVATION, so it cannot raise a false alarm on an implementation that agrees
  with the model.  This closes the step `Props/L2Rows.lean` left open: for a statement whose
  only expression is the insert, `pq.params` IS the rectangle `c04rows_paths_partial` /
  `c04rows_grid_partial` assume.

  * `holdsC04rows_model` (complete; `holdsC04rows_runModel` on `runModel`, `holdsC04rows_model_args`
    for any argument list): all classifiers, tables, statements, samples, one `ValWF` argument,
    under `c04rowsGuards`.  Struct rows (`T`, `*T`, `[]T`, `[]*T`; `astInsert` and `colInsert`) AND
    map rows (`$M.*` in a `colInsert`; `M`, `*M`, `[]M`, `[]*M`).
    Ingredients: `L2Rows/Shape.lean` (the typed expressions of a statement with one expression
    are bypass chunks around one `.insert`; the typed columns of a `colInsert` fed from `$T.*`
    are EXACTLY one field locator per written column, found by tag: `bindSeg_colInsert_shape`),
    `L2Rows/Assemble.lean` (`insert_vals_rect`: the values sent are row-major, one row per
    element, the kept members in column order, each the text the index path reaches; the
    numbering `sqlair_k` is column-major and does not matter), `L2Rows/MapRows.lean`
    (`insert_vals_rect_map`, `bindSeg_colInsert_map`).
  * HUNT: the model was evaluated on `[]T`, `[]*T` (with and without nil elements), `*T`, `T`,
    `*[]T`, one-element slices, an empty slice, omitempty members omitted in all rows, duplicate
    written columns, function columns, an empty column list, trailing bypass chunks, maps,
    pointers to maps, slices of (pointers to) maps with duplicate and extra keys: under the
    guards the predicate was TRUE of the model's observation in every case the model binds; no
    new finding (the three findings of `Props/L2Rows.lean` are the guards and `ValWF`).
  * three clauses the driver defines inline, restated in `SqlairModel/Spec/DriverClauses.lean`:
    `rowsIffOutputs_of_returns_eq`, `lostProps_nil` / `lostProps_model`, `inputsCounted_model`.
-/
import SqlairProofs.L2Rows.MapRows
import SqlairProofs.L2Rows.Inputs
import SqlairModel.Spec.DriverClauses
import SqlairProofs.Props.L2Rows

namespace Sqlair

theorem c04tail_of_params_nil {C : Cls} {tt : TypeTable} {s : OSeg} {o : BindObs} {rows : List GoVal}
    (h : o.params = []) : c04tail C tt s o rows = true := by
  unfold c04tail
  split
  · rfl
  · split
    · rfl
    · split
      · rfl
      · simp [h]

theorem Acc.eq_star {a : Acc} (h : a.member = star) : a = { ty := a.ty, member := star } := by
  cases a; simp at h; subst h; rfl

theorem modelBindObs_vals (pq : Primed) : (modelBindObs pq).params.map (·.2) = pq.params.map (·.2) := by
  simp [modelBindObs, List.map_map, Function.comp_def]

/-- C04, row faithfulness, SOUNDNESS AGAINST THE MODEL.  For ALL classifiers, type tables,
    statements `segs`, samples and a single well-formed argument `arg`: under the guards of the
    driver (`c04rowsGuards`: `embPtrOK tt`, no table-qualified written column), if the model
    prepares the statement and binds the argument to `pq`, then `holdsC04rows` is true of the
    model's observation `modelBindObs pq`.
    The non-trivial cases: the only non-bypass node is `(*) VALUES ($T.*)` or
    `(cols) VALUES ($T.*)`, `T` a struct sample and `arg` a `T`, `*T`, `[]T` or `[]*T` (any number of
    rows, omitempty members omitted or not), or `(cols) VALUES ($M.*)`, `M` a map sample and `arg` an
    `M`, `*M`, `[]M` or `[]*M`; for a pointer to a slice and for every other shape of statement the
    predicate is vacuous.  (`ValWF` is used for the struct rows only.) -/
theorem holdsC04rows_model {C : Cls} {tt : TypeTable} {segs : List OSeg} {samples : List (Option Nat)}
    {tes : List TExpr} {arg : GoVal} {pq : Primed}
    (hguard : c04rowsGuards tt segs = true) (hwf : ValWF tt arg)
    (hp : bindTypes C tt segs samples = .ok tes) (hb : bindInputs tt tes [arg] = .ok pq) :
    holdsC04rows C tt segs [arg] (modelBindObs pq) = true := by
  -- the trivial shapes of the statement
  match hf : segs.filter (·.kind != .bypass) with
  | [] => unfold holdsC04rows; rw [hf]; simp
  | _ :: _ :: _ => unfold holdsC04rows; rw [hf]; simp
  | [s] =>
  match ht : s.types with
  | [] => unfold holdsC04rows; rw [hf]; simp [ht]
  | _ :: _ :: _ => unfold holdsC04rows; rw [hf]; simp [ht]
  | [a] =>
  rw [holdsC04rows_eq_tail C tt segs arg _ s a hf ht, l2s_guard pq]
  simp only [Bool.false_eq_true, if_false]
  split
  · rfl
  rename_i hkind
  split
  · rfl
  rename_i hmem
  have hmem : a.member = star := by simpa using hmem
  have hkind : s.kind = .astInsert ∨ s.kind = .colInsert := by
    simpa only [Bool.not_eq_false, Bool.or_eq_true, beq_iff_eq, Bool.not_eq_eq_eq_not, Bool.not_true] using hkind
  -- the guards
  unfold c04rowsGuards at hguard
  rw [Bool.and_eq_true] at hguard
  obtain ⟨hemb, hqual⟩ := hguard
  have hsmem : s ∈ segs := by
    have : s ∈ segs.filter (·.kind != .bypass) := by rw [hf]; exact List.mem_cons_self
    exact (List.mem_filter.1 this).1
  have hstr : ∀ c ∈ s.cols, c.str = c.column := by
    intro c hc
    have := List.all_eq_true.1 (List.all_eq_true.1 hqual s hsmem) c hc
    simp only [beq_iff_eq] at this
    simp [Col.str, this]
  -- Prepare
  obtain ⟨infos, st, hg, hs, _, rfl⟩ := bindTypes_ok_unfold hp
  obtain ⟨pre, post, st1, st2, hpre, hpost, hinf, hex1, hbs, hex2⟩ := bindSegs_single _ _ _ _ hf hs
  simp only [List.nil_append] at hex1
  have hk' : (s.kind == .astInsert || s.kind == .colInsert) = true := by
    rcases hkind with h | h <;> simp [h]
  -- the rows that are maps
  have hmapcase : ∀ k tid n, s.kind = .colInsert →
      st1.argInfos.find? (fun p => p.1 == a.ty) = some (k, .map tid n) →
      c04tail C tt s (modelBindObs pq) (rowsOfArg arg) = true := by
    intro k tid n hk hfind
    have he := bindSeg_colInsert_map hbs hk ht hmem hfind
    have hkeys : s.cols.map (·.str) = s.cols.map (·.column) := List.map_congr_left hstr
    rw [hex2, he, hex1, List.append_assoc, List.singleton_append] at hb
    obtain ⟨m, q1, q2, hm, hadd, hq1, hq2⟩ := bindInputs_single_insert hpre hpost hb
    by_cases hne : s.cols.map (·.str) = []
    · apply c04tail_of_params_nil
      rw [hne] at hadd
      obtain ⟨bcs, numRows, stp⟩ := addToQuery_insert_spec hadd
      have : bcs = [] := by
        have := stp.cols
        cases bcs with
        | nil => rfl
        | cons _ _ => exact absurd this (by simp [mapColsE, ColsBound])
      subst this
      simp [modelBindObs, hq2, stp.params, hq1, insParams, keptCols]
    rcases insert_vals_rect_map hm hadd hne with ⟨hd, hd', els, rfl⟩ | ⟨news, hpar, hvals, hg⟩
    · apply c04tail_of_mapM_none
      simp [rowsOfArg, tagsOfVal]
    · have := c04rows_grid_partial (C := C) (tt := tt) (segs := segs) (arg := arg) (o := modelBindObs pq)
        (colTags := s.cols.map (·.column)) (g := fun row k => mapElemR k row) hf ht (by
          rw [modelBindObs_vals, hq2, hpar, hq1, List.nil_append, hvals, hkeys]) (by
          intro row hrow t ht'
          obtain ⟨fv, h1, h2⟩ := hg row hrow t (by rw [hkeys]; exact ht')
          exact ⟨fv, valueByTag_of_mapElemVal h1, h2⟩) (.inl ⟨hk, rfl⟩)
      rw [holdsC04rows_eq_tail C tt segs arg _ s a hf ht, l2s_guard pq] at this
      simpa [hmem, hk'] using this
  have hshape : c04tail C tt s (modelBindObs pq) (rowsOfArg arg) = true ∨ ∃ k tid n fields tags e sel,
      infos.find? (fun p => p.1 == a.ty) = some (k, .struct tid n fields tags) ∧
      st2.exprs = st1.exprs ++ [.insert (fieldColsE tid n e sel)] ∧ (∀ f ∈ sel, f ∈ fields) ∧
      ((s.kind = .astInsert ∧ (sel.map (·.tag)).Sublist tags) ∨
       (s.kind = .colInsert ∧ e = true ∧ sel.map (·.tag) = s.cols.map (·.column))) := by
    rcases hkind with hk | hk
    · obtain ⟨e, he, _, hsh⟩ := bindSeg_exprI hbs
      obtain ⟨k, tid, n, fields, tags, hfind, rfl⟩ := (hsh a.ty (by rw [ht, ← Acc.eq_star hmem])).1 hk
      rw [hinf] at hfind
      refine .inr ⟨k, tid, n, fields, tags, false, starFieldsOf fields tags, hfind, he, ?_,
        .inl ⟨hk, starFieldsOf_tags_sublist _ _⟩⟩
      intro f hf'
      unfold starFieldsOf at hf'
      obtain ⟨t, _, hft⟩ := List.mem_filterMap.1 hf'
      exact List.mem_of_find?_eq_some hft
    · obtain ⟨k, ai, hfind, hor⟩ := bindSeg_colInsert_shape hbs hk ht hmem
      rcases hor with ⟨tid, n, rfl⟩ | ⟨tid, n, fields, tags, sel, rfl, he, htags, hsel⟩
      · exact .inl (hmapcase k tid n hk hfind)
      · rw [hinf] at hfind
        refine .inr ⟨k, tid, n, fields, tags, true, sel, hfind, he, hsel, .inr ⟨hk, rfl, ?_⟩⟩
        rw [htags]
        exact List.map_congr_left hstr
  rcases hshape with hdone | ⟨k, tid, n, fields, tags, e, sel, hfind, he, hsel, hcols⟩
  · exact hdone
  obtain ⟨smp, hsmp, tid0, rfl, _, _, hinfo, _⟩ := generateArgInfo_mem hg (List.mem_of_find?_eq_some hfind)
  simp only at hinfo
  obtain ⟨rfl, _, hkstruct, _, _⟩ := getArgInfo_struct hinfo
  -- Query
  rw [hex2, he, hex1, List.append_assoc, List.singleton_append] at hb
  obtain ⟨m, q1, q2, hm, hadd, hq1, hq2⟩ := bindInputs_single_insert hpre hpost hb
  by_cases hne : sel = []
  · -- no column at all: no parameter, the predicate does not look
    apply c04tail_of_params_nil
    subst hne
    obtain ⟨bcs, numRows, stp⟩ := addToQuery_insert_spec hadd
    have : bcs = [] := by
      have := stp.cols
      cases bcs with
      | nil => rfl
      | cons _ _ => exact absurd this (by simp [fieldColsE, ColsBound])
    subst this
    simp [modelBindObs, hq2, stp.params, hq1, insParams, keptCols]
  rcases insert_vals_rect hm hadd hkstruct hwf hne with ⟨hd, hd', els, rfl⟩ | ⟨hrows, kept, news, hsub, hkept, hpar, hvals⟩
  · -- `*[]T`: the predicate does not look into the slice
    apply c04tail_of_mapM_none
    simp [rowsOfArg, tagsOfVal]
  · have := c04rows_paths_partial (C := C) (segs := segs) (arg := arg) (o := modelBindObs pq) hemb hinfo hf ht
      hrows kept (fun f hf' => hsel f (hsub.subset hf')) (by
        rw [modelBindObs_vals, hq2, hpar, hq1, List.nil_append, hvals]) (by
        rcases hcols with ⟨hk, hsl⟩ | ⟨hk, rfl, hc⟩
        · exact .inr ⟨hk, (hsub.map _).trans hsl⟩
        · exact .inl ⟨hk, by rw [hkept rfl, hc]⟩)
    rw [holdsC04rows_eq_tail C tt segs arg _ s a hf ht, l2s_guard pq] at this
    simpa [hmem, hk'] using this

end Sqlair

namespace Sqlair

/-- the same, stated on `runModel` (the function the driver and the `Props/L2Sound` theorems use) -/
theorem holdsC04rows_runModel {C : Cls} {tt : TypeTable} {segs : List OSeg} {samples : List (Option Nat)}
    {arg : GoVal} {pq : Primed}
    (hguard : c04rowsGuards tt segs = true) (hwf : ValWF tt arg)
    (hb : (runModel C tt segs samples [arg]).bind = .ok pq) :
    holdsC04rows C tt segs [arg] (modelBindObs pq) = true := by
  unfold runModel at hb
  split at hb
  · cases hb
  · rename_i tes hp
    exact holdsC04rows_model hguard hwf hp hb

/-- the same for ANY argument list (the predicate looks at single-argument runs only) -/
theorem holdsC04rows_model_args {C : Cls} {tt : TypeTable} {segs : List OSeg} {samples : List (Option Nat)}
    {tes : List TExpr} {args : List GoVal} {pq : Primed}
    (hguard : c04rowsGuards tt segs = true) (hwf : ∀ a ∈ args, ValWF tt a)
    (hp : bindTypes C tt segs samples = .ok tes) (hb : bindInputs tt tes args = .ok pq) :
    holdsC04rows C tt segs args (modelBindObs pq) = true := by
  match args, hwf, hb with
  | [arg], hwf, hb => exact holdsC04rows_model hguard (hwf arg List.mem_cons_self) hp hb
  | [], _, _ =>
    unfold holdsC04rows
    split
    · rfl
    · split
      · rename_i h; cases h
      · rfl
  | _ :: _ :: _, _, _ =>
    unfold holdsC04rows
    split
    · rfl
    · split
      · rename_i h; cases h
      · rfl

namespace L2RowsEx

/-- non-vacuity, `(*) VALUES ($T.*)` with the bulk argument `[]T{{a1, E{x1}, ""}, {a2, E{x2}, ""}}`
    (`T` embeds the struct `E`; the omitempty member `b` is zero in every row and omitted): the
    model binds and sends `a1 x1 a2 x2` (row-major; the numbering `sqlair_k` is column-major:
    0 2 1 3), and the theorem applies to the model's observation -/
example : ∃ pq, (runModel C ttOK segsAst [some 0] [argOmit]).bind = .ok pq ∧
    pq.params = [(0, "a1"), (2, "x1"), (1, "a2"), (3, "x2")] ∧
    holdsC04rows C ttOK segsAst [argOmit] (modelBindObs pq) = true := by
  have h : ∃ pq, (runModel C ttOK segsAst [some 0] [argOmit]).bind = .ok pq ∧
      pq.params = [(0, "a1"), (2, "x1"), (1, "a2"), (3, "x2")] := ⟨_, rfl, by decide +kernel⟩
  obtain ⟨pq, h1, h2⟩ := h
  exact ⟨pq, h1, h2, holdsC04rows_runModel (by decide +kernel)
    (valWF_sound 8 _ (by decide +kernel)) h1⟩

/-- the same for the written columns `(x, a) VALUES ($T.*)` and two full rows -/
example : ∃ pq, (runModel C ttOK segsCol [some 0] [argFull]).bind = .ok pq ∧
    pq.params = [(0, "x1"), (2, "a1"), (1, "x2"), (3, "a2")] ∧
    holdsC04rows C ttOK segsCol [argFull] (modelBindObs pq) = true := by
  have h : ∃ pq, (runModel C ttOK segsCol [some 0] [argFull]).bind = .ok pq ∧
      pq.params = [(0, "x1"), (2, "a1"), (1, "x2"), (3, "a2")] := ⟨_, rfl, by decide +kernel⟩
  obtain ⟨pq, h1, h2⟩ := h
  exact ⟨pq, h1, h2, holdsC04rows_runModel (by decide +kernel)
    (valWF_sound 8 _ (by decide +kernel)) h1⟩

/-- the predicate is not trivially true on these cases: hand-made wrong observations (two values
    of the first row exchanged; the value of another row in a column; a row lost) are rejected,
    the model's values are accepted -/
example : holdsC04rows C ttOK segsAst [argOmit] (obsOf ["x1", "a1", "a2", "x2"]) = false ∧
    holdsC04rows C ttOK segsAst [argOmit] (obsOf ["a1", "x2", "a2", "x1"]) = false ∧
    holdsC04rows C ttOK segsAst [argOmit] (obsOf ["a1", "x1"]) = false ∧
    holdsC04rows C ttOK segsAst [argOmit] (obsOf ["a1", "x1", "a2", "x2"]) = true ∧
    holdsC04rows C ttOK segsCol [argFull] (obsOf ["x1", "a1", "a2", "x2"]) = false := by
  decide +kernel

end L2RowsEx
end Sqlair

/-! ## map rows: non-vacuity -/

namespace Sqlair
namespace L2RowsEx

/-- `M`, `*M`, `[]*M` besides the types of `ttOK` -/
def ttMap : TypeTable := ttOK ++ #[
  { kind := .slice, kindStr := "slice", name := #[], elem := 5 } ]

def mp (kv : List (String × String)) : GoVal :=
  .ptr { t := 5, zero := false, r := "&M" }
    (some (.map { t := 4, zero := false, r := "map" } (some (kv.map fun (k, v) => (bs k, lf v)))))

/-- `INSERT INTO t (k, j) VALUES ($M.*)` -/
def segsMap : List OSeg := [
  { kind := .bypass, raw := bs "INSERT INTO t " },
  { kind := .colInsert, raw := bs "(k, j) VALUES ($M.*)", cols := [col "k", col "j"],
    types := [{ ty := bs "M", member := star }] } ]

def argMaps : GoVal :=
  .slice { t := 6, zero := false, r := "[]*M" } [mp [("j", "1"), ("k", "2"), ("l", "3")], mp [("k", "5"), ("j", "4")]]

/-- a `[]*M` of two maps: the model sends `2 1 5 4`; the theorem applies; an observation with the
    values of the second row exchanged is rejected -/
example : ∃ pq, (runModel C ttMap segsMap [some 4] [argMaps]).bind = .ok pq ∧
    pq.params = [(0, "2"), (2, "1"), (1, "5"), (3, "4")] ∧
    holdsC04rows C ttMap segsMap [argMaps] (modelBindObs pq) = true ∧
    holdsC04rows C ttMap segsMap [argMaps] (obsOf ["2", "1", "4", "5"]) = false := by
  have h : ∃ pq, (runModel C ttMap segsMap [some 4] [argMaps]).bind = .ok pq ∧
      pq.params = [(0, "2"), (2, "1"), (1, "5"), (3, "4")] := ⟨_, rfl, by decide +kernel⟩
  obtain ⟨pq, h1, h2⟩ := h
  exact ⟨pq, h1, h2, holdsC04rows_runModel (by decide +kernel) (valWF_sound 8 _ (by decide +kernel)) h1,
    by decide +kernel⟩

end L2RowsEx

/-! ## three clauses the driver defines inline (`Spec/DriverClauses.lean`) -/

open Rt in
/-- (a) `rowsIffOutputs` (C05 as Get and Run show it, `Driver/Rt.lean`) cannot raise a false alarm
    on an implementation whose returns are the predicted ones -/
theorem rowsIffOutputs_of_returns_eq (c : Case) (p : Pred) (o : Obs) (h : o.returns = p.returns) :
    rowsIffOutputs c p o = true := by
  unfold rowsIffOutputs
  split
  · rfl
  · simp only [h]
    generalize p.returns.headD "" = x
    by_cases h1 : x = "noRows"
    · subst h1; decide
    · have : (x == "noRows") = false := by simpa using h1
      simp [this]

open Rt L2RowsEx in
/-- non-vacuity: a `get` predicted to return `noRows`: true on the predicted returns (by the
    theorem), false when the implementation returns no error -/
example : rowsIffOutputs { cancelCase with op := "get" } { returns := ["noRows"] } (cancelObs ["noRows"]) = true ∧
    rowsIffOutputs { cancelCase with op := "get" } { returns := ["noRows"] } (cancelObs [""]) = false :=
  ⟨rowsIffOutputs_of_returns_eq _ _ _ rfl, by decide +kernel⟩

/-- (b) `lost` (`Driver/L2.lean`) blames no property when Prepare succeeded or when the model
    does not prepare the statement -/
theorem lostProps_nil (m : BindModel) (o : BindObs) (segs : List OSeg)
    (h : o.prepOk = true ∨ ∃ e, m.prep = .error e) : lostProps m o segs = [] := by
  unfold lostProps
  rcases h with h | ⟨e, h⟩
  · simp [h]
  · simp [h]

/-- (b) on the model's own observation -/
theorem lostProps_model (m : BindModel) (pq : Primed) (segs : List OSeg) :
    lostProps m (modelBindObs pq) segs = [] :=
  lostProps_nil m _ segs (.inl rfl)

/-- non-vacuity: a statement with an insert that the model prepares and Prepare rejects loses C04 -/
example : lostProps { prep := .ok [], bind := .error "x" } { prepOk := false } L2RowsEx.segsAst = ["C04"] ∧
    lostProps { prep := .ok [], bind := .error "x" } { prepOk := true } L2RowsEx.segsAst = [] := by
  decide +kernel

/-- (c) `inputsCounted` (`Driver/L2.lean`) is true of the model's own observation: when all
    expressions of the statement are member inputs the driver receives exactly one argument
    per expression -/
theorem inputsCounted_model {C : Cls} {tt : TypeTable} {segs : List OSeg} {samples : List (Option Nat)}
    {tes : List TExpr} {args : List GoVal} {pq : Primed}
    (hp : bindTypes C tt segs samples = .ok tes) (hb : bindInputs tt tes args = .ok pq) :
    inputsCounted (segs.filter (·.kind != .bypass)) (modelBindObs pq) = true := by
  unfold inputsCounted
  split
  · rfl
  · rename_i hc
    simp only [l2s_guard pq, Bool.false_or, Bool.not_eq_true', Bool.not_eq_false] at hc
    have := members_params_length hc hp hb
    simp [modelBindObs, this]

namespace L2RowsEx

/-- `SELECT 1 WHERE a=$T.a AND x=$T.x` -/
def segsMem : List OSeg := [
  { kind := .bypass, raw := bs "SELECT 1 WHERE a=" },
  { kind := .member, raw := bs "$T.a", types := [{ ty := bs "T", member := bs "a" }] },
  { kind := .bypass, raw := bs " AND x=" },
  { kind := .member, raw := bs "$T.x", types := [{ ty := bs "T", member := bs "x" }] } ]

/-- non-vacuity: two member inputs, two arguments; an observation with one argument is rejected -/
example : ∃ tes pq, bindTypes C ttOK segsMem [some 0] = .ok tes ∧ bindInputs ttOK tes [row "a1" "x1" "b1"] = .ok pq ∧
    pq.params = [(0, "a1"), (1, "x1")] ∧
    inputsCounted (segsMem.filter (·.kind != .bypass)) (modelBindObs pq) = true ∧
    inputsCounted (segsMem.filter (·.kind != .bypass)) (obsOf ["a1"]) = false := by
  have h : ∃ tes pq, bindTypes C ttOK segsMem [some 0] = .ok tes ∧
      bindInputs ttOK tes [row "a1" "x1" "b1"] = .ok pq ∧ pq.params = [(0, "a1"), (1, "x1")] :=
    ⟨_, _, rfl, rfl, by decide +kernel⟩
  obtain ⟨tes, pq, h1, h2, h3⟩ := h
  exact ⟨tes, pq, h1, h2, h3, inputsCounted_model h1 h2, by decide +kernel⟩

end L2RowsEx
end Sqlair
