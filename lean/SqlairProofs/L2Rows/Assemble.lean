/-
  L2Rows/Assemble: the bookkeeping of the bind layer for a statement whose only expression is
  an INSERT expansion fed from one `$T.*` source of struct type: the values `bindInputs` sends
  to the driver ARE the rectangle `c04rows_paths_partial` assumes (row-major, one row per
  element of the argument, the kept members in column order, each the text the index path
  reaches).
-/
import SqlairProofs.L2Rows.Rows
import SqlairProofs.E2E.InsertStore
import SqlairProofs.E2E.Prepared

namespace Sqlair

/-! ### the value of row `r` of a bound column depends on its values only -/

/-- the value a bound column with the values `vals` sends in row `r` -/
def colValAt (vals : List String) (r : Nat) : Option String :=
  match vals with
  | [] => none
  | [v] => if r == 0 then some v else none
  | vs => vs[r]?

theorem paramAt_snd (bc : BCol) (r : Nat) : (bc.paramAt r).map (·.2) = colValAt bc.vals r := by
  unfold BCol.paramAt colValAt
  match bc.vals with
  | [] => rfl
  | [v] => by_cases h : (r == 0) = true <;> simp [h]
  | a :: b :: rest => simp [Option.map_map, Function.comp_def]

theorem colValAt_of_lt {vals : List String} {r : Nat} (h : r < vals.length) : colValAt vals r = vals[r]? := by
  unfold colValAt
  split
  · simp at h
  · have : r = 0 := by simp at h; omega
    subst this; rfl
  · rfl

theorem insParams_vals (bcs : List BCol) (numRows : Nat) :
    (insParams bcs numRows).map (·.2) =
      (List.range numRows).flatMap fun r => ((keptCols bcs).map (·.vals)).filterMap (colValAt · r) := by
  unfold insParams
  rw [List.map_flatMap]
  congr 1
  funext r
  rw [List.map_filterMap, List.filterMap_map]
  congr 1
  funext bc
  exact paramAt_snd bc r

/-! ### the typed columns of an insert fed from one `$T.*` source of struct type -/

/-- one typed column per selected field, named by its tag; `e`: written in the statement -/
def fieldColsE (tid : Nat) (n : Bytes) (e : Bool) (sel : List SField) : List TCol :=
  sel.map fun f => TCol.insert (.field tid n f) f.tag e

theorem fieldCols_eq_E (tid : Nat) (n : Bytes) (fields : List SField) :
    fieldCols tid n fields = fieldColsE tid n false fields := rfl

/-- the omitempty flag the model computes for a field (false if it is not located) -/
def fOm (tt : TypeTable) (m : TypeToValue) (tid : Nat) (n : Bytes) (f : SField) : Bool :=
  match locateParams tt m (.field tid n f) with
  | .ok p => p.om
  | .error _ => false

/-- the values the model locates for a field -/
def fVals (tt : TypeTable) (m : TypeToValue) (tid : Nat) (n : Bytes) (f : SField) : List String :=
  match locateParams tt m (.field tid n f) with
  | .ok p => p.vals
  | .error _ => []

theorem colsBound_fieldColsE {tt : TypeTable} {m : TypeToValue} {tid : Nat} {n : Bytes} {e : Bool} :
    ∀ {sel : List SField} {bcs : List BCol}, ColsBound tt m (fieldColsE tid n e sel) bcs →
    (keptCols bcs).map (·.vals) = (sel.filter fun f => !fOm tt m tid n f).map (fVals tt m tid n) ∧
    (e = true → ∀ f ∈ sel, fOm tt m tid n f = false) ∧
    (∀ f ∈ sel, ∃ p, locateParams tt m (.field tid n f) = .ok p) ∧
    (∀ bc ∈ bcs, ∃ f ∈ sel, ∃ p, locateParams tt m (.field tid n f) = .ok p ∧ bc.vals = p.vals ∧
      bc.bulk = p.bulk) ∧
    (sel ≠ [] → bcs ≠ []) := by
  intro sel
  induction sel with
  | nil =>
    intro bcs h
    cases bcs with
    | nil => exact ⟨rfl, by simp, by simp, by simp, by simp⟩
    | cons _ _ => exact absurd h (by simp [fieldColsE, ColsBound])
  | cons f rest ih =>
    intro bcs h
    cases bcs with
    | nil => exact absurd h (by simp [fieldColsE, ColsBound])
    | cons bc bcs =>
      obtain ⟨h1, h2⟩ : ColBound tt m (TCol.insert (.field tid n f) f.tag e) bc ∧
          ColsBound tt m (fieldColsE tid n e rest) bcs := h
      obtain ⟨p, hp, hv, hom, hb, _, _, hex⟩ := h1
      obtain ⟨i1, i2, i3, i4, _⟩ := ih h2
      have hfo : fOm tt m tid n f = p.om := by simp [fOm, hp]
      have hfv : fVals tt m tid n f = p.vals := by simp [fVals, hp]
      refine ⟨?_, ?_, ?_, ?_, by simp⟩
      · cases hpo : p.om with
        | true =>
          have : bc.om = true := hom.trans hpo
          simp only [keptCols, List.filter_cons, this, hfo, hpo, Bool.not_true, Bool.false_eq_true, if_false]
          exact i1
        | false =>
          have : bc.om = false := hom.trans hpo
          simp only [keptCols, List.filter_cons, this, hfo, hpo, Bool.not_false, if_true, List.map_cons, hfv, hv]
          exact congrArg _ i1
      · intro he f' hf'
        rcases List.mem_cons.1 hf' with rfl | hf'
        · rw [hfo]
          cases hpo : p.om with
          | false => rfl
          | true => have := hex hpo; rw [he] at this; cases this
        · exact i2 he f' hf'
      · intro f' hf'
        rcases List.mem_cons.1 hf' with rfl | hf'
        · exact ⟨p, hp⟩
        · exact i3 f' hf'
      · intro b hb'
        rcases List.mem_cons.1 hb' with rfl | hb'
        · exact ⟨f, List.mem_cons_self, p, hp, hv, hb⟩
        · obtain ⟨f', hf', x⟩ := i4 b hb'
          exact ⟨f', List.mem_cons_of_mem _ hf', x⟩

/-! ### one argument -/

theorem validateInputs_single {tt : TypeTable} {arg : GoVal} {m : TypeToValue}
    (h : validateInputs tt [arg] [] = .ok m) :
    m = [((indirect arg).tid, indirect arg)] ∧ validateValue arg = .ok () := by
  unfold validateInputs at h
  split at h
  · cases h
  · rename_i hv
    simp only at h
    split at h
    · cases h
    · split at h
      · cases h
      · simp only [validateInputs, List.nil_append] at h
        cases h
        exact ⟨rfl, hv⟩

theorem ttvGet_single (t tid : Nat) (v : GoVal) :
    ttvGet [(t, v)] tid = if t == tid then some v else none := by
  unfold ttvGet
  by_cases h : (t == tid) = true <;> simp [List.find?, h]

theorem locateBulk_single {tt : TypeTable} {t tid : Nat} {v w : GoVal}
    (h : locateBulk tt [(t, v)] tid = some w) :
    w = v ∧ (isSliceOf tt t tid = true ∨ isSliceOfPtr tt t tid = true) := by
  unfold locateBulk at h
  by_cases h1 : isSliceOf tt t tid = true
  · simp [List.find?, h1] at h; exact ⟨h.symm, .inl h1⟩
  · by_cases h2 : isSliceOfPtr tt t tid = true
    · simp [List.find?, h1, h2] at h; exact ⟨h.symm, .inr h2⟩
    · simp [List.find?, h1, h2] at h

/-- the number of values a bulk field locator yields is the number of elements -/
theorem locateParams_field_bulk_len {tt : TypeTable} {m : TypeToValue} {tid : Nat} {n : Bytes} {f : SField}
    {p : Params} (hp : locateParams tt m (.field tid n f) = .ok p) (hn : ttvGet m tid = none)
    {h : VH} {els : List GoVal} (hb : locateBulk tt m tid = some (.slice h els)) :
    p.vals.length = els.length := by
  unfold locateParams at hp
  simp only [hn, hb] at hp
  split at hp
  · cases hp
  · split at hp
    · cases hp
    · rename_i vals om hvals
      cases hp
      simpa using bulkFieldVals_length f els _ _ _ _ _ hvals

theorem bulkElem_indirect {e s : GoVal} (h : bulkElem e = .ok s) : s = indirect e ∧ ∀ hd, e ≠ .ptr hd none := by
  unfold bulkElem at h
  split at h
  · cases h
  · cases h; exact ⟨rfl, by intro hd hh; cases hh⟩
  · rename_i h1 h2
    cases h
    refine ⟨?_, fun hd hh => h1 hd hh⟩
    unfold indirect
    split
    · rename_i hd p; exact absurd rfl (h2 hd p)
    · rfl

theorem flatMap_eq_range {α β : Type} (g : α → List β) : ∀ (rows : List α),
    rows.flatMap g = (List.range rows.length).flatMap fun r =>
      match rows[r]? with
      | some row => g row
      | none => [] := by
  intro rows
  induction rows with
  | nil => rfl
  | cons x xs ih =>
    rw [List.length_cons, List.range_succ_eq_map, List.flatMap_cons, List.flatMap_cons, List.flatMap_map, ih]
    simp

theorem filterMap_eq_map_of_some {α β : Type} (f : α → Option β) (g : α → β) (l : List α)
    (h : ∀ x ∈ l, f x = some (g x)) : l.filterMap f = l.map g := by
  induction l with
  | nil => rfl
  | cons a l ih => simp [h a (by simp), ih (fun x hx => h x (by simp [hx]))]

theorem flatMap_range_congr {β : Type} {n : Nat} {f g : Nat → List β} (h : ∀ r, r < n → f r = g r) :
    (List.range n).flatMap f = (List.range n).flatMap g := by
  induction n with
  | zero => rfl
  | succ n ih =>
    rw [List.range_succ, List.flatMap_append, List.flatMap_append,
      ih (fun r hr => h r (Nat.lt_succ_of_lt hr))]
    simp [h n (Nat.lt_succ_self n)]

/-- THE MISSING STEP.  One argument, an insert expression over a non-empty selection `sel` of
    fields of the struct type `tid`: either the argument is a pointer to a slice (`*[]T`: the
    predicate does not look into it), or the rows of the argument are rows of `T` (`T`, `*T`, the
    elements of `[]T`, the non-nil elements of `[]*T`) and the values added to the parameters
    are, row by row, the texts the index paths of the kept fields reach.  `kept` are the fields
    of `sel` not omitted (all of them when the columns are written in the statement). -/
theorem insert_vals_rect {tt : TypeTable} {m : TypeToValue} {qb qb' : QB} {tid : Nat} {n : Bytes} {e : Bool}
    {sel : List SField} {arg : GoVal} (hm : validateInputs tt [arg] [] = .ok m)
    (hs : addToQuery tt m qb (.insert (fieldColsE tid n e sel)) = .ok qb')
    (hk : (tt.get tid).kind = .struct) (hwf : ValWF tt arg) (hne : sel ≠ []) :
    (∃ hd hd' els, arg = .ptr hd (some (.slice hd' els))) ∨
    ((∀ row ∈ rowsOfArg arg, RowOf tt tid row) ∧
      ∃ kept news, kept.Sublist sel ∧ (e = true → kept = sel) ∧ qb'.params = qb.params ++ news ∧
        news.map (·.2) = ((rowsOfArg arg).map fun row => kept.map fun f => fbiText row f.index).flatten) := by
  obtain ⟨bcs, numRows, st⟩ := addToQuery_insert_spec hs
  obtain ⟨hkept, hexp, hloc, hbcs, hbne⟩ := colsBound_fieldColsE st.cols
  obtain ⟨rfl, hvv⟩ := validateInputs_single hm
  -- the conclusion from the per-field facts
  have fin : (∀ row ∈ rowsOfArg arg, RowOf tt tid row) → numRows = (rowsOfArg arg).length →
      (∀ f ∈ sel, ∀ r row, (rowsOfArg arg)[r]? = some row →
        colValAt (fVals tt [((indirect arg).tid, indirect arg)] tid n f) r = some (fbiText row f.index)) →
      ((∀ row ∈ rowsOfArg arg, RowOf tt tid row) ∧
      ∃ kept news, kept.Sublist sel ∧ (e = true → kept = sel) ∧ qb'.params = qb.params ++ news ∧
        news.map (·.2) = ((rowsOfArg arg).map fun row => kept.map fun f => fbiText row f.index).flatten) := by
    intro hrows hnum hF
    refine ⟨hrows, sel.filter (fun f => !fOm tt [((indirect arg).tid, indirect arg)] tid n f), _, List.filter_sublist, ?_, st.params, ?_⟩
    · intro he
      rw [List.filter_eq_self]
      intro f hf
      simp [hexp he f hf]
    · rw [insParams_vals, hkept, hnum, ← List.flatMap_def]
      conv => rhs; rw [flatMap_eq_range]
      apply flatMap_range_congr
      intro r hr
      rw [List.getElem?_eq_getElem hr]
      simp only
      rw [List.filterMap_map]
      apply filterMap_eq_map_of_some
      intro f hf
      exact hF f (List.mem_filter.1 hf).1 r _ (List.getElem?_eq_getElem hr)
  obtain ⟨f0, rest0, rfl⟩ := List.exists_cons_of_ne_nil hne
  cases hget : ttvGet [((indirect arg).tid, indirect arg)] tid with
  | some v =>
    -- the argument is a `T` or a `*T`
    right
    rw [ttvGet_single] at hget
    have htid : (indirect arg).tid = tid := by
      by_cases h : ((indirect arg).tid == tid) = true
      · simpa using h
      · simp [h] at hget
    have hv : v = indirect arg := by simp [htid] at hget; exact hget.symm
    subst hv
    obtain ⟨hw, fsw, hst, _⟩ := hwf.indirect.struct_inv (by rw [htid]; exact hk)
    have hrows1 : rowsOfArg arg = [arg] ∧ RowOf tt tid arg := by
      cases arg with
      | ptr hd p =>
        cases p with
        | none => simp [validateValue] at hvv
        | some p => exact ⟨rfl, hwf, .inr ⟨hd, p, rfl, htid⟩⟩
      | slice hd els => simp [indirect] at hst
      | _ => exact ⟨rfl, hwf, .inl htid⟩
    have hall : ∀ f ∈ f0 :: rest0, ∃ p v', locateParams tt [((indirect arg).tid, indirect arg)] (.field tid n f) = .ok p ∧
        p.bulk = false ∧ fieldByIndex (indirect arg) f.index true = .ok v' ∧ p.vals = [v'.h.r] := by
      intro f hf
      obtain ⟨p, hp⟩ := hloc f hf
      rcases locateParams_field_rowVal hp with ⟨s, v', h1, h2, h3, _, h5⟩ | ⟨_, _, h1, _⟩
      · rw [ttvGet_single] at h1
        simp [htid] at h1
        subst h1
        refine ⟨p, v', hp, h3, h2, ?_⟩
        have hl := locateParams_single hp h3 (by intro t n h; cases h)
        have h0 := h5 0
        rw [Params.rowVal_of_not_bulk h3] at h0
        match hpv : p.vals, hl with
        | [x], _ => rw [hpv] at h0; simp at h0; rw [h0]
      · rw [ttvGet_single] at h1; simp [htid] at h1
    have hnum : numRows = 1 := by
      apply st.no_bulk
      intro bc hbc
      obtain ⟨f, hf, p, hp, _, hb⟩ := hbcs bc hbc
      obtain ⟨p', _, hp', hb', _⟩ := hall f hf
      rw [hp] at hp'; cases hp'
      exact hb.trans hb'
    refine fin ?_ (by rw [hrows1.1]; exact hnum) ?_
    · intro row hr; rw [hrows1.1] at hr; simp at hr; subst hr; exact hrows1.2
    · intro f hf r row hr
      rw [hrows1.1] at hr
      cases r with
      | succ r => simp at hr
      | zero =>
        simp at hr; subst hr
        obtain ⟨p, v', hp, _, hfi, hpv⟩ := hall f hf
        simp [fVals, hp, hpv, colValAt, fbiText, rowStruct, hfi]
  | none =>
    -- the argument is a `[]T`, a `[]*T` or a pointer to one of them
    obtain ⟨p0, hp0⟩ := hloc f0 List.mem_cons_self
    rcases locateParams_field_rowVal hp0 with ⟨s, _, h1, _⟩ | ⟨hd', els, _, hbulk, hb0, hrv0⟩
    · rw [hget] at h1; cases h1
    obtain ⟨hind, hslice⟩ := locateBulk_single hbulk
    by_cases hptr : ∃ hd p, arg = .ptr hd (some p)
    · obtain ⟨hd, p, rfl⟩ := hptr
      left
      exact ⟨hd, hd', els, by simp only [indirect] at hind; rw [hind]⟩
    right
    have harg : arg = .slice hd' els := by
      cases arg with
      | ptr hd p =>
        cases p with
        | none => simp [validateValue] at hvv
        | some p => exact absurd ⟨hd, p, rfl⟩ hptr
      | _ => simpa [indirect] using hind.symm
    subst harg
    have hrowsE : rowsOfArg (.slice hd' els) = els := rfl
    simp only [indirect, GoVal.tid, GoVal.h] at hslice hbulk hget hp0 hloc hbcs hkept fin ⊢
    obtain ⟨hety, hewf⟩ : (∀ e ∈ els, e.tid = (tt.get hd'.t).elem) ∧ (∀ e ∈ els, ValWF tt e) := by
      cases hwf with
      | slice _ _ _ hty hwf' => exact ⟨hty, hwf'⟩
    have hall : ∀ f ∈ f0 :: rest0, ∃ p, locateParams tt [(hd'.t, GoVal.slice hd' els)] (.field tid n f) = .ok p ∧
        p.bulk = true ∧ p.vals.length = els.length ∧
        ∀ (r : Nat) (e : GoVal), els[r]? = some e → ∃ v', (∀ hd, e ≠ .ptr hd none) ∧
          fieldByIndex (indirect e) f.index true = .ok v' ∧ p.vals[r]? = some v'.h.r := by
      intro f hf
      obtain ⟨p, hp⟩ := hloc f hf
      rcases locateParams_field_rowVal hp with ⟨s, _, h1, _⟩ | ⟨hd2, els2, _, hb2, hpb, hrv⟩
      · rw [hget] at h1; cases h1
      · rw [hbulk] at hb2
        cases hb2
        refine ⟨p, hp, hpb, locateParams_field_bulk_len hp hget hbulk, ?_⟩
        intro r e he
        obtain ⟨s, v', h1, h2, h3⟩ := hrv r e he
        obtain ⟨rfl, hnn⟩ := bulkElem_indirect h1
        rw [Params.rowVal_of_bulk hpb] at h3
        exact ⟨v', hnn, h2, h3⟩
    have hnum : numRows = els.length := by
      obtain ⟨bc, bcs', hbcs'⟩ := List.exists_cons_of_ne_nil (hbne (by simp))
      have hbc : bc ∈ bcs := by rw [hbcs']; exact List.mem_cons_self
      obtain ⟨f, hf, p, hp, hv, hb⟩ := hbcs bc hbc
      obtain ⟨p', hp', hb', hl', _⟩ := hall f hf
      rw [hp] at hp'; cases hp'
      rw [← st.bulk_len bc hbc (hb.trans hb'), hv, hl']
    refine fin ?_ (by rw [hrowsE]; exact hnum) ?_
    · intro row hr
      rw [hrowsE] at hr
      obtain ⟨r, hr', hre⟩ := List.mem_iff_getElem.1 hr
      obtain ⟨_, _, _, _, hrv⟩ := hall f0 List.mem_cons_self
      obtain ⟨_, hnn, _, _⟩ := hrv r row (by rw [List.getElem?_eq_getElem hr', hre])
      refine ⟨hewf row hr, ?_⟩
      rcases hslice with hs1 | hs2
      · left
        simp only [isSliceOf, Bool.and_eq_true, beq_iff_eq] at hs1
        rw [hety row hr, hs1.2]
      · right
        simp only [isSliceOfPtr, Bool.and_eq_true, beq_iff_eq] at hs2
        obtain ⟨⟨⟨⟨_, _⟩, hkp⟩, _⟩, hel⟩ := hs2
        rcases (hewf row hr).ptr_inv (by rw [hety row hr]; exact hkp) with ⟨hd, rfl⟩ | ⟨hd, p, rfl, hpt, _⟩
        · exact absurd rfl (hnn hd)
        · exact ⟨hd, p, rfl, by rw [hpt, hety _ hr, hel]⟩
    · intro f hf r row hr
      rw [hrowsE] at hr
      obtain ⟨p, hp, _, hl, hrv⟩ := hall f hf
      obtain ⟨v', _, hfi, hpv⟩ := hrv r row hr
      have hrl : r < p.vals.length := by rw [hl]; exact (List.getElem?_eq_some_iff.1 hr).1
      simp only [fVals, hp]
      rw [colValAt_of_lt hrl, hpv]
      simp [fbiText, rowStruct, hfi]

end Sqlair
