/-
  L2Sound/Present: every value the model hands to the driver is the driver text of a node of
  one of the arguments (`holdsC03present` holds of the model's own observation).

  Route: `bindInputs` validates the arguments into the map `m = args.map argEntry` (every
  entry is an argument, dereferenced once if it is a pointer); `addToQuery` only appends
  parameters whose values are `vals` of a `locateParams` result; `Located` says which nodes
  of the entries of `m` these are.
-/
import SqlairProofs.L2Sound.Defs
import SqlairProofs.Typed.Locate
import SqlairProofs.Bind.Fold
import SqlairProofs.NoPanic.Defs

namespace Sqlair

/-! ### nodes of value trees -/

theorem L2sIn.trans {v b a : GoVal} {k j : Nat} (h1 : L2sIn v k b) (h2 : L2sIn b j a) :
    L2sIn v (k + j) a := by
  induction h2 with
  | root => exact h1
  | field hf _ ih => exact .field hf ih
  | deref _ ih => exact .deref ih
  | mapVal he _ ih => exact .mapVal he ih
  | elem he _ ih => exact .elem he ih

/-- the root of a fitting tree is listed by `GoVal.texts` -/
theorem l2s_texts_root {d : Nat} {v : GoVal} (h : v.l2s_fits d = true) : v.h.r ∈ GoVal.texts d v := by
  cases d with
  | zero => simp [GoVal.l2s_fits] at h
  | succ n =>
    cases v with
    | invalid => simp [GoVal.l2s_fits] at h
    | leaf hd => simp [GoVal.texts, GoVal.h]
    | struct hd fs => simp [GoVal.texts, GoVal.h]
    | ptr hd p => cases p <;> simp [GoVal.texts, GoVal.h]
    | map hd kv => cases kv <;> simp [GoVal.texts, GoVal.h]
    | slice hd els => simp [GoVal.texts, GoVal.h]
    | iface hd p => cases p <;> simp [GoVal.texts, GoVal.h]

/-- every node of a fitting tree is listed by `GoVal.texts` with the same fuel -/
theorem l2s_texts_of_in {v a : GoVal} {k : Nat} (hin : L2sIn v k a) :
    ∀ d, a.l2s_fits d = true → v.h.r ∈ GoVal.texts d a := by
  induction hin with
  | root => intro d h; exact l2s_texts_root h
  | @field k hd fs f hf _ ih =>
    intro d h
    cases d with
    | zero => simp [GoVal.l2s_fits] at h
    | succ n =>
      simp only [GoVal.l2s_fits, List.all_eq_true] at h
      simp only [GoVal.texts, List.mem_cons, List.mem_flatMap]
      exact Or.inr ⟨f, hf, ih n (h f hf)⟩
  | @deref k hd p _ ih =>
    intro d h
    cases d with
    | zero => simp [GoVal.l2s_fits] at h
    | succ n =>
      simp only [GoVal.l2s_fits] at h
      simp only [GoVal.texts, List.mem_cons]
      exact Or.inr (ih n h)
  | @mapVal k hd kv e he _ ih =>
    intro d h
    cases d with
    | zero => simp [GoVal.l2s_fits] at h
    | succ n =>
      simp only [GoVal.l2s_fits, List.all_eq_true] at h
      simp only [GoVal.texts, List.mem_cons, List.mem_flatMap]
      exact Or.inr ⟨e, he, ih n (h e he)⟩
  | @elem k hd els e he _ ih =>
    intro d h
    cases d with
    | zero => simp [GoVal.l2s_fits] at h
    | succ n =>
      simp only [GoVal.l2s_fits, List.all_eq_true] at h
      simp only [GoVal.texts, List.mem_cons, List.mem_flatMap]
      exact Or.inr ⟨e, he, ih n (h e he)⟩

theorem l2s_indirect_in (a : GoVal) : ∃ k, L2sIn (indirect a) k a := by
  cases a with
  | ptr hd p =>
    cases p with
    | none => exact ⟨0, .root⟩
    | some q => exact ⟨1, .deref .root⟩
  | _ => exact ⟨0, .root⟩

theorem l2s_bulkElem_in {e s : GoVal} (h : bulkElem e = .ok s) : ∃ k, L2sIn s k e := by
  cases e with
  | ptr hd p =>
    cases p with
    | none => simp [bulkElem] at h
    | some q => simp [bulkElem] at h; subst h; exact ⟨1, .deref .root⟩
  | _ => simp [bulkElem] at h; subst h; exact ⟨0, .root⟩

/-- the value `fieldByIndex` reaches is a node of the struct it starts from -/
theorem l2s_fieldByIndex_in : ∀ (idx : List Nat) (s : GoVal) (first : Bool) (v : GoVal),
    fieldByIndex s idx first = .ok v → ∃ k, L2sIn v k s := by
  intro idx
  induction idx with
  | nil => intro s first v h; simp [fieldByIndex] at h; subst h; exact ⟨0, .root⟩
  | cons i rest ih =>
    intro s first v h
    unfold fieldByIndex at h
    simp only at h
    split at h
    · cases h
    · rename_i hd fs hv1
      split at h
      · rename_i f hf
        obtain ⟨k, hk⟩ := ih f false v h
        have hmem : f ∈ fs := List.mem_of_getElem? hf
        have h2 : L2sIn v (k + 1) (.struct hd fs) := .field hmem hk
        -- the struct is `s` itself or what the pointer `s` points to
        split at hv1
        · cases hv1; exact ⟨_, h2⟩
        · split at hv1
          · cases hv1
          · cases hv1; exact ⟨_, .deref h2⟩
          · cases hv1; exact ⟨_, h2⟩
      · cases h
    · cases h

theorem l2s_mapIndex_mem {kv : Option (List (Bytes × GoVal))} {key : Bytes} {v : GoVal}
    (h : mapIndex kv key = some v) : ∃ l e, kv = some l ∧ e ∈ l ∧ e.2 = v := by
  cases kv with
  | none => simp [mapIndex] at h
  | some l =>
    simp only [mapIndex, Option.map_eq_some_iff] at h
    obtain ⟨e, he, rfl⟩ := h
    exact ⟨l, e, rfl, List.mem_of_find?_eq_some he, rfl⟩

theorem l2s_ttvGet_mem {m : TypeToValue} {t : Nat} {s : GoVal} (h : ttvGet m t = some s) :
    ∃ e ∈ m, e.2 = s := by
  simp only [ttvGet, Option.map_eq_some_iff] at h
  obtain ⟨e, he, rfl⟩ := h
  exact ⟨e, List.mem_of_find?_eq_some he, rfl⟩

theorem l2s_locateBulk_mem {tt : TypeTable} {m : TypeToValue} {t : Nat} {s : GoVal}
    (h : locateBulk tt m t = some s) : ∃ e ∈ m, e.2 = s := by
  unfold locateBulk at h
  split at h
  · rename_i p hp; cases h; exact ⟨p, List.mem_of_find?_eq_some hp, rfl⟩
  · simp only [Option.map_eq_some_iff] at h
    obtain ⟨e, he, rfl⟩ := h
    exact ⟨e, List.mem_of_find?_eq_some he, rfl⟩

/-- "the text `x` is the driver text of a node of an entry of `m`" -/
def L2sFrom (m : TypeToValue) (x : String) : Prop :=
  ∃ e ∈ m, ∃ v k, L2sIn v k e.2 ∧ x = v.h.r

theorem l2s_mapElem_in {key : Bytes} {e : GoVal} (h : (mapElemVal key e).isSome = true) :
    ∃ v k, L2sIn v k e ∧ mapElemR key e = v.h.r := by
  unfold mapElemR
  unfold mapElemVal at h ⊢
  split at h
  · rename_i hd kv hbe
    obtain ⟨v, hv⟩ := Option.isSome_iff_exists.1 h
    obtain ⟨l, e', rfl, he', rfl⟩ := l2s_mapIndex_mem hv
    obtain ⟨k, hk⟩ := l2s_bulkElem_in hbe
    refine ⟨e'.2, _, L2sIn.trans (.mapVal he' .root) hk, ?_⟩
    rw [hv]; rfl
  · simp at h

theorem l2s_fieldElem_in {f : SField} {e : GoVal} (h : (fieldElemVal f e).isSome = true) :
    ∃ v k, L2sIn v k e ∧ fieldElemR f e = v.h.r := by
  unfold fieldElemR
  unfold fieldElemVal at h ⊢
  split at h
  · rename_i s hbe
    split at h
    · rename_i v hv
      obtain ⟨k, hk⟩ := l2s_bulkElem_in hbe
      obtain ⟨j, hj⟩ := l2s_fieldByIndex_in _ _ _ _ hv
      exact ⟨v, _, hj.trans hk, rfl⟩
    · simp at h
  · simp at h

/-- the values a locator finds are driver texts of nodes of the validated arguments -/
theorem l2s_located_vals {tt : TypeTable} {m : TypeToValue} {l : Loc} {p : Params}
    (h : Located tt m l p) : ∀ x ∈ p.vals, L2sFrom m x := by
  cases h with
  | @slice tid n hd els hg =>
    intro x hx
    simp only [List.mem_map] at hx
    obtain ⟨el, hel, rfl⟩ := hx
    obtain ⟨e, he, hes⟩ := l2s_ttvGet_mem hg
    exact ⟨e, he, el, 1, by rw [hes]; exact .elem hel .root, rfl⟩
  | @mapKey tid n key hd kv v hg hk =>
    intro x hx
    simp only [List.mem_singleton] at hx
    subst hx
    obtain ⟨e, he, hes⟩ := l2s_ttvGet_mem hg
    obtain ⟨l, e', rfl, he', rfl⟩ := l2s_mapIndex_mem hk
    exact ⟨e, he, e'.2, 1, by rw [hes]; exact .mapVal he' .root, rfl⟩
  | @mapKeyBulk tid n key hd els hg hb hne hall =>
    intro x hx
    simp only [List.mem_map] at hx
    obtain ⟨el, hel, rfl⟩ := hx
    obtain ⟨e, he, hes⟩ := l2s_locateBulk_mem hb
    obtain ⟨v, k, hk, hr⟩ := l2s_mapElem_in (hall el hel)
    exact ⟨e, he, v, _, by rw [hes]; exact hk.trans (.elem hel .root), hr⟩
  | @field tid n f s v hg hv =>
    intro x hx
    simp only [List.mem_singleton] at hx
    subst hx
    obtain ⟨e, he, hes⟩ := l2s_ttvGet_mem hg
    obtain ⟨k, hk⟩ := l2s_fieldByIndex_in _ _ _ _ hv
    exact ⟨e, he, v, k, by rw [hes]; exact hk, rfl⟩
  | @fieldBulk tid n f hd els hg hb hne hall hom =>
    intro x hx
    simp only [List.mem_map] at hx
    obtain ⟨el, hel, rfl⟩ := hx
    obtain ⟨e, he, hes⟩ := l2s_locateBulk_mem hb
    obtain ⟨v, k, hk, hr⟩ := l2s_fieldElem_in (hall el hel)
    exact ⟨e, he, v, _, by rw [hes]; exact hk.trans (.elem hel .root), hr⟩

/-! ### the parameters of a step and of the fold -/

theorem l2s_colsBound_mem {tt : TypeTable} {m : TypeToValue} : ∀ {cols : List TCol} {bcs : List BCol},
    ColsBound tt m cols bcs → ∀ bc ∈ bcs, ∃ c ∈ cols, ColBound tt m c bc := by
  intro cols
  induction cols with
  | nil => intro bcs h bc hbc; cases bcs <;> simp_all [ColsBound]
  | cons c rest ih =>
    intro bcs h bc hbc
    cases bcs with
    | nil => cases hbc
    | cons b bs =>
      obtain ⟨h1, h2⟩ := h
      rcases List.mem_cons.1 hbc with rfl | hbc
      · exact ⟨c, List.mem_cons_self, h1⟩
      · obtain ⟨c', hc', hcb⟩ := ih h2 bc hbc
        exact ⟨c', List.mem_cons_of_mem _ hc', hcb⟩

theorem l2s_colsBound_mem' {tt : TypeTable} {m : TypeToValue} : ∀ {cols : List TCol} {bcs : List BCol},
    ColsBound tt m cols bcs → ∀ c ∈ cols, ∃ bc ∈ bcs, ColBound tt m c bc := by
  intro cols
  induction cols with
  | nil => intro bcs _ c hc; cases hc
  | cons c rest ih =>
    intro bcs h c' hc'
    cases bcs with
    | nil => simp [ColsBound] at h
    | cons b bs =>
      obtain ⟨h1, h2⟩ := h
      rcases List.mem_cons.1 hc' with rfl | hc'
      · exact ⟨b, List.mem_cons_self, h1⟩
      · obtain ⟨bc, hbc, hcb⟩ := ih h2 c' hc'
        exact ⟨bc, List.mem_cons_of_mem _ hbc, hcb⟩

/-- one `addToQuery` step only adds parameters whose values are texts of argument nodes -/
theorem l2s_step_params {tt : TypeTable} {m : TypeToValue} {qb qb' : QB} {te : TExpr}
    (h : addToQuery tt m qb te = .ok qb') (hq : ∀ p ∈ qb.params, L2sFrom m p.2) :
    ∀ p ∈ qb'.params, L2sFrom m p.2 := by
  cases te with
  | bypass chunk => simp [addToQuery] at h; subst h; exact hq
  | output cols => simp [addToQuery] at h; subst h; exact hq
  | input loc =>
    obtain ⟨pr, s⟩ := addToQuery_input_spec h
    intro p hp
    rw [s.params] at hp
    rcases List.mem_append.1 hp with hp | hp
    · exact hq p hp
    · apply l2s_located_vals (locateParams_ok_iff.1 s.located)
      simp only [inputParams, List.mem_map] at hp
      obtain ⟨⟨i, v⟩, hiv, rfl⟩ := hp
      exact (List.of_mem_zip hiv).2
  | insert cols =>
    obtain ⟨bcs, numRows, s⟩ := addToQuery_insert_spec h
    intro p hp
    rw [s.params] at hp
    rcases List.mem_append.1 hp with hp | hp
    · exact hq p hp
    · obtain ⟨r, _, bc, hbc, _, hpa⟩ := mem_insParams.1 hp
      obtain ⟨n, v⟩ := p
      have hv : v ∈ bc.vals := by
        rcases BCol.paramAt_some hpa with ⟨_, _, _, hv⟩ | ⟨_, _, _, hv⟩
        · exact List.mem_of_getElem? hv
        · exact List.mem_of_getElem? hv
      obtain ⟨c, _, hcb⟩ := l2s_colsBound_mem s.cols bc hbc
      cases c with
      | literal column lit =>
        obtain ⟨hnil, _⟩ := hcb
        rw [hnil] at hv; cases hv
      | insert loc column explicit =>
        obtain ⟨pr, hl, hvals, _⟩ := hcb
        rw [hvals] at hv
        exact l2s_located_vals (locateParams_ok_iff.1 hl) v hv

/-- C03 (value level, fuel-free): every value `bindInputs` hands to the driver is the driver
    text `v.h.r` of a node `v` of one of the arguments, for ALL typed expressions and
    arguments -/
theorem l2s_params_from_args {tt : TypeTable} {tes : List TExpr} {args : List GoVal} {pq : Primed}
    (hb : bindInputs tt tes args = .ok pq) :
    ∀ p ∈ pq.params, ∃ a ∈ args, ∃ v k, L2sIn v k a ∧ p.2 = v.h.r := by
  obtain ⟨m, qb, hm, hq, _, rfl⟩ := bindInputs_ok_unfold hb
  have hinv : ∀ p ∈ qb.params, L2sFrom m p.2 :=
    foldlM_except_inv (addToQuery tt m) (fun qb => ∀ p ∈ qb.params, L2sFrom m p.2) tes
      (fun b a b' _ hP hs => l2s_step_params hs hP) {} qb (by intro p hp; cases hp) hq
  intro p hp
  obtain ⟨e, he, v, k, hk, hr⟩ := hinv p hp
  rw [((validateInputs_nil_ok_iff tt args m).1 hm).1] at he
  obtain ⟨a, ha, rfl⟩ := List.mem_map.1 he
  obtain ⟨j, hj⟩ := l2s_indirect_in a
  exact ⟨a, ha, v, _, hk.trans hj, hr⟩

/-- ... hence it is listed by `GoVal.texts d` of that argument, for every fuel `d` that
    covers the height of the arguments -/
theorem l2s_params_in_texts {tt : TypeTable} {tes : List TExpr} {args : List GoVal} {pq : Primed}
    (hb : bindInputs tt tes args = .ok pq) {d : Nat} (hd : args.all (GoVal.l2s_fits d) = true) :
    ∀ p ∈ pq.params, ∃ a ∈ args, p.2 ∈ GoVal.texts d a := by
  intro p hp
  obtain ⟨a, ha, v, k, hk, hr⟩ := l2s_params_from_args hb p hp
  exact ⟨a, ha, by rw [hr]; exact l2s_texts_of_in hk d (List.all_eq_true.1 hd a ha)⟩

/-- a value tree accepted by the well-formedness checker of the no-panic theorems fits -/
theorem l2s_fits_of_valWF {tt : TypeTable} : ∀ (d : Nat) (v : GoVal), valWF tt d v = true → v.l2s_fits d = true := by
  intro d
  induction d with
  | zero => intro v h; simp [valWF] at h
  | succ n ih =>
    intro v h
    cases v with
    | invalid => simp [valWF] at h
    | leaf hd => rfl
    | struct hd fs =>
      simp only [valWF, Bool.and_eq_true, List.all_eq_true, beq_iff_eq] at h
      simp only [GoVal.l2s_fits, List.all_eq_true]
      intro f hf
      obtain ⟨i, hi, rfl⟩ := List.getElem_of_mem hf
      have hi' : i < (tt.get hd.t).fields.length := by omega
      have := h.2 (fs[i], (tt.get hd.t).fields[i]) (by
        rw [List.mem_iff_getElem]
        exact ⟨i, by simp; omega, by simp⟩)
      exact ih _ this.2
    | ptr hd p =>
      cases p with
      | none => rfl
      | some q =>
        simp only [valWF, Bool.and_eq_true] at h
        exact ih _ h.2
    | map hd kv =>
      cases kv with
      | none => rfl
      | some l =>
        simp only [valWF, Bool.and_eq_true, List.all_eq_true] at h
        simp only [GoVal.l2s_fits, List.all_eq_true]
        intro e he
        exact ih _ (h.2 e he).2
    | slice hd els =>
      simp only [valWF, Bool.and_eq_true, List.all_eq_true] at h
      simp only [GoVal.l2s_fits, List.all_eq_true]
      intro e he
      exact ih _ (h.2 e he).2
    | iface hd p =>
      cases p with
      | none => rfl
      | some q =>
        simp only [valWF, Bool.and_eq_true] at h
        exact ih _ h.2

end Sqlair
