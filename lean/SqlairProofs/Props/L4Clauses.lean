/-
  Props/L4Clauses: the two clauses of the runtime layer that the driver evaluates next to
  `holdsC12` and `holdsC15` (`txEndFaithful`, `getReadsFirstOnly`,
  `SqlairModel/Spec/DriverClauses.lean`) are theorems of the model: they are true of every
  observation whose driver events are the model's, hence of the model's own observation
  `predObsW win c (predict c)` for every case (no well-formedness needed) and every winner
  among concurrent finishers.  The converse direction is what the clauses are for; the
  examples below show observations on which they are false.
-/
import SqlairProofs.L4Sound.Defs
import SqlairModel.Spec.DriverClauses

namespace Sqlair.Rt

theorem txEndFaithful_of_events_eq (c : Case) (p : Pred) (o : Obs)
    (h : o.events = p.log.map Ev.render) : txEndFaithful c p o = true := by
  unfold txEndFaithful
  split
  · rfl
  · simp [h]

theorem getReadsFirstOnly_of_events_eq (c : Case) (p : Pred) (o : Obs)
    (h : o.events = p.log.map Ev.render) : getReadsFirstOnly c p o = true := by
  unfold getReadsFirstOnly
  split
  · rfl
  · simp [h]

/-- with finishers racing each other (`concurrent > 0`) the clause says nothing; otherwise
    the events of the model's observation are the model's log -/
theorem txEndFaithful_model (win : String) (c : Case) :
    txEndFaithful c (predict c) (predObsW win c (predict c)) = true := by
  by_cases hc : c.concurrent = 0
  · apply txEndFaithful_of_events_eq
    show l4s_events win c (predict c) = _
    unfold l4s_events Case.l4s_conc
    simp [hc]
  · unfold txEndFaithful
    have : (c.concurrent != 0) = true := by simpa using hc
    simp [this]

/-- the events a racing finisher adds to the model's observation are never `next` -/
theorem getReadsFirstOnly_model (win : String) (hwin : win ≠ "next") (c : Case) :
    getReadsFirstOnly c (predict c) (predObsW win c (predict c)) = true := by
  unfold getReadsFirstOnly
  split
  · rfl
  · show decide (((l4s_events win c (predict c)).filter (· == "next")).length ≤ _) = true
    have hw : (win == "next") = false := by simpa using hwin
    unfold l4s_events
    simp only []
    split
    · split
      · simp [List.filter_append, hw]
      · have : ((predict c).log.map Ev.render) =
            ((predict c).log.map Ev.render).take 1 ++ ((predict c).log.map Ev.render).drop 1 :=
          (List.take_append_drop 1 _).symm
        generalize ((predict c).log.map Ev.render) = l at *
        rw [List.filter_append, List.filter_append, List.filter_cons]
        simp only [hw, List.filter_nil, List.append_nil, Bool.false_eq_true, if_false]
        rw [← List.filter_append, List.take_append_drop]
        simp
    · simp

/-! ### non-vacuity: observations on which the clauses are false -/

def l4c_tx : Case :=
  { hasOutputs := true, path := "tx", ctx := "live", nrows := 2, badRow := none, fetchErrAt := none,
    closeErr := false, prepareErr := false, runErr := false, txEnd := "after", finishers := ["rollback"],
    concurrent := 0, op := "get", dests := "valid", calls := [], cancelAt := none, preCtx := "",
    extraSets := 0, fewCols := false, pairOp := "", aEnd := "", otherShape := false, beginCancel := false }

/-- the model ends this transaction with a rollback; an implementation committing it fails
    the clause, an implementation doing what the model does passes it -/
example :
    txEndFaithful l4c_tx (predict l4c_tx) (predObsW "commit" l4c_tx (predict l4c_tx)) = true ∧
    txEndFaithful l4c_tx (predict l4c_tx)
      { predObsW "commit" l4c_tx (predict l4c_tx) with
        events := ((predict l4c_tx).log.map Ev.render).map fun e => if e == "rollback" then "commit" else e } = false :=
  ⟨txEndFaithful_model _ _, by decide +kernel⟩

/-- a Get that steps over the rest of the result fails the clause -/
example :
    getReadsFirstOnly l4c_tx (predict l4c_tx)
      { predObsW "commit" l4c_tx (predict l4c_tx) with
        events := ((predict l4c_tx).log.map Ev.render) ++ ["next", "next"] } = false := by
  decide +kernel

end Sqlair.Rt
