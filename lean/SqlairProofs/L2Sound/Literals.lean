/-
  L2Sound/Literals: the literal values of a `(cols) VALUES (…)` node occur in the SQL the
  model renders, byte for byte (`literalsVerbatim` holds of the model's own observation).

  Route: `bindSeg` turns a literal value into a `TCol.literal` column with the same text
  (`l2s_step_basicInsert`); `TCol.bind` turns it into a bound column without values, which is
  never omitted and whose cell is `.lit text` in every row; an insert has at least one row;
  `Cell.render (.lit t) = t`, and rendering only concatenates.
-/
import SqlairProofs.L2Sound.Defs
import SqlairProofs.L2Sound.Nodes
import SqlairProofs.L2Sound.Bytes
import SqlairProofs.L2Sound.Present

namespace Sqlair

/-- the literal of a literal column occurs in the rendering of the insert piece the
    `addToQuery` step produces -/
theorem l2s_insert_step_literal {tt : TypeTable} {m : TypeToValue} {qb qb' : QB} {cols : List TCol}
    (h : addToQuery tt m qb (.insert cols) = .ok qb') {c b : Bytes} (hc : TCol.literal c b ∈ cols) :
    ∃ p, qb'.pieces = qb.pieces ++ [p] ∧ L2sInfix b p.render := by
  obtain ⟨bcs, numRows, s⟩ := addToQuery_insert_spec h
  refine ⟨_, s.pieces, ?_⟩
  obtain ⟨bc, hbc, hcb⟩ := l2s_colsBound_mem' s.cols _ hc
  obtain ⟨hvals, hom, _, hlit, _, _⟩ := hcb
  have hkept : bc ∈ keptCols bcs := mem_keptCols.2 ⟨hbc, hom⟩
  have hcell : bc.cellAt 0 = .lit b := by rw [(BCol.cellAt_lit hvals).1, hlit]
  -- row 0 exists and contains the literal cell
  have hrow : (keptCols bcs).map (·.cellAt 0) ∈ insRows bcs numRows := by
    simp only [insRows, List.mem_map, List.mem_range]
    exact ⟨0, s.rows_pos, rfl⟩
  have hb : b ∈ ((keptCols bcs).map (·.cellAt 0)).map Cell.render := by
    simp only [List.mem_map]
    exact ⟨.lit b, ⟨bc, hkept, hcell⟩, rfl⟩
  have h1 : L2sInfix b (bs "(" ++ joinComma (((keptCols bcs).map (·.cellAt 0)).map Cell.render) ++ bs ")") :=
    ((l2s_infix_joinComma hb).append_left _).append_right _
  have h2 : L2sInfix b (joinComma ((insRows bcs numRows).map
      fun r => bs "(" ++ joinComma (r.map Cell.render) ++ bs ")")) :=
    l2s_infix_joinComma_of (List.mem_map.2 ⟨_, hrow, rfl⟩) h1
  show L2sInfix b (bs "(" ++ joinComma (insNames bcs) ++ bs ") VALUES " ++ _)
  exact h2.append_left _

/-- the literal of a literal column of an insert expression occurs in the rendered SQL -/
theorem l2s_literal_in_sql {tt : TypeTable} {tes : List TExpr} {args : List GoVal} {pq : Primed}
    (hb : bindInputs tt tes args = .ok pq) {cols : List TCol} (hte : TExpr.insert cols ∈ tes)
    {c b : Bytes} (hc : TCol.literal c b ∈ cols) : L2sInfix b (renderSQL pq.pieces) := by
  obtain ⟨pre, post, rfl⟩ := List.append_of_mem hte
  obtain ⟨m, q1, q2, _, _, hs, hp, _⟩ := bindInputs_step_at' hb
  obtain ⟨p, hpc, hinf⟩ := l2s_insert_step_literal hs hc
  have hmem : p ∈ pq.pieces := List.mem_of_getElem? (hp p hpc)
  rw [renderSQL_eq_concat]
  exact l2s_infix_concat (List.mem_map.2 ⟨p, hmem, rfl⟩) hinf

/-- the literal values of the `(cols) VALUES (…)` nodes occur in the SQL of the model -/
theorem l2s_literals_in_sql {C : Cls} {tt : TypeTable} {segs : List OSeg} {samples : List (Option Nat)}
    {tes : List TExpr} {args : List GoVal} {pq : Primed}
    (hp : bindTypes C tt segs samples = .ok tes) (hb : bindInputs tt tes args = .ok pq) :
    ∀ s ∈ segs, s.kind = .basicInsert → ∀ b, Val.lit b ∈ s.vals → L2sInfix b (renderSQL pq.pieces) := by
  intro s hs hk b hbv
  obtain ⟨e, he, hstep⟩ := (l2s_bindTypes_steps hp).l2s_mem hs
  obtain ⟨cols, rfl, hl⟩ := l2s_step_basicInsert hstep hk
  obtain ⟨c, hc⟩ := hl b hbv
  exact l2s_literal_in_sql hb he hc

end Sqlair
