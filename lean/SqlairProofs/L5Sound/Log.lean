/-
  L5Sound/Log: how the steps extend the driver log, and two log invariants of reachable
  states that the bundled invariant `Inv` does not state:

  * every `prepare ds db sql` event is the creation of the table entry `ds`, with that DB and
    that SQL (so the `prepare` event of a driver statement is unique);
  * no execution of a driver statement comes after its `close` event.
-/
import SqlairProofs.Props.Cache
import SqlairProofs.L5Sound.Defs

namespace Sqlair.Cache

/-! ### identity of driver statements -/

/-- id, DB and SQL shape of the entries of a driver-statement table -/
def l5s_core (ds : List DStmt) : List (Nat × Nat × Nat) := ds.map fun x => (x.id, x.db, x.sql)

theorem l5s_core_upd (ds : List DStmt) (id : Nat) (f : DStmt → DStmt)
    (hf : ∀ x, (f x).id = x.id ∧ (f x).db = x.db ∧ (f x).sql = x.sql) :
    l5s_core (dsUpd ds id f) = l5s_core ds := by
  unfold l5s_core dsUpd
  rw [List.map_map]
  apply List.map_congr_left
  intro x _
  simp only [Function.comp]
  split
  · obtain ⟨a, b, c⟩ := hf x; rw [a, b, c]
  · rfl

theorem l5s_core_get : ∀ {ds ds' : List DStmt}, l5s_core ds' = l5s_core ds → ∀ {id : Nat} {x : DStmt},
    dsGet ds id = some x → ∃ x', dsGet ds' id = some x' ∧ x'.db = x.db ∧ x'.sql = x.sql := by
  intro ds
  induction ds with
  | nil => intro ds' _ id x hx; simp [dsGet] at hx
  | cons y ds ih =>
    intro ds' h id x hx
    cases ds' with
    | nil => simp [l5s_core] at h
    | cons y' ds' =>
      simp only [l5s_core, List.map_cons, List.cons.injEq, Prod.mk.injEq] at h
      obtain ⟨⟨h1, h2, h3⟩, h4⟩ := h
      rw [dsGet_cons] at hx ⊢
      by_cases e : y.id = id
      · rw [if_pos e] at hx
        cases hx
        rw [if_pos (h1.trans e)]
        exact ⟨y', rfl, h2, h3⟩
      · rw [if_neg e] at hx
        rw [if_neg (by rw [h1]; exact e)]
        exact ih h4 hx

theorem l5s_core_length {ds ds' : List DStmt} (h : l5s_core ds' = l5s_core ds) : ds'.length = ds.length := by
  have := congrArg List.length h
  simpa [l5s_core] using this

/-! ### steps that only close -/

/-- the step appends only `close` events and leaves the identity of the driver statements alone -/
structure L5sQuiet (st st' : St) : Prop where
  log : ∃ evs, st'.log = st.log ++ evs ∧ ∀ e ∈ evs, ∃ id, e = Ev.close id
  core : l5s_core st'.ds = l5s_core st.ds
  nextS : st'.nextS = st.nextS
  nextD : st'.nextD = st.nextD

theorem L5sQuiet.refl (st : St) : L5sQuiet st st := ⟨⟨[], by simp, by simp⟩, rfl, rfl, rfl⟩

theorem L5sQuiet.trans {a b c : St} (h1 : L5sQuiet a b) (h2 : L5sQuiet b c) : L5sQuiet a c := by
  obtain ⟨e1, hl1, hc1⟩ := h1.log
  obtain ⟨e2, hl2, hc2⟩ := h2.log
  refine ⟨⟨e1 ++ e2, by rw [hl2, hl1, List.append_assoc], ?_⟩, h2.core.trans h1.core,
    h2.nextS.trans h1.nextS, h2.nextD.trans h1.nextD⟩
  intro e he
  rcases List.mem_append.1 he with he | he
  · exact hc1 e he
  · exact hc2 e he

/-- only the log and the table matter -/
theorem L5sQuiet.of_eq {st a b : St} (h : L5sQuiet st a) (hl : b.log = a.log) (hd : b.ds = a.ds)
    (hs : b.nextS = a.nextS := by rfl) (hn : b.nextD = a.nextD := by rfl) : L5sQuiet st b :=
  ⟨by rw [hl]; exact h.log, by rw [hd]; exact h.core, hs.trans h.nextS, hn.trans h.nextD⟩

theorem l5s_closeStmt_quiet (st : St) (id : Nat) : L5sQuiet st (st.closeStmt id) := by
  unfold St.closeStmt
  cases hx : st.getDS id with
  | none => exact L5sQuiet.refl st
  | some x =>
    simp only [updDS_eq, iterHolds_eq, St.emit]
    by_cases h : (!x.closeCalled && !st.iters.any (·.2 == id)) = true
    · simp only [h, if_true]
      refine ⟨⟨[.close id], rfl, by simp⟩, ?_, rfl, rfl⟩
      show l5s_core (dsUpd (dsUpd st.ds id _) id _) = _
      rw [l5s_core_upd _ _ _ (by intro x; exact ⟨rfl, rfl, rfl⟩), l5s_core_upd _ _ _ (by intro x; exact ⟨rfl, rfl, rfl⟩)]
    · simp only [h, Bool.false_eq_true, if_false]
      refine ⟨⟨[], by simp, by simp⟩, ?_, rfl, rfl⟩
      show l5s_core (dsUpd st.ds id _) = _
      rw [l5s_core_upd _ _ _ (by intro x; exact ⟨rfl, rfl, rfl⟩)]

theorem l5s_finSBody_quiet (s : Nat) (st : St) (p : Nat × Nat) : L5sQuiet st (finSBody s st p) :=
  (l5s_closeStmt_quiet st p.2).of_eq rfl rfl

theorem l5s_finDBody_quiet (d : Nat) (st : St) (s : Nat) : L5sQuiet st (finDBody d st s) := by
  unfold finDBody
  split
  · rename_i id _
    exact (l5s_closeStmt_quiet st id).of_eq rfl rfl
  · exact L5sQuiet.refl st

theorem l5s_foldl_quiet {α : Type} (f : St → α → St) (hf : ∀ st a, L5sQuiet st (f st a)) (l : List α) (st : St) :
    L5sQuiet st (l.foldl f st) := by
  induction l generalizing st with
  | nil => exact L5sQuiet.refl st
  | cons a l ih => exact (hf st a).trans (ih (f st a))

theorem l5s_finS_quiet {st st' : St} {s : Nat} (h : step st (.finS s) = some st') : L5sQuiet st st' := by
  obtain ⟨_, _, rfl⟩ := step_finS h
  exact (l5s_foldl_quiet (finSBody s) (l5s_finSBody_quiet s) _ st).of_eq rfl rfl

theorem l5s_finD_quiet {st st' : St} {d : Nat} (h : step st (.finD d) = some st') : L5sQuiet st st' := by
  obtain ⟨_, _, rfl⟩ := step_finD h
  exact (l5s_foldl_quiet (finDBody d) (l5s_finDBody_quiet d) _ st).of_eq rfl rfl

theorem l5s_finDS_quiet {st st' : St} {id : Nat} (h : step st (.finDS id) = some st') : L5sQuiet st st' := by
  obtain ⟨x, _, _, _, rfl⟩ := step_finDS h
  have hq := l5s_closeStmt_quiet st id
  refine ⟨hq.log, ?_, hq.nextS, hq.nextD⟩
  rw [updDS_eq]
  show l5s_core (dsUpd (st.closeStmt id).ds id _) = _
  rw [l5s_core_upd _ _ _ (by intro x; exact ⟨rfl, rfl, rfl⟩)]
  exact hq.core

theorem l5s_iterClose_quiet {st st' : St} {hd : Nat} (h : step st (.iterClose hd) = some st') : L5sQuiet st st' := by
  obtain ⟨id, _, hc⟩ := step_iterClose h
  rcases hc with ⟨x, _, _, _, _, rfl⟩ | ⟨_, rfl⟩
  · refine ⟨⟨[.close id], rfl, by simp⟩, ?_, rfl, rfl⟩
    show l5s_core (dsUpd st.ds id _) = _
    rw [l5s_core_upd _ _ _ (by intro x; exact ⟨rfl, rfl, rfl⟩)]
  · exact (L5sQuiet.refl st).of_eq rfl rfl

/-- every enabled finalizer step is quiet -/
theorem l5s_enabledFinalizers_quiet {st st' : St} {x : Step} (hx : x ∈ enabledFinalizers st)
    (h : step st x = some st') : L5sQuiet st st' := by
  rcases mem_enabledFinalizers hx with ⟨y, _, _, _, rfl⟩ | ⟨p, _, _, rfl⟩ | ⟨p, _, _, rfl⟩
  · exact l5s_finDS_quiet h
  · exact l5s_finS_quiet h
  · exact l5s_finD_quiet h

/-- garbage collection only closes, whatever the fuel -/
theorem l5s_gcFuel_quiet : ∀ (fuel : Nat) (st : St), L5sQuiet st (gc fuel st) := by
  intro fuel
  induction fuel with
  | zero => intro st; exact L5sQuiet.refl st
  | succ f ih =>
    intro st
    unfold gc
    cases he : enabledFinalizers st with
    | nil => exact L5sQuiet.refl st
    | cons x rest =>
      simp only
      cases hs : step st x with
      | none => simp only [Option.getD_none]; exact ih st
      | some st' =>
        simp only [Option.getD_some]
        exact (l5s_enabledFinalizers_quiet (by rw [he]; exact List.mem_cons_self ..) hs).trans (ih st')

theorem l5s_gc_quiet (st : St) : L5sQuiet st (l5s_gc st) := l5s_gcFuel_quiet _ st

/-! ### what any enabled step does to the log -/

/-- the events one step appends: nothing, one `prepare` that creates a table entry, one
    execution of a statement that has no `close` event, one failed execution, or closes -/
inductive L5sDelta (st st' : St) : Prop where
  | same (hl : st'.log = st.log) (hc : l5s_core st'.ds = l5s_core st.ds)
  | prep (o : Op) (hl : st'.log = st.log ++ [.prepare (st.ds.length + 1) o.d o.sql])
      (hd : st'.ds = st.ds ++ [({ id := st.ds.length + 1, db := o.d, sql := o.sql } : DStmt)])
  | exec (id d q : Nat) (hl : st'.log = st.log ++ [.exec id d q]) (hn : Ev.close id ∉ st.log)
      (hc : l5s_core st'.ds = l5s_core st.ds)
  | execClosed (id : Nat) (hl : st'.log = st.log ++ [.execClosed id]) (hc : l5s_core st'.ds = l5s_core st.ds)
  | quiet (h : L5sQuiet st st')

theorem l5s_delta {st st' : St} (hi : Inv st) {x : Step} (h : step st x = some st') : L5sDelta st st' := by
  cases x with
  | newS => rw [step_newS h]; exact .same rfl rfl
  | newD => rw [step_newD h]; exact .same rfl rfl
  | query t s d q => obtain ⟨_, _, _, rfl⟩ := step_query h; exact .same rfl rfl
  | lookup t =>
    obtain ⟨o, _, _, hc⟩ := step_lookup h
    rcases hc with ⟨_, _, _, _, _, rfl⟩ | rfl <;> exact .same rfl rfl
  | prepare t =>
    obtain ⟨o, _, _, rfl⟩ := step_prepare h
    exact .prep o rfl rfl
  | insert t =>
    obtain ⟨o, id, _, _, rfl⟩ := step_insert h
    refine .same rfl ?_
    show l5s_core (evictDs st o.s o.d) = _
    unfold evictDs
    split
    · rw [l5s_core_upd _ _ _ (by intro x; exact ⟨rfl, rfl, rfl⟩)]
    · rfl
  | exec t it =>
    obtain ⟨o, id, x, ho, hpc, hx, hc⟩ := step_exec h
    rcases hc with ⟨_, rfl⟩ | ⟨hcc, ⟨_, rfl⟩ | ⟨_, _, _, rfl⟩⟩
    · exact .execClosed id rfl rfl
    all_goals
      refine .exec id x.db x.sql rfl ?_ rfl
      intro hcl
      obtain ⟨y, hy, hyc⟩ := hi.log.close id hcl
      rw [hx] at hy; cases hy
      have := hi.dsOK.dclosed id x hx hyc
      rw [hcc] at this; cases this
  | iterClose hd => exact .quiet (l5s_iterClose_quiet h)
  | dropS s => obtain ⟨_, rfl⟩ := step_dropS h; exact .same rfl rfl
  | dropD d => obtain ⟨_, rfl⟩ := step_dropD h; exact .same rfl rfl
  | finS s => exact .quiet (l5s_finS_quiet h)
  | finD d => exact .quiet (l5s_finD_quiet h)
  | finDS id => exact .quiet (l5s_finDS_quiet h)

/-! ### the two log invariants -/

structure L5sLog (st : St) : Prop where
  /-- a `prepare` event is the creation of that table entry -/
  prep : ∀ id d q, Ev.prepare id d q ∈ st.log → ∃ x, dsGet st.ds id = some x ∧ x.db = d ∧ x.sql = q
  /-- nothing is executed after its `close` event -/
  order : ∀ (i j id d q : Nat), st.log[i]? = some (Ev.close id) → st.log[j]? = some (Ev.exec id d q) → j < i

theorem l5s_getElem?_append_singleton {α : Type} {l : List α} {a b : α} {i : Nat}
    (h : (l ++ [a])[i]? = some b) : l[i]? = some b ∨ (i = l.length ∧ a = b) := by
  by_cases hi : i < l.length
  · left; rwa [List.getElem?_append_left hi] at h
  · right
    rw [List.getElem?_append_right (by omega)] at h
    have : i - l.length = 0 := by
      cases hk : i - l.length with
      | zero => rfl
      | succ k => rw [hk] at h; simp at h
    rw [this] at h
    simp at h
    exact ⟨by omega, h⟩

theorem l5s_log_init : L5sLog ({} : St) := ⟨by intro id d q h; simp at h, by intro i j id d q h; simp at h⟩

theorem l5s_log_step {st st' : St} (hi : Inv st) (hl : L5sLog st) {x : Step} (h : step st x = some st') : L5sLog st' := by
  have hpers : ∀ {ds' : List DStmt}, l5s_core ds' = l5s_core st.ds → ∀ id d q, Ev.prepare id d q ∈ st.log →
      ∃ x, dsGet ds' id = some x ∧ x.db = d ∧ x.sql = q := by
    intro ds' hc id d q hm
    obtain ⟨x, hx, h1, h2⟩ := hl.prep id d q hm
    obtain ⟨x', hx', h1', h2'⟩ := l5s_core_get hc hx
    exact ⟨x', hx', h1'.trans h1, h2'.trans h2⟩
  have hlen : ∀ {i : Nat} {e : Ev}, st.log[i]? = some e → i < st.log.length := by
    intro i e he
    exact (List.getElem?_eq_some_iff.1 he).1
  cases l5s_delta hi h with
  | same hlog hc => exact ⟨by rw [hlog]; exact hpers hc, by rw [hlog]; exact hl.order⟩
  | prep o hlog hd =>
    constructor
    · intro id d q hm
      rw [hlog, List.mem_append, List.mem_singleton] at hm
      rw [hd]
      rcases hm with hm | hm
      · obtain ⟨x, hx, h1, h2⟩ := hl.prep id d q hm
        exact ⟨x, dsGet_append_of_some _ hx, h1, h2⟩
      · cases hm
        refine ⟨({ id := st.ds.length + 1, db := o.d, sql := o.sql } : DStmt), ?_, rfl, rfl⟩
        rw [dsGet_append, hi.dsOK.ids.fresh]
        simp
    · intro i j id d q h1 h2
      rw [hlog] at h1 h2
      rcases l5s_getElem?_append_singleton h1 with h1 | ⟨_, h1⟩
      · rcases l5s_getElem?_append_singleton h2 with h2 | ⟨_, h2⟩
        · exact hl.order i j id d q h1 h2
        · cases h2
      · cases h1
  | exec id0 d0 q0 hlog hn hc =>
    constructor
    · intro id d q hm
      rw [hlog, List.mem_append, List.mem_singleton] at hm
      rcases hm with hm | hm
      · exact hpers hc id d q hm
      · cases hm
    · intro i j id d q h1 h2
      rw [hlog] at h1 h2
      rcases l5s_getElem?_append_singleton h1 with h1 | ⟨_, h1⟩
      · rcases l5s_getElem?_append_singleton h2 with h2 | ⟨_, h2⟩
        · exact hl.order i j id d q h1 h2
        · cases h2
          exact absurd (List.mem_of_getElem? h1) hn
      · cases h1
  | execClosed id0 hlog hc =>
    constructor
    · intro id d q hm
      rw [hlog, List.mem_append, List.mem_singleton] at hm
      rcases hm with hm | hm
      · exact hpers hc id d q hm
      · cases hm
    · intro i j id d q h1 h2
      rw [hlog] at h1 h2
      rcases l5s_getElem?_append_singleton h1 with h1 | ⟨_, h1⟩
      · rcases l5s_getElem?_append_singleton h2 with h2 | ⟨_, h2⟩
        · exact hl.order i j id d q h1 h2
        · cases h2
      · cases h1
  | quiet hq =>
    obtain ⟨evs, hlog, hev⟩ := hq.log
    constructor
    · intro id d q hm
      rw [hlog, List.mem_append] at hm
      rcases hm with hm | hm
      · exact hpers hq.core id d q hm
      · obtain ⟨_, e⟩ := hev _ hm; cases e
    · intro i j id d q h1 h2
      rw [hlog] at h1 h2
      have hj : j < st.log.length := by
        by_cases hj : j < st.log.length
        · exact hj
        · rw [List.getElem?_append_right (by omega)] at h2
          obtain ⟨_, e⟩ := hev _ (List.mem_of_getElem? h2); cases e
      rw [List.getElem?_append_left hj] at h2
      by_cases hi' : i < st.log.length
      · rw [List.getElem?_append_left hi'] at h1
        exact hl.order i j id d q h1 h2
      · omega

theorem l5s_log_reachable {st : St} (h : Reachable st) : L5sLog st :=
  (Reachable.induction (P := fun st => Inv st ∧ L5sLog st) ⟨inv_init, l5s_log_init⟩
    (fun _ _ x hp hs => ⟨inv_step hp.1 x hs, l5s_log_step hp.1 hp.2 hs⟩) h).2

/-- the `prepare` event of a driver statement determines DB and SQL of all its executions -/
theorem l5s_prepOf_exec {st : St} (h : Reachable st) {i id d q : Nat} (he : st.log[i]? = some (Ev.exec id d q)) :
    l5s_prepOf st.log id = some (d, q) := by
  obtain ⟨j, _, hj⟩ := h.inv.log.exec i id d q he
  have hm : Ev.prepare id d q ∈ st.log := List.mem_of_getElem? hj
  obtain ⟨x, hx, hd, hq⟩ := (l5s_log_reachable h).prep id d q hm
  unfold l5s_prepOf
  cases hf : st.log.findSome? (fun e => match e with
      | .prepare i d q => if i == id then some (d, q) else none
      | _ => none) with
  | none =>
    have := List.findSome?_eq_none_iff.1 hf _ hm
    simp at this
  | some p =>
    obtain ⟨e, hem, hep⟩ := List.exists_of_findSome?_eq_some hf
    cases e with
    | prepare i' d' q' =>
      simp only at hep
      split at hep
      · rename_i hid
        simp at hid
        subst hid
        cases hep
        obtain ⟨y, hy, hd', hq'⟩ := (l5s_log_reachable h).prep i' d' q' hem
        rw [hx] at hy; cases hy
        rw [← hd, ← hq, hd', hq']
      · cases hep
    | exec _ _ _ => simp at hep
    | close _ => simp at hep
    | execClosed _ => simp at hep

end Sqlair.Cache
