/-
  L5 soundness for CONCURRENT runs, C11 "everything is released": the predicate the Go
  harness evaluates at the end of a concurrent run, once every handle has been dropped and
  garbage has been collected - `holdsC11 doubleClose openStmts cacheLeft conns true cacheLeft`
  (Spec/L5) - holds of the observation the model produces from EVERY list of atomic steps
  that ends in a quiescent state (no handle held, no iterator open, no operation in flight),
  collected with any sufficient fuel, for any number of pooled connections.

  The observation functions are those of the sequential `holdsC11_model` (Props/L5Sound):
  `l5s_doubleClose`, `l5s_openStmts` (L5Sound/Defs) and `St.pairs` (Spec/L5); the log-only
  counts `l5i_doubleCloseLog` (L5Sound/InterleaveDefs) and `l5q_openLog`
  (L5Sound/QuiescentLemmas) are covered as well.  `Props/L5Interleave` has the `doubleClose`
  conjunct without any hypothesis on the final state.
-/
import SqlairProofs.L5Sound.QuiescentLemmas
import SqlairProofs.Props.L5Sound
import SqlairProofs.Props.L5Interleave

namespace Sqlair.Cache

/-- the running example.  Two operations on one (Statement, DB) slot with different SQL
    shapes, their steps alternating: both miss, both prepare, 1 inserts, 2 inserts and
    thereby evicts statement 1; 1 executes, 2 executes and leaves an iterator open; then the
    caller closes the iterator and drops both handles.  No finalizer has run yet -/
def l5q_example : List Step :=
  [.newS, .newD, .query 1 1 1 0, .query 2 1 1 1, .lookup 1, .lookup 2, .prepare 1, .prepare 2,
   .insert 1, .insert 2, .exec 1 none, .exec 2 (some 7), .iterClose 7, .dropS 1, .dropD 1]

/-! ### everything is released -/

/-- the whole C11 conclusion, on the log, for every interleaving that ends quiescent: after
    the collection every driver statement that was prepared has exactly one `close` event,
    nothing else has one, the cache (both maps, hence `pairs`) is empty, no driver statement
    is lost and each has `Close` called once and is closed at the driver -/
theorem released_interleaved_quiescent (steps : List Step) (hq : Quiescent (run {} steps)) {fuel : Nat}
    (hf : gcMeasure (run {} steps) ≤ fuel) :
    let st' := gc fuel (run {} steps)
    Reachable st' ∧ L5sReleased st' ∧ st'.ds.length = (run {} steps).ds.length ∧
      ∀ x ∈ st'.ds, x.closeCalled = true ∧ x.closeCalls = 1 ∧ x.driverClosed = true ∧
        l5s_closes st'.log x.id = 1 := by
  intro st'
  have hr : Reachable (run {} steps) := ⟨steps, rfl⟩
  obtain ⟨hr', hq', he, hlen⟩ := l5q_gc_fixpoint hr hq hf
  refine ⟨hr', l5q_fixpoint_released hr' hq' he, hlen, ?_⟩
  intro x hx
  obtain ⟨a, b, c, _⟩ := (quiescent_final hr'.inv hq' he).2.2 x hx
  refine ⟨a, b, c, ?_⟩
  rw [l5s_closes_eq_count]
  exact (driverClosed_iff_logged hr' hx).1 c

/-- C11 for every interleaving that ends quiescent, with the fuel that is actually needed
    (`quiescent_closed_measure`): after the collection no driver statement has two `close`
    events, none is open, no pair is cached, and `holdsC11` with `allDropped = true` holds
    for any number of pooled connections -/
theorem holdsC11_interleaved_quiescent (steps : List Step) (hq : Quiescent (run {} steps)) {fuel : Nat}
    (hf : gcMeasure (run {} steps) ≤ fuel) (conns : Nat) :
    let st' := gc fuel (run {} steps)
    l5s_doubleClose st' = 0 ∧ l5s_openStmts st' = 0 ∧ st'.pairs = [] ∧
      holdsC11 (l5s_doubleClose st') (l5s_openStmts st') st'.pairs.length conns true st'.pairs.length = true := by
  intro st'
  obtain ⟨hr', hrel, _, _⟩ := released_interleaved_quiescent steps hq hf
  obtain ⟨h1, h2, _, _⟩ := l5s_released_c11 hr' hrel
  refine ⟨h1, h2, hrel.2.1, ?_⟩
  show holdsC11 (l5s_doubleClose (gc fuel (run {} steps))) (l5s_openStmts (gc fuel (run {} steps)))
    (gc fuel (run {} steps)).pairs.length conns true (gc fuel (run {} steps)).pairs.length = true
  rw [h1, h2, hrel.2.1]
  simp [holdsC11]

/-- the same with the fuel bound of `quiescent_closed` (what `runHistory` gives `gc`) -/
theorem holdsC11_interleaved_quiescent' (steps : List Step) (hq : Quiescent (run {} steps)) {fuel : Nat}
    (hf : (run {} steps).ds.length + (run {} steps).stmtDB.length + (run {} steps).dbStmt.length + 1 ≤ fuel)
    (conns : Nat) :
    let st' := gc fuel (run {} steps)
    l5s_doubleClose st' = 0 ∧ l5s_openStmts st' = 0 ∧ st'.pairs = [] ∧
      holdsC11 (l5s_doubleClose st') (l5s_openStmts st') st'.pairs.length conns true st'.pairs.length = true :=
  holdsC11_interleaved_quiescent steps hq (by have := gcMeasure_le (run {} steps); omega) conns

/-- the same for the collection `l5s_gc` of the sequential development -/
theorem holdsC11_interleaved_quiescent_l5s_gc (steps : List Step) (hq : Quiescent (run {} steps)) (conns : Nat) :
    let st' := l5s_gc (run {} steps)
    l5s_doubleClose st' = 0 ∧ l5s_openStmts st' = 0 ∧ st'.pairs = [] ∧
      holdsC11 (l5s_doubleClose st') (l5s_openStmts st') st'.pairs.length conns true st'.pairs.length = true :=
  holdsC11_interleaved_quiescent' steps hq (Nat.le_refl _) conns

/-- the same predicate on the counts read off the LOG alone, the way the harness forms them:
    `doubleClose` = statements with two `close` events, `openStmts` = `prepare` events without
    `close` event; `cacheLeft` = what is left in the cache -/
theorem holdsC11_interleaved_quiescent_log (steps : List Step) (hq : Quiescent (run {} steps)) {fuel : Nat}
    (hf : gcMeasure (run {} steps) ≤ fuel) (conns : Nat) :
    let st' := gc fuel (run {} steps)
    l5i_doubleCloseLog st'.log = 0 ∧ l5q_openLog st'.log = 0 ∧ entryCount st' = 0 ∧
      holdsC11 (l5i_doubleCloseLog st'.log) (l5q_openLog st'.log) st'.pairs.length conns true st'.pairs.length = true := by
  intro st'
  obtain ⟨hr', hrel, _, _⟩ := released_interleaved_quiescent steps hq hf
  have h1 := l5i_doubleCloseLog_zero hr'
  have h2 := l5q_openLog_zero hrel
  have h3 : entryCount (gc fuel (run {} steps)) = 0 := by
    rw [← l5s_pairs_length hr'.inv, hrel.2.1]; rfl
  refine ⟨h1, h2, h3, ?_⟩
  show holdsC11 (l5i_doubleCloseLog (gc fuel (run {} steps)).log) (l5q_openLog (gc fuel (run {} steps)).log)
    (gc fuel (run {} steps)).pairs.length conns true (gc fuel (run {} steps)).pairs.length = true
  rw [h1, h2, hrel.2.1]
  simp [holdsC11]

/-! ### handles still held -/

/-- C11, general clause, first conjunct: in the run of any step list, collected or not, no
    driver statement has two `close` events (`l5s_doubleClose_zero` for `run {} steps`, and for
    any collection of it) -/
theorem l5s_doubleClose_interleaved (steps : List Step) (fuel : Nat) :
    l5s_doubleClose (run {} steps) = 0 ∧ l5s_doubleClose (gc fuel (run {} steps)) = 0 := by
  have hr : Reachable (run {} steps) := ⟨steps, rfl⟩
  refine ⟨l5s_doubleClose_zero hr, ?_⟩
  obtain ⟨gsteps, hg⟩ := gc_is_run fuel (run {} steps)
  rw [hg]
  exact l5s_doubleClose_zero (hr.runs gsteps)

/-- C11, general clause, second conjunct, in the form that is true for interleavings
    (`open_bound_partial`): in the run of any step list that leaves no iterator open, the
    driver statements without `close` event are at most the cached pairs plus the evicted
    statements awaiting their finalizer plus the operations between `prepare` and `insert` -/
theorem openStmts_bound_interleaved (steps : List Step) (hit : (run {} steps).iters = []) :
    l5s_openStmts (run {} steps) ≤
      (run {} steps).pairs.length + finCount (run {} steps).ds + preparedCount (run {} steps) := by
  have hr : Reachable (run {} steps) := ⟨steps, rfl⟩
  have h1 := l5q_openStmts_le hr hit
  have h2 := open_bound_partial hr
  rw [l5s_pairs_length hr.inv]
  omega

/-! ### non-vacuity -/

/-- the example ends quiescent with both statements open - one cached, one evicted and
    awaiting its finalizer -, so `holdsC11 … true …` is false before the collection; the
    collection (three finalizers: `finDS 1`, `finS 1`, `finD 1`) closes both, each once -/
example :
    Quiescent (run {} l5q_example) ∧
    (run {} l5q_example).log = [.prepare 1 1 0, .prepare 2 1 1, .exec 1 1 0, .exec 2 1 1] ∧
    (run {} l5q_example).pairs = [(1, 1, 1)] ∧ l5s_openStmts (run {} l5q_example) = 2 ∧
    holdsC11 (l5s_doubleClose (run {} l5q_example)) (l5s_openStmts (run {} l5q_example))
      (run {} l5q_example).pairs.length 4 true (run {} l5q_example).pairs.length = false ∧
    gcMeasure (run {} l5q_example) = 3 ∧
    (gc 3 (run {} l5q_example)).ds.length = 2 ∧
    (gc 3 (run {} l5q_example)).ds.all (fun x => x.closeCalled && x.driverClosed && x.closeCalls == 1) = true ∧
    (gc 3 (run {} l5q_example)).log.drop 4 = [.close 1, .close 2] ∧
    (gc 3 (run {} l5q_example)).stmtDB = [] ∧ (gc 3 (run {} l5q_example)).dbStmt = [] ∧
    l5q_openLog (gc 3 (run {} l5q_example)).log = 0 ∧
    -- with too little fuel the collection is not complete and the predicate fails
    l5s_openStmts (gc 1 (run {} l5q_example)) = 1 := by
  refine ⟨⟨by decide +kernel, by decide +kernel, by decide +kernel, by decide +kernel⟩, ?_⟩
  decide +kernel

/-- the interleaving is a real one: after ten steps operation 1 holds the evicted statement 1
    (which has its finalizer set), operation 2 holds statement 2, which is what the cache has -/
example :
    (run {} (l5q_example.take 10)).ops.map (fun p => (p.1, p.2.pc)) = [(1, .ready 1), (2, .ready 2)] ∧
    lookup2 (run {} (l5q_example.take 10)).stmtDB 1 1 = some 2 ∧
    (run {} (l5q_example.take 10)).ds.map (·.finalizer) = [true, false] := by decide +kernel

/-- the theorem applies to the example (fuel 3, the harness' four connections) -/
example :
    holdsC11 (l5s_doubleClose (gc 3 (run {} l5q_example))) (l5s_openStmts (gc 3 (run {} l5q_example)))
      (gc 3 (run {} l5q_example)).pairs.length 4 true (gc 3 (run {} l5q_example)).pairs.length = true :=
  (holdsC11_interleaved_quiescent l5q_example
    ⟨by decide +kernel, by decide +kernel, by decide +kernel, by decide +kernel⟩
    (fuel := 3) (by decide +kernel) 4).2.2.2

/-- wrong observations with everything dropped: one statement left open; one pair left in the
    cache (its statement open, within the general bound); a statement closed twice; the
    log-only counts of a log with a `prepare` that is never closed -/
example :
    holdsC11 0 1 0 4 true 0 = false ∧ holdsC11 0 1 1 4 true 1 = false ∧ holdsC11 0 0 1 4 true 1 = false ∧
    holdsC11 1 0 0 4 true 0 = false ∧
    l5q_openLog [.prepare 1 1 0, .prepare 2 1 1, .exec 1 1 0, .close 1] = 1 ∧
    holdsC11 (l5i_doubleCloseLog [.prepare 1 1 0, .prepare 2 1 1, .exec 1 1 0, .close 1])
      (l5q_openLog [.prepare 1 1 0, .prepare 2 1 1, .exec 1 1 0, .close 1]) 0 4 true 0 = false ∧
    holdsC11 0 0 0 4 true 0 = true := by decide +kernel

end Sqlair.Cache
