/-
  L5Sound/Counter: the histories on which a predicate is FALSE of the model's own
  observation (kernel-checked), with the judgement on each.
-/
import SqlairProofs.L5Sound.Execs
import SqlairProofs.L5Sound.CloseOut

namespace Sqlair.Cache

/-! ### C09: the operation ids of `run`s meet those of Queries after 999 `run`s

  `runHistory` numbers the `run` operations 1, 2, 3, ... and gives the Query `q` of a `mkq`
  the operation id `1000 + q`.  The 1000th `run` of a history therefore has the id of Query 0:
  if that Query has been built and not yet run, the `query` step of the `run` is not enabled
  (id in use) and its remaining steps run *the Query* - on the Query's DB with the Query's SQL
  - instead of what the `run` asked for.

  Judgement: a defect of `runHistory`'s numbering (model side), not of the predicate and not
  of sqlair; it cannot be reached by the harness, whose histories have at most a few dozen
  operations.  `holdsC09_model` therefore carries the hypothesis `l5s_fresh h` (every Query
  id `q` a history builds satisfies `#runs < 1000 + q`: true of every history with fewer than
  1000 `run`s and of every history without `mkq`). -/

/-- an ill-formed `run` (unknown Statement, unused operation id) does nothing -/
theorem l5s_run_illformed {st : St} {t s d k : Nat} (hs : s ∉ st.liveS) (ho : alook st.ops t = none) :
    l5s_op st t (.run s d k) = (st, t + 1) := by
  have hq : step st (.query t s d k) = none := by
    simp [step, hs]
  show (run st (Step.query t s d k :: l5s_tail t), t + 1) = _
  rw [run_cons, hq, Option.getD_none, l5s_tail_none ho]

theorem l5s_skip_illformed (s d k : Nat) : ∀ (n : Nat) (st : St) (t : Nat) (qs w : List (Nat × Nat × Nat))
    (rest : List HOp), s ∉ st.liveS → (∀ i, i < n → alook st.ops (t + i) = none) →
    runHistoryW (List.replicate n (.run s d k) ++ rest) st t qs w = runHistoryW rest st (t + n) qs w := by
  intro n
  induction n with
  | zero => intro st t qs w rest _ _; rfl
  | succ n ih =>
    intro st t qs w rest hs ho
    rw [List.replicate_succ, List.cons_append]
    simp only [runHistoryW]
    have h0 : alook st.ops t = none := ho 0 (Nat.succ_pos _)
    rw [l5s_run_illformed (d := d) (k := k) hs h0, l5s_wants_same rfl, List.append_nil]
    have : l5s_qs st qs (.run s d k) = qs := rfl
    rw [this, ih st (t + 1) qs w rest hs (by intro i hi; rw [Nat.add_assoc, Nat.add_comm 1 i]; exact ho (i + 1) (by omega))]
    congr 1
    omega

/-- Query 0 is built on DB 2 with shape 7, 999 ill-formed `run`s advance the counter, the
    1000th `run` asks for DB 1 and shape 3 -/
def l5s_clashHistory : List HOp :=
  [.newS, .newD, .newD, .mkq 0 1 2 7] ++ (List.replicate 999 (.run 9 9 9) ++ [.run 1 1 3])

/-- the state after the first four operations -/
def l5s_clashState : St :=
  { stmtDB := [(1, [])], dbStmt := [(1, []), (2, [])], nextS := 2, nextD := 3, liveS := [1], liveD := [1, 2],
    ops := [(1000, { s := 1, d := 2, sql := 7 })] }

theorem l5s_clash_prefix (rest : List HOp) :
    runHistoryW ([.newS, .newD, .newD, .mkq 0 1 2 7] ++ rest) {} 1 [] [] =
      runHistoryW rest l5s_clashState 1 [(0, 2, 7)] [] := rfl

theorem l5s_clash_run :
    runHistoryW l5s_clashHistory {} 1 [] [] = runHistoryW [.run 1 1 3] l5s_clashState 1000 [(0, 2, 7)] [] := by
  unfold l5s_clashHistory
  rw [l5s_clash_prefix, l5s_skip_illformed 9 9 9 999 l5s_clashState 1 _ _ _ (by decide)]
  intro i hi
  have : l5s_clashState.ops = [(1000, { s := 1, d := 2, sql := 7 })] := rfl
  rw [this]
  have hne : ¬ (1000 = 1 + i) := by omega
  simp [alook, hne]

/-- the 1000th `run` executes a statement prepared on DB 2 with shape 7; it wanted DB 1, shape 3 -/
theorem holdsC09_model_counterexample :
    holdsC09 (modelExecs l5s_clashHistory) = false ∧ l5s_fresh l5s_clashHistory = false ∧
      (modelExecs l5s_clashHistory).map (fun e => (e.ds, e.db, e.shape, e.wantDb, e.wantShape)) = [(1, 2, 7, 1, 3)] := by
  unfold modelExecs
  rw [l5s_clash_run]
  decide +kernel

/-! ### C11: a Query that is kept keeps its Statement and its DB alive

  `closeOut h` (drop every handle, collect) does not release everything when a Query was built
  and never run: the Query references its Statement and its DB, so neither finalizer runs.

  Judgement: the model is right (so is Go: the harness would still hold the `*Query`), the
  predicate is right, the history is not one the harness generates - its generator runs
  every pending Query before the final drop-and-collect.  `holdsC11_model` is therefore
  stated for `closeOutQ` (which runs the pending Queries first), and for `closeOut` under the
  hypothesis that nothing is pending. -/

theorem closeOut_pending_counterexample :
    let st := (runHistory (closeOut [.newS, .newD, .run 1 1 2, .mkq 1 1 1 2]) {} 0 [] 1).1
    l5s_prepared st.log 1 = true ∧ l5s_closes st.log 1 = 0 ∧ st.pairs = [(1, 1, 2)] ∧
      l5s_pending st = true ∧
      holdsC11 (l5s_doubleClose st) (l5s_openStmts st) st.pairs.length 1 true st.pairs.length = false := by
  decide +kernel

/-! ### remarks (not failures of a predicate on the model's observation) -/

/-- the general clause of C11 (open statements ≤ cached pairs) is false *before* a collection:
    an evicted statement stays open until its finalizer has run.  The harness evaluates it
    after the final `gc` of a history, where it holds in this example -/
example :
    let st := (runHistory [.newS, .newD, .run 1 1 2, .run 1 1 3] {} 0 [] 1).1
    let st' := (runHistory [.newS, .newD, .run 1 1 2, .run 1 1 3, .gc] {} 0 [] 1).1
    holdsC11 (l5s_doubleClose st) (l5s_openStmts st) st.pairs.length 1 false st.pairs.length = false ∧
    holdsC11 (l5s_doubleClose st') (l5s_openStmts st') st'.pairs.length 1 false st'.pairs.length = true := by
  decide +kernel

/-- a Query id that is built twice with other parameters: the model ignores the second `mkq`
    (operation id in use), so the wanted pair of `runq 1` is that of the first; a harness
    that rebuilt the Query would run shape 3 and disagree with the model on the driver log
    (an `agree = false`, not a failure of C09).  The generator builds each id once -/
example :
    (runHistory [.newS, .newD, .mkq 1 1 1 2, .mkq 1 1 1 3, .runq 1] {} 0 [] 1).1.log = [.prepare 1 1 2, .exec 1 1 2] ∧
    holdsC09 (modelExecs [.newS, .newD, .mkq 1 1 1 2, .mkq 1 1 1 3, .runq 1]) = true := by
  decide +kernel

end Sqlair.Cache
