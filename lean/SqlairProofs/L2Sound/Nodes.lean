/-
  L2Sound/Nodes: node `i` of a prepared statement and typed expression `i` are related by one
  successful `bindSeg` step (`L2sStep`); what that step produces for bypass, member, slice
  and `(cols) VALUES (…)` nodes.
-/
import SqlairProofs.E2E.Nodes

namespace Sqlair

/-- `e` is the typed expression some successful `bindSeg` step appends for the node `s` -/
def L2sStep (s : OSeg) (e : TExpr) : Prop :=
  ∃ st1 st2, bindSeg st1 s = .ok st2 ∧ st2.exprs = st1.exprs ++ [e]

theorem l2s_bindSegs_steps : ∀ (segs : List OSeg) (st st' : TEB), bindSegs st segs = .ok st' →
    ∃ new, st'.exprs = st.exprs ++ new ∧ Corr L2sStep segs new := by
  intro segs
  induction segs with
  | nil => intro st st' h; simp only [bindSegs] at h; cases h; exact ⟨[], by simp, .nil⟩
  | cons s rest ih =>
    intro st st' h
    simp only [bindSegs] at h
    split at h
    · cases h
    · rename_i st1 hs
      obtain ⟨e, he, _⟩ := bindSeg_expr hs
      obtain ⟨new, hnew, hc⟩ := ih _ _ h
      exact ⟨e :: new, by rw [hnew, he]; simp, .cons ⟨st, st1, hs, he⟩ hc⟩

/-- `bindTypes`: node `i` and typed expression `i` are related by a `bindSeg` step -/
theorem l2s_bindTypes_steps {C : Cls} {tt : TypeTable} {segs : List OSeg} {samples : List (Option Nat)}
    {tes : List TExpr} (h : bindTypes C tt segs samples = .ok tes) : Corr L2sStep segs tes := by
  obtain ⟨infos, st, _, hs, _, rfl⟩ := bindTypes_ok_unfold h
  obtain ⟨new, hnew, hc⟩ := l2s_bindSegs_steps _ _ _ hs
  simp only [List.nil_append] at hnew
  rw [hnew]; exact hc

theorem Corr.l2s_cons_inv {α β : Type} {R : α → β → Prop} {a : α} {l : List α} {l' : List β}
    (h : Corr R (a :: l) l') : ∃ b l'', l' = b :: l'' ∧ R a b ∧ Corr R l l'' := by
  cases l' with
  | nil => have := h.1; simp at this
  | cons b l'' =>
    refine ⟨b, l'', rfl, ?_, ?_, ?_⟩
    · obtain ⟨b', hb', hr⟩ := h.2 0 a (by simp)
      simp at hb'; subst hb'; exact hr
    · have := h.1; simpa using this
    · intro i x hx
      have := h.2 (i + 1) x (by simpa using hx)
      simpa using this

theorem Corr.l2s_mem {α β : Type} {R : α → β → Prop} {l : List α} {l' : List β} (h : Corr R l l')
    {a : α} (ha : a ∈ l) : ∃ b ∈ l', R a b := by
  obtain ⟨i, hi, rfl⟩ := List.getElem_of_mem ha
  obtain ⟨b, hb, hr⟩ := h.2 i l[i] (List.getElem?_eq_getElem hi)
  exact ⟨b, List.mem_of_getElem? hb, hr⟩

/-! ### the step of each node kind -/

theorem l2s_step_bypass {s : OSeg} {e : TExpr} (h : L2sStep s e) (hk : s.kind = .bypass) :
    e = .bypass s.raw := by
  obtain ⟨st1, st2, hs, he⟩ := h
  unfold bindSeg at hs
  rw [hk] at hs
  simp only at hs
  cases hs
  simp only [TEB.add] at he
  have := List.append_cancel_left he
  simpa using this.symm

/-- a member node `$T.m` is bound to an input expression whose locator is not a slice locator -/
theorem l2s_step_member {s : OSeg} {e : TExpr} (h : L2sStep s e) (hk : s.kind = .member) :
    ∃ l, e = .input l ∧ l.nonSlice := by
  obtain ⟨st1, st2, hs, he⟩ := h
  unfold bindSeg at hs
  rw [hk] at hs
  simp only at hs
  split at hs
  · split at hs
    · cases hs
    · rename_i l st' ha
      cases hs
      obtain ⟨hl, hex, _⟩ := inputMember_ok ha
      simp only [TEB.add] at he
      rw [hex] at he
      have := List.append_cancel_left he
      exact ⟨l, by simpa using this.symm, hl⟩
  · cases hs

theorem l2s_step_slice {s : OSeg} {e : TExpr} (h : L2sStep s e) (hk : s.kind = .slice) :
    ∃ l, e = .input l := by
  obtain ⟨st1, st2, hs, he⟩ := h
  obtain ⟨e', he', hn⟩ := bindSeg_expr hs
  rw [he] at he'
  have := List.append_cancel_left he'
  simp only [List.cons.injEq, and_true] at this
  subst this
  unfold NodeExpr at hn
  rw [hk] at hn
  exact hn

theorem l2s_basicInsertCols_lits : ∀ (ps : List (Col × Val)) (st st' : TEB) (acc cols : List TCol),
    basicInsertCols st ps acc = .ok (cols, st') →
    (∀ c ∈ acc, c ∈ cols) ∧ ∀ c t, (c, Val.lit t) ∈ ps → TCol.literal c.column t ∈ cols := by
  intro ps
  induction ps with
  | nil =>
    intro st st' acc cols h
    simp only [basicInsertCols] at h
    cases h
    exact ⟨fun c hc => hc, fun c t hm => by cases hm⟩
  | cons p rest ih =>
    intro st st' acc cols h
    obtain ⟨c, v⟩ := p
    simp only [basicInsertCols] at h
    split at h
    · rename_i t
      obtain ⟨h1, h2⟩ := ih _ _ _ _ h
      refine ⟨fun x hx => h1 x (List.mem_append_left _ hx), ?_⟩
      intro c' t' hm
      rcases List.mem_cons.1 hm with heq | hm
      · cases heq
        exact h1 _ (by simp)
      · exact h2 c' t' hm
    · split at h
      · cases h
      · rename_i a l st1 ha
        obtain ⟨h1, h2⟩ := ih _ _ _ _ h
        refine ⟨fun x hx => h1 x (List.mem_append_left _ hx), ?_⟩
        intro c' t' hm
        rcases List.mem_cons.1 hm with heq | hm
        · cases heq
        · exact h2 c' t' hm

/-- a `(cols) VALUES (…)` node is bound to an insert expression that has one literal column
    for every literal value of the node, with the literal text unchanged -/
theorem l2s_step_basicInsert {s : OSeg} {e : TExpr} (h : L2sStep s e) (hk : s.kind = .basicInsert) :
    ∃ cols, e = .insert cols ∧ ∀ b, Val.lit b ∈ s.vals → ∃ c, TCol.literal c b ∈ cols := by
  obtain ⟨st1, st2, hs, he⟩ := h
  unfold bindSeg at hs
  rw [hk] at hs
  simp only at hs
  split at hs
  · cases hs
  · rename_i hlen
    split at hs
    · cases hs
    · rename_i cols st' hb
      cases hs
      have hex := (basicInsertCols_ok _ _ _ _ _ hb .nil).2.1
      simp only [TEB.add] at he
      rw [hex] at he
      have := List.append_cancel_left he
      refine ⟨cols, by simpa using this.symm, ?_⟩
      intro b hbv
      have hlen' : s.cols.length = s.vals.length := by simpa using hlen
      obtain ⟨i, hi, hvi⟩ := List.getElem_of_mem hbv
      have hic : i < s.cols.length := by omega
      refine ⟨s.cols[i].column, (l2s_basicInsertCols_lits _ _ _ _ _ hb).2 s.cols[i] b ?_⟩
      rw [List.mem_iff_getElem]
      exact ⟨i, by simp; omega, by simp [hvi]⟩

end Sqlair
