/-
  Typed/Node: `bindSeg` accepts a node iff the node is `NodeOK`, and how the builder state
  grows (C07, part 2).
-/
import SqlairProofs.Typed.ColInsert

namespace Sqlair

/-! ### counting asterisks -/

theorem starCountCols_eq_zero_iff (cs : List Col) : starCountCols cs = 0 ↔ ∀ c ∈ cs, c.column ≠ star := by
  unfold starCountCols
  rw [List.length_eq_zero_iff, List.filter_eq_nil_iff]
  simp

theorem starCountTypes_eq_zero_iff (ts : List Acc) : starCountTypes ts = 0 ↔ ∀ t ∈ ts, t.member ≠ star := by
  unfold starCountTypes
  rw [List.length_eq_zero_iff, List.filter_eq_nil_iff]
  simp

theorem starCountTypes_pos_iff (ts : List Acc) : starCountTypes ts > 0 ↔ ∃ t ∈ ts, t.member = star := by
  have := starCountTypes_eq_zero_iff ts
  constructor
  · intro h
    apply Classical.byContradiction
    intro hn
    have : starCountTypes ts = 0 := this.2 (fun t ht he => hn ⟨t, ht, he⟩)
    omega
  · rintro ⟨t, ht, he⟩
    apply Classical.byContradiction
    intro hn
    exact this.1 (by omega) t ht he

theorem starCountCols_le_length (cs : List Col) : starCountCols cs ≤ cs.length := List.length_filter_le _ _
theorem starCountTypes_le_length (ts : List Acc) : starCountTypes ts ≤ ts.length := List.length_filter_le _ _

/-- the condition of the generating form -/
theorem genForm_iff (cs : List Col) :
    (cs.length == 0 || (cs.length == 1 && starCountCols cs == 1)) = true ↔
      (cs = [] ∨ ∃ c, cs = [c] ∧ c.column = star) := by
  cases cs with
  | nil => simp
  | cons c rest =>
    cases rest with
    | nil =>
      by_cases h : c.column = star
      · simp [starCountCols, h]
      · have : (c.column == star) = false := by simpa using h
        simp [starCountCols, h, this]
    | cons c2 r2 => simp

/-- explicit columns: none is an asterisk -/
def ExplicitCols (cs : List Col) : Prop := cs ≠ [] ∧ ∀ c ∈ cs, c.column ≠ star

theorem explicitCols_iff {cs : List Col}
    (h1 : ¬ (cs.length == 0 || (cs.length == 1 && starCountCols cs == 1)) = true) :
    (decide (cs.length > 1) && decide (starCountCols cs > 0)) = true ↔ ¬ ExplicitCols cs := by
  unfold ExplicitCols
  rw [← starCountCols_eq_zero_iff]
  have hle := starCountCols_le_length cs
  have hne : cs ≠ [] := by intro h; subst h; simp at h1
  have hlen : cs.length ≠ 0 := by simpa using hne
  simp only [Bool.or_eq_true, beq_iff_eq, Bool.and_eq_true, not_or, not_and] at h1
  simp only [Bool.and_eq_true, decide_eq_true_eq, hne, ne_eq, not_false_eq_true, true_and]
  constructor
  · intro h; omega
  · intro h
    have := h1.2
    omega

theorem not_explicit_of_gen {cs : List Col} (h : cs = [] ∨ ∃ c, cs = [c] ∧ c.column = star) :
    ¬ ExplicitCols cs := by
  rintro ⟨h1, h2⟩
  rcases h with h | ⟨c, rfl, hc⟩
  · exact h1 h
  · exact h2 c (by simp) hc

theorem intoStarTypes_iff (ts : List Acc) :
    (starCountTypes ts == 1 && ts.length == 1) = true ↔ (ts.length = 1 ∧ ∀ t ∈ ts, t.member = star) := by
  cases ts with
  | nil => simp
  | cons t rest =>
    cases rest with
    | nil =>
      by_cases h : t.member = star
      · simp [starCountTypes, h]
      · have : (t.member == star) = false := by simpa using h
        simp [starCountTypes, h, this]
    | cons t2 r2 => simp

/-! ### generic shape of the last step of `bindSeg` -/

/-- the last step of `bindSeg` (`match x with | .error e => .error e | .ok (r, st) => .ok (st.add …)`)
    succeeds iff `x` does: `h1 : (∃ r, x = .ok r) ↔ Q` proves `(∃ st', (match x …) = .ok st') ↔ Q` -/
macro "finish_iff " h:ident : tactic =>
  `(tactic| (split <;> (rename_i hx; rw [hx] at $h:ident; simpa using $h:ident)))

/-- … and its state effect: `h2 : ∀ r st1, x = .ok (r, st1) → Grows …` and
    `h : (match x …) = .ok st'` prove `Grows st st' …` -/
macro "finish_grows " h:ident h2:ident : tactic =>
  `(tactic| (split at $h:ident
             · rename_i hq hh; cases hh
             · rename_i hq hh; cases hh; exact ($h2:ident _ _ hq).add _))

/-! ### the node kinds -/

section
variable (st : TEB) (s : OSeg)

theorem bindSeg_bypass (hk : s.kind = .bypass) :
    ((∃ st', bindSeg st s = .ok st') ↔ NodeOK st.argInfos st.outputUsed s) ∧
    ∀ st', bindSeg st s = .ok st' → Grows st st' (nodeTypes s) (nodeDests st.argInfos s) := by
  unfold bindSeg NodeOK nodeTypes nodeDests
  simp only [hk, Except.ok.injEq, exists_eq', true_and]
  rintro st' rfl
  exact (Grows.refl st).add _

theorem bindSeg_member (hk : s.kind = .member) :
    ((∃ st', bindSeg st s = .ok st') ↔ NodeOK st.argInfos st.outputUsed s) ∧
    ∀ st', bindSeg st s = .ok st' → Grows st st' (nodeTypes s) (nodeDests st.argInfos s) := by
  unfold bindSeg NodeOK nodeTypes nodeDests
  simp only [hk]
  cases hts : s.types with
  | nil => simp
  | cons a rest =>
    cases rest with
    | cons b r2 => simp
    | nil =>
      simp only [List.cons.injEq, and_true, exists_eq_left', List.map_cons, List.map_nil]
      refine ⟨?_, ?_⟩
      · have h1 := inputMember_ok_iff (st := st) (T := a.ty) (m := a.member)
        finish_iff h1
      · intro st' h
        have h2 : ∀ r st1, inputMember st a.ty a.member = .ok (r, st1) → Grows st st1 [a.ty] [] := fun r st1 hx => inputMember_grows hx
        finish_grows h h2

theorem getSlice_ok_iff {ai : ArgInfo} : (∃ l, ai.getSlice = .ok l) ↔ ∃ tid n, ai = .slice tid n := by
  cases ai <;> simp [ArgInfo.getSlice]

theorem bindSeg_slice (hk : s.kind = .slice) :
    ((∃ st', bindSeg st s = .ok st') ↔ NodeOK st.argInfos st.outputUsed s) ∧
    ∀ st', bindSeg st s = .ok st' → Grows st st' (nodeTypes s) (nodeDests st.argInfos s) := by
  unfold bindSeg NodeOK nodeTypes nodeDests
  simp only [hk]
  cases hts : s.types with
  | nil => simp
  | cons a rest =>
    cases rest with
    | cons b r2 => simp
    | nil =>
      simp only [List.cons.injEq, and_true, exists_eq_left', List.map_cons, List.map_nil]
      rw [getArg_eq]
      cases hl : lookupInfo st.argInfos a.ty with
      | none => simp
      | some ai =>
        simp only [Option.some.injEq]
        have := getSlice_ok_iff (ai := ai)
        cases hg : ai.getSlice with
        | error e =>
          rw [hg] at this
          simp only [reduceCtorEq, exists_false, false_iff, false_imp_iff, implies_true, and_true]
          simpa using this
        | ok l =>
          rw [hg] at this
          simp only [Except.ok.injEq, exists_eq', true_iff] at this ⊢
          refine ⟨this, ?_⟩
          rintro st' rfl
          exact (Grows.use st a.ty).add _

theorem bindSeg_astInsert (hk : s.kind = .astInsert) :
    ((∃ st', bindSeg st s = .ok st') ↔ NodeOK st.argInfos st.outputUsed s) ∧
    ∀ st', bindSeg st s = .ok st' → Grows st st' (nodeTypes s) (nodeDests st.argInfos s) := by
  unfold bindSeg NodeOK nodeTypes nodeDests
  simp only [hk]
  obtain ⟨h1, h2⟩ := astInsertCols_spec s.types st []
  refine ⟨?_, ?_⟩
  · finish_iff h1
  · intro st' h
    finish_grows h h2

theorem pairAccs_zip {cs : List Col} {vs : List Val} (h : cs.length = vs.length) :
    pairAccs (cs.zip vs) = vs.filterMap fun v => match v with | .acc a => some a | .lit _ => none := by
  have : pairAccs (cs.zip vs) = ((cs.zip vs).map Prod.snd).filterMap
      fun v => match v with | .acc a => some a | .lit _ => none := by
    unfold pairAccs; rw [List.filterMap_map]; rfl
  rw [this, List.map_snd_zip (by omega)]

theorem bindSeg_basicInsert (hk : s.kind = .basicInsert) :
    ((∃ st', bindSeg st s = .ok st') ↔ NodeOK st.argInfos st.outputUsed s) ∧
    ∀ st', bindSeg st s = .ok st' → Grows st st' (nodeTypes s) (nodeDests st.argInfos s) := by
  unfold bindSeg NodeOK nodeTypes nodeDests
  simp only [hk]
  by_cases hlen : s.cols.length = s.vals.length
  · have hne : (s.cols.length != s.vals.length) = false := by simpa using hlen
    simp only [hne, Bool.false_eq_true, if_false]
    rw [and_iff_right hlen]
    obtain ⟨h1, h2⟩ := basicInsertCols_spec (s.cols.zip s.vals) st []
    rw [pairAccs_zip hlen] at h1 h2
    replace h1 : (∃ r, basicInsertCols st (s.cols.zip s.vals) [] = .ok r) ↔
        ∀ a ∈ s.valAccs, MemberOK st.argInfos a.ty a.member := h1
    replace h2 : ∀ r st', basicInsertCols st (s.cols.zip s.vals) [] = .ok (r, st') →
        Grows st st' (s.valAccs.map (·.ty)) [] := h2
    refine ⟨?_, ?_⟩
    · finish_iff h1
    · intro st' h
      finish_grows h h2
  · have hne : (s.cols.length != s.vals.length) = true := by simpa using hlen
    simp [hne, hlen]

theorem bindSeg_colInsert (hk : s.kind = .colInsert) :
    ((∃ st', bindSeg st s = .ok st') ↔ NodeOK st.argInfos st.outputUsed s) ∧
    ∀ st', bindSeg st s = .ok st' → Grows st st' (nodeTypes s) (nodeDests st.argInfos s) := by
  unfold bindSeg NodeOK nodeTypes nodeDests
  simp only [hk]
  obtain ⟨h1, h2⟩ := colInsertProviders_spec s.types st [] none (fun _ => [])
    (by intro p hp; cases hp) (by intro k; rfl)
  simp only [Option.isSome_none, Bool.false_eq_true, if_false, Nat.add_zero] at h1
  cases hp : colInsertProviders st s.types [] none with
  | error e =>
    rw [hp] at h1
    simp only [reduceCtorEq, exists_false, false_iff, not_and] at h1
    simp only [reduceCtorEq, exists_false, false_iff, false_imp_iff, implies_true, and_true, not_and]
    intro ha hm
    exact absurd hm (h1 ha)
  | ok r1 =>
    obtain ⟨⟨prov', rem'⟩, st1⟩ := r1
    rw [hp] at h1
    have h1' := h1.1 ⟨_, rfl⟩
    obtain ⟨hg, hne, hlen, hrem, hmap⟩ := h2 prov' rem' st1 hp
    simp only [true_and] at hrem
    obtain ⟨c1, c2⟩ := colInsertCols_spec prov' rem' hne s.cols st1 [] (by
      intro m hm
      rcases hmap m hm with h | h
      · rw [hg.infos]; exact h.1
      · cases h)
    simp only
    have hnil : ∀ k, provGet prov' k = [] ↔ providers st.argInfos s.types k = [] := by
      intro k
      rw [← List.length_eq_zero_iff, ← List.length_eq_zero_iff, hlen k]; rfl
    have hlen' : ∀ k, (provGet prov' k).length = (providers st.argInfos s.types k).length := hlen
    have c1' : (∃ r, colInsertCols prov' rem' st1 s.cols [] = .ok r) ↔
        ((∀ a ∈ s.types, SrcOK st.argInfos a) ∧ (starMaps st.argInfos s.types).length ≤ 1 ∧
          ∀ c ∈ s.cols, (providers st.argInfos s.types c.str).length = 1 ∨
            (providers st.argInfos s.types c.str = [] ∧ starMaps st.argInfos s.types ≠ [])) := by
      rw [c1]
      constructor
      · intro h
        refine ⟨h1'.1, h1'.2, ?_⟩
        intro c hc
        rcases h c hc with h | h
        · exact Or.inl (by rw [← hlen']; exact h)
        · exact Or.inr ⟨(hnil _).1 h.1, fun he => h.2 (hrem.2 he)⟩
      · intro h c hc
        rcases h.2.2 c hc with h | h
        · exact Or.inl (by rw [hlen']; exact h)
        · exact Or.inr ⟨(hnil _).2 h.1, fun he => h.2 (hrem.1 he)⟩
    have c2' : ∀ r st2, colInsertCols prov' rem' st1 s.cols [] = .ok (r, st2) →
        Grows st st2 (s.types.map (·.ty)) [] := by
      intro r st2 hx
      obtain ⟨d1, d2, d3⟩ := c2 r st2 hx
      refine ⟨d1.trans hg.infos, ?_, ?_⟩
      · intro n
        rw [d3 n, hg.used]
        constructor
        · rintro (h | h)
          · exact h
          · rcases hmap n h.2 with h' | h'
            · exact Or.inr h'.2
            · cases h'
        · intro h; exact Or.inl h
      · intro d; rw [d2, hg.outs]
    refine ⟨?_, ?_⟩
    · finish_iff c1'
    · intro st' h
      finish_grows h c2'

/-! ### output nodes -/

theorem flatMap_accDests_of_noStar (infos : List (Bytes × ArgInfo)) : ∀ (ts : List Acc),
    (∀ t ∈ ts, t.member ≠ star) →
    ts.flatMap (accDests infos) = ts.flatMap (fun t => memDests infos t.ty t.member) := by
  intro ts
  induction ts with
  | nil => intro _; rfl
  | cons t rest ih =>
    intro h
    rw [List.flatMap_cons, List.flatMap_cons, ih (fun t ht => h t (List.mem_cons_of_mem _ ht)),
      accDests_mem (h t (by simp))]

theorem bindSeg_output_spec (hk : s.kind = .output) :
    ((∃ st', bindSeg st s = .ok st') ↔ NodeOK st.argInfos st.outputUsed s) ∧
    ∀ st', bindSeg st s = .ok st' → Grows st st' (nodeTypes s) (nodeDests st.argInfos s) := by
  unfold bindSeg NodeOK nodeTypes
  simp only [hk]
  by_cases h1 : (s.cols.length == 0 || (s.cols.length == 1 && starCountCols s.cols == 1)) = true
  · -- generated columns
    simp only [h1, if_true]
    have hF := (genForm_iff s.cols).1 h1
    have hnE := not_explicit_of_gen hF
    have hnot : ¬ s.IntoStar := fun h => hnE ⟨h.1, h.2.1⟩
    have hd : nodeDests st.argInfos s = s.types.flatMap (accDests st.argInfos) := by
      simp [nodeDests, hk, hnot]
    have hform : OutputFormOK st.argInfos s ↔ ∀ t ∈ s.types, AccessorOK st.argInfos t := by
      unfold OutputFormOK
      constructor
      · rintro (h | h | h)
        · exact h.2
        · exact absurd h.1 hnot
        · exact absurd ⟨h.1, h.2.1⟩ hnE
      · intro h; exact Or.inl ⟨hF, h⟩
    rw [hd, hform]
    have g := fun pref => outGenerated_spec pref s.types st []
    refine ⟨?_, ?_⟩
    · split
      · rename_i hx
        constructor
        · rintro ⟨_, h⟩; cases h
        · intro hq
          obtain ⟨r, hr⟩ := (g _).1.2 hq
          exact absurd (hx.symm.trans hr) (by simp)
      · rename_i hx
        exact ⟨fun _ => (g _).1.1 ⟨_, hx⟩, fun _ => ⟨_, rfl⟩⟩
    · intro st' h
      split at h
      · cases h
      · rename_i hq; cases h; exact ((g _).2 _ _ hq).add _
  · simp only [h1, Bool.false_eq_true, if_false]
    have hnF : ¬ (s.cols = [] ∨ ∃ c, s.cols = [c] ∧ c.column = star) := fun h => h1 ((genForm_iff s.cols).2 h)
    by_cases h2 : (decide (s.cols.length > 1) && decide (starCountCols s.cols > 0)) = true
    · -- an asterisk among several columns
      simp only [h2, if_true, reduceCtorEq, exists_false, false_iff, false_imp_iff, implies_true, and_true,
        not_and]
      have hnE := (explicitCols_iff h1).1 h2
      intro hform
      exfalso
      rcases hform with h | h | h
      · exact hnF h.1
      · exact hnE ⟨h.1.1, h.1.2.1⟩
      · exact hnE ⟨h.1, h.2.1⟩
    · simp only [h2, Bool.false_eq_true, if_false]
      have hE : ExplicitCols s.cols := Classical.not_not.1 (fun h => h2 ((explicitCols_iff h1).2 h))
      by_cases h3 : (starCountTypes s.types == 1 && s.types.length == 1) = true
      · -- explicit columns into one asterisk type
        simp only [h3, if_true]
        have hT := (intoStarTypes_iff s.types).1 h3
        have hinto : s.IntoStar := ⟨hE.1, hE.2, hT.1, hT.2⟩
        have hd : nodeDests st.argInfos s =
            s.cols.flatMap (fun c => memDests st.argInfos (s.types.headD default).ty c.column) := by
          simp [nodeDests, hk, hinto]
        have hform : OutputFormOK st.argInfos s ↔
            ∀ c ∈ s.cols, MemberOK st.argInfos (s.types.headD default).ty c.column := by
          unfold OutputFormOK
          constructor
          · rintro (h | h | h)
            · exact absurd h.1 hnF
            · exact h.2
            · exfalso
              obtain ⟨t, ht⟩ : ∃ t, t ∈ s.types := by
                cases hts : s.types with
                | nil => rw [hts] at hT; simp at hT
                | cons t r => exact ⟨t, by simp⟩
              exact h.2.2.1 t ht (hT.2 t ht)
          · intro h; exact Or.inr (Or.inl ⟨hinto, h⟩)
        rw [hd, hform]
        obtain ⟨g1, g2⟩ := outIntoStar_spec (s.types.headD default).ty s.cols st []
        refine ⟨?_, ?_⟩
        · finish_iff g1
        · have g2' : ∀ r st1, outIntoStar (s.types.headD default).ty st s.cols [] = .ok (r, st1) →
              Grows st st1 (s.types.map (·.ty))
                (s.cols.flatMap (fun c => memDests st.argInfos (s.types.headD default).ty c.column)) := by
            intro r st1 hx
            refine (g2 r st1 hx).congr ?_ (fun _ => Iff.rfl)
            intro n
            cases hts : s.types with
            | nil => rw [hts] at hT; simp at hT
            | cons t r =>
              cases r with
              | cons t2 r2 => rw [hts] at hT; simp at hT
              | nil =>
                cases hcs : s.cols with
                | nil => exact absurd hcs hE.1
                | cons c cr =>
                  simp only [List.headD_cons, List.map_cons, List.map_nil, List.mem_cons, List.mem_map,
                    List.not_mem_nil, or_false]
                  constructor
                  · rintro (h | ⟨_, _, h⟩)
                    · exact h
                    · exact h.symm
                  · intro h; exact Or.inl h
          intro st' h
          finish_grows h g2'
      · simp only [h3, Bool.false_eq_true, if_false]
        have hnT : ¬ (s.types.length = 1 ∧ ∀ t ∈ s.types, t.member = star) :=
          fun h => h3 ((intoStarTypes_iff s.types).2 h)
        have hnot : ¬ s.IntoStar := fun h => hnT ⟨h.2.2.1, h.2.2.2⟩
        by_cases h4 : (decide (starCountTypes s.types > 0) && decide (s.types.length > 1)) = true
        · -- an asterisk among several types
          simp only [h4, if_true, reduceCtorEq, exists_false, false_iff, false_imp_iff, implies_true,
            and_true, not_and]
          simp only [Bool.and_eq_true, decide_eq_true_eq] at h4
          obtain ⟨t, ht, hst⟩ := (starCountTypes_pos_iff s.types).1 h4.1
          intro hform
          exfalso
          rcases hform with h | h | h
          · exact hnF h.1
          · exact hnot h.1
          · exact h.2.2.1 t ht hst
        · simp only [h4, Bool.false_eq_true, if_false]
          by_cases h5 : s.cols.length = s.types.length
          · -- pairwise
            have h5' : (s.cols.length == s.types.length) = true := by simpa using h5
            simp only [h5', if_true]
            have hlen0 : s.cols.length ≠ 0 := by simpa using hE.1
            have hns : ∀ t ∈ s.types, t.member ≠ star := by
              rw [← starCountTypes_eq_zero_iff]
              have hle := starCountTypes_le_length s.types
              simp only [Bool.and_eq_true, decide_eq_true_eq, not_and, beq_iff_eq] at h4 h3
              apply Classical.byContradiction
              intro hne
              have hpos : starCountTypes s.types > 0 := by omega
              have := h4 hpos
              have : s.types.length = 1 := by omega
              exact h3 (by omega) this
            have hd : nodeDests st.argInfos s =
                s.types.flatMap (fun t => memDests st.argInfos t.ty t.member) := by
              simp only [nodeDests, hk, hnot, if_false]
              exact flatMap_accDests_of_noStar _ _ hns
            have hform : OutputFormOK st.argInfos s ↔
                ∀ t ∈ s.types, MemberOK st.argInfos t.ty t.member := by
              unfold OutputFormOK
              constructor
              · rintro (h | h | h)
                · exact absurd h.1 hnF
                · exact absurd h.1 hnot
                · exact h.2.2.2.2
              · intro h; exact Or.inr (Or.inr ⟨hE.1, hE.2, hns, h5, h⟩)
            rw [hd, hform]
            obtain ⟨g1, g2⟩ := outPairwise_spec (s.cols.zip s.types) st []
            have hsnd : (s.cols.zip s.types).map Prod.snd = s.types := List.map_snd_zip (by omega)
            have e1 : (∀ p ∈ s.cols.zip s.types, MemberOK st.argInfos p.2.ty p.2.member) ↔
                ∀ t ∈ s.types, MemberOK st.argInfos t.ty t.member := by
              rw [← hsnd, List.forall_mem_map, hsnd]
            have e2 : (s.cols.zip s.types).flatMap (fun p => memDests st.argInfos p.2.ty p.2.member) =
                s.types.flatMap (fun t => memDests st.argInfos t.ty t.member) := by
              have := List.flatMap_map Prod.snd (fun t : Acc => memDests st.argInfos t.ty t.member) (s.cols.zip s.types)
              rw [hsnd] at this
              exact this.symm
            have e3 : (s.cols.zip s.types).map (·.2.ty) = s.types.map (·.ty) := by
              rw [← hsnd, List.map_map, hsnd]; rfl
            rw [e1, e2] at g1
            rw [e2, e3] at g2
            refine ⟨?_, ?_⟩
            · finish_iff g1
            · intro st' h
              finish_grows h g2
          · have h5' : (s.cols.length == s.types.length) = false := by simpa using h5
            simp only [h5', Bool.false_eq_true, if_false, reduceCtorEq, exists_false, false_iff,
              false_imp_iff, implies_true, and_true, not_and]
            intro hform
            exfalso
            rcases hform with h | h | h
            · exact hnF h.1
            · exact hnot h.1
            · exact h5 h.2.2.2.1

end

/-! ### all kinds -/

theorem bindSeg_spec (st : TEB) (s : OSeg) :
    ((∃ st', bindSeg st s = .ok st') ↔ NodeOK st.argInfos st.outputUsed s) ∧
    ∀ st', bindSeg st s = .ok st' → Grows st st' (nodeTypes s) (nodeDests st.argInfos s) := by
  cases hk : s.kind with
  | bypass => exact bindSeg_bypass st s hk
  | output => exact bindSeg_output_spec st s hk
  | member => exact bindSeg_member st s hk
  | slice => exact bindSeg_slice st s hk
  | astInsert => exact bindSeg_astInsert st s hk
  | colInsert => exact bindSeg_colInsert st s hk
  | basicInsert => exact bindSeg_basicInsert st s hk

end Sqlair
