/-
  Writes to pairwise distinct locations commute (up to the order of newly inserted map keys),
  hence the final store of a scan does not depend on the order of the columns.
-/
import SqlairProofs.Scan.Main

namespace Sqlair

/-! ### stores up to the order of map keys -/

/-- equality of destinations up to the order of the map keys (Go maps are unordered) -/
def DestEquiv (d e : Dest) : Prop :=
  d.form = e.form ∧ d.tid = e.tid ∧ d.fields = e.fields ∧ d.keys.Perm e.keys

/-- equality of stores up to the order of the map keys -/
def StoreEquiv (ds es : List Dest) : Prop :=
  ds.length = es.length ∧ ∀ (i : Nat) (d e : Dest), ds[i]? = some d → es[i]? = some e → DestEquiv d e

theorem DestEquiv.refl (d : Dest) : DestEquiv d d := ⟨rfl, rfl, rfl, List.Perm.refl _⟩

theorem DestEquiv.trans {a b c : Dest} (h1 : DestEquiv a b) (h2 : DestEquiv b c) : DestEquiv a c :=
  ⟨h1.1.trans h2.1, h1.2.1.trans h2.2.1, h1.2.2.1.trans h2.2.2.1, h1.2.2.2.trans h2.2.2.2⟩

theorem StoreEquiv.refl (ds : List Dest) : StoreEquiv ds ds := by
  refine ⟨rfl, ?_⟩
  intro i d e h1 h2
  rw [h1] at h2; cases h2
  exact DestEquiv.refl d

theorem StoreEquiv.of_eq {ds es : List Dest} (h : ds = es) : StoreEquiv ds es := h ▸ StoreEquiv.refl ds

theorem StoreEquiv.trans {as bs cs : List Dest} (h1 : StoreEquiv as bs) (h2 : StoreEquiv bs cs) :
    StoreEquiv as cs := by
  refine ⟨h1.1.trans h2.1, ?_⟩
  intro i a c ha hc
  have hi : i < bs.length := by
    rw [← h1.1]; exact (List.getElem?_eq_some_iff.mp ha).1
  exact (h1.2 i a bs[i] ha (List.getElem?_eq_getElem hi)).trans (h2.2 i bs[i] c (List.getElem?_eq_getElem hi) hc)

/-! ### writes respect the equivalence -/

theorem upd_equiv (w : Pending) {d e : Dest} (h : DestEquiv d e) : DestEquiv (w.upd d) (w.upd e) := by
  obtain ⟨h1, h2, h3, h4⟩ := h
  cases w with
  | field di i v =>
    refine ⟨h1, h2, ?_, h4⟩
    simp only [Pending.upd, setField, h3]
  | key di k v =>
    refine ⟨h1, h2, h3, ?_⟩
    simp only [Pending.upd, setKey]
    rw [h4.any_eq]
    split
    · exact h4.map _
    · exact h4.append_right _

theorem apply_equiv (w : Pending) {ds es : List Dest} (h : StoreEquiv ds es) :
    StoreEquiv (w.apply ds) (w.apply es) := by
  refine ⟨by rw [apply_length, apply_length, h.1], ?_⟩
  intro i d e hd he
  rw [apply_getElem?] at hd he
  cases hd0 : ds[i]? with
  | none => rw [hd0] at hd; cases hd
  | some d0 =>
    cases he0 : es[i]? with
    | none => rw [he0] at he; cases he
    | some e0 =>
      rw [hd0] at hd; rw [he0] at he
      simp only [Option.map_some, Option.some.injEq] at hd he
      subst hd; subst he
      have := h.2 i d0 e0 hd0 he0
      split
      · exact upd_equiv w this
      · exact this

theorem applyWrites_equiv (ws : List Pending) {ds es : List Dest} (h : StoreEquiv ds es) :
    StoreEquiv (applyWrites ds ws) (applyWrites es ws) := by
  induction ws generalizing ds es with
  | nil => exact h
  | cons w ws ih => exact ih (apply_equiv w h)

/-! ### commutation -/

private theorem any_map_other (L : List (Bytes × String)) {k k' : Bytes} (v : String) (h : k ≠ k') :
    (L.map fun p => if p.1 == k then (k, v) else p).any (·.1 == k') = L.any (·.1 == k') := by
  induction L with
  | nil => rfl
  | cons p rest ih =>
    simp only [List.map_cons, List.any_cons, ih]
    congr 1
    by_cases hp : p.1 = k
    · have e1 : (p.1 == k) = true := by simp [hp]
      rw [e1, if_pos rfl]
      have e2 : (k == k') = false := beq_false_of_ne h
      have e3 : (p.1 == k') = false := by rw [hp]; exact e2
      simp only [e2, e3]
    · have e1 : (p.1 == k) = false := beq_false_of_ne hp
      rw [e1]; simp

private theorem map_map_other (L : List (Bytes × String)) {k k' : Bytes} (v v' : String) (h : k ≠ k') :
    (L.map fun p => if p.1 == k then (k, v) else p).map (fun p => if p.1 == k' then (k', v') else p) =
    (L.map fun p => if p.1 == k' then (k', v') else p).map (fun p => if p.1 == k then (k, v) else p) := by
  simp only [List.map_map]
  apply List.map_congr_left
  intro p _
  simp only [Function.comp]
  have e2 : (k == k') = false := beq_false_of_ne h
  have e2' : (k' == k) = false := beq_false_of_ne (fun e => h e.symm)
  by_cases hp : p.1 = k
  · have e1 : (p.1 == k) = true := by simp [hp]
    have e3 : (p.1 == k') = false := by rw [hp]; exact e2
    simp [e1, e2, e3]
  · have e1 : (p.1 == k) = false := beq_false_of_ne hp
    by_cases hp' : p.1 = k'
    · have e3 : (p.1 == k') = true := by simp [hp']
      simp [e1, e3, e2']
    · have e3 : (p.1 == k') = false := beq_false_of_ne hp'
      simp [e1, e3]

theorem setKey_comm_equiv (d : Dest) {k k' : Bytes} (v v' : String) (h : k ≠ k') :
    DestEquiv (setKey (setKey d k v) k' v') (setKey (setKey d k' v') k v) := by
  refine ⟨rfl, rfl, rfl, ?_⟩
  have h' : k' ≠ k := fun e => h e.symm
  have e2 : (k == k') = false := beq_false_of_ne h
  have e2' : (k' == k) = false := beq_false_of_ne h'
  simp only [setKey]
  by_cases hA : d.keys.any (·.1 == k) = true
  · by_cases hB : d.keys.any (·.1 == k') = true
    · simp only [hA, hB, if_true, any_map_other _ _ h, any_map_other _ _ h']
      rw [map_map_other _ _ _ h]
    · simp only [hA, hB, if_true, any_map_other _ _ h, Bool.false_eq_true, if_false,
        List.any_append, List.any_cons, List.any_nil, e2', Bool.or_false, List.map_append, List.map_cons,
        List.map_nil]
      exact List.Perm.refl _
  · by_cases hB : d.keys.any (·.1 == k') = true
    · simp only [hA, hB, if_true, any_map_other _ _ h', Bool.false_eq_true, if_false,
        List.any_append, List.any_cons, List.any_nil, e2, Bool.or_false, List.map_append, List.map_cons,
        List.map_nil]
      exact List.Perm.refl _
    · simp only [hA, hB, Bool.false_eq_true, if_false, List.any_append, List.any_cons, List.any_nil, e2, e2',
        Bool.or_false, List.append_assoc]
      apply List.Perm.append_left
      exact List.Perm.swap _ _ _

theorem apply_comm_equiv_aux (ds : List Dest) (p q : Pending)
    (hupd : p.loc.1 = q.loc.1 → ∀ d, DestEquiv (q.upd (p.upd d)) (p.upd (q.upd d))) :
    StoreEquiv (q.apply (p.apply ds)) (p.apply (q.apply ds)) := by
  refine ⟨by simp only [apply_length], ?_⟩
  intro i d e hd he
  simp only [apply_getElem?, Option.map_map] at hd he
  cases hd0 : ds[i]? with
  | none => rw [hd0] at hd; cases hd
  | some d0 =>
    rw [hd0] at hd he
    simp only [Option.map_some, Function.comp, Option.some.injEq] at hd he
    subst hd; subst he
    by_cases hi : i = p.loc.1
    · by_cases hj : i = q.loc.1
      · rw [if_pos hj, if_pos hi, if_pos hi, if_pos hj]
        exact hupd (hi.symm.trans hj) d0
      · rw [if_neg hj, if_pos hi, if_pos hi, if_neg hj]
        exact DestEquiv.refl _
    · by_cases hj : i = q.loc.1
      · rw [if_pos hj, if_neg hi, if_neg hi, if_pos hj]
        exact DestEquiv.refl _
      · rw [if_neg hj, if_neg hi, if_neg hi, if_neg hj]
        exact DestEquiv.refl _

theorem apply_comm_equiv (ds : List Dest) (p q : Pending) (h : p.loc ≠ q.loc) :
    StoreEquiv (q.apply (p.apply ds)) (p.apply (q.apply ds)) := by
  by_cases hf : p.isField = true ∨ q.isField = true
  · exact StoreEquiv.of_eq (apply_comm ds p q h hf)
  · cases p with
    | field => simp [Pending.isField] at hf
    | key di k v =>
      cases q with
      | field => simp [Pending.isField] at hf
      | key dj k' v' =>
        apply apply_comm_equiv_aux
        intro hij d
        have hij' : di = dj := hij
        have hk : k ≠ k' := by
          intro e; apply h; rw [e, hij']; rfl
        exact setKey_comm_equiv d v v' hk

/-! ### permuting the writes -/

/-- writes at pairwise distinct locations can be performed in any order -/
theorem applyWrites_perm {ws ws' : List Pending} (hp : ws.Perm ws')
    (hd : ws.Pairwise (fun w w' => w.loc ≠ w'.loc)) {ds es : List Dest} (he : StoreEquiv ds es) :
    StoreEquiv (applyWrites ds ws) (applyWrites es ws') := by
  have hsymm : ∀ {x y : Pending}, x.loc ≠ y.loc → y.loc ≠ x.loc := fun h e => h e.symm
  induction hp generalizing ds es with
  | nil => exact he
  | cons x _ ih =>
    simp only [applyWrites_cons]
    exact ih (List.Pairwise.of_cons hd) (apply_equiv x he)
  | swap x y l =>
    simp only [applyWrites_cons]
    have hxy : y.loc ≠ x.loc := (List.pairwise_cons.mp hd).1 x List.mem_cons_self
    have h1 := apply_comm_equiv ds y x hxy
    have h2 := apply_equiv y (apply_equiv x he)
    exact applyWrites_equiv l (h1.trans h2)
  | trans p1 _ ih1 ih2 =>
    exact (ih1 hd (StoreEquiv.refl ds)).trans (ih2 ((p1.pairwise_iff hsymm).mp hd) he)

/-! ### all writes of a scan, up to order -/

theorem writesOf_perm (E : ScanEnv) (l : List (Target × DV)) : (writesOf E l).Perm (l.filterMap (awrite E)) := by
  unfold writesOf
  induction l with
  | nil => exact List.Perm.refl _
  | cons x rest ih =>
    simp only [List.filterMap_cons]
    cases hdir : x.1.isDirect with
    | true =>
      have e1 : dwrite E x = awrite E x := by simp [dwrite, hdir]
      have e2 : pwrite E x = none := by simp [pwrite, hdir]
      rw [e1, e2]
      cases awrite E x with
      | none => exact ih
      | some w => simp only [List.cons_append]; exact ih.cons w
    | false =>
      have e1 : dwrite E x = none := by simp [dwrite, hdir]
      have e2 : pwrite E x = awrite E x := by simp [pwrite, hdir]
      rw [e1, e2]
      cases awrite E x with
      | none => exact ih
      | some w => exact List.perm_middle.trans (ih.cons w)

theorem writesOf_congr_perm (E : ScanEnv) {l l' : List (Target × DV)} (h : l.Perm l') :
    (writesOf E l).Perm (writesOf E l') := by
  unfold writesOf
  exact (h.filterMap _).append (h.filterMap _)

/-- when no alias occurs twice, the writes of a scan go to pairwise distinct locations -/
theorem writesOf_pairwise {E : ScanEnv} {tt : TypeTable} {outputs : List Loc} {dests : List Dest}
    {m : List (Nat × Nat)} (hm : ValidMap dests m)
    (hdist : outputs.Pairwise (fun a b => a.sameMember b = false))
    {cv : List (Bytes × DV)} (hnodup : ((cv.map (·.1)).filterMap markerIndex).Nodup) :
    (writesOf E (tvs tt outputs dests m cv)).Pairwise (fun w w' => w.loc ≠ w'.loc) := by
  have hsymm : ∀ {x y : Pending}, x.loc ≠ y.loc → y.loc ≠ x.loc := fun h e => h e.symm
  rw [(writesOf_perm E _).pairwise_iff hsymm, List.pairwise_filterMap]
  unfold tvs
  rw [List.pairwise_map]
  unfold List.Nodup at hnodup
  rw [List.pairwise_filterMap, List.pairwise_map] at hnodup
  refine hnodup.imp ?_
  intro a a' hne w hw w' hw' e
  have h1 := (awrite_loc hw).1
  have h2 := (awrite_loc hw').1
  simp only [Prod.map_fst] at h1 h2
  obtain ⟨k, l, d, a1, a2, a3, a4, a5, _, _⟩ := tgt_loc_spec hm h1
  obtain ⟨k', l', d', b1, b2, b3, b4, b5, _, _⟩ := tgt_loc_spec hm h2
  rw [← e] at b3 b5
  rw [a3] at b3
  simp only [Option.some.injEq] at b3
  subst b3
  have hsm : l.sameMember l' = true := Loc.sameMember_of (a4.symm.trans b4) a5 b5
  have := pairwise_sameMember_inj hdist a2 b2 hsm
  exact hne k a1 k' b1 this

/-! ### the final store does not depend on the order of the columns -/

theorem scan_perm_core {E : ScanEnv} {tt : TypeTable} {outputs : List Loc} {cols cols' : List Bytes}
    {row row' : List DV} {dests dests' : List Dest}
    (hget : scanGet E tt outputs cols row dests = (dests', none))
    (hdist : outputs.Pairwise (fun a b => a.sameMember b = false))
    (hnodup : (cols.filterMap markerIndex).Nodup)
    (hperm : (cols.zip row).Perm (cols'.zip row'))
    (hlen' : cols'.length ≤ row'.length) :
    ∃ dests'', scanGet E tt outputs cols' row' dests = (dests'', none) ∧ StoreEquiv dests' dests'' := by
  obtain ⟨m, hv, hlen, hcols, hall, hused, hrow, htx, hfin⟩ := (scanGet_ok_unfold ..).mp hget
  have hm := validMap_of_ok hv
  have hc1 : (cols.zip row).map (·.1) = cols := List.map_fst_zip hrow
  have hc2 : (cols'.zip row').map (·.1) = cols' := List.map_fst_zip hlen'
  have hpc : cols.Perm cols' := by
    rw [← hc1, ← hc2]; exact hperm.map _
  have hpt : (tvs tt outputs dests m (cols.zip row)).Perm (tvs tt outputs dests m (cols'.zip row')) :=
    hperm.map _
  refine ⟨applyWrites dests (writesOf E (tvs tt outputs dests m (cols'.zip row'))), ?_, ?_⟩
  · rw [scanGet_ok_unfold]
    refine ⟨m, hv, by rw [← hpc.length_eq]; exact hlen, ?_, ?_, ?_, hlen', ?_, rfl⟩
    · intro c hc; exact hcols c (hpc.mem_iff.mpr hc)
    · intro k hk
      obtain ⟨c, hc, hmi⟩ := hall k hk
      exact ⟨c, hpc.mem_iff.mp hc, hmi⟩
    · intro p hp
      obtain ⟨c, hc, hl⟩ := hused p hp
      exact ⟨c, hpc.mem_iff.mp hc, hl⟩
    · intro tv htv; exact htx tv (hpt.mem_iff.mpr htv)
  · rw [hfin]
    apply applyWrites_perm (writesOf_congr_perm E hpt) _ (StoreEquiv.refl dests)
    apply writesOf_pairwise hm hdist
    rw [hc1]; exact hnodup

/-! ### with distinct keys, equivalent stores have the same content -/

theorem setKey_keys_nodup (d : Dest) (k : Bytes) (v : String) (h : (d.keys.map (·.1)).Nodup) :
    ((setKey d k v).keys.map (·.1)).Nodup := by
  simp only [setKey]
  split
  · have : (d.keys.map fun p => if p.1 == k then (k, v) else p).map (·.1) = d.keys.map (·.1) := by
      rw [List.map_map]
      apply List.map_congr_left
      intro p _
      simp only [Function.comp]
      by_cases hp : p.1 = k <;> simp [hp]
    rw [this]; exact h
  · rename_i hany
    rw [List.map_append, List.nodup_append]
    refine ⟨h, by simp, ?_⟩
    intro a ha b hb
    simp only [List.map_cons, List.map_nil, List.mem_singleton] at hb
    subst hb
    intro e; subst e
    apply hany
    rw [List.any_eq_true]
    obtain ⟨p, hp, hpe⟩ := List.mem_map.mp ha
    exact ⟨p, hp, by simp [hpe]⟩

theorem upd_keys_nodup (w : Pending) (d : Dest) (h : (d.keys.map (·.1)).Nodup) :
    ((w.upd d).keys.map (·.1)).Nodup := by
  cases w with
  | field => exact h
  | key di k v => exact setKey_keys_nodup d k v h

theorem applyWrites_keys_nodup (ws : List Pending) (ds : List Dest)
    (h : ∀ d ∈ ds, (d.keys.map (·.1)).Nodup) : ∀ d ∈ applyWrites ds ws, (d.keys.map (·.1)).Nodup := by
  induction ws generalizing ds with
  | nil => exact h
  | cons w ws ih =>
    rw [applyWrites_cons]
    apply ih
    intro d hd
    obtain ⟨i, hi, e⟩ := List.mem_iff_getElem.mp hd
    have := apply_getElem? ds w i
    rw [List.getElem?_eq_getElem hi, e] at this
    cases hd0 : ds[i]? with
    | none => rw [hd0] at this; cases this
    | some d0 =>
      rw [hd0] at this
      simp only [Option.map_some, Option.some.injEq] at this
      have hd0n := h d0 (List.mem_of_getElem? hd0)
      rw [this]
      split
      · exact upd_keys_nodup w d0 hd0n
      · exact hd0n

theorem find_of_mem_nodup {l : List (Bytes × String)} (h : (l.map (·.1)).Nodup) {p : Bytes × String} (hp : p ∈ l) :
    l.find? (·.1 == p.1) = some p := by
  cases hf : l.find? (·.1 == p.1) with
  | none =>
    rw [List.find?_eq_none] at hf
    exact absurd (by simp) (hf p hp)
  | some q =>
    have h1 := List.mem_of_find?_eq_some hf
    have h2 := List.find?_some hf
    simp only [beq_iff_eq] at h2
    rw [nodup_fst_inj h h1 hp h2]

theorem keyVal_perm {d e : Dest} (hp : d.keys.Perm e.keys) (hn : (d.keys.map (·.1)).Nodup) (k : Bytes) :
    d.keyVal k = e.keyVal k := by
  have hn' : (e.keys.map (·.1)).Nodup := (hp.map _).nodup_iff.mp hn
  unfold Dest.keyVal
  cases hf : d.keys.find? (·.1 == k) with
  | none =>
    cases hf' : e.keys.find? (·.1 == k) with
    | none => rfl
    | some q =>
      have h1 := hp.mem_iff.mpr (List.mem_of_find?_eq_some hf')
      have h2 := List.find?_some hf'
      rw [List.find?_eq_none] at hf
      exact absurd h2 (hf q h1)
  | some p =>
    have h1 := hp.mem_iff.mp (List.mem_of_find?_eq_some hf)
    have h2 := List.find?_some hf
    simp only [beq_iff_eq] at h2
    have := find_of_mem_nodup hn' h1
    rw [h2] at this
    rw [this]

end Sqlair
