/-
  Props/L2Rows: row faithfulness of an INSERT expansion (`holdsC04rows`, C04) against the model.

  `holdsC04rows C tt segs args o` (Spec/L2Rows.lean, used by the driver) finds the members of a
  row BY TAG (`valueByTag`, `tagsOfVal`); the model's bind finds them through the INDEX PATHS
  `getStructFields` computes (`fieldByIndex`).  Proved here, for ALL classifiers, type tables,
  statements and arguments:

  * `c04rows_row_by_tag` (complete): on a well-formed row of type `T` or `*T` on which
    `tagsOfVal` succeeds, the tags listed are the tags of the fields `getArgInfo` computes for
    `T`, in order, and `valueByTag … f.tag` is the value `fieldByIndex … f.index` reaches —
    under `embPtrOK tt` (no embedded pointer to a map or to a pointer);
  * `c04rows_grid_partial`: `holdsC04rows` accepts EVERY faithful rectangle (by-tag form);
  * `c04rows_paths_partial`: `holdsC04rows` accepts every observation whose values are, row by
    row, the texts the model's index paths reach, for a selection of the fields that is the
    written column list (`colInsert`) or a sublist of the sorted tags (`astInsert`).
    MISSING for the statement "true of `modelBindObs pq`": the bookkeeping of the bind layer
    that `pq.params`, for a statement whose only expression is that insert, IS this rectangle
    (`insParams`, `locateParams_field_rowVal`, `bindTypes_exprsI` are the ingredients; not
    assembled here), and the map rows (`$M.*`).  The examples below check the hypothesis on
    the model's own `pq` for concrete bulk inserts, so the theorem is applied to
    `modelBindObs pq`.

  FINDINGS (kernel-checked counterexamples, all on the model's own observation):
  * `holdsC04rows_model_counterexample`: DEFECT of the predicate.  For a table-qualified column
    `(t.k) VALUES ($M.*)` the library (and the model) looks the member `t.k` up (`Col.str`),
    the predicate looks `k` up (`col.column`): false alarm.  Fix: `colIs c col.str`.
  * `holdsC04rows_needs_embPtrOK`: DEFECT of `valueByTag` (Spec/L2.lean): it follows an embedded
    `*M` (pointer to a named map type, legal Go) into the map and takes a key for a tag; the
    library skips such a field.  Side condition `embPtrOK`.
  * `holdsC04rows_needs_valWF`: side condition, not a defect: on a value tree that no
    `reflect.Value` can have (a row of another struct type inside `[]T`) tags and paths differ.
  * no fuel condition is needed: `tagsOfVal … 8` fails (and the predicate is vacuous) whenever
    `valueByTag … 8` could run out of fuel (`valueByTag_none_of_not_mem` and `RowSpec`).
-/
import SqlairProofs.L2Rows.Rows
import SqlairProofs.L2Sound.Defs
import SqlairProofs.Props.Bind
import SqlairModel.Spec.L4Cancel

namespace Sqlair

/-! ## fixtures -/
namespace L2RowsEx

def C : Cls := PrepExample.C

/-- `type T struct { A string "a"; E; B string "b,omitempty" }`, `[]T`, `string`,
    `type E struct { X string "x" }`, `type M map[string]string`, `*M`,
    `type T2 struct { *M; A string "a" }`, `type U struct { B string "b"; A string "a" }` -/
def tt : TypeTable := #[
  { kind := .struct, kindStr := "struct", name := bs "T", fields := [
      { name := bs "A", tag := bs "a", exported := true, anon := false, ty := 2 },
      { name := bs "E", tag := #[], exported := true, anon := true, ty := 3 },
      { name := bs "B", tag := bs "b,omitempty", exported := true, anon := false, ty := 2 }] },
  { kind := .slice, kindStr := "slice", name := #[], elem := 0 },
  { kind := .string, kindStr := "string", name := #[] },
  { kind := .struct, kindStr := "struct", name := bs "E", fields := [
      { name := bs "X", tag := bs "x", exported := true, anon := false, ty := 2 }] },
  { kind := .map, kindStr := "map", name := bs "M", elem := 2, key := 2 },
  { kind := .ptr, kindStr := "ptr", name := #[], elem := 4 },
  { kind := .struct, kindStr := "struct", name := bs "T2", fields := [
      { name := bs "M", tag := #[], exported := true, anon := true, ty := 5 },
      { name := bs "A", tag := bs "a", exported := true, anon := false, ty := 2 }] },
  { kind := .struct, kindStr := "struct", name := bs "U", fields := [
      { name := bs "B", tag := bs "b", exported := true, anon := false, ty := 2 },
      { name := bs "A", tag := bs "a", exported := true, anon := false, ty := 2 }] } ]

/-- the same table without `T2` (so that `embPtrOK` holds) -/
def ttOK : TypeTable := tt.extract 0 6

def fa : SField := { name := bs "A", tag := bs "a", omitEmpty := false, index := [0] }
def fx : SField := { name := bs "X", tag := bs "x", omitEmpty := false, index := [1, 0] }
def fb : SField := { name := bs "B", tag := bs "b", omitEmpty := true, index := [2] }

def lf (s : String) : GoVal := .leaf { t := 2, zero := s == "", r := s }
def row (a x b : String) : GoVal :=
  .struct { t := 0, zero := false, r := "{T}" } [lf a, .struct { t := 3, zero := false, r := "{E}" } [lf x], lf b]
def bulk (rows : List GoVal) : GoVal := .slice { t := 1, zero := false, r := "[]T" } rows

def col (c : String) (t : String := "") : Col := { table := bs t, column := bs c, func := false }

/-- `INSERT INTO t (*) VALUES ($T.*)` -/
def segsAst : List OSeg := [
  { kind := .bypass, raw := bs "INSERT INTO t " },
  { kind := .astInsert, raw := bs "(*) VALUES ($T.*)", cols := [col "*"], types := [{ ty := bs "T", member := star }] } ]

/-- `INSERT INTO t (x, a) VALUES ($T.*)` -/
def segsCol : List OSeg := [
  { kind := .bypass, raw := bs "INSERT INTO t " },
  { kind := .colInsert, raw := bs "(x, a) VALUES ($T.*)", cols := [col "x", col "a"],
    types := [{ ty := bs "T", member := star }] } ]

def argFull : GoVal := bulk [row "a1" "x1" "b1", row "a2" "x2" "b2"]
def argOmit : GoVal := bulk [row "a1" "x1" "", row "a2" "x2" ""]

/-- what the model does: the observation of the run, if Prepare and Query succeed -/
def modelObs (tt : TypeTable) (segs : List OSeg) (samples : List (Option Nat)) (args : List GoVal) : Option BindObs :=
  match (runModel C tt segs samples args).bind with
  | .ok pq => some (modelBindObs pq)
  | .error _ => none

def obsOf (vals : List String) : BindObs :=
  { prepOk := true, bindOk := true, mode := "exec", events := 2,
    params := (List.range vals.length).zip vals |>.map fun (i, v) => (s!"sqlair_{i}", v) }

theorem info_T : getArgInfo C ttOK 0 = .ok (.struct 0 (bs "T") [fa, fx, fb] [bs "a", bs "b", bs "x"]) := by
  rfl

theorem rows_full : ∀ r ∈ rowsOfArg argFull, RowOf ttOK 0 r := by
  intro r hr
  simp only [rowsOfArg, argFull, bulk, List.mem_cons, List.not_mem_nil, or_false] at hr
  rcases hr with rfl | rfl <;> exact ⟨valWF_sound 8 _ (by decide +kernel), .inl rfl⟩

theorem rows_omit : ∀ r ∈ rowsOfArg argOmit, RowOf ttOK 0 r := by
  intro r hr
  simp only [rowsOfArg, argOmit, bulk, List.mem_cons, List.not_mem_nil, or_false] at hr
  rcases hr with rfl | rfl <;> exact ⟨valWF_sound 8 _ (by decide +kernel), .inl rfl⟩

end L2RowsEx

/-! ## C04, row level: members by tag are members by index path -/

/-- C04 (row level, complete).  Let `getArgInfo` compute `fields` for the struct type `T`, let
    `row` be a well-formed value (`ValWF`) of type `T` or a non-nil `*T`, and let no embedded
    pointer of the table point to a map or a pointer (`embPtrOK`).  If `tagsOfVal C tt 8 row`
    succeeds with `tags`, then `tags` are the tags of `fields` in the same order, and for every
    field `f` the search by tag `valueByTag C tt 8 row f.tag` finds exactly the value the
    index path reaches, `fieldByIndex (indirect row) f.index true`.  No bound on the embedding
    depth is needed: `tagsOfVal` fails when the fuel 8 does not cover it. -/
theorem c04rows_row_by_tag {C : Cls} {tt : TypeTable} {tid tid' : Nat} {n : Bytes} {fields : List SField}
    {stags : List Bytes} (hemb : embPtrOK tt = true)
    (hinfo : getArgInfo C tt tid = .ok (.struct tid' n fields stags))
    {row : GoVal} (hrow : RowOf tt tid row) {tags : List Bytes} (ht : tagsOfVal C tt 8 row = some tags) :
    tags = fields.map (·.tag) ∧
    ∀ f ∈ fields, ∃ fv, fieldByIndex (rowStruct row) f.index true = .ok fv ∧
      valueByTag C tt 8 row f.tag = some fv :=
  row_by_tag hemb hinfo hrow ht

/-- non-vacuity: the row `{A: a1, E{X: x1}, B: b1}`: three tags in field order, the embedded
    member `x` found by tag is the value at the path `[1, 0]` -/
example : tagsOfVal L2RowsEx.C L2RowsEx.ttOK 8 (L2RowsEx.row "a1" "x1" "b1") = some [bs "a", bs "x", bs "b"] ∧
    valueByTag L2RowsEx.C L2RowsEx.ttOK 8 (L2RowsEx.row "a1" "x1" "b1") (bs "x") = some (L2RowsEx.lf "x1") ∧
    fieldByIndex (L2RowsEx.row "a1" "x1" "b1") [1, 0] true = .ok (L2RowsEx.lf "x1") := by
  refine ⟨by decide +kernel, by rfl, by rfl⟩

example : ∃ fv, fieldByIndex (rowStruct (L2RowsEx.row "a1" "x1" "b1")) L2RowsEx.fx.index true = .ok fv ∧
    valueByTag L2RowsEx.C L2RowsEx.ttOK 8 (L2RowsEx.row "a1" "x1" "b1") L2RowsEx.fx.tag = some fv :=
  (c04rows_row_by_tag (by decide +kernel) L2RowsEx.info_T
    (L2RowsEx.rows_full _ (by simp [rowsOfArg, L2RowsEx.argFull, L2RowsEx.bulk]))
    (tags := [bs "a", bs "x", bs "b"]) (by decide +kernel)).2 L2RowsEx.fx (by simp)

/-! ## C04: the predicate accepts every faithful rectangle -/

/-- `holdsC04rows` accepts EVERY faithful rectangle: if the statement has one expression `s`
    with one source, and the values the driver received are, row by row (the rows of the single
    argument, `rowsOfArg`), the texts `g row t` of the members found by tag for a list of tags
    `colTags`, where `colTags` are the columns written in the statement (`colInsert`) or a
    sublist of the sorted tags of the first row (`astInsert`), the predicate is true. -/
theorem c04rows_grid_partial {C : Cls} {tt : TypeTable} {segs : List OSeg} {arg : GoVal} {o : BindObs}
    {s : OSeg} {a : Acc} {colTags : List Bytes} {g : GoVal → Bytes → String}
    (hsegs : segs.filter (·.kind != .bypass) = [s]) (htypes : s.types = [a])
    (hvals : o.params.map (·.2) = ((rowsOfArg arg).map fun row => colTags.map (g row)).flatten)
    (hg : ∀ row ∈ rowsOfArg arg, ∀ t ∈ colTags, ∃ fv, valueByTag C tt 8 row t = some fv ∧ fv.h.r = g row t)
    (hcols : (s.kind = .colInsert ∧ s.cols.map (·.column) = colTags) ∨
      (s.kind = .astInsert ∧ ∀ tags tl, (rowsOfArg arg).mapM (tagsOfVal C tt 8) = some (tags :: tl) →
        colTags.Sublist (sortBytes tags.eraseDups))) :
    holdsC04rows C tt segs [arg] o = true :=
  holdsC04rows_of_grid hsegs htypes hvals hg hcols

/-- C04 for struct rows, up to the bookkeeping of the bind layer (PARTIAL: see the header).
    `holdsC04rows` is true of every observation whose values are, row by row, the texts the
    MODEL's index paths reach (`fbiText row f.index`, i.e. `fieldByIndex`) for a selection
    `sel` of the fields `getArgInfo` computes for `T`, where `sel` is the written column list
    (`colInsert`: the tags of `sel` are the written columns) or, for `(*)`, any sublist of the
    sorted tags (the members not omitted); rows well formed, of type `T` or non-nil `*T`;
    `embPtrOK tt`. -/
theorem c04rows_paths_partial {C : Cls} {tt : TypeTable} {segs : List OSeg} {arg : GoVal} {o : BindObs}
    {s : OSeg} {a : Acc} {tid tid' : Nat} {n : Bytes} {fields : List SField} {stags : List Bytes}
    (hemb : embPtrOK tt = true)
    (hinfo : getArgInfo C tt tid = .ok (.struct tid' n fields stags))
    (hsegs : segs.filter (·.kind != .bypass) = [s]) (htypes : s.types = [a])
    (hrows : ∀ row ∈ rowsOfArg arg, RowOf tt tid row)
    (sel : List SField) (hsel : ∀ f ∈ sel, f ∈ fields)
    (hvals : o.params.map (·.2) = ((rowsOfArg arg).map fun row => sel.map fun f => fbiText row f.index).flatten)
    (hcols : (s.kind = .colInsert ∧ s.cols.map (·.column) = sel.map (·.tag)) ∨
      (s.kind = .astInsert ∧ (sel.map (·.tag)).Sublist stags)) :
    holdsC04rows C tt segs [arg] o = true :=
  holdsC04rows_of_paths hemb hinfo hsegs htypes hrows sel hsel hvals hcols

namespace L2RowsEx

/-- non-vacuity on the MODEL's observation, `(*) VALUES ($T.*)` with `[]T` of two rows: the
    model sends `a1 b1 x1 a2 b2 x2` (columns sorted by tag); the theorem applies with
    `sel = [a, b, x]` -/
example : (modelObs ttOK segsAst [some 0] [argFull]).map (·.params.map (·.2)) =
    some ["a1", "b1", "x1", "a2", "b2", "x2"] := by decide +kernel

example : ∀ o, modelObs ttOK segsAst [some 0] [argFull] = some o →
    holdsC04rows C ttOK segsAst [argFull] o = true := by
  intro o ho
  refine c04rows_paths_partial (by decide +kernel) info_T (s := segsAst[1]) (by decide +kernel) rfl rows_full
    [fa, fb, fx] (by simp) ?_ (.inr ⟨rfl, by decide +kernel⟩)
  have : (modelObs ttOK segsAst [some 0] [argFull]).map (·.params.map (·.2)) =
      some ["a1", "b1", "x1", "a2", "b2", "x2"] := by decide +kernel
  rw [ho] at this
  simp only [Option.map_some, Option.some.injEq] at this
  rw [this]
  decide +kernel

/-- the omitted member: `B` is zero in every row, the model sends `a1 x1 a2 x2`; the theorem
    applies with the sublist `sel = [a, x]` of the sorted tags -/
example : ∀ o, modelObs ttOK segsAst [some 0] [argOmit] = some o →
    holdsC04rows C ttOK segsAst [argOmit] o = true := by
  intro o ho
  refine c04rows_paths_partial (by decide +kernel) info_T (s := segsAst[1]) (by decide +kernel) rfl rows_omit
    [fa, fx] (by simp) ?_ (.inr ⟨rfl, by decide +kernel⟩)
  have : (modelObs ttOK segsAst [some 0] [argOmit]).map (·.params.map (·.2)) =
      some ["a1", "x1", "a2", "x2"] := by decide +kernel
  rw [ho] at this
  simp only [Option.map_some, Option.some.injEq] at this
  rw [this]
  decide +kernel

/-- `(x, a) VALUES ($T.*)`: the model sends `x1 a1 x2 a2`; `sel = [x, a]` -/
example : ∀ o, modelObs ttOK segsCol [some 0] [argFull] = some o →
    holdsC04rows C ttOK segsCol [argFull] o = true := by
  intro o ho
  refine c04rows_paths_partial (by decide +kernel) info_T (s := segsCol[1]) (by decide +kernel) rfl rows_full
    [fx, fa] (by simp) ?_ (.inl ⟨rfl, by decide +kernel⟩)
  have : (modelObs ttOK segsCol [some 0] [argFull]).map (·.params.map (·.2)) =
      some ["x1", "a1", "x2", "a2"] := by decide +kernel
  rw [ho] at this
  simp only [Option.map_some, Option.some.injEq] at this
  rw [this]
  decide +kernel

/-- the predicate evaluated directly on the three model observations -/
example : (modelObs ttOK segsAst [some 0] [argFull]).map (holdsC04rows C ttOK segsAst [argFull]) = some true ∧
    (modelObs ttOK segsAst [some 0] [argOmit]).map (holdsC04rows C ttOK segsAst [argOmit]) = some true ∧
    (modelObs ttOK segsCol [some 0] [argFull]).map (holdsC04rows C ttOK segsCol [argFull]) = some true := by
  decide +kernel

/-- the predicate is not trivially true: two values of a row exchanged, a row lost, rows
    exchanged, a column of another row, are all rejected -/
example : holdsC04rows C ttOK segsAst [argFull] (obsOf ["a1", "x1", "b1", "a2", "b2", "x2"]) = false := by
  decide +kernel
example : holdsC04rows C ttOK segsAst [argFull] (obsOf ["a1", "b1", "x1"]) = false := by decide +kernel
example : holdsC04rows C ttOK segsAst [argFull] (obsOf ["a2", "b2", "x2", "a1", "b1", "x1"]) = false := by
  decide +kernel
example : holdsC04rows C ttOK segsCol [argFull] (obsOf ["x1", "a1", "x2", "a1"]) = false := by decide +kernel
example : holdsC04rows C ttOK segsCol [argFull] (obsOf ["a1", "x1", "a2", "x2"]) = false := by decide +kernel
/-- … and the right ones are accepted -/
example : holdsC04rows C ttOK segsAst [argFull] (obsOf ["a1", "b1", "x1", "a2", "b2", "x2"]) = true := by
  decide +kernel

end L2RowsEx

/-! ## findings: the predicate is false of the model's own observation -/

namespace L2RowsEx

/-- `INSERT INTO t (t.k) VALUES ($M.*)`, the nodes the parser produces for it -/
def segsQual : List OSeg := [
  { kind := .bypass, raw := bs "INSERT INTO t " },
  { kind := .colInsert, raw := bs "(t.k) VALUES ($M.*)", cols := [col "k" "t"],
    types := [{ ty := bs "M", member := star }] } ]

def argMap : GoVal :=
  .map { t := 4, zero := false, r := "map" } (some [(bs "t.k", lf "qualified"), (bs "k", lf "plain")])

def pqQual : Primed :=
  { pieces := [.text (bs "INSERT INTO t "), .insert [bs "t.k"] [[.ph 0]]], params := [(0, "qualified")], outputs := [] }

def segsA : List OSeg := [
  { kind := .bypass, raw := bs "INSERT INTO t " },
  { kind := .colInsert, raw := bs "(a) VALUES ($T2.*)", cols := [col "a"],
    types := [{ ty := bs "T2", member := star }] } ]

def argT2 : GoVal :=
  .struct { t := 6, zero := false, r := "{T2}" }
    [.ptr { t := 5, zero := false, r := "&M" } (some (.map { t := 4, zero := false, r := "map" } (some [(bs "a", lf "from the map")]))),
     lf "from the field"]

def pqA : Primed :=
  { pieces := [.text (bs "INSERT INTO t "), .insert [bs "a"] [[.ph 0]]], params := [(0, "from the field")], outputs := [] }

/-- a `[]T` whose second element carries the type id of `U` (no `reflect.Value` is like that) -/
def argIll2 : GoVal :=
  .slice { t := 1, zero := false, r := "[]T" }
    [row "a1" "x1" "b1",
     .struct { t := 7, zero := false, r := "{U}" } [lf "u1", .struct { t := 3, zero := false, r := "{E}" } [lf "ux"], lf "u3"]]

end L2RowsEx

open L2RowsEx in
/-- FINDING, defect of `holdsC04rows`: a table-qualified column of a `colInsert`.  The parser
    yields the column `{table := t, column := k}` for `INSERT INTO t (t.k) VALUES ($M.*)`; the
    library and the model look the member `t.k` up (`Col.str`), the predicate the member `k`
    (`col.column`).  With the map `{"t.k": qualified, "k": plain}` the model's own observation
    is rejected; the same happens when the key `k` is absent.  (For struct rows: the tag
    `"t"."k"`.)  Repair: `colIs c col.str`.  `c04rows_paths_partial` avoids the defect through
    its hypothesis `s.cols.map (·.column) = sel.map (·.tag)`. -/
theorem holdsC04rows_model_counterexample :
    (∃ tes, bindTypes C tt segsQual [some 4] = .ok tes ∧ bindInputs tt tes [argMap] = .ok pqQual) ∧
    holdsC04rows C tt segsQual [argMap] (modelBindObs pqQual) = false ∧
    embPtrOK ttOK = true ∧ valWF tt 8 argMap = true := by
  refine ⟨⟨_, by rfl, by rfl⟩, by decide +kernel, by decide +kernel, by decide +kernel⟩

open L2RowsEx in
/-- FINDING, defect of `valueByTag` (side condition `embPtrOK`): `type T2 struct { *M; A string
    "a" }` with `type M map[string]string`.  The library skips the embedded `*M` (not a struct);
    `valueByTag` follows the pointer into the map and returns the value of the KEY `a`.  The
    model's observation (`from the field`) is rejected; the value is well formed. -/
theorem holdsC04rows_needs_embPtrOK :
    (∃ tes, bindTypes C tt segsA [some 6] = .ok tes ∧ bindInputs tt tes [argT2] = .ok pqA) ∧
    holdsC04rows C tt segsA [argT2] (modelBindObs pqA) = false ∧
    embPtrOK tt = false ∧ valWF tt 8 argT2 = true := by
  refine ⟨⟨_, by rfl, by rfl⟩, by decide +kernel, by decide +kernel, by decide +kernel⟩

open L2RowsEx in
/-- side condition `ValWF` (not a defect): a `[]T` whose second element carries the type id
    of `U {B "b"; A "a"}`: the model follows the index paths of `T` in it (and sends
    `x1 a1 ux u1`), the predicate searches the tags of `U`. -/
theorem holdsC04rows_needs_valWF :
    (L2RowsEx.modelObs ttOK segsCol [some 0] [argIll2]).map (·.params.map (·.2)) = some ["x1", "a1", "ux", "u1"] ∧
    (L2RowsEx.modelObs ttOK segsCol [some 0] [argIll2]).map (holdsC04rows C ttOK segsCol [argIll2]) = some false ∧
    embPtrOK ttOK = true ∧ valWF ttOK 8 argIll2 = false := by
  decide +kernel

/-! ## C14: `cancelReported` is true when the returns are the predicted ones -/

open Rt in
/-- `cancelReported` (Driver/Rt.lean, restated in Spec/L4Cancel.lean) cannot raise a false
    alarm on an implementation whose returns are the model's: if `o.returns = p.returns` it is
    true (when every predicted Close returns `ctx`, every observed Close does, and `ctx ≠ ""`) -/
theorem cancelReported_of_returns_eq (c : Case) (p : Pred) (o : Obs) (h : o.returns = p.returns) :
    cancelReported c p o = true := by
  unfold cancelReported
  split
  · rfl
  · simp only
    split
    · rfl
    · rename_i hw
      simp only [Bool.or_eq_true, Bool.not_eq_true', not_or, Bool.not_eq_false] at hw
      unfold closeResults
      rw [h]
      rw [List.all_eq_true] at hw ⊢
      intro r hr
      have := hw.2 r hr
      simp only [beq_iff_eq] at this
      subst this
      decide

namespace L2RowsEx
open Rt

def cancelCase : Case :=
  { hasOutputs := true, path := "db", ctx := "bg", nrows := 2, badRow := none, fetchErrAt := none,
    closeErr := false, prepareErr := false, runErr := false, txEnd := "", finishers := [], concurrent := 0,
    op := "iter", dests := "", calls := ["next", "close", "close"], cancelAt := some 1 }

def cancelPred : Pred := { returns := ["true", "ctx", "ctx"] }

def cancelObs (rs : List String) : Obs :=
  { returns := rs, events := [], eventCtx := [], eventConn := [], inUse := 0,
    openRows := 0, doubleClose := 0, closedUse := 0, stored := 0, priorKept := true, appended := [],
    outcome := "", finish := [], winners := 0 }

/-- non-vacuity: an `iter` case cancelled at step 1 whose two Close calls are predicted to
    return `ctx`: true on the predicted returns (by the theorem), false when a Close returns `""` -/
example : cancelReported cancelCase cancelPred (cancelObs ["true", "ctx", "ctx"]) = true :=
  cancelReported_of_returns_eq _ _ _ rfl

example : cancelReported cancelCase cancelPred (cancelObs ["true", "ctx", "ctx"]) = true ∧
    cancelReported cancelCase cancelPred (cancelObs ["true", "", "ctx"]) = false := by
  decide +kernel

end L2RowsEx

end Sqlair
