package main

// Pins (DESIGN §2.6): a normalised fingerprint of every function of the library, taken from
// the working tree on every run.  A fingerprint that differs from the committed table
// (harness/pins.json) never alarms: it tells the orchestrator which modelled functions were
// touched, so that the correspondence layers tied to them are run with a larger budget
// (change-directed amplification), and which functions exist in the source without an entry
// in the table (code the model does not know about).

import (
	"bytes"
	"crypto/sha256"
	"encoding/hex"
	"encoding/json"
	"go/ast"
	"go/parser"
	"go/printer"
	"go/token"
	"os"
	"path/filepath"
	"sort"
	"strings"
)

// pinDirs are the directories of the library (relative to the repository root).
var pinDirs = []string{".", "internal/expr", "internal/typeinfo"}

func recvName(fd *ast.FuncDecl) string {
	if fd.Recv == nil || len(fd.Recv.List) == 0 {
		return ""
	}
	t := fd.Recv.List[0].Type
	for {
		switch x := t.(type) {
		case *ast.StarExpr:
			t = x.X
			continue
		case *ast.IndexExpr:
			t = x.X
			continue
		case *ast.Ident:
			return x.Name
		}
		return "?"
	}
}

// printPins writes {"<file>:<Recv.>Name": "<hash>"} for every function of the library,
// build-tagged hook files and tests excluded.  The hash is over the function printed by
// go/printer without comments, so re-flowing comments or blank lines changes nothing.
func printPins(repo string) {
	pins := map[string]string{}
	for _, d := range pinDirs {
		ents, err := os.ReadDir(filepath.Join(repo, d))
		if err != nil {
			fail("%v", err)
		}
		for _, e := range ents {
			n := e.Name()
			if e.IsDir() || !strings.HasSuffix(n, ".go") || strings.HasSuffix(n, "_test.go") || strings.HasPrefix(n, "verif_") {
				continue
			}
			fset := token.NewFileSet()
			f, err := parser.ParseFile(fset, filepath.Join(repo, d, n), nil, 0)
			if err != nil {
				fail("%v", err)
			}
			for _, decl := range f.Decls {
				fd, ok := decl.(*ast.FuncDecl)
				if !ok {
					continue
				}
				fd.Doc = nil
				var buf bytes.Buffer
				if err := (&printer.Config{Mode: printer.RawFormat}).Fprint(&buf, fset, fd); err != nil {
					fail("%v", err)
				}
				// white space is not significant
				norm := strings.Join(strings.Fields(buf.String()), " ")
				h := sha256.Sum256([]byte(norm))
				key := filepath.ToSlash(filepath.Join(d, n)) + ":"
				if r := recvName(fd); r != "" {
					key += r + "."
				}
				key += fd.Name.Name
				pins[key] = hex.EncodeToString(h[:8])
			}
		}
	}
	keys := make([]string, 0, len(pins))
	for k := range pins {
		keys = append(keys, k)
	}
	sort.Strings(keys)
	out := make([][2]string, 0, len(keys))
	for _, k := range keys {
		out = append(out, [2]string{k, pins[k]})
	}
	b, _ := json.Marshal(out)
	os.Stdout.Write(append(b, '\n'))
}
