/-
  Spec/L4: cases and observations of the runtime layer, the model's prediction for a case,
  and the executable `holds` predicates of C12, C13, C14, C15, C20.
-/
import SqlairModel.Runtime
import SqlairModel.GetAllArgs

namespace Sqlair.Rt

def Err.render : Err → String
  | .inj n => s!"inj:{n}"
  | .noRows => "noRows"
  | .txDone => "txDone"
  | .ctx => "ctx"
  | .rowsClosed => "rowsClosed"
  | .scan => "scan"
  | .sqlair c => "sqlair:" ++ c
  | .wrapped e => "wrapped(" ++ e.render ++ ")"

def renderOpt : Option Err → String
  | none => ""
  | some e => e.render

def Ev.render : Ev → String
  | .prepare => "prepare" | .exec => "exec" | .query => "query" | .next => "next"
  | .rowsClose => "rowsClose" | .stmtClose => "stmtClose" | .begin => "begin"
  | .commit => "commit" | .rollback => "rollback"

/-- a generated case (mirrors the harness's l4Case) -/
structure Case where
  hasOutputs : Bool
  path : String
  ctx : String
  nrows : Nat
  badRow : Option Nat
  fetchErrAt : Option Nat
  closeErr : Bool
  prepareErr : Bool
  runErr : Bool
  txEnd : String
  finishers : List String
  concurrent : Nat
  op : String
  dests : String
  calls : List String
  cancelAt : Option Nat
  /-- "" | "live" | "cancelled": a preliminary Run() of the same Statement on the same DB/TX -/
  preCtx : String := ""
  extraSets : Nat := 0
  /-- the result set has fewer columns than the statement has outputs: every attempt to scan
      a row is refused (ScanArgs), nothing else changes -/
  fewCols : Bool := false
  /-- op = "pair": two goroutines run the same uncached Statement on one DB, each with its
      own context.  A (always Run) is held inside the driver's Prepare; B (`pairOp`, context
      `ctx`) starts while A is held; then A's context is cancelled / expires, or A's Prepare
      is released (`aEnd` = "cancel" | "deadline" | "release"). -/
  pairOp : String := ""
  aEnd : String := ""
  /-- the runs before the operation proper used another argument shape (other SQL): the
      statement cached by them is not the one the operation needs -/
  otherShape : Bool := false
  /-- the context given to Begin is cancelled after the operation; database/sql has rolled
      the transaction back before the finishers are called -/
  beginCancel : Bool := false
deriving Repr, Inhabited

def Case.onTx (c : Case) : Bool := c.path.startsWith "tx"
/-- cached when the operation proper starts: by the scenario, or because the preliminary
    run on the DB prepared and cached the statement -/
def Case.cached (c : Case) : Bool :=
  (c.path.endsWith "cached" || (c.path == "db" && c.preCtx == "live")) && !c.otherShape

/-- what the preliminary run returns: the context's error if it was cancelled (ErrTXDone
    first on the cached path of a finished transaction cannot occur: the TX is still open),
    otherwise success for a statement without outputs and ErrNoRows for one with outputs
    (the preliminary script has no rows) -/
def Case.preReturn (c : Case) : String :=
  if c.preCtx == "" then "" else
  if c.preCtx == "cancelled" then "ctx" else
  if c.hasOutputs then "noRows" else ""
def Case.ctxDone (c : Case) : Bool := c.ctx == "cancelled-before" || c.ctx == "cancelled-between" || c.ctx == "deadline"

def Case.fetch (c : Case) : List (Except Err Row) :=
  let rows := (List.range c.nrows).map fun i => (Except.ok { id := i + 1, scanOK := some i != c.badRow } : Except Err Row)
  match c.fetchErrAt with
  | none => rows
  | some k => rows.take k ++ [.error (.inj 3)]

def Case.script (c : Case) (txDone : Bool) : Script :=
  { hasOutputs := c.hasOutputs, cached := c.cached, onTx := c.onTx, txDone := txDone, ctxDone := c.ctxDone,
    prepareErr := if c.prepareErr then some (.inj 1) else none,
    runErr := if c.runErr then some (.inj 2) else none,
    fetch := c.fetch, closeErr := if c.closeErr then some (.inj 4) else none, result := 7 }

/-- what the model predicts for a case -/
structure Pred where
  returns : List String := []
  log : List Ev := []
  inUse : Nat := 0
  stored : Nat := 0
  appended : List Nat := []
  outcome : String := ""
  finish : List String := []
  /-- pair cases: the context-carrying driver calls made with A's / with B's context -/
  evA : List String := []
  evB : List String := []
deriving Repr, Inhabited

def ctxBearing (e : Ev) : Bool := e == .prepare || e == .exec || e == .query

/-- a pair case: the two operations are independent runs of an uncached statement, each
    under its own context; A's Prepare fails with its context's error unless released -/
def predictPair (c : Case) : Pred :=
  let base : Script := { hasOutputs := c.hasOutputs, cached := false, fetch := c.fetch, result := 7 }
  let sA : Script := { base with prepareErr := if c.aEnd == "release" then none else some .ctx }
  let (rA, wA) := queryGet sA {} {}
  let (errB, wB, stored, appended) : Option Err × World × Nat × List Nat :=
    match c.pairOp with
    | "getall" =>
      let (r, w) := queryGetAllArgs base [.ok] true {}
      (r.err, w, 0, r.appended)
    | "get" =>
      let (r, w) := queryGet base { dests := 1 } {}
      (r.err, w, r.stored.getD 0, [])
    | _ =>
      let (r, w) := queryGet base {} {}
      (r.err, w, 0, [])
  { returns := [renderOpt rA.err, renderOpt errB], inUse := wA.inUse + wB.inUse,
    stored := stored, appended := appended,
    evA := (wA.log.filter ctxBearing).map Ev.render, evB := (wB.log.filter ctxBearing).map Ev.render }

/-- run the finisher sequence -/
def runFinishers (fs : List String) (tx : TX) (w : World) : TX × World × List String :=
  fs.foldl (fun (acc : TX × World × List String) f =>
    let (tx, w, e) := acc.1.finish (f == "commit") none acc.2.1
    (tx, w, acc.2.2 ++ [renderOpt e])) (tx, w, [])

/-- the call sequence of an `iter` case -/
def runCalls (calls : List String) (cancelAt : Option Nat) : Nat → Iter → World → List String → Iter × World × List String
  | _, it, w, [] => (it, w, [])
  | i, it, w, call :: rest =>
    let (it, w) :=
      if cancelAt == some i then
        match it.rows with
        | some r => let (r, w) := r.cancel w; ({ it with rows := some r }, w)
        | none => (it, w)
      else (it, w)
    let (it, w, out) : Iter × World × String :=
      match call with
      | "next" => let (it, w, b) := it.next w; (it, w, toString b)
      | "close" => let (it, w, e) := it.close w; (it, w, renderOpt e)
      | _ =>
        let a : GetArgs := if call == "get" then .valid else if call == "getoutcome" then .outcome
          else if call == "getniloutcome" then .nilOutcome else .invalid
        match it.get a with
        | .row id => (it, w, s!"row:{id}")
        | .outcome none => (it, w, "outcome:nil")
        | .outcome (some n) => (it, w, s!"outcome:{n}")
        | .err e => (it, w, e.render)
    let (it, w, outs) := runCalls calls cancelAt (i + 1) it w rest
    (it, w, out :: outs)

def predict (c : Case) : Pred :=
  if c.op == "pair" then predictPair c else
  let w0 : World := if c.onTx then { log := [.begin], inUse := 1 } else {}
  let tx0 : TX := {}
  -- transaction finished before the query is created / between creation and run
  let early := c.onTx && (c.txEnd == "before-query" || c.txEnd == "between") && c.concurrent == 0
  let earlyConc := c.onTx && (c.txEnd == "before-query" || c.txEnd == "between") && c.concurrent > 0
  let (tx1, w1, fin1) := if early then runFinishers c.finishers tx0 w0 else (tx0, w0, [])
  -- concurrent finishers: exactly one reaches the driver; which one is not predicted
  let (tx1, w1) := if earlyConc then ({ done := true : TX }, { w1 with inUse := w1.inUse - 1 }) else (tx1, w1)
  let queryErr : Option Err := if c.onTx && c.txEnd == "before-query" then some .txDone else none
  let s := c.script tx1.done
  let (p, w2) : Pred × World :=
    match queryErr with
    | some e =>
      -- a Query carrying an error: every retrieval method returns it, nothing runs
      match c.op with
      | "iter" =>
        let it : Iter := { hasOutputs := c.hasOutputs, err := some e }
        let (_, w, outs) := runCalls c.calls c.cancelAt 0 it w1 c.calls
        ({ returns := outs }, w)
      | _ => ({ returns := [e.render], outcome := if c.dests.startsWith "outcome" then "nil" else "" }, w1)
    | none =>
      match c.op with
      | "run" =>
        let (r, w) := queryGet s {} w1
        ({ returns := [renderOpt r.err] }, w)
      | "get" =>
        let call : GetCall :=
          { outcome := c.dests.startsWith "outcome", nilOutcome := c.dests.startsWith "niloutcome",
            dests := if c.dests == "none" || c.dests == "outcome" then 0 else 1,
            destsValid := !(c.dests.endsWith "invalid") && !c.fewCols }
        let (r, w) := queryGet s call w1
        ({ returns := [renderOpt r.err], stored := r.stored.getD 0,
           outcome := if call.outcome then (match r.outcome with | some (some n) => s!"r:{n}" | _ => "nil") else "" }, w)
      | "getall" =>
        let args : List SliceArg :=
          if c.dests == "none" then [] else
          if c.dests == "nonptr" then [.notPointer] else
          if c.dests == "nilptr" then [.nilPointer] else
          if c.dests == "ptrnonslice" then [.ok, .notSlice] else
          if c.dests == "sliceint" then [.badElem] else
          if c.dests == "sliceptrint" then [.ok, .badElem] else [.ok]
        let (r, w) := queryGetAllArgs s args (c.dests.startsWith "valid" && !c.fewCols) w1
        ({ returns := [renderOpt r.err], appended := r.appended }, w)
      | _ =>
        let (it, w) := iterOpen s w1
        let calls := if c.fewCols then c.calls.map (fun x => if x == "get" then "getinvalid" else x) else c.calls
        let (it, w, outs) := runCalls calls c.cancelAt 0 it w calls
        -- ending the transaction closes result sets the caller left open (database/sql)
        let w := match it.rows with
          | some r => if c.onTx then (r.close w).2.1 else w
          | none => w
        ({ returns := outs }, w)
  let late := c.onTx && c.txEnd == "after" && c.concurrent == 0
  let (_, w3, fin2) :=
    if late && c.beginCancel then
      -- the automatic rollback is the transaction's one finisher event; every Commit /
      -- Rollback of the caller finds the transaction over
      (tx1, { (w2.emit .rollback) with inUse := w2.inUse - 1 }, c.finishers.map fun _ => "txDone")
    else if late then runFinishers c.finishers tx1 w2 else (tx1, w2, [])
  { p with log := w3.log, inUse := w3.inUse, finish := fin1 ++ fin2 }

/-- what the harness observed -/
structure Obs where
  returns : List String
  events : List String
  eventCtx : List String
  eventConn : List Nat
  inUse : Nat
  openRows : Nat
  doubleClose : Nat
  closedUse : Nat
  stored : Nat
  priorKept : Bool
  appended : List Nat
  outcome : String
  finish : List String
  winners : Nat
  preReturn : String := ""
  /-- every element GetAll appended is a freshly decoded row: members no statement writes
      are zero, a Scanner member holds exactly the value of its own row -/
  rowsFaithful : Bool := true
deriving Repr, Inhabited

def isFinisher (e : String) : Bool := e == "commit" || e == "rollback"

/-- pair cases: the kinds of the context-carrying driver calls observed with a given mark
    (entries of `eventCtx` are "kind@mark…") -/
def Obs.kindsWith (o : Obs) (mark : String) : List String :=
  o.eventCtx.filterMap fun x =>
    match x.splitOn "@" with
    | [k, m] => if m == mark || m.startsWith (mark ++ "+") then some k else none
    | _ => none

def Case.markB (c : Case) : String := if c.ctx == "nil" then "-" else "MARK-B"

def diffsPair (c : Case) (p : Pred) (o : Obs) : List (String × String) :=
  (if p.returns != o.returns then [("C20", s!"returns [A, B]: model {p.returns} impl {o.returns}"), ("C16", "concurrent runs")] else []) ++
  (if p.evA != o.kindsWith "MARK-A" then [("C20", s!"driver calls under A's context: model {p.evA} impl {o.kindsWith "MARK-A"}")] else []) ++
  (if p.evB != o.kindsWith c.markB then [("C20", s!"driver calls under B's context: model {p.evB} impl {o.kindsWith c.markB}")] else []) ++
  (if o.eventCtx.length != p.evA.length + p.evB.length then [("C20", s!"driver calls: impl {o.eventCtx}")] else []) ++
  (if p.inUse != o.inUse then [("C13", s!"inUse: model {p.inUse} impl {o.inUse}")] else []) ++
  (if c.pairOp == "get" && p.stored != o.stored then [("C15", s!"stored: model {p.stored} impl {o.stored}")] else []) ++
  (if c.pairOp == "getall" && p.appended != o.appended then [("C15", s!"appended: model {p.appended} impl {o.appended}")] else [])

/-- disagreements between prediction and observation, with the property each touches -/
def diffs (c : Case) (p : Pred) (o : Obs) : List (String × String) :=
  if c.op == "pair" then diffsPair c p o else
  let conc := c.onTx && c.concurrent > 0
  let plog := p.log.map Ev.render
  -- with concurrent finishers the place and kind of the single finisher event is not predicted
  let strip (l : List String) := if conc then l.filter (fun e => !isFinisher e) else l
  let opProp := if c.op == "iter" then "C14" else "C15"
  -- a disagreement that is only about which of "context done" / "transaction done" is
  -- reported first concerns the context and transaction properties, not the protocol
  let norm (l : List String) := l.map fun r => if r == "txDone" then "ctx" else r
  let precedenceOnly := norm p.returns == norm o.returns
  (if p.returns != o.returns then
     (if precedenceOnly then [("C20", s!"error precedence: model {p.returns} impl {o.returns}"), ("C12", "error precedence")]
      else [(opProp, s!"returns: model {p.returns} impl {o.returns}")]) else []) ++
  (if strip plog != strip o.events then [("C13", s!"events: model {plog} impl {o.events}")] else []) ++
  (if !conc && (c.op != "iter" || c.calls.contains "close") && p.inUse != o.inUse
    then [("C13", s!"inUse: model {p.inUse} impl {o.inUse}")] else []) ++
  (if c.op == "get" && p.stored != o.stored then [("C15", s!"stored: model {p.stored} impl {o.stored}")] else []) ++
  (if c.op == "getall" && p.appended != o.appended then [("C15", s!"appended: model {p.appended} impl {o.appended}")] else []) ++
  (if c.op == "get" && p.outcome != o.outcome then [("C15", s!"outcome: model {p.outcome} impl {o.outcome}")] else []) ++
  (if !conc && p.finish != o.finish then [("C12", s!"finish: model {p.finish} impl {o.finish}")] else []) ++
  -- what a finished transaction answers concerns the transaction property too
  (if c.onTx && (c.txEnd == "before-query" || c.txEnd == "between") && p.returns != o.returns
    then [("C12", "returns differ on a finished transaction")] else []) ++
  (if c.preReturn != o.preReturn then [("C20", s!"preliminary run: model {c.preReturn} impl {o.preReturn}")] else []) ++
  -- a disagreement after a cancelled preliminary run also concerns the context property
  (if c.preCtx == "cancelled" && p.returns != o.returns then [("C20", "returns differ after a cancelled preliminary run")] else [])

/-! ### property predicates on the observation alone -/

def execEvents (o : Obs) : Nat := (o.events.filter (fun e => e == "exec" || e == "query")).length

/-- the statement is prepared and started without incident (no done context, no prepare or
    run fault, transaction open) -/
def Case.cleanStart (c : Case) : Bool :=
  !c.ctxDone && !c.prepareErr && !c.runErr && !(c.onTx && c.txEnd != "after") && c.preCtx != "cancelled"

/-- C13: every result set closed exactly once, connection back in the pool -/
def holdsC13 (c : Case) (o : Obs) : Bool :=
  if c.op == "iter" && !c.calls.contains "close" then true else
  o.openRows == 0 && o.doubleClose == 0 && o.inUse == 0 &&
  (o.events.filter (· == "rowsClose")).length == (o.events.filter (· == "query")).length -
    (if c.runErr && c.hasOutputs && execEvents o > 0 then 1 else 0)

/-- all `close` results of an iter case -/
def closeResults (c : Case) (o : Obs) : List String :=
  (c.calls.zip o.returns).filterMap fun (call, r) => if call == "close" then some r else none

/-- C14 on an `iter` case -/
def holdsC14 (c : Case) (o : Obs) : Bool :=
  -- Get / GetAll: a driver failure while fetching a row that the call reaches (Get reads the
  -- first row only, GetAll all of them) is reported, never presented as success or as a
  -- normal empty result
  if c.op == "get" || c.op == "getall" then
    !(c.hasOutputs && c.cleanStart && !c.closeErr && c.badRow.isNone && !c.fewCols && c.extraSets == 0 &&
      (c.op == "getall" || c.fetchErrAt == some 0) && c.fetchErrAt.isSome &&
      (c.op == "get" || c.dests.startsWith "valid")) ||
    ((o.returns.headD "") != "" && (o.returns.headD "") != "noRows")
  else
  if c.op != "iter" then true else
  let cr := closeResults c o
  let pairs := c.calls.zip o.returns
  -- every Close returns the same
  cr.all (fun r => some r == cr.head?) &&
  -- Next stays false once it returned false
  (let nexts := pairs.filterMap fun (call, r) => if call == "next" then some r else none
   (nexts.dropWhile (· == "true")).all (· == "false")) &&
  -- rows are delivered in driver order: the k-th successful Next is followed by row k
  (let rec chk : List (String × String) → Nat → Bool
     | [], _ => true
     | (call, r) :: rest, k =>
       if call == "next" then chk rest (if r == "true" then k + 1 else k)
       else if call == "get" && r.startsWith "row:" then r == s!"row:{k}" && chk rest k
       else chk rest k
   chk pairs 0) &&
  -- after the end (a Next that returned false, or Close) every form of Get is an error
  (let rec ended : List (String × String) → Bool → Bool
     | [], _ => true
     | (call, r) :: rest, over =>
       if call == "next" then ended rest (over || r == "false")
       else if call == "close" then ended rest true
       else (!over || (r != "" && !r.startsWith "row:" && !r.startsWith "outcome:")) && ended rest over
   ended pairs false) &&
  -- a row made current by a successful Next stays available to Get until the next
  -- Next or Close, whatever failed Gets happen in between (no cancellation in play)
  (c.cancelAt.isSome || c.fewCols ||
   (let rec live : List (String × String) → Nat → Bool → Bool
      | [], _, _ => true
      | (call, r) :: rest, k, cur =>
        if call == "next" then live rest (if r == "true" then k + 1 else k) (r == "true")
        else if call == "close" then live rest k false
        else if call == "get" && cur && some (k - 1) != c.badRow then r == s!"row:{k}" && live rest k cur
        else live rest k cur
    live pairs 0 false)) &&
  -- Get before the first Next/Close is an error unless it fetches the Outcome
  (match pairs.head? with
   | some ("get", r) => !r.startsWith "row:"
   | some ("getinvalid", r) => r != ""
   | _ => true) &&
  -- a fetch failure that ended the iteration is reported by Close
  (match c.fetchErrAt with
   | some k => (o.events.filter (· == "next")).length ≤ k || cr.all (· != "")
   | none => true)

/-- nothing is scripted to go wrong and the operation really runs -/
def Case.cleanRun (c : Case) : Bool :=
  !c.ctxDone && !c.prepareErr && !c.runErr && !c.closeErr && c.fetchErrAt.isNone &&
  !(c.onTx && c.txEnd != "after")

/-- C15 on Get / GetAll / Run -/
def holdsC15 (c : Case) (o : Obs) : Bool :=
  let r := o.returns.headD ""
  -- an empty result of a statement with outputs is ErrNoRows, whatever destinations were given
  (!(c.cleanRun && c.hasOutputs && c.nrows == 0 &&
      (c.op == "get" || c.op == "run" ||
       (c.op == "getall" && (c.dests.startsWith "valid" || c.dests == "invalid" || c.dests == "none" ||
          c.dests == "sliceint" || c.dests == "sliceptrint"))))
    || r == "noRows") &&
  match c.op with
  | "get" | "run" =>
    -- ErrNoRows only for an empty result of a statement with outputs, destinations untouched
    (r != "noRows" || (c.hasOutputs && o.stored == 0 && c.fetchErrAt != some 0 && c.nrows == 0)) &&
    -- success with a destination stores the first row
    (!(c.op == "get" && r == "" && c.hasOutputs && (c.dests == "valid" || c.dests == "outcome+valid" || c.dests == "niloutcome+valid"))
      || o.stored == 1) &&
    -- a supplied Outcome is filled with the driver's result of a statement without outputs
    -- (the scripted result reports 7 rows affected); a statement with outputs has none
    (!(c.op == "get" && r == "" && c.dests.startsWith "outcome") ||
      o.outcome == (if c.hasOutputs then "nil" else "r:7"))
  | "getall" =>
    o.priorKept && o.rowsFaithful && (if r == "" then o.appended == (List.range c.nrows).map (· + 1) || !c.hasOutputs else o.appended.isEmpty)
  | _ => true

/-- C20: a done context runs nothing and is reported; the driver sees the caller's context -/
def holdsC20 (c : Case) (o : Obs) : Bool :=
  -- pair: B's context is live, so B must not report a context error (A's context is none of
  -- its business), and B's statement is prepared and executed under B's own context
  if c.op == "pair" then
    let rB := o.returns.getD 1 ""
    rB != "ctx" && rB != "wrapped(ctx)" &&
    o.kindsWith c.markB == ["prepare", if c.hasOutputs then "query" else "exec"]
  else
  -- an earlier query's cancelled context must not govern a later query with a live context
  (if c.preCtx == "cancelled" && !c.ctxDone && c.cancelAt.isNone then
     o.preReturn == "ctx" && o.returns.all (fun r => r != "ctx" && r != "wrapped(ctx)") &&
     -- nor may the cancelled query have ended the transaction: the later one runs
     (!(c.onTx && c.txEnd == "after") || o.returns.all (fun r => r != "txDone" && r != "wrapped(txDone)"))
   else true) &&
  (if c.ctxDone && !(c.onTx && c.txEnd == "before-query") then
     execEvents o == 0 &&
     (if c.op == "iter" then (closeResults c o).all (fun r => r == "ctx" || r == "txDone")
      else (o.returns.headD "") == "ctx" || (o.returns.headD "") == "txDone" ||
           (o.returns.headD "").startsWith "sqlair:")
   else true) &&
  (if c.ctx == "nil" then o.eventCtx.all (· == "-")
   else if c.ctx == "marker" && c.cancelAt.isNone then o.eventCtx.all (· == "MARK")
   else o.eventCtx.all (fun x => x.startsWith "MARK"))

/-- C09, transaction half: what a TX executes runs on the transaction's connection (a cached
    DB-level statement must be re-bound to it, not executed through the pool) -/
def holdsC09tx (c : Case) (o : Obs) : Bool :=
  !c.onTx || o.eventConn.all (· == o.eventConn.headD 0)

/-- C12: everything a TX runs is on its connection between begin and end; one finisher wins -/
def holdsC12 (c : Case) (o : Obs) : Bool :=
  if !c.onTx then true else
  let conn := o.eventConn.headD 0
  o.eventConn.all (· == conn) &&
  o.events.head? == some "begin" &&
  (o.events.filter isFinisher).length == 1 &&
  -- nothing after the finisher
  ((o.events.dropWhile (fun e => !isFinisher e)).length == 1) &&
  (if c.concurrent > 0 then o.winners == 1
   else if c.beginCancel then o.finish.all (· == "txDone")   -- rolled back by database/sql: nothing the caller calls succeeds
   else (o.finish.filter (· != "txDone")).length == 1 && o.finish.head? != some "txDone") &&
  -- once the transaction has ended, every call the model answers with ErrTXDone is answered
  -- with ErrTXDone (a Query created before the end included); with a context that is done
  -- as well either error may come first
  (if c.txEnd == "before-query" || c.txEnd == "between" then
     ((predict c).returns.zip o.returns).all fun (m, r) =>
       m != "txDone" || r == "txDone" || (c.ctxDone && r == "ctx")
   else true)

end Sqlair.Rt
