/-
  The Go-faithful UTF-8 decoder `decodeRune` satisfies the decoder assumptions `OpqDec` of
  the metamorphic form of C02: on every input it satisfies `DecOK` and `AsciiDec`, a rune
  below 128 is one ASCII byte, and decoding at `p` never looks behind the first ASCII byte
  `q ≥ p` (or the end of the input).
-/
import SqlairProofs.Utf8
import SqlairProofs.Opaque.Defs

namespace Sqlair

/-- `decodeRune` as a function of the size, the offset and the four bytes it may read -/
def opq_dr (size pos s0 s1 s2 s3 : Nat) : Nat × Nat :=
  if pos ≥ size then (0xFFFD, 0) else
  let n := size - pos
  if s0 < 0x80 then (s0, 1)
  else if s0 < 0xC2 then (0xFFFD, 1)
  else if s0 < 0xE0 then
    if n < 2 then (0xFFFD, 1) else
    if s1 < 0x80 ∨ 0xBF < s1 then (0xFFFD, 1)
    else ((s0 % 0x20) * 64 + (s1 % 0x40), 2)
  else if s0 < 0xF0 then
    let lo := if s0 = 0xE0 then 0xA0 else 0x80
    let hi := if s0 = 0xED then 0x9F else 0xBF
    if n < 3 then (0xFFFD, 1) else
    if s1 < lo ∨ hi < s1 then (0xFFFD, 1) else
    if s2 < 0x80 ∨ 0xBF < s2 then (0xFFFD, 1)
    else ((s0 % 0x10) * 4096 + (s1 % 0x40) * 64 + (s2 % 0x40), 3)
  else if s0 < 0xF5 then
    let lo := if s0 = 0xF0 then 0x90 else 0x80
    let hi := if s0 = 0xF4 then 0x8F else 0xBF
    if n < 4 then (0xFFFD, 1) else
    if s1 < lo ∨ hi < s1 then (0xFFFD, 1) else
    if s2 < 0x80 ∨ 0xBF < s2 then (0xFFFD, 1) else
    if s3 < 0x80 ∨ 0xBF < s3 then (0xFFFD, 1)
    else ((s0 % 0x08) * 262144 + (s1 % 0x40) * 4096 + (s2 % 0x40) * 64 + (s3 % 0x40), 4)
  else (0xFFFD, 1)

theorem opq_decodeRune_eq (s : Bytes) (p : Nat) :
    decodeRune s p = opq_dr s.size p (bAt s p) (bAt s (p+1)) (bAt s (p+2)) (bAt s (p+3)) := rfl

/-- an ASCII first byte: the other bytes are not looked at -/
theorem opq_dr_stop0 (n p a0 a1 a2 a3 b1 b2 b3 : Nat) (h : a0 < 0x80) :
    opq_dr n p a0 a1 a2 a3 = opq_dr n p a0 b1 b2 b3 := by
  unfold opq_dr
  simp only [h, if_true]

/-- an ASCII second byte: the third and fourth bytes are not looked at -/
theorem opq_dr_stop1 (n p a0 a1 a2 a3 b2 b3 : Nat) (h : a1 < 0x80) :
    opq_dr n p a0 a1 a2 a3 = opq_dr n p a0 a1 b2 b3 := by
  have hlo3 : a1 < (if a0 = 0xE0 then 0xA0 else 0x80) := by split <;> omega
  have hlo4 : a1 < (if a0 = 0xF0 then 0x90 else 0x80) := by split <;> omega
  unfold opq_dr
  simp only [h, hlo3, hlo4, true_or, if_true]

/-- an ASCII third byte: the fourth byte is not looked at -/
theorem opq_dr_stop2 (n p a0 a1 a2 a3 b3 : Nat) (h : a2 < 0x80) :
    opq_dr n p a0 a1 a2 a3 = opq_dr n p a0 a1 a2 b3 := by
  unfold opq_dr
  simp only [h, true_or, if_true]

theorem opq_dr_congr (n p a0 a1 a2 a3 b1 b2 b3 : Nat)
    (h1 : 0x80 ≤ a0 → a1 = b1)
    (h2 : 0x80 ≤ a0 → 0x80 ≤ a1 → a2 = b2)
    (h3 : 0x80 ≤ a0 → 0x80 ≤ a1 → 0x80 ≤ a2 → a3 = b3) :
    opq_dr n p a0 a1 a2 a3 = opq_dr n p a0 b1 b2 b3 := by
  by_cases c0 : a0 < 0x80
  · exact opq_dr_stop0 _ _ _ _ _ _ _ _ _ c0
  have e1 := h1 (by omega)
  subst e1
  by_cases c1 : a1 < 0x80
  · exact opq_dr_stop1 _ _ _ _ _ _ _ _ c1
  have e2 := h2 (by omega) (by omega)
  subst e2
  by_cases c2 : a2 < 0x80
  · exact opq_dr_stop2 _ _ _ _ _ _ _ c2
  have e3 := h3 (by omega) (by omega) (by omega)
  subst e3
  rfl

/-- `decodeRune` reads the size and the bytes `p`, `p+1`, `p+2`, `p+3` in this order and
    stops at the first byte below `0x80` -/
theorem opq_decodeRune_congr (s s' : Bytes) (p : Nat) (hsz : s.size = s'.size)
    (h0 : bAt s p = bAt s' p)
    (h1 : 0x80 ≤ bAt s p → bAt s (p+1) = bAt s' (p+1))
    (h2 : 0x80 ≤ bAt s p → 0x80 ≤ bAt s (p+1) → bAt s (p+2) = bAt s' (p+2))
    (h3 : 0x80 ≤ bAt s p → 0x80 ≤ bAt s (p+1) → 0x80 ≤ bAt s (p+2) →
      bAt s (p+3) = bAt s' (p+3)) :
    decodeRune s p = decodeRune s' p := by
  rw [opq_decodeRune_eq, opq_decodeRune_eq, ← hsz, ← h0]
  exact opq_dr_congr _ _ _ _ _ _ _ _ _ h1 h2 h3

/-- out of range, `bAt` is 0 -/
theorem opq_bAt_eq_zero (s : Bytes) (i : Nat) (h : s.size ≤ i) : bAt s i = 0 := by
  unfold bAt
  have : ¬ i < s.size := by omega
  simp [Array.getD, this]

/-- the byte `p + j` agrees in the two inputs as long as the bytes before it (from `p` on)
    are all ≥ 0x80 -/
theorem opq_window_byte (inp inp' : Bytes) (p q : Nat) (hsz : inp.size = inp'.size)
    (hag : ∀ i, p ≤ i → i ≤ q → bAt inp i = bAt inp' i)
    (hq : inp.size ≤ q ∨ bAt inp q < 128) (hpq : p ≤ q) (j : Nat)
    (hhi : ∀ i, p ≤ i → i < p + j → 0x80 ≤ bAt inp i) :
    bAt inp (p + j) = bAt inp' (p + j) := by
  by_cases c : p + j ≤ q
  · exact hag _ (by omega) c
  rcases hq with hq | hq
  · rw [opq_bAt_eq_zero inp _ (by omega), opq_bAt_eq_zero inp' _ (by omega)]
  · have := hhi q hpq (by omega)
    omega

theorem opq_decodeRune_window (inp inp' : Bytes) (p q : Nat) (hsz : inp.size = inp'.size)
    (hpq : p ≤ q) (hag : ∀ i, p ≤ i → i ≤ q → bAt inp i = bAt inp' i)
    (hq : inp.size ≤ q ∨ bAt inp q < 128) :
    decodeRune inp p = decodeRune inp' p := by
  have key := opq_window_byte inp inp' p q hsz hag hq hpq
  refine opq_decodeRune_congr inp inp' p hsz (hag p (Nat.le_refl _) hpq) ?_ ?_ ?_
  · intro g0
    refine key 1 ?_
    intro i hi hi'
    have : i = p := by omega
    subst this; exact g0
  · intro g0 g1
    refine key 2 ?_
    intro i hi hi'
    have : i = p ∨ i = p + 1 := by omega
    rcases this with rfl | rfl
    · exact g0
    · exact g1
  · intro g0 g1 g2
    refine key 3 ?_
    intro i hi hi'
    have : i = p ∨ i = p + 1 ∨ i = p + 2 := by omega
    rcases this with rfl | rfl | rfl
    · exact g0
    · exact g1
    · exact g2

/-- a rune below 128 is one ASCII byte (no over-long encodings) -/
theorem opq_decodeRune_small (inp : Bytes) (p : Nat) (hp : p < inp.size)
    (h : (decodeRune inp p).1 < 128) : decodeRune inp p = (bAt inp p, 1) := by
  rcases decodeRune_cases inp p hp with hd | hd | hd
  · exact hd.1
  · rw [hd.1] at h
    simp only [] at h
    omega
  · omega

/-- an ASCII byte decodes to itself, size 1 (as `decodeRune_AsciiDec` in `Props/C02.lean`;
    repeated here to keep this file independent of `Props/`) -/
theorem opq_decodeRune_AsciiDec (inp : Bytes) (letter digit : Nat → Bool) :
    AsciiDec { inp := inp, dec := decodeRune, letter := letter, digit := digit } where
  ascii := fun p hp hb => by
    show decodeRune inp p = (bAt inp p, 1)
    change bAt inp p < 128 at hb
    rcases decodeRune_cases inp p hp with hd | hd | hd
    · exact hd.1
    · omega
    · have := hd.2.2.2 p (Nat.le_refl _) (by omega)
      omega

/-- the Go-faithful decoder satisfies the decoder assumptions of the metamorphic form of
    C02 -/
theorem decodeRune_OpqDec (inp : Bytes) (letter digit : Nat → Bool) :
    OpqDec { inp := inp, dec := decodeRune, letter := letter, digit := digit } where
  ok := fun inp' => decodeRune_DecOK inp' letter digit
  ascii := fun inp' => opq_decodeRune_AsciiDec inp' letter digit
  small := fun inp' p hp h => opq_decodeRune_small inp' p hp h
  window := fun inp1 inp2 p q hsz hpq hag hq => opq_decodeRune_window inp1 inp2 p q hsz hpq hag hq

end Sqlair
