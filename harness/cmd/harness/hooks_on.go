//go:build verif

package main

import "github.com/canonical/sqlair"

// hooksAvailable: the repository's verif-tagged hooks compiled.
const hooksAvailable = true

type hookSeg struct {
	Kind    string
	Raw     string
	Columns [][3]any // table, column, func
	Types   [][2]string
	Values  []hookVal
}

type hookVal struct {
	Literal bool
	Text    string
	Type    string
	Member  string
}

func hookParse(q string) ([]hookSeg, error) {
	segs, err := sqlair.VerifParse(q)
	if err != nil {
		return nil, err
	}
	out := make([]hookSeg, 0, len(segs))
	for _, s := range segs {
		h := hookSeg{Kind: s.Kind, Raw: s.Raw}
		for _, c := range s.Columns {
			h.Columns = append(h.Columns, [3]any{c.Table, c.Column, c.Func})
		}
		for _, t := range s.Types {
			h.Types = append(h.Types, [2]string{t.Type, t.Member})
		}
		for _, v := range s.Values {
			h.Values = append(h.Values, hookVal{Literal: v.Literal, Text: v.Text, Type: v.Accessor.Type, Member: v.Accessor.Member})
		}
		out = append(out, h)
	}
	return out, nil
}

type hookCacheStats struct {
	Statements, DBs int
	Pairs           [][2]uint64
	SQL             []string
}

func hookGetCacheStats() hookCacheStats {
	cs := sqlair.VerifGetCacheStats()
	return hookCacheStats{Statements: cs.Statements, DBs: cs.DBs, Pairs: cs.Pairs, SQL: cs.SQL}
}

func hookStatementID(s *sqlair.Statement) uint64 { return sqlair.VerifStatementID(s) }
func hookDBID(d *sqlair.DB) uint64               { return sqlair.VerifDBID(d) }
