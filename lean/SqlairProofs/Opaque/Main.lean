/-
  Opacity of literals and comments, main loop: `parse` on `E` and on `opqEnv E inp'` yields
  nodes of the same kinds and spans, or errors at the same position.
-/
import SqlairProofs.Opaque.Exprs

namespace Sqlair

/-- main-loop states: the same scanner state and offsets, related nodes -/
def OpqPS (st st' : PS) : Prop :=
  st'.sc = st.sc ∧ st'.prevExprEnd = st.prevExprEnd ∧ st'.currentExprStart = st.currentExprStart ∧
    OpqList OpqSeg st.exprs st'.exprs

/-- results of the main loop -/
inductive OpqLoopRes : Except PErr PS → Except PErr PS → Prop where
  | ok {st st' : PS} : OpqPS st st' → OpqLoopRes (.ok st) (.ok st')
  | err {e e' : PErr} : OpqErr e e' → OpqLoopRes (.error e) (.error e')

/-- results of `parse`: nodes of the same kinds and spans, or errors at the same position -/
inductive OpqParse : Except PErr (List Seg) → Except PErr (List Seg) → Prop where
  | ok {l l' : List Seg} : OpqList OpqSeg l l' → OpqParse (.ok l) (.ok l')
  | err {e e' : PErr} : OpqErr e e' → OpqParse (.error e) (.error e')

section
variable {E : Env} {inp' : Bytes}

theorem opq_list_snoc {α : Type} {Rα : α → α → Prop} {l l' : List α} {a b : α}
    (h : OpqList Rα l l') (hab : Rα a b) : OpqList Rα (l ++ [a]) (l' ++ [b]) :=
  opq_forall2_snoc h hab

/-- `add` keeps the states related -/
theorem opq_add {st st' : PS} (h : OpqPS st st') {e e' : Option Seg}
    (he : (∃ a b, e = some a ∧ e' = some b ∧ OpqSeg a b) ∨ (e = none ∧ e' = none)) :
    OpqPS (st.add e) (st'.add e') := by
  obtain ⟨sc, pe, ce, ex⟩ := st
  obtain ⟨sc', pe', ce', ex'⟩ := st'
  obtain ⟨h1, h2, h3, h4⟩ := h
  simp only [] at h1 h2 h3 h4
  subst h1 h2 h3
  unfold PS.add
  refine ⟨rfl, rfl, rfl, ?_⟩
  simp only []
  have hb : OpqList OpqSeg
      (if pe' ≠ ce' then ex ++ [{ kind := .bypass, a := pe', b := ce' }] else ex)
      (if pe' ≠ ce' then ex' ++ [{ kind := .bypass, a := pe', b := ce' }] else ex') := by
    split
    · exact opq_list_snoc h4 ⟨rfl, rfl, rfl⟩
    · exact h4
  rcases he with ⟨a, b, rfl, rfl, hab⟩ | ⟨rfl, rfl⟩
  · exact opq_list_snoc hb hab
  · exact hb

theorem opq_add_sc (st : PS) (e : Option Seg) : (st.add e).sc = st.sc := rfl

theorem opq_initSc (R : OpqEnv E inp') : initSc (opqEnv E inp') = initSc E :=
  opq_sc_eq R initSc_good.1 initSc_good.1 (by rw [initSc_good.2, initSc_good.2])
    (by rw [initSc_good.2]; exact LexCode.zero) (opq_advanceChar_eofZ _) (opq_advanceChar_eofZ _)

theorem opq_parseLoop (R : OpqEnv E inp') : ∀ (f : Nat) (st st' : PS), OpqPS st st' → LC E st.sc →
    OpqLoopRes (parseLoop E f st) (parseLoop (opqEnv E inp') f st') := by
  intro f
  induction f with
  | zero =>
    intro st st' hrel _
    unfold parseLoop
    rw [hrel.1]
    exact .err (OpqErr.rfl' _)
  | succ f ih =>
    intro st st' hrel l
    obtain ⟨sc, pe, ce, ex⟩ := st
    obtain ⟨sc', pe', ce', ex'⟩ := st'
    obtain ⟨h1, h2, h3, h4⟩ := hrel
    simp only [] at h1 h2 h3 h4 l
    subst h1 h2 h3
    unfold parseLoop
    simp only []
    rw [opq_advanceToNextExpression R l, opq_len R]
    obtain ⟨la, hstop⟩ := advanceToNextExpression_lc R.decE R.cls l
    rcases hq : advanceToNextExpression E sc' with ⟨sc1, _ | e⟩
    · rw [hq] at la hstop
      have l1 : LC E sc1 := la
      have hs1 : StopOK E sc1 := hstop rfl
      simp only []
      by_cases hlen : sc1.pos = E.len
      · simp only [if_pos hlen]
        exact .ok ⟨rfl, rfl, rfl, h4⟩
      · simp only [if_neg hlen]
        have hp1 : sc1.pos < E.len := by have := l1.good.pos_le; omega
        have hrel1 : ∀ sc2, OpqPS { sc := sc2, prevExprEnd := pe', currentExprStart := sc1.pos, exprs := ex }
            { sc := sc2, prevExprEnd := pe', currentExprStart := sc1.pos, exprs := ex' } :=
          fun _ => ⟨rfl, rfl, rfl, h4⟩
        rcases (opq_parseOutputExpr R l1).elim with
          ⟨sc2, a, b, hx, hy, hab⟩ | ⟨sc2, hx, hy⟩ | ⟨sc2, e2, e2', hx, hy, he⟩
        · rw [hx, hy]
          simp only []
          have l2 : LC E sc2 := (parseOutputExpr_lc R.decE R.asciiE R.cls l1).of_eq hx
          exact ih _ _ (opq_add (hrel1 sc2) (Or.inl ⟨a, b, rfl, rfl, hab⟩)) l2
        · rw [hx, hy]
          simp only []
          have hsc2 : sc2 = sc1 := (parseOutputExpr_eok R.decE l1.good).elim_no hx
          subst hsc2
          rcases (opq_parseInputExpr R l1).elim with
            ⟨sc3, a, b, hx3, hy3, hab⟩ | ⟨sc3, hx3, hy3⟩ | ⟨sc3, e3, e3', hx3, hy3, he3⟩
          · rw [hx3, hy3]
            simp only []
            have l3 : LC E sc3 := (parseInputExpr_lc R.decE R.asciiE R.cls l1).of_eq hx3
            exact ih _ _ (opq_add (hrel1 sc3) (Or.inl ⟨a, b, rfl, rfl, hab⟩)) l3
          · rw [hx3, hy3]
            simp only []
            have hsc3 : sc3 = sc2 := (parseInputExpr_eok R.decE l1.good).elim_no hx3
            subst hsc3
            have hch := hs1.char R.cls hp1
            have hpl : sc3.char ≠ 34 ∧ sc3.char ≠ 39 ∧ sc3.char ≠ 45 ∧ sc3.char ≠ 47 :=
              ⟨hch.1, hch.2.1, hch.2.2.1, hch.2.2.2.1⟩
            rw [opq_advanceChar_char R l1 hpl]
            exact ih _ _ (hrel1 _) (advanceChar_lc_char R.decE l1 hpl)
          · rw [hx3, hy3]
            exact .err he3
        · rw [hx, hy]
          exact .err he
    · exact .err (OpqErr.rfl' e)

/-- **Relational form of C02.**  On two inputs related by `OpqEnv` the parser produces nodes of
    the same kinds and spans, or rejects at the same line and column. -/
theorem opq_parse (R : OpqEnv E inp') : OpqParse (parse E) (parse (opqEnv E inp')) := by
  unfold parse
  rw [opq_len R, opq_initSc R]
  have h := opq_parseLoop R (E.len + 2)
    { sc := initSc E, prevExprEnd := 0, currentExprStart := 0, exprs := [] }
    { sc := initSc E, prevExprEnd := 0, currentExprStart := 0, exprs := [] }
    ⟨rfl, rfl, rfl, .nil⟩ initSc_lc
  generalize parseLoop E (E.len + 2)
    { sc := initSc E, prevExprEnd := 0, currentExprStart := 0, exprs := [] } = x at h
  generalize parseLoop (opqEnv E inp') (E.len + 2)
    { sc := initSc E, prevExprEnd := 0, currentExprStart := 0, exprs := [] } = y at h
  cases h with
  | ok hps => exact .ok (opq_add hps (Or.inr ⟨rfl, rfl⟩)).2.2.2
  | err he => exact .err he

end
end Sqlair
