/-
  FactsCheck/Frame: structural facts extracted from the source on this run (go/ast).

  * parser.go - the models of the parse helper functions take and return the scanner record
    only; the expression list and the two expression bounds live in the main-loop state
    (DESIGN 12.6).  That is a fact about the code: only `Parse`, `add`, `init` and the
    checkpoint's `restore` write `prevExprEnd`, `currentExprStart` or `exprs`.
  * cache.go - the cache model treats look-up, insertion and the two finalizers as atomic
    steps.  That is the cache mutex: every function that touches one of the two maps takes
    it, and every function that writes one takes it exclusively.
-/
import SqlairModel.Generated.Facts

namespace Sqlair.FactsOK

/-- no parse helper writes the main-loop state -/
theorem parser_frame_writers_ok :
    Facts.frameWriters.all (fun f => ["Parse", "add", "init", "restore"].contains f) = true := by decide

/-- every function that writes a cache map calls `mutex.Lock` -/
theorem cache_writers_lock_ok :
    Facts.cacheWriters.all (fun f => Facts.cacheLockers.contains f) = true := by decide

/-- every function that mentions a cache map calls `mutex.Lock` or `mutex.RLock` -/
theorem cache_users_lock_ok :
    Facts.cacheUsers.all (fun f => Facts.cacheAnyLockers.contains f) = true := by decide

/-- the functions the cache model has a step for are the functions that write the maps -/
theorem cache_writers_modelled_ok :
    Facts.cacheWriters.all (fun f =>
      ["driverPrepareStmt", "newDB", "newStatement", "removeAndCloseDBFunc", "removeAndCloseStmtFunc"].contains f) = true := by
  decide

/-- (the facts are not empty: the extraction found the functions) -/
theorem frame_facts_nonempty_ok :
    Facts.frameWriters.length ≥ 2 ∧ Facts.cacheWriters.length ≥ 3 ∧ Facts.cacheUsers.length ≥ 4 := by decide

end Sqlair.FactsOK
