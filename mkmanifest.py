#!/usr/bin/env python3
"""Regenerates MANIFEST.json from checkcfg.py / obligations.json (claimed = has obligations + listed in CLAIMED)."""
import json, sys
sys.path.insert(0, '/verif')
from checkcfg import PROPS, CLAIMED, NOT_CLAIMED_REASON
props = [json.loads(l) for l in open('/verif/properties.jsonl')]
obl = json.load(open('/verif/lean/obligations.json'))
checks, na = [], []
for p in props:
    i = p['id']
    if i in CLAIMED and obl.get(i):
        c = CLAIMED[i]
        checks.append({
            'property_id': i,
            'quick_cmd': f'cd /verif && ./check {i} --tier quick',
            'thorough_cmd': f'cd /verif && ./check {i} --tier thorough',
            'evidence_file': f'/verif/evidence/{i}.json',
            'replay_cmd_template': f'cd /verif && ./check {i} --replay {{path}}',
            'engine': 'lean4-model+correspondence',
            'level_claimed': {'category': 'proof', 'text': c['text'], 'design_ref': c.get('design_ref', 'DESIGN.md section 5')},
            'level_note': c['note'],
            'technique': c['technique'],
        })
    else:
        na.append({'property_id': i, 'reason': NOT_CLAIMED_REASON.get(i, 'check under construction in this session (designed in DESIGN.md section 5); not yet claimed')})
m = {
    'version': 1,
    'setup_cmd': 'cd /verif && ./setup.sh',
    'hooks': {
        'guard': 'verif',
        'enable': 'go build -tags verif (the harness module replaces github.com/canonical/sqlair by /repo)',
        'baseline_off_cmd': 'cd /repo && GOFLAGS=-mod=mod GOPROXY=off GOSUMDB=off go test -json -vet=off -count=1 -timeout 25m ./...',
        'source_commits': ['6dc8208'],
        'add_only': True,
    },
    'engines': [
        {'name': 'lean4-model+correspondence', 'path': '/verif/lean', 'serves_properties': [c['property_id'] for c in checks],
         'kind_free_text': 'Lean 4 theorems about a hand-written executable model (lake project /verif/lean: SqlairModel, SqlairProofs), tied to /repo on every run by '
                           'a differential correspondence check (Go harness /verif/harness drives the real code and the compiled Lean driver on the same generated cases) '
                           'and by facts regenerated from the Go source'},
    ],
    'checks': checks,
    'not_applicable': na,
    'notes': 'See DESIGN.md. Every check: (A) lake build + #print axioms audit of the property theorems, (B) harness rebuilt from /repo working tree with -tags verif, '
             '(C) correspondence + property predicates on the implementation observations, (D) verdict against known_findings.json.',
}
json.dump(m, open('/verif/MANIFEST.json', 'w'), indent=1)
print('claimed', [c['property_id'] for c in checks])
