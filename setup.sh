#!/bin/sh
# Build the verification framework from files on disk only (offline).
set -e
cd /verif/lean && lake build 2>&1 | tail -5
cd /verif/harness && export GOFLAGS=-mod=mod GOPROXY=off GOSUMDB=off GOTOOLCHAIN=local && mkdir -p /verif/build && go build -tags verif -o /verif/build/harness ./cmd/harness
echo setup-ok
