module verifharness

go 1.18

require (
	github.com/canonical/sqlair v0.0.0
	github.com/mattn/go-sqlite3 v1.14.16
)

replace github.com/canonical/sqlair => /repo
