// Package fakedrv is a scripted database/sql driver: it records every driver call
// (with connection and statement identities, the SQL, the named values and facts about
// the context it received) and answers from a script (result rows, injected faults).
package fakedrv

import (
	"time"
	"context"
	"database/sql"
	"database/sql/driver"
	"errors"
	"fmt"
	"io"
	"sync"
	"sync/atomic"
)

// Event is one driver call.
type Event struct {
	Kind   string   `json:"k"` // connect prepare stmtclose exec query next rowsclose begin commit rollback connclose
	Conn   int      `json:"conn,omitempty"`
	Stmt   int      `json:"stmt,omitempty"`
	SQL    string   `json:"sql,omitempty"`
	Args   []string `json:"args,omitempty"`  // "name=%T:%v"
	Names  []string `json:"names,omitempty"` // argument names
	Ctx    string   `json:"ctx,omitempty"`   // marker value carried by the context, "+dl" if it has a deadline, "+done" if done
	Err    string   `json:"err,omitempty"`   // injected error returned by this call
	Rows   int      `json:"rows,omitempty"`  // id of the result set
	Closed bool     `json:"closed,omitempty"`
	Seq    int64    `json:"seq"` // global order across all databases of the process
}

var globalSeq int64

// CtxKey is the key of the marker value the harness puts into contexts.
type CtxKey struct{}

func ctxInfo(ctx context.Context) string {
	if ctx == nil {
		return "nil"
	}
	s := "-"
	if v, ok := ctx.Value(CtxKey{}).(string); ok {
		s = v
	}
	if _, ok := ctx.Deadline(); ok {
		s += "+dl"
	}
	if ctx.Err() != nil {
		s += "+done"
	}
	return s
}

// Fault describes an injected failure: the n-th call (0-based) of Kind fails with Err.
type Fault struct {
	Kind string
	N    int
	Err  error
	// Cancel, if set, is called instead of / in addition to returning Err (context
	// cancellation during a call).
	Cancel func()
	// Gate, if set on a prepare fault, holds the call inside the driver until the gate is
	// released (the call then proceeds normally) or the call's context is done (the call
	// then fails with the context's error).
	Gate *Gate
}

// Gate holds one driver call. Entered is closed when the call has arrived.
type Gate struct {
	Entered chan struct{}
	Release chan struct{}
}

func NewGate() *Gate { return &Gate{Entered: make(chan struct{}), Release: make(chan struct{})} }

// Script is the behaviour of a database.
type Script struct {
	Columns []string
	Rows    [][]driver.Value
	// RowsAffected / LastInsertId for Exec.
	RowsAffected int64
	LastInsertID int64
	Faults       []Fault
	// ExtraResultSets: the query answers with this many further (empty) result sets.
	ExtraResultSets int
	// SlowClose: closing a result set takes this long at the driver (it counts as open
	// until then).
	SlowClose time.Duration
}

// State is the per-database state shared by all its connections.
type State struct {
	mu       sync.Mutex
	events   []Event
	nextConn int
	nextStmt int
	nextRows int
	counts   map[string]int
	script   Script
	// OpenStmts and OpenRows track what has not been closed.
	openStmts map[int]bool
	openRows  map[int]bool
	// closedStmtUse counts driver calls on an already closed statement.
	ClosedStmtUse int
	DoubleClose   int
	// failNext: one-shot faults, by event kind (see FailNext)
	dead       map[int]bool
	cancelNext map[string]func()
	failNext   map[string]error
}

func NewState() *State {
	return &State{counts: map[string]int{}, openStmts: map[int]bool{}, openRows: map[int]bool{}}
}

func (s *State) SetScript(sc Script) {
	s.mu.Lock()
	s.script = sc
	s.counts = map[string]int{}
	s.mu.Unlock()
}

// Events returns a copy of the log.
func (s *State) Events() []Event {
	s.mu.Lock()
	defer s.mu.Unlock()
	return append([]Event(nil), s.events...)
}

// Reset clears the log.
func (s *State) Reset() {
	s.mu.Lock()
	s.events = nil
	s.mu.Unlock()
}

// SetRows replaces the rows of the script (counters and faults are kept).
func (s *State) SetRows(rows [][]driver.Value) {
	s.mu.Lock()
	s.script.Rows = rows
	s.mu.Unlock()
}

// FailNext makes the next driver call of the given kind fail with err (once).
func (s *State) FailNext(kind string, err error) {
	s.mu.Lock()
	defer s.mu.Unlock()
	if s.failNext == nil {
		s.failNext = map[string]error{}
	}
	s.failNext[kind] = err
}

// CancelNext makes the next driver call of the given kind call cancel just before it
// returns successfully (once): the caller's context ends right after the driver is done.
func (s *State) CancelNext(kind string, cancel func()) {
	s.mu.Lock()
	defer s.mu.Unlock()
	if s.cancelNext == nil {
		s.cancelNext = map[string]func(){}
	}
	s.cancelNext[kind] = cancel
}

// KillConn declares a connection dead: every later statement on it fails with
// driver.ErrBadConn and is not recorded (nothing is executed).
func (s *State) KillConn(id int) {
	s.mu.Lock()
	defer s.mu.Unlock()
	if s.dead == nil {
		s.dead = map[int]bool{}
	}
	s.dead[id] = true
}

func (s *State) isDead(id int) bool {
	s.mu.Lock()
	defer s.mu.Unlock()
	return s.dead[id]
}

// StmtCount is the number of statements prepared so far (the id of the latest one).
func (s *State) StmtCount() int {
	s.mu.Lock()
	defer s.mu.Unlock()
	return s.nextStmt
}

func (s *State) OpenStmts() int {
	s.mu.Lock()
	defer s.mu.Unlock()
	return len(s.openStmts)
}

func (s *State) OpenRows() int {
	s.mu.Lock()
	defer s.mu.Unlock()
	return len(s.openRows)
}

// record appends the event and returns the injected fault for this call, if any.
func (s *State) record(e Event) (Event, *Fault) {
	s.mu.Lock()
	defer s.mu.Unlock()
	n := s.counts[e.Kind]
	s.counts[e.Kind] = n + 1
	var f *Fault
	for i := range s.script.Faults {
		if s.script.Faults[i].Kind == e.Kind && s.script.Faults[i].N == n {
			f = &s.script.Faults[i]
			if f.Err != nil {
				e.Err = f.Err.Error()
			}
		}
	}
	if err, ok := s.failNext[e.Kind]; ok && f == nil {
		delete(s.failNext, e.Kind)
		f = &Fault{Kind: e.Kind, Err: err}
		e.Err = err.Error()
	}
	if cancel, ok := s.cancelNext[e.Kind]; ok && f == nil {
		delete(s.cancelNext, e.Kind)
		f = &Fault{Kind: e.Kind, Cancel: cancel}
	}
	e.Seq = atomic.AddInt64(&globalSeq, 1)
	s.events = append(s.events, e)
	return e, f
}

func (f *Fault) fire() error {
	if f == nil {
		return nil
	}
	if f.Cancel != nil {
		f.Cancel()
	}
	return f.Err
}

// Connector makes the state a database/sql connector.
type Connector struct{ S *State }

func (c Connector) Connect(ctx context.Context) (driver.Conn, error) {
	c.S.mu.Lock()
	c.S.nextConn++
	id := c.S.nextConn
	c.S.mu.Unlock()
	_, f := c.S.record(Event{Kind: "connect", Conn: id, Ctx: ctxInfo(ctx)})
	if err := f.fire(); err != nil {
		return nil, err
	}
	return &conn{s: c.S, id: id}, nil
}

func (c Connector) Driver() driver.Driver { return drv{} }

type drv struct{}

func (drv) Open(string) (driver.Conn, error) { return nil, errors.New("use OpenDB") }

// Open returns a sql.DB backed by a fresh state.
func Open() (*sql.DB, *State) {
	s := NewState()
	return sql.OpenDB(Connector{S: s}), s
}

type conn struct {
	s  *State
	id int
}

func (c *conn) Prepare(q string) (driver.Stmt, error) {
	return c.PrepareContext(context.Background(), q)
}

func (c *conn) PrepareContext(ctx context.Context, q string) (driver.Stmt, error) {
	if c.s.isDead(c.id) {
		return nil, driver.ErrBadConn
	}
	c.s.mu.Lock()
	c.s.nextStmt++
	id := c.s.nextStmt
	c.s.mu.Unlock()
	_, f := c.s.record(Event{Kind: "prepare", Conn: c.id, Stmt: id, SQL: q, Ctx: ctxInfo(ctx)})
	if f != nil && f.Gate != nil {
		close(f.Gate.Entered)
		select {
		case <-f.Gate.Release:
		case <-ctx.Done():
			return nil, ctx.Err()
		}
	} else if err := f.fire(); err != nil {
		return nil, err
	}
	c.s.mu.Lock()
	c.s.openStmts[id] = true
	c.s.mu.Unlock()
	return &stmt{c: c, id: id, sql: q}, nil
}

func (c *conn) Close() error {
	c.s.record(Event{Kind: "connclose", Conn: c.id})
	return nil
}

func (c *conn) Begin() (driver.Tx, error) { return c.BeginTx(context.Background(), driver.TxOptions{}) }

func (c *conn) BeginTx(ctx context.Context, _ driver.TxOptions) (driver.Tx, error) {
	_, f := c.s.record(Event{Kind: "begin", Conn: c.id, Ctx: ctxInfo(ctx)})
	if err := f.fire(); err != nil {
		return nil, err
	}
	return &tx{c: c}, nil
}

// ResetSession / IsValid keep database/sql from discarding connections silently.
func (c *conn) IsValid() bool { return true }

type tx struct{ c *conn }

func (t *tx) Commit() error {
	_, f := t.c.s.record(Event{Kind: "commit", Conn: t.c.id})
	return f.fire()
}

func (t *tx) Rollback() error {
	_, f := t.c.s.record(Event{Kind: "rollback", Conn: t.c.id})
	return f.fire()
}

type stmt struct {
	c      *conn
	id     int
	sql    string
	closed bool
}

func (st *stmt) Close() error {
	st.c.s.mu.Lock()
	if st.closed {
		st.c.s.DoubleClose++
	}
	st.closed = true
	delete(st.c.s.openStmts, st.id)
	st.c.s.mu.Unlock()
	_, f := st.c.s.record(Event{Kind: "stmtclose", Conn: st.c.id, Stmt: st.id})
	return f.fire()
}

func (st *stmt) NumInput() int { return -1 }

func (st *stmt) Exec([]driver.Value) (driver.Result, error) {
	return nil, errors.New("use ExecContext")
}
func (st *stmt) Query([]driver.Value) (driver.Rows, error) {
	return nil, errors.New("use QueryContext")
}

// ValueText is the canonical text of a value as the driver sees it.
func ValueText(v any) string {
	if b, ok := v.([]byte); ok {
		if b == nil {
			return "[]uint8:<nil>" // NULL, not the empty blob
		}
		return fmt.Sprintf("[]uint8:%x", b)
	}
	return fmt.Sprintf("%T:%v", v, v)
}

func argTexts(args []driver.NamedValue) (vals []string, names []string) {
	for _, a := range args {
		names = append(names, a.Name)
		vals = append(vals, ValueText(a.Value))
	}
	return
}

func (st *stmt) used() {
	st.c.s.mu.Lock()
	if st.closed {
		st.c.s.ClosedStmtUse++
	}
	st.c.s.mu.Unlock()
}

type result struct{ s *State }

func (r result) LastInsertId() (int64, error) { return r.s.script.LastInsertID, nil }
func (r result) RowsAffected() (int64, error) { return r.s.script.RowsAffected, nil }

func (st *stmt) ExecContext(ctx context.Context, args []driver.NamedValue) (driver.Result, error) {
	if st.c.s.isDead(st.c.id) {
		return nil, driver.ErrBadConn
	}
	st.used()
	vals, names := argTexts(args)
	_, f := st.c.s.record(Event{Kind: "exec", Conn: st.c.id, Stmt: st.id, SQL: st.sql, Args: vals, Names: names, Ctx: ctxInfo(ctx), Closed: st.closed})
	if err := f.fire(); err != nil {
		return nil, err
	}
	return result{st.c.s}, nil
}

func (st *stmt) QueryContext(ctx context.Context, args []driver.NamedValue) (driver.Rows, error) {
	if st.c.s.isDead(st.c.id) {
		return nil, driver.ErrBadConn
	}
	st.used()
	vals, names := argTexts(args)
	st.c.s.mu.Lock()
	st.c.s.nextRows++
	rid := st.c.s.nextRows
	sc := st.c.s.script
	st.c.s.mu.Unlock()
	_, f := st.c.s.record(Event{Kind: "query", Conn: st.c.id, Stmt: st.id, SQL: st.sql, Args: vals, Names: names, Ctx: ctxInfo(ctx), Rows: rid, Closed: st.closed})
	if err := f.fire(); err != nil {
		return nil, err
	}
	st.c.s.mu.Lock()
	st.c.s.openRows[rid] = true
	st.c.s.mu.Unlock()
	return &rows{st: st, id: rid, cols: sc.Columns, data: sc.Rows, moreSets: sc.ExtraResultSets}, nil
}

type rows struct {
	st     *stmt
	id     int
	cols   []string
	data   [][]driver.Value
	pos    int
	closed bool
	// further result sets still to come (driver.RowsNextResultSet)
	moreSets int
}

func (r *rows) HasNextResultSet() bool { return r.moreSets > 0 }

func (r *rows) NextResultSet() error {
	if r.moreSets == 0 {
		return io.EOF
	}
	r.moreSets--
	r.data = nil
	r.pos = 0
	return nil
}

func (r *rows) Columns() []string { return r.cols }

func (r *rows) Close() error {
	r.st.c.s.mu.Lock()
	slow := r.st.c.s.script.SlowClose
	r.st.c.s.mu.Unlock()
	if slow > 0 {
		time.Sleep(slow)
	}
	r.st.c.s.mu.Lock()
	if r.closed {
		r.st.c.s.DoubleClose++
	}
	r.closed = true
	delete(r.st.c.s.openRows, r.id)
	r.st.c.s.mu.Unlock()
	_, f := r.st.c.s.record(Event{Kind: "rowsclose", Conn: r.st.c.id, Stmt: r.st.id, Rows: r.id})
	return f.fire()
}

func (r *rows) Next(dest []driver.Value) error {
	_, f := r.st.c.s.record(Event{Kind: "next", Conn: r.st.c.id, Stmt: r.st.id, Rows: r.id})
	if err := f.fire(); err != nil {
		return err
	}
	if r.pos >= len(r.data) {
		return io.EOF
	}
	copy(dest, r.data[r.pos])
	r.pos++
	return nil
}
