/-
  L2Sound/C03ValsGuard: the guard under which the value-level predicate of C03
  (`holdsC03vals`, `SqlairModel/Spec/L2.lean`) is a theorem of the model
  (`holdsC03vals_model`, `Props/L2C03Vals.lean`).  The driver evaluates the predicate only
  under this guard; the three `holdsC03vals_needs_…` counterexamples show what happens
  without it.  Definitions only (imported by the driver).
-/
import SqlairModel.Spec.L2Rows
import SqlairProofs.NoPanic.Defs

namespace Sqlair

/-- an argument on which the search by tag (`valueByTag … 8`) and the index paths of the library
    agree: a map (looked up by key on both sides, nothing to assume), or a well-formed value on
    which `tagsOfVal … 8` succeeds (the fuel 8 covers the embedding depth and no embedded pointer
    is nil), the type table having no embedded pointer to a map or to a pointer -/
def c03valsArgOK (C : Cls) (tt : TypeTable) (v : GoVal) : Bool :=
  (tt.get (indirect v).tid).kind == .map ||
    (embPtrOK tt && valWF tt 64 v && (tagsOfVal C tt 8 v).isSome)

/-- the guard of `holdsC03vals`: every argument whose type name is named by an expression of the
    statement is `c03valsArgOK` (arguments no expression names are not looked at) -/
def c03valsGuards (C : Cls) (tt : TypeTable) (segs : List OSeg) (args : List GoVal) : Bool :=
  (segs.filter (·.kind != .bypass)).all fun s =>
    match s.types with
    | [a] => args.all fun v => v.typeName tt != a.ty || c03valsArgOK C tt v
    | _ => true

end Sqlair
