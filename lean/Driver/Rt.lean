/-
  Driver/Rt: JSON glue for the runtime layers (L4 scripted operations, L5 cache histories,
  L3 scans).
-/
import Lean.Data.Json
import SqlairModel.Spec.L4
import SqlairModel.Spec.L4Cancel
import SqlairModel.Spec.DriverClauses
import SqlairModel.Spec.L5
import Driver.Json

open Lean Sqlair Sqlair.Rt

namespace Driver

def optInt (j : Json) (k : String) : Option Nat :=
  match j.getObjVal? k with
  | .ok v => match v.getInt? with
    | .ok i => if i < 0 then none else some i.toNat
    | .error _ => none
  | .error _ => none

def strList (j : Json) (k : String) : List String :=
  (optList j k).toList.filterMap fun x => x.getStr?.toOption

def natList (j : Json) (k : String) : List Nat :=
  (optList j k).toList.filterMap fun x => x.getNat?.toOption

def gb (j : Json) (k : String) : Bool := (getBool j k).toOption.getD false
def gs (j : Json) (k : String) : String := (getStr j k).toOption.getD ""
def gn (j : Json) (k : String) : Nat := (optNat j k).getD 0

def parseL4Case (j : Json) : Rt.Case :=
  { hasOutputs := gb j "hasOutputs", path := gs j "path", ctx := gs j "ctx", nrows := gn j "nrows",
    badRow := optInt j "badRow", fetchErrAt := optInt j "fetchErrAt", closeErr := gb j "closeErr",
    prepareErr := gb j "prepareErr", runErr := gb j "runErr", txEnd := gs j "txEnd",
    finishers := strList j "finishers", concurrent := gn j "concurrent", op := gs j "op",
    dests := gs j "dests", calls := strList j "calls", cancelAt := optInt j "cancelAt",
    preCtx := gs j "preCtx", extraSets := gn j "extraSets", fewCols := gb j "fewCols",
    pairOp := gs j "pairOp", aEnd := gs j "aEnd", otherShape := gb j "otherShape", beginCancel := gb j "beginCancel" }

def parseL4Obs (j : Json) : Rt.Obs :=
  { returns := strList j "returns", events := strList j "events", eventCtx := strList j "eventCtx",
    eventConn := natList j "eventConn", inUse := gn j "inUse", openRows := gn j "openRows",
    doubleClose := gn j "doubleClose", closedUse := gn j "closedUse", stored := gn j "stored",
    priorKept := gb j "priorKept", appended := natList j "appended", outcome := gs j "outcome",
    finish := strList j "finish", winners := gn j "winners", preReturn := gs j "preReturn",
    rowsFaithful := (getBool j "rowsFaithful").toOption.getD true }

def predJson (p : Rt.Pred) : Json :=
  Json.mkObj [("returns", Json.arr (p.returns.map Json.str).toArray),
    ("events", Json.arr (p.log.map (fun e => Json.str e.render)).toArray),
    ("inUse", (p.inUse : Json)), ("stored", (p.stored : Json)),
    ("appended", Json.arr (p.appended.map (fun (n : Nat) => (n : Json))).toArray),
    ("outcome", Json.str p.outcome), ("finish", Json.arr (p.finish.map Json.str).toArray),
    ("evA", Json.arr (p.evA.map Json.str).toArray), ("evB", Json.arr (p.evB.map Json.str).toArray)]

-- `cancelReported` (C14, the cancellation half of its last sentence) is `Sqlair.Rt.cancelReported`,
-- `SqlairModel/Spec/L4Cancel.lean`; `cancelReported_of_returns_eq` (Props/L2Rows.lean) is its soundness.

-- `rowsIffOutputs` (C05, last sentence, as Get and Run show it) is `Sqlair.Rt.rowsIffOutputs`,
-- `SqlairModel/Spec/DriverClauses.lean`; soundness: `rowsIffOutputs_of_returns_eq`.

-- `txEndFaithful` (C12) and `getReadsFirstOnly` (C15) are `Sqlair.Rt.txEndFaithful` and
-- `Sqlair.Rt.getReadsFirstOnly`, `SqlairModel/Spec/DriverClauses.lean`; soundness:
-- `txEndFaithful_of_events_eq`, `txEndFaithful_model`, `getReadsFirstOnly_of_events_eq`,
-- `getReadsFirstOnly_model` (`Props/L4Clauses.lean`).

def handleL4 (j : Json) : Except String Json := do
  let c := parseL4Case (← j.getObjVal? "case")
  let o := parseL4Obs (← j.getObjVal? "obs")
  let p := predict c
  let ds := diffs c p o
  pure (Json.mkObj
    [("model", predJson p),
     ("agree", Json.bool ds.isEmpty),
     ("affects", Json.arr (ds.map (fun d => Json.str d.1)).eraseDups.toArray),
     ("diff", Json.str (String.intercalate "; " (ds.map (·.2)))),
     ("c09", Json.bool (holdsC09tx c o)), ("c06", Json.bool o.rowsFaithful),
     ("c05", Json.bool (rowsIffOutputs c p o)),
     ("c12", Json.bool (holdsC12 c o && txEndFaithful c p o)),
     -- (the result set is closed when the call returns, inside a transaction too)
     ("c13", Json.bool (holdsC13 c o && gn (← j.getObjVal? "obs") "openRowsAtReturn" == 0)),
     ("c14", Json.bool (holdsC14 c o && cancelReported c p o)), ("c15", Json.bool (holdsC15 c o && getReadsFirstOnly c p o)),
     ("c20", Json.bool (holdsC20 c o))])

open Sqlair.Cache in
def parseHOp (j : Json) : Except String HOp := do
  match gs j "op" with
  | "newS" => pure .newS
  | "newD" => pure .newD
  | "run" => pure (.run (gn j "s") (gn j "d") (gn j "shape"))
  | "mkq" => pure (.mkq (gn j "q") (gn j "s") (gn j "d") (gn j "shape"))
  | "runq" => pure (.runq (gn j "q"))
  | "dropS" => pure (.dropS (gn j "s"))
  | "dropD" => pure (.dropD (gn j "d"))
  | "gc" => pure .gc
  | o => throw s!"bad history op {o}"

open Sqlair.Cache in
def parseSegment (j : Json) : Except String Segment := do
  let calls ← (optList j "calls").toList.mapM fun c => do
    match c with
    | .arr #[k, a, b, d] => pure ((← k.getStr?), (← a.getNat?), (← b.getNat?), (← d.getNat?))
    | _ => throw "bad call"
  pure { calls := calls, closed := sortNat (natList j "closed") }

open Sqlair.Cache in
def segJson (s : Segment) : Json :=
  Json.mkObj [("calls", Json.arr (s.calls.map fun (k, a, b, d) => Json.arr #[Json.str k, (a : Json), (b : Json), (d : Json)]).toArray),
    ("closed", Json.arr (s.closed.map fun (n : Nat) => (n : Json)).toArray)]

open Sqlair.Cache in
def parseExecs (oj : Json) : List ExecObs :=
  (optList oj "execs").toList.filterMap fun e =>
    match e with
    | .arr #[a, b, c, d, f, g] =>
      match a.getNat?, b.getNat?, c.getNat?, d.getNat?, f.getNat?, g.getBool? with
      | .ok a, .ok b, .ok c, .ok d, .ok f, .ok g => some { ds := a, db := b, shape := c, wantDb := d, wantShape := f, closedBefore := g }
      | _, _, _, _, _, _ => none
    | _ => none

open Sqlair.Cache in
def handleL5 (j : Json) : Except String Json := do
  let h ← (← getArr j "history").toList.mapM parseHOp
  let oj ← j.getObjVal? "obs"
  let osegs ← (optList oj "segs").toList.mapM parseSegment
  let opairs : List (Nat × Nat × Nat) := (optList oj "pairs").toList.filterMap fun p =>
    match p with
    | .arr #[a, b, c] => match a.getNat?, b.getNat?, c.getNat? with
      | .ok a, .ok b, .ok c => some (a, b, c)
      | _, _, _ => none
    | _ => none
  let (st, segs) := runHistory h {} 0 [] 1
  -- the harness closes the last segment twice (after the final gc and at the end)
  let segs := segs.filter (fun s => s != {}) 
  let osegs := osegs.filter (fun s => s != {})
  let mpairs := st.pairs
  let sortP (l : List (Nat × Nat × Nat)) := l.foldl (fun acc x =>
    let rec ins : List (Nat × Nat × Nat) → List (Nat × Nat × Nat)
      | [] => [x]
      | y :: ys => if x.1 < y.1 || (x.1 == y.1 && x.2.1 ≤ y.2.1) then x :: y :: ys else y :: ins ys
    ins acc) []
  let dsegs := segs != osegs
  let dpairs := !(gb oj "noStats") && sortP mpairs != sortP opairs
  -- attribution: a wrong statement executed is C09's, a missing/extra close or cache entry C11's
  let callsOf (l : List Segment) := l.foldl (fun acc s => acc ++ s.calls) []
  let aff : List String :=
    (if callsOf segs != callsOf osegs then ["C09"] else []) ++
    (if (dsegs && callsOf segs == callsOf osegs) || dpairs then ["C11"] else [])
  let doubleClose := gn oj "doubleClose"
  let openStmts := gn oj "openStmts"
  let execs : List ExecObs := parseExecs oj
  let closedUse := gn oj "closedUse"
  pure (Json.mkObj
    [("model", Json.mkObj [("segs", Json.arr (segs.map segJson).toArray),
        ("pairs", Json.arr (mpairs.map fun (a, b, c) => Json.arr #[(a : Json), (b : Json), (c : Json)]).toArray)]),
     ("agree", Json.bool (!dsegs && !dpairs)),
     ("affects", Json.arr (aff.map Json.str).toArray),
     ("diff", Json.str (if dsegs then "driver log segments differ" else if dpairs then "cache content differs" else "")),
     ("c09", Json.bool (holdsC09 execs && holdsC09reuse (prepCounts h {} 1) (natList oj "prepPerOp"))),
     ("c10", Json.bool (holdsC10 execs (gn oj "closedErrs") && closedUse == 0)),
     -- C11 also says an evicted statement is closed only once its last user has finished
     ("c11", Json.bool (!(gb oj "leftOpen") && execs.all (fun e => !e.closedBefore) &&
        (if gb oj "noStats" then doubleClose == 0 && (!(gb oj "allDropped") || openStmts == 0)
         else holdsC11 doubleClose openStmts opairs.length 1 (gb oj "allDropped") opairs.length)))])

open Sqlair.Cache in
def handleL5c (j : Json) : Except String Json := do
  let oj ← j.getObjVal? "obs"
  let execs : List ExecObs := parseExecs oj
  -- transaction half: nothing a transaction issued ran on another connection
  let txOk := gn oj "txStray" == 0
  -- DB half: DBs created at the same moment are distinct cache keys (the first query of
  -- each reached its own driver)
  let c09 := holdsC09 execs && txOk && gn oj "dbStray" == 0
  let c10 := holdsC10 execs (gn oj "closedErrs")
  -- everything was dropped and collected: nothing may be left open or cached
  let c11 := gn oj "dupIDs" == 0 && gn oj "stmtEntriesLeft" == 0 &&
    execs.all (fun e => !e.closedBefore) && gn oj "closedErrs" == 0 &&
    holdsC11 (gn oj "doubleClose") (gn oj "openStmts") (gn oj "cacheLeft") 4 true (gn oj "cacheLeft")
  let why := (if c09 then "" else "an execution used a statement prepared for another SQL or DB, a transaction's statement ran outside its connection, or two DBs created at the same moment share a cache key; ") ++
    (if c10 then "" else "a closed statement was executed; ") ++
    (if c11 then "" else s!"two Statements share a cache id ({gn oj "dupIDs"}), Statement entries left after everything was dropped ({gn oj "stmtEntriesLeft"}), a statement was closed while a user still held it, or after dropping everything: open driver statements {gn oj "openStmts"}, cache entries {gn oj "cacheLeft"}, double closes {gn oj "doubleClose"}")
  pure (Json.mkObj [("c09", Json.bool c09), ("c10", Json.bool c10), ("c11", Json.bool c11), ("c12", Json.bool (txOk && gn oj "txAfterEnd" == 0)),
    -- C16: the SQL a call runs is the SQL of its own arguments, whatever runs concurrently
    -- (and Statements and DBs made at the same moment are distinct cache keys: "IDs by atomics")
    ("c16", Json.bool (holdsC09 execs && gn oj "dupIDs" == 0 && gn oj "dbStray" == 0)), ("why", Json.str why),
    ("execs", (execs.length : Json))])

def handleRt (j : Json) : Except String Json := do
  match gs j "sub" with
  | "l4" => handleL4 j
  | "l5" => handleL5 j
  | "l5c" => handleL5c j
  | s => throw s!"unknown runtime sub-layer {s}"

end Driver
