/-
  Parser properties: C01 (the nodes tile the input), C18 (the model never runs out of
  fuel), C19 (error positions lie inside the input).
-/
import SqlairProofs.Utf8
import SqlairProofs.Parser.Main

namespace Sqlair

/-! ### test environments for the non-vacuity examples -/

def asciiLetter (c : Nat) : Bool := (65 ≤ c && c ≤ 90) || (97 ≤ c && c ≤ 122)
def asciiDigit (c : Nat) : Bool := 48 ≤ c && c ≤ 57

/-- the environment of the Go implementation restricted to ASCII classifiers -/
def asciiEnv (s : String) : Env :=
  { inp := Bytes.ofString s, dec := decodeRune, letter := asciiLetter, digit := asciiDigit }

theorem asciiEnv_DecOK (s : String) : DecOK (asciiEnv s) := decodeRune_DecOK _ _ _

theorem asciiEnv_ClassOK (s : String) : ClassOK (asciiEnv s) := ⟨rfl, rfl⟩

/-- kinds and spans of the nodes of a successful parse (decidable view for the examples) -/
def parseNodes (E : Env) : Option (List (SegKind × Nat × Nat)) :=
  match parse E with
  | .ok segs => some (segs.map fun s => (s.kind, s.a, s.b))
  | .error _ => none

/-- the error of a failed parse (decidable view for the examples) -/
def parseError (E : Env) : Option PErr :=
  match parse E with
  | .ok _ => none
  | .error e => some e

/-! ### C01 -/

theorem c01_spans_chain (E : Env) (h : DecOK E) (segs : List Seg) (hp : parse E = .ok segs) :
    SpansChain 0 E.len segs := by
  have := parse_spec h
  rw [hp] at this
  exact this

/-- non-vacuity: a query with an output and an input expression parses into four nodes -/
example : parseNodes (asciiEnv "SELECT &T.* FROM t WHERE x=$M.y") =
    some [(.bypass, 0, 7), (.output, 7, 11), (.bypass, 11, 27), (.member, 27, 31)] := by
  decide +kernel

theorem flattenRaws_chain (inp : Bytes) {a b : Nat} {segs : List Seg} (hc : SpansChain a b segs) :
    (segs.map (Seg.toOSeg inp)).foldl (fun acc s => acc ++ s.raw) (inp.extract 0 a) = inp.extract 0 b := by
  induction hc with
  | nil x => rfl
  | cons s rest to hle _ ih =>
    simp only [List.map_cons, List.foldl_cons]
    have : inp.extract 0 s.a ++ (Seg.toOSeg inp s).raw = inp.extract 0 s.b := by
      show inp.extract 0 s.a ++ inp.extract s.a s.b = _
      rw [Array.extract_append_extract, Nat.zero_min, Nat.max_eq_right hle]
    rw [this]; exact ih

theorem c01_parse_tiling (E : Env) (h : DecOK E) : holdsC01 E.inp (modelObs E) = true := by
  unfold modelObs
  split
  · next segs hp =>
    have hc := c01_spans_chain E h segs hp
    show (flattenRaws (segs.map (Seg.toOSeg E.inp)) == E.inp) = true
    rw [beq_iff_eq]
    unfold flattenRaws
    have := flattenRaws_chain E.inp hc
    rw [Array.extract_zero] at this
    rw [this]
    exact Array.extract_eq_self_of_le (Nat.le_refl _)
  · rfl

/-- non-vacuity: the observation of a successful parse is an `.ok` with two nodes, so the
    tiling equation is really checked -/
example : (match modelObs (asciiEnv "a$M.y") with | .ok segs => segs.length | .err .. => 0) = 2 := by
  decide +kernel

/-! ### C18 -/

theorem c18_parse_no_fuel (E : Env) (h : DecOK E) (e : PErr) (hp : parse E = .error e) :
    e.kind ≠ EKind.fuel := by
  have := parse_spec h
  rw [hp] at this
  exact this.not_fuel

/-- non-vacuity: there are inputs on which `parse` reports an error -/
example : parseError (asciiEnv "x = 'abc") = some { line := 1, col := 5, kind := .missingQuote } := by
  decide +kernel

/-! ### C19 -/

theorem posInRange_of_errPos {E : Env} {e : PErr} (h : ErrPos E e) :
    posInRange E.inp e.line e.col = true := by
  obtain ⟨off, hle, heq⟩ := h
  unfold posInRange
  rw [List.any_eq_true]
  refine ⟨off, List.mem_range.mpr (by show off < E.len + 1; omega), ?_⟩
  rw [beq_iff_eq]; exact heq.symm

/-- if every reported error is positioned, the observation satisfies `errorPositionOK` -/
theorem errorPositionOK_of_errPos (E : Env) (hpos : ∀ e, parse E = .error e → ErrPos E e) :
    errorPositionOK E.inp (modelObs E) = true := by
  unfold modelObs
  split
  · rfl
  · next e hp =>
    have hpos : ErrPos E e := hpos e hp
    have hr := posInRange_of_errPos hpos
    show ((if hasNewline E.inp = true then some e.line else none).isSome == hasNewline E.inp &&
      posInRange E.inp ((if hasNewline E.inp = true then some e.line else none).getD 1) e.col) = true
    cases hnl : hasNewline E.inp with
    | true => simpa using hr
    | false =>
      obtain ⟨off, _, heq⟩ := hpos
      have hline : e.line = 1 := by
        rw [lineColOf_eq] at heq
        have := (Prod.mk.inj heq).1
        rw [nlCount_of_not_hasNewline _ hnl] at this
        exact this
      rw [hline] at hr
      simpa using hr

/-- every reported error is at the position of some offset of the input, provided the
    newline is neither a letter nor a digit -/
theorem c19_error_offset_partial (E : Env) (h : DecOK E) (hc : ClassOK E) (e : PErr)
    (hp : parse E = .error e) : ∃ off, off ≤ E.len ∧ (e.line, e.col) = lineColOf E.inp off := by
  have hs := parse_spec h
  rw [hp] at hs
  exact hs.pos (Or.inl hc)

/-- ... and, whatever the classifier, every error other than `unqualified` is -/
theorem c19_error_offset_other_kinds (E : Env) (h : DecOK E) (e : PErr)
    (hp : parse E = .error e) (hk : ∀ n, e.kind ≠ EKind.unqualified n) :
    ∃ off, off ≤ E.len ∧ (e.line, e.col) = lineColOf E.inp off := by
  have hs := parse_spec h
  rw [hp] at hs
  exact hs.pos (Or.inr hk)

/-- C19 under the (true of Go's classifiers) assumption that the newline is neither a letter
    nor a digit.  Without it the statement fails: see `c19_error_position_counterexample`. -/
theorem c19_error_position_partial (E : Env) (h : DecOK E) (hc : ClassOK E) :
    errorPositionOK E.inp (modelObs E) = true :=
  errorPositionOK_of_errPos E (c19_error_offset_partial E h hc)

/-- C19 for an arbitrary classifier, when the reported error (if any) is not `unqualified` -/
theorem c19_error_position_other_kinds_partial (E : Env) (h : DecOK E)
    (hk : ∀ e, parse E = .error e → ∀ n, e.kind ≠ EKind.unqualified n) :
    errorPositionOK E.inp (modelObs E) = true :=
  errorPositionOK_of_errPos E (fun e hp => c19_error_offset_other_kinds E h e hp (hk e hp))

/-- non-vacuity: an error on the second line of a two-line input (the `unqualified` error,
    whose column is computed from the state before the type name) -/
example : parseError (asciiEnv "SELECT 1;\nSELECT &T FROM t") =
    some { line := 2, col := 8, kind := .unqualified #[84] } := by
  decide +kernel

/-- The unrestricted statement of C19 (`DecOK` only) is false of the model: with a classifier
    that calls the newline a letter, the type name in `xxxx$a\nb` spans two lines and the
    `unqualified` error is reported at line 2, column 5, but line 2 has only 2 columns. -/
def c19BadEnv : Env :=
  { inp := Bytes.ofString "xxxx$a\nb", dec := decodeRune,
    letter := fun c => asciiLetter c || c == 10, digit := asciiDigit }

theorem c19_error_position_counterexample :
    ∃ E : Env, DecOK E ∧ errorPositionOK E.inp (modelObs E) = false :=
  ⟨c19BadEnv, decodeRune_DecOK _ _ _, by decide +kernel⟩

example : parseError c19BadEnv = some { line := 2, col := 5, kind := .unqualified #[97, 10, 98] } := by
  decide +kernel

end Sqlair
