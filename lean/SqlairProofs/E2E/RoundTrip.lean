/-
  E2E/RoundTrip: C17, second half of the composition: scanning the row that a
  `SELECT tag_0 AS _sqlair_0, …` of all the tags of a struct returns.
-/
import SqlairProofs.E2E.InsertStore
import SqlairProofs.Props.Scan

namespace Sqlair

/-- the outputs of `&T.*`: the field locators, in field order -/
def fieldOutputs (tid : Nat) (n : Bytes) (fields : List SField) : List Loc := fields.map (Loc.field tid n)

/-- the result columns of a select of `k` generated columns: `_sqlair_0, …, _sqlair_(k-1)` -/
def aliasCols (k : Nat) : List Bytes := (List.range k).map markerName

theorem join_eq_some {x : Option (Option String)} {t : String} (h : x.join = some t) : x = some (some t) := by
  cases x with
  | none => cases h
  | some o => cases o with
    | none => cases h
    | some y => simp at h; rw [h]

/-- scanning a row whose columns are the aliases of the fields of one struct, in field order:
    member `k` receives the text expected for the value of column `k` -/
theorem scan_fields {E : ScanEnv} {tt : TypeTable} {tid : Nat} {n : Bytes} {fields : List SField}
    {row : List DV} {dests dests' : List Dest} {di : Nat} {d : Dest}
    (hget : scanGet E tt (fieldOutputs tid n fields) (aliasCols fields.length) row dests = (dests', none))
    (hwf : WFOut (fieldOutputs tid n fields) dests) (hd : dests[di]? = some d) (htid : d.tid = tid) :
    ∃ d', dests'[di]? = some d' ∧
      ∀ (k : Nat) (f : SField), fields[k]? = some f → ∃ v txt, row[k]? = some v ∧
        expectedText E tt (.field tid n f) v = some txt ∧ d'.fieldVal f.index = some (some txt) := by
  obtain ⟨d', hd', _⟩ := (untouched_members hget).2 di d hd
  refine ⟨d', hd', ?_⟩
  have hout : ∀ (k : Nat) (f : SField), fields[k]? = some f →
      (fieldOutputs tid n fields)[k]? = some (.field tid n f) := by
    intro k f hk; simp [fieldOutputs, hk]
  -- every output index fits a Go int, because its alias was recognised among the columns
  have h63 : ∀ k, k < fields.length → k < 9223372036854775808 := by
    intro k hk
    obtain ⟨j, _, c, _, _, _, _, _, hc, _⟩ :=
      scan_every_output_assigned hget hwf (hout k fields[k] (List.getElem?_eq_getElem hk))
    exact markerIndex_lt hc
  have hcol : ∀ j c, (aliasCols fields.length)[j]? = some c → j < fields.length ∧ c = markerName j := by
    intro j c hj
    unfold aliasCols at hj
    rw [List.getElem?_map] at hj
    cases hr : (List.range fields.length)[j]? with
    | none => rw [hr] at hj; cases hj
    | some x =>
      rw [hr] at hj
      have hx := List.getElem?_eq_some_iff.1 hr
      have hjl : j < fields.length := by simpa using hx.1
      have : x = j := by simpa using hx.2.symm
      subst this
      exact ⟨hjl, by simpa using hj.symm⟩
  intro k f hk
  have hkl : k < fields.length := (List.getElem?_eq_some_iff.1 hk).1
  obtain ⟨v, txt, d'', hv, hd'', hex, hval⟩ :=
    scan_by_alias hget hwf (k := k) (j := k) (c := markerName k) (hout k f hk)
      (by simp [aliasCols, List.getElem?_range hkl]) (markerIndex_markerName_aux k (h63 k hkl))
      (by
        intro j' c' hlt hc' hm
        obtain ⟨hj', rfl⟩ := hcol j' c' hc'
        rw [markerIndex_markerName_aux j' (h63 j' hj')] at hm
        cases hm; omega)
      hd (by simpa [Loc.tid] using htid)
  rw [hd'] at hd''; cases hd''
  exact ⟨v, txt, hv, hex, join_eq_some hval⟩

theorem selectRow_getElem? (cols : List Bytes) (srow : SRow) (k : Nat) (c : Bytes) (h : cols[k]? = some c) :
    (selectRow cols srow)[k]? = some (rowGet srow c) := by
  simp [selectRow, h]

/-- with an identity conversion, a non-NULL value lands unchanged in a field of any category -/
theorem expectedText_field_some {E : ScanEnv} (hconv : ∀ v t, E.conv (some v) t = some v) (tt : TypeTable)
    (tid : Nat) (n : Bytes) (f : SField) (v : String) :
    expectedText E tt (.field tid n f) (some v) = some v := by
  simp only [expectedText]
  cases fieldCat tt (fieldTypeOf tt tid f.index true) <;> simp [hconv]

end Sqlair
