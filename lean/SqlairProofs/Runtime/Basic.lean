/-
  Runtime proofs, basics: the iterator call alphabet, `step`/`run`, and elementary facts
  about the `sql.Rows` model and the `Iterator` operations.
-/
import SqlairModel.Runtime

namespace Sqlair.Rt

/-! ### call sequences -/

/-- calls a client can make on an iterator; `cancel` = the query's context is cancelled
    while iterating (`Rows.cancel` on the rows, if the iterator has any) -/
inductive Call where
  | next | get (a : GetArgs) | close | cancel
deriving DecidableEq, Repr

inductive Out where
  | bool (b : Bool) | got (g : GetOut) | closed (e : Option Err) | none
deriving DecidableEq, Repr

/-- cancellation of the context of a running iterator (as in `runCalls` of Spec/L4) -/
def Iter.cancel (it : Iter) (w : World) : Iter × World :=
  match it.rows with
  | some r => let (r, w) := r.cancel w; ({ it with rows := some r }, w)
  | none => (it, w)

def step (it : Iter) (w : World) : Call → Iter × World × Out
  | .next => let (it, w, b) := it.next w; (it, w, .bool b)
  | .get a => (it, w, .got (it.get a))
  | .close => let (it, w, e) := it.close w; (it, w, .closed e)
  | .cancel => let (it, w) := it.cancel w; (it, w, .none)

def run (it : Iter) (w : World) : List Call → Iter × World × List Out
  | [] => (it, w, [])
  | c :: cs =>
    let (it, w, o) := step it w c
    let (it, w, os) := run it w cs
    (it, w, o :: os)

@[simp] theorem run_nil (it : Iter) (w : World) : run it w [] = (it, w, []) := rfl

theorem run_cons (it : Iter) (w : World) (c : Call) (cs : List Call) :
    run it w (c :: cs) =
      ((run (step it w c).1 (step it w c).2.1 cs).1,
       (run (step it w c).1 (step it w c).2.1 cs).2.1,
       (step it w c).2.2 :: (run (step it w c).1 (step it w c).2.1 cs).2.2) := rfl

theorem run_append (it : Iter) (w : World) (cs ds : List Call) :
    run it w (cs ++ ds) =
      ((run (run it w cs).1 (run it w cs).2.1 ds).1,
       (run (run it w cs).1 (run it w cs).2.1 ds).2.1,
       (run it w cs).2.2 ++ (run (run it w cs).1 (run it w cs).2.1 ds).2.2) := by
  induction cs generalizing it w with
  | nil => simp
  | cons c cs ih => simp [run_cons, ih]

@[simp] theorem step_next (it : Iter) (w : World) :
    step it w .next = ((it.next w).1, (it.next w).2.1, .bool (it.next w).2.2) := rfl
@[simp] theorem step_get (it : Iter) (w : World) (a : GetArgs) :
    step it w (.get a) = (it, w, .got (it.get a)) := rfl
@[simp] theorem step_close (it : Iter) (w : World) :
    step it w .close = ((it.close w).1, (it.close w).2.1, .closed (it.close w).2.2) := rfl
@[simp] theorem step_cancel (it : Iter) (w : World) :
    step it w .cancel = ((it.cancel w).1, (it.cancel w).2, .none) := rfl

/-! ### World -/

theorem World.ext' {w w' : World} (h1 : w.log = w'.log) (h2 : w.inUse = w'.inUse) : w = w' := by
  cases w; cases w'; simp_all

@[simp] theorem World.emit_log (w : World) (e : Ev) : (w.emit e).log = w.log ++ [e] := rfl
@[simp] theorem World.emit_inUse (w : World) (e : Ev) : (w.emit e).inUse = w.inUse := rfl

/-! ### Rows -/

theorem Rows.close_of_closed {r : Rows} (h : r.closed = true) (w : World) :
    r.close w = (r, w, none) := by
  simp [Rows.close, h]

theorem Rows.close_of_open {r : Rows} (h : r.closed = false) (w : World) :
    r.close w =
      ({ r with closed := true,
                lasterr := r.lasterr.or r.closeErr,
                cur := none },
       (let w1 := w.emit .rowsClose
        let w2 := if r.closeStmt then w1.emit .stmtClose else w1
        if r.holdsConn then { w2 with inUse := w2.inUse - 1 } else w2),
       r.closeErr) := by
  cases hl : r.lasterr <;> simp [Rows.close, h, hl]

@[simp] theorem Rows.close_closed (r : Rows) (w : World) : (r.close w).1.closed = true := by
  unfold Rows.close; split <;> simp_all

@[simp] theorem Rows.close_cur (r : Rows) (w : World) (h : r.closed = true → r.cur = none) :
    (r.close w).1.cur = none := by
  unfold Rows.close; split <;> simp_all

theorem Rows.next_of_closed {r : Rows} (h : r.closed = true) (w : World) :
    r.next w = (r, w, false) := by
  simp [Rows.next, h]

theorem Rows.next_false_closed (r : Rows) (w : World) (h : (r.next w).2.2 = false) :
    (r.next w).1.closed = true := by
  unfold Rows.next at *
  split
  · simp_all
  · split <;> simp_all

theorem Rows.cancel_of_closed {r : Rows} (h : r.closed = true) (w : World) :
    r.cancel w = (r, w) := by
  simp [Rows.cancel, h]

@[simp] theorem Rows.cancel_closed (r : Rows) (w : World) : (r.cancel w).1.closed = true := by
  unfold Rows.cancel; split <;> simp_all

/-! ### Iter: equations -/

theorem Iter.next_of_err {it : Iter} {e : Err} (h : it.err = some e) (w : World) :
    it.next w = ({ it with started := true }, w, false) := by
  simp [Iter.next, h]

theorem Iter.next_of_rows_none {it : Iter} (h : it.rows = none) (w : World) :
    it.next w = ({ it with started := true }, w, false) := by
  unfold Iter.next
  cases he : it.err <;> simp [h]

theorem Iter.next_of_rows {it : Iter} {r : Rows} (he : it.err = none) (h : it.rows = some r) (w : World) :
    it.next w = ({ it with started := true, rows := some (r.next w).1 }, (r.next w).2.1, (r.next w).2.2) := by
  simp [Iter.next, he, h]

theorem Iter.close_of_rows_none {it : Iter} (h : it.rows = none) (w : World) :
    it.close w = ({ it with started := true }, w, it.err) := by
  simp [Iter.close, h]

theorem Iter.close_of_rows {it : Iter} {r : Rows} (h : it.rows = some r) (w : World) :
    it.close w =
      (let err := it.err.or ((r.close w).1.lasterr.or (r.close w).2.2)
       ({ it with started := true, rows := none, err := err }, (r.close w).2.1, err)) := by
  cases he : it.err <;> cases hl : (r.close w).1.lasterr <;> simp [Iter.close, h, Rows.err, he, hl]

theorem Iter.cancel_of_rows_none {it : Iter} (h : it.rows = none) (w : World) :
    it.cancel w = (it, w) := by
  simp [Iter.cancel, h]

theorem Iter.cancel_of_rows {it : Iter} {r : Rows} (h : it.rows = some r) (w : World) :
    it.cancel w = ({ it with rows := some (r.cancel w).1 }, (r.cancel w).2) := by
  simp [Iter.cancel, h]

@[simp] theorem Iter.close_rows (it : Iter) (w : World) : (it.close w).1.rows = none := by
  cases hr : it.rows
  · simp [Iter.close_of_rows_none hr, hr]
  · simp [Iter.close_of_rows hr]

/-- `Close` returns the error it stores -/
@[simp] theorem Iter.close_err (it : Iter) (w : World) : (it.close w).1.err = (it.close w).2.2 := by
  cases hr : it.rows
  · simp [Iter.close_of_rows_none hr]
  · simp [Iter.close_of_rows hr]

@[simp] theorem Iter.close_hasOutputs (it : Iter) (w : World) : (it.close w).1.hasOutputs = it.hasOutputs := by
  cases hr : it.rows
  · simp [Iter.close_of_rows_none hr]
  · simp [Iter.close_of_rows hr]

@[simp] theorem Iter.close_started (it : Iter) (w : World) : (it.close w).1.started = true := by
  cases hr : it.rows
  · simp [Iter.close_of_rows_none hr]
  · simp [Iter.close_of_rows hr]

theorem Iter.next_cases (it : Iter) (w : World) :
    it.next w = ({ it with started := true }, w, false) ∨
    ∃ r, it.err = none ∧ it.rows = some r ∧
      it.next w = ({ it with started := true, rows := some (r.next w).1 }, (r.next w).2.1, (r.next w).2.2) := by
  rcases Option.eq_none_or_eq_some it.err with he | ⟨e, he⟩
  · rcases Option.eq_none_or_eq_some it.rows with hr | ⟨r, hr⟩
    · exact .inl (Iter.next_of_rows_none hr w)
    · exact .inr ⟨r, he, hr, Iter.next_of_rows he hr w⟩
  · exact .inl (Iter.next_of_err he w)

@[simp] theorem Iter.next_err (it : Iter) (w : World) : (it.next w).1.err = it.err := by
  rcases Iter.next_cases it w with h | ⟨r, _, _, h⟩ <;> simp [h]

@[simp] theorem Iter.next_hasOutputs (it : Iter) (w : World) : (it.next w).1.hasOutputs = it.hasOutputs := by
  rcases Iter.next_cases it w with h | ⟨r, _, _, h⟩ <;> simp [h]

@[simp] theorem Iter.next_started (it : Iter) (w : World) : (it.next w).1.started = true := by
  rcases Iter.next_cases it w with h | ⟨r, _, _, h⟩ <;> simp [h]

@[simp] theorem Iter.next_result (it : Iter) (w : World) : (it.next w).1.result = it.result := by
  rcases Iter.next_cases it w with h | ⟨r, _, _, h⟩ <;> simp [h]

@[simp] theorem Iter.cancel_err (it : Iter) (w : World) : (it.cancel w).1.err = it.err := by
  cases hr : it.rows
  · simp [Iter.cancel_of_rows_none hr]
  · simp [Iter.cancel_of_rows hr]

@[simp] theorem Iter.cancel_hasOutputs (it : Iter) (w : World) : (it.cancel w).1.hasOutputs = it.hasOutputs := by
  cases hr : it.rows
  · simp [Iter.cancel_of_rows_none hr]
  · simp [Iter.cancel_of_rows hr]

/-- a stored error is never lost or replaced by `Close` -/
theorem Iter.close_err_of_err {it : Iter} {e : Err} (h : it.err = some e) (w : World) :
    (it.close w).2.2 = some e := by
  cases hr : it.rows
  · simp [Iter.close_of_rows_none hr, h]
  · simp [Iter.close_of_rows hr, h]

end Sqlair.Rt
