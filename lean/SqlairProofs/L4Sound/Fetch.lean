/-
  L4Sound: the fetch script of a case, the errors a case injects, and the closed form of
  `GetAll` with its argument checks.
-/
import SqlairProofs.L4Sound.Pair

namespace Sqlair.Rt

/-! ### `Case.fetch` -/

/-- the rows of a case -/
def l4s_rows (c : Case) : List Row :=
  (List.range c.nrows).map fun i => { id := i + 1, scanOK := some i != c.badRow }

theorem l4s_fetch_eq (c : Case) :
    c.fetch = match c.fetchErrAt with
      | none => (l4s_rows c).map .ok
      | some k => ((l4s_rows c).take k).map .ok ++ [.error (.inj 3)] := by
  unfold Case.fetch l4s_rows
  cases c.fetchErrAt with
  | none => simp
  | some k => simp [List.map_take, Function.comp_def]

theorem l4s_fetch_nil {c : Case} : c.fetch = [] ↔ c.nrows = 0 ∧ c.fetchErrAt = none := by
  rw [l4s_fetch_eq]
  cases c.fetchErrAt with
  | none => simp [l4s_rows]
  | some k => simp

theorem l4s_rows_head {c : Case} {row : Row} {rest : List Row} (h : l4s_rows c = row :: rest) :
    row = { id := 1, scanOK := some 0 != c.badRow } := by
  unfold l4s_rows at h
  cases hn : c.nrows with
  | zero => simp [hn] at h
  | succ n =>
    rw [hn, List.range_succ_eq_map] at h
    simp at h
    exact h.1.symm

/-- the first fetch result of a case, if it is a row, is row 1 -/
theorem l4s_fetch_head_ok {c : Case} {row : Row} {rest : List (Except Err Row)} (h : c.fetch = .ok row :: rest) :
    row = { id := 1, scanOK := some 0 != c.badRow } := by
  rw [l4s_fetch_eq] at h
  cases hrows : l4s_rows c with
  | nil => cases hf : c.fetchErrAt <;> simp [hf, hrows] at h
  | cons r rs =>
    have hr := l4s_rows_head hrows
    cases hf : c.fetchErrAt with
    | none => simp [hf, hrows] at h; rw [← h.1, hr]
    | some k =>
      cases k with
      | zero => simp [hf, hrows] at h
      | succ k => simp [hf, hrows] at h; rw [← h.1, hr]

theorem l4s_fetch_error_mem {c : Case} {e : Err} (h : Except.error e ∈ c.fetch) : e = .inj 3 := by
  rw [l4s_fetch_eq] at h
  cases hf : c.fetchErrAt with
  | none => simp [hf] at h
  | some k =>
    simp [hf] at h
    rcases h with h | h
    · have := List.mem_of_mem_take h
      simp at this
    · exact h

theorem l4s_fetch_head_error {c : Case} {e : Err} {rest : List (Except Err Row)} (h : c.fetch = .error e :: rest) :
    e = .inj 3 ∧ c.fetchErrAt.isSome = true := by
  refine ⟨l4s_fetch_error_mem (by rw [h]; simp), ?_⟩
  rw [l4s_fetch_eq] at h
  cases hf : c.fetchErrAt with
  | none =>
    simp only [hf] at h
    cases hr : l4s_rows c <;> simp [hr] at h
  | some k => rfl

theorem l4s_rows_ids (c : Case) : (l4s_rows c).map (·.id) = (List.range c.nrows).map (· + 1) := by
  simp [l4s_rows]

/-- all fetches succeed only without a scripted fetch failure; the rows are then 1 … nrows -/
theorem l4s_fetch_all_ok {c : Case} (h : ∀ x ∈ c.fetch, ∃ row, x = Except.ok row ∧ row.scanOK = true) :
    c.fetchErrAt = none ∧ (okRows c.fetch).map (·.id) = (List.range c.nrows).map (· + 1) := by
  have hnone : c.fetchErrAt = none := by
    cases hf : c.fetchErrAt with
    | none => rfl
    | some k =>
      exfalso
      have hmem : Except.error (Err.inj 3) ∈ c.fetch := by rw [l4s_fetch_eq, hf]; simp
      obtain ⟨row, hrow, _⟩ := h _ hmem
      cases hrow
  refine ⟨hnone, ?_⟩
  rw [l4s_fetch_eq, hnone]
  simp only [okRows_map_ok, l4s_rows_ids]

/-! ### the errors a case injects -/

theorem l4s_script_noInjectedNoRows (c : Case) (td : Bool) : (c.script td).NoInjectedNoRows := by
  refine ⟨?_, ?_, ?_, ?_⟩
  · cases h : c.prepareErr <;> simp [Case.script, h]
  · cases h : c.runErr <;> simp [Case.script, h]
  · cases h : c.closeErr <;> simp [Case.script, h]
  · intro h
    have hf : (c.script td).fetch = c.fetch := rfl
    rw [hf] at h
    cases hc : c.fetch with
    | nil => simp [hc] at h
    | cons x rest =>
      simp [hc] at h
      subst h
      have := (l4s_fetch_head_error hc).1
      cases this

theorem l4s_script_closeErr (c : Case) (td : Bool) :
    (c.script td).closeErr = none ∨ (c.script td).closeErr = some (.inj 4) := by
  cases h : c.closeErr <;> simp [Case.script, h]

theorem l4s_script_closeErr_none {c : Case} (h : c.closeErr = false) (td : Bool) : (c.script td).closeErr = none := by
  simp [Case.script, h]

theorem l4s_openErr_cases (s : Script) :
    s.openErr = none ∨ s.openErr = some .txDone ∨ s.openErr = some .ctx ∨
    (s.openErr = s.prepareErr ∧ s.ctxDone = false) ∨ (s.openErr = s.runErr ∧ s.ctxDone = false) := by
  obtain ⟨ho, ca, tx, td, cd, pe, re, fe, ce, res⟩ := s
  cases ca <;> cases tx <;> cases td <;> cases cd <;> cases pe <;> cases re <;> simp [Script.openErr]

/-- the error `Query.Iter` ends with, for the script of a case -/
theorem l4s_script_openErr (c : Case) (td : Bool) :
    (c.script td).openErr = none ∨ (c.script td).openErr = some .txDone ∨ (c.script td).openErr = some .ctx ∨
    (c.script td).openErr = some (.inj 1) ∨ (c.script td).openErr = some (.inj 2) := by
  rcases l4s_openErr_cases (c.script td) with h | h | h | ⟨h, _⟩ | ⟨h, _⟩
  · exact .inl h
  · exact .inr (.inl h)
  · exact .inr (.inr (.inl h))
  · rw [h]; cases hp : c.prepareErr <;> simp [Case.script, hp]
  · rw [h]; cases hp : c.runErr <;> simp [Case.script, hp]

/-! ### `GetAll` with its argument checks -/

/-- closed form of the result of `queryGetAllArgs` -/
def l4s_getAllArgsSpec (s : Script) (args : List SliceArg) (dv : Bool) : GetAllResult :=
  if !s.hasOutputs && decide (args.length > 0) then { err := some (.sqlair "outputs-not-referenced") } else
  if args.any SliceArg.rejectedUpFront then { err := some (.sqlair "getall-args") } else
  if args.contains .badElem then
    match s.openErr with
    | some e => { err := some e }
    | none =>
      if !s.hasOutputs then { err := none } else
      match s.fetch with
      | [] => { err := some (s.closeErr.getD .noRows) }
      | .error e :: _ => { err := some e }
      | .ok _ :: _ => { err := some (.sqlair "getall-elem") }
  else getAllSpec s args.length dv

theorem l4s_queryGetAllArgs_fst (s : Script) (args : List SliceArg) (dv : Bool) (w : World) :
    (queryGetAllArgs s args dv w).1 = l4s_getAllArgsSpec s args dv := by
  unfold queryGetAllArgs l4s_getAllArgsSpec
  split
  · rfl
  · split
    · rfl
    · split
      · cases hoe : s.openErr with
        | some e =>
          have hro : s.runsOK = false := by simp [Script.runsOK, hoe]
          simp [iterOpen_eq, hoe, hro, Script.openRows, Iter.next, Iter.close]
        | none =>
          have hro : s.runsOK = true := by simp [Script.runsOK, hoe]
          cases hout : s.hasOutputs with
          | false => simp [iterOpen_eq, hoe, hro, hout, Script.openRows, Iter.next, Iter.close]
          | true =>
            cases hf : s.fetch with
            | nil =>
              cases hce : s.closeErr <;>
                simp [iterOpen_eq, hoe, hro, hout, hf, hce, Script.openRows, Iter.next, Iter.close, Rows.next,
                  Rows.close, Rows.err]
            | cons x rest =>
              cases x with
              | error e =>
                simp [iterOpen_eq, hoe, hro, hout, hf, Script.openRows, Iter.next, Iter.close, Rows.next,
                  Rows.close, Rows.err]
              | ok row =>
                simp [iterOpen_eq, hoe, hro, hout, hf, Script.openRows, Iter.next, Iter.close, Rows.next,
                  Rows.close, Rows.err]
      · exact queryGetAll_fst s _ dv w

end Sqlair.Rt
