"""Static configuration of the checks: which layers serve which property, sizes per tier."""

TRUSTED_BASE = [
    "Lean 4.33 kernel; axioms limited to propext, Classical.choice, Quot.sound (audited with #print axioms each run)",
    "the Go harness (/verif/harness: generators, fake database/sql driver, reflect->descriptor translator, canonicaliser), "
    "the Lean driver's JSON glue, this orchestrator",
    "the two verif-tagged read-only hooks in /repo (parsed segments, cache snapshot)",
    "correspondence is sampling: it bounds, not eliminates, divergence between model and code",
]

LAYERS = {
    'l1': {
        'n': {'quick': 4000, 'thorough': 60000},
        'shards': {'quick': 1, 'thorough': 12},
        'crash_props': ['C18'],
    },
    'l2': {
        'n': {'quick': 4000, 'thorough': 30000},
        'shards': {'quick': 1, 'thorough': 12},
        'extra': {'quick': [], 'thorough': ['-conc', '4']},
        'crash_props': ['C18'],
    },
    'l2race': {
        'harness_layer': 'l2', 'race': True, 'only_tier': 'thorough',
        'n': {'quick': 0, 'thorough': 2500},
        'shards': {'quick': 1, 'thorough': 2},
        'extra': {'quick': [], 'thorough': ['-conc', '8']},
        'crash_props': ['C18'],
    },
    'l5race': {
        'harness_layer': 'l5', 'race': True, 'only_tier': 'thorough',
        'n': {'quick': 0, 'thorough': 20},
        'shards': {'quick': 1, 'thorough': 2},
        'extra': {'quick': [], 'thorough': ['-conc', '30']},
        'crash_props': ['C18'],
    },
    'l4': {
        'n': {'quick': 10000, 'thorough': 60000},
        'shards': {'quick': 1, 'thorough': 8},
        'crash_props': ['C18'],
    },
    'l3': {
        'n': {'quick': 2500, 'thorough': 30000},
        'shards': {'quick': 1, 'thorough': 8},
        'crash_props': ['C18'],
    },
    'l5': {
        'n': {'quick': 120, 'thorough': 600},
        'shards': {'quick': 1, 'thorough': 8},
        'extra': {'quick': ['-conc', '40'], 'thorough': ['-conc', '160']},
        'crash_props': ['C18'],
    },
    'zoo': {
        'n': {'quick': 1500, 'thorough': 20000},
        'shards': {'quick': 1, 'thorough': 4},
        'crash_props': ['C18'],
    },
    'sqlite': {
        'n': {'quick': 400, 'thorough': 6000},
        'shards': {'quick': 1, 'thorough': 8},
        'crash_props': ['C18'],
    },
}

PROPS = {
    'C01': {
        'layers': ['l1', 'l2'],
        'modelled_not_verified': ["UTF-8 decoding is proved to satisfy the decoder assumptions (DecOK) but its equality with Go's "
                                  "utf8.DecodeRuneInString is checked by correspondence only",
                                  "strings.EqualFold on the two ASCII keywords is modelled as ASCII case folding",
                                  "unicode.IsLetter/IsDigit are parameters of every theorem (shipped from Go per case)"],
        'assumptions': ["prevExprEnd/currentExprStart/exprs are touched by the main loop only (frame property is by construction "
                        "of the model; validated by the segment correspondence)"],
    },
    'C02': {
        'layers': ['l1', 'l2'],
        'modelled_not_verified': ["as C01"],
        'assumptions': ["the reference lexer in Lean (SqlairModel/Lexer.lean) is the specification of literal/comment regions"],
    },
    'C03': {'layers': ['l2'], 'modelled_not_verified': ["database/sql conversion of Go values to driver values is applied by the harness translator (canonical value text), not modelled", "reflect is modelled by type descriptors and value trees produced by reflection over the compiled zoo types (translator in the trusted base)", "error identity under Go map iteration is not compared, only accept/reject (and insert/bulk family)"], 'assumptions': []},
    'C04': {'layers': ['l2', 'sqlite'], 'modelled_not_verified': ["database/sql conversion of Go values to driver values is applied by the harness translator (canonical value text), not modelled", "reflect is modelled by type descriptors and value trees produced by reflection over the compiled zoo types (translator in the trusted base)", "error identity under Go map iteration is not compared, only accept/reject (and insert/bulk family)"], 'assumptions': ["O2: provider order dependence outside the one-provider-per-column domain is reproduced literally"]},
    'C05': {'layers': ['l2', 'l4'], 'modelled_not_verified': ["database/sql conversion of Go values to driver values is applied by the harness translator (canonical value text), not modelled", "reflect is modelled by type descriptors and value trees produced by reflection over the compiled zoo types (translator in the trusted base)", "error identity under Go map iteration is not compared, only accept/reject (and insert/bulk family)"], 'assumptions': []},
    'C06': {'layers': ['l3', 'l4'], 'modelled_not_verified': ["database/sql convertAssign / Scanner.Scan are a parameter `conv` answered per case by the installed database/sql (oracle)", "destinations are flattened field stores produced by the harness translator", "the state of a direct target whose conversion failed is unspecified"], 'assumptions': ["foreign columns are not of the exact form _sqlair_<n> (the library's reserved alias space)"]},
    'C07': {'layers': ['l2'], 'modelled_not_verified': ["database/sql conversion of Go values to driver values is applied by the harness translator (canonical value text), not modelled", "reflect is modelled by type descriptors and value trees produced by reflection over the compiled zoo types (translator in the trusted base)", "error identity under Go map iteration is not compared, only accept/reject (and insert/bulk family)"], 'assumptions': ["the executable bindTypes of the model is the specification of well-typedness"]},
    'C08': {'layers': ['l2'], 'modelled_not_verified': ["database/sql conversion of Go values to driver values is applied by the harness translator (canonical value text), not modelled", "reflect is modelled by type descriptors and value trees produced by reflection over the compiled zoo types (translator in the trusted base)", "error identity under Go map iteration is not compared, only accept/reject (and insert/bulk family)"], 'assumptions': ["the executable validateInputs/bindInputs of the model is the specification of acceptable argument lists"]},
    'C16': {'layers': ['l2', 'l2race', 'l5', 'l5race'], 'modelled_not_verified': ["database/sql conversion of Go values to driver values is applied by the harness translator (canonical value text), not modelled", "reflect is modelled by type descriptors and value trees produced by reflection over the compiled zoo types (translator in the trusted base)", "error identity under Go map iteration is not compared, only accept/reject (and insert/bulk family)"] + ["data races are not expressible in the model"], 'assumptions': []},
    'C17': {'layers': ['sqlite'], 'modelled_not_verified': ["SQLite's parser and semantics are observed (real go-sqlite3), not modelled"], 'assumptions': []},
    'C09': {'layers': ['l5', 'l4'], 'modelled_not_verified': ["per-connection re-prepare of an sql.Stmt is database/sql's (exact logs use one pooled connection; several connections are checked by invariants)"], 'assumptions': []},
    'C10': {'layers': ['l5'], 'modelled_not_verified': ["which objects the Go runtime considers reachable (liveness of the Query closure's captured Statement/DB, Iterator->driverStmt edge) and finalizer scheduling are the enabling conditions of the finalizer steps: an assumption, sampled by forced-GC histories"], 'assumptions': []},
    'C11': {'layers': ['l5'], 'modelled_not_verified': ["as C10", "database/sql defers the driver-level close until dependent rows are closed"], 'assumptions': []},
    'C12': {'layers': ['l4', 'l5', 'sqlite'], 'modelled_not_verified': ["sql.Tx (done flag, connection pinning, Tx.Stmt, closing open rows at the end) is an environment model validated by the L4 correspondence"], 'assumptions': ["Commit makes all take effect together / Rollback none is the engine's transaction semantics given the bracket; observed with real SQLite, not proved"]},
    'C13': {'layers': ['l4'], 'modelled_not_verified': ["database/sql pool (InUse), Rows auto-close on EOF/error, driver ErrBadConn retry (not modelled, not generated)"], 'assumptions': []},
    'C14': {'layers': ['l4'], 'modelled_not_verified': ["sql.Rows (lasterr, Close, Err, Scan ordering) is an environment model validated by the L4 correspondence"], 'assumptions': []},
    'C15': {'layers': ['l4'], 'modelled_not_verified': ["rows are abstract ids with a converts/does-not-convert flag; the scan itself is C06's"], 'assumptions': []},
    'C20': {'layers': ['l4'], 'modelled_not_verified': ["database/sql checks ctx.Done() before acquiring a connection (DB.conn, Tx.grabConn)"], 'assumptions': ["O3: on the TX-cached path sql.Tx.Stmt may prepare under a background context; nothing is executed"]},
    'C18': {'layers': ['zoo', 'l1', 'l2', 'l3', 'l4', 'l5'], 'modelled_not_verified': ["panic conditions of reflect / runtime primitives are not modelled: absence of panics on the value zoo is observed (recover, watchdog), not proved", "memory exhaustion is out of scope"], 'assumptions': ["receivers (nil *Statement, *DB, *TX) are outside the guarantee"]},
    'C19': {
        'layers': ['l1'],
        'modelled_not_verified': ["as C01", "fmt formatting of the messages is ported by hand; %q of arbitrary text is compared by its fixed parts only"],
        'assumptions': [],
    },
}

PARSER_NOTE = ("Trusted: Lean kernel; model is a hand port of parser.go validated per run by the L1 correspondence (segments, raw text, "
               "error line/column/message) on generated queries; theorems assume DecOK of the decoder (proved for the model's decodeRune) and, "
               "where stated, ClassOK (newline is not a letter/digit); the decoder's equality with Go's utf8 and EqualFold->ASCII folding are "
               "checked by correspondence only")

CLAIMED = {
    'C01': {
        'text': "Proved in Lean for every byte string, decoder satisfying DecOK and classifier: the parser model's nodes tile the input "
                "(c01_parse_tiling, c01_spans_chain, restore discipline lemmas) and, end to end over parse + bindTypes + bindInputs + renderSQL, the SQL sent is the in-order concatenation of the same spans with each expression span replaced by its expansion and each bypass span copied verbatim (c01_end_to_end); a query without expressions is sent byte for byte (c01_no_expression_unchanged); expression spans are exact - every expression node parsed on its own yields exactly that node (c01_expr_spans_exact_go, a relational pass over all parser functions), so no node swallows bytes around its expression; the model is tied to parser.go by per-run differential "
                "correspondence (L1: nodes; L2: SQL at the driver, bypass chunks verbatim and in order). Proof is the right level because the property "
                "quantifies over all byte strings and the defect class (a helper that consumes without restoring) is invisible to sampled tests.",
        'note': PARSER_NOTE + "; what each expansion contains is the subject of C03-C05",
        'technique': 'Lean 4 proof over executable parser model (invariants, restore discipline) + differential correspondence',
        'design_ref': 'DESIGN.md section 5 C01, Appendix A',
    },
    'C19': {
        'text': "Proved in Lean for every input: every parse error of the model has a (line, column) that is the position of an offset inside the text "
                "and shows the line iff the input is multi-line (c19_error_position_partial under ClassOK, plus the classifier-free variant and a "
                "machine-checked counterexample showing ClassOK is needed); and for every k>0 the observation of newline^k ++ q is the observation of q "
                "moved by k lines (c19_newline_shift, c19_shift_accept_iff, c19_holds: the very predicate evaluated on the implementation). The implementation is "
                "compared with the model and checked against holdsC19 on every generated query and its k in {1,2,7} shifts.",
        'note': PARSER_NOTE,
        'technique': 'Lean 4 proof (line-bookkeeping invariant through every parse function) + differential correspondence on (q, newline-prefixed q)',
        'design_ref': 'DESIGN.md section 5 C19',
    },
}

RT_NOTE = "Trusted: Lean kernel; the runtime model (SqlairModel/Runtime.lean) is a hand port of sqlair.go over a model of the parts of database/sql it uses (Rows, Stmt events, Tx, context check), validated per run by the L4 correspondence: returned values, driver event log, InUse for scripted operations with faults injected at every driver call; ErrBadConn retries and data races are outside the model"

CLAIMED.update({
    'C02': {
        'text': "Proved in Lean for every byte string: the parser model rejects every input whose literal never closes according to an independent reference lexer, and no expression "
                "node of an accepted input starts or ends strictly inside a literal or comment region (c02_opaque, with bridge lemmas equating the parser's two skippers with the lexer and "
                "machine-checked witnesses that neither hypothesis can be dropped); instantiated for the Go-faithful decoder (c02_opaque_go). Metamorphic form (c02_blank_invariant_go, by a relational pass over all parser "
                "functions): the query and the query with the contents of all its literals and comments overwritten are parsed into the same node kinds and sizes, or rejected at the same line and "
                "column. Tied to parser.go by the L1 correspondence; both predicates (holdsC02, holdsC02opaque) are evaluated on the implementation's nodes, the second by parsing the blanked "
                "query with the real parser; L2 checks that literal values of an INSERT reach the driver byte for byte.",
        'note': PARSER_NOTE + "; hypotheses AsciiDec (ASCII byte decodes to itself) and ClassAscii (quotes, '-', '/', blanks are not name characters) are proved for the model's decoder and for every classifier agreeing with ASCII tables",
        'technique': 'Lean 4 proof (lexer-state invariant and a relational blanking pass carried through every parse function) + differential and metamorphic correspondence',
        'design_ref': 'DESIGN.md section 5 C02',
    },
    'C12': {
        'text': "Proved in Lean for all finish-call sequences and all permutations of them (= interleavings of the atomic compare-and-swap): exactly one Commit/Rollback reaches the driver, "
                "all others return ErrTXDone and emit nothing; a query on a finished TX (also a Query object created earlier) leaves the world unchanged. Connection identity and bracketing of TX "
                "statements between BEGIN and the finisher, cached and uncached, are checked on the implementation's driver log (holdsC12) and compared with the model's log.",
        'note': RT_NOTE, 'technique': 'Lean 4 proof over TX state machine (all permutations) + driver-log correspondence', 'design_ref': 'DESIGN.md section 5 C12',
    },
    'C13': {
        'text': "Proved in Lean for every fault script, retrieval method and argument mistake: when Get/GetAll/Run return, or any Iterator call sequence containing Close returns, every result "
                "set opened has exactly one close event and inUse equals its value before the call (induction over the row list with a failure at any row).",
        'note': RT_NOTE, 'technique': 'Lean 4 proof (balance invariant over all fault scripts) + fault-script correspondence', 'design_ref': 'DESIGN.md section 5 C13',
    },
    'C14': {
        'text': "Proved in Lean for every call sequence over {Next, Get(valid/outcome/nil outcome/invalid), Close, cancel}, every result size and fault position: Close is idempotent, Next is "
                "sticky-false, rows are delivered in driver order each once, Get before Next errs, and a fetch failure or cancellation that ended iteration is returned by every Close.",
        'note': RT_NOTE, 'technique': 'Lean 4 proof (iterator protocol invariants by induction over call sequences) + call-sequence correspondence', 'design_ref': 'DESIGN.md section 5 C14',
    },
    'C15': {
        'text': "Proved in Lean for every script: GetAll is all-or-nothing and succeeds only with every row of the result (failure at any row, scan error, close error are reported); Get returns "
                "ErrNoRows exactly for an empty result of a statement with outputs (exact characterisation; the tidy iff needs the proviso that the driver does not inject ErrNoRows itself) and stores the first row.",
        'note': RT_NOTE, 'technique': 'Lean 4 proof (closed forms getSpec/getAllSpec by induction on the row list) + correspondence', 'design_ref': 'DESIGN.md section 5 C15',
    },
    'C20': {
        'text': "Proved in Lean: a context that is done at run time produces no driver event and the context's error through Iter, Get and GetAll. That the driver sees the caller's context "
                "(values, deadline) at prepare and execution, nil = Background, for every retrieval method x DB/TX x cached/uncached is checked on the implementation's driver log by holdsC20.",
        'note': RT_NOTE + "; the theorem is short, the correspondence carries the weight for the context-identity half", 'technique': 'Lean 4 proof + driver-log correspondence with context markers',
        'design_ref': 'DESIGN.md section 5 C20',
    },
})

CLAIMED['C18'] = {
    'text': "Partial. Proved in Lean: the parser model terminates on every byte string (no loop exhausts its fuel: c18_parse_no_fuel and the scanner-loop totality lemmas), GetAll's row "
            "loop terminates, every reachable Iterator state is well-formed; Prepare never reaches a panic class, an internal error or fuel exhaustion (bindTypes_no_panic, getStructFields_no_fuel); "
            "Query on a prepared statement with argument trees of the shape their types promise (ValWF: what Go's type system guarantees, checked by the driver on every generated input) never reaches a "
            "panic class and fails only with one of 20 listed argument-error classes (bindInputs_no_panic, bindInputs_error_classes_args); field paths stay inside the struct (fieldByIndex_no_panic, "
            "locateTarget_no_oob). The panic classes of the model are the reflect panics the code could reach (field of non-struct, index out of range, nil dereference). Observed, not proved: no panic / fatal error / hang on a zoo of ~130 Go values (every kind, nil and typed-nil "
            "values, pointers to nil maps, nil embedded struct pointers, recursive embedded types, unexported fields, ...) in every argument position of Prepare, Query, Get, GetAll, "
            "Iterator.Get, on odd result columns and on random byte strings as queries; crashes seen by any other layer are attributed here. The six panics of the pinned tree were repaired (known_findings.json).",
    'note': "Trusted: Lean kernel for the termination and no-panic theorems; the model's panic classes stand for the panic conditions of the reflect primitives it uses, other runtime panics "
            "(nil map writes, unrecovered driver panics, stack overflow) rest on the sampled zoo (recover + 20 s watchdog + process exit code)",
    'technique': 'Lean 4 termination/totality/no-panic-class proofs over the models + exhaustive-by-position value-zoo sweep under recover/watchdog',
    'design_ref': 'DESIGN.md section 5 C18',
}

CACHE_NOTE = "Trusted: Lean kernel; the cache model (SqlairModel/Cache.lean) is a hand port of cache.go and of the run closure as a transition system over atomic steps, validated per run by the L5 correspondence (sequential histories with forced GC to quiescence: driver log segments and cache content compared exactly through the verif cache-snapshot hook; concurrent runs with open iterators and GC at random points: invariants on the driver log). Partial: GC reachability is modelled by enabling conditions (DESIGN section 3, 10); data races below critical-section granularity are outside the model"

CLAIMED.update({
    'C09': {
        'text': "Proved in Lean for every reachable state of the cache transition system, i.e. every interleaving of look-up / prepare / insert-evict / execute steps of any number of "
                "operations on any Statements and DBs with finalizers firing anywhere: every execution uses a driver statement prepared from exactly that call's SQL on that call's DB; "
                "a hit is sound; an unchanged query is reused without a prepare.",
        'note': CACHE_NOTE, 'technique': 'Lean 4 proof (inductive invariant over atomic-step transition system = all interleavings) + history correspondence', 'design_ref': 'DESIGN.md section 5 C09',
    },
    'C10': {
        'text': "Partial (GC liveness assumed). Proved in Lean for all interleavings and all placements of finalizer steps and reference drops: no execution ever targets a statement whose "
                "Close was called; a statement held by an in-flight operation or an open Iterator is not closed at the driver.",
        'note': CACHE_NOTE, 'technique': 'Lean 4 proof (invariant incl. GC enabling conditions) + forced-GC history correspondence', 'design_ref': 'DESIGN.md section 5 C10',
    },
    'C11': {
        'text': "Partial (GC liveness assumed). Proved in Lean: index consistency (which makes the finalizers' unchecked map accesses safe), Close at most once per statement, and after "
                "everything is dropped garbage collection to quiescence empties the cache and closes every driver statement exactly once; open statements are bounded by cached entries "
                "plus evicted-but-held plus in-flight prepared ones (the sketched bound without the last term is false between prepare and insert: machine-checked witness).",
        'note': CACHE_NOTE, 'technique': 'Lean 4 proof (invariant + termination measure of gc) + forced-GC history correspondence with cache snapshot hook', 'design_ref': 'DESIGN.md section 5 C11',
    },
})

CLAIMED['C06'] = {
    'text': "Proved in Lean for every type table, outputs list, column list, row, destination list and conversion function: the value under the alias of output k lands in exactly the "
            "member output k designates (scan_by_alias), independent of column order and foreign columns (scan_perm_invariant: equal stores, maps as unordered maps), untouched members "
            "keep their value, NULL semantics per target kind, and errors detected by ScanArgs (missing column, unused destination) leave every destination unchanged; only exact "
            "_sqlair_<n> names are markers (both directions). Tied to query.go/valuelocator.go/scan.go by the L3 correspondence on scripted rows.",
    'note': "Trusted: Lean kernel; the scan model is a hand port over flattened destinations (translator in the harness) with database/sql's conversion as a parameter answered by an "
            "oracle that asks the installed database/sql; the state of a direct target whose conversion failed is left unspecified; the outputs list comes from the L2 model",
    'technique': 'Lean 4 proof (store algebra, permutation of commuting writes) + scripted-row correspondence with conversion oracle',
    'design_ref': 'DESIGN.md section 5 C06',
}

BIND_NOTE = "Trusted: Lean kernel; the bind model (SqlairModel/Types.lean, Bind.lean) is a hand port of typeinfo and of bindtypes/bindinputs/querybuilder over a reflect universe of type descriptors and value trees, validated per run by the L2 correspondence (Prepare accept/reject, Query accept/reject, SQL text, named values, Query-vs-Exec at a scripted driver) on the zoo of compiled Go types with perturbed samples and arguments; the model is fed the implementation's parsed nodes; database/sql's value conversion is applied by the harness translator, not modelled; theorems speak about structured pieces whose rendering mirrors sqlBuilder (the link from piece numbers to occurrences in the rendered text is by construction of render, not proved)"

CLAIMED.update({
    'C03': {'text': "Proved in Lean for every typed expression list, type table and argument list: argument names are distinct, placeholders and arguments correspond one to one (dense 0..k-1), numbers are handed out in textual order, a slice input expands to one placeholder per element in order (none for the empty slice) with the element values. The value-level clause is additionally checked on the implementation against an independent search-by-tag specification (valueByTag).",
            'note': BIND_NOTE, 'technique': 'Lean 4 proof (query-builder invariant over foldlM) + driver-level correspondence + independent by-tag value spec', 'design_ref': 'DESIGN.md section 5 C03'},
    'C04': {'text': "Proved in Lean: insert pieces are rectangular, the row count is the common bulk length or 1, the cell specification (literal / shared single value passed once / element r's value, column-major numbering), omitted columns vanish from header, tuples and arguments, and the four rejection families return errors. Column selection and provider rules of bindTypes are compared with the implementation (accept/reject, SQL); round trip against SQLite.",
            'note': BIND_NOTE + "; O2 (provider order dependence outside the one-provider domain) is reproduced literally", 'technique': 'Lean 4 proof (bindCols/insertRows specifications) + correspondence + SQLite twin-table comparison', 'design_ref': 'DESIGN.md section 5 C04'},
    'C05': {'text': "Proved in Lean: aliases are 0..n-1 in textual order and outputs[k] is the destination of alias k; rows are returned iff there is a non-empty output expression; end to end from any byte string through the parser model no generated column is a wildcard. Per-form column lists (sorted tags, table prefix, verbatim explicit columns) are compared with the implementation's SQL.",
            'note': BIND_NOTE, 'technique': 'Lean 4 proof (output counter invariant; parser-to-binder wildcard theorem) + correspondence', 'design_ref': 'DESIGN.md section 5 C05'},
    'C07': {'text': "Proved in Lean: Prepare (bindTypes of the model) accepts exactly the declaratively WellTyped (nodes, samples) - bindTypes_ok_iff_wellTyped, with generateArgInfo_ok_iff (samples), getStructFields_ok_iff_structOK (struct validity incl. embedding cycles), bindSeg_ok_iff (all seven node kinds) and the informal reading prepare_ok_reading (every named type has exactly one sample, every sample is used); after a successful Prepare no argument list can produce an internal error, locators have the right kinds. The model is tied to the code on generated statements x sample sets (missing, extra, duplicated, same-named, pointer, anonymous, nil, rejected struct shapes): a disagreement on accept/reject is a concrete failing input. Partial only in that the field list of a struct (getStructFields) is the model's function, characterised for success but not restated declaratively.",
            'note': BIND_NOTE, 'technique': 'Lean 4 proof (acceptance iff declarative WellTyped; no internal error) + accept/reject correspondence', 'design_ref': 'DESIGN.md section 5 C07'},
    'C08': {'text': "Proved in Lean: Query (bindInputs of the model) accepts exactly the ArgsOK argument lists (bindInputs_ok_iff_argsOK: every argument valid, of a distinct type, read by some input; every input located - locateParams_ok_iff_located gives the exact parameters), a rejected list yields no primed query (rejected_args_reach_nothing), the acceptance condition of ValidateInputs and its independence of argument order, and that an unusable argument fails with an argument error (never an internal one). Partial only in that ArgsOK inherits the order-directed clash condition of ValidateInputs. Checked on the implementation: Query accepts exactly the argument lists the model accepts over all forms (T, *T, []T, []*T, *[]T, **T, anonymous, nil variants, foreign same-named types alone and in addition) and a rejected Query produces no driver event.",
            'note': BIND_NOTE, 'technique': 'Lean 4 proof (acceptance iff ArgsOK, validateInputs_ok_iff, permutation) + correspondence with empty-driver-log check', 'design_ref': 'DESIGN.md section 5 C08'},
    'C16': {'text': "Partial (data races not modelled). Proved in Lean: for a prepared statement the result of bindInputs (SQL pieces, arguments, outputs) is invariant under permutation of the arguments (the unrestricted statement is false for hand-built expressions: kernel-checked counterexamples); bindInputs is a pure function of (typed expressions, arguments). Checked on the implementation: permuted samples/arguments, a separately prepared Statement, a Query built before another Query of the same Statement, and (thorough) concurrent runs all produce byte-identical SQL and arguments.",
            'note': BIND_NOTE + "; freedom from data races is not expressible in the model", 'technique': 'Lean 4 proof (permutation invariance) + repeated/interleaved/concurrent run comparison', 'design_ref': 'DESIGN.md section 5 C16'},
    'C17': {'text': "Partial (SQLite observed, not modelled). Proved in Lean: the composition c17_roundtrip_prepared_partial - INSERT (*) VALUES ($T.*) prepared, bound with T / []T / []*T values, executed by the engine model, read by SELECT &T.* and scanned into a fresh T gives back every kept member and zero / nil / Scan(NULL) for members omitted by omitempty (assumptions: the toy column store stands for the engine, identity conversion, Get succeeds on distinct destinations) - built from the store half (store_roundtrip, unwritten_column_is_null), C04's cell specification and C06's scan theorems. Observed against real SQLite: every generated insert/select/update/delete is accepted, tables written through SQLair equal twin tables written with hand-written SQL, rows read back equal the rows inserted. Known finding: an insert whose every column is omitted is rejected by the engine.",
            'note': "Trusted: Lean kernel for the store/bind/scan theorems; go-sqlite3 as the engine; the engine is a toy column store in the theorem and real SQLite in the observation", 'technique': 'Lean 4 proofs of store/bind/scan halves + real-engine twin-table comparison', 'design_ref': 'DESIGN.md section 5 C17'},
})

NOT_CLAIMED_REASON = {}

_P = 'SqlairProofs.Props.'
PROP_MODULES = {
    'C01': [_P + 'Parser', _P + 'Bind', _P + 'E2E', _P + 'Exact', _P + 'L2Sound'], 'C02': [_P + 'C02', _P + 'Opaque', _P + 'L2Sound'], 'C19': [_P + 'Parser', _P + 'C19Shift'],
    'C03': [_P + 'Bind', _P + 'L2Sound', _P + 'L2RowsModel', _P + 'L2C03Vals', _P + 'L2Tokens'], 'C04': [_P + 'Bind', _P + 'L2Sound', _P + 'L2Rows', _P + 'L2RowsModel', _P + 'L2Clauses'], 'C05': [_P + 'Bind', _P + 'L2Sound', _P + 'L2RowsModel', _P + 'L2Tokens'], 'C07': [_P + 'Bind', _P + 'E2E', _P + 'Typed'], 'C08': [_P + 'Bind', _P + 'Typed'], 'C16': [_P + 'Bind', _P + 'L5Interleave'],
    'C06': [_P + 'Scan', _P + 'L3Sound'], 'C09': [_P + 'Cache', _P + 'L4Sound', _P + 'L5Sound', _P + 'L5Interleave'], 'C10': [_P + 'Cache', _P + 'L5Sound', _P + 'L5Interleave'], 'C11': [_P + 'Cache', _P + 'L5Sound', _P + 'L5Interleave', _P + 'L5Quiescent'],
    'C12': [_P + 'Runtime', _P + 'L4Sound', _P + 'L4Clauses'], 'C13': [_P + 'Runtime', _P + 'L4Sound'], 'C14': [_P + 'Runtime', _P + 'L4Sound', _P + 'L2Rows'], 'C15': [_P + 'Runtime', _P + 'L4Sound', _P + 'L4Clauses'], 'C20': [_P + 'Runtime', _P + 'L4Sound'],
    'C17': [_P + 'Store', _P + 'Bind', _P + 'Scan', _P + 'E2E'], 'C18': [_P + 'Parser', _P + 'Runtime', _P + 'NoPanic'],
}
