/-
  L5Sound/InterleaveDefs: the observation the MODEL produces from an ARBITRARY list of atomic
  steps (an arbitrary interleaving of any number of operations, reference drops, iterator
  closes and finalizer runs), in the vocabulary of the checker's predicates (`ExecObs`,
  `holdsC09`, `holdsC10`, `holdsC11` of Spec/L5).

  `execsOfSteps` is an instrumented replay of `run`: it folds `step` over the list and, at
  every enabled `exec t iter` step (the only steps that append an execution event to the
  driver log), records
    * the driver statement the operation holds, with the DB and the SQL shape the
      driver-statement table `St.ds` has for it,
    * the DB and the shape the operation `t` asked for (`Op.d`, `Op.sql`, fixed by its
      `query` step),
    * whether the statement had been closed: `Close` called on it (the model then logs
      `execClosed`) or a `close` event of it already in the log (how the harness derives the
      flag).

  `wantsOfSteps` is the same attribution in the format of the sequential observation
  (`l5s_execsOf`): index of the event in the driver log ↦ wanted pair.

  This file only depends on the model (no proof files).
-/
import SqlairProofs.L5Sound.Defs

namespace Sqlair.Cache

/-- what one step contributes to the observation, in the state it is taken in -/
def l5i_stepObs (st : St) : Step → List ExecObs
  | .exec t iter =>
    if (step st (.exec t iter)).isSome then
      match st.getOp t with
      | some o =>
        match o.pc with
        | .ready id =>
          match st.getDS id with
          | some x =>
            [{ ds := id, db := x.db, shape := x.sql, wantDb := o.d, wantShape := o.sql,
               closedBefore := x.closeCalled || st.log.contains (.close id) }]
          | none => []
        | _ => []
      | none => []
    else []
  | _ => []

/-- instrumented `run` from an arbitrary state (steps that are not enabled are skipped, as in
    `run`, and contribute nothing) -/
def l5i_execsFrom : St → List Step → List ExecObs
  | _, [] => []
  | st, x :: xs => l5i_stepObs st x ++ l5i_execsFrom ((step st x).getD st) xs

/-- the executions observed in the run of `steps` from the initial state -/
def execsOfSteps (steps : List Step) : List ExecObs := l5i_execsFrom {} steps

/-- the wanted pair of the operation that takes an enabled `exec` step, attached to the index
    of the event the step appends -/
def l5i_stepWant (st : St) : Step → List (Nat × Nat × Nat)
  | .exec t iter =>
    if (step st (.exec t iter)).isSome then
      match st.getOp t with
      | some o => [(st.log.length, o.d, o.sql)]
      | none => []
    else []
  | _ => []

def l5i_wantsFrom : St → List Step → List (Nat × Nat × Nat)
  | _, [] => []
  | st, x :: xs => l5i_stepWant st x ++ l5i_wantsFrom ((step st x).getD st) xs

/-- event index ↦ `(wantDb, wantShape)` for the run of `steps` from the initial state -/
def wantsOfSteps (steps : List Step) : List (Nat × Nat × Nat) := l5i_wantsFrom {} steps

/-- the events of a log that are executions (successful or "statement is closed") -/
def l5i_isExecEv : Ev → Bool
  | .exec .. => true
  | .execClosed _ => true
  | _ => false

/-- the driver statements with two or more `close` events in a log, read off the log alone
    (what the harness counts as `doubleClose`) -/
def l5i_doubleCloseLog (log : List Ev) : Nat :=
  (log.filter fun e => match e with
    | .close ds => 2 ≤ l5s_closes log ds
    | _ => false).length

end Sqlair.Cache
