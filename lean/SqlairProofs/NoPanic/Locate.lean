/-
  NoPanic/Locate: on well-formed arguments, with locators produced by `bindTypes`, the input
  side (`locateParams`, `addToQuery`, `bindInputs`) only reports error classes of the closed
  list `inputErrorClasses`, none of which is a panic class or an internal error.
-/
import SqlairProofs.Bind.Errors
import SqlairProofs.Bind.Perm
import SqlairProofs.NoPanic.Locs

namespace Sqlair

/-- the error classes of the input side on well-formed arguments: `validateInputs`,
    `locateParams`, the query builder -/
def inputErrorClasses : List String := [
  "nil-argument", "nil-pointer", "nil-map", "anonymous-struct-or-map", "type-and-slice",
  "anonymous-slice", "unsupported-kind", "type-provided-twice",
  "nil-embedded-pointer", "same-name-different-type", "value-missing", "map-key-missing",
  "empty-slice", "nil-pointer-in-slice", "nil-map-in-slice", "omitempty-mix",
  "omitempty-explicit-zero", "bulk-outside-insert", "mismatched-bulk-lengths", "argument-not-used"]

/-- no class of the list is a panic class or an internal error -/
theorem inputErrorClasses_not_panic : ∀ e ∈ inputErrorClasses, ¬ IsPanic e ∧ ¬ isInternal e := by
  decide +kernel

/-- closes goals `"literal" ∈ inputErrorClasses` -/
macro "cls" : tactic => `(tactic| (simp [inputErrorClasses]))

/-! ### the argument table -/

/-- every entry of the argument table is keyed by the type of its value, which is well-formed -/
def TtvWF (tt : TypeTable) (m : TypeToValue) : Prop := ∀ p ∈ m, p.1 = p.2.tid ∧ ValWF tt p.2

theorem validateInputs_ttvWF {tt : TypeTable} {args : List GoVal} {m : TypeToValue}
    (hwf : ∀ a ∈ args, ValWF tt a) (h : validateInputs tt args [] = .ok m) : TtvWF tt m := by
  obtain ⟨rfl, _⟩ := (validateInputs_nil_ok_iff tt args m).1 h
  intro p hp
  simp only [List.mem_map] at hp
  obtain ⟨a, ha, rfl⟩ := hp
  exact ⟨rfl, (hwf a ha).indirect⟩

/-- an argument as the caller may pass it: an untyped nil (`.invalid`, rejected by
    `validateValue`) or a well-formed value -/
def ArgWF (tt : TypeTable) (a : GoVal) : Prop := a = .invalid ∨ ValWF tt a

theorem ValWF.argWF {tt : TypeTable} {a : GoVal} (h : ValWF tt a) : ArgWF tt a := Or.inr h

theorem validateInputs_ttvWF' {tt : TypeTable} {args : List GoVal} {m : TypeToValue}
    (hwf : ∀ a ∈ args, ArgWF tt a) (h : validateInputs tt args [] = .ok m) : TtvWF tt m := by
  refine validateInputs_ttvWF (fun a ha => ?_) h
  rcases hwf a ha with rfl | hv
  · exfalso
    obtain ⟨_, hacc, _⟩ := (validateInputs_nil_ok_iff tt args m).1 h
    have := hacc _ ha
    simp [argOK, validateValue, Except.isOk, Except.toBool] at this
  · exact hv

theorem ttvGet_wf {tt : TypeTable} {m : TypeToValue} (hm : TtvWF tt m) {t : Nat} {s : GoVal}
    (h : ttvGet m t = some s) : s.tid = t ∧ ValWF tt s := by
  unfold ttvGet at h
  simp only [Option.map_eq_some_iff] at h
  obtain ⟨p, hf, rfl⟩ := h
  have hp := hm p (List.mem_of_find?_eq_some hf)
  have := List.find?_some hf
  simp only [beq_iff_eq] at this
  exact ⟨by rw [← hp.1]; exact this, hp.2⟩

/-- the bulk slice found for the type `t`: a well-formed `.slice` node whose elements are
    well-formed values of type `t` or of a pointer type to `t` -/
theorem locateBulk_wf {tt : TypeTable} {m : TypeToValue} (hm : TtvWF tt m) {t : Nat} {v : GoVal}
    (hnp : (tt.get t).kind ≠ .ptr) (h : locateBulk tt m t = some v) :
    ∃ hd els, v = .slice hd els ∧ ∀ e ∈ els, ValWF tt e ∧ npEmbTarget tt e.tid = t := by
  have key : ∀ p : Nat × GoVal, p ∈ m → (isSliceOf tt p.1 t = true ∨ isSliceOfPtr tt p.1 t = true) →
      ∃ hd els, p.2 = .slice hd els ∧ ∀ e ∈ els, ValWF tt e ∧ npEmbTarget tt e.tid = t := by
    intro p hp hs
    obtain ⟨hkey, hwf⟩ := hm p hp
    have hk : (tt.get p.2.tid).kind = .slice := by
      rw [← hkey]
      rcases hs with hs | hs
      · simp only [isSliceOf, Bool.and_eq_true, beq_iff_eq] at hs; exact hs.1.1
      · simp only [isSliceOfPtr, Bool.and_eq_true, beq_iff_eq] at hs; exact hs.1.1.1.1
    obtain ⟨hd, els, hv, hty, hel⟩ := hwf.slice_inv hk
    refine ⟨hd, els, hv, fun e he => ⟨hel e he, ?_⟩⟩
    have hdt : hd.t = p.1 := by rw [hkey, hv]; rfl
    have hte := hty e he
    rw [hdt] at hte
    rcases hs with hs | hs
    · simp only [isSliceOf, Bool.and_eq_true, beq_iff_eq] at hs
      rw [hte, hs.2]
      simp [npEmbTarget, hnp]
    · simp only [isSliceOfPtr, Bool.and_eq_true, beq_iff_eq] at hs
      rw [hte]
      simp [npEmbTarget, hs.1.1.2, hs.2]
  unfold locateBulk at h
  split at h
  · rename_i p hf
    cases h
    exact key p (List.mem_of_find?_eq_some hf) (Or.inl (by simpa using List.find?_some hf))
  · simp only [Option.map_eq_some_iff] at h
    obtain ⟨p, hf, rfl⟩ := h
    exact key p (List.mem_of_find?_eq_some hf) (Or.inr (by simpa using List.find?_some hf))

/-! ### the bulk loops -/

/-- an element of a bulk slice for the (non-pointer) type `t`: nil pointer, or a well-formed
    value of type `t` -/
theorem bulkElem_wf {tt : TypeTable} {e : GoVal} {t : Nat} (he : ValWF tt e)
    (hemb : npEmbTarget tt e.tid = t) :
    bulkElem e = .error "nil-pointer-in-slice" ∨ ∃ s, bulkElem e = .ok s ∧ ValWF tt s ∧ s.tid = t := by
  by_cases hkp : (tt.get e.tid).kind = .ptr
  · have ht : (tt.get e.tid).elem = t := by simpa [npEmbTarget, hkp] using hemb
    rcases he.ptr_inv hkp with ⟨hd, rfl⟩ | ⟨hd, p, rfl, hpt, hpw⟩
    · exact Or.inl rfl
    · exact Or.inr ⟨p, rfl, hpw, by rw [hpt]; exact ht⟩
  · have ht : e.tid = t := by simpa [npEmbTarget, hkp] using hemb
    refine Or.inr ⟨e, ?_, he, ht⟩
    unfold bulkElem
    split
    · exact absurd he.kind_of_ptr hkp
    · exact absurd he.kind_of_ptr hkp
    · rfl

theorem bulkFieldVals_classes {tt : TypeTable} {tid : Nat} (f : SField)
    (hk : (tt.get tid).kind = .struct) (hp : PathOK tt tid f.index) :
    ∀ (els : List GoVal) (first om : Bool) (acc : List String) (x : String),
      (∀ e ∈ els, ValWF tt e ∧ npEmbTarget tt e.tid = tid) →
      bulkFieldVals f els first om acc = .error x → x ∈ inputErrorClasses := by
  intro els
  induction els with
  | nil => intro first om acc x _ h; simp [bulkFieldVals] at h
  | cons e rest ih =>
    intro first om acc x hels h
    have hrest : ∀ e ∈ rest, ValWF tt e ∧ npEmbTarget tt e.tid = tid :=
      fun e' he' => hels e' (List.mem_cons_of_mem _ he')
    obtain ⟨hew, hee⟩ := hels e (by simp)
    unfold bulkFieldVals at h
    rcases bulkElem_wf hew hee with hb | ⟨s, hb, hsw, hst⟩
    · rw [hb] at h; cases h; cls
    · rw [hb] at h
      simp only at h
      rcases fieldByIndex_wf hsw hst hk hp with ⟨r, hr, _⟩ | hr
      · rw [hr] at h
        simp only at h
        repeat' split at h
        all_goals first | exact ih _ _ _ _ hrest h | (cases h; cls)
      · rw [hr] at h; cases h; cls

theorem bulkMapVals_classes {tt : TypeTable} {tid : Nat} (key : Bytes) (hk : (tt.get tid).kind = .map) :
    ∀ (els : List GoVal) (acc : List String) (x : String),
      (∀ e ∈ els, ValWF tt e ∧ npEmbTarget tt e.tid = tid) →
      bulkMapVals key els acc = .error x → x ∈ inputErrorClasses := by
  intro els
  induction els with
  | nil => intro acc x _ h; simp [bulkMapVals] at h
  | cons e rest ih =>
    intro acc x hels h
    have hrest : ∀ e ∈ rest, ValWF tt e ∧ npEmbTarget tt e.tid = tid :=
      fun e' he' => hels e' (List.mem_cons_of_mem _ he')
    obtain ⟨hew, hee⟩ := hels e (by simp)
    unfold bulkMapVals at h
    rcases bulkElem_wf hew hee with hb | ⟨s, hb, hsw, hst⟩
    · rw [hb] at h; cases h; cls
    · rw [hb] at h
      obtain ⟨hd, kv, rfl⟩ := hsw.map_inv (by rw [hst]; exact hk)
      cases kv with
      | none => simp only at h; cases h; cls
      | some l =>
        simp only at h
        split at h
        · cases h; cls
        · exact ih _ _ hrest h

theorem valueNotFound_classes (tt : TypeTable) (m : TypeToValue) (t : Nat) :
    valueNotFound tt m t ∈ inputErrorClasses := by
  unfold valueNotFound; split <;> cls

/-! ### `locateParams` -/

/-- on a well-formed argument table, a locator produced by `bindTypes` only fails with a
    class of the list -/
theorem locateParams_classes {C : Cls} {tt : TypeTable} {m : TypeToValue} {l : Loc} {e : String}
    (hm : TtvWF tt m) (hl : l.GenOK C tt) (h : locateParams tt m l = .error e) :
    e ∈ inputErrorClasses := by
  cases l with
  | slice tid n =>
    obtain ⟨hk, _⟩ := hl
    simp only [locateParams] at h
    split at h
    · cases h
    · rename_i s hne hg
      exfalso
      obtain ⟨hst, hwf⟩ := ttvGet_wf hm hg
      obtain ⟨hd, els, rfl, _⟩ := hwf.slice_inv (by rw [hst]; exact hk)
      exact hne _ _ rfl
    · cases h; exact valueNotFound_classes _ _ _
  | mapKey tid n key =>
    obtain ⟨hk, _⟩ := hl
    have hnp : (tt.get tid).kind ≠ .ptr := by rw [hk]; simp
    simp only [locateParams] at h
    split at h
    · split at h
      · cases h; cls
      · cases h
    · rename_i s hne hg
      exfalso
      obtain ⟨hst, hwf⟩ := ttvGet_wf hm hg
      obtain ⟨hd, kv, rfl⟩ := hwf.map_inv (by rw [hst]; exact hk)
      exact hne _ _ rfl
    · split at h
      · rename_i hd els hb
        obtain ⟨hd', els', hv, hels⟩ := locateBulk_wf hm hnp hb
        cases hv
        split at h
        · cases h; cls
        · split at h
          · rename_i x hx
            cases h
            exact bulkMapVals_classes key hk _ _ _ hels hx
          · cases h
      · rename_i v hne hb
        exfalso
        obtain ⟨hd', els', hv, _⟩ := locateBulk_wf hm hnp hb
        exact hne _ _ hv
      · cases h; exact valueNotFound_classes _ _ _
  | field tid n f =>
    have hp := hl.pathOK
    obtain ⟨hk, _⟩ := hl
    have hnp : (tt.get tid).kind ≠ .ptr := by rw [hk]; simp
    simp only [locateParams] at h
    split at h
    · rename_i s hg
      obtain ⟨hst, hwf⟩ := ttvGet_wf hm hg
      rcases fieldByIndex_wf hwf hst hk hp with ⟨r, hr, _⟩ | hr
      · rw [hr] at h; cases h
      · rw [hr] at h; cases h; cls
    · split at h
      · rename_i hd els hb
        obtain ⟨hd', els', hv, hels⟩ := locateBulk_wf hm hnp hb
        cases hv
        split at h
        · cases h; cls
        · split at h
          · rename_i x hx
            cases h
            exact bulkFieldVals_classes f hk hp _ _ _ _ _ hels hx
          · cases h
      · rename_i v hne hb
        exfalso
        obtain ⟨hd', els', hv, _⟩ := locateBulk_wf hm hnp hb
        exact hne _ _ hv
      · cases h; exact valueNotFound_classes _ _ _

/-! ### the query builder -/

/-- after a successful `bindCols`, `addInsert` cannot fail (as in `addToQuery_err`) -/
theorem addInsert_total_after_bindCols' {tt : TypeTable} {m : TypeToValue} {qb qb1 : QB}
    {cols : List TCol} {bcs : List BCol} {numRows : Nat}
    (hb : bindCols tt m cols qb [] false 1 = .ok (qb1, bcs, numRows)) :
    ∃ qb', addInsert qb1 bcs numRows = .ok qb' := by
  obtain ⟨new, hbcs, _, _, _, _, h1, h2, _, _, _⟩ := bindCols_spec _ _ _ _ _ _ _ _ hb
  simp only [List.nil_append] at hbcs
  subst hbcs
  apply addInsert_ok
  intro bc hbc _
  cases hbk : bc.bulk
  · exact Or.inl (h1 bc hbc hbk)
  · exact Or.inr (h2 bc hbc hbk)

theorem validateValue_classes {v : GoVal} {e : String} (h : validateValue v = .error e) :
    e ∈ inputErrorClasses := by
  unfold validateValue at h
  repeat' split at h
  all_goals cases h
  all_goals cls

theorem validateInputs_classes (tt : TypeTable) : ∀ (args : List GoVal) (m : TypeToValue) (e : String),
    validateInputs tt args m = .error e → e ∈ inputErrorClasses := by
  intro args
  induction args with
  | nil => intro m e h; simp [validateInputs] at h
  | cons a rest ih =>
    intro m e h
    unfold validateInputs at h
    split at h
    · rename_i hx; cases h; exact validateValue_classes hx
    · simp only at h
      split at h
      · rename_i e' heq
        cases h
        repeat' split at heq
        all_goals cases heq
        all_goals cls
      · split at h
        · cases h; cls
        · exact ih _ _ h

theorem TCol.bind_classes {C : Cls} {tt : TypeTable} {m : TypeToValue} {c : TCol} {ic : Nat} {e : String}
    (hm : TtvWF tt m) (hg : ∀ l, c.loc? = some l → l.GenOK C tt)
    (hc : ∀ loc column ex, c = TCol.insert loc column ex → ∀ t n, loc ≠ Loc.slice t n)
    (h : c.bind tt m ic = .error e) : e ∈ inputErrorClasses := by
  unfold TCol.bind at h
  split at h
  · cases h
  · rename_i loc column explicit
    split at h
    · rename_i hx; cases h; exact locateParams_classes hm (hg loc rfl) hx
    · rename_i p hp
      split at h
      · rename_i hmulti
        exfalso
        simp at hmulti
        have := locateParams_single hp hmulti.1 (hc _ _ _ rfl)
        omega
      · split at h
        · cases h; cls
        · cases h

theorem bindCols_classes {C : Cls} {tt : TypeTable} {m : TypeToValue} (hm : TtvWF tt m) :
    ∀ (cols : List TCol), (∀ l ∈ cols.filterMap TCol.loc?, l.GenOK C tt) → NoSliceCols cols →
    ∀ (qb : QB) (acc : List BCol) (bulk : Bool) (numRows : Nat) (e : String),
    bindCols tt m cols qb acc bulk numRows = .error e → e ∈ inputErrorClasses := by
  intro cols
  induction cols with
  | nil => intro _ _ qb acc bulk numRows e h; simp [bindCols] at h
  | cons c rest ih =>
    intro hg hns qb acc bulk numRows e h
    unfold bindCols at h
    split at h
    · rename_i hx; cases h
      refine TCol.bind_classes hm (fun l hl => hg l ?_)
        (fun loc column ex hc => hns loc column ex (hc ▸ List.mem_cons_self)) hx
      simp only [List.mem_filterMap]
      exact ⟨c, List.mem_cons_self, hl⟩
    · simp only at h
      split at h
      · cases h; cls
      · refine ih (fun l hl => hg l ?_)
          (fun loc column ex hc => hns loc column ex (List.mem_cons_of_mem _ hc)) _ _ _ _ _ h
        simp only [List.mem_filterMap] at hl ⊢
        obtain ⟨c', hc', hl'⟩ := hl
        exact ⟨c', List.mem_cons_of_mem _ hc', hl'⟩

theorem addToQuery_classes {C : Cls} {tt : TypeTable} {m : TypeToValue} {qb : QB} {te : TExpr} {e : String}
    (hm : TtvWF tt m) (hg : ∀ l ∈ te.inputLocs, l.GenOK C tt)
    (hte : ∀ cols, te = .insert cols → NoSliceCols cols)
    (h : addToQuery tt m qb te = .error e) : e ∈ inputErrorClasses := by
  cases te with
  | bypass chunk => simp [addToQuery] at h
  | output cols => simp [addToQuery] at h
  | input loc =>
    unfold addToQuery at h
    simp only at h
    split at h
    · rename_i hx; cases h
      exact locateParams_classes hm (hg loc (by simp [TExpr.inputLocs])) hx
    · repeat' split at h
      all_goals cases h
      all_goals cls
  | insert cols =>
    unfold addToQuery at h
    simp only at h
    split at h
    · rename_i hx; cases h
      exact bindCols_classes hm cols hg (hte cols rfl) _ _ _ _ _ hx
    · rename_i qb1 bcs numRows hb
      exfalso
      obtain ⟨qb', hq⟩ := addInsert_total_after_bindCols' hb
      rw [hq] at h; cases h

/-- the closed world of the input side: with locators produced by `bindTypes` and
    well-formed arguments, `bindInputs` only fails with a class of the list -/
theorem bindInputs_classes {C : Cls} {tt : TypeTable} {tes : List TExpr}
    (hg : ∀ te ∈ tes, ∀ l ∈ te.inputLocs, l.GenOK C tt)
    (hns : ∀ cols, TExpr.insert cols ∈ tes → NoSliceCols cols)
    {args : List GoVal} (hwf : ∀ a ∈ args, ArgWF tt a) {e : String}
    (h : bindInputs tt tes args = .error e) : e ∈ inputErrorClasses := by
  unfold bindInputs at h
  split at h
  · rename_i hx; cases h; exact validateInputs_classes _ _ _ _ hx
  · rename_i m hv
    have hm := validateInputs_ttvWF' hwf hv
    split at h
    · rename_i hx; cases h
      obtain ⟨b', te, hte, hstep⟩ := foldlM_except_error _ _ _ _ hx
      exact addToQuery_classes hm (hg te hte) (fun cols hc => hns cols (hc ▸ hte)) hstep
    · split at h
      · cases h
      · cases h; cls

end Sqlair
