/-
  Translation invariance, scanner level: every scanner primitive commutes with the shift of
  states `Sc.sh k`, and the loops give the same result at every sufficient fuel.
-/
import SqlairProofs.Parser.ShiftDefs

namespace Sqlair

/-! ### shifting states, errors, results -/

/-- the state of the run on `shiftEnv k E` that corresponds to `s` -/
def Sc.sh (k : Nat) (s : Sc) : Sc :=
  { pos := s.pos + k, nextPos := s.nextPos + k, char := s.char,
    lineNum := s.lineNum + k, lineStart := s.lineStart + k }

/-- an error `k` lines further down -/
def PErr.sh (k : Nat) (e : PErr) : PErr := { e with line := e.line + k }

/-- a result whose payload is mapped by `fv` and whose error is `k` lines further down -/
def Res.sh {α : Type} (k : Nat) (fv : α → α) : Res α → Res α
  | .ok x => .ok (fv x)
  | .no => .no
  | .err e => .err (e.sh k)

def shB (k : Nat) (r : Sc × Bool) : Sc × Bool := (r.1.sh k, r.2)

def shR {α : Type} (k : Nat) (fv : α → α) (r : Sc × Res α) : Sc × Res α := (r.1.sh k, r.2.sh k fv)

section
variable {k : Nat}

@[simp] theorem Sc.sh_pos (s : Sc) : (s.sh k).pos = s.pos + k := rfl
@[simp] theorem Sc.sh_nextPos (s : Sc) : (s.sh k).nextPos = s.nextPos + k := rfl
@[simp] theorem Sc.sh_char (s : Sc) : (s.sh k).char = s.char := rfl
@[simp] theorem Sc.sh_lineNum (s : Sc) : (s.sh k).lineNum = s.lineNum + k := rfl
@[simp] theorem Sc.sh_lineStart (s : Sc) : (s.sh k).lineStart = s.lineStart + k := rfl

@[simp] theorem PErr.sh_line (e : PErr) : (e.sh k).line = e.line + k := rfl
@[simp] theorem PErr.sh_col (e : PErr) : (e.sh k).col = e.col := rfl
@[simp] theorem PErr.sh_kind (e : PErr) : (e.sh k).kind = e.kind := rfl

@[simp] theorem Res.sh_ok {α : Type} (fv : α → α) (x : α) : (Res.ok x).sh k fv = .ok (fv x) := rfl
@[simp] theorem Res.sh_no {α : Type} (fv : α → α) : (Res.no : Res α).sh k fv = .no := rfl
@[simp] theorem Res.sh_err {α : Type} (fv : α → α) (e : PErr) :
    (Res.err e : Res α).sh k fv = .err (e.sh k) := rfl

@[simp] theorem shB_mk (s : Sc) (b : Bool) : shB k (s, b) = (s.sh k, b) := rfl
@[simp] theorem shB_fst (r : Sc × Bool) : (shB k r).1 = r.1.sh k := rfl
@[simp] theorem shB_snd (r : Sc × Bool) : (shB k r).2 = r.2 := rfl
@[simp] theorem shR_mk {α : Type} (fv : α → α) (s : Sc) (r : Res α) :
    shR k fv (s, r) = (s.sh k, r.sh k fv) := rfl
@[simp] theorem shR_fst {α : Type} (fv : α → α) (r : Sc × Res α) : (shR k fv r).1 = r.1.sh k := rfl
@[simp] theorem shR_snd {α : Type} (fv : α → α) (r : Sc × Res α) : (shR k fv r).2 = r.2.sh k fv := rfl

@[simp] theorem colNum_sh (s : Sc) : colNum (s.sh k) = colNum s := by
  unfold colNum; simp only [Sc.sh_pos, Sc.sh_lineStart]; omega

@[simp] theorem errAt_sh (s : Sc) (kind : EKind) : errAt (s.sh k) kind = (errAt s kind).sh k := by
  unfold errAt PErr.sh; simp

theorem Sc.sh_zero (s : Sc) : s.sh 0 = s := rfl

end

section
variable {E : Env} {k : Nat}

/-! ### advanceChar, skipChar, skipString -/

theorem Sc.ext' {s t : Sc} (h1 : s.pos = t.pos) (h2 : s.nextPos = t.nextPos) (h3 : s.char = t.char)
    (h4 : s.lineNum = t.lineNum) (h5 : s.lineStart = t.lineStart) : s = t := by
  cases s; cases t; simp only [] at h1 h2 h3 h4 h5; subst h1 h2 h3 h4 h5; rfl

theorem advanceChar_shift (hl : DecLocal E) (s : Sc) :
    advanceChar (shiftEnv k E) (s.sh k) = (advanceChar E s).sh k := by
  have hc : (s.char = 10 ∧ s.pos + k < E.len + k) = (s.char = 10 ∧ s.pos < E.len) := by
    apply propext; constructor <;> intro h <;> exact ⟨h.1, by omega⟩
  have hn : (s.nextPos + k ≥ E.len + k) = (s.nextPos ≥ E.len) := by
    apply propext; constructor <;> intro h <;> omega
  apply Sc.ext'
  · simp only [advanceChar_pos, Sc.sh_pos, Sc.sh_nextPos]
  · simp only [advanceChar_nextPos, Sc.sh_nextPos, shiftEnv_len, hn]
    split
    · rfl
    · next hlt => rw [hl.dec_ge (by omega)]; omega
  · simp only [advanceChar_char, Sc.sh_char, Sc.sh_nextPos, shiftEnv_len, hn]
    split
    · rfl
    · next hlt => rw [hl.dec_ge (by omega)]
  · simp only [advanceChar_lineNum, Sc.sh_lineNum, Sc.sh_char, Sc.sh_pos, shiftEnv_len, hc]
    split <;> omega
  · simp only [advanceChar_lineStart, Sc.sh_lineStart, Sc.sh_char, Sc.sh_pos, Sc.sh_nextPos,
      shiftEnv_len, hc]
    split <;> rfl

theorem peekChar_shift (c : Nat) (s : Sc) : peekChar (shiftEnv k E) c (s.sh k) = peekChar E c s := by
  unfold peekChar
  simp

theorem skipChar_shift (hl : DecLocal E) (c : Nat) (s : Sc) :
    skipChar (shiftEnv k E) c (s.sh k) = shB k (skipChar E c s) := by
  unfold skipChar
  simp only [shiftEnv_len, Sc.sh_pos, Sc.sh_char, Nat.add_lt_add_iff_right, advanceChar_shift hl]
  split <;> rfl

theorem skipString_shift (hl : DecLocal E) (kw : List Nat) (s : Sc) :
    skipString (shiftEnv k E) kw (s.sh k) = shB k (skipString E kw s) := by
  unfold skipString
  have h1 : (s.pos + k + kw.length ≤ E.len + k) = (s.pos + kw.length ≤ E.len) := by
    apply propext; constructor <;> intro h <;> omega
  have h2 : (s.pos + k + kw.length < E.len + k) = (s.pos + kw.length < E.len) := by
    apply propext; constructor <;> intro h <;> omega
  simp only [shiftEnv_len, Sc.sh_pos, shiftEnv_inp, shift_foldEqAt, h1, h2]
  split
  · simp only [shB_mk]
    by_cases hp : s.pos + kw.length < E.len
    · have := hl.dec_ge (k := k) hp
      rw [shiftEnv_inp] at this
      simp only [if_pos hp]
      rw [show s.pos + k + kw.length = s.pos + kw.length + k by omega, this]
      refine Prod.ext ?_ rfl
      apply Sc.ext' <;> simp only [Sc.sh_pos, Sc.sh_nextPos, Sc.sh_char, Sc.sh_lineNum, Sc.sh_lineStart]
      omega
    · simp only [if_neg hp]
      refine Prod.ext ?_ rfl
      apply Sc.ext' <;> simp only [Sc.sh_pos, Sc.sh_nextPos, Sc.sh_char, Sc.sh_lineNum, Sc.sh_lineStart] <;> omega
  · rfl

/-! ### fuel: a loop that has an answer keeps it with more fuel -/

theorem fuel_stable {γ : Type} (a : Nat → Option γ) (hm : ∀ f r, a f = some r → a (f+1) = some r)
    (f j : Nat) (hs : (a f).isSome = true) : a (f + j) = a f := by
  obtain ⟨r, hr⟩ := Option.isSome_iff_exists.mp hs
  rw [hr]
  induction j with
  | zero => exact hr
  | succ j ih => exact hm _ _ ih

/-! ### skipCharFind -/

theorem skipCharFindLoop_shift (hl : DecLocal E) (c : Nat) (f : Nat) (s : Sc) :
    skipCharFindLoop (shiftEnv k E) c f (s.sh k) =
      (skipCharFindLoop E c f s).map (Option.map (Sc.sh k)) := by
  induction f generalizing s with
  | zero => rfl
  | succ f ih =>
    unfold skipCharFindLoop
    simp only [shiftEnv_len, Sc.sh_pos, Sc.sh_char, Nat.add_lt_add_iff_right, advanceChar_shift hl, ih]
    split
    · split <;> rfl
    · rfl

theorem skipCharFindLoop_mono (c : Nat) (f : Nat) (s : Sc) (r : Option Sc)
    (hr : skipCharFindLoop E c f s = some r) : skipCharFindLoop E c (f+1) s = some r := by
  induction f generalizing s with
  | zero => cases hr
  | succ f ih =>
    unfold skipCharFindLoop at hr ⊢
    split
    · next hp =>
      rw [if_pos hp] at hr
      split
      · next hc => rw [if_pos hc] at hr; exact hr
      · next hc => rw [if_neg hc] at hr; exact ih _ hr
    · next hp => rw [if_neg hp] at hr; exact hr

theorem skipCharFindLoop_fuel (h : DecOK E) (c : Nat) {s : Sc} (g : Good E s) (j : Nat) :
    skipCharFindLoop E c (E.len + j + 1) s = skipCharFindLoop E c (E.len + 1) s := by
  rw [show E.len + j + 1 = E.len + 1 + j by omega]
  exact fuel_stable (fun f => skipCharFindLoop E c f s) (fun f r => skipCharFindLoop_mono c f s r) _ _
    (skipCharFindLoop_isSome h c g)

theorem skipCharFind_shift (h : DecOK E) (hl : DecLocal E) (c : Nat) {s : Sc} (g : Good E s) :
    skipCharFind (shiftEnv k E) c (s.sh k) = shB k (skipCharFind E c s) := by
  unfold skipCharFind
  simp only [shiftEnv_len]
  rw [skipCharFindLoop_shift hl, skipCharFindLoop_fuel h c g]
  rcases skipCharFindLoop E c (E.len + 1) s with _ | _ | s' <;> rfl

/-! ### skipComment -/

theorem commentLoop_shift (hl : DecLocal E) (endc : Nat) (f : Nat) (s : Sc) :
    commentLoop (shiftEnv k E) endc f (s.sh k) = (commentLoop E endc f s).map (Sc.sh k) := by
  induction f generalizing s with
  | zero => rfl
  | succ f ih =>
    unfold commentLoop
    simp only [shiftEnv_len, Sc.sh_pos, Sc.sh_char, Nat.add_lt_add_iff_right, advanceChar_shift hl,
      skipChar_shift hl, shB_fst, shB_snd, ih]
    split
    · split
      · split
        · split <;> rfl
        · rfl
      · rfl
    · rfl

theorem commentLoop_mono (endc : Nat) (f : Nat) (s : Sc) (r : Sc)
    (hr : commentLoop E endc f s = some r) : commentLoop E endc (f+1) s = some r := by
  induction f generalizing s with
  | zero => cases hr
  | succ f ih =>
    unfold commentLoop at hr ⊢
    split
    · next hp =>
      rw [if_pos hp] at hr
      split
      · next hc =>
        rw [if_pos hc] at hr
        split
        · next he =>
          rw [if_pos he] at hr
          simp only [] at hr ⊢
          split
          · next hb => rw [if_pos hb] at hr; exact hr
          · next hb => rw [if_neg hb] at hr; exact ih _ hr
        · next he => rw [if_neg he] at hr; exact hr
      · next hc => rw [if_neg hc] at hr; exact ih _ hr
    · next hp => rw [if_neg hp] at hr; exact hr

theorem commentLoop_fuel (h : DecOK E) (endc : Nat) {s : Sc} (g : Good E s) (j : Nat) :
    commentLoop E endc (E.len + j + 1) s = commentLoop E endc (E.len + 1) s := by
  rw [show E.len + j + 1 = E.len + 1 + j by omega]
  exact fuel_stable (fun f => commentLoop E endc f s) (fun f r => commentLoop_mono endc f s r) _ _
    (commentLoop_isSome h endc g)

theorem skipComment_shift (h : DecOK E) (hl : DecLocal E) {s : Sc} (g : Good E s) :
    skipComment (shiftEnv k E) (s.sh k) = shB k (skipComment E s) := by
  unfold skipComment
  extract_lets c' a' r1' r2' c a r1 r2
  have hc : c' = c := rfl
  have ha : a' = shB k a := skipChar_shift hl 45 s
  have hr1 : r1' = shB k r1 := by
    unfold r1' r1; rw [ha]; simp only [shB_snd, skipChar_shift hl]; split <;> rfl
  have hr2 : r2' = shB k r2 := by
    unfold r2' r2; rw [hr1, hc]; simp only [shB_fst, skipChar_shift hl]
    split
    · rfl
    · split <;> rfl
  have g1 : Good E r1.1 := by
    unfold r1; split
    · exact (skipChar_bok h 45 g).good
    · exact (skipChar_bok h 47 g).good
  have g2 : Good E r2.1 := by
    unfold r2; split
    · exact (skipChar_bok h 45 g1).good
    · split
      · exact (skipChar_bok h 42 g1).good
      · exact g1
  clear_value c' a' r1' r2' r1 r2
  subst hc hr1 hr2
  simp only [shB_snd, shB_fst, shiftEnv_len]
  split
  · split
    · rw [commentLoop_shift hl, commentLoop_fuel h _ g2]
      cases commentLoop E (if c = 45 then 10 else 42) (E.len + 1) r2.1 <;> rfl
    · rfl
  · rfl

/-! ### skipStringLiteral -/

theorem strLitLoop_shift (h : DecOK E) (hl : DecLocal E) (c : Nat) (f : Nat) (b : Bool) {s : Sc}
    (g : Good E s) :
    strLitLoop (shiftEnv k E) c f b (s.sh k) =
      (strLitLoop E c f b s).map (Option.map (Sc.sh k)) := by
  induction f generalizing s b with
  | zero => rfl
  | succ f ih =>
    unfold strLitLoop
    extract_lets r' r
    have hr : r' = shB k r := skipCharFind_shift h hl c g
    have hb : BOK E s r := skipCharFind_bok h c g
    clear_value r' r
    subst hr
    simp only [shB_snd, shB_fst, peekChar_shift]
    split
    · split
      · rfl
      · exact ih _ hb.good
    · rfl

theorem strLitLoop_mono (c : Nat) (f : Nat) (b : Bool) (s : Sc) (r : Option Sc)
    (hr : strLitLoop E c f b s = some r) : strLitLoop E c (f+1) b s = some r := by
  induction f generalizing s b with
  | zero => cases hr
  | succ f ih =>
    unfold strLitLoop at hr ⊢
    simp only [] at hr ⊢
    split
    · next h1 =>
      rw [if_pos h1] at hr
      split
      · next h2 => rw [if_pos h2] at hr; exact hr
      · next h2 => rw [if_neg h2] at hr; exact ih _ _ hr
    · next h1 => rw [if_neg h1] at hr; exact hr

theorem strLitLoop_fuel (h : DecOK E) (c : Nat) (b : Bool) {s : Sc} (g : Good E s) (j : Nat) :
    strLitLoop E c (E.len + j + 1) b s = strLitLoop E c (E.len + 1) b s := by
  rw [show E.len + j + 1 = E.len + 1 + j by omega]
  exact fuel_stable (fun f => strLitLoop E c f b s) (fun f r => strLitLoop_mono c f b s r) _ _
    (strLitLoop_isSome h c b g)

theorem skipStringLiteral_shift (h : DecOK E) (hl : DecLocal E) {s : Sc} (g : Good E s) :
    skipStringLiteral (shiftEnv k E) (s.sh k) = shR k id (skipStringLiteral E s) := by
  unfold skipStringLiteral
  extract_lets c' a' r' c a r
  have hc : c' = c := rfl
  have ha : a' = shB k a := skipChar_shift hl 34 s
  have hr : r' = shB k r := by
    unfold r' r; rw [ha]; simp only [shB_snd, skipChar_shift hl]; split <;> rfl
  have g1 : Good E r.1 := by
    unfold r; split
    · exact (skipChar_bok h 34 g).good
    · exact (skipChar_bok h 39 g).good
  clear_value c' a' r' r
  subst hc hr
  simp only [shB_snd, shB_fst, shiftEnv_len]
  split
  · rw [strLitLoop_shift h hl _ _ _ g1, strLitLoop_fuel h _ _ g1]
    rcases strLitLoop E c (E.len + 1) true r.1 with _ | _ | s'
    · simp only [Option.map_none, shR_mk, Res.sh_err, errAt_sh]
    · simp only [Option.map_some, Option.map_none, shR_mk, Res.sh_err, errAt_sh]
    · rfl
  · rfl

/-! ### skipBlanks -/

theorem blanksLoop_shift (h : DecOK E) (hl : DecLocal E) (f : Nat) {s : Sc} (g : Good E s) :
    blanksLoop (shiftEnv k E) f (s.sh k) = (blanksLoop E f s).map (Sc.sh k) := by
  induction f generalizing s with
  | zero => rfl
  | succ f ih =>
    unfold blanksLoop
    simp only [shiftEnv_len, Sc.sh_pos, Sc.sh_char, Nat.add_lt_add_iff_right,
      skipComment_shift h hl g, shB_snd, shB_fst, advanceChar_shift hl]
    split
    · split
      · exact ih (skipComment_bok h g).good
      · split
        · exact ih (advanceChar_good h g)
        · rfl
    · rfl

theorem blanksLoop_mono (f : Nat) (s : Sc) (r : Sc)
    (hr : blanksLoop E f s = some r) : blanksLoop E (f+1) s = some r := by
  induction f generalizing s with
  | zero => cases hr
  | succ f ih =>
    unfold blanksLoop at hr ⊢
    simp only [] at hr ⊢
    split
    · next h1 =>
      rw [if_pos h1] at hr
      split
      · next h2 => rw [if_pos h2] at hr; exact ih _ hr
      · next h2 =>
        rw [if_neg h2] at hr
        split
        · next h3 => rw [if_pos h3] at hr; exact ih _ hr
        · next h3 => rw [if_neg h3] at hr; exact hr
    · next h1 => rw [if_neg h1] at hr; exact hr

theorem blanksLoop_fuel (h : DecOK E) {s : Sc} (g : Good E s) (j : Nat) :
    blanksLoop E (E.len + j + 1) s = blanksLoop E (E.len + 1) s := by
  rw [show E.len + j + 1 = E.len + 1 + j by omega]
  exact fuel_stable (fun f => blanksLoop E f s) (fun f r => blanksLoop_mono f s r) _ _
    (blanksLoop_isSome h g)

theorem skipBlanks_shift (h : DecOK E) (hl : DecLocal E) {s : Sc} (g : Good E s) :
    skipBlanks (shiftEnv k E) (s.sh k) = (skipBlanks E s).sh k := by
  unfold skipBlanks
  rw [shiftEnv_len, blanksLoop_shift h hl _ g, blanksLoop_fuel h g]
  cases blanksLoop E (E.len + 1) s <;> rfl

/-! ### names -/

theorem nameLoop_shift (hl : DecLocal E) (f : Nat) (s : Sc) :
    nameLoop (shiftEnv k E) f (s.sh k) = (nameLoop E f s).map (Sc.sh k) := by
  induction f generalizing s with
  | zero => rfl
  | succ f ih =>
    unfold nameLoop
    simp only [shiftEnv_len, Sc.sh_pos, Sc.sh_char, Nat.add_lt_add_iff_right, shiftEnv_isNameChar,
      advanceChar_shift hl, ih]
    split <;> rfl

theorem nameLoop_mono (f : Nat) (s : Sc) (r : Sc)
    (hr : nameLoop E f s = some r) : nameLoop E (f+1) s = some r := by
  induction f generalizing s with
  | zero => cases hr
  | succ f ih =>
    unfold nameLoop at hr ⊢
    split
    · next h1 => rw [if_pos h1] at hr; exact ih _ hr
    · next h1 => rw [if_neg h1] at hr; exact hr

theorem nameLoop_fuel (h : DecOK E) {s : Sc} (g : Good E s) (j : Nat) :
    nameLoop E (E.len + j + 1) s = nameLoop E (E.len + 1) s := by
  rw [show E.len + j + 1 = E.len + 1 + j by omega]
  exact fuel_stable (fun f => nameLoop E f s) (fun f r => nameLoop_mono f s r) _ _
    (nameLoop_isSome h g)

/-- the name loop as the parser calls it -/
theorem nameLoop_getD_shift (h : DecOK E) (hl : DecLocal E) {s : Sc} (g : Good E s) :
    (nameLoop (shiftEnv k E) ((shiftEnv k E).len + 1) (s.sh k)).getD (s.sh k) =
      ((nameLoop E (E.len + 1) s).getD s).sh k := by
  rw [shiftEnv_len, nameLoop_shift hl, nameLoop_fuel h g]
  cases nameLoop E (E.len + 1) s <;> rfl

theorem parseTypeName_shift (h : DecOK E) (hl : DecLocal E) {s : Sc} (g : Good E s) :
    parseTypeName (shiftEnv k E) (s.sh k) =
      ((parseTypeName E s).1.sh k, (parseTypeName E s).2) := by
  unfold parseTypeName
  extract_lets s1' s1
  have hs1 : s1' = s1.sh k := by
    unfold s1' s1
    simp only [Sc.sh_char, shiftEnv_isInitialNameChar, advanceChar_shift hl]
    split
    · exact nameLoop_getD_shift h hl (advanceChar_good h g)
    · rfl
  clear_value s1' s1
  subst hs1
  simp only [Sc.sh_pos, shiftEnv_inp, shift_extract, Nat.add_lt_add_iff_right, gt_iff_lt]
  split <;> rfl

end
end Sqlair
