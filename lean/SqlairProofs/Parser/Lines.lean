/-
  Line bookkeeping: `lineColOf`, `nlCount`, the start-of-line function, and what the
  scanner invariant `Good` says in those terms.
-/
import SqlairProofs.Parser.Defs

namespace Sqlair

/-- offset of the start of the line containing offset `i` (for `i ≤ inp.size`) -/
abbrev lastNl (inp : Bytes) (i : Nat) : Nat := lineColOf.lastNl inp i

theorem lastNl_zero (inp : Bytes) : lastNl inp 0 = 0 := rfl

theorem lastNl_succ (inp : Bytes) (i : Nat) :
    lastNl inp (i+1) = if inp.getD i 0 == 10 then i+1 else lastNl inp i := rfl

theorem lineColOf_eq (inp : Bytes) (off : Nat) :
    lineColOf inp off = (1 + nlCount inp off, off - lastNl inp (min off inp.size) + 1) := rfl

theorem lastNl_le (inp : Bytes) (i : Nat) : lastNl inp i ≤ i := by
  induction i with
  | zero => simp [lastNl_zero]
  | succ i ih => rw [lastNl_succ]; split <;> omega

theorem getD_eq_10_iff (inp : Bytes) (i : Nat) : (inp.getD i 0 == 10) = true ↔ bAt inp i = 10 := by
  unfold bAt
  rw [beq_iff_eq]
  constructor
  · intro h; rw [h]; rfl
  · intro h; exact UInt8.toNat_inj.mp h

theorem lastNl_succ_nl (inp : Bytes) (i : Nat) (h : bAt inp i = 10) : lastNl inp (i+1) = i+1 := by
  rw [lastNl_succ, if_pos ((getD_eq_10_iff inp i).mpr h)]

theorem lastNl_succ_not_nl (inp : Bytes) (i : Nat) (h : bAt inp i ≠ 10) :
    lastNl inp (i+1) = lastNl inp i := by
  rw [lastNl_succ, if_neg (fun hc => h ((getD_eq_10_iff inp i).mp hc))]

theorem nlCount_succ (inp : Bytes) (p : Nat) (hp : p < inp.size) :
    nlCount inp (p+1) = nlCount inp p + (if bAt inp p = 10 then 1 else 0) := by
  unfold nlCount
  rw [Array.extract_succ_right (by omega) hp]
  simp only [Array.toList_push, List.filter_append, List.length_append]
  congr 1
  have hb : bAt inp p = inp[p].toNat := by
    unfold bAt; simp [Array.getD_eq_getD_getElem?, hp]
  by_cases h : inp[p] = 10
  · simp [h, hb]
  · have : ¬ inp[p].toNat = 10 := fun hc => h (UInt8.toNat_inj.mp hc)
    simp [h, hb, this]

theorem nlCount_zero (inp : Bytes) : nlCount inp 0 = 0 := by
  unfold nlCount; simp

/-- a stretch of bytes without newline changes neither the line count nor the line start -/
theorem no_nl_stretch (inp : Bytes) (p k : Nat) (hk : p + k ≤ inp.size)
    (h : ∀ i, p ≤ i → i < p + k → bAt inp i ≠ 10) :
    nlCount inp (p+k) = nlCount inp p ∧ lastNl inp (p+k) = lastNl inp p := by
  induction k with
  | zero => exact ⟨rfl, rfl⟩
  | succ k ih =>
    have ih := ih (by omega) (fun i hi hi' => h i hi (by omega))
    have hb := h (p+k) (by omega) (by omega)
    refine ⟨?_, ?_⟩
    · rw [← Nat.add_assoc, nlCount_succ inp (p+k) (by omega), if_neg hb, ih.1]; rfl
    · rw [← Nat.add_assoc, lastNl_succ_not_nl inp (p+k) hb, ih.2]

/-- no newline in the input at all -/
theorem nlCount_of_not_hasNewline (inp : Bytes) (h : hasNewline inp = false) (off : Nat) :
    nlCount inp off = 0 := by
  unfold nlCount
  rw [List.length_eq_zero_iff, List.filter_eq_nil_iff]
  intro a ha
  have ha' : a ∈ inp := by
    have := Array.mem_toList_iff.mp ha
    obtain ⟨k, hk, rfl⟩ := Array.mem_extract_iff_getElem.mp this
    exact Array.getElem_mem _
  intro hc
  have : hasNewline inp = true := by
    unfold hasNewline
    rw [Array.any_eq_true]
    obtain ⟨i, hi, rfl⟩ := Array.mem_iff_getElem.mp ha'
    exact ⟨i, hi, hc⟩
  rw [h] at this; cases this

section
variable {E : Env} {s : Sc}

theorem Good.lineNum_eq (g : Good E s) : s.lineNum = 1 + nlCount E.inp s.pos := by
  have := g.line
  rw [lineColOf_eq] at this
  exact (Prod.mk.inj this).1

theorem Good.lineStart_eq (g : Good E s) : s.lineStart = lastNl E.inp s.pos := by
  have := g.line
  rw [lineColOf_eq] at this
  have h2 := (Prod.mk.inj this).2
  have hle := g.pos_le
  have hmin : min s.pos E.inp.size = s.pos := Nat.min_eq_left hle
  rw [hmin] at h2
  have := lastNl_le E.inp s.pos
  have := g.lineStart_le
  omega

/-- constructor of `Good` from the explicit form of the line bookkeeping -/
theorem Good.mk' (pos_le : s.pos ≤ E.len)
    (next : s.pos < E.len → s.nextPos = s.pos + (E.dec E.inp s.pos).2 ∧ s.char = (E.dec E.inp s.pos).1)
    (next_eof : s.pos = E.len → s.nextPos = s.pos)
    (lineNum : s.lineNum = 1 + nlCount E.inp s.pos)
    (lineStart : s.lineStart = lastNl E.inp s.pos) : Good E s where
  pos_le := pos_le
  next := next
  next_eof := next_eof
  line := by
    have hm : min s.pos E.inp.size = s.pos := Nat.min_eq_left pos_le
    rw [lineColOf_eq, hm, lineNum, lineStart]
  lineStart_le := by rw [lineStart]; exact lastNl_le _ _

/-- the position of a good state is the position of its offset -/
theorem Good.lineCol (g : Good E s) : (s.lineNum, colNum s) = lineColOf E.inp s.pos := g.line

/-- two good states at the same offset agree on the line bookkeeping -/
theorem Good.same_pos {s' : Sc} (g : Good E s) (g' : Good E s') (h : s'.pos = s.pos) :
    s'.lineNum = s.lineNum ∧ s'.lineStart = s.lineStart := by
  rw [g.lineNum_eq, g'.lineNum_eq, g.lineStart_eq, g'.lineStart_eq, h]
  exact ⟨rfl, rfl⟩

end

end Sqlair
