/-
  Exactness of expression spans, expression level: if an expression parser succeeds on `E`
  and ends inside the range, it yields the same node — moved by the start of the range — on
  the extracted text.
-/
import SqlairProofs.Exact.Items

namespace Sqlair

/-- a node of the run on `E`, seen from the extracted text `inp[a:…)` -/
def Seg.exaMv (a : Nat) (x : Seg) : Seg := { x with a := x.a - a, b := x.b - a }

section
variable {E : Env} {a b : Nat} {s s' : Sc}

/-! ### output expressions -/

theorem exa_parseOutputExpr (C : ExaCtx E a b) (hc : ExaClass E) (hs : ExaSync E a b s s') {t : Sc}
    {seg : Seg} (he : parseOutputExpr E s = (t, .ok seg)) (hb : t.pos ≤ b) :
    ∃ t', parseOutputExpr (exaEnv E a b) s' = (t', .ok (seg.exaMv a)) ∧ ExaSync E a b t t' := by
  unfold parseOutputExpr at he ⊢
  have hx := parseTargetType_xok C.dok hs.good
  rcases htt : parseTargetType E s with ⟨s1, res1⟩
  rw [htt] at he hx
  cases res1 with
  | err e => simp only [] at he; cases he
  | ok ty =>
    simp only [] at he
    cases he
    obtain ⟨t', htt', y⟩ := exa_parseTargetType C hs htt (by intro e h; cases h) hb
    rw [htt']
    refine ⟨t', ?_, y⟩
    simp only [Seg.exaMv, hs.pos', y.pos']
  | no =>
    simp only [] at he
    have h1 : s1 = s := hx.no rfl
    rw [h1] at htt he
    obtain ⟨cp', htt', y0⟩ := exa_parseTargetType C hs htt (by intro e h; cases h) hs.le
    rw [htt']
    simp only []
    have hpc := parseColumns_post C.dok hs.good
    rcases hcols : parseColumns E s with ⟨s2, o⟩
    rw [hcols] at he hpc
    cases o with
    | none => simp only [] at he; cases he
    | some cp =>
      obtain ⟨cols, pc⟩ := cp
      simp only [] at he hpc
      have g2 : Good E s2 := hpc.good
      have m2 : s.pos ≤ s2.pos := hpc.mono
      have hp3 := skipBlanks_post C.dok g2
      have hAS := skipString_AS_bok hp3.good
      have hp4 := skipBlanks_post C.dok hAS.good
      have htts := parseTargetTypes_rok C.dok hp4.good
      have m3 := hp3.mono; have m4 := hAS.mono; have m5 := hp4.mono
      by_cases c1 : (skipString E kwAS (skipBlanks E s2)).2 = true
      · simp only [c1, Bool.not_true, Bool.false_eq_true, if_false] at he
        rcases hty : parseTargetTypes E (skipBlanks E (skipString E kwAS (skipBlanks E s2)).1)
          with ⟨s5, res5⟩
        rw [hty] at he
        have m6 := (htts.elim' hty).2
        cases res5 with
        | err e => simp only [] at he; cases he
        | no => simp only [] at he; cases he
        | ok tp =>
          obtain ⟨types, pt⟩ := tp
          simp only [] at he
          by_cases d1 : (pc && !pt) = true
          · rw [if_pos d1] at he; cases he
          rw [if_neg d1] at he
          by_cases d2 : (!pc && pt) = true
          · rw [if_pos d2] at he; cases he
          rw [if_neg d2] at he
          rcases hf : (if starCountTypes types > 0 then cols.find? (·.func) else none) with _ | c
          · rw [hf] at he
            simp only [] at he
            cases he
            obtain ⟨s2', hcols', y2⟩ := exa_parseColumns C hc y0 hcols (by omega)
            have y3 := exa_skipBlanks C y2 (by omega)
            have hB := exa_skipString_AS C y3 (by omega)
            have y4 := exa_skipBlanks C hB.2 (by omega)
            obtain ⟨s5', hty', y5⟩ := exa_parseTargetTypes C y4 hty hb
            rw [hcols']
            simp only [hB.1, c1, Bool.not_true, Bool.false_eq_true, if_false, hty', if_neg d1,
              if_neg d2, hf]
            refine ⟨s5', ?_, y5⟩
            simp only [Seg.exaMv, hs.pos', y5.pos']
          · rw [hf] at he
            simp only [] at he
            cases he
      · simp only [c1, Bool.not_false, if_true] at he
        cases he

/-! ### input expressions -/

theorem exa_parseSliceInputExpr (C : ExaCtx E a b) (hs : ExaSync E a b s s') {t : Sc} {seg : Seg}
    (he : parseSliceInputExpr E s = (t, .ok seg)) (hb : t.pos ≤ b) :
    ∃ t', parseSliceInputExpr (exaEnv E a b) s' = (t', .ok (seg.exaMv a)) ∧ ExaSync E a b t t' := by
  unfold parseSliceInputExpr at he ⊢
  simp only [] at he ⊢
  have h36 := skipChar_bok C.dok 36 hs.good
  by_cases c1 : (skipChar E 36 s).2 = true
  · simp only [c1, Bool.not_true, Bool.false_eq_true, if_false] at he
    have hsa := (parseSliceAccessor_rok C.dok h36.good).1
    rcases hacc : parseSliceAccessor E (skipChar E 36 s).1 with ⟨s1, res1⟩
    rw [hacc] at he
    have m1 := (hsa.elim' hacc).2
    cases res1 with
    | err e => simp only [] at he; cases he
    | no => simp only [] at he; cases he
    | ok st =>
      simp only [] at he
      cases he
      obtain ⟨c1', y1⟩ := exa_skipChar_true C 36 hs c1 (by omega)
      obtain ⟨t', hacc', y2⟩ := exa_parseSliceAccessor C y1 hacc hb
      simp only [c1', Bool.not_true, Bool.false_eq_true, if_false, hacc']
      refine ⟨t', ?_, y2⟩
      simp only [Seg.exaMv, hs.pos', y2.pos']
  · simp only [c1, Bool.not_false, if_true] at he
    cases he

/-- "not this" of the slice expression carries over -/
theorem exa_parseSliceInputExpr_no (C : ExaCtx E a b) (hs : ExaSync E a b s s') {t : Sc}
    (he : parseSliceInputExpr E s = (t, .no)) :
    parseSliceInputExpr (exaEnv E a b) s' = (s', .no) := by
  have hx' := parseSliceInputExpr_eok C.dok' hs.good'
  have key : (parseSliceInputExpr (exaEnv E a b) s').2 = .no := by
    unfold parseSliceInputExpr at he ⊢
    simp only [] at he ⊢
    by_cases c1 : (skipChar E 36 s).2 = true
    · simp only [c1, Bool.not_true, Bool.false_eq_true, if_false] at he
      by_cases hlt : s.pos < b
      · obtain ⟨_, _, _, _, hnb, _⟩ := hs.lt C hlt
        obtain ⟨c1', y1⟩ := exa_skipChar_true C 36 hs c1
          (by rw [(skipChar_true c1).2.2, advanceChar_pos]; exact hnb)
        rcases hacc : parseSliceAccessor E (skipChar E 36 s).1 with ⟨s1, res1⟩
        rw [hacc] at he
        cases res1 with
        | err e => simp only [] at he; cases he
        | ok st => simp only [] at he; cases he
        | no =>
          obtain ⟨t', hacc', _⟩ := exa_parseSliceAccessor_no C y1 hacc
          simp only [c1', Bool.not_true, Bool.false_eq_true, if_false, hacc']
      · have hn := hs.not_lt' C hlt
        have hf : skipChar (exaEnv E a b) 36 s' = (s', false) := by
          unfold skipChar; rw [if_neg (fun hx => hn hx.1)]
        simp only [hf, Bool.not_false, if_true]
    · rw [exa_skipChar_false C 36 hs (by simpa using c1)]
      simp only [Bool.not_false, if_true]
  exact Prod.ext (hx'.no key) key

theorem exa_parseMemberInputExpr (C : ExaCtx E a b) (hs : ExaSync E a b s s') {t : Sc} {seg : Seg}
    (he : parseMemberInputExpr E s = (t, .ok seg)) (hb : t.pos ≤ b) :
    ∃ t', parseMemberInputExpr (exaEnv E a b) s' = (t', .ok (seg.exaMv a)) ∧ ExaSync E a b t t' := by
  unfold parseMemberInputExpr at he ⊢
  rcases hma : parseInputMemberAccessor E s with ⟨s1, res1⟩
  rw [hma] at he
  cases res1 with
  | err e => simp only [] at he; cases he
  | no => simp only [] at he; cases he
  | ok ma =>
    simp only [] at he
    by_cases d1 : (ma.member == star) = true
    · rw [if_pos d1] at he; cases he
    · rw [if_neg d1] at he
      cases he
      obtain ⟨t', hma', y⟩ := exa_parseInputMemberAccessor C hs hma (by intro e h; cases h) hb
      rw [hma']
      simp only [if_neg d1]
      refine ⟨t', ?_, y⟩
      simp only [Seg.exaMv, hs.pos', y.pos']

/-- "not this" of the member accessor carries over -/
theorem exa_parseInputMemberAccessor_no (C : ExaCtx E a b) (hs : ExaSync E a b s s') {t : Sc}
    (he : parseInputMemberAccessor E s = (t, .no)) :
    (parseInputMemberAccessor (exaEnv E a b) s').2 = .no := by
  by_cases hlt : s.pos < b
  · obtain ⟨_, _, _, _, hnb, _⟩ := hs.lt C hlt
    have htb : t.pos ≤ b := by
      unfold parseInputMemberAccessor at he
      simp only [] at he
      by_cases c1 : (skipChar E 36 s).2 = true
      · rw [if_pos c1] at he
        unfold parseTypeAndMember at he
        simp only [] at he
        split at he
        · split at he
          · cases he
          · split at he <;> cases he
        · cases he
          rw [(skipChar_true c1).2.2, advanceChar_pos]; exact hnb
      · rw [if_neg c1] at he; cases he; exact hs.le
    obtain ⟨t', he', _⟩ := exa_parseInputMemberAccessor C hs he (by intro e h; cases h) htb
    rw [he']
  · have hn := hs.not_lt' C hlt
    have hf : skipChar (exaEnv E a b) 36 s' = (s', false) := by
      unfold skipChar; rw [if_neg (fun hx => hn hx.1)]
    unfold parseInputMemberAccessor
    simp only [hf, Bool.false_eq_true, if_false]

theorem exa_parseMemberInputExpr_no (C : ExaCtx E a b) (hs : ExaSync E a b s s') {t : Sc}
    (he : parseMemberInputExpr E s = (t, .no)) :
    parseMemberInputExpr (exaEnv E a b) s' = (s', .no) := by
  unfold parseMemberInputExpr at he ⊢
  rcases hma : parseInputMemberAccessor E s with ⟨s1, res1⟩
  rw [hma] at he
  cases res1 with
  | err e => simp only [] at he; cases he
  | ok ma => simp only [] at he; split at he <;> cases he
  | no =>
    have key := exa_parseInputMemberAccessor_no C hs hma
    rcases hma' : parseInputMemberAccessor (exaEnv E a b) s' with ⟨s1', res1'⟩
    rw [hma'] at key
    simp only [] at key
    subst key
    rfl

/-! ### insert expressions -/

theorem exa_parseComplexInsertValues (C : ExaCtx E a b) (hs : ExaSync E a b s s') {t : Sc}
    {srcs : List Acc} (he : parseComplexInsertValues E s = (t, .ok srcs)) (hb : t.pos ≤ b) :
    ∃ t', parseComplexInsertValues (exaEnv E a b) s' = (t', .ok srcs) ∧ ExaSync E a b t t' := by
  have hpl := exa_complex_ok he
  obtain ⟨t', hpl', y⟩ := exa_parseList (fn' := parseInputMemberAccessor (exaEnv E a b)) C
    (fun s g => parseInputMemberAccessor_rok C.dok g)
    (fun hs he hb => exa_parseInputMemberAccessor C hs he (by intro e h; cases h) hb) hs hpl hb
  refine ⟨t', ?_, y⟩
  unfold parseComplexInsertValues
  rw [hpl']

theorem exa_parseAsteriskInsertExpr (C : ExaCtx E a b) (hs : ExaSync E a b s s') {t : Sc} {seg : Seg}
    (he : parseAsteriskInsertExpr E s = (t, .ok seg)) (hb : t.pos ≤ b) :
    ∃ t', parseAsteriskInsertExpr (exaEnv E a b) s' = (t', .ok (seg.exaMv a)) ∧ ExaSync E a b t t' := by
  unfold parseAsteriskInsertExpr at he ⊢
  extract_lets r0 r1 r2 r3 at he
  extract_lets r0' r1' r2' r3'
  have k0 : BOK E s r0 := skipChar_bok C.dok 40 hs.good
  have p1 := skipBlanks_post C.dok k0.good
  have k1 : BOK E _ r1 := skipChar_bok C.dok 42 p1.good
  have p2 := skipBlanks_post C.dok k1.good
  have k2 : BOK E _ r2 := skipChar_bok C.dok 41 p2.good
  have p3 := skipBlanks_post C.dok k2.good
  have k3 : BOK E _ r3 := skipString_VALUES_bok p3.good
  have p4 := skipBlanks_post C.dok k3.good
  have hcx := parseComplexInsertValues_rok C.dok p4.good
  have m0 := k0.mono; have m1 := p1.mono; have m2 := k1.mono; have m3 := p2.mono
  have m4 := k2.mono; have m5 := p3.mono; have m6 := k3.mono; have m7 := p4.mono
  by_cases c0 : r0.2 = true
  · simp only [c0, Bool.not_true, Bool.false_eq_true, if_false] at he
    by_cases c1 : r1.2 = true
    · simp only [c1, Bool.not_true, Bool.false_eq_true, if_false] at he
      by_cases c2 : r2.2 = true
      · simp only [c2, Bool.not_true, Bool.false_eq_true, if_false] at he
        by_cases c3 : r3.2 = true
        · simp only [c3, Bool.not_true, Bool.false_eq_true, if_false] at he
          rcases hcv : parseComplexInsertValues E (skipBlanks E r3.1) with ⟨s1, res1⟩
          rw [hcv] at he
          have m8 := (hcx.elim' hcv).2
          cases res1 with
          | err e => simp only [] at he; cases he
          | no => simp only [] at he; cases he
          | ok srcs =>
            simp only [] at he
            cases he
            have b0 : r0.1.pos ≤ b := by omega
            have b1 : (skipBlanks E r0.1).pos ≤ b := by omega
            have b2 : r1.1.pos ≤ b := by omega
            have b3 : (skipBlanks E r1.1).pos ≤ b := by omega
            have b4 : r2.1.pos ≤ b := by omega
            have b5 : (skipBlanks E r2.1).pos ≤ b := by omega
            have b6 : r3.1.pos ≤ b := by omega
            have b7 : (skipBlanks E r3.1).pos ≤ b := by omega
            obtain ⟨c0', y0⟩ : r0'.2 = true ∧ ExaSync E a b r0.1 r0'.1 :=
              exa_skipChar_true C 40 hs c0 b0
            have y1 := exa_skipBlanks C y0 b1
            obtain ⟨c1', y2⟩ : r1'.2 = true ∧ ExaSync E a b r1.1 r1'.1 :=
              exa_skipChar_true C 42 y1 c1 b2
            have y3 := exa_skipBlanks C y2 b3
            obtain ⟨c2', y4⟩ : r2'.2 = true ∧ ExaSync E a b r2.1 r2'.1 :=
              exa_skipChar_true C 41 y3 c2 b4
            have y5 := exa_skipBlanks C y4 b5
            have hB : ExaB E a b r3 r3' := exa_skipString_VALUES C y5 b6
            have y7 := exa_skipBlanks C hB.2 b7
            obtain ⟨t', hcv', y8⟩ := exa_parseComplexInsertValues C y7 hcv hb
            simp only [c0', c1', c2', hB.1, c3, Bool.not_true, Bool.false_eq_true, if_false, hcv']
            refine ⟨t', ?_, y8⟩
            simp only [Seg.exaMv, hs.pos', y8.pos']
        · simp only [c3, Bool.not_false, if_true] at he; cases he
      · simp only [c2, Bool.not_false, if_true] at he; cases he
    · simp only [c1, Bool.not_false, if_true] at he; cases he
  · simp only [c0, Bool.not_false, if_true] at he; cases he

/-! ### basic insert values: the loop body in two parts -/

/-- one item of `parseBasicInsertValues` -/
def exaBasicItem (X : Env) (cp : Sc) (ip : Bool) (vs : List Val) (s1 : Sc) : Sc × Res (Bool × List Val) :=
  match parseInputMemberAccessor X s1 with
  | (s2, .err e) => (s2, .err e)
  | (s2, .ok ma) =>
    if ma.member == star then (s2, .err (errAt s1 .starInBasic))
    else (s2, .ok (true, vs ++ [.acc ma]))
  | (s2, .no) =>
    match skipLiteralInList X s2 with
    | (s3, .err e) => (s3, .err e)
    | (s3, .ok _) => (s3, .ok (ip, vs ++ [.lit (X.inp.extract s1.pos s3.pos)]))
    | (_, .no) => (cp, .no)

/-- what follows an item -/
def exaBasicTail (X : Env) (cp : Sc) (f : Nat) (ip : Bool) (vs : List Val) (s2 : Sc) :
    Sc × Res (List Val) :=
  let s3 := skipBlanks X s2
  let r := skipChar X 41 s3
  if r.2 then (if ip then (r.1, .ok vs) else (r.1, .no)) else
  let r := skipChar X 44 s3
  if r.2 then basicLoop X cp f ip vs r.1 else (cp, .no)

theorem exa_basicLoop_succ (X : Env) (cp : Sc) (f : Nat) (ip : Bool) (vs : List Val) (s : Sc) :
    basicLoop X cp (f+1) ip vs s =
      match exaBasicItem X cp ip vs (skipBlanks X s) with
      | (s2, .err e) => (s2, .err e)
      | (s2, .no) => (s2, .no)
      | (s2, .ok (ip', vs')) => exaBasicTail X cp f ip' vs' s2 := by
  rw [basicLoop]
  rfl

theorem exa_basicItem (C : ExaCtx E a b) {s1 s1' : Sc} (hs : ExaSync E a b s1 s1') (cp cp' : Sc)
    (ip : Bool) (vs : List Val) {s2 : Sc} {ip2 : Bool} {vs2 : List Val}
    (he : exaBasicItem E cp ip vs s1 = (s2, .ok (ip2, vs2))) (hb : s2.pos < b) :
    ∃ s2', exaBasicItem (exaEnv E a b) cp' ip vs s1' = (s2', .ok (ip2, vs2)) ∧ ExaSync E a b s2 s2' := by
  unfold exaBasicItem at he ⊢
  rcases hacc : parseInputMemberAccessor E s1 with ⟨u, res⟩
  rw [hacc] at he
  have hma := parseInputMemberAccessor_rok C.dok hs.good
  obtain ⟨gu, mu⟩ := hma.elim' hacc
  cases res with
  | err e => simp only [] at he; cases he
  | ok ma =>
    simp only [] at he
    by_cases d1 : (ma.member == star) = true
    · rw [if_pos d1] at he; cases he
    · rw [if_neg d1] at he
      cases he
      obtain ⟨u', hacc', y⟩ := exa_parseInputMemberAccessor C hs hacc (by intro e h; cases h) (by omega)
      rw [hacc']
      simp only [if_neg d1]
      exact ⟨_, rfl, y⟩
  | no =>
    simp only [] at he
    rcases hlit : skipLiteralInList E u with ⟨s3, res3⟩
    rw [hlit] at he
    have hlr := skipLiteralInList_rok C.dok gu
    have m3 := (hlr.elim' hlit).2
    cases res3 with
    | err e => simp only [] at he; cases he
    | no => simp only [] at he; cases he
    | ok x =>
      simp only [] at he
      cases he
      obtain ⟨u', hacc', y⟩ := exa_parseInputMemberAccessor C hs hacc (by intro e h; cases h) (by omega)
      obtain ⟨s3', hlit', y3⟩ := exa_skipLiteralInList C y hlit hb
      rw [hacc']
      simp only [hlit']
      rw [hs.extract y3]
      exact ⟨_, rfl, y3⟩

/-- a successful tail moves past its delimiter -/
theorem exa_basicTail_pos (hd : DecOK E) {cp s2 t : Sc} {f : Nat} {ip : Bool} {vs vals : List Val}
    (gcp : Good E cp) (g2 : Good E s2) (hcp : cp.pos ≤ s2.pos) (hf : E.len - s2.pos < f + 1)
    (he : exaBasicTail E cp f ip vs s2 = (t, .ok vals)) : (skipBlanks E s2).pos < t.pos := by
  unfold exaBasicTail at he
  simp only [] at he
  have p3 := skipBlanks_post hd g2
  have m3 := p3.mono
  have h41 := skipChar_bok hd 41 p3.good
  have h44 := skipChar_bok hd 44 p3.good
  by_cases c1 : (skipChar E 41 (skipBlanks E s2)).2 = true
  · rw [if_pos c1] at he
    have := h41.prog c1
    split at he
    · cases he; exact this
    · cases he
  · rw [if_neg c1] at he
    by_cases c2 : (skipChar E 44 (skipBlanks E s2)).2 = true
    · rw [if_pos c2] at he
      have p4 := h44.prog c2
      have := h44.good.pos_le
      have hl := basicLoop_lok hd gcp f ip vs h44.good (by omega) (by omega)
      rw [he] at hl
      have m4 : (skipChar E 44 (skipBlanks E s2)).1.pos ≤ t.pos := hl.okmono vals rfl
      omega
    · rw [if_neg c2] at he; cases he

theorem exa_basicLoop (C : ExaCtx E a b) (f : Nat) :
    ∀ {s s' : Sc} (cp cp' : Sc) (f' : Nat) (ip : Bool) (vs : List Val) (t : Sc) (vals : List Val),
      Good E cp → cp.pos ≤ s.pos → ExaSync E a b s s' → E.len - s.pos < f →
      (exaEnv E a b).len - s'.pos < f' →
      basicLoop E cp f ip vs s = (t, .ok vals) → t.pos ≤ b →
      ∃ t', basicLoop (exaEnv E a b) cp' f' ip vs s' = (t', .ok vals) ∧ ExaSync E a b t t' := by
  induction f with
  | zero => intro s s' _ _ f' _ _ _ _ _ _ _ hf; omega
  | succ f ih =>
    intro s s' cp cp' f' ip vs t vals gcp hcp hs hf hf' he hb
    cases f' with
    | zero => omega
    | succ f' =>
      rw [exa_basicLoop_succ] at he ⊢
      have p1 := skipBlanks_post C.dok hs.good
      have m1 := p1.mono
      rcases hit : exaBasicItem E cp ip vs (skipBlanks E s) with ⟨s2, res⟩
      rw [hit] at he
      cases res with
      | err e => simp only [] at he; cases he
      | no => simp only [] at he; cases he
      | ok pr =>
        obtain ⟨ip2, vs2⟩ := pr
        simp only [] at he
        -- the item's end state
        have g2m : Good E s2 ∧ (skipBlanks E s).pos ≤ s2.pos := by
          unfold exaBasicItem at hit
          have hma := parseInputMemberAccessor_rok C.dok p1.good
          split at hit
          · cases hit
          · next heq =>
            obtain ⟨gu, mu⟩ := hma.elim' heq
            split at hit
            · cases hit
            · cases hit; exact ⟨gu, mu⟩
          · next heq =>
            obtain ⟨gu, mu⟩ := hma.elim' heq
            have hlr := skipLiteralInList_rok C.dok gu
            split at hit
            · cases hit
            · next heq3 => cases hit; have := hlr.elim' heq3; exact ⟨this.1, by omega⟩
            · cases hit
        obtain ⟨g2, m2⟩ := g2m
        have hpos := exa_basicTail_pos C.dok gcp g2 (by omega) (by omega) he
        have p3 := skipBlanks_post C.dok g2
        have m3 := p3.mono
        have y1 := exa_skipBlanks C hs (by omega)
        obtain ⟨s2', hit', y2⟩ := exa_basicItem C y1 cp cp' ip vs hit (by omega)
        rw [hit']
        simp only []
        have y3 := exa_skipBlanks C y2 (by omega)
        unfold exaBasicTail at he ⊢
        simp only [] at he ⊢
        have h41 := skipChar_bok C.dok 41 p3.good
        have h44 := skipChar_bok C.dok 44 p3.good
        by_cases c1 : (skipChar E 41 (skipBlanks E s2)).2 = true
        · rw [if_pos c1] at he
          by_cases hip : ip2 = true
          · rw [if_pos hip] at he
            cases he
            obtain ⟨c1', y4⟩ := exa_skipChar_true C 41 y3 c1 hb
            rw [if_pos c1', if_pos hip]
            exact ⟨_, rfl, y4⟩
          · rw [if_neg hip] at he; cases he
        · rw [if_neg c1] at he
          rw [exa_skipChar_false C 41 y3 (by simpa using c1)]
          simp only [Bool.false_eq_true, if_false]
          by_cases c2 : (skipChar E 44 (skipBlanks E s2)).2 = true
          · rw [if_pos c2] at he
            have p4 := h44.prog c2
            have := h44.good.pos_le
            have hl := basicLoop_lok C.dok gcp f ip2 vs2 h44.good (by omega) (by omega)
            rw [he] at hl
            have m4 : (skipChar E 44 (skipBlanks E s2)).1.pos ≤ t.pos := hl.okmono vals rfl
            obtain ⟨c2', y4⟩ := exa_skipChar_true C 44 y3 c2 (by omega)
            rw [if_pos c2']
            have := hs.lt_of_lt y4 (by omega)
            have := y4.good'.pos_le
            exact ih cp cp' f' ip2 vs2 t vals gcp (by omega) y4 (by omega) (by omega) he hb
          · rw [if_neg c2] at he; cases he

theorem exa_parseBasicInsertValues (C : ExaCtx E a b) (hs : ExaSync E a b s s') {t : Sc}
    {vals : List Val} (he : parseBasicInsertValues E s = (t, .ok vals)) (hb : t.pos ≤ b) :
    ∃ t', parseBasicInsertValues (exaEnv E a b) s' = (t', .ok vals) ∧ ExaSync E a b t t' := by
  unfold parseBasicInsertValues at he ⊢
  simp only [] at he ⊢
  have h40 := skipChar_bok C.dok 40 hs.good
  by_cases c1 : (skipChar E 40 s).2 = true
  · simp only [c1, Bool.not_true, Bool.false_eq_true, if_false] at he
    have p1 := h40.prog c1
    have := h40.good.pos_le
    have hl := basicLoop_lok C.dok hs.good (E.len + 1) false [] h40.good h40.mono (by omega)
    rw [he] at hl
    have m1 : (skipChar E 40 s).1.pos ≤ t.pos := hl.okmono vals rfl
    obtain ⟨c1', y1⟩ := exa_skipChar_true C 40 hs c1 (by omega)
    simp only [c1', Bool.not_true, Bool.false_eq_true, if_false]
    have := hs.lt_of_lt y1 p1
    have := y1.good'.pos_le
    exact exa_basicLoop C (E.len + 1) s s' ((exaEnv E a b).len + 1) false [] t vals hs.good
      h40.mono y1 (by omega) (by omega) he hb
  · simp only [c1, Bool.not_false, if_true] at he
    split at he <;> cases he

/-! ### the abandoned attempts inside an insert expression -/

/-- after the first item the list loop never answers "not this" -/
theorem exa_listLoop_false_ne_no {X : Env} {α : Type} (fn : Sc → Sc × Res α) :
    ∀ (f : Nat) (cp : Sc) (acc : List α) (u v : Sc), listLoop X fn cp f false acc u ≠ (v, .no) := by
  intro f
  induction f with
  | zero => intro cp acc u v h; unfold listLoop at h; cases h
  | succ f ih =>
    intro cp acc u v h
    unfold listLoop at h
    simp only [] at h
    split at h
    · split at h
      · cases h
      · split at h
        · exact ih _ _ _ _ h
        · cases h
    · cases h
    · simp only [Bool.false_eq_true, if_false] at h; cases h

/-- the complex values say "not this" because the first item is no member accessor -/
theorem exa_complex_no_first {X : Env} {c u : Sc}
    (hno : parseComplexInsertValues X c = (u, .no)) (c1 : (skipChar X 40 c).2 = true) :
    ∃ s2, parseInputMemberAccessor X (skipBlanks X (skipChar X 40 c).1) = (s2, .no) := by
  unfold parseComplexInsertValues at hno
  rcases hpl : parseList X (parseInputMemberAccessor X) c with ⟨s1, res⟩
  rw [hpl] at hno
  cases res with
  | err e => simp only [] at hno; cases hno
  | ok x => simp only [] at hno; cases hno
  | no =>
    unfold parseList at hpl
    simp only [] at hpl
    rw [if_pos c1, listLoop] at hpl
    simp only [] at hpl
    rcases hacc : parseInputMemberAccessor X (skipBlanks X (skipChar X 40 c).1) with ⟨s2, res2⟩
    rw [hacc] at hpl
    cases res2 with
    | err e => simp only [] at hpl; cases hpl
    | no => exact ⟨s2, rfl⟩
    | ok x =>
      simp only [] at hpl
      split at hpl
      · cases hpl
      · split at hpl
        · exact (exa_listLoop_false_ne_no _ _ _ _ _ _ hpl).elim
        · cases hpl

theorem exa_complex_no (C : ExaCtx E a b) {c c' : Sc} (hs : ExaSync E a b c c') {u t : Sc}
    {vals : List Val} (hno : parseComplexInsertValues E c = (u, .no))
    (hbas : parseBasicInsertValues E c = (t, .ok vals)) (hb : t.pos ≤ b) :
    parseComplexInsertValues (exaEnv E a b) c' = (c', .no) := by
  have h40 := skipChar_bok C.dok 40 hs.good
  -- the basic values start with a parenthesis
  have c1 : (skipChar E 40 c).2 = true := by
    unfold parseBasicInsertValues at hbas
    simp only [] at hbas
    by_cases c1 : (skipChar E 40 c).2 = true
    · exact c1
    · simp only [c1, Bool.not_false, if_true] at hbas
      split at hbas <;> cases hbas
  have hbl : basicLoop E c (E.len + 1) false [] (skipChar E 40 c).1 = (t, .ok vals) := by
    unfold parseBasicInsertValues at hbas
    simp only [c1, Bool.not_true, Bool.false_eq_true, if_false] at hbas
    exact hbas
  obtain ⟨s2, hacc⟩ := exa_complex_no_first hno c1
  have p0 := h40.prog c1
  have p1 := skipBlanks_post C.dok h40.good
  have hma := parseInputMemberAccessor_rok C.dok p1.good
  obtain ⟨g2, m2⟩ := hma.elim' hacc
  -- the first item of the basic values is a literal that ends inside the range
  have hw : (skipBlanks E (skipChar E 40 c).1).pos ≤ b := by
    rw [exa_basicLoop_succ] at hbl
    unfold exaBasicItem at hbl
    rw [hacc] at hbl
    simp only [] at hbl
    have hlr := skipLiteralInList_rok C.dok g2
    rcases hlit : skipLiteralInList E s2 with ⟨s3, res3⟩
    rw [hlit] at hbl
    obtain ⟨g3, m3⟩ := hlr.elim' hlit
    cases res3 with
    | err e => simp only [] at hbl; cases hbl
    | no => simp only [] at hbl; cases hbl
    | ok x =>
      simp only [] at hbl
      have := h40.good.pos_le
      have hpos := exa_basicTail_pos C.dok hs.good g3 (by have := h40.mono; have := p1.mono; omega)
        (by omega) hbl
      have := (skipBlanks_post C.dok g3).mono
      omega
  have hlt : c.pos < b := by have := p1.mono; omega
  obtain ⟨_, _, hch, _⟩ := hs.lt C hlt
  obtain ⟨c1', y1⟩ := exa_skipChar_true C 40 hs c1 (by have := p1.mono; omega)
  have y2 := exa_skipBlanks C y1 hw
  have key := exa_parseInputMemberAccessor_no C y2 hacc
  have h40c : c.char = 40 := (skipChar_true c1).2.1
  have hpl' : parseList (exaEnv E a b) (parseInputMemberAccessor (exaEnv E a b)) c' = (c', .no) := by
    unfold parseList
    simp only []
    rw [if_pos c1', listLoop]
    simp only []
    rcases hacc' : parseInputMemberAccessor (exaEnv E a b)
      (skipBlanks (exaEnv E a b) (skipChar (exaEnv E a b) 40 c').1) with ⟨u', res'⟩
    rw [hacc'] at key
    simp only [] at key
    subst key
    rfl
  have hma' : parseInputMemberAccessor (exaEnv E a b) c' = (c', .no) := by
    unfold parseInputMemberAccessor
    rw [skipChar_ne (by rw [hch, h40c]; decide)]
    simp only [Bool.false_eq_true, if_false]
  unfold parseComplexInsertValues
  rw [hpl']
  simp only []
  rw [hma']

/-- the asterisk form says "not this" while the column form goes on: the same on the
    extracted text -/
theorem exa_asterisk_no (C : ExaCtx E a b) (hs : ExaSync E a b s s') {u s1 : Sc} {cols : List Col}
    (hast : parseAsteriskInsertExpr E s = (u, .no))
    (hcol : parseColumns E s = (s1, some (cols, true)))
    (hval : (skipString E kwVALUES (skipBlanks E s1)).2 = true)
    (hcb : (skipBlanks E (skipString E kwVALUES (skipBlanks E s1)).1).pos ≤ b)
    (hfin : ∀ u, parseComplexInsertValues E (skipBlanks E (skipString E kwVALUES (skipBlanks E s1)).1)
        = (u, .no) →
      ∃ t vals, parseBasicInsertValues E (skipBlanks E (skipString E kwVALUES (skipBlanks E s1)).1)
        = (t, .ok vals) ∧ t.pos ≤ b) :
    parseAsteriskInsertExpr (exaEnv E a b) s' = (s', .no) := by
  obtain ⟨hlen, h40c, hpl⟩ := exa_parseColumns_paren hcol
  have hrok : ∀ s, Good E s → ROK E s (parseColumnAccessor E s) := fun s g => parseColumnAccessor_rok C.dok g
  have k0 := skipChar_bok C.dok 40 hs.good
  have c0 : (skipChar E 40 s).2 = true := by unfold skipChar; rw [if_pos ⟨hlen, h40c⟩]
  have p1 := skipBlanks_post C.dok k0.good
  -- positions after the column list
  have gs1 : Good E s1 := by
    have h := parseColumns_post C.dok hs.good
    rw [hcol] at h; exact h.good
  have q1 := skipBlanks_post C.dok gs1
  have q2 := skipString_VALUES_bok (E := E) q1.good
  have q3 := skipBlanks_post C.dok q2.good
  have n1 := q1.mono; have n2 := q2.mono; have n3 := q3.mono
  -- the first item of the column list
  unfold parseList at hpl
  simp only [] at hpl
  rw [if_pos c0, listLoop] at hpl
  simp only [] at hpl
  rcases hca : parseColumnAccessor E (skipBlanks E (skipChar E 40 s).1) with ⟨w2, res⟩
  rw [hca] at hpl
  obtain ⟨g2, m2⟩ := (hrok _ p1.good).elim' hca
  cases res with
  | err e => simp only [] at hpl; cases hpl
  | no => simp only [] at hpl; cases hpl
  | ok x =>
    simp only [] at hpl
    have p3 := skipBlanks_post C.dok g2
    have h41 := skipChar_bok C.dok 41 p3.good
    have h44 := skipChar_bok C.dok 44 p3.good
    have m0 := k0.mono; have m1 := p1.mono; have m3 := p3.mono
    have hw3 : (skipBlanks E w2).pos ≤ s1.pos := by
      by_cases c1 : (skipChar E 41 (skipBlanks E w2)).2 = true
      · rw [if_pos c1] at hpl; cases hpl; exact h41.mono
      · rw [if_neg c1] at hpl
        by_cases c2 : (skipChar E 44 (skipBlanks E w2)).2 = true
        · rw [if_pos c2] at hpl
          have := h44.prog c2
          have := h44.good.pos_le
          have hl := listLoop_lok C.dok hrok hs.good (E.len) false ([] ++ [x]) h44.good (by omega) (by omega)
          rw [hpl] at hl
          have : (skipChar E 44 (skipBlanks E w2)).1.pos ≤ s1.pos := hl.okmono cols rfl
          omega
        · rw [if_neg c2] at hpl; cases hpl
    have b0 : (skipChar E 40 s).1.pos ≤ b := by omega
    have b1 : (skipBlanks E (skipChar E 40 s).1).pos ≤ b := by omega
    obtain ⟨c0', y0⟩ := exa_skipChar_true C 40 hs c0 b0
    have y1 := exa_skipBlanks C y0 b1
    have hx' := parseAsteriskInsertExpr_eok C.dok' hs.good'
    -- it suffices to show that the answer is "not this"
    suffices key : (parseAsteriskInsertExpr (exaEnv E a b) s').2 = .no from Prod.ext (hx'.no key) key
    unfold parseAsteriskInsertExpr at hast ⊢
    simp only [c0, c0', Bool.not_true, Bool.false_eq_true, if_false] at hast ⊢
    by_cases c1 : (skipChar E 42 (skipBlanks E (skipChar E 40 s).1)).2 = true
    · simp only [c1, Bool.not_true, Bool.false_eq_true, if_false] at hast
      -- the first column is the asterisk
      have hstar := exa_pca_star c1
      rw [hstar] at hca
      have hw2 : w2 = (skipChar E 42 (skipBlanks E (skipChar E 40 s).1)).1 := by cases hca; rfl
      rw [hw2] at hpl hw3 m2 p3 h41 h44
      have b2 : (skipChar E 42 (skipBlanks E (skipChar E 40 s).1)).1.pos ≤ b := by
        have := p3.mono; omega
      have b3 : (skipBlanks E (skipChar E 42 (skipBlanks E (skipChar E 40 s).1)).1).pos ≤ b := by omega
      obtain ⟨c1', y2⟩ := exa_skipChar_true C 42 y1 c1 b2
      have y3 := exa_skipBlanks C y2 b3
      simp only [c1', Bool.not_true, Bool.false_eq_true, if_false]
      by_cases c2 : (skipChar E 41 (skipBlanks E (skipChar E 42 (skipBlanks E (skipChar E 40 s).1)).1)).2 = true
      · simp only [c2, Bool.not_true, Bool.false_eq_true, if_false, if_true] at hast hpl
        have hs1 : s1 = (skipChar E 41 (skipBlanks E (skipChar E 42 (skipBlanks E (skipChar E 40 s).1)).1)).1 := by
          cases hpl; rfl
        rw [hs1] at hval hcb hfin n1 n2 n3
        have b4 : (skipChar E 41 (skipBlanks E (skipChar E 42 (skipBlanks E (skipChar E 40 s).1)).1)).1.pos ≤ b := by
          omega
        obtain ⟨c2', y4⟩ := exa_skipChar_true C 41 y3 c2 b4
        have y5 := exa_skipBlanks C y4 (by omega)
        have hB := exa_skipString_VALUES C y5 (by omega)
        have y7 := exa_skipBlanks C hB.2 hcb
        simp only [hval, Bool.not_true, Bool.false_eq_true, if_false] at hast
        simp only [c2', hB.1, hval, Bool.not_true, Bool.false_eq_true, if_false]
        rcases hcv : parseComplexInsertValues E (skipBlanks E (skipString E kwVALUES (skipBlanks E
          (skipChar E 41 (skipBlanks E (skipChar E 42 (skipBlanks E (skipChar E 40 s).1)).1)).1)).1)
          with ⟨u2, res2⟩
        rw [hcv] at hast
        cases res2 with
        | ok srcs => simp only [] at hast; cases hast
        | err e => simp only [] at hast; cases hast
        | no =>
          obtain ⟨t, vals, hbas, htb⟩ := hfin u2 hcv
          rw [exa_complex_no C y7 hcv hbas htb]
      · have c2f : (skipChar E 41 (skipBlanks E (skipChar E 42 (skipBlanks E (skipChar E 40 s).1)).1)).2 = false := by
          simpa using c2
        rw [exa_skipChar_false C 41 y3 c2f]
        simp only [Bool.not_false, if_true]
    · have c1f : (skipChar E 42 (skipBlanks E (skipChar E 40 s).1)).2 = false := by simpa using c1
      rw [exa_skipChar_false C 42 y1 c1f]
      simp only [Bool.not_false, if_true]

/-- at the start of an insert expression the output attempt on the extracted text fails as
    it does on `E`: it finds `VALUES` where it wants `AS` -/
theorem exa_output_no_at_insert (C : ExaCtx E a b) (hc : ExaClass E) (hs : ExaSync E a b s s')
    {s1 : Sc} {cols : List Col} (hcol : parseColumns E s = (s1, some (cols, true)))
    (hval : (skipString E kwVALUES (skipBlanks E s1)).2 = true)
    (hvb : (skipString E kwVALUES (skipBlanks E s1)).1.pos ≤ b) :
    parseOutputExpr (exaEnv E a b) s' = (s', .no) := by
  obtain ⟨hlen, h40c, _⟩ := exa_parseColumns_paren hcol
  have hpc := parseColumns_post C.dok hs.good
  rw [hcol] at hpc
  have g1 : Good E s1 := hpc.good
  have m1 : s.pos ≤ s1.pos := hpc.mono
  have q1 := skipBlanks_post C.dok g1
  have q2 := skipString_VALUES_bok (E := E) q1.good
  have n1 := q1.mono; have n2 := q2.prog hval
  have hlt : s.pos < b := by omega
  obtain ⟨_, _, hch, _⟩ := hs.lt C hlt
  obtain ⟨s1', hcol', y1⟩ := exa_parseColumns C hc hs hcol (by omega)
  have y2 := exa_skipBlanks C y1 (by omega)
  have hB := exa_skipString_VALUES C y2 hvb
  have hAS := exa_skipString_AS_of_VALUES (E := exaEnv E a b) (by rw [hB.1]; exact hval)
  have htt : parseTargetType (exaEnv E a b) s' = (s', .no) := by
    unfold parseTargetType
    rw [skipChar_ne (by rw [hch, h40c]; decide)]
    simp only [Bool.false_eq_true, if_false]
  unfold parseOutputExpr
  rw [htt]
  simp only []
  rw [hcol']
  simp only [hAS, Bool.not_false, if_true]

/-! ### parseInsertExpr -/

/-- the part of `parseInsertExpr` after `(columns) VALUES` -/
def exaInsertTail (X : Env) (cp : Sc) (columns : List Col) (colcp : Sc) : Sc × Res Seg :=
  let complex : Option (Sc × List Acc) :=
    match parseComplexInsertValues X colcp with
    | (s2, .ok srcs) => if starCountTypes srcs != 0 then some (s2, srcs) else none
    | _ => none
  match complex with
  | some (s2, srcs) =>
    (s2, .ok { kind := .colInsert, a := cp.pos, b := s2.pos, cols := columns, types := srcs })
  | none =>
    match parseBasicInsertValues X colcp with
    | (_, .err e) => (cp, .err e)
    | (s3, .ok vals) =>
      (s3, .ok { kind := .basicInsert, a := cp.pos, b := s3.pos, cols := columns, vals := vals })
    | (_, .no) => (cp, .no)

theorem exa_parseInsertExpr_eq (X : Env) (s : Sc) :
    parseInsertExpr X s =
      match parseAsteriskInsertExpr X s with
      | (s1, .err e) => (s1, .err e)
      | (s1, .ok seg) => (s1, .ok seg)
      | (cp, .no) =>
        match parseColumns X cp with
        | (s1, some (columns, true)) =>
          let r := skipString X kwVALUES (skipBlanks X s1)
          if !r.2 then (cp, .no) else exaInsertTail X cp columns (skipBlanks X r.1)
        | _ => (cp, .no) := by
  unfold parseInsertExpr
  rfl

theorem exa_insertTail_complex {X : Env} {cp colcp s2 : Sc} {cols : List Col} {srcs : List Acc}
    (h : parseComplexInsertValues X colcp = (s2, .ok srcs)) (hst : (starCountTypes srcs != 0) = true) :
    exaInsertTail X cp cols colcp =
      (s2, .ok { kind := .colInsert, a := cp.pos, b := s2.pos, cols := cols, types := srcs }) := by
  unfold exaInsertTail
  simp only [h, hst, if_true]

theorem exa_insertTail_basic {X : Env} {cp colcp s3 : Sc} {cols : List Col} {vals : List Val}
    (hnone : ∀ s2 srcs, parseComplexInsertValues X colcp = (s2, .ok srcs) →
      (starCountTypes srcs != 0) = false)
    (hb : parseBasicInsertValues X colcp = (s3, .ok vals)) :
    exaInsertTail X cp cols colcp =
      (s3, .ok { kind := .basicInsert, a := cp.pos, b := s3.pos, cols := cols, vals := vals }) := by
  unfold exaInsertTail
  rcases hcv : parseComplexInsertValues X colcp with ⟨s2, res⟩
  cases res with
  | ok srcs => simp only [hnone s2 srcs hcv, Bool.false_eq_true, if_false, hb]
  | err e => simp only [hb]
  | no => simp only [hb]

theorem exa_insertTail_inv {X : Env} {cp colcp t : Sc} {cols : List Col} {seg : Seg}
    (h : exaInsertTail X cp cols colcp = (t, .ok seg)) :
    (∃ srcs, parseComplexInsertValues X colcp = (t, .ok srcs) ∧ (starCountTypes srcs != 0) = true ∧
      seg = { kind := .colInsert, a := cp.pos, b := t.pos, cols := cols, types := srcs }) ∨
    ((∀ s2 srcs, parseComplexInsertValues X colcp = (s2, .ok srcs) →
        (starCountTypes srcs != 0) = false) ∧
      ∃ vals, parseBasicInsertValues X colcp = (t, .ok vals) ∧
        seg = { kind := .basicInsert, a := cp.pos, b := t.pos, cols := cols, vals := vals }) := by
  unfold exaInsertTail at h
  have basic : ∀ {r : Sc × Res Seg},
      (match parseBasicInsertValues X colcp with
        | (_, .err e) => (cp, .err e)
        | (s3, .ok vals) =>
          (s3, .ok { kind := .basicInsert, a := cp.pos, b := s3.pos, cols := cols, vals := vals })
        | (_, .no) => (cp, .no)) = (t, Res.ok seg) →
      ∃ vals, parseBasicInsertValues X colcp = (t, .ok vals) ∧
        seg = { kind := .basicInsert, a := cp.pos, b := t.pos, cols := cols, vals := vals } := by
    intro _ hb
    split at hb
    · cases hb
    · next heq => cases hb; exact ⟨_, heq, rfl⟩
    · cases hb
  rcases hcv : parseComplexInsertValues X colcp with ⟨s2, res⟩
  rw [hcv] at h
  cases res with
  | ok srcs =>
    simp only [] at h
    by_cases hst : (starCountTypes srcs != 0) = true
    · simp only [hst, if_true] at h
      cases h
      exact Or.inl ⟨srcs, rfl, hst, rfl⟩
    · have hsf : (starCountTypes srcs != 0) = false := by simpa using hst
      simp only [hsf, Bool.false_eq_true, if_false] at h
      refine Or.inr ⟨fun s2' srcs' heq => ?_, basic (r := (t, .ok seg)) h⟩
      cases heq; exact hsf
  | err e =>
    simp only [] at h
    exact Or.inr ⟨fun s2' srcs' heq => (by cases heq), basic (r := (t, .ok seg)) h⟩
  | no =>
    simp only [] at h
    exact Or.inr ⟨fun s2' srcs' heq => (by cases heq), basic (r := (t, .ok seg)) h⟩

theorem exa_parseInsertExpr (C : ExaCtx E a b) (hc : ExaClass E) (hs : ExaSync E a b s s') {t : Sc}
    {seg : Seg} (he : parseInsertExpr E s = (t, .ok seg)) (hb : t.pos ≤ b) :
    ∃ t', parseInsertExpr (exaEnv E a b) s' = (t', .ok (seg.exaMv a)) ∧ ExaSync E a b t t' := by
  rw [exa_parseInsertExpr_eq] at he ⊢
  have hx := parseAsteriskInsertExpr_eok C.dok hs.good
  rcases hast : parseAsteriskInsertExpr E s with ⟨s0, res0⟩
  rw [hast] at he hx
  cases res0 with
  | err e => simp only [] at he; cases he
  | ok seg0 =>
    simp only [] at he
    cases he
    obtain ⟨t', hast', y⟩ := exa_parseAsteriskInsertExpr C hs hast hb
    rw [hast']
    exact ⟨t', rfl, y⟩
  | no =>
    simp only [] at he
    have h0 : s0 = s := hx.no rfl
    rw [h0] at hast he
    have hpc := parseColumns_post C.dok hs.good
    rcases hcol : parseColumns E s with ⟨s1, o⟩
    rw [hcol] at he hpc
    cases o with
    | none => simp only [] at he; cases he
    | some pr =>
      obtain ⟨cols, p⟩ := pr
      cases p with
      | false => simp only [] at he; cases he
      | true =>
        simp only [] at he hpc
        have g1 : Good E s1 := hpc.good
        have m1 : s.pos ≤ s1.pos := hpc.mono
        have q1 := skipBlanks_post C.dok g1
        have q2 := skipString_VALUES_bok (E := E) q1.good
        have q3 := skipBlanks_post C.dok q2.good
        have n1 := q1.mono; have n2 := q2.mono; have n3 := q3.mono
        have hcx := parseComplexInsertValues_rok C.dok q3.good
        have hbx := parseBasicInsertValues_rok C.dok q3.good
        by_cases c3 : (skipString E kwVALUES (skipBlanks E s1)).2 = true
        · simp only [c3, Bool.not_true, Bool.false_eq_true, if_false] at he
          -- the two ways the tail can succeed
          have hinv := exa_insertTail_inv he
          have hcb : (skipBlanks E (skipString E kwVALUES (skipBlanks E s1)).1).pos ≤ b := by
            rcases hinv with ⟨srcs, hcv, _, _⟩ | ⟨_, vals, hbv, _⟩
            · have := (hcx.elim' hcv).2; omega
            · have := (hbx.elim' hbv).2; omega
          have hfin : ∀ u, parseComplexInsertValues E
              (skipBlanks E (skipString E kwVALUES (skipBlanks E s1)).1) = (u, .no) →
              ∃ t vals, parseBasicInsertValues E
                (skipBlanks E (skipString E kwVALUES (skipBlanks E s1)).1) = (t, .ok vals) ∧ t.pos ≤ b := by
            intro u hu
            rcases hinv with ⟨srcs, hcv, _, _⟩ | ⟨_, vals, hbv, _⟩
            · rw [hu] at hcv; cases hcv
            · exact ⟨t, vals, hbv, hb⟩
          have hast' := exa_asterisk_no C hs hast hcol c3 hcb hfin
          obtain ⟨s1', hcol', y1⟩ := exa_parseColumns C hc hs hcol (by omega)
          have y2 := exa_skipBlanks C y1 (by omega)
          have hB := exa_skipString_VALUES C y2 (by omega)
          have y4 := exa_skipBlanks C hB.2 hcb
          rw [hast']
          simp only []
          rw [hcol']
          simp only [hB.1, c3, Bool.not_true, Bool.false_eq_true, if_false]
          rcases hinv with ⟨srcs, hcv, hst, hseg⟩ | ⟨hnone, vals, hbv, hseg⟩
          · obtain ⟨t', hcv', y5⟩ := exa_parseComplexInsertValues C y4 hcv hb
            rw [exa_insertTail_complex hcv' hst]
            refine ⟨t', ?_, y5⟩
            rw [hseg]
            simp only [Seg.exaMv, hs.pos', y5.pos']
          · obtain ⟨t', hbv', y5⟩ := exa_parseBasicInsertValues C y4 hbv hb
            have hnone' : ∀ s2 srcs, parseComplexInsertValues (exaEnv E a b)
                (skipBlanks (exaEnv E a b) (skipString (exaEnv E a b) kwVALUES
                  (skipBlanks (exaEnv E a b) s1')).1) = (s2, .ok srcs) →
                (starCountTypes srcs != 0) = false := by
              intro s2 srcs hcv'
              by_cases hst : starCountTypes srcs ≠ 0
              · obtain ⟨t2, e, herr⟩ := exa_complex_star_basic_err C.dok' y4.good' hcv' hst
                rw [hbv'] at herr; cases herr
              · simpa using hst
            rw [exa_insertTail_basic hnone' hbv']
            refine ⟨t', ?_, y5⟩
            rw [hseg]
            simp only [Seg.exaMv, hs.pos', y5.pos']
        · simp only [c3, Bool.not_false, if_true] at he
          cases he

theorem exa_parseInputExpr (C : ExaCtx E a b) (hc : ExaClass E) (hs : ExaSync E a b s s') {t : Sc}
    {seg : Seg} (he : parseInputExpr E s = (t, .ok seg)) (hb : t.pos ≤ b) :
    ∃ t', parseInputExpr (exaEnv E a b) s' = (t', .ok (seg.exaMv a)) ∧ ExaSync E a b t t' := by
  unfold parseInputExpr at he ⊢
  have hx1 := parseSliceInputExpr_eok C.dok hs.good
  rcases hsl : parseSliceInputExpr E s with ⟨s1, res1⟩
  rw [hsl] at he hx1
  cases res1 with
  | err e => simp only [] at he; cases he
  | ok seg1 =>
    simp only [] at he
    cases he
    obtain ⟨t', hsl', y⟩ := exa_parseSliceInputExpr C hs hsl hb
    rw [hsl']
    exact ⟨t', rfl, y⟩
  | no =>
    simp only [] at he
    have h1 : s1 = s := hx1.no rfl
    rw [h1] at he
    rw [exa_parseSliceInputExpr_no C hs hsl]
    simp only []
    have hx2 := parseMemberInputExpr_eok C.dok hs.good
    rcases hmb : parseMemberInputExpr E s with ⟨s2, res2⟩
    rw [hmb] at he hx2
    cases res2 with
    | err e => simp only [] at he; cases he
    | ok seg2 =>
      simp only [] at he
      cases he
      obtain ⟨t', hmb', y⟩ := exa_parseMemberInputExpr C hs hmb hb
      rw [hmb']
      exact ⟨t', rfl, y⟩
    | no =>
      simp only [] at he
      have h2 : s2 = s := hx2.no rfl
      rw [h2] at he
      rw [exa_parseMemberInputExpr_no C hs hmb]
      simp only []
      exact exa_parseInsertExpr C hc hs he hb

end
end Sqlair
