// Package lean talks to the compiled Lean driver over the JSON-lines protocol.
package lean

import (
	"bufio"
	"encoding/json"
	"fmt"
	"io"
	"os/exec"
)

type Client struct {
	cmd *exec.Cmd
	in  io.WriteCloser
	out *bufio.Reader
	n   int
}

func Start(path string) (*Client, error) {
	cmd := exec.Command(path)
	in, err := cmd.StdinPipe()
	if err != nil {
		return nil, err
	}
	out, err := cmd.StdoutPipe()
	if err != nil {
		return nil, err
	}
	if err := cmd.Start(); err != nil {
		return nil, err
	}
	return &Client{cmd: cmd, in: in, out: bufio.NewReaderSize(out, 1<<20)}, nil
}

// Call sends one request and reads one response.
func (c *Client) Call(req map[string]any) (map[string]any, error) {
	c.n++
	req["id"] = c.n
	b, err := json.Marshal(req)
	if err != nil {
		return nil, err
	}
	b = append(b, '\n')
	if _, err := c.in.Write(b); err != nil {
		return nil, fmt.Errorf("driver write: %w", err)
	}
	line, err := c.out.ReadBytes('\n')
	if err != nil {
		return nil, fmt.Errorf("driver read: %w", err)
	}
	var resp map[string]any
	if err := json.Unmarshal(line, &resp); err != nil {
		return nil, fmt.Errorf("driver response: %w: %s", err, line)
	}
	if e, ok := resp["error"]; ok {
		return resp, fmt.Errorf("driver error: %v", e)
	}
	return resp, nil
}

func (c *Client) Close() {
	c.in.Close()
	c.cmd.Wait()
}
