/-
  NoPanic/Locs: provenance of the locators of a prepared statement.  EVERY locator in the
  typed expressions produced by `bindTypes` (plain inputs, insert columns AND output columns)
  was handed out by one of the infos of `generateArgInfo` (`bindTypes_locs_sat`, generic in
  the property `R` of locators that the infos guarantee).  Instantiated with the infos that
  `getArgInfo` builds: a `.field` locator carries a field computed by `getStructFields` for
  its struct type (`bindTypes_locs_gen`).
-/
import SqlairProofs.Bind.LocKinds
import SqlairProofs.NoPanic.Path

namespace Sqlair

/-- all locators of a typed expression: inputs, insert columns, output columns -/
def TExpr.allLocs : TExpr → List Loc
  | .input l => [l]
  | .insert cols => cols.filterMap TCol.loc?
  | .output cols => cols.map (·.2)
  | .bypass _ => []

theorem TExpr.inputLocs_subset_allLocs (te : TExpr) : ∀ l ∈ te.inputLocs, l ∈ te.allLocs := by
  cases te <;> simp [TExpr.inputLocs, TExpr.allLocs]

/-- `R` holds of every locator the infos hand out -/
structure LocClosed (infos : List (Bytes × ArgInfo)) (R : Loc → Prop) : Prop where
  member : ∀ k a m l, (k, a) ∈ infos → ArgInfo.getMember a m = .ok l → R l
  all : ∀ k a ms, (k, a) ∈ infos → ArgInfo.getAll a = .ok ms → ∀ p ∈ ms, R p.1
  slice : ∀ k a l, (k, a) ∈ infos → ArgInfo.getSlice a = .ok l → R l

section
variable {infos : List (Bytes × ArgInfo)} {R : Loc → Prop} (hc : LocClosed infos R)
include hc

omit hc in
theorem getArg_sat {st st' : TEB} {n : Bytes} {a : ArgInfo} (h : getArg st n = .ok (a, st'))
    (hi : st.argInfos = infos) : st'.argInfos = infos ∧ ∃ k, (k, a) ∈ infos := by
  obtain ⟨_, h2, _, k, hk⟩ := getArg_ok h
  exact ⟨h2.trans hi, k, hi ▸ hk⟩

theorem inputMember_sat {st st' : TEB} {ty m : Bytes} {l : Loc}
    (h : inputMember st ty m = .ok (l, st')) (hi : st.argInfos = infos) :
    st'.argInfos = infos ∧ R l := by
  unfold inputMember at h
  split at h
  · cases h
  · rename_i a st1 hg
    obtain ⟨h1, k, hk⟩ := getArg_sat hg hi
    split at h
    · cases h
    · rename_i l' hm
      cases h
      exact ⟨h1, hc.member k a m l hk hm⟩

theorem allStructInputs_sat {st st' : TEB} {ty : Bytes} {ms : List (Loc × Bytes)}
    (h : allStructInputs st ty = .ok (ms, st')) (hi : st.argInfos = infos) :
    st'.argInfos = infos ∧ ∀ p ∈ ms, R p.1 := by
  unfold allStructInputs at h
  split at h
  · cases h
  · rename_i a st1 hg
    obtain ⟨h1, k, hk⟩ := getArg_sat hg hi
    split at h
    · cases h
    · rename_i ms' hm
      cases h
      exact ⟨h1, hc.all k a ms hk hm⟩

theorem outputMember_sat {st st' : TEB} {ty m : Bytes} {l : Loc}
    (h : outputMember st ty m = .ok (l, st')) (hi : st.argInfos = infos) :
    st'.argInfos = infos ∧ R l := by
  have h0 := (outputMember_ok h).2
  unfold outputMember at h
  split at h
  · cases h
  · rename_i a st1 hg
    obtain ⟨h1, k, hk⟩ := getArg_sat hg hi
    split at h
    · cases h
    · rename_i l' hm
      split at h
      · cases h
      · cases h
        exact ⟨h0.trans hi, hc.member k a m l hk hm⟩

theorem allStructOutputs_sat {st st' : TEB} {ty : Bytes} {ms : List (Loc × Bytes)}
    (h : allStructOutputs st ty = .ok (ms, st')) (hi : st.argInfos = infos) :
    st'.argInfos = infos ∧ ∀ p ∈ ms, R p.1 := by
  have h0 := (allStructOutputs_ok h).2.1
  unfold allStructOutputs at h
  split at h
  · cases h
  · rename_i a st1 hg
    obtain ⟨h1, k, hk⟩ := getArg_sat hg hi
    split at h
    · cases h
    · rename_i ms' hm
      split at h
      · cases h
      · cases h
        exact ⟨h0.trans hi, hc.all k a ms hk hm⟩

/-! ### insert loops -/

omit hc in
theorem tcols_append {a b : List TCol} (ha : ∀ l ∈ a.filterMap TCol.loc?, R l)
    (hb : ∀ l ∈ b.filterMap TCol.loc?, R l) : ∀ l ∈ (a ++ b).filterMap TCol.loc?, R l := by
  intro l hl
  rw [List.filterMap_append, List.mem_append] at hl
  rcases hl with hl | hl
  · exact ha l hl
  · exact hb l hl

theorem astInsertCols_sat : ∀ (srcs : List Acc) (st st' : TEB) (cols cols' : List TCol),
    astInsertCols st srcs cols = .ok (cols', st') → st.argInfos = infos →
    (∀ l ∈ cols.filterMap TCol.loc?, R l) →
    st'.argInfos = infos ∧ ∀ l ∈ cols'.filterMap TCol.loc?, R l := by
  intro srcs
  induction srcs with
  | nil =>
    intro st st' cols cols' h hi hcols
    simp only [astInsertCols] at h
    cases h; exact ⟨hi, hcols⟩
  | cons src rest ih =>
    intro st st' cols cols' h hi hcols
    simp only [astInsertCols] at h
    split at h
    · split at h
      · cases h
      · rename_i ms st1 ha
        obtain ⟨h1, h2⟩ := allStructInputs_sat hc ha hi
        refine ih _ _ _ _ h h1 (tcols_append hcols ?_)
        intro l hl
        simp only [List.mem_filterMap, List.mem_map] at hl
        obtain ⟨c, ⟨p, hp, rfl⟩, hcl⟩ := hl
        simp only [TCol.loc?, Option.some.injEq] at hcl
        subst hcl
        exact h2 p hp
    · split at h
      · cases h
      · rename_i l st1 ha
        obtain ⟨h1, h2⟩ := inputMember_sat hc ha hi
        refine ih _ _ _ _ h h1 (tcols_append hcols ?_)
        intro l' hl'
        simp only [List.filterMap_cons, TCol.loc?, List.filterMap_nil, List.mem_singleton] at hl'
        subst hl'; exact h2

def ProvSat (R : Loc → Prop) (m : List (Bytes × List Loc)) : Prop := ∀ p ∈ m, ∀ l ∈ p.2, R l

omit hc in
theorem provAssign_sat {m : List (Bytes × List Loc)} {k : Bytes} {l : Loc}
    (hm : ProvSat R m) (hl : R l) : ProvSat R (provAssign m k l) := by
  unfold provAssign
  split
  · intro p hp l' hl'
    simp only [List.mem_map] at hp
    obtain ⟨q, hq, rfl⟩ := hp
    split at hl'
    · simp only [List.mem_singleton] at hl'; subst hl'; exact hl
    · exact hm q hq l' hl'
  · intro p hp l' hl'
    rcases List.mem_append.1 hp with hp | hp
    · exact hm p hp l' hl'
    · simp only [List.mem_singleton] at hp; subst hp
      simp only [List.mem_singleton] at hl'; subst hl'; exact hl

omit hc in
theorem provAppend_sat {m : List (Bytes × List Loc)} {k : Bytes} {l : Loc}
    (hm : ProvSat R m) (hl : R l) : ProvSat R (provAppend m k l) := by
  unfold provAppend
  split
  · intro p hp l' hl'
    simp only [List.mem_map] at hp
    obtain ⟨q, hq, rfl⟩ := hp
    split at hl'
    · rcases List.mem_append.1 hl' with h | h
      · exact hm q hq l' h
      · simp only [List.mem_singleton] at h; subst h; exact hl
    · exact hm q hq l' hl'
  · intro p hp l' hl'
    rcases List.mem_append.1 hp with hp | hp
    · exact hm p hp l' hl'
    · simp only [List.mem_singleton] at hp; subst hp
      simp only [List.mem_singleton] at hl'; subst hl'; exact hl

omit hc in
theorem provAppend_foldl_sat : ∀ (ms : List (Loc × Bytes)) (m : List (Bytes × List Loc)),
    ProvSat R m → (∀ p ∈ ms, R p.1) →
    ProvSat R (ms.foldl (fun pr (x : Loc × Bytes) => provAppend pr x.2 x.1) m) := by
  intro ms
  induction ms with
  | nil => intro m hm _; exact hm
  | cons x rest ih =>
    intro m hm h
    simp only [List.foldl_cons]
    exact ih _ (provAppend_sat hm (h x (by simp))) (fun p hp => h p (by simp [hp]))

theorem colInsertProviders_sat : ∀ (srcs : List Acc) (st st' : TEB)
    (prov prov' : List (Bytes × List Loc)) (rem rem' : Option Bytes),
    colInsertProviders st srcs prov rem = .ok ((prov', rem'), st') → st.argInfos = infos →
    ProvSat R prov → st'.argInfos = infos ∧ ProvSat R prov' := by
  intro srcs
  induction srcs with
  | nil =>
    intro st st' prov prov' rem rem' h hi hp
    simp only [colInsertProviders] at h
    cases h; exact ⟨hi, hp⟩
  | cons src rest ih =>
    intro st st' prov prov' rem rem' h hi hp
    simp only [colInsertProviders] at h
    split at h
    · split at h
      · cases h
      · rename_i hg
        obtain ⟨h1, _⟩ := getArg_sat hg hi
        split at h
        · cases h
        · exact ih _ _ _ _ _ _ h h1 hp
      · rename_i hg
        obtain ⟨h1, _⟩ := getArg_sat hg hi
        split at h
        · cases h
        · rename_i ms st2 ha
          obtain ⟨h2, h3⟩ := allStructInputs_sat hc ha h1
          exact ih _ _ _ _ _ _ h h2 (provAppend_foldl_sat ms prov hp h3)
    · split at h
      · cases h
      · rename_i l st1 ha
        obtain ⟨h1, h2⟩ := inputMember_sat hc ha hi
        exact ih _ _ _ _ _ _ h h1 (provAssign_sat hp h2)

theorem colInsertCols_sat (prov : List (Bytes × List Loc)) (rem : Option Bytes)
    (hp : ProvSat R prov) : ∀ (cs : List Col) (st st' : TEB) (cols cols' : List TCol),
    colInsertCols prov rem st cs cols = .ok (cols', st') → st.argInfos = infos →
    (∀ l ∈ cols.filterMap TCol.loc?, R l) →
    st'.argInfos = infos ∧ ∀ l ∈ cols'.filterMap TCol.loc?, R l := by
  intro cs
  induction cs with
  | nil =>
    intro st st' cols cols' h hi hcols
    simp only [colInsertCols] at h
    cases h; exact ⟨hi, hcols⟩
  | cons c rest ih =>
    intro st st' cols cols' h hi hcols
    simp only [colInsertCols] at h
    split at h
    · rename_i k l hf
      have hmem := List.mem_of_find?_eq_some hf
      refine ih _ _ _ _ h hi (tcols_append hcols ?_)
      intro l' hl'
      simp only [List.filterMap_cons, TCol.loc?, List.filterMap_nil, List.mem_singleton] at hl'
      subst hl'; exact hp _ hmem l' (by simp)
    · cases h
    · split at h
      · cases h
      · rename_i l st1 ha
        obtain ⟨h1, h2⟩ := inputMember_sat hc ha hi
        refine ih _ _ _ _ h h1 (tcols_append hcols ?_)
        intro l' hl'
        simp only [List.filterMap_cons, TCol.loc?, List.filterMap_nil, List.mem_singleton] at hl'
        subst hl'; exact h2
    · cases h

theorem basicInsertCols_sat : ∀ (ps : List (Col × Val)) (st st' : TEB) (cols cols' : List TCol),
    basicInsertCols st ps cols = .ok (cols', st') → st.argInfos = infos →
    (∀ l ∈ cols.filterMap TCol.loc?, R l) →
    st'.argInfos = infos ∧ ∀ l ∈ cols'.filterMap TCol.loc?, R l := by
  intro ps
  induction ps with
  | nil =>
    intro st st' cols cols' h hi hcols
    simp only [basicInsertCols] at h
    cases h; exact ⟨hi, hcols⟩
  | cons p rest ih =>
    intro st st' cols cols' h hi hcols
    obtain ⟨c, v⟩ := p
    simp only [basicInsertCols] at h
    split at h
    · refine ih _ _ _ _ h hi (tcols_append hcols ?_)
      intro l' hl'
      simp [TCol.loc?] at hl'
    · split at h
      · cases h
      · rename_i l st1 ha
        obtain ⟨h1, h2⟩ := inputMember_sat hc ha hi
        refine ih _ _ _ _ h h1 (tcols_append hcols ?_)
        intro l' hl'
        simp only [List.filterMap_cons, TCol.loc?, List.filterMap_nil, List.mem_singleton] at hl'
        subst hl'; exact h2

/-! ### output loops -/

omit hc in
theorem newOutputColumn_snd (table column : Bytes) (l : Loc) : (newOutputColumn table column l).2 = l := by
  unfold newOutputColumn; split <;> rfl

omit hc in
theorem ocs_append {a b : List (Bytes × Loc)} (ha : ∀ c ∈ a, R c.2) (hb : ∀ c ∈ b, R c.2) :
    ∀ c ∈ a ++ b, R c.2 := by
  intro c hcm
  rcases List.mem_append.1 hcm with h | h
  · exact ha c h
  · exact hb c h

theorem outGenerated_sat (pref : Bytes) : ∀ (ts : List Acc) (st st' : TEB) (ocs ocs' : List (Bytes × Loc)),
    outGenerated pref st ts ocs = .ok (ocs', st') → st.argInfos = infos → (∀ c ∈ ocs, R c.2) →
    st'.argInfos = infos ∧ ∀ c ∈ ocs', R c.2 := by
  intro ts
  induction ts with
  | nil =>
    intro st st' ocs ocs' h hi ho
    simp only [outGenerated] at h
    cases h; exact ⟨hi, ho⟩
  | cons t rest ih =>
    intro st st' ocs ocs' h hi ho
    simp only [outGenerated] at h
    split at h
    · split at h
      · cases h
      · rename_i ms st1 ha
        obtain ⟨h1, h2⟩ := allStructOutputs_sat hc ha hi
        refine ih _ _ _ _ h h1 (ocs_append ho ?_)
        intro c hcm
        simp only [List.mem_map] at hcm
        obtain ⟨p, hp, rfl⟩ := hcm
        rw [newOutputColumn_snd]
        exact h2 p hp
    · split at h
      · cases h
      · rename_i l st1 ha
        obtain ⟨h1, h2⟩ := outputMember_sat hc ha hi
        refine ih _ _ _ _ h h1 (ocs_append ho ?_)
        intro c hcm
        simp only [List.mem_singleton] at hcm
        subst hcm
        rw [newOutputColumn_snd]; exact h2

theorem outIntoStar_sat (ty : Bytes) : ∀ (cs : List Col) (st st' : TEB) (ocs ocs' : List (Bytes × Loc)),
    outIntoStar ty st cs ocs = .ok (ocs', st') → st.argInfos = infos → (∀ c ∈ ocs, R c.2) →
    st'.argInfos = infos ∧ ∀ c ∈ ocs', R c.2 := by
  intro cs
  induction cs with
  | nil =>
    intro st st' ocs ocs' h hi ho
    simp only [outIntoStar] at h
    cases h; exact ⟨hi, ho⟩
  | cons c rest ih =>
    intro st st' ocs ocs' h hi ho
    simp only [outIntoStar] at h
    split at h
    · cases h
    · rename_i l st1 ha
      obtain ⟨h1, h2⟩ := outputMember_sat hc ha hi
      refine ih _ _ _ _ h h1 (ocs_append ho ?_)
      intro c' hcm
      simp only [List.mem_singleton] at hcm
      subst hcm
      rw [newOutputColumn_snd]; exact h2

theorem outPairwise_sat : ∀ (ps : List (Col × Acc)) (st st' : TEB) (ocs ocs' : List (Bytes × Loc)),
    outPairwise st ps ocs = .ok (ocs', st') → st.argInfos = infos → (∀ c ∈ ocs, R c.2) →
    st'.argInfos = infos ∧ ∀ c ∈ ocs', R c.2 := by
  intro ps
  induction ps with
  | nil =>
    intro st st' ocs ocs' h hi ho
    simp only [outPairwise] at h
    cases h; exact ⟨hi, ho⟩
  | cons p rest ih =>
    intro st st' ocs ocs' h hi ho
    obtain ⟨c, t⟩ := p
    simp only [outPairwise] at h
    split at h
    · cases h
    · rename_i l st1 ha
      obtain ⟨h1, h2⟩ := outputMember_sat hc ha hi
      refine ih _ _ _ _ h h1 (ocs_append ho ?_)
      intro c' hcm
      simp only [List.mem_singleton] at hcm
      subst hcm
      rw [newOutputColumn_snd]; exact h2

/-! ### `bindSeg`, `bindSegs` -/

def AllLocsSat (R : Loc → Prop) (es : List TExpr) : Prop := ∀ te ∈ es, ∀ l ∈ te.allLocs, R l

omit hc in
theorem AllLocsSat.add {es : List TExpr} {e : TExpr} (h : AllLocsSat R es)
    (he : ∀ l ∈ e.allLocs, R l) : AllLocsSat R (es ++ [e]) := by
  intro te hm
  rcases List.mem_append.1 hm with hm | hm
  · exact h _ hm
  · simp only [List.mem_singleton] at hm; subst hm; exact he

theorem bindSeg_sat {st st' : TEB} {s : OSeg} (h : bindSeg st s = .ok st')
    (hi : st.argInfos = infos) (hes : AllLocsSat R st.exprs) : AllLocsSat R st'.exprs := by
  have nil_cols : ∀ l ∈ ([] : List TCol).filterMap TCol.loc?, R l := by intro l hl; cases hl
  have nil_ocs : ∀ c ∈ ([] : List (Bytes × Loc)), R c.2 := by intro c hcm; cases hcm
  have out_locs : ∀ ocs : List (Bytes × Loc), (∀ c ∈ ocs, R c.2) → ∀ l ∈ (TExpr.output ocs).allLocs, R l := by
    intro ocs ho l hl
    simp only [TExpr.allLocs, List.mem_map] at hl
    obtain ⟨c, hcm, rfl⟩ := hl
    exact ho c hcm
  unfold bindSeg at h
  split at h
  · -- bypass
    cases h
    exact hes.add (by intro l hl; cases hl)
  · -- member
    split at h
    · split at h
      · cases h
      · rename_i l st1 ha
        cases h
        show AllLocsSat R (st1.exprs ++ _)
        rw [(inputMember_ok ha).2.1]
        refine hes.add ?_
        intro l' hl'
        simp only [TExpr.allLocs, List.mem_singleton] at hl'
        subst hl'; exact (inputMember_sat hc ha hi).2
    · cases h
  · -- slice
    split at h
    · split at h
      · cases h
      · rename_i ai st1 hg
        split at h
        · cases h
        · rename_i l hs
          cases h
          show AllLocsSat R (st1.exprs ++ _)
          rw [(getArg_ok hg).1]
          refine hes.add ?_
          intro l' hl'
          simp only [TExpr.allLocs, List.mem_singleton] at hl'
          subst hl'
          obtain ⟨_, k, hk⟩ := getArg_sat hg hi
          exact hc.slice k ai l' hk hs
    · cases h
  · -- astInsert
    split at h
    · cases h
    · rename_i cols st1 ha
      cases h
      show AllLocsSat R (st1.exprs ++ _)
      rw [(astInsertCols_ok _ _ _ _ _ ha .nil).2.1]
      exact hes.add (astInsertCols_sat hc _ _ _ _ _ ha hi nil_cols).2
  · -- colInsert
    split at h
    · cases h
    · rename_i prov rem st1 hp
      have h0 := colInsertProviders_ok _ _ _ _ _ _ _ hp (by intro p hp; cases hp)
      obtain ⟨hi1, hps⟩ := colInsertProviders_sat hc _ _ _ _ _ _ _ hp hi (by intro p hp; cases hp)
      split at h
      · cases h
      · rename_i cols st2 ha
        cases h
        show AllLocsSat R (st2.exprs ++ _)
        rw [(colInsertCols_ok _ _ h0.1 _ _ _ _ _ ha .nil).2.1, h0.2.1]
        exact hes.add (colInsertCols_sat hc _ _ hps _ _ _ _ _ ha hi1 nil_cols).2
  · -- basicInsert
    split at h
    · cases h
    · split at h
      · cases h
      · rename_i cols st1 ha
        cases h
        show AllLocsSat R (st1.exprs ++ _)
        rw [(basicInsertCols_ok _ _ _ _ _ ha .nil).2.1]
        exact hes.add (basicInsertCols_sat hc _ _ _ _ _ ha hi nil_cols).2
  · -- output
    simp only [] at h
    split at h
    · split at h
      · cases h
      · rename_i ocs st1 ha
        cases h
        show AllLocsSat R (st1.exprs ++ _)
        rw [(outGenerated_ok _ _ _ _ _ _ ha).1]
        exact hes.add (out_locs _ (outGenerated_sat hc _ _ _ _ _ _ ha hi nil_ocs).2)
    · split at h
      · cases h
      · split at h
        · split at h
          · cases h
          · rename_i ocs st1 ha
            cases h
            show AllLocsSat R (st1.exprs ++ _)
            rw [(outIntoStar_ok _ _ _ _ _ _ ha).1]
            exact hes.add (out_locs _ (outIntoStar_sat hc _ _ _ _ _ _ ha hi nil_ocs).2)
        · split at h
          · cases h
          · split at h
            · split at h
              · cases h
              · rename_i ocs st1 ha
                cases h
                show AllLocsSat R (st1.exprs ++ _)
                rw [(outPairwise_ok _ _ _ _ _ ha).1]
                exact hes.add (out_locs _ (outPairwise_sat hc _ _ _ _ _ ha hi nil_ocs).2)
            · cases h

theorem bindSegs_sat : ∀ (segs : List OSeg) (st st' : TEB),
    bindSegs st segs = .ok st' → st.argInfos = infos → AllLocsSat R st.exprs → AllLocsSat R st'.exprs := by
  intro segs
  induction segs with
  | nil => intro st st' h _ hes; simp only [bindSegs] at h; cases h; exact hes
  | cons s rest ih =>
    intro st st' h hi hes
    simp only [bindSegs] at h
    split at h
    · cases h
    · rename_i st1 hs
      exact ih _ _ h ((bindSeg_argInfos hs).trans hi) (bindSeg_sat hc hs hi hes)

end

/-- every locator of a prepared statement satisfies every property that the infos of
    `generateArgInfo` guarantee of the locators they hand out -/
theorem bindTypes_locs_sat {C : Cls} {tt : TypeTable} {segs : List OSeg}
    {samples : List (Option Nat)} {tes : List TExpr} (h : bindTypes C tt segs samples = .ok tes) :
    ∃ infos, generateArgInfo C tt samples [] = .ok infos ∧
      ∀ R : Loc → Prop, LocClosed infos R → AllLocsSat R tes := by
  unfold bindTypes at h
  split at h
  · cases h
  · rename_i infos hg
    refine ⟨infos, hg, ?_⟩
    intro R hc
    split at h
    · cases h
    · rename_i st hs
      split at h
      · cases h
        exact bindSegs_sat hc _ _ _ hs rfl (by intro te hte; cases hte)
      · cases h

/-! ### what the infos of `generateArgInfo` guarantee -/

/-- the info was built by `getArgInfo` for its own type id, a named type -/
def InfoGen (C : Cls) (tt : TypeTable) (a : ArgInfo) : Prop :=
  getArgInfo C tt a.tid = .ok a ∧ (tt.get a.tid).name.size ≠ 0

theorem getArgInfo_tid {C : Cls} {tt : TypeTable} {tid : Nat} {info : ArgInfo}
    (h : getArgInfo C tt tid = .ok info) : info.tid = tid := by
  unfold getArgInfo at h
  simp only [] at h
  split at h
  · split at h
    · cases h
    · cases h; rfl
  · split at h
    · cases h
    · split at h
      · cases h
      · cases h; rfl
  · cases h; rfl
  · cases h

theorem generateArgInfo_gen {C : Cls} {tt : TypeTable} :
    ∀ (samples : List (Option Nat)) (acc infos : List (Bytes × ArgInfo)),
    generateArgInfo C tt samples acc = .ok infos → (∀ p ∈ acc, InfoGen C tt p.2) →
    ∀ p ∈ infos, InfoGen C tt p.2 := by
  intro samples
  induction samples with
  | nil => intro acc infos h hacc; simp only [generateArgInfo] at h; cases h; exact hacc
  | cons smp rest ih =>
    intro acc infos h hacc
    cases smp with
    | none => simp only [generateArgInfo] at h; cases h
    | some tid =>
      simp only [generateArgInfo] at h
      split at h
      all_goals first | (cases h; done) | skip
      all_goals
        split at h
        · cases h
        · rename_i hsz
          simp only [beq_iff_eq] at hsz
          split at h
          · cases h
          · rename_i info hg
            split at h
            · cases h
            · refine ih _ _ h ?_
              intro p hm
              rcases List.mem_append.1 hm with hm | hm
              · exact hacc p hm
              · simp only [List.mem_singleton] at hm
                subst hm
                have ht := getArgInfo_tid hg
                exact ⟨by rw [ht]; exact hg, by rw [ht]; exact hsz⟩

/-- what `bindTypes` guarantees of a locator: its type id has the kind the constructor
    promises (a slice locator names a named slice, a map locator a map with string-kind
    keys), and a field locator carries a field that `getStructFields` computed for its
    struct type, with the fuel `getArgInfo` passes -/
def Loc.GenOK (C : Cls) (tt : TypeTable) : Loc → Prop
  | .field tid _ f =>
    (tt.get tid).kind = .struct ∧
      ∃ fields, getStructFields C tt (tt.size + 1) [] tid = .ok fields ∧ f ∈ fields
  | .mapKey tid _ _ => (tt.get tid).kind = .map ∧ (tt.get (tt.get tid).key).kind = .string
  | .slice tid _ => (tt.get tid).kind = .slice ∧ (tt.get tid).name.size ≠ 0

theorem Loc.GenOK.kindOK {C : Cls} {tt : TypeTable} {l : Loc} (h : l.GenOK C tt) : l.kindOK tt := by
  cases l with
  | field tid n f => exact h.1
  | mapKey tid n k => exact h.1
  | slice tid n => exact h

/-- a field locator's index path follows the table from its struct type -/
theorem Loc.GenOK.pathOK {C : Cls} {tt : TypeTable} {tid : Nat} {n : Bytes} {f : SField}
    (h : (Loc.field tid n f).GenOK C tt) : PathOK tt tid f.index := by
  obtain ⟨_, fields, hg, hf⟩ := h
  exact getStructFields_paths _ _ _ _ hg f hf

/-- the shape of an info built by `getArgInfo` -/
theorem getArgInfo_shape {C : Cls} {tt : TypeTable} {tid : Nat} {info : ArgInfo}
    (h : getArgInfo C tt tid = .ok info) :
    (∃ n, info = .map tid n ∧ (tt.get tid).kind = .map ∧ (tt.get (tt.get tid).key).kind = .string) ∨
    (∃ n fields tags, info = .struct tid n fields tags ∧ (tt.get tid).kind = .struct ∧
      getStructFields C tt (tt.size + 1) [] tid = .ok fields) ∨
    (∃ n, info = .slice tid n ∧ (tt.get tid).kind = .slice) := by
  unfold getArgInfo at h
  simp only [] at h
  split at h
  · rename_i hk
    split at h
    · cases h
    · rename_i hkey
      cases h
      exact Or.inl ⟨_, rfl, hk, by simpa using hkey⟩
  · rename_i hk
    split at h
    · cases h
    · rename_i fields hg
      split at h
      · cases h
      · cases h
        exact Or.inr (Or.inl ⟨_, fields, _, rfl, hk, hg⟩)
  · rename_i hk
    cases h
    exact Or.inr (Or.inr ⟨_, rfl, hk⟩)
  · cases h

theorem locClosed_genOK {C : Cls} {tt : TypeTable} {infos : List (Bytes × ArgInfo)}
    (hg : ∀ p ∈ infos, InfoGen C tt p.2) : LocClosed infos (Loc.GenOK C tt) := by
  constructor
  · intro k a m l hk hm
    obtain ⟨hgen, _⟩ : InfoGen C tt a := hg (k, a) hk
    generalize a.tid = t at hgen
    rcases getArgInfo_shape hgen with ⟨n, rfl, h1, h2⟩ | ⟨n, fields, tags, rfl, h1, h2⟩ | ⟨n, rfl, h1⟩
    · simp only [ArgInfo.getMember] at hm
      cases hm
      exact ⟨h1, h2⟩
    · simp only [ArgInfo.getMember] at hm
      split at hm
      · rename_i f hf
        cases hm
        exact ⟨h1, fields, h2, List.mem_of_find?_eq_some hf⟩
      · cases hm
    · simp [ArgInfo.getMember] at hm
  · intro k a ms hk hm
    obtain ⟨hgen, _⟩ : InfoGen C tt a := hg (k, a) hk
    generalize a.tid = t at hgen
    rcases getArgInfo_shape hgen with ⟨n, rfl, h1, h2⟩ | ⟨n, fields, tags, rfl, h1, h2⟩ | ⟨n, rfl, h1⟩
    · simp [ArgInfo.getAll] at hm
    · simp only [ArgInfo.getAll] at hm
      split at hm
      · cases hm
      · cases hm
        intro p hp
        simp only [List.mem_filterMap, Option.map_eq_some_iff] at hp
        obtain ⟨t', _, f, hf, rfl⟩ := hp
        exact ⟨h1, fields, h2, List.mem_of_find?_eq_some hf⟩
    · simp [ArgInfo.getAll] at hm
  · intro k a l hk hm
    obtain ⟨hgen, hname⟩ : InfoGen C tt a := hg (k, a) hk
    generalize a.tid = t at hgen hname
    rcases getArgInfo_shape hgen with ⟨n, rfl, h1, h2⟩ | ⟨n, fields, tags, rfl, h1, h2⟩ | ⟨n, rfl, h1⟩
    · simp [ArgInfo.getSlice] at hm
    · simp [ArgInfo.getSlice] at hm
    · simp only [ArgInfo.getSlice] at hm
      cases hm
      exact ⟨h1, hname⟩

/-- every locator (input, insert column, output column) of a prepared statement is
    `GenOK`: well-kinded, and a field locator carries a field of `getStructFields` -/
theorem bindTypes_locs_genOK {C : Cls} {tt : TypeTable} {segs : List OSeg}
    {samples : List (Option Nat)} {tes : List TExpr} (h : bindTypes C tt segs samples = .ok tes) :
    AllLocsSat (Loc.GenOK C tt) tes := by
  obtain ⟨infos, hg, hall⟩ := bindTypes_locs_sat h
  exact hall _ (locClosed_genOK (generateArgInfo_gen _ _ _ hg (by intro p hp; cases hp)))

end Sqlair
