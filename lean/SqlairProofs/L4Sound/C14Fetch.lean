/-
  L4Sound, C14 on `iter` cases: a fetch failure that ended the iteration is reported by every
  Close — unless the driver was asked for no more rows than precede the failure.
-/
import SqlairProofs.L4Sound.C14Iter

namespace Sqlair.Rt

/-- the three situations of an iteration with a scripted fetch failure: an error is pending;
    the iteration is over and at most `k` rows were asked for; the result set is open, the
    failure still ahead -/
def l4s_I7 (k : Nat) (it : Iter) (w : World) : Prop :=
  (∃ e, it.pending = some e) ∨
  (it.ended = true ∧ w.l4s_nexts ≤ k) ∨
  (it.err = none ∧ ∃ (r : Rows) (oks : List Row) (e0 : Err), it.rows = some r ∧ r.closed = false ∧ r.lasterr = none ∧
     r.fetch = oks.map .ok ++ [.error e0] ∧ w.l4s_nexts + oks.length ≤ k)

theorem l4s_callStep_WF {it : Iter} (h : it.WF) (call : String) (w : World) : (callStep call it w).1.WF := by
  obtain ⟨h1, _, _⟩ := callStep_eq call it w
  rw [h1]; exact step_WF h w _

theorem l4s_callStep_pending {it : Iter} (hwf : it.WF) {e : Err} (h : it.pending = some e) (call : String)
    (w : World) : (callStep call it w).1.pending = some e := by
  obtain ⟨h1, _, _⟩ := callStep_eq call it w
  rw [h1]; exact step_pending hwf h w _

theorem l4s_preCancel_WF {it : Iter} (h : it.WF) (ca : Option Nat) (i : Nat) (w : World) :
    (preCancel ca i it w).1.WF := by
  rw [preCancel_eq]; split
  · exact Iter.cancel_WF h w
  · exact h

theorem l4s_preCancel_pending {it : Iter} (hwf : it.WF) {e : Err} (h : it.pending = some e) (ca : Option Nat)
    (i : Nat) (w : World) : (preCancel ca i it w).1.pending = some e := by
  rw [preCancel_eq]; split
  · exact step_pending hwf h w .cancel
  · exact h

theorem l4s_close_pending_ne {it : Iter} {e : Err} (h : it.pending = some e) (w : World) :
    (callStep "close" it w).2.2 ≠ "" := by
  rw [l4s_callStep_close, Iter.close_of_pending h]
  exact l4s_render_ne_empty e

/-- putting the first pair in front -/
theorem l4s_i7_combine {k : Nat} {call out : String} {W : World} {rest : List (String × String)}
    (hhead : call = "close" → out ≠ "")
    (h : W.l4s_nexts ≤ k ∨ ∀ p ∈ rest, p.1 = "close" → p.2 ≠ "") :
    W.l4s_nexts ≤ k ∨ ∀ p ∈ (call, out) :: rest, p.1 = "close" → p.2 ≠ "" := by
  rcases h with h | h
  · exact .inl h
  · right
    intro p hp
    rcases List.mem_cons.1 hp with rfl | hp
    · exact hhead
    · exact h p hp

theorem l4s_fetchErr_reported (k : Nat) {f : String → String} (hf : l4s_fmap f) (ca : Option Nat)
    (cs : List String) : ∀ (l : List String) (i : Nat) (it : Iter) (w : World), it.WF → l4s_I7 k it w →
      (runCalls cs ca i it w (l.map f)).2.1.l4s_nexts ≤ k ∨
      ∀ p ∈ l.zip (runCalls cs ca i it w (l.map f)).2.2, p.1 = "close" → p.2 ≠ "" := by
  intro l
  induction l with
  | nil =>
    intro i it w _ hst
    rcases hst with _ | ⟨_, h⟩ | ⟨_, r, oks, e0, _, _, _, _, h⟩
    · right; intro p hp; simp at hp
    · left; exact h
    · left; show w.l4s_nexts ≤ k; omega
  | cons call rest ih =>
    intro i it w hwf hst
    -- the case of a pending error after the cancellation step
    have hpend : ∀ e, (preCancel ca i it w).1.pending = some e →
        (runCalls cs ca i it w ((call :: rest).map f)).2.1.l4s_nexts ≤ k ∨
        ∀ p ∈ (call :: rest).zip (runCalls cs ca i it w ((call :: rest).map f)).2.2, p.1 = "close" → p.2 ≠ "" := by
      intro e he
      rw [List.map_cons, runCalls_cons]
      simp only [List.zip_cons_cons]
      have hwf1 := l4s_preCancel_WF hwf ca i w
      apply l4s_i7_combine
      · intro hc
        have : f call = "close" := (hf.2 call).2 hc
        rw [this]; exact l4s_close_pending_ne he _
      · exact ih _ _ _ (l4s_callStep_WF hwf1 _ _) (Or.inl ⟨e, l4s_callStep_pending hwf1 he _ _⟩)
    rcases hst with ⟨e, he⟩ | ⟨he, hk⟩ | ⟨he, r, oks, e0, hr, hcl, hl, hfetch, hk⟩
    · exact hpend e (l4s_preCancel_pending hwf he ca i w)
    · left
      rw [l4s_runCalls_ended_nexts ca cs _ i it w he]; exact hk
    · by_cases hcan : (ca == some i) = true
      · -- cancelled while the result set is open: the context's error is pending
        apply hpend .ctx
        rw [preCancel_eq, if_pos hcan]
        exact Iter.cancel_open he hr hcl hl w
      · have hpc : preCancel ca i it w = (it, w) := by rw [preCancel_eq, if_neg hcan]
        rw [List.map_cons, runCalls_cons, hpc]
        simp only [List.zip_cons_cons]
        by_cases hn : call = "next"
        · subst hn
          rw [(hf.1 "next").2 rfl]
          apply l4s_i7_combine (by intro h; exact absurd h (by decide))
          cases oks with
          | nil =>
            obtain ⟨_, hp⟩ := Iter.next_fetch_error he hr hcl (by simpa using hfetch) w
            apply ih _ _ _ (l4s_callStep_WF hwf _ _)
            left; rw [l4s_callStep_next]; exact ⟨e0, hp⟩
          | cons row oks' =>
            have hnx := Rows.next_ok (row := row) hcl (by simpa using hfetch) w
            have hn' := Iter.next_of_rows he hr w
            rw [hnx] at hn'
            apply ih _ _ _ (l4s_callStep_WF hwf _ _)
            right; right
            rw [l4s_callStep_next, hn']
            refine ⟨he, _, oks', e0, rfl, hcl, hl, rfl, ?_⟩
            simp [World.l4s_nexts, World.emit, List.count_append] at hk ⊢
            omega
        · have hn' : f call ≠ "next" := fun h => hn ((hf.1 call).1 h)
          by_cases hc : call = "close"
          · subst hc
            rw [(hf.2 "close").2 rfl]
            left
            show (runCalls cs ca (i + 1) _ _ (rest.map f)).2.1.l4s_nexts ≤ k
            rw [l4s_runCalls_ended_nexts ca cs _ _ _ _
              (by rw [l4s_callStep_close]; exact l4s_ended_of_rows_none (by simp)),
              l4s_callStep_close, l4s_Iter_close_nexts]
            omega
          · have hc' : f call ≠ "close" := fun h => hc ((hf.2 call).1 h)
            apply l4s_i7_combine (fun h => absurd h hc)
            rw [l4s_callStep_get hn' hc']
            exact ih _ _ _ hwf (Or.inr (Or.inr ⟨he, r, oks, e0, hr, hcl, hl, hfetch, hk⟩))

end Sqlair.Rt
