/-
  Bind/Defs: projections of the generated query used by the bind-layer theorems
  (placeholder numbers, aliases, output columns), the specification functions of a bound
  insert column, and generic lemmas about `List.foldlM` in `Except`.
-/
import SqlairModel.Bind

namespace Sqlair

/-! ### projections of pieces -/

/-- placeholder number of a cell of an insert tuple -/
def Cell.phs : Cell → List Nat
  | .ph n => [n]
  | .lit _ => []

/-- placeholder numbers occurring in a piece, in textual order (exactly the numbers `n`
    for which `Piece.render` writes `@sqlair_n`) -/
def Piece.phs : Piece → List Nat
  | .inputs first num => (List.range num).map (first + ·)
  | .insert _ rows => rows.flatMap (fun r => r.flatMap Cell.phs)
  | _ => []

def phsOf (ps : List Piece) : List Nat := ps.flatMap Piece.phs

/-- number of output columns of a piece -/
def Piece.numOut : Piece → Nat
  | .outputs _ cols => cols.length
  | _ => 0

/-- output column texts of a piece -/
def Piece.outCols : Piece → List Bytes
  | .outputs _ cols => cols
  | _ => []

/-- alias numbers occurring in a piece, in textual order (exactly the numbers `k` for
    which `Piece.render` writes `AS _sqlair_k`) -/
def Piece.aliases : Piece → List Nat
  | .outputs first cols => (List.range cols.length).map (first + ·)
  | _ => []

def aliasesOf (ps : List Piece) : List Nat := ps.flatMap Piece.aliases

/-- output columns (text, locator) of a typed expression -/
def TExpr.outCols : TExpr → List (Bytes × Loc)
  | .output cols => cols
  | _ => []

/-! ### specification of a bound insert column -/

/-- numbers reserved by a bound column -/
def BCol.width (bc : BCol) : Nat := if bc.om then 0 else bc.vals.length

/-- the cell of row `r` -/
def BCol.cellAt (bc : BCol) (r : Nat) : Cell :=
  match bc.vals with
  | [] => .lit bc.literal
  | [_] => .ph bc.first
  | _ => .ph (bc.first + r)

/-- the parameter emitted in row `r` -/
def BCol.paramAt (bc : BCol) (r : Nat) : Option (Nat × String) :=
  match bc.vals with
  | [] => none
  | [v] => if r == 0 then some (bc.first, v) else none
  | vs => vs[r]?.map fun v => (bc.first + r, v)

/-- the non-omitted columns -/
def keptCols (bcs : List BCol) : List BCol := bcs.filter (fun bc => !bc.om)

/-- numbering discipline of `bindCols`: every column that reserves numbers starts at the
    current count, which then advances by its width (column-major numbering) -/
def BChain : Nat → List BCol → Prop
  | _, [] => True
  | c, bc :: rest => (bc.width ≠ 0 → bc.first = c) ∧ BChain (c + bc.width) rest

def bcsEnd (c : Nat) (bcs : List BCol) : Nat := c + (bcs.map BCol.width).sum

/-! ### `foldlM` in `Except` -/

theorem foldlM_except_cons {α β ε : Type} (f : β → α → Except ε β) (a : α) (l : List α) (b : β) :
    (a :: l).foldlM f b = match f b a with | .error e => .error e | .ok b' => l.foldlM f b' := by
  rw [List.foldlM_cons]
  cases f b a <;> rfl

/-- an invariant preserved by every successful step holds of a successful fold -/
theorem foldlM_except_inv {α β ε : Type} (f : β → α → Except ε β) (P : β → Prop)
    (l : List α) (hstep : ∀ b a b', a ∈ l → P b → f b a = .ok b' → P b') :
    ∀ (b b' : β), P b → l.foldlM f b = .ok b' → P b' := by
  induction l with
  | nil => intro b b' hb h; simp [List.foldlM, pure, Except.pure] at h; subst h; exact hb
  | cons a l ih =>
    intro b b' hb h
    rw [foldlM_except_cons] at h
    cases hfa : f b a with
    | error e => rw [hfa] at h; cases h
    | ok b1 =>
      rw [hfa] at h
      exact ih (fun b a b' ha => hstep b a b' (List.mem_cons_of_mem _ ha)) b1 b'
        (hstep b a b1 (List.mem_cons_self) hb hfa) h

end Sqlair
