package main

import (
	"encoding/hex"
	"encoding/json"
	"errors"
	"flag"
	"fmt"
	"regexp"
	"strconv"
	"strings"
	"time"
	"unicode"
	"unicode/utf8"

	"github.com/canonical/sqlair"

	"verifharness/internal/lean"
	"verifharness/internal/qgen"
	"verifharness/internal/rng"
)

// ---- implementation side -------------------------------------------------------------

var parseErrRe = regexp.MustCompile(`(?s)^cannot parse expression: (?:line (-?\d+), )?column (-?\d+): (.*)$`)

// implParse runs the real parser (through the verif hook) and returns the observation in
// the protocol's shape.  A panic is reported as {"panic": text}.
func implParse(q string) (obs map[string]any) {
	defer func() {
		if r := recover(); r != nil {
			obs = map[string]any{"panic": fmt.Sprint(r)}
		}
	}()
	var segs []hookSeg
	var err error
	if hooksAvailable {
		segs, err = hookParse(q)
	} else {
		// public API only: a parse error is recognisable by its prefix; anything else
		// (success or a bind error) means the text was parsed
		_, err = sqlair.Prepare(q)
		if err != nil && !strings.HasPrefix(err.Error(), "cannot parse expression: ") {
			err = nil
		}
		if err == nil {
			return map[string]any{"ok": true, "nosegs": true, "segs": []any{}}
		}
	}
	if err != nil && hooksAvailable {
		// what the caller of Prepare is told is what counts: the same text, the same position
		// (whatever Prepare did before this call)
		if _, perr := sqlair.Prepare(q); perr != nil {
			if pm := strings.TrimPrefix(perr.Error(), "cannot prepare statement: "); pm != err.Error() && strings.HasPrefix(pm, "cannot parse expression: ") {
				err = errors.New(pm)
			}
		}
	}
	if err != nil {
		o := map[string]any{"ok": false}
		msg := err.Error()
		if m := parseErrRe.FindStringSubmatch(msg); m != nil {
			if m[1] != "" {
				if l, e := strconv.Atoi(m[1]); e == nil {
					o["line"] = l
				}
			}
			if c, e := strconv.Atoi(m[2]); e == nil {
				o["col"] = c
			}
			o["msg"] = hx(m[3])
		} else {
			o["msg"] = hx(strings.TrimPrefix(msg, "cannot parse expression: "))
		}
		o["text"] = msg
		return o
	}
	js := make([]any, 0, len(segs))
	for _, s := range segs {
		cols := []any{}
		for _, c := range s.Columns {
			cols = append(cols, map[string]any{"t": hx(c[0].(string)), "c": hx(c[1].(string)), "f": c[2].(bool)})
		}
		types := []any{}
		for _, t := range s.Types {
			types = append(types, map[string]any{"t": hx(t[0]), "m": hx(t[1])})
		}
		vals := []any{}
		for _, v := range s.Values {
			if v.Literal {
				vals = append(vals, map[string]any{"lit": hx(v.Text)})
			} else {
				vals = append(vals, map[string]any{"t": hx(v.Type), "m": hx(v.Member)})
			}
		}
		js = append(js, map[string]any{"k": s.Kind, "raw": hx(s.Raw), "cols": cols, "types": types, "vals": vals})
	}
	return map[string]any{"ok": true, "segs": js}
}

// modelClient is the Lean driver of the running layer (used in degraded mode).
var modelClient *lean.Client

// parsedNodes returns the nodes of q for the layers above the parser: the
// implementation's (relative layering) or, without hooks, the parser model's.
func parsedNodes(q string) map[string]any {
	if hooksAvailable {
		return implParse(q)
	}
	o := implParse(q)
	if ok, _ := o["ok"].(bool); !ok || modelClient == nil {
		return o
	}
	resp, err := modelClient.Call(map[string]any{"k": "l1", "q": hx(q), "cls": clsOf(q)})
	if err != nil {
		return map[string]any{"ok": false}
	}
	m, _ := resp["model"].(map[string]any)
	if mok, _ := m["ok"].(bool); !mok {
		return map[string]any{"ok": false}
	}
	return m
}

// implParseTimed guards against hangs.
func implParseTimed(q string) (map[string]any, bool) {
	ch := make(chan map[string]any, 1)
	go func() { ch <- implParse(q) }()
	select {
	case o := <-ch:
		return o, true
	case <-time.After(10 * time.Second):
		return map[string]any{"hang": true}, false
	}
}

// clsOf ships Go's classification of every non-ASCII rune decodable at any byte offset.
func clsOf(q string) []any {
	seen := map[rune]bool{}
	out := []any{}
	for i := 0; i < len(q); i++ {
		r, _ := utf8.DecodeRuneInString(q[i:])
		if r < 0x80 || seen[r] {
			continue
		}
		seen[r] = true
		k := 0
		if unicode.IsLetter(r) {
			k = 1
		} else if unicode.IsDigit(r) {
			k = 2
		}
		if k != 0 {
			out = append(out, []any{int(r), k})
		}
	}
	return out
}

var shiftKs = []int{1, 2, 7}

type l1Result struct {
	q       string
	obs     map[string]any
	resp    map[string]any
	crashed bool
	// opaque: the query with literal and comment interiors blanked parses into the same
	// node structure (true when there is nothing to blank)
	opaque  bool
	blanked string
}

// l1Eval runs one query through implementation and model.
func l1Eval(cl *lean.Client, q string) (*l1Result, error) {
	obs, ok := implParseTimed(q)
	res := &l1Result{q: q, obs: obs}
	if !ok || obs["panic"] != nil {
		res.crashed = true
		// still ask the model (fuel, its own result)
		resp, err := cl.Call(map[string]any{"k": "l1", "q": hx(q), "cls": clsOf(q)})
		res.resp = resp
		return res, err
	}
	shifts := []any{}
	for _, k := range shiftKs {
		so, ok := implParseTimed(strings.Repeat("\n", k) + q)
		if !ok || so["panic"] != nil {
			res.crashed = true
			continue
		}
		shifts = append(shifts, map[string]any{"k": k, "obs": so})
	}
	resp, err := cl.Call(map[string]any{"k": "l1", "q": hx(q), "cls": clsOf(q), "obs": obs, "shifts": shifts})
	res.resp = resp
	res.opaque = true
	if err == nil && hooksAvailable {
		if bh, ok := resp["blank"].(string); ok {
			if bq, e := hex.DecodeString(bh); e == nil && string(bq) != q {
				res.blanked = string(bq)
				bo, ok := implParseTimed(res.blanked)
				if !ok || bo["panic"] != nil {
					res.crashed = true
				} else if r2, e2 := cl.Call(map[string]any{"k": "l1op", "a": obs, "b": bo}); e2 == nil {
					res.opaque = getBool(r2, "same")
				} else {
					err = e2
				}
			}
		}
	}
	return res, err
}

func (r *l1Result) bad() bool {
	if r.crashed {
		return true
	}
	return !getBool(r.resp, "agree") || !getBool(r.resp, "c01") || !getBool(r.resp, "c02") || !r.opaque ||
		!getBool(r.resp, "c19") || getBool(r.resp, "fuel")
}

func (r *l1Result) holds() map[string]bool {
	return map[string]bool{"C01": getBool(r.resp, "c01"), "C02": getBool(r.resp, "c02") && r.opaque,
		"C19": getBool(r.resp, "c19"), "C18": !r.crashed && !getBool(r.resp, "fuel")}
}

// sameFailure: does the candidate fail in the same way as the original?
func sameFailure(a, b *l1Result) bool {
	if a.crashed != b.crashed {
		return false
	}
	if a.crashed {
		return true
	}
	ha, hb := a.holds(), b.holds()
	for k, v := range ha {
		if !v && hb[k] {
			return false
		}
	}
	if !getBool(a.resp, "agree") && getBool(b.resp, "agree") {
		// the original disagreed; keep the disagreement unless a holds failure remains
		for _, v := range ha {
			if !v {
				return true
			}
		}
		return false
	}
	return true
}

// shrinkL1 is delta debugging on the bytes of the query.
func shrinkL1(cl *lean.Client, orig *l1Result) *l1Result {
	best := orig
	budget := 400
	chunk := len(best.q) / 2
	for chunk >= 1 && budget > 0 {
		progress := false
		for i := 0; i+chunk <= len(best.q) && budget > 0; {
			cand := best.q[:i] + best.q[i+chunk:]
			budget--
			r, err := l1Eval(cl, cand)
			if err == nil && r.bad() && sameFailure(orig, r) {
				best = r
				progress = true
			} else {
				i += chunk
			}
		}
		if !progress {
			chunk /= 2
		}
	}
	return best
}

func l1Case(q string) map[string]any {
	return map[string]any{"q": hx(q), "text": printable(q)}
}

func l1Finding(r *l1Result, kind, detail string, shrunk bool) Finding {
	if !r.opaque {
		detail += fmt.Sprintf("; the same query with the contents of its literals and comments blanked (%s) is parsed into a different node structure", printable(r.blanked))
	}
	return Finding{Case: l1Case(r.q), Kind: kind, Detail: detail, Holds: r.holds(),
		Impl: r.obs, Model: r.resp["model"], Shrunk: shrunk}
}

func runL1(args []string) {
	fs := flag.NewFlagSet("l1", flag.ExitOnError)
	n := fs.Int("n", 3000, "number of generated cases")
	seed := fs.Uint64("seed", 1, "seed")
	tier := fs.String("tier", "quick", "tier")
	driver := fs.String("driver", "/verif/lean/.lake/build/bin/driver", "lean driver")
	out := fs.String("out", "", "report file")
	repo := fs.String("repo", "/repo", "repository")
	corpus := fs.String("corpus", "/verif/corpus/l1", "corpus dir")
	replay := fs.String("replay", "", "replay one case (hex query)")
	neigh := fs.Int("neigh", 2000, "neighbourhood search budget per unexplained mismatch")
	fs.Parse(args)

	cl, err := lean.Start(*driver)
	if err != nil {
		fatalf("cannot start driver: %v", err)
	}
	defer cl.Close()
	modelClient = cl
	rep := newReport("l1", *seed, *tier)
	if !hooksAvailable {
		rep.Notes = append(rep.Notes, "degraded mode: hooks not available, the parser is observed through Prepare (accept/reject, error text) only")
	}
	rep.Rule = "queries from grammar skeletons, token soup, mutations of those and of the query literals in /repo's tests, splices and raw bytes; " +
		"(comments where blanks may stand, sticky prefixes, leading expressions, invisible prefixes such as a byte order mark, NUL bytes and the runes at the UTF-8 length boundaries, format verbs in column text, inputs inside calls under a plain alias); each query also parsed with 1, 2 and 7 newlines in front and with the contents of its literals and comments blanked; " +
		"non-trivial = contains at least one SQLair expression node or is rejected by implementation or model; distinct by SHA-256 of the bytes"

	r := rng.New(*seed)
	g := qgen.New(r.Fork(), &qgen.DefaultSchema)
	seeds := repoTestQueries(*repo)
	rep.Distribution["repo_seed_queries"] = len(seeds)

	lenHist := map[string]int{}
	segKinds := map[string]int{}
	errKinds := map[string]int{}
	accepted, rejected := 0, 0
	unexplained := []*l1Result{}

	process := func(q string, fromCorpus bool) {
		res, err := l1Eval(cl, q)
		if err != nil {
			fatalf("driver: %v (query %s)", err, printable(q))
		}
		nontrivial := false
		if ok, _ := res.obs["ok"].(bool); ok {
			accepted++
			for _, s := range res.obs["segs"].([]any) {
				k := s.(map[string]any)["k"].(string)
				segKinds[k]++
				if k != "bypass" {
					nontrivial = true
				}
			}
		} else {
			rejected++
			nontrivial = true
			if m, ok := res.obs["msg"].(string); ok {
				msg := unhx(m)
				if len(msg) > 28 {
					msg = msg[:28]
				}
				errKinds[msg]++
			}
		}
		if m, ok := res.resp["model"].(map[string]any); ok {
			if mok, _ := m["ok"].(bool); !mok {
				nontrivial = true
			}
		}
		rep.countCase(q, nontrivial)
		b := len(q) / 16 * 16
		lenHist[fmt.Sprintf("%03d-%03d", b, b+15)]++
		if len(rep.Samples) < 6 && nontrivial && r.Chance(1, 40) {
			rep.Samples = append(rep.Samples, map[string]any{"query": printable(q), "impl": res.obs})
		}
		if !res.bad() {
			return
		}
		sh := shrinkL1(cl, res)
		if sh.crashed {
			rep.addCrash(l1Finding(sh, "crash", fmt.Sprintf("implementation panicked or hung: %v", sh.obs), true))
			return
		}
		if getBool(sh.resp, "fuel") {
			rep.addCrash(l1Finding(sh, "crash", "model ran out of fuel", true))
		}
		anyHolds := false
		for p, ok := range sh.holds() {
			if !ok && p != "C18" {
				anyHolds = true
				rep.addHolds(p, l1Finding(sh, "holds", "property predicate false on the implementation's observation", true))
			}
		}
		if !getBool(sh.resp, "agree") {
			f := l1Finding(sh, "mismatch", "model and implementation disagree", true)
			if a, ok := sh.resp["affects"].([]any); ok {
				for _, x := range a {
					f.Affects = append(f.Affects, fmt.Sprint(x))
				}
			}
			rep.addMismatch(f)
			if !anyHolds {
				unexplained = append(unexplained, sh)
			}
		}
	}

	if *replay != "" {
		process(unhx(*replay), true)
	} else {
		for _, c := range loadCorpus(*corpus) {
			var m map[string]any
			if json.Unmarshal(c, &m) == nil {
				if q, ok := m["q"].(string); ok {
					process(unhx(q), true)
				}
			}
		}
		for _, s := range seeds {
			process(s, true)
		}
		for i := 0; i < *n; i++ {
			process(g.Query(seeds), false)
		}
	}

	// Neighbourhood search: for disagreements no predicate explains, look around the
	// shrunk case for an input on which a property predicate fails.
	searched := 0
	for i, u := range unexplained {
		if i >= 3 {
			break
		}
		mg := qgen.New(r.Fork(), &qgen.DefaultSchema)
		for k := 0; k < *neigh; k++ {
			var cand string
			switch mg.R.Intn(4) {
			case 0:
				cand = mg.Mutate(u.q)
			case 1:
				cand = mg.Soup() + u.q
			case 2:
				cand = u.q + mg.Soup()
			default:
				cand = mg.Mutate(mg.Mutate(u.q))
			}
			searched++
			res, err := l1Eval(cl, cand)
			if err != nil || res.crashed {
				continue
			}
			found := false
			for p, ok := range res.holds() {
				if !ok && p != "C18" {
					found = true
					sh := shrinkL1(cl, res)
					rep.addHolds(p, l1Finding(sh, "holds", "found by neighbourhood search around a model/implementation disagreement", true))
				}
			}
			if found {
				break
			}
		}
	}
	rep.Distribution["neighbourhood_cases"] = searched
	rep.Distribution["length_histogram"] = lenHist
	rep.Distribution["segment_kinds"] = segKinds
	rep.Distribution["error_kinds"] = errKinds
	rep.Distribution["accepted"] = accepted
	rep.Distribution["rejected"] = rejected
	rep.Distribution["generator_forms"] = g.Forms
	if *out != "" {
		if err := rep.write(*out); err != nil {
			fatalf("write report: %v", err)
		}
	} else {
		b, _ := json.MarshalIndent(rep, "", " ")
		fmt.Println(string(b))
	}
}
