// Package rng is the single source of randomness of the harness: SplitMix64.
package rng

type R struct{ s uint64 }

// New scrambles the seed so that consecutive seeds give unrelated streams.
func New(seed uint64) *R {
	z := seed + 0x632BE59BD9B4E019
	z = (z ^ (z >> 30)) * 0xBF58476D1CE4E5B9
	z = (z ^ (z >> 27)) * 0x94D049BB133111EB
	z ^= z >> 31
	return &R{s: z*0xD6E8FEB86659FD93 + 0x1234567}
}

func (r *R) U64() uint64 {
	r.s += 0x9E3779B97F4A7C15
	z := r.s
	z = (z ^ (z >> 30)) * 0xBF58476D1CE4E5B9
	z = (z ^ (z >> 27)) * 0x94D049BB133111EB
	return z ^ (z >> 31)
}

// Intn returns a number in [0,n).
func (r *R) Intn(n int) int {
	if n <= 0 {
		return 0
	}
	return int(r.U64() % uint64(n))
}

// Chance returns true with probability num/den.
func (r *R) Chance(num, den int) bool { return r.Intn(den) < num }

func (r *R) Pick(ss []string) string { return ss[r.Intn(len(ss))] }

// Fork derives an independent generator (so a case can be replayed alone).
func (r *R) Fork() *R { return New(r.U64()) }

// Pick9 draws a cache shape 0..8, biased to the pairs with equal parameter counts but
// different SQL: (1,2)/(2,1) = 5/7, (0,1)/(1,0) = 1/3, (0,2)/(1,1)/(2,0) = 2/4/6.
func (r *R) Pick9() int {
	return []int{5, 7, 5, 7, 1, 3, 2, 4, 6, 0, 8, 4}[r.Intn(12)]
}
