/-
  NoPanic/ValWF: the checker `valWF` is sound and complete for `ValWF`; inversion lemmas
  (a well-formed value of a struct / slice / map / pointer type is the corresponding node).
-/
import SqlairProofs.NoPanic.Defs

namespace Sqlair

/-! ### soundness of the checker -/

theorem valWF_sound {tt : TypeTable} : ∀ (fuel : Nat) (v : GoVal), valWF tt fuel v = true → ValWF tt v := by
  intro fuel
  induction fuel with
  | zero => intro v h; simp [valWF] at h
  | succ n ih =>
    intro v h
    cases v with
    | invalid => simp [valWF] at h
    | leaf hd =>
      simp only [valWF, Bool.or_eq_true, beq_iff_eq] at h
      exact .leaf hd h
    | struct hd fs =>
      simp only [valWF, Bool.and_eq_true, beq_iff_eq, List.all_eq_true] at h
      obtain ⟨⟨hk, hlen⟩, hall⟩ := h
      refine .struct hd fs hk hlen ?_ ?_
      · intro i f fd hf hfd
        have : (f, fd) ∈ fs.zip (tt.get hd.t).fields :=
          List.mem_iff_getElem?.2 ⟨i, List.getElem?_zip_eq_some.2 ⟨hf, hfd⟩⟩
        exact (hall _ this).1
      · intro f hf
        obtain ⟨i, hi⟩ := List.mem_iff_getElem?.1 hf
        have hlt : i < fs.length := (List.getElem?_eq_some_iff.1 hi).1
        have hfd : (tt.get hd.t).fields[i]? = some ((tt.get hd.t).fields[i]'(hlen ▸ hlt)) :=
          List.getElem?_eq_getElem _
        have : (f, _) ∈ fs.zip (tt.get hd.t).fields :=
          List.mem_iff_getElem?.2 ⟨i, List.getElem?_zip_eq_some.2 ⟨hi, hfd⟩⟩
        exact ih _ (hall _ this).2
    | ptr hd p =>
      cases p with
      | none =>
        simp only [valWF, beq_iff_eq] at h
        exact .ptrNil hd h
      | some q =>
        simp only [valWF, Bool.and_eq_true, beq_iff_eq] at h
        exact .ptr hd q h.1.1 h.1.2 (ih _ h.2)
    | map hd kv =>
      cases kv with
      | none =>
        simp only [valWF, beq_iff_eq] at h
        exact .mapNil hd h
      | some l =>
        simp only [valWF, Bool.and_eq_true, beq_iff_eq, List.all_eq_true] at h
        exact .map hd l h.1 (fun e he => (h.2 e he).1) (fun e he => ih _ (h.2 e he).2)
    | slice hd els =>
      simp only [valWF, Bool.and_eq_true, beq_iff_eq, List.all_eq_true] at h
      exact .slice hd els h.1 (fun e he => (h.2 e he).1) (fun e he => ih _ (h.2 e he).2)
    | iface hd p =>
      cases p with
      | none =>
        simp only [valWF, beq_iff_eq] at h
        exact .ifaceNil hd h
      | some q =>
        simp only [valWF, Bool.and_eq_true, beq_iff_eq] at h
        exact .iface hd q h.1 (ih _ h.2)

/-! ### completeness -/

theorem valWF_succ {tt : TypeTable} : ∀ (fuel : Nat) (v : GoVal), valWF tt fuel v = true → valWF tt (fuel + 1) v = true := by
  intro fuel
  induction fuel with
  | zero => intro v h; simp [valWF] at h
  | succ n ih =>
    intro v h
    cases v with
    | invalid => simp [valWF] at h
    | leaf hd => simpa [valWF] using h
    | struct hd fs =>
      simp only [valWF, Bool.and_eq_true, beq_iff_eq, List.all_eq_true] at h ⊢
      exact ⟨h.1, fun p hp => ⟨(h.2 p hp).1, ih _ (h.2 p hp).2⟩⟩
    | ptr hd p =>
      cases p with
      | none => simpa [valWF] using h
      | some q =>
        simp only [valWF, Bool.and_eq_true, beq_iff_eq] at h ⊢
        exact ⟨h.1, ih _ h.2⟩
    | map hd kv =>
      cases kv with
      | none => simpa [valWF] using h
      | some l =>
        simp only [valWF, Bool.and_eq_true, beq_iff_eq, List.all_eq_true] at h ⊢
        exact ⟨h.1, fun e he => ⟨(h.2 e he).1, ih _ (h.2 e he).2⟩⟩
    | slice hd els =>
      simp only [valWF, Bool.and_eq_true, beq_iff_eq, List.all_eq_true] at h ⊢
      exact ⟨h.1, fun e he => ⟨(h.2 e he).1, ih _ (h.2 e he).2⟩⟩
    | iface hd p =>
      cases p with
      | none => simpa [valWF] using h
      | some q =>
        simp only [valWF, Bool.and_eq_true, beq_iff_eq] at h ⊢
        exact ⟨h.1, ih _ h.2⟩

theorem valWF_mono {tt : TypeTable} {v : GoVal} {n m : Nat} (h : valWF tt n v = true) (hnm : n ≤ m) :
    valWF tt m v = true := by
  induction hnm with
  | refl => exact h
  | step _ ih => exact valWF_succ _ _ ih

/-- a common fuel for finitely many values -/
theorem exists_common_fuel {α : Type} {tt : TypeTable} (g : α → GoVal) : ∀ (l : List α),
    (∀ x ∈ l, ∃ n, valWF tt n (g x) = true) → ∃ n, ∀ x ∈ l, valWF tt n (g x) = true := by
  intro l
  induction l with
  | nil => intro _; exact ⟨0, fun x hx => by cases hx⟩
  | cons a rest ih =>
    intro h
    obtain ⟨n1, h1⟩ := h a (by simp)
    obtain ⟨n2, h2⟩ := ih (fun x hx => h x (List.mem_cons_of_mem _ hx))
    refine ⟨max n1 n2, ?_⟩
    intro x hx
    rcases List.mem_cons.1 hx with rfl | hx
    · exact valWF_mono h1 (Nat.le_max_left _ _)
    · exact valWF_mono (h2 x hx) (Nat.le_max_right _ _)

/-- the checker is complete: a well-formed value passes it with enough fuel -/
theorem ValWF.complete {tt : TypeTable} {v : GoVal} (h : ValWF tt v) : ∃ fuel, valWF tt fuel v = true := by
  induction h with
  | leaf hd hk => exact ⟨1, by simpa [valWF] using hk⟩
  | struct hd fs hk hlen hty _ ih =>
    obtain ⟨n, hn⟩ := exists_common_fuel (fun x => x) fs ih
    refine ⟨n + 1, ?_⟩
    simp only [valWF, Bool.and_eq_true, beq_iff_eq, List.all_eq_true]
    refine ⟨⟨hk, hlen⟩, ?_⟩
    intro p hp
    obtain ⟨i, hi⟩ := List.mem_iff_getElem?.1 hp
    obtain ⟨h1, h2⟩ := List.getElem?_zip_eq_some.1 hi
    exact ⟨hty i _ _ h1 h2, hn _ (List.mem_of_getElem? h1)⟩
  | ptrNil hd hk => exact ⟨1, by simpa [valWF] using hk⟩
  | ptr hd p hk hty _ ih =>
    obtain ⟨n, hn⟩ := ih
    exact ⟨n + 1, by simp only [valWF, Bool.and_eq_true, beq_iff_eq]; exact ⟨⟨hk, hty⟩, hn⟩⟩
  | mapNil hd hk => exact ⟨1, by simpa [valWF] using hk⟩
  | map hd kv hk hty _ ih =>
    obtain ⟨n, hn⟩ := exists_common_fuel (fun (x : Bytes × GoVal) => x.2) kv ih
    refine ⟨n + 1, ?_⟩
    simp only [valWF, Bool.and_eq_true, beq_iff_eq, List.all_eq_true]
    exact ⟨hk, fun e he => ⟨hty e he, hn e he⟩⟩
  | slice hd els hk hty _ ih =>
    obtain ⟨n, hn⟩ := exists_common_fuel (fun x => x) els ih
    refine ⟨n + 1, ?_⟩
    simp only [valWF, Bool.and_eq_true, beq_iff_eq, List.all_eq_true]
    exact ⟨hk, fun e he => ⟨hty e he, hn e he⟩⟩
  | ifaceNil hd hk => exact ⟨1, by simpa [valWF] using hk⟩
  | iface hd p hk _ ih =>
    obtain ⟨n, hn⟩ := ih
    exact ⟨n + 1, by simp only [valWF, Bool.and_eq_true, beq_iff_eq]; exact ⟨hk, hn⟩⟩

/-- specification of the checker: `ValWF` is exactly "the checker accepts with some fuel" -/
theorem valWF_iff {tt : TypeTable} {v : GoVal} : ValWF tt v ↔ ∃ fuel, valWF tt fuel v = true :=
  ⟨ValWF.complete, fun ⟨n, h⟩ => valWF_sound n v h⟩

/-! ### inversion -/

theorem ValWF.struct_inv {tt : TypeTable} {v : GoVal} (h : ValWF tt v) (hk : (tt.get v.tid).kind = .struct) :
    ∃ hd fs, v = .struct hd fs ∧ fs.length = (tt.get hd.t).fields.length ∧
      (∀ (i : Nat) (f : GoVal) (fd : FieldDesc), fs[i]? = some f → (tt.get hd.t).fields[i]? = some fd → f.tid = fd.ty) ∧
      (∀ f ∈ fs, ValWF tt f) := by
  cases h with
  | struct hd fs _ hlen hty hwf => exact ⟨hd, fs, rfl, hlen, hty, hwf⟩
  | leaf hd hk' => simp only [GoVal.tid, GoVal.h] at hk; rw [hk] at hk'; simp at hk'
  | _ => simp only [GoVal.tid, GoVal.h] at hk; simp_all

theorem ValWF.slice_inv {tt : TypeTable} {v : GoVal} (h : ValWF tt v) (hk : (tt.get v.tid).kind = .slice) :
    ∃ hd els, v = .slice hd els ∧ (∀ e ∈ els, e.tid = (tt.get hd.t).elem) ∧ (∀ e ∈ els, ValWF tt e) := by
  cases h with
  | slice hd els _ hty hwf => exact ⟨hd, els, rfl, hty, hwf⟩
  | leaf hd hk' => simp only [GoVal.tid, GoVal.h] at hk; rw [hk] at hk'; simp at hk'
  | _ => simp only [GoVal.tid, GoVal.h] at hk; simp_all

theorem ValWF.map_inv {tt : TypeTable} {v : GoVal} (h : ValWF tt v) (hk : (tt.get v.tid).kind = .map) :
    ∃ hd kv, v = .map hd kv := by
  cases h with
  | mapNil hd _ => exact ⟨hd, none, rfl⟩
  | map hd kv _ _ _ => exact ⟨hd, some kv, rfl⟩
  | leaf hd hk' => simp only [GoVal.tid, GoVal.h] at hk; rw [hk] at hk'; simp at hk'
  | _ => simp only [GoVal.tid, GoVal.h] at hk; simp_all

theorem ValWF.ptr_inv {tt : TypeTable} {v : GoVal} (h : ValWF tt v) (hk : (tt.get v.tid).kind = .ptr) :
    (∃ hd, v = .ptr hd none) ∨
    (∃ hd p, v = .ptr hd (some p) ∧ p.tid = (tt.get v.tid).elem ∧ ValWF tt p) := by
  cases h with
  | ptrNil hd _ => exact Or.inl ⟨hd, rfl⟩
  | ptr hd p _ hty hwf => exact Or.inr ⟨hd, p, rfl, hty, hwf⟩
  | leaf hd hk' => simp only [GoVal.tid, GoVal.h] at hk; rw [hk] at hk'; simp at hk'
  | _ => simp only [GoVal.tid, GoVal.h] at hk; simp_all

/-- a well-formed value that is a `.ptr` node has a pointer type -/
theorem ValWF.kind_of_ptr {tt : TypeTable} {hd : VH} {p : Option GoVal} (h : ValWF tt (.ptr hd p)) :
    (tt.get hd.t).kind = .ptr := by
  cases h with
  | ptrNil _ hk => exact hk
  | ptr _ _ hk _ _ => exact hk

/-- `indirect` preserves well-formedness -/
theorem ValWF.indirect {tt : TypeTable} {v : GoVal} (h : ValWF tt v) : ValWF tt (indirect v) := by
  cases h with
  | ptr hd p _ _ hwf => exact hwf
  | ptrNil hd hk => exact .ptrNil hd hk
  | leaf hd hk => exact .leaf hd hk
  | struct hd fs hk hlen hty hwf => exact .struct hd fs hk hlen hty hwf
  | mapNil hd hk => exact .mapNil hd hk
  | map hd kv hk hty hwf => exact .map hd kv hk hty hwf
  | slice hd els hk hty hwf => exact .slice hd els hk hty hwf
  | ifaceNil hd hk => exact .ifaceNil hd hk
  | iface hd p hk hwf => exact .iface hd p hk hwf

end Sqlair
