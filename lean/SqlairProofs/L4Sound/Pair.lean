/-
  L4Sound, pair cases: closed form of `predictPair`.
-/
import SqlairProofs.L4Sound.C12

namespace Sqlair.Rt

def l4s_pairBase (c : Case) : Script := { hasOutputs := c.hasOutputs, cached := false, fetch := c.fetch, result := 7 }
def l4s_pairA (c : Case) : Script :=
  { l4s_pairBase c with prepareErr := if c.aEnd == "release" then none else some .ctx }

/-- B's operation: error, world, row stored, rows appended -/
def l4s_pairB (c : Case) : Option Err × World × Nat × List Nat :=
  match c.pairOp with
  | "getall" =>
    let r := queryGetAllArgs (l4s_pairBase c) [.ok] true {}
    (r.1.err, r.2, 0, r.1.appended)
  | "get" =>
    let r := queryGet (l4s_pairBase c) { dests := 1 } {}
    (r.1.err, r.2, r.1.stored.getD 0, [])
  | _ =>
    let r := queryGet (l4s_pairBase c) {} {}
    (r.1.err, r.2, 0, [])

theorem l4s_predictPair_eq (c : Case) :
    predictPair c =
      { returns := [renderOpt (queryGet (l4s_pairA c) {} {}).1.err, renderOpt (l4s_pairB c).1],
        inUse := (queryGet (l4s_pairA c) {} {}).2.inUse + (l4s_pairB c).2.1.inUse,
        stored := (l4s_pairB c).2.2.1, appended := (l4s_pairB c).2.2.2,
        evA := ((queryGet (l4s_pairA c) {} {}).2.log.filter ctxBearing).map Ev.render,
        evB := ((l4s_pairB c).2.1.log.filter ctxBearing).map Ev.render } := by
  unfold predictPair l4s_pairB
  rfl

/-- B's world: the effect of running the base script from the empty world -/
theorem l4s_pairB_effect (c : Case) : l4s_Effect (l4s_pairBase c) True {} (l4s_pairB c).2.1 := by
  unfold l4s_pairB
  split
  · exact l4s_queryGetAllArgs_effect _ _ _ _ _
  · exact l4s_queryGet_effect _ _ _ _
  · exact l4s_queryGet_effect _ _ _ _

theorem l4s_effect_inUse {s : Script} {w1 w2 : World} (h : l4s_Effect s True w1 w2) : w2.inUse = w1.inUse := by
  rcases h with h | ⟨evs, h⟩
  · rw [h]
  · exact (h.bal trivial).1

theorem l4s_predictPair_inUse (c : Case) : (predictPair c).inUse = 0 := by
  rw [l4s_predictPair_eq]
  show (queryGet (l4s_pairA c) {} {}).2.inUse + (l4s_pairB c).2.1.inUse = 0
  rw [(queryGet_bal _ _ _).1, l4s_effect_inUse (l4s_pairB_effect c)]
  rfl

theorem l4s_predictPair_log (c : Case) : (predictPair c).log = [] := by
  rw [l4s_predictPair_eq]

theorem l4s_conc_pair {c : Case} (h : c.op = "pair") : c.l4s_conc = false := by
  simp [Case.l4s_conc, h]

theorem l4s_predObsW_pair_events (win : String) {c : Case} (h : c.op = "pair") :
    (predObsW win c (predictPair c)).events = [] := by
  show l4s_events win c _ = []
  simp [l4s_events, l4s_conc_pair h, l4s_predictPair_log]

theorem l4s_predObsW_pair_inUse (win : String) {c : Case} (h : c.op = "pair") :
    (predObsW win c (predictPair c)).inUse = 0 := by
  show (if c.l4s_conc && c.txEnd == "after" then _ else _) = 0
  simp [l4s_conc_pair h, l4s_predictPair_inUse]

theorem l4s_holdsC13_pair (win : String) {c : Case} (h : c.op = "pair") :
    holdsC13 c (predObsW win c (predictPair c)) = true := by
  have hev := l4s_predObsW_pair_events win h
  have hiu := l4s_predObsW_pair_inUse win h
  unfold holdsC13
  simp only [execEvents, hev, hiu]
  simp [h]
  exact ⟨rfl, rfl⟩

theorem l4s_pair_notTx {c : Case} (hwf : CaseWF c) (h : c.op = "pair") :
    c.onTx = false ∧ (c.hasOutputs = true ∨ (c.pairOp ≠ "get" ∧ c.pairOp ≠ "getall")) := by
  unfold CaseWF l4s_caseWF at hwf
  simp only [h, beq_self_eq_true, if_true, Bool.and_eq_true, Bool.not_eq_true', Bool.or_eq_true,
    bne_iff_ne, ne_eq] at hwf
  exact hwf

theorem l4s_holdsC12_pair (win : String) {c : Case} (hwf : CaseWF c) (h : c.op = "pair") :
    holdsC12 c (predObsW win c (predictPair c)) = true := by
  simp [holdsC12, (l4s_pair_notTx hwf h).1]

/-! ### the final C13, C12 -/

theorem l4s_predict_pair {c : Case} (h : c.op = "pair") : predict c = predictPair c := by
  rw [l4s_predict_eq]; simp [h]

theorem l4s_predict_single {c : Case} (h : c.op ≠ "pair") : predict c = l4s_predictSingle c := by
  rw [l4s_predict_eq]; simp [h]

theorem l4s_holdsC13_all {win : String} (hwin : isFinisher win = true) {c : Case} (hwf : CaseWF c) :
    holdsC13 c (predObsW win c (predict c)) = true := by
  by_cases h : c.op = "pair"
  · rw [l4s_predict_pair h]; exact l4s_holdsC13_pair win h
  · rw [l4s_predict_single h]; exact l4s_holdsC13_single hwin hwf h

theorem l4s_holdsC12_all {win : String} (hwin : isFinisher win = true) {c : Case} (hwf : CaseWF c) :
    holdsC12 c (predObsW win c (predict c)) = true := by
  by_cases h : c.op = "pair"
  · rw [l4s_predict_pair h]; exact l4s_holdsC12_pair win hwf h
  · rw [l4s_predict_single h]; exact l4s_holdsC12_single hwin hwf h

end Sqlair.Rt
