/-
  Props/Typed: DECLARATIVE specifications of acceptance (C07 Prepare, C08 Query) and their
  equivalence with the executable model `SqlairModel/Bind.lean`, for ALL type tables, nodes,
  samples, typed expressions and arguments.  Helper lemmas live in `SqlairProofs/Typed/*.lean`.

  The specifications (definitions, all `Prop`s built from ∀/∃/membership over nodes, samples,
  arguments, plus simple projections):
    `SampleInfo`, `SamplesOK`            Typed/Samples.lean
    `StructOK` (`Embeds`, `EmbPath`)     Typed/Struct.lean
    `NodeOK` (`MemberOK`, `StarOK`, `AccessorOK`, `SrcOK`, `providers`, `OutputFormOK`,
      `Fresh`, `nodeTypes`, `nodeDests`) Typed/NodeDefs.lean
    `WellTyped`                          Typed/WellTyped.lean
    `Located`                            Typed/Locate.lean
    `InsertColOK`, `TExprOK`, `UsesType`, `ArgsOK`   Typed/Args.lean

  C07  `generateArgInfo_ok_iff`, `getStructFields_ok_iff_structOK`, `bindSeg_ok_iff`
       (+ `bindSeg_argInfos_eq`, `bindSeg_argUsed`, `bindSeg_outputUsed`),
       `bindTypes_ok_iff_wellTyped`, `prepare_ok_reading`.
  C08  `locateParams_ok_iff_located`, `bindInputs_ok_iff_argsOK` (all typed expressions),
       `bindInputs_ok_iff_argsOK_prepared`, `rejected_args_reach_nothing`, `query_ok_reading`.
  No direction is false of the model: all equivalences are proved in full.
-/
import SqlairProofs.Typed.WellTyped
import SqlairProofs.Typed.Reading
import SqlairProofs.Typed.Struct
import SqlairProofs.Typed.Args
import SqlairProofs.Props.Bind

namespace Sqlair

/-! ## a concrete universe: struct `T` (tags `a`, `b`), map `M`, named slice `S` -/

namespace TypedExample

def C : Cls := { letter := fun c => (97 ≤ c && c ≤ 122) || (65 ≤ c && c ≤ 90), digit := fun c => 48 ≤ c && c ≤ 57 }

def tt : TypeTable := #[
  { kind := .struct, kindStr := "struct", name := #[84], fields := [
      { name := #[65], tag := #[97], exported := true, anon := false, ty := 3 },
      { name := #[66], tag := #[98], exported := true, anon := false, ty := 3 }] },   -- 0: T
  { kind := .map, kindStr := "map", name := #[77], key := 3, elem := 3 },              -- 1: M
  { kind := .slice, kindStr := "slice", name := #[83], elem := 3 },                    -- 2: S
  { kind := .string, kindStr := "string", name := #[] },                               -- 3: string
  { kind := .ptr, kindStr := "ptr", name := #[], elem := 0 },                          -- 4: *T
  { kind := .struct, kindStr := "struct", name := #[82], fields := [
      { name := #[82], tag := #[], exported := true, anon := true, ty := 6 }] },       -- 5: R embeds *R
  { kind := .ptr, kindStr := "ptr", name := #[], elem := 5 } ]                         -- 6: *R

def fa : SField := { name := #[65], tag := #[97], omitEmpty := false, index := [0] }
def fb : SField := { name := #[66], tag := #[98], omitEmpty := false, index := [1] }

def infoT : ArgInfo := .struct 0 #[84] [fa, fb] [#[97], #[98]]
def infoM : ArgInfo := .map 1 #[77]
def infoS : ArgInfo := .slice 2 #[83]

def infos : List (Bytes × ArgInfo) := [(#[84], infoT), (#[77], infoM)]

/-- `(*) VALUES ($T.*, $M.k)` -/
def insertStar : OSeg :=
  { kind := .astInsert, raw := #[], types := [{ ty := #[84], member := star }, { ty := #[77], member := #[107] }] }
/-- `&T.a` -/
def outTa : OSeg := { kind := .output, raw := #[], types := [{ ty := #[84], member := #[97] }] }
/-- `$T.a` -/
def inTa : OSeg := { kind := .member, raw := #[], types := [{ ty := #[84], member := #[97] }] }
/-- `$S[:]` -/
def inS : OSeg := { kind := .slice, raw := #[], types := [{ ty := #[83], member := #[] }] }
/-- `(a, x) VALUES ($T.*, $M.*)`: column `a` provided by `T`, column `x` by the asterisk map -/
def colIns : OSeg :=
  { kind := .colInsert, raw := #[],
    cols := [{ table := #[], column := #[97], func := false }, { table := #[], column := #[120], func := false }],
    types := [{ ty := #[84], member := star }, { ty := #[77], member := star }] }
/-- `(a) VALUES ($T.*, $T.a)`: the explicit `$T.a` comes last and ASSIGNS: one provider -/
def colInsAssign : OSeg :=
  { kind := .colInsert, raw := #[], cols := [{ table := #[], column := #[97], func := false }],
    types := [{ ty := #[84], member := star }, { ty := #[84], member := #[97] }] }
/-- `(a) VALUES ($T.a, $T.*)`: the asterisk comes last and APPENDS: two providers -/
def colInsAppend : OSeg :=
  { kind := .colInsert, raw := #[], cols := [{ table := #[], column := #[97], func := false }],
    types := [{ ty := #[84], member := #[97] }, { ty := #[84], member := star }] }

end TypedExample

open TypedExample

/-! ## C07.1 the samples -/

/-- C07.1: `generateArgInfo` yields `infos` iff the sample list is valid (`SamplesOK`: no nil
    sample; every sample a named struct/map/slice, so not a pointer; pairwise distinct names;
    each sample structurally valid as described by `SampleInfo`) and yields `infos` -/
theorem generateArgInfo_ok_iff {C : Cls} {tt : TypeTable} {samples : List (Option Nat)}
    {infos : List (Bytes × ArgInfo)} :
    generateArgInfo C tt samples [] = .ok infos ↔ SamplesOK C tt samples infos :=
  generateArgInfo_nil_ok_iff

example : generateArgInfo C tt [some 0, some 1] [] = .ok infos := by rfl
example : SamplesOK C tt [some 0, some 1] infos := generateArgInfo_ok_iff.1 (by rfl)
/-- a direct proof of the declarative side (not through the theorem) -/
example : SamplesOK C tt [some 0, some 1] infos := by
  refine ⟨[0, 1], rfl, by decide, by decide, rfl, ?_⟩
  intro x hx
  simp only [List.zip_cons_cons, List.zip_nil_right, infos, List.mem_cons, List.not_mem_nil, or_false] at hx
  rcases hx with rfl | rfl
  · exact ⟨rfl, Or.inr (Or.inr ⟨rfl, [fa, fb], by rfl, by decide, by rfl⟩)⟩
  · exact ⟨rfl, Or.inl ⟨rfl, rfl, rfl⟩⟩
/-- rejected: a nil sample, a pointer sample, the same name twice, an embedding cycle -/
example : ¬ ∃ infos, SamplesOK C tt [some 0, none] infos := by
  rintro ⟨i, h⟩; have := generateArgInfo_ok_iff.2 h; cases this
example : ¬ ∃ infos, SamplesOK C tt [some 4] infos := by
  rintro ⟨i, h⟩; have := generateArgInfo_ok_iff.2 h; cases this
example : ¬ ∃ infos, SamplesOK C tt [some 0, some 0] infos := by
  rintro ⟨i, h⟩; have := generateArgInfo_ok_iff.2 h; cases this
example : ¬ ∃ infos, SamplesOK C tt [some 5] infos := by
  rintro ⟨i, h⟩; have := generateArgInfo_ok_iff.2 h; cases this

/-- C07.1 (struct samples, bonus): the field analysis `getStructFields` succeeds iff the struct
    is structurally valid, declaratively (`StructOK`): on every embedding path from the type
    no struct occurs twice (no embedding cycle) and every struct on it has exported tagged
    fields whose tags parse -/
theorem getStructFields_ok_iff_structOK {C : Cls} {tt : TypeTable} {tid : Nat} :
    (∃ fs, getStructFields C tt (tt.size + 1) [] tid = .ok fs) ↔ StructOK C tt tid :=
  getStructFields_ok_iff_structOK_core

example : StructOK C tt 0 := getStructFields_ok_iff_structOK.1 ⟨_, rfl⟩
/-- `R` embeds `*R`: the path `R → R` repeats `R` (direct proof on the declarative side) -/
example : ¬ StructOK C tt 5 := by
  intro h
  have := (h [5] (.cons ⟨_, List.mem_singleton.2 rfl, ⟨rfl, rfl, rfl, rfl⟩, rfl⟩ (.nil 5))).1
  simp at this

/-! ## C07.2 one node -/

/-- C07.2: `bindSeg` accepts a node iff it is well-typed (`NodeOK`) with respect to the sample
    infos and the output destinations already used -/
theorem bindSeg_ok_iff (st : TEB) (s : OSeg) :
    (∃ st', bindSeg st s = .ok st') ↔ NodeOK st.argInfos st.outputUsed s :=
  (bindSeg_spec st s).1

/-- a successful `bindSeg` leaves the infos unchanged -/
theorem bindSeg_argInfos_eq {st st' : TEB} {s : OSeg} (h : bindSeg st s = .ok st') :
    st'.argInfos = st.argInfos :=
  ((bindSeg_spec st s).2 st' h).infos

/-- a successful `bindSeg` marks exactly the type names of the node used -/
theorem bindSeg_argUsed {st st' : TEB} {s : OSeg} (h : bindSeg st s = .ok st') :
    ∀ n, n ∈ st'.argUsed ↔ n ∈ st.argUsed ∨ n ∈ nodeTypes s :=
  ((bindSeg_spec st s).2 st' h).used

/-- a successful `bindSeg` marks exactly the identifiers of the destinations of the node used -/
theorem bindSeg_outputUsed {st st' : TEB} {s : OSeg} (h : bindSeg st s = .ok st') :
    ∀ d, d ∈ st'.outputUsed ↔ d ∈ st.outputUsed ∨ d ∈ nodeDests st.argInfos s :=
  ((bindSeg_spec st s).2 st' h).outs

example : NodeOK infos [] insertStar := (bindSeg_ok_iff { argInfos := infos } insertStar).1 ⟨_, rfl⟩
example : NodeOK infos [] colIns := (bindSeg_ok_iff { argInfos := infos } colIns).1 ⟨_, rfl⟩
example : NodeOK infos [] colInsAssign := (bindSeg_ok_iff { argInfos := infos } colInsAssign).1 ⟨_, rfl⟩
/-- order matters in the provider rule -/
example : ¬ NodeOK infos [] colInsAppend := by
  intro h
  obtain ⟨st', h'⟩ := (bindSeg_ok_iff { argInfos := infos } colInsAppend).2 h
  cases h'
example : (providers infos colInsAssign.types #[97]).length = 1 := by decide
example : (providers infos colInsAppend.types #[97]).length = 2 := by decide
/-- `&T.a` is accepted when fresh and rejected when `T.a` is already a destination -/
example : NodeOK infos [] outTa := (bindSeg_ok_iff { argInfos := infos } outTa).1 ⟨_, rfl⟩
example : nodeDests infos outTa = [#[84, 46, 97]] := by decide
example : ¬ NodeOK infos [#[84, 46, 97]] outTa := by
  intro h
  obtain ⟨st', h'⟩ := (bindSeg_ok_iff { argInfos := infos, outputUsed := [#[84, 46, 97]] } outTa).2 h
  cases h'
/-- slice syntax on a struct is rejected, on a named slice accepted (direct proof) -/
example : ¬ NodeOK infos [] { inS with types := [{ ty := #[84], member := #[] }] } := by
  intro h
  obtain ⟨st', h'⟩ := (bindSeg_ok_iff { argInfos := infos } _).2 h
  cases h'
example : NodeOK [(#[83], infoS)] [] inS := ⟨_, rfl, 2, #[83], rfl⟩
example {st' : TEB} (h : bindSeg { argInfos := infos } outTa = .ok st') :
    ∀ d, d ∈ st'.outputUsed ↔ d = #[84, 46, 97] := by
  intro d; rw [bindSeg_outputUsed h]; simp [show nodeDests infos outTa = [#[84, 46, 97]] by decide]

/-! ## C07.3 Prepare -/

/-- C07.3: Prepare succeeds iff the parsed query is well-typed against the samples
    (`WellTyped`: the samples are valid and yield the infos; every node is `NodeOK` with respect
    to the infos and the output destinations of the earlier nodes; every sample's name occurs
    in some node) -/
theorem bindTypes_ok_iff_wellTyped {C : Cls} {tt : TypeTable} {segs : List OSeg}
    {samples : List (Option Nat)} :
    (∃ tes, bindTypes C tt segs samples = .ok tes) ↔ WellTyped C tt segs samples :=
  bindTypes_ok_iff_wellTyped_core

/-- accepted: `(*) VALUES ($T.*, $M.k)` with samples `T`, `M` -/
example : WellTyped C tt [insertStar] [some 0, some 1] := bindTypes_ok_iff_wellTyped.1 ⟨_, rfl⟩
/-- the same, proved directly on the declarative side (not through the theorem) -/
example : WellTyped C tt [insertStar] [some 0, some 1] := by
  refine ⟨infos, generateArgInfo_ok_iff.1 (by rfl), ?_, ?_⟩
  · intro pre s post he
    cases pre with
    | cons p pre' => cases pre' <;> simp at he
    | nil =>
      simp only [List.nil_append, List.cons.injEq] at he
      obtain ⟨rfl, _⟩ := he
      intro a ha
      simp only [insertStar, List.mem_cons, List.not_mem_nil, or_false] at ha
      rcases ha with rfl | rfl
      · exact ⟨fun _ => ⟨0, #[84], [fa, fb], [#[97], #[98]], rfl, by simp⟩, fun h => absurd rfl h⟩
      · exact ⟨fun h => absurd h (by decide), fun _ => ⟨infoM, rfl, trivial⟩⟩
  · intro p hp
    refine ⟨insertStar, by simp, ?_⟩
    simp only [infos, List.mem_cons, List.not_mem_nil, or_false] at hp
    rcases hp with rfl | rfl <;> decide
/-- rejected: `&T.a` twice -/
example : ¬ WellTyped C tt [outTa, outTa] [some 0] := by
  intro h
  obtain ⟨tes, h'⟩ := bindTypes_ok_iff_wellTyped.2 h
  cases h'
/-- rejected: sample `M` unused -/
example : ¬ WellTyped C tt [inTa] [some 0, some 1] := by
  intro h
  obtain ⟨tes, h'⟩ := bindTypes_ok_iff_wellTyped.2 h
  cases h'
/-- rejected: type `M` named by the query has no sample -/
example : ¬ WellTyped C tt [insertStar] [some 0] := by
  intro h
  obtain ⟨tes, h'⟩ := bindTypes_ok_iff_wellTyped.2 h
  cases h'

/-- C07 (⇒, in the words of the property): if Prepare accepts, then no sample is nil and every
    sample type is a named struct, map or slice; the sample names are pairwise distinct; every
    type name occurring in a node is the name of exactly one sample; every sample's name occurs
    in some node -/
theorem prepare_ok_reading {C : Cls} {tt : TypeTable} {segs : List OSeg} {samples : List (Option Nat)}
    {tes : List TExpr} (h : bindTypes C tt segs samples = .ok tes) :
    ∃ tids : List Nat, samples = tids.map some ∧
      (∀ tid ∈ tids, ((tt.get tid).kind = .struct ∨ (tt.get tid).kind = .map ∨ (tt.get tid).kind = .slice) ∧
        (sampleName tt tid).size ≠ 0) ∧
      (tids.map (sampleName tt)).Nodup ∧
      (∀ s ∈ segs, ∀ T ∈ nodeTypes s, ∃ tid ∈ tids, sampleName tt tid = T ∧
        ∀ tid' ∈ tids, sampleName tt tid' = T → tid' = tid) ∧
      (∀ tid ∈ tids, ∃ s ∈ segs, sampleName tt tid ∈ nodeTypes s) :=
  prepare_ok_reading_core h

example := prepare_ok_reading (C := C) (tt := tt) (segs := [insertStar]) (samples := [some 0, some 1]) rfl

/-! ## C08 Query -/

/-- C08 (locators): `locateParams` finds the parameters `p` iff the locator is `Located` (the
    relational semantics: an argument of the located type, passed as `T`/`*T`, holding the key
    / a value at the field path; or else a non-empty bulk argument `[]T`/`[]*T` all of whose
    rows do, uniformly zero or non-zero for an omitempty field) -/
theorem locateParams_ok_iff_located {tt : TypeTable} {m : TypeToValue} {l : Loc} {p : Params} :
    locateParams tt m l = .ok p ↔ Located tt m l p :=
  locateParams_ok_iff

/-- the field `c` of the `U` argument of `PrepExample` (direct proofs on the declarative side) -/
example : Located PrepExample.tt (PrepExample.args.map argEntry) (.field 2 #[85] PrepExample.fc)
    { vals := ["c"], om := false, bulk := false, argType := 2 } :=
  .field (s := PrepExample.args[1]!) (v := .leaf { t := 3, zero := false, r := "c" }) rfl rfl
/-- … and the bulk reading of field `a` of `T` through the `[]T` argument -/
example : Located PrepExample.tt (PrepExample.args.map argEntry) (.field 0 #[84] PrepExample.fa)
    { vals := ["a0", "a1"], om := false, bulk := true, argType := 1 } :=
  .fieldBulk (h := { t := 1, zero := false, r := "" })
    (els := [PrepExample.row "a0" "b0", PrepExample.row "a1" "b1"]) rfl rfl (by simp) (by decide) (by decide)
example : ¬ ∃ p, Located PrepExample.tt (PrepExample.args.map argEntry) (.field 7 #[86] PrepExample.fc) p := by
  rintro ⟨p, h⟩; have := locateParams_ok_iff_located.2 h; cases this

/-- C08.4: Query accepts the arguments iff they are `ArgsOK` (`validateInputs` accepts them;
    every typed expression can locate its parameters; every argument is used), for ALL typed
    expressions -/
theorem bindInputs_ok_iff_argsOK {tt : TypeTable} {tes : List TExpr} {args : List GoVal} :
    (∃ pq, bindInputs tt tes args = .ok pq) ↔ ArgsOK tt tes args :=
  bindInputs_ok_iff_argsOK_core

/-- C08.4 for typed expressions produced by Prepare -/
theorem bindInputs_ok_iff_argsOK_prepared {C : Cls} {tt : TypeTable} {segs : List OSeg}
    {samples : List (Option Nat)} {tes : List TExpr} (_ : bindTypes C tt segs samples = .ok tes)
    (args : List GoVal) : (∃ pq, bindInputs tt tes args = .ok pq) ↔ ArgsOK tt tes args :=
  bindInputs_ok_iff_argsOK_core

/-- Prepare + Query of `Props/Bind.lean` (`PrepExample`): a bulk `[]T` with two rows and a `U` -/
example : ArgsOK PrepExample.tt PrepExample.tes PrepExample.args :=
  (bindInputs_ok_iff_argsOK_prepared PrepExample.bindTypes_example _).1 ⟨_, rfl⟩
/-- rejected: the `U` argument is missing -/
example : ¬ ArgsOK PrepExample.tt PrepExample.tes [PrepExample.args[0]!] := by
  intro h
  obtain ⟨pq, h'⟩ := bindInputs_ok_iff_argsOK.2 h
  cases h'
/-- rejected: an argument no expression uses -/
example : ¬ ArgsOK PrepExample.tt [PrepExample.tes[2]!] PrepExample.args := by
  intro h
  obtain ⟨pq, h'⟩ := bindInputs_ok_iff_argsOK.2 h
  cases h'

/-- C08.5: rejected arguments reach nothing: if `bindInputs` reports an error there is no
    `Primed` (no SQL, no parameters), and the arguments are not `ArgsOK` -/
theorem rejected_args_reach_nothing {tt : TypeTable} {tes : List TExpr} {args : List GoVal} {e : String}
    (h : bindInputs tt tes args = .error e) :
    (¬ ∃ pq, bindInputs tt tes args = .ok pq) ∧ ¬ ArgsOK tt tes args := by
  have : ¬ ∃ pq, bindInputs tt tes args = .ok pq := by
    rintro ⟨pq, hpq⟩; rw [h] at hpq; cases hpq
  exact ⟨this, fun ha => this (bindInputs_ok_iff_argsOK.2 ha)⟩

/-- rejected: bulk arguments of different lengths -/
example : ¬ ArgsOK RejectExample.tt [.insert [RejectExample.colA, RejectExample.colC]]
    [RejectExample.sliceT [RejectExample.rowT "x" false, RejectExample.rowT "y" false],
     RejectExample.sliceU [RejectExample.rowU, RejectExample.rowU, RejectExample.rowU]] :=
  (rejected_args_reach_nothing (e := "mismatched-bulk-lengths") rfl).2
/-- rejected: a bulk argument for a standalone input -/
example : ¬ ArgsOK RejectExample.tt [.input (.field 0 #[84] RejectExample.fa)]
    [RejectExample.sliceT [RejectExample.rowT "x" false]] :=
  (rejected_args_reach_nothing (e := "bulk-outside-insert") rfl).2
/-- rejected: the same type twice -/
example : ¬ ArgsOK RejectExample.tt [.input (.field 0 #[84] RejectExample.fa)]
    [RejectExample.rowT "x" false, RejectExample.rowT "y" false] :=
  (rejected_args_reach_nothing (e := "type-provided-twice") rfl).2

/-- C08 (⇒, in the words of the property): if Query accepts the arguments, then every argument
    passes the per-argument checks; no two arguments have the same type (`T` and `*T` count as
    the same); every standalone input finds an argument of exactly its type; every locator of
    an insert expression finds an argument of its type, or a bulk argument `[]T`/`[]*T` when no
    argument has the type itself; every argument is read by some locator -/
theorem query_ok_reading {tt : TypeTable} {tes : List TExpr} {args : List GoVal} {pq : Primed}
    (h : bindInputs tt tes args = .ok pq) :
    (∀ a ∈ args, argOK tt a = true) ∧
    (args.map argKey).Nodup ∧
    (∀ l, TExpr.input l ∈ tes → ∃ a ∈ args, argKey a = l.tid) ∧
    (∀ cols, TExpr.insert cols ∈ tes → ∀ l ∈ cols.filterMap TCol.loc?,
      (∃ a ∈ args, argKey a = l.tid) ∨
      ((∀ b ∈ args, argKey b ≠ l.tid) ∧
        ∃ a ∈ args, isSliceOf tt (argKey a) l.tid = true ∨ isSliceOfPtr tt (argKey a) l.tid = true)) ∧
    (∀ a ∈ args, ∃ te ∈ tes, ∃ l ∈ te.inputLocs,
      argKey a = l.tid ∨ isSliceOf tt (argKey a) l.tid = true ∨ isSliceOfPtr tt (argKey a) l.tid = true) :=
  query_ok_reading_core h

example := query_ok_reading BindExample.bindInputs_example

end Sqlair
