/-
  Exactness of expression spans, item level: parentheses, literals in lists, identifiers,
  column and type accessors, lists.  Each lemma says: if the item parser succeeds on `E` and
  ends inside the range, it succeeds on the extracted text with the same payload and ends at
  the corresponding state.  For the parsers whose "not this" answer depends on a bounded
  look-ahead only, the same holds for that answer.
-/
import SqlairProofs.Exact.Scan
import SqlairProofs.Exact.Single

namespace Sqlair

section
variable {E : Env} {a b : Nat} {s s' : Sc}

theorem exa_ssl_no_state {X : Env} {s t : Sc} (h : skipStringLiteral X s = (t, .no)) : t = s := by
  unfold skipStringLiteral at h
  extract_lets c a0 r at h
  split at h
  · split at h <;> cases h
  · cases h; rfl

/-- positions of synchronised pairs compare alike -/
theorem ExaSync.lt_of_lt {t t' : Sc} (hs : ExaSync E a b s s') (ht : ExaSync E a b t t')
    (h : s.pos < t.pos) : s'.pos < t'.pos := by
  have := hs.pos; have := ht.pos; omega

theorem ExaSync.le_of_le {t t' : Sc} (hs : ExaSync E a b s s') (ht : ExaSync E a b t t')
    (h : s.pos ≤ t.pos) : s'.pos ≤ t'.pos := by
  have := hs.pos; have := ht.pos; omega

/-! ### skipEnclosedParentheses -/

theorem exa_parenLoop (C : ExaCtx E a b) (f : Nat) :
    ∀ {s s' : Sc} (cp cp' : Sc) (f' count : Nat) (t : Sc), Good E cp → cp.pos ≤ s.pos →
      ExaSync E a b s s' → E.len - s.pos < f → (exaEnv E a b).len - s'.pos < f' →
      parenLoop E cp f count s = (t, .ok ()) → t.pos ≤ b →
      ∃ t', parenLoop (exaEnv E a b) cp' f' count s' = (t', .ok ()) ∧ ExaSync E a b t t' := by
  induction f with
  | zero => intro s s' _ _ f' _ _ _ _ _ hf; omega
  | succ f ih =>
    intro s s' cp cp' f' count t gcp hcp hs hf hf' he hb
    cases f' with
    | zero => omega
    | succ f' =>
      have hpl := hs.good.pos_le
      -- one step of the loop, then the induction hypothesis
      have step : ∀ {s1 s1' : Sc} (count' : Nat), ExaSync E a b s1 s1' → s.pos < s1.pos →
          parenLoop E cp f count' s1 = (t, .ok ()) →
          ∃ t', parenLoop (exaEnv E a b) cp' f' count' s1' = (t', .ok ()) ∧ ExaSync E a b t t' := by
        intro s1 s1' count' hs1 hlt1 he1
        have := hs1.good.pos_le
        have := hs1.good'.pos_le
        have := hs.lt_of_lt hs1 hlt1
        exact ih cp cp' f' count' t gcp (by omega) hs1 (by omega) (by omega) he1 hb
      -- the result lies behind every later state
      have later : ∀ {s1 : Sc} (count' : Nat), Good E s1 → s.pos < s1.pos →
          parenLoop E cp f count' s1 = (t, .ok ()) → s1.pos ≤ t.pos := by
        intro s1 count' g1 hlt1 he1
        have := g1.pos_le
        have hl := parenLoop_lok C.dok gcp f count' g1 (by omega) (by omega)
        rw [he1] at hl
        exact hl.okmono () rfl
      unfold parenLoop at he ⊢
      by_cases hc : count > 0 ∧ s.pos ≠ E.len
      · rw [if_pos hc] at he
        have hlen : s.pos < E.len := by omega
        rcases hsl : skipStringLiteral E s with ⟨t1, res1⟩
        rw [hsl] at he
        have hsok := skipStringLiteral_sok C.dok hs.good
        cases res1 with
        | err e => cases he
        | ok u =>
          simp only [] at he
          obtain ⟨g1, hlt1⟩ := hsok.elim_ok hsl
          have hle1 := later count g1 hlt1 he
          have hlt : s.pos < b := by omega
          obtain ⟨_, hlen', _⟩ := hs.lt C hlt
          obtain ⟨t1', hsl', hs1⟩ := exa_skipStringLiteral C hs hsl (by intro e h; cases h) (by omega)
          rw [if_pos ⟨hc.1, by omega⟩, hsl']
          exact step count hs1 hlt1 he
        | no =>
          simp only [] at he
          have ht1 : t1 = s := exa_ssl_no_state hsl
          rw [ht1] at hsl
          have hcm := skipComment_bok C.dok hs.good
          have h40 := skipChar_bok C.dok 40 hs.good
          have h41 := skipChar_bok C.dok 41 hs.good
          have hadv := advanceChar_lt C.dok hs.good hlen
          -- in every branch the run on `E` moves on, so `s` is strictly inside the range
          have hlt : s.pos < b := by
            by_cases h1 : (skipComment E s).2 = true
            · rw [if_pos h1] at he
              have := later count hcm.good (hcm.prog h1) he; have := hcm.prog h1; omega
            rw [if_neg h1] at he
            by_cases h2 : (skipChar E 40 s).2 = true
            · rw [if_pos h2] at he
              have := later _ h40.good (h40.prog h2) he; have := h40.prog h2; omega
            rw [if_neg h2] at he
            by_cases h3 : (skipChar E 41 s).2 = true
            · rw [if_pos h3] at he
              have := later _ h41.good (h41.prog h3) he; have := h41.prog h3; omega
            rw [if_neg h3] at he
            have := later _ (advanceChar_good C.dok hs.good) hadv he; omega
          obtain ⟨_, hlen', _⟩ := hs.lt C hlt
          obtain ⟨t1', hsl', _⟩ := exa_skipStringLiteral C hs hsl (by intro e h; cases h) hs.le
          rw [if_pos ⟨hc.1, by omega⟩, hsl']
          simp only []
          by_cases h1 : (skipComment E s).2 = true
          · rw [if_pos h1] at he
            have hle1 := later count hcm.good (hcm.prog h1) he
            have hB := exa_skipComment C hs (by omega)
            rw [if_pos (by rw [hB.1, h1])]
            exact step count hB.2 (hcm.prog h1) he
          rw [if_neg h1] at he
          rw [exa_skipComment_false C hs (by simpa using h1)]
          simp only [Bool.false_eq_true, if_false]
          by_cases h2 : (skipChar E 40 s).2 = true
          · rw [if_pos h2] at he
            have hle1 := later _ h40.good (h40.prog h2) he
            obtain ⟨h2', hs2⟩ := exa_skipChar_true C 40 hs h2 (by omega)
            rw [if_pos h2']
            exact step _ hs2 (h40.prog h2) he
          rw [if_neg h2] at he
          rw [exa_skipChar_false C 40 hs (by simpa using h2)]
          simp only [Bool.false_eq_true, if_false]
          by_cases h3 : (skipChar E 41 s).2 = true
          · rw [if_pos h3] at he
            have hle1 := later _ h41.good (h41.prog h3) he
            obtain ⟨h3', hs3⟩ := exa_skipChar_true C 41 hs h3 (by omega)
            rw [if_pos h3']
            exact step _ hs3 (h41.prog h3) he
          rw [if_neg h3] at he
          rw [exa_skipChar_false C 41 hs (by simpa using h3)]
          simp only [Bool.false_eq_true, if_false]
          exact step _ (exa_advanceChar C hs hlt) hadv he
      · rw [if_neg hc] at he
        by_cases hc0 : count > 0
        · rw [if_pos hc0] at he; cases he
        · rw [if_neg hc0] at he
          cases he
          rw [if_neg (fun hx => hc0 hx.1), if_neg hc0]
          exact ⟨_, rfl, hs⟩

/-- the paren loop never answers "not this" -/
theorem exa_parenLoop_ne_no {X : Env} : ∀ (f count : Nat) (cp u v : Sc),
    parenLoop X cp f count u ≠ (v, .no) := by
  intro f
  induction f with
  | zero => intro count cp u v h; unfold parenLoop at h; cases h
  | succ f ih =>
    intro count cp u v h
    unfold parenLoop at h
    split at h
    · split at h
      · cases h
      · exact ih _ _ _ _ h
      · simp only [] at h
        split at h
        · exact ih _ _ _ _ h
        split at h
        · exact ih _ _ _ _ h
        split at h
        · exact ih _ _ _ _ h
        · exact ih _ _ _ _ h
    · split at h <;> cases h

theorem exa_sep_no_state {X : Env} {s t : Sc} (h : skipEnclosedParentheses X s = (t, .no)) : t = s := by
  unfold skipEnclosedParentheses at h
  simp only [] at h
  split at h
  · exact (exa_parenLoop_ne_no _ _ _ _ _ h).elim
  · cases h; rfl

theorem exa_skipEnclosedParentheses (C : ExaCtx E a b) (hs : ExaSync E a b s s') {t : Sc}
    {res : Res Unit} (he : skipEnclosedParentheses E s = (t, res)) (hne : ∀ e, res ≠ .err e)
    (hb : t.pos ≤ b) :
    ∃ t', skipEnclosedParentheses (exaEnv E a b) s' = (t', res) ∧ ExaSync E a b t t' := by
  unfold skipEnclosedParentheses at he ⊢
  simp only [] at he ⊢
  have h40 := skipChar_bok C.dok 40 hs.good
  by_cases h1 : (skipChar E 40 s).2 = true
  · rw [if_pos h1] at he
    have hprog := h40.prog h1
    have hpl := h40.good.pos_le
    have hl := parenLoop_lok C.dok hs.good (E.len + 1) 1 h40.good h40.mono (by omega)
    rw [he] at hl
    cases res with
    | err e => exact (hne e rfl).elim
    | no => exact (exa_parenLoop_ne_no _ _ _ _ _ he).elim
    | ok u =>
      have hle1 : (skipChar E 40 s).1.pos ≤ t.pos := hl.okmono u rfl
      obtain ⟨h1', hs1⟩ := exa_skipChar_true C 40 hs h1 (by omega)
      rw [if_pos h1']
      have := hs.lt_of_lt hs1 hprog
      have := hs1.good'.pos_le
      exact exa_parenLoop C (E.len + 1) s s' ((exaEnv E a b).len + 1) 1 t hs.good h40.mono hs1
        (by omega) (by omega) he hb
  · rw [if_neg h1] at he
    cases he
    rw [exa_skipChar_false C 40 hs (by simpa using h1)]
    exact ⟨s', rfl, hs⟩
/-! ### skipLiteralInList -/

/-- a literal in a list ends *at* its delimiter, which therefore has to be inside the range -/
theorem exa_litLoop (C : ExaCtx E a b) (f : Nat) :
    ∀ {s s' : Sc} (f' : Nat) (t : Sc), ExaSync E a b s s' → E.len - s.pos < f →
      (exaEnv E a b).len - s'.pos < f' → litLoop E f s = (t, .ok ()) → t.pos < b →
      ∃ t', litLoop (exaEnv E a b) f' s' = (t', .ok ()) ∧ ExaSync E a b t t' := by
  induction f with
  | zero => intro s s' f' _ _ hf; omega
  | succ f ih =>
    intro s s' f' t hs hf hf' he hb
    cases f' with
    | zero => omega
    | succ f' =>
      have hpl := hs.good.pos_le
      have hmono : s.pos ≤ t.pos := by
        have hr := litLoop_rok C.dok (f+1) hs.good hf
        rw [he] at hr; exact hr.mono
      have hlt : s.pos < b := by omega
      obtain ⟨hlen, hlen', hch, _⟩ := hs.lt C hlt
      have step : ∀ {s1 s1' : Sc}, ExaSync E a b s1 s1' → s.pos < s1.pos →
          litLoop E f s1 = (t, .ok ()) →
          ∃ t', litLoop (exaEnv E a b) f' s1' = (t', .ok ()) ∧ ExaSync E a b t t' := by
        intro s1 s1' hs1 hlt1 he1
        have := hs1.good.pos_le
        have := hs1.good'.pos_le
        have := hs.lt_of_lt hs1 hlt1
        exact ih f' t hs1 (by omega) (by omega) he1 hb
      have later : ∀ {s1 : Sc}, Good E s1 → s.pos < s1.pos →
          litLoop E f s1 = (t, .ok ()) → s1.pos ≤ t.pos := by
        intro s1 g1 hlt1 he1
        have := g1.pos_le
        have hr := litLoop_rok C.dok f g1 (by omega)
        rw [he1] at hr; exact hr.mono
      unfold litLoop at he ⊢
      rw [if_pos hlen] at he
      rw [if_pos hlen']
      rcases hsl : skipStringLiteral E s with ⟨t1, res1⟩
      rw [hsl] at he
      have hsok := skipStringLiteral_sok C.dok hs.good
      cases res1 with
      | err e => cases he
      | ok u =>
        simp only [] at he
        obtain ⟨g1, hlt1⟩ := hsok.elim_ok hsl
        have hle1 := later g1 hlt1 he
        obtain ⟨t1', hsl', hs1⟩ := exa_skipStringLiteral C hs hsl (by intro e h; cases h) (by omega)
        rw [hsl']
        exact step hs1 hlt1 he
      | no =>
        simp only [] at he
        have ht1 : t1 = s := exa_ssl_no_state hsl
        rw [ht1] at hsl
        obtain ⟨_, hsl', _⟩ := exa_skipStringLiteral C hs hsl (by intro e h; cases h) hs.le
        rw [hsl']
        simp only []
        rcases hpar : skipEnclosedParentheses E s with ⟨t2, res2⟩
        rw [hpar] at he
        have hpok := skipEnclosedParentheses_sok C.dok hs.good
        cases res2 with
        | err e => cases he
        | ok u =>
          simp only [] at he
          obtain ⟨g2, hlt2⟩ := hpok.elim_ok hpar
          have hle2 := later g2 hlt2 he
          obtain ⟨t2', hpar', hs2⟩ := exa_skipEnclosedParentheses C hs hpar (by intro e h; cases h)
            (by omega)
          rw [hpar']
          exact step hs2 hlt2 he
        | no =>
          simp only [] at he
          have ht2 : t2 = s := exa_sep_no_state hpar
          rw [ht2] at hpar
          obtain ⟨_, hpar', _⟩ := exa_skipEnclosedParentheses C hs hpar (by intro e h; cases h) hs.le
          rw [hpar']
          simp only []
          have hcm := skipComment_bok C.dok hs.good
          by_cases h1 : (skipComment E s).2 = true
          · rw [if_pos h1] at he
            have hle1 := later hcm.good (hcm.prog h1) he
            have hB := exa_skipComment C hs (by omega)
            rw [if_pos (by rw [hB.1, h1])]
            exact step hB.2 (hcm.prog h1) he
          rw [if_neg h1] at he
          rw [exa_skipComment_false C hs (by simpa using h1)]
          simp only [Bool.false_eq_true, if_false]
          rw [hch]
          by_cases h2 : s.char = 44 ∨ s.char = 41
          · rw [if_pos h2] at he
            cases he
            rw [if_pos h2]
            exact ⟨_, rfl, hs⟩
          · rw [if_neg h2] at he
            rw [if_neg h2]
            exact step (exa_advanceChar C hs hlt) (advanceChar_lt C.dok hs.good hlen) he

theorem exa_skipLiteralInList (C : ExaCtx E a b) (hs : ExaSync E a b s s') {t : Sc}
    (he : skipLiteralInList E s = (t, .ok ())) (hb : t.pos < b) :
    ∃ t', skipLiteralInList (exaEnv E a b) s' = (t', .ok ()) ∧ ExaSync E a b t t' :=
  exa_litLoop C (E.len + 1) ((exaEnv E a b).len + 1) t hs (by omega) (by omega) he hb

/-! ### identifiers -/

theorem exa_parseIdentifier (C : ExaCtx E a b) (hs : ExaSync E a b s s') {t : Sc} {res : Res Bytes}
    (he : parseIdentifier E s = (t, res)) (hne : ∀ e, res ≠ .err e) (hb : t.pos ≤ b) :
    ∃ t', parseIdentifier (exaEnv E a b) s' = (t', res) ∧ ExaSync E a b t t' := by
  unfold parseIdentifier at he ⊢
  rcases hsl : skipStringLiteral E s with ⟨t1, res1⟩
  rw [hsl] at he
  cases res1 with
  | err e => cases he; exact (hne e rfl).elim
  | ok u =>
    simp only [] at he
    cases he
    obtain ⟨t1', hsl', hs1⟩ := exa_skipStringLiteral C hs hsl (by intro e h; cases h) hb
    rw [hsl']
    simp only []
    rw [hs.extract hs1]
    exact ⟨_, rfl, hs1⟩
  | no =>
    simp only [] at he
    have ht1 : t1 = s := exa_ssl_no_state hsl
    rw [ht1] at hsl
    obtain ⟨_, hsl', _⟩ := exa_skipStringLiteral C hs hsl (by intro e h; cases h) hs.le
    rw [hsl']
    simp only []
    obtain ⟨u, hu, _⟩ := nameLoop_spec C.dok (E.len + 1) hs.good (by omega)
    obtain ⟨u', hu', h1, _⟩ := exa_nameLoop C (E.len + 1) ((exaEnv E a b).len + 1) u hs
      (by omega) (by omega) hu
    rw [hu] at he
    rw [hu']
    simp only [Option.getD_some] at he ⊢
    have hp := hs.pos
    by_cases hgt : u.pos > s.pos
    · rw [if_pos hgt] at he
      cases he
      have hsu := h1 hb
      have := hsu.pos
      rw [if_pos (by omega), hs.extract hsu]
      exact ⟨_, rfl, hsu⟩
    · rw [if_neg hgt] at he
      cases he
      have hsu := h1 hb
      have := hsu.pos
      rw [if_neg (by omega)]
      exact ⟨_, rfl, hsu⟩

theorem exa_parseIdentifierAsterisk (C : ExaCtx E a b) (hs : ExaSync E a b s s') {t : Sc}
    {res : Res Bytes} (he : parseIdentifierAsterisk E s = (t, res)) (hne : ∀ e, res ≠ .err e)
    (hb : t.pos ≤ b) :
    ∃ t', parseIdentifierAsterisk (exaEnv E a b) s' = (t', res) ∧ ExaSync E a b t t' := by
  unfold parseIdentifierAsterisk at he ⊢
  simp only [] at he ⊢
  by_cases h1 : (skipChar E 42 s).2 = true
  · rw [if_pos h1] at he
    cases he
    obtain ⟨h1', hs1⟩ := exa_skipChar_true C 42 hs h1 hb
    rw [if_pos h1']
    exact ⟨_, rfl, hs1⟩
  · rw [if_neg h1] at he
    rw [exa_skipChar_false C 42 hs (by simpa using h1)]
    simp only [Bool.false_eq_true, if_false]
    exact exa_parseIdentifier C hs he hne hb

/-! ### column accessors -/

theorem exa_parseColumnAccessor (C : ExaCtx E a b) (hs : ExaSync E a b s s') {t : Sc} {col : Col}
    (he : parseColumnAccessor E s = (t, .ok col)) (hb : t.pos ≤ b) :
    ∃ t', parseColumnAccessor (exaEnv E a b) s' = (t', .ok col) ∧ ExaSync E a b t t' := by
  unfold parseColumnAccessor at he ⊢
  simp only [] at he ⊢
  by_cases h1 : (skipChar E 42 s).2 = true
  · rw [if_pos h1] at he
    cases he
    obtain ⟨h1', hs1⟩ := exa_skipChar_true C 42 hs h1 hb
    rw [if_pos h1']
    exact ⟨_, rfl, hs1⟩
  rw [if_neg h1] at he
  rw [exa_skipChar_false C 42 hs (by simpa using h1)]
  simp only [Bool.false_eq_true, if_false]
  rcases hid : parseIdentifier E s with ⟨s1, res1⟩
  rw [hid] at he
  have hidok := parseIdentifier_rok C.dok hs.good
  cases res1 with
  | err e => cases he
  | no => cases he
  | ok id =>
    simp only [] at he
    obtain ⟨g1, hle1⟩ := hidok.elim' hid
    have h46 := skipChar_bok C.dok 46 g1
    -- the identifier ends inside the range in every successful continuation
    have hs1b : s1.pos ≤ b := by
      by_cases h2 : (skipChar E 46 s1).2 = true
      · rw [if_pos h2] at he
        have hia := parseIdentifierAsterisk_rok C.dok h46.good
        split at he
        · cases he
        · next heq =>
          cases he
          have := (hia.elim' heq).2; have := h46.mono; omega
        · cases he
      · rw [if_neg h2] at he
        have hpar := skipEnclosedParentheses_sok C.dok g1
        split at he
        · cases he
        · next heq => cases he; have := (hpar.elim_ok heq).2; omega
        · cases he; exact hb
    obtain ⟨s1', hid', hs1⟩ := exa_parseIdentifier C hs hid (by intro e h; cases h) hs1b
    rw [hid']
    simp only []
    by_cases h2 : (skipChar E 46 s1).2 = true
    · rw [if_pos h2] at he
      rcases hia : parseIdentifierAsterisk E (skipChar E 46 s1).1 with ⟨s2, res2⟩
      rw [hia] at he
      have hiaok := parseIdentifierAsterisk_rok C.dok h46.good
      cases res2 with
      | err e => cases he
      | no => cases he
      | ok idCol =>
        simp only [] at he
        cases he
        have hle2 := (hiaok.elim' hia).2
        obtain ⟨h2', hs2⟩ := exa_skipChar_true C 46 hs1 h2 (by omega)
        obtain ⟨s2', hia', hs3⟩ := exa_parseIdentifierAsterisk C hs2 hia (by intro e h; cases h) hb
        rw [if_pos h2', hia']
        exact ⟨_, rfl, hs3⟩
    · rw [if_neg h2] at he
      rw [exa_skipChar_false C 46 hs1 (by simpa using h2)]
      simp only [Bool.false_eq_true, if_false]
      rcases hpar : skipEnclosedParentheses E s1 with ⟨s2, res2⟩
      rw [hpar] at he
      cases res2 with
      | err e => cases he
      | ok u =>
        simp only [] at he
        cases he
        obtain ⟨s2', hpar', hs2⟩ := exa_skipEnclosedParentheses C hs1 hpar (by intro e h; cases h) hb
        rw [hpar']
        simp only []
        rw [hs.extract hs2]
        exact ⟨_, rfl, hs2⟩
      | no =>
        simp only [] at he
        have ht2 : s2 = s1 := exa_sep_no_state hpar
        rw [ht2] at hpar
        obtain ⟨_, hpar', _⟩ := exa_skipEnclosedParentheses C hs1 hpar (by intro e h; cases h) hs1b
        rw [hpar']
        cases he
        exact ⟨_, rfl, hs1⟩

/-! ### type accessors -/

theorem exa_parseSliceAccessor (C : ExaCtx E a b) (hs : ExaSync E a b s s') {t : Sc} {id : Bytes}
    (he : parseSliceAccessor E s = (t, .ok id)) (hb : t.pos ≤ b) :
    ∃ t', parseSliceAccessor (exaEnv E a b) s' = (t', .ok id) ∧ ExaSync E a b t t' := by
  unfold parseSliceAccessor at he ⊢
  obtain ⟨hp1, _, _⟩ := parseTypeName_post C.dok hs.good
  obtain ⟨hT1, _⟩ := exa_parseTypeName C hs
  rcases hptn : parseTypeName E s with ⟨s1, o⟩
  rw [hptn] at he hp1 hT1
  cases o with
  | none => cases he
  | some id0 =>
    simp only [] at he hp1 hT1
    have h91 := skipChar_bok C.dok 91 hp1.good
    have hb2 := skipBlanks_post C.dok h91.good
    have h58 := skipChar_bok C.dok 58 hb2.good
    have hb3 := skipBlanks_post C.dok h58.good
    have h93 := skipChar_bok C.dok 93 hb3.good
    have m1 := h91.mono; have m2 := hb2.mono; have m3 := h58.mono; have m4 := hb3.mono
    have m5 := h93.mono
    by_cases c1 : (skipChar E 91 s1).2 = true
    · simp only [c1, Bool.not_true, Bool.false_eq_true, if_false] at he
      by_cases c2 : (skipChar E 58 (skipBlanks E (skipChar E 91 s1).1)).2 = true
      · simp only [c2, Bool.not_true, Bool.false_eq_true, if_false] at he
        by_cases c3 : (skipChar E 93 (skipBlanks E (skipChar E 58 (skipBlanks E (skipChar E 91 s1).1)).1)).2 = true
        · simp only [c3, Bool.not_true, Bool.false_eq_true, if_false] at he
          cases he
          obtain ⟨hT2, hsy1⟩ := hT1 (by omega)
          rcases hptn' : parseTypeName (exaEnv E a b) s' with ⟨s1', o'⟩
          rw [hptn'] at hT2 hsy1
          simp only [] at hT2 hsy1
          subst hT2
          simp only []
          obtain ⟨c1', y1⟩ := exa_skipChar_true C 91 hsy1 c1 (by omega)
          have y2 := exa_skipBlanks C y1 (by omega)
          obtain ⟨c2', y3⟩ := exa_skipChar_true C 58 y2 c2 (by omega)
          have y4 := exa_skipBlanks C y3 (by omega)
          obtain ⟨c3', y5⟩ := exa_skipChar_true C 93 y4 c3 (by omega)
          simp only [c1', c2', c3', Bool.not_true, Bool.false_eq_true, if_false]
          exact ⟨_, rfl, y5⟩
        · simp only [c3, Bool.not_false, if_true] at he
          cases he
      · simp only [c2, Bool.not_false, if_true] at he
        cases he
    · simp only [c1, Bool.not_false, if_true] at he
      cases he

/-- the "not this" answer of `parseSliceAccessor` carries over without any bound -/
theorem exa_parseSliceAccessor_no (C : ExaCtx E a b) (hs : ExaSync E a b s s') {t : Sc}
    (he : parseSliceAccessor E s = (t, .no)) :
    ∃ t', parseSliceAccessor (exaEnv E a b) s' = (t', .no) ∧ ExaSync E a b t t' := by
  obtain ⟨hr, hno⟩ := parseSliceAccessor_rok C.dok hs.good
  obtain ⟨hr', hno'⟩ := parseSliceAccessor_rok C.dok' hs.good'
  have key : (parseSliceAccessor (exaEnv E a b) s').2 = .no := by
    unfold parseSliceAccessor at he ⊢
    obtain ⟨hp1, _, hnone⟩ := parseTypeName_post C.dok hs.good
    obtain ⟨hT1, hT2⟩ := exa_parseTypeName C hs
    rcases hptn : parseTypeName E s with ⟨s1, o⟩
    rw [hptn] at he hp1 hT1 hT2 hnone
    simp only [] at hT1 hT2 hnone hp1
    rcases hptn' : parseTypeName (exaEnv E a b) s' with ⟨s1', o'⟩
    rw [hptn'] at hT1 hT2
    simp only [] at hT1 hT2
    cases o' with
    | none => rfl
    | some id' =>
      simp only []
      cases o with
      | none =>
        have := hnone rfl
        have := (hT1 (by have := hs.le; omega)).1
        cases this
      | some id0 =>
        simp only [] at he
        have c1 : (skipChar E 91 s1).2 = false := by
          by_cases c1 : (skipChar E 91 s1).2 = true
          · simp only [c1, Bool.not_true, Bool.false_eq_true, if_false] at he
            split at he
            · cases he
            · split at he <;> cases he
          · simpa using c1
        have c1' : (skipChar (exaEnv E a b) 91 s1').2 = false := by
          by_cases hle : s1.pos ≤ b
          · rw [exa_skipChar_false C 91 (hT1 hle).2 c1]
          · have := hT2 (by omega)
            unfold skipChar
            rw [if_neg (fun hx => this hx.1)]
        simp only [c1', Bool.not_false, if_true]
  rw [he] at hr hno
  have hpos := hno rfl
  refine ⟨(parseSliceAccessor (exaEnv E a b) s').1, Prod.ext rfl key, ?_⟩
  exact hs.of_pos_eq hr.good hr'.good hpos (hno' key)

theorem exa_parseTypeAndMember (C : ExaCtx E a b) (hs : ExaSync E a b s s') {t : Sc} {res : Res Acc}
    (he : parseTypeAndMember E s = (t, res)) (hne : ∀ e, res ≠ .err e) (hb : t.pos ≤ b) :
    ∃ t', parseTypeAndMember (exaEnv E a b) s' = (t', res) ∧ ExaSync E a b t t' := by
  unfold parseTypeAndMember at he ⊢
  simp only [] at he ⊢
  obtain ⟨hp1, _, hnone⟩ := parseTypeName_post C.dok hs.good
  obtain ⟨hT1, _⟩ := exa_parseTypeName C hs
  rcases hptn : parseTypeName E s with ⟨s1, o⟩
  rw [hptn] at he hp1 hT1 hnone
  simp only [] at hT1 hnone hp1
  cases o with
  | none =>
    simp only [] at he
    cases he
    have := hnone rfl
    obtain ⟨hT2, _⟩ := hT1 (by have := hs.le; omega)
    rcases hptn' : parseTypeName (exaEnv E a b) s' with ⟨s1', o'⟩
    rw [hptn'] at hT2
    simp only [] at hT2
    subst hT2
    exact ⟨_, rfl, hs⟩
  | some id0 =>
    simp only [] at he
    have h46 := skipChar_bok C.dok 46 hp1.good
    have m1 := h46.mono
    by_cases c1 : (skipChar E 46 s1).2 = true
    · simp only [c1, Bool.not_true, Bool.false_eq_true, if_false] at he
      have hiaok := parseIdentifierAsterisk_rok C.dok h46.good
      rcases hia : parseIdentifierAsterisk E (skipChar E 46 s1).1 with ⟨s2, res2⟩
      rw [hia] at he
      have m2 := (hiaok.elim' hia).2
      cases res2 with
      | err e => simp only [] at he; cases he; exact (hne _ rfl).elim
      | no => simp only [] at he; cases he; exact (hne _ rfl).elim
      | ok idField =>
        simp only [] at he
        cases he
        obtain ⟨hT2, hsy1⟩ := hT1 (by omega)
        rcases hptn' : parseTypeName (exaEnv E a b) s' with ⟨s1', o'⟩
        rw [hptn'] at hT2 hsy1
        simp only [] at hT2 hsy1
        subst hT2
        simp only []
        obtain ⟨c1', y1⟩ := exa_skipChar_true C 46 hsy1 c1 (by omega)
        obtain ⟨s2', hia', y2⟩ := exa_parseIdentifierAsterisk C y1 hia (by intro e h; cases h) hb
        simp only [c1', Bool.not_true, Bool.false_eq_true, if_false, hia']
        exact ⟨_, rfl, y2⟩
    · simp only [c1, Bool.not_false, if_true] at he
      cases he
      exact (hne _ rfl).elim

theorem exa_parseTargetType (C : ExaCtx E a b) (hs : ExaSync E a b s s') {t : Sc} {res : Res Acc}
    (he : parseTargetType E s = (t, res)) (hne : ∀ e, res ≠ .err e) (hb : t.pos ≤ b) :
    ∃ t', parseTargetType (exaEnv E a b) s' = (t', res) ∧ ExaSync E a b t t' := by
  have hx := parseTargetType_xok C.dok hs.good
  rw [he] at hx
  unfold parseTargetType at he ⊢
  simp only [] at he ⊢
  have h38 := skipChar_bok C.dok 38 hs.good
  by_cases c1 : (skipChar E 38 s).2 = true
  · rw [if_pos c1] at he
    by_cases hlt : s.pos < b
    · obtain ⟨_, _, _, _, hnb, _⟩ := hs.lt C hlt
      have h1b : (skipChar E 38 s).1.pos ≤ b := by
        rw [(skipChar_true c1).2.2, advanceChar_pos]; exact hnb
      obtain ⟨c1', y1⟩ := exa_skipChar_true C 38 hs c1 h1b
      rw [if_pos c1']
      rcases hsa : parseSliceAccessor E (skipChar E 38 s).1 with ⟨s1, res1⟩
      rw [hsa] at he
      cases res1 with
      | ok st => simp only [] at he; cases he; exact (hne _ rfl).elim
      | err e => simp only [] at he; cases he; exact (hne _ rfl).elim
      | no =>
        simp only [] at he
        obtain ⟨s1', hsa', y2⟩ := exa_parseSliceAccessor_no C y1 hsa
        rw [hsa']
        simp only []
        have hpos1 : s1.pos = (skipChar E 38 s).1.pos := by
          have := (parseSliceAccessor_rok C.dok h38.good).2
          rw [hsa] at this; exact this rfl
        rcases htm : parseTypeAndMember E s1 with ⟨s2, res2⟩
        rw [htm] at he
        cases res2 with
        | no =>
          simp only [] at he
          cases he
          have hs2 : s2.pos ≤ b := by
            -- `parseTypeAndMember` answers "not this" with its entry state
            unfold parseTypeAndMember at htm
            simp only [] at htm
            split at htm
            · split at htm
              · cases htm
              · split at htm <;> cases htm
            · cases htm; omega
          obtain ⟨s2', htm', _⟩ := exa_parseTypeAndMember C y2 htm (by intro e h; cases h) hs2
          rw [htm']
          exact ⟨_, rfl, hs⟩
        | err e => simp only [] at he; cases he; exact (hne _ rfl).elim
        | ok acc =>
          simp only [] at he
          cases he
          obtain ⟨s2', htm', y3⟩ := exa_parseTypeAndMember C y2 htm (by intro e h; cases h) hb
          rw [htm']
          exact ⟨_, rfl, y3⟩
    · -- at the end of the range the answer on `E` can only be "not this"
      have hn := hs.not_lt' C hlt
      have hf : skipChar (exaEnv E a b) 38 s' = (s', false) := by
        unfold skipChar; rw [if_neg (fun hx => hn hx.1)]
      rw [hf]
      simp only [Bool.false_eq_true, if_false]
      cases res with
      | err e => exact (hne e rfl).elim
      | ok acc =>
        have : s.pos < t.pos := hx.prog acc rfl
        have := hs.le; omega
      | no =>
        have : t = s := hx.no rfl
        subst this
        exact ⟨_, rfl, hs⟩
  · rw [if_neg c1] at he
    cases he
    rw [exa_skipChar_false C 38 hs (by simpa using c1)]
    exact ⟨_, rfl, hs⟩

theorem exa_parseInputMemberAccessor (C : ExaCtx E a b) (hs : ExaSync E a b s s') {t : Sc}
    {res : Res Acc} (he : parseInputMemberAccessor E s = (t, res)) (hne : ∀ e, res ≠ .err e)
    (hb : t.pos ≤ b) :
    ∃ t', parseInputMemberAccessor (exaEnv E a b) s' = (t', res) ∧ ExaSync E a b t t' := by
  unfold parseInputMemberAccessor at he ⊢
  simp only [] at he ⊢
  have h36 := skipChar_bok C.dok 36 hs.good
  by_cases c1 : (skipChar E 36 s).2 = true
  · rw [if_pos c1] at he
    have h1b : (skipChar E 36 s).1.pos ≤ b := by
      -- the result state of `parseTypeAndMember` is not before its entry state
      have : (skipChar E 36 s).1.pos ≤ t.pos := by
        obtain ⟨hp1, _, _⟩ := parseTypeName_post C.dok h36.good
        unfold parseTypeAndMember at he
        simp only [] at he
        split at he
        · next s1 id heq =>
          rw [heq] at hp1
          have g1 : Good E s1 := hp1.good
          have h46 := skipChar_bok C.dok 46 g1
          have : (skipChar E 36 s).1.pos ≤ s1.pos := hp1.mono
          have := h46.mono
          split at he
          · cases he; omega
          · have hia := parseIdentifierAsterisk_rok C.dok h46.good
            split at he
            · next heq2 => cases he; have := (hia.elim' heq2).2; omega
            · next heq2 => cases he; have := (hia.elim' heq2).2; omega
            · next heq2 => cases he; have := (hia.elim' heq2).2; omega
        · cases he; exact Nat.le_refl _
      omega
    obtain ⟨c1', y1⟩ := exa_skipChar_true C 36 hs c1 h1b
    rw [if_pos c1']
    exact exa_parseTypeAndMember C y1 he hne hb
  · rw [if_neg c1] at he
    cases he
    rw [exa_skipChar_false C 36 hs (by simpa using c1)]
    exact ⟨_, rfl, hs⟩

/-! ### lists -/

theorem exa_listLoop (C : ExaCtx E a b) {α : Type} {fn fn' : Sc → Sc × Res α}
    (hrok : ∀ s, Good E s → ROK E s (fn s))
    (hfn : ∀ {s s' t : Sc} {x : α}, ExaSync E a b s s' → fn s = (t, .ok x) → t.pos ≤ b →
      ∃ t', fn' s' = (t', .ok x) ∧ ExaSync E a b t t') (f : Nat) :
    ∀ {s s' : Sc} (cp cp' : Sc) (f' : Nat) (first : Bool) (acc : List α) (t : Sc) (xs : List α),
      Good E cp → cp.pos ≤ s.pos → ExaSync E a b s s' → E.len - s.pos < f →
      (exaEnv E a b).len - s'.pos < f' →
      listLoop E fn cp f first acc s = (t, .ok xs) → t.pos ≤ b →
      ∃ t', listLoop (exaEnv E a b) fn' cp' f' first acc s' = (t', .ok xs) ∧ ExaSync E a b t t' := by
  induction f with
  | zero => intro s s' _ _ f' _ _ _ _ _ _ _ hf; omega
  | succ f ih =>
    intro s s' cp cp' f' first acc t xs gcp hcp hs hf hf' he hb
    cases f' with
    | zero => omega
    | succ f' =>
      unfold listLoop at he ⊢
      simp only [] at he ⊢
      have hb1 := skipBlanks_post C.dok hs.good
      have hr := hrok _ hb1.good
      rcases hfx : fn (skipBlanks E s) with ⟨s2, res2⟩
      rw [hfx] at he
      obtain ⟨g2, m2⟩ := hr.elim' hfx
      have m1 := hb1.mono
      cases res2 with
      | err e => simp only [] at he; cases he
      | no => simp only [] at he; split at he <;> cases he
      | ok x =>
        simp only [] at he
        have hb3 := skipBlanks_post C.dok g2
        have h41 := skipChar_bok C.dok 41 hb3.good
        have h44 := skipChar_bok C.dok 44 hb3.good
        have m3 := hb3.mono
        -- everything up to the delimiter is inside the range
        have hdel : (skipBlanks E s2).pos < b := by
          by_cases c1 : (skipChar E 41 (skipBlanks E s2)).2 = true
          · rw [if_pos c1] at he; cases he; have := h41.prog c1; omega
          · rw [if_neg c1] at he
            by_cases c2 : (skipChar E 44 (skipBlanks E s2)).2 = true
            · rw [if_pos c2] at he
              have := h44.prog c2
              have := h44.good.pos_le
              have hl := listLoop_lok C.dok hrok gcp f false (acc ++ [x]) h44.good (by omega) (by omega)
              rw [he] at hl
              have : (skipChar E 44 (skipBlanks E s2)).1.pos ≤ t.pos := hl.okmono xs rfl
              omega
            · rw [if_neg c2] at he; cases he
        have y1 := exa_skipBlanks C hs (by omega)
        obtain ⟨s2', hfx', y2⟩ := hfn y1 hfx (by omega)
        have y3 := exa_skipBlanks C y2 (by omega)
        rw [hfx']
        simp only []
        by_cases c1 : (skipChar E 41 (skipBlanks E s2)).2 = true
        · rw [if_pos c1] at he
          cases he
          obtain ⟨c1', y4⟩ := exa_skipChar_true C 41 y3 c1 hb
          rw [if_pos c1']
          exact ⟨_, rfl, y4⟩
        · rw [if_neg c1] at he
          rw [exa_skipChar_false C 41 y3 (by simpa using c1)]
          simp only [Bool.false_eq_true, if_false]
          by_cases c2 : (skipChar E 44 (skipBlanks E s2)).2 = true
          · rw [if_pos c2] at he
            have p4 := h44.prog c2
            have := h44.good.pos_le
            have hl := listLoop_lok C.dok hrok gcp f false (acc ++ [x]) h44.good (by omega) (by omega)
            rw [he] at hl
            have m4 : (skipChar E 44 (skipBlanks E s2)).1.pos ≤ t.pos := hl.okmono xs rfl
            obtain ⟨c2', y4⟩ := exa_skipChar_true C 44 y3 c2 (by omega)
            rw [if_pos c2']
            have := hs.lt_of_lt y4 (by omega)
            have := y4.good'.pos_le
            exact ih cp cp' f' false (acc ++ [x]) t xs gcp (by omega) y4 (by omega) (by omega) he hb
          · rw [if_neg c2] at he; cases he

theorem exa_parseList (C : ExaCtx E a b) {α : Type} {fn fn' : Sc → Sc × Res α}
    (hrok : ∀ s, Good E s → ROK E s (fn s))
    (hfn : ∀ {s s' t : Sc} {x : α}, ExaSync E a b s s' → fn s = (t, .ok x) → t.pos ≤ b →
      ∃ t', fn' s' = (t', .ok x) ∧ ExaSync E a b t t')
    (hs : ExaSync E a b s s') {t : Sc} {xs : List α}
    (he : parseList E fn s = (t, .ok xs)) (hb : t.pos ≤ b) :
    ∃ t', parseList (exaEnv E a b) fn' s' = (t', .ok xs) ∧ ExaSync E a b t t' := by
  unfold parseList at he ⊢
  simp only [] at he ⊢
  have h40 := skipChar_bok C.dok 40 hs.good
  by_cases c1 : (skipChar E 40 s).2 = true
  · rw [if_pos c1] at he
    have p1 := h40.prog c1
    have := h40.good.pos_le
    have hl := listLoop_lok C.dok hrok hs.good (E.len + 1) true [] h40.good h40.mono (by omega)
    rw [he] at hl
    have m1 : (skipChar E 40 s).1.pos ≤ t.pos := hl.okmono xs rfl
    obtain ⟨c1', y1⟩ := exa_skipChar_true C 40 hs c1 (by omega)
    rw [if_pos c1']
    have := hs.lt_of_lt y1 p1
    have := y1.good'.pos_le
    exact exa_listLoop C hrok hfn (E.len + 1) s s' ((exaEnv E a b).len + 1) true [] t xs hs.good
      h40.mono y1 (by omega) (by omega) he hb
  · rw [if_neg c1] at he; cases he

/-! ### columns and target types -/

theorem ExaClass.exaEnv (hc : ExaClass E) (a b : Nat) : ExaClass (exaEnv E a b) :=
  ⟨hc.dollar, hc.lparen⟩

theorem exa_parseColumns (C : ExaCtx E a b) (hc : ExaClass E) (hs : ExaSync E a b s s') {t : Sc}
    {cols : List Col} {p : Bool} (he : parseColumns E s = (t, some (cols, p))) (hb : t.pos ≤ b) :
    ∃ t', parseColumns (exaEnv E a b) s' = (t', some (cols, p)) ∧ ExaSync E a b t t' := by
  cases p with
  | true =>
    obtain ⟨hlen, h40, hpl⟩ := exa_parseColumns_paren he
    have hlr := parseList_rok C.dok (fun s g => parseColumnAccessor_rok C.dok g) hs.good
    -- the list is not empty: `s` is strictly inside the range
    have hlt : s.pos < b := by
      unfold parseList at hpl
      simp only [] at hpl
      have hsk := skipChar_bok C.dok 40 hs.good
      split at hpl
      · next c1 =>
        have := hsk.prog c1
        have := hsk.good.pos_le
        have hl := listLoop_lok C.dok (fun s g => parseColumnAccessor_rok C.dok g) hs.good (E.len + 1)
          true [] hsk.good hsk.mono (by omega)
        rw [hpl] at hl
        have : (skipChar E 40 s).1.pos ≤ t.pos := hl.okmono cols rfl
        omega
      · cases hpl
    obtain ⟨_, _, hch, _⟩ := hs.lt C hlt
    obtain ⟨t', hpl', y⟩ := exa_parseList (fn' := parseColumnAccessor (exaEnv E a b)) C
      (fun s g => parseColumnAccessor_rok C.dok g)
      (fun hs he hb => exa_parseColumnAccessor C hs he hb) hs hpl hb
    refine ⟨t', ?_, y⟩
    unfold parseColumns
    rw [exa_pca_at_lparen (hc.exaEnv a b) (by rw [hch]; exact h40)]
    simp only []
    rw [hpl']
  | false =>
    unfold parseColumns at he ⊢
    rcases hca : parseColumnAccessor E s with ⟨s1, res1⟩
    rw [hca] at he
    cases res1 with
    | ok c =>
      simp only [] at he
      cases he
      obtain ⟨t', hca', y⟩ := exa_parseColumnAccessor C hs hca hb
      rw [hca']
      exact ⟨_, rfl, y⟩
    | err e => simp only [] at he; split at he <;> cases he
    | no => simp only [] at he; split at he <;> cases he

theorem exa_parseTargetTypes (C : ExaCtx E a b) (hs : ExaSync E a b s s') {t : Sc}
    {ts : List Acc} {p : Bool} (he : parseTargetTypes E s = (t, .ok (ts, p))) (hb : t.pos ≤ b) :
    ∃ t', parseTargetTypes (exaEnv E a b) s' = (t', .ok (ts, p)) ∧ ExaSync E a b t t' := by
  unfold parseTargetTypes at he ⊢
  have hx := parseTargetType_xok C.dok hs.good
  rcases htt : parseTargetType E s with ⟨s1, res1⟩
  rw [htt] at he hx
  cases res1 with
  | err e => simp only [] at he; cases he
  | ok ty =>
    simp only [] at he
    cases he
    obtain ⟨t', htt', y⟩ := exa_parseTargetType C hs htt (by intro e h; cases h) hb
    rw [htt']
    exact ⟨_, rfl, y⟩
  | no =>
    simp only [] at he
    have h1 : s1 = s := hx.no rfl
    rw [h1] at htt he
    obtain ⟨t1', htt', y1⟩ := exa_parseTargetType C hs htt (by intro e h; cases h) hs.le
    rw [htt']
    simp only []
    rcases hpl : parseList E (parseTargetType E) s with ⟨s2, res2⟩
    rw [hpl] at he
    cases res2 with
    | err e => simp only [] at he; cases he
    | no => simp only [] at he; cases he
    | ok ts2 =>
      simp only [] at he
      cases he
      obtain ⟨t', hpl', y⟩ := exa_parseList (fn' := parseTargetType (exaEnv E a b)) C
        (fun s g => parseTargetType_rok C.dok g)
        (fun hs he hb => exa_parseTargetType C hs he (by intro e h; cases h) hb) y1 hpl hb
      rw [hpl']
      exact ⟨_, rfl, y⟩

end
end Sqlair
