/-
  L5Sound: the history-level predicates of Spec/L5 (`holdsC09`, `holdsC09reuse`, `holdsC10`,
  `holdsC11`), which the Go harness evaluates on what it observed of the real
  implementation, are THEOREMS OF THE MODEL: evaluated on the observation the model itself
  produces (`modelExecs`, `prepCounts`, the final log and cache of a closed-out history) they
  hold for every sequential history - of any length, any operations in any order,
  ill-formed ones (unknown ids, dropped handles, ids used twice) included; `runHistory`
  skips the steps that are not enabled.

  Two qualifications, both with kernel-checked counterexamples in L5Sound/Counter.lean:

  * C09 needs `l5s_fresh h`: `runHistory` numbers `run` operations 1, 2, ... and Queries
    `1000 + q`; the 1000th `run` of a history collides with Query 0
    (`holdsC09_model_counterexample`).  Every history with fewer than 1000 `run`s is fresh.
  * C11 "everything is released once everything is dropped" needs the Queries that were built
    to have been run (`closeOutQ`), or none to be pending (`closeOut`): a kept Query keeps its
    Statement and DB alive (`closeOut_pending_counterexample`).
-/
import SqlairProofs.L5Sound.Execs
import SqlairProofs.L5Sound.CloseOut
import SqlairProofs.L5Sound.Reuse
import SqlairProofs.L5Sound.Counter
import SqlairProofs.L5Sound.General

namespace Sqlair.Cache

/-- the running example: two misses, a hit, a Query built (shape 2) whose cached statement is
    evicted by another shape and collected before it is run, everything released at the end -/
def l5s_example : List HOp :=
  [.newS, .newD, .run 1 1 2, .run 1 1 2, .run 1 1 3, .mkq 1 1 1 2, .run 1 1 5, .gc, .runq 1, .dropS 1, .gc]

/-! ### the instrumented run is `runHistory` -/

/-- `modelExecs` is read off the log of `runHistory h {} 0 [] 1` -/
theorem modelExecs_log (h : List HOp) :
    modelExecs h = l5s_execsOf (runHistory h {} 0 [] 1).1.log (runHistoryW h {} 1 [] []).2 := by
  unfold modelExecs
  rw [runHistoryW_state]

theorem l5s_runHistoryW_reachable (h : List HOp) : Reachable (runHistoryW h {} 1 [] []).1 := by
  rw [runHistoryW_state]; exact l5s_runHistory_reachable h

/-! ### (1) C09 -/

/-- C09 of the model: every execution in the model's log of a history runs a driver statement
    that was prepared on the DB, and from the SQL shape, that the call wanted -/
theorem holdsC09_model (h : List HOp) (hf : l5s_fresh h = true) : holdsC09 (modelExecs h) = true := by
  obtain ⟨qs', hw⟩ := l5s_w_final h (T := l5s_runs h + 1) 1 l5s_seq_init (l5s_w_init _) (by omega)
    (by intro q s d k hm; exact l5s_fresh_mem hf hm)
  exact l5s_execsOf_c09 (l5s_runHistoryW_reachable h) hw

theorem l5s_fresh_of_lt {h : List HOp} (hlt : l5s_runs h < 1000) : l5s_fresh h = true := by
  unfold l5s_fresh
  rw [List.all_eq_true]
  intro o _
  cases o <;> simp
  omega

/-- in particular for every history with fewer than 1000 `run` operations -/
theorem holdsC09_model_of_lt (h : List HOp) (hlt : l5s_runs h < 1000) : holdsC09 (modelExecs h) = true :=
  holdsC09_model h (l5s_fresh_of_lt hlt)

/-- non-vacuity: five executions, one of them (the second) of a cached statement, one (the
    last) of a Query built three operations earlier -/
example : l5s_fresh l5s_example = true ∧
    (modelExecs l5s_example).map (fun e => (e.ds, e.db, e.shape, e.wantDb, e.wantShape, e.closedBefore)) =
      [(1, 1, 2, 1, 2, false), (1, 1, 2, 1, 2, false), (2, 1, 3, 1, 3, false), (3, 1, 5, 1, 5, false),
       (4, 1, 2, 1, 2, false)] := by decide +kernel

/-- a wrong observation: the statement prepared for shape 2 run for a call that wanted shape 3
    (what a cache hit that ignored the SQL would produce); or on another DB -/
example : holdsC09 [{ ds := 1, db := 1, shape := 2, wantDb := 1, wantShape := 3, closedBefore := false }] = false ∧
    holdsC09 [{ ds := 1, db := 1, shape := 2, wantDb := 2, wantShape := 2, closedBefore := false }] = false := by
  decide +kernel

/-! ### (2) C10 -/

/-- C10 of the model: no execution in the model's log of any history comes after the `close`
    event of its driver statement, and none hits "statement is closed" -/
theorem holdsC10_model (h : List HOp) : holdsC10 (modelExecs h) 0 = true := by
  have hr := l5s_runHistoryW_reachable h
  have := l5s_execsOf_c10 hr (runHistoryW h {} 1 [] []).2
  rw [l5s_closedErrs_zero hr] at this
  exact this

/-- no `execClosed` event occurs in any sequential history; the harness' `closedErrs` is 0 -/
theorem no_execClosed_model (h : List HOp) :
    (∀ ds, Ev.execClosed ds ∉ (runHistory h {} 0 [] 1).1.log) ∧ l5s_closedErrs (runHistory h {} 0 [] 1).1.log = 0 :=
  ⟨no_use_after_close (l5s_runHistory_reachable h), l5s_closedErrs_zero (l5s_runHistory_reachable h)⟩

/-- non-vacuity: in the example statements 1 and 2 are closed (events 8, 9) and executions
    follow (of statement 4) -/
example : (runHistory l5s_example {} 0 [] 1).1.log =
    [.prepare 1 1 2, .exec 1 1 2, .exec 1 1 2, .prepare 2 1 3, .exec 2 1 3, .prepare 3 1 5, .exec 3 1 5,
     .close 1, .close 2, .prepare 4 1 2, .exec 4 1 2, .close 3, .close 4] := by decide +kernel

/-- wrong observations: an execution after the close of its statement (what the log of the
    example would give had `runq 1` used the evicted, collected statement 1); a "statement is
    closed" error -/
example :
    (l5s_execsOf [.prepare 1 1 2, .exec 1 1 2, .close 1, .exec 1 1 2] [(1, 1, 2), (3, 1, 2)]).map
      (fun e => (e.ds, e.closedBefore)) = [(1, false), (1, true)] ∧
    holdsC10 (l5s_execsOf [.prepare 1 1 2, .exec 1 1 2, .close 1, .exec 1 1 2] [(1, 1, 2), (3, 1, 2)]) 0 = false ∧
    holdsC10 [] 1 = false := by decide +kernel

/-! ### (3) C09, reuse clause -/

/-- the trivial half: the model does not prepare more often than itself -/
theorem holdsC09reuse_model (h : List HOp) : holdsC09reuse (prepCounts h {} 1) (prepCounts h {} 1) = true :=
  l5s_reuse_refl _

/-- the meaningful half: every entry of `prepCounts` can be read off the cache *before* the
    operation (`l5s_reuseSpec`): it is 0 if there is nothing to run or if the cache holds, for
    the (Statement, DB) slot of the Query that is run, a driver statement with the Query's SQL
    shape (`l5s_hit`), and 1 otherwise -/
theorem prepCounts_model (h : List HOp) : prepCounts h {} 1 = l5s_reuseSpec h {} 1 :=
  l5s_prepCounts_spec h l5s_seq_init 1

/-- at most one prepare per operation -/
theorem prepCounts_le_one (h : List HOp) : ∀ n ∈ prepCounts h {} 1, n ≤ 1 := by
  rw [prepCounts_model]; exact l5s_reuseSpec_le h {} 1

/-- pointwise, for a well-formed `run s d shape` (live handles, unused operation id) at any
    position of any history: its entry is 0 exactly when the cache of the state before it
    holds a statement for `(s, d)` with SQL shape `shape`, and 1 otherwise -/
theorem prepCounts_run (pre post : List HOp) (s d shape : Nat)
    (hs : s ∈ (l5s_final pre {} 1).1.liveS) (hd : d ∈ (l5s_final pre {} 1).1.liveD)
    (ht : (l5s_final pre {} 1).1.getOp (l5s_final pre {} 1).2 = none) :
    prepCounts (pre ++ .run s d shape :: post) {} 1 =
      prepCounts pre {} 1 ++ (if l5s_hit (l5s_final pre {} 1).1 s d shape then 0 else 1) ::
        prepCounts post (l5s_final (pre ++ [.run s d shape]) {} 1).1 (l5s_final (pre ++ [.run s d shape]) {} 1).2 := by
  have hseq := l5s_seq_final pre l5s_seq_init 1
  rw [l5s_prepCounts_append, l5s_prepCounts_cons, l5s_final_append]
  simp only [l5s_final, List.singleton_append]
  rw [l5s_count_run hseq]
  congr 2
  have hq : step (l5s_final pre {} 1).1 (.query (l5s_final pre {} 1).2 s d shape) =
      some { (l5s_final pre {} 1).1 with
        ops := ainsert (l5s_final pre {} 1).1.ops (l5s_final pre {} 1).2 { s := s, d := d, sql := shape } } := by
    simp [step, hs, hd, ht, setOp_eq]
  rw [hq, Option.getD_some]
  rw [l5s_missCount_start (o := { s := s, d := d, sql := shape }) (by simp [alook_ainsert]) rfl]
  rfl

/-- pointwise, for a `runq q` of a Query `o` that was built and not yet run -/
theorem prepCounts_runq (pre post : List HOp) (q : Nat) (o : Op)
    (ho : (l5s_final pre {} 1).1.getOp (1000 + q) = some o) (hpc : o.pc = .start) :
    prepCounts (pre ++ .runq q :: post) {} 1 =
      prepCounts pre {} 1 ++ (if l5s_hit (l5s_final pre {} 1).1 o.s o.d o.sql then 0 else 1) ::
        prepCounts post (l5s_final (pre ++ [.runq q]) {} 1).1 (l5s_final (pre ++ [.runq q]) {} 1).2 := by
  have hseq := l5s_seq_final pre l5s_seq_init 1
  rw [l5s_prepCounts_append, l5s_prepCounts_cons, l5s_final_append]
  simp only [l5s_final, List.singleton_append]
  rw [l5s_count_runq hseq, l5s_missCount_start (by rw [← getOp_eq]; exact ho) hpc]

/-- non-vacuity: in the example the second `run` (same shape as the first) prepares nothing;
    the `runq` prepares again because its statement was evicted -/
example : prepCounts l5s_example {} 1 = [1, 0, 1, 1, 1] ∧ l5s_reuseSpec l5s_example {} 1 = [1, 0, 1, 1, 1] ∧
    l5s_hit (l5s_final (l5s_example.take 3) {} 1).1 1 1 2 = true ∧
    l5s_hit (l5s_final (l5s_example.take 4) {} 1).1 1 1 3 = false := by decide +kernel

/-- a wrong observation: an implementation that prepares again although the statement is cached -/
example : holdsC09reuse (prepCounts l5s_example {} 1) [1, 1, 1, 1, 1] = false := by decide +kernel

/-! ### (4) C11 -/

/-- the C11 inputs a faithful observation of a released state yields: no double close, no
    open statement, no cached pair -/
theorem l5s_released_c11 {st : St} (hr : Reachable st) (h : L5sReleased st) :
    l5s_doubleClose st = 0 ∧ l5s_openStmts st = 0 ∧ st.pairs.length = 0 ∧
      holdsC11 (l5s_doubleClose st) (l5s_openStmts st) st.pairs.length 1 true st.pairs.length = true := by
  have h1 : l5s_doubleClose st = 0 := by
    unfold l5s_doubleClose
    rw [List.length_eq_zero_iff, List.filter_eq_nil_iff]
    intro x _
    rw [h.1 x.id]
    split <;> simp
  have h2 : l5s_openStmts st = 0 := by
    unfold l5s_openStmts
    rw [List.length_eq_zero_iff, List.filter_eq_nil_iff]
    intro x hx
    have hp : l5s_prepared st.log x.id = true := (l5s_prepared_iff hr x.id).2 ⟨x, hr.inv.dsOK.ids.get_of_mem hx⟩
    rw [h.1 x.id, hp]
    simp
  have h3 : st.pairs.length = 0 := by rw [h.2.1]; rfl
  refine ⟨h1, h2, h3, ?_⟩
  rw [h1, h2, h3]
  rfl

/-- C11 of the model: after any history, once the Queries that were built have been run, every
    Statement and DB the history created has been dropped and garbage has been collected
    (with the fuel `runHistory` gives `gc`), each driver statement that was prepared has exactly
    one `close` event in the whole log, nothing else has one, and the cache is empty; so a
    faithful observation passes `holdsC11` with `allDropped = true` -/
theorem holdsC11_model (h : List HOp) :
    let st := (runHistory (closeOutQ h) {} 0 [] 1).1
    (∀ ds, (st.log.filter (· == Ev.close ds)).length = if l5s_prepared st.log ds then 1 else 0) ∧
      st.pairs = [] ∧ st.stmtDB = [] ∧ st.dbStmt = [] ∧
      holdsC11 (l5s_doubleClose st) (l5s_openStmts st) st.pairs.length 1 true st.pairs.length = true := by
  intro st
  have hrel : L5sReleased st := l5s_closeOutQ_released h
  have hr : Reachable st := l5s_runHistory_reachable _
  exact ⟨hrel.1, hrel.2.1, hrel.2.2.1, hrel.2.2.2, (l5s_released_c11 hr hrel).2.2.2⟩

/-- the same for `closeOut h = h ++ drops ++ [gc]` when no Query is pending at the end of `h` -/
theorem holdsC11_model_closeOut (h : List HOp) (hnp : l5s_pending (runHistory h {} 0 [] 1).1 = false) :
    let st := (runHistory (closeOut h) {} 0 [] 1).1
    (∀ ds, (st.log.filter (· == Ev.close ds)).length = if l5s_prepared st.log ds then 1 else 0) ∧
      st.pairs = [] ∧ st.stmtDB = [] ∧ st.dbStmt = [] ∧
      holdsC11 (l5s_doubleClose st) (l5s_openStmts st) st.pairs.length 1 true st.pairs.length = true := by
  intro st
  have hrel : L5sReleased st := l5s_closeOut_released h hnp
  have hr : Reachable st := l5s_runHistory_reachable _
  exact ⟨hrel.1, hrel.2.1, hrel.2.2.1, hrel.2.2.2, (l5s_released_c11 hr hrel).2.2.2⟩

/-- the harness' constants: `doubleClose = 0`, `openStmts = 0`, no pairs, one connection -/
theorem holdsC11_faithful : holdsC11 0 0 0 1 true 0 = true := rfl

/-- the fuel `runHistory` gives `gc` always reaches the fixpoint: after every `gc` of every
    history no finalizer is enabled -/
theorem gc_fuel_suffices (h : List HOp) :
    enabledFinalizers (runHistory (h ++ [.gc]) {} 0 [] 1).1 = [] := by
  rw [l5s_runHistory_fst, l5s_final_append]
  exact (l5s_gc_spec (l5s_seq_final h l5s_seq_init 1).reach).2.1

/-- non-vacuity: the example closed out - four statements prepared, each closed once; before
    the closing-out a pair is cached and a DB is live -/
example :
    let st := (runHistory (closeOutQ l5s_example) {} 0 [] 1).1
    let st0 := (runHistory (l5s_example.take 7) {} 0 [] 1).1
    st.ds.length = 4 ∧ (List.range 6).map (l5s_closes st.log) = [0, 1, 1, 1, 1, 0] ∧
    (List.range 6).map (l5s_prepared st.log) = [false, true, true, true, true, false] ∧
    st0.pairs = [(1, 1, 5)] ∧ l5s_openStmts st0 = 3 ∧ l5s_pending st0 = true := by decide +kernel

example : closeOutQ l5s_example = l5s_example ++ [.runq 1, .dropS 1, .dropD 1, .gc] := rfl

/-- C11, general clause (what the checker evaluates when handles are still held): right after
    a `gc` of any history, whatever is still held or pending, no driver statement has two
    `close` events and the open driver statements are at most the cached pairs (times the one
    pooled connection) -/
theorem holdsC11_model_general (h : List HOp) :
    let st := (runHistory (h ++ [.gc]) {} 0 [] 1).1
    l5s_doubleClose st = 0 ∧ l5s_openStmts st ≤ st.pairs.length ∧
      holdsC11 (l5s_doubleClose st) (l5s_openStmts st) st.pairs.length 1 false st.pairs.length = true := by
  intro st
  have hseq : L5sSeq st := by
    show L5sSeq (runHistory (h ++ [.gc]) {} 0 [] 1).1
    rw [l5s_runHistory_fst]
    exact l5s_seq_final _ l5s_seq_init 1
  obtain ⟨h1, h2⟩ := l5s_fixpoint_general hseq (gc_fuel_suffices h)
  refine ⟨h1, h2, ?_⟩
  unfold holdsC11
  rw [h1]
  simp [h2]

/-- non-vacuity: the example up to its first `gc` - the two evicted statements were closed by
    the collection, one statement is open and cached, a Query is pending; before the `gc` three
    statements were open for one cached pair (the clause is about collected states) -/
example :
    let st := (runHistory (l5s_example.take 7 ++ [.gc]) {} 0 [] 1).1
    let st0 := (runHistory (l5s_example.take 7) {} 0 [] 1).1
    l5s_openStmts st = 1 ∧ st.pairs = [(1, 1, 5)] ∧ l5s_pending st = true ∧ st.liveS = [1] ∧
    holdsC11 (l5s_doubleClose st0) (l5s_openStmts st0) st0.pairs.length 1 false st0.pairs.length = false := by
  decide +kernel

/-- wrong observations: a statement closed twice; a statement left open; a pair left cached -/
example : holdsC11 1 0 0 1 true 0 = false ∧ holdsC11 0 1 0 1 true 0 = false ∧ holdsC11 0 1 1 1 true 1 = false := by
  decide +kernel

end Sqlair.Cache
