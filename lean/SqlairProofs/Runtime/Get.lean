/-
  Runtime proofs: `Query.Get` / `Query.Run` — closed form of the result, world accounting.
-/
import SqlairProofs.Runtime.Release

namespace Sqlair.Rt

/-- closed form of `Get`'s result: a function of the script and the call alone -/
def getSpec (s : Script) (c : GetCall) : GetResult :=
  if !s.hasOutputs && decide (c.dests > 0) then { err := some (.sqlair "outputs-not-referenced") } else
  match s.openErr with
  | some e => { err := some e }
  | none =>
    let oc : Option (Option Nat) :=
      if c.outcome then some (if s.hasOutputs then none else some s.result) else none
    if !s.hasOutputs then { err := none, outcome := oc } else
    match s.fetch with
    | [] => { err := some (s.closeErr.getD .noRows), outcome := oc }
    | .error e :: _ => { err := some e, outcome := oc }
    | .ok row :: _ =>
      if c.dests = 0 || !c.destsValid then { err := some (.wrapped (.sqlair "scan-args")), outcome := oc }
      else if row.scanOK then { err := s.closeErr, stored := some row.id, outcome := oc }
      else { err := some (.wrapped .scan), outcome := oc }

theorem queryGet_fst (s : Script) (c : GetCall) (w : World) : (queryGet s c w).1 = getSpec s c := by
  unfold getSpec
  cases hrej : (!s.hasOutputs && decide (c.dests > 0))
  · have hrej0 := hrej
    simp only [Bool.and_eq_false_iff, Bool.not_eq_false', decide_eq_false_iff_not] at hrej
    have hrej' : ¬ (s.hasOutputs = false ∧ 0 < c.dests) := by
      rintro ⟨h1, h2⟩; rcases hrej with h | h <;> simp_all
    simp only [Bool.false_eq_true, if_false]
    cases hoe : s.openErr with
    | some e =>
      have hro : s.runsOK = false := by simp [Script.runsOK, hoe]
      cases hco : c.outcome <;>
        simp [queryGet, hrej', iterOpen_eq, hoe, hro, hco, Script.openRows, Iter.get, Iter.next, Iter.close]
    | none =>
      have hro : s.runsOK = true := by simp [Script.runsOK, hoe]
      cases hout : s.hasOutputs with
      | false =>
        have hd : ¬ 0 < c.dests := by simpa [hout] using hrej'
        cases hco : c.outcome <;>
          simp [queryGet, hd, iterOpen_eq, hoe, hro, hco, hout, Script.openRows, Iter.get, Iter.next, Iter.close]
      | true =>
        simp only [Bool.not_true, Bool.false_eq_true, if_false]
        cases hf : s.fetch with
        | nil =>
          cases hce : s.closeErr <;> cases hco : c.outcome <;>
          simp [queryGet, iterOpen_eq, hoe, hro, hco, hout, hf, hce, Script.openRows, Iter.get, Iter.next, Iter.close,
            Rows.next, Rows.close, Rows.err]
        | cons x rest =>
          cases x with
          | error e =>
            cases hco : c.outcome <;>
            simp [queryGet, iterOpen_eq, hoe, hro, hco, hout, hf, Script.openRows, Iter.get, Iter.next, Iter.close,
              Rows.next, Rows.close, Rows.err]
          | ok row =>
            cases hco : c.outcome <;> cases hk : row.scanOK <;> cases hdv : c.destsValid <;>
            cases hce : s.closeErr <;>
            by_cases hd : c.dests = 0 <;>
            simp [queryGet, iterOpen_eq, hoe, hro, hco, hout, hf, hk, hdv, hd, hce, Script.openRows, Iter.get, Iter.next, Iter.close,
              Rows.next, Rows.close, Rows.err, Rows.scan]
  · have hrej0 := hrej
    simp only [Bool.and_eq_true, Bool.not_eq_true', decide_eq_true_eq] at hrej
    simp [queryGet, hrej]
/-- where `queryGet` leaves the world: every path ends with a `Close` -/
theorem queryGet_snd (s : Script) (c : GetCall) (w : World) :
    (queryGet s c w).2 = w ∧ (!s.hasOutputs && decide (c.dests > 0)) = true ∨
    (!s.hasOutputs && decide (c.dests > 0)) = false ∧
    ((queryGet s c w).2 = ((iterOpen s w).1.close (iterOpen s w).2).2.1 ∨
     (queryGet s c w).2 = (((iterOpen s w).1.next (iterOpen s w).2).1.close ((iterOpen s w).1.next (iterOpen s w).2).2.1).2.1) := by
  cases hrej : (!s.hasOutputs && decide (c.dests > 0))
  · right
    refine ⟨rfl, ?_⟩
    simp only [Bool.and_eq_false_iff, Bool.not_eq_false', decide_eq_false_iff_not] at hrej
    have hrej' : ¬ (s.hasOutputs = false ∧ 0 < c.dests) := by
      rintro ⟨h1, h2⟩; rcases hrej with h | h <;> simp_all
    cases hb : ((iterOpen s w).1.next (iterOpen s w).2).2.2 <;>
    cases hg2 : ((iterOpen s w).1.next (iterOpen s w).2).1.get (if c.dests = 0 then GetArgs.invalid
                  else if c.destsValid = true then GetArgs.valid else GetArgs.invalid) <;>
    cases hco : c.outcome <;>
    (try cases hg : (iterOpen s w).1.get .outcome) <;>
    simp [queryGet, *]
  · left
    refine ⟨?_, rfl⟩
    simp only [Bool.and_eq_true, Bool.not_eq_true', decide_eq_true_eq] at hrej
    simp [queryGet, hrej]

theorem queryGet_log (s : Script) (c : GetCall) (w : World) : w.log <+: (queryGet s c w).2.log := by
  have h1 := iterOpen_log s w
  rcases queryGet_snd s c w with ⟨h, _⟩ | ⟨_, h | h⟩ <;> rw [h]
  · exact List.prefix_refl _
  · exact h1.trans (Iter.close_log _ _)
  · exact (h1.trans (Iter.next_log _ _)).trans (Iter.close_log _ _)

theorem queryGet_bal (s : Script) (c : GetCall) (w : World) :
    (queryGet s c w).2.inUse = w.inUse ∧
      (queryGet s c w).2.closes = w.closes + if s.opensRows then 1 else 0 := by
  have hb := iterOpen_bal s w
  rcases queryGet_snd s c w with ⟨h, hrej⟩ | ⟨_, h | h⟩ <;> rw [h]
  · have : s.opensRows = false := by
      simp only [Bool.and_eq_true, Bool.not_eq_true'] at hrej
      simp [Script.opensRows, hrej.1]
    simp [this]
  · exact (Iter.close_bal hb).of_rows_none (by simp)
  · exact (Iter.close_bal (Iter.next_bal hb)).of_rows_none (by simp)

/-- when no result set was opened, `Get` leaves the world as `Query.Iter` left it -/
theorem queryGet_world_of_rows_none {s : Script} {w : World} (h : (iterOpen s w).1.rows = none) (c : GetCall) :
    (queryGet s c w).2 = w ∨ (queryGet s c w).2 = (iterOpen s w).2 := by
  rcases queryGet_snd s c w with ⟨h', _⟩ | ⟨_, h' | h'⟩
  · exact .inl h'
  · right; rw [h', Iter.close_of_rows_none h]
  · right
    rw [h', Iter.next_of_rows_none h, Iter.close_of_rows_none (by simpa using h)]

theorem queryGetAll_world_of_rows_none {s : Script} {w : World} (h : (iterOpen s w).1.rows = none)
    (n : Nat) (dv : Bool) :
    (queryGetAll s n dv w).2 = w ∨ (queryGetAll s n dv w).2 = (iterOpen s w).2 := by
  have hend : (iterOpen s w).1.ended = true := by simp [Iter.ended, h]
  have hloop : gaLoop s dv w = ({ (iterOpen s w).1 with started := true }, (iterOpen s w).2, [], none) :=
    getAllLoop_ended hend _ _ _ _
  rcases queryGetAll_snd s n dv w with ⟨h', _⟩ | ⟨_, ⟨h', _⟩ | h'⟩
  · exact .inl h'
  · right; rw [h', hloop]
  · right
    rw [h']
    simp only [gaClose]
    rw [hloop, Iter.close_of_rows_none (by simpa using h)]

end Sqlair.Rt
