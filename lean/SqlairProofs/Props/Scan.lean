/-
  Scan properties (C06): row values land in the designated field or key, whatever the
  column order.

  Reading the store: `Dest.fieldVal d idx` is the content of the leaf field with reflect index
  path `idx` (`some (some txt)`), `Dest.keyVal d k` the content of map key `k`
  (SqlairProofs/Scan/Store.lean).  "Column `c` is the alias of output `k`" is
  `markerIndex c = some k`; by `markerIndex_markerName` below that means `c = _sqlair_<k>`.
-/
import SqlairProofs.Scan.Alias
import SqlairProofs.Scan.Errors
import SqlairProofs.Scan.Perm
import SqlairProofs.Scan.Marker

namespace Sqlair

/-! ### hypotheses -/

/-- no two outputs designate the same member (same type and same field path / map key):
    Prepare guarantees it -/
def OutputsDistinct (outputs : List Loc) : Prop := outputs.Pairwise (fun a b => a.sameMember b = false)

/-- the flattened stores have pairwise distinct field paths and pairwise distinct keys -/
def DestsDistinct (dests : List Dest) : Prop :=
  ∀ d ∈ dests, (d.fields.map (·.1)).Nodup ∧ (d.keys.map (·.1)).Nodup

/-- well-formedness of the outputs and of the destinations -/
def WFOut (outputs : List Loc) (dests : List Dest) : Prop := OutputsDistinct outputs ∧ DestsDistinct dests

instance (outputs : List Loc) (dests : List Dest) : Decidable (WFOut outputs dests) := by
  unfold WFOut OutputsDistinct DestsDistinct; infer_instance

/-- content of the member of `d` that output `l` designates -/
def Loc.valIn (l : Loc) (d : Dest) : Option String :=
  match l with
  | .field _ _ f => (d.fieldVal f.index).join
  | .mapKey _ _ key => d.keyVal key
  | .slice .. => none

/-! ### the fixture of the non-vacuity examples -/

namespace ScanEx

def b (s : String) : Bytes := s.toUTF8.data

/-- type 0: `struct T { A int "a"; B int "b"; P *int "p" }`, type 1: `map M[string]any`,
    2: int, 3: *int, 4: any, 5: string -/
def tt : TypeTable := #[
  { kind := .struct, kindStr := "struct", name := b "T", fields := [
      { name := b "A", tag := b "a", exported := true, anon := false, ty := 2 },
      { name := b "B", tag := b "b", exported := true, anon := false, ty := 2 },
      { name := b "P", tag := b "p", exported := true, anon := false, ty := 3 }] },
  { kind := .map, kindStr := "map", name := b "M", elem := 4, key := 5 },
  { kind := .other, kindStr := "int", name := b "int" },
  { kind := .ptr, kindStr := "ptr", name := b "", elem := 2 },
  { kind := .iface, kindStr := "interface", name := b "" },
  { kind := .string, kindStr := "string", name := b "string" }]

def fa : SField := { name := b "A", tag := b "a", omitEmpty := false, index := [0] }
def fp : SField := { name := b "P", tag := b "p", omitEmpty := false, index := [2] }

def outputs : List Loc := [.field 0 (b "T") fa, .field 0 (b "T") fp, .mapKey 1 (b "M") (b "k")]

def cols : List Bytes := [b "_sqlair_2", b "extra", b "_sqlair_0", b "_sqlair_1"]
def row : List DV := [some "5", some "x", none, none]

/-- a permutation of the columns (and of the row with them) -/
def cols' : List Bytes := [b "_sqlair_0", b "_sqlair_1", b "_sqlair_2", b "extra"]
def row' : List DV := [none, none, some "5", some "x"]

def dests : List Dest := [
  { form := .ptrStruct, tid := 0, fields := [([0], some "1"), ([1], some "7"), ([2], some "&3")] },
  { form := .mapVal, tid := 1, keys := [(b "z", "old")] }]

/-- conversion: the text itself, `"NULL"` for NULL; the text `"bad"` does not convert -/
def E : ScanEnv :=
  { conv := fun v _ => match v with
      | none => some "NULL"
      | some s => if s == "bad" then none else some s
    zeroText := fun _ => "0" }

def dests' : List Dest := [
  { form := .ptrStruct, tid := 0, fields := [([0], some "0"), ([1], some "7"), ([2], some "<nil>:<nil>")] },
  { form := .mapVal, tid := 1, keys := [(b "z", "old"), (b "k", "5")] }]

theorem wf : WFOut outputs dests := by decide +kernel

theorem get : scanGet E tt outputs cols row dests = (dests', none) := by decide +kernel

/-- column 2 is the last (only) alias of output 0 -/
theorem last0 : ∀ (j' : Nat) (c' : Bytes), 2 < j' → cols[j']? = some c' → markerIndex c' ≠ some 0 := by
  intro j' c' hlt hc'
  match j', hlt, hc' with
  | 3, _, h =>
    have : c' = b "_sqlair_1" := by
      simp only [cols] at h; simpa using h.symm
    subst this; decide +kernel
  | n + 4, _, h => simp [cols] at h

/-- column 3 is the last (only) alias of output 1 -/
theorem last1 : ∀ (j' : Nat) (c' : Bytes), 3 < j' → cols[j']? = some c' → markerIndex c' ≠ some 1 := by
  intro j' c' hlt hc'
  match j', hlt, hc' with
  | n + 4, _, h => simp [cols] at h

end ScanEx

/-- `WFOut` is satisfiable (and decidable) -/
example : WFOut ScanEx.outputs ScanEx.dests := ScanEx.wf

/-! ### 5. an error of ScanArgs leaves the destinations alone -/

/-- if `ScanArgs` fails (column missing, destination not used, invalid or missing destination,
    nil embedded pointer, …) then `Get` returns that error and does not touch the destinations -/
theorem scan_error_before_scan_leaves_dests (E : ScanEnv) (tt : TypeTable) (outputs : List Loc) (cols : List Bytes)
    (row : List DV) (dests : List Dest) (e : String) (h : scanArgs tt outputs cols dests = .error e) :
    scanGet E tt outputs cols row dests = (dests, some e) := by
  unfold scanGet; rw [h]

/-- non-vacuity: without the column of output 1 the scan fails and nothing is written -/
example : scanGet ScanEx.E ScanEx.tt ScanEx.outputs
    [ScanEx.b "_sqlair_2", ScanEx.b "extra", ScanEx.b "_sqlair_0", ScanEx.b "other"] ScanEx.row ScanEx.dests =
      (ScanEx.dests, some "column-missing") := by decide +kernel

/-! ### 3. members that are not designated by an output keep their value -/

/-- after a successful `Get`: the destinations keep their number, form, type and set of leaf
    fields; a leaf field that is not designated by an output whose alias is among the columns
    keeps its value, and so does a map key (in particular an absent key stays absent) -/
theorem untouched_members {E : ScanEnv} {tt : TypeTable} {outputs : List Loc} {cols : List Bytes} {row : List DV}
    {dests dests' : List Dest} (hget : scanGet E tt outputs cols row dests = (dests', none)) :
    dests'.length = dests.length ∧
    ∀ (di : Nat) (d : Dest), dests[di]? = some d → ∃ d' : Dest, dests'[di]? = some d' ∧ d'.form = d.form ∧ d'.tid = d.tid ∧
      d'.fields.map (·.1) = d.fields.map (·.1) ∧
      (∀ idx, (∀ c ∈ cols, ∀ k tn f, markerIndex c = some k → outputs[k]? = some (.field d.tid tn f) → f.index ≠ idx) →
        d'.fieldVal idx = d.fieldVal idx) ∧
      (∀ key, (∀ c ∈ cols, ∀ k tn, markerIndex c = some k → outputs[k]? ≠ some (.mapKey d.tid tn key)) →
        d'.keyVal key = d.keyVal key) := by
  have hfin := hget
  obtain ⟨m, _, _, _, _, _, _, _, hfin⟩ := (scanGet_ok_unfold ..).mp hfin
  refine ⟨by rw [hfin, applyWrites_length], ?_⟩
  intro di d hd
  obtain ⟨d', hd', h1, h2, h3⟩ := applyWrites_getElem? dests _ di d hd
  rw [← hfin] at hd'
  refine ⟨d', hd', h1, h2, h3, ?_, ?_⟩
  · intro idx hno
    have := untouched_valAt hget (di, .field idx) (by
      intro c hc k l d0 hmi hout hd0 ht hs
      simp only at hd0 hs
      rw [hd] at hd0
      simp only [Option.some.injEq] at hd0
      subst hd0
      cases l with
      | slice => cases hs
      | mapKey => simp [Loc.slot?] at hs
      | field tid tn f =>
        simp only [Loc.slot?, Option.some.injEq, Slot.field.injEq] at hs
        simp only [Loc.tid] at ht
        subst ht
        exact hno c hc k tn f hmi hout hs)
    simpa [valAt, hd, hd', Dest.slotVal] using this
  · intro key hno
    have := untouched_valAt hget (di, .key key) (by
      intro c hc k l d0 hmi hout hd0 ht hs
      simp only at hd0 hs
      rw [hd] at hd0
      simp only [Option.some.injEq] at hd0
      subst hd0
      cases l with
      | slice => cases hs
      | field => simp [Loc.slot?] at hs
      | mapKey tid tn key' =>
        simp only [Loc.slot?, Option.some.injEq, Slot.key.injEq] at hs
        simp only [Loc.tid] at ht
        subst ht; subst hs
        exact hno c hc k tn hmi hout)
    simp only [valAt, hd, hd', Dest.slotVal, Option.bind_some] at this
    cases h1 : d'.keyVal key <;> cases h2 : d.keyVal key <;> simp_all

/-- non-vacuity: field `b` of the struct and key `z` of the map keep their values -/
example : ∃ d0 d1, ScanEx.dests'[0]? = some d0 ∧ ScanEx.dests'[1]? = some d1 ∧
    d0.fieldVal [1] = some (some "7") ∧ d1.keyVal (ScanEx.b "z") = some "old" ∧
    d1.keyVal (ScanEx.b "nokey") = none := by
  refine ⟨_, _, rfl, rfl, ?_, ?_, ?_⟩ <;> decide +kernel

/-- the theorem applied to the fixture: field `b` (path `[1]`) is not designated by any output -/
example : ∃ d', ScanEx.dests'[0]? = some d' ∧ d'.fieldVal [1] = some (some "7") := by
  obtain ⟨d', h1, _, _, _, h2, _⟩ := (untouched_members ScanEx.get).2 0 _ rfl
  refine ⟨d', h1, ?_⟩
  rw [h2 [1]]
  · decide +kernel
  · intro c hc k tn f hmi hout
    have hk : k < 3 := (List.getElem?_eq_some_iff.mp hout).1
    match k, hk, hout with
    | 0, _, h => cases h; decide
    | 1, _, h => cases h; decide
    | 2, _, h => cases h

/-! ### 2. the value of a column lands in the member its alias designates -/

/-- if `Get` succeeds and column `j` is the last column that is the alias of output `k`
    (`outputs[k] = l`), then the member designated by `l`, in the destination `d` whose type is
    the type of `l`, holds `expectedText E tt l row[j]`, i.e.
    * plain field of type `fty`: `zeroText fty` if `row[j]` is NULL, else `conv row[j] fty`;
    * pointer field `*elem`: `nilText` if NULL, else `conv row[j] elem`;
    * field whose pointer is a `sql.Scanner`: `conv row[j] fty` (NULL included);
    * map key: `conv row[j] elem`. -/
theorem scan_by_alias {E : ScanEnv} {tt : TypeTable} {outputs : List Loc} {cols : List Bytes} {row : List DV}
    {dests dests' : List Dest} (hget : scanGet E tt outputs cols row dests = (dests', none))
    (hwf : WFOut outputs dests) {k j di : Nat} {l : Loc} {c : Bytes} {d : Dest}
    (hk : outputs[k]? = some l) (hj : cols[j]? = some c) (hc : markerIndex c = some k)
    (hlast : ∀ j' c', j < j' → cols[j']? = some c' → markerIndex c' ≠ some k)
    (hd : dests[di]? = some d) (htid : d.tid = l.tid) :
    ∃ v txt d', row[j]? = some v ∧ dests'[di]? = some d' ∧ expectedText E tt l v = some txt ∧
      l.valIn d' = some txt := by
  obtain ⟨di0, d0, s, v, txt, hd0, ht0, hs, hv, hex, hval⟩ := scan_by_alias_valAt hget hwf.1 hk hj hc hlast
  obtain ⟨m, hvm, _⟩ := (scanGet_ok_unfold ..).mp hget
  have hdi : di0 = di := (validMap_of_ok hvm).tid_inj hd0 hd (ht0.trans htid.symm)
  subst hdi
  unfold valAt at hval
  cases hd' : dests'[di0]? with
  | none => rw [hd'] at hval; cases hval
  | some d' =>
    rw [hd'] at hval
    simp only [Option.bind_some] at hval
    refine ⟨v, txt, d', hv, rfl, hex, ?_⟩
    cases l with
    | slice => cases hs
    | field tid tn f =>
      simp only [Loc.slot?, Option.some.injEq] at hs; subst hs
      simp only [Dest.slotVal] at hval
      simp [Loc.valIn, hval]
    | mapKey tid tn key =>
      simp only [Loc.slot?, Option.some.injEq] at hs; subst hs
      simp only [Dest.slotVal] at hval
      cases hkv : d'.keyVal key with
      | none => rw [hkv] at hval; cases hval
      | some x => rw [hkv] at hval; simp only [Option.map_some, Option.some.injEq] at hval; simp [Loc.valIn, hkv, hval]

/-- the usual case: the alias of output `k` occurs exactly once among the columns -/
theorem scan_by_alias_once {E : ScanEnv} {tt : TypeTable} {outputs : List Loc} {cols : List Bytes} {row : List DV}
    {dests dests' : List Dest} (hget : scanGet E tt outputs cols row dests = (dests', none))
    (hwf : WFOut outputs dests) {k j di : Nat} {l : Loc} {c : Bytes} {d : Dest}
    (hk : outputs[k]? = some l) (hj : cols[j]? = some c) (hc : markerIndex c = some k)
    (honce : ∀ j' c', cols[j']? = some c' → markerIndex c' = some k → j' = j)
    (hd : dests[di]? = some d) (htid : d.tid = l.tid) :
    ∃ v txt d', row[j]? = some v ∧ dests'[di]? = some d' ∧ expectedText E tt l v = some txt ∧
      l.valIn d' = some txt :=
  scan_by_alias hget hwf hk hj hc
    (fun j' c' hlt hc' hm => by have := honce j' c' hc' hm; omega) hd htid

/-- the same with the literal column names: column `j` is named `_sqlair_<k>` and no later
    column is (`k < 2^63` always holds in Go, where `k` is an `int`) -/
theorem scan_by_alias_name {E : ScanEnv} {tt : TypeTable} {outputs : List Loc} {cols : List Bytes} {row : List DV}
    {dests dests' : List Dest} (hget : scanGet E tt outputs cols row dests = (dests', none))
    (hwf : WFOut outputs dests) {k j di : Nat} {l : Loc} {d : Dest} (hk63 : k < 2 ^ 63)
    (hk : outputs[k]? = some l) (hj : cols[j]? = some ("_sqlair_" ++ toString k).toUTF8.data)
    (hlast : ∀ j', j < j' → cols[j']? ≠ some ("_sqlair_" ++ toString k).toUTF8.data)
    (hd : dests[di]? = some d) (htid : d.tid = l.tid) :
    ∃ v txt d', row[j]? = some v ∧ dests'[di]? = some d' ∧ expectedText E tt l v = some txt ∧
      l.valIn d' = some txt :=
  scan_by_alias hget hwf hk hj (markerIndex_markerName_aux k hk63)
    (fun j' c' hlt hc' hm => hlast j' hlt (by rw [hc', markerIndex_eq_some hm]; rfl)) hd htid

/-- totality: after a successful `Get` *every* output has a (last) column carrying its alias and
    a unique destination of its type, and its member holds the converted value of that column -/
theorem scan_every_output_assigned {E : ScanEnv} {tt : TypeTable} {outputs : List Loc} {cols : List Bytes}
    {row : List DV} {dests dests' : List Dest} (hget : scanGet E tt outputs cols row dests = (dests', none))
    (hwf : WFOut outputs dests) {k : Nat} {l : Loc} (hk : outputs[k]? = some l) :
    ∃ (j di : Nat) (c : Bytes) (d d' : Dest) (v : DV) (txt : String),
      cols[j]? = some c ∧ markerIndex c = some k ∧ dests[di]? = some d ∧ d.tid = l.tid ∧
      (∀ (di' : Nat) (e : Dest), dests[di']? = some e → e.tid = l.tid → di' = di) ∧
      row[j]? = some v ∧ dests'[di]? = some d' ∧ expectedText E tt l v = some txt ∧ l.valIn d' = some txt := by
  obtain ⟨hcol, di, d, hd, ht, huniq⟩ := scan_output_dest hget hk
  obtain ⟨j, c, hj, hc, hlast⟩ := exists_last (fun c => markerIndex c = some k) cols hcol
  obtain ⟨v, txt, d', h1, h2, h3, h4⟩ := scan_by_alias hget hwf hk hj hc hlast hd ht
  exact ⟨j, di, c, d, d', v, txt, hj, hc, hd, ht, huniq, h1, h2, h3, h4⟩

/-- non-vacuity: in the fixture the column of output 2 (the map key `k`) is column 0 and holds
    `"5"`, the columns of outputs 0 (plain field `a`) and 1 (pointer field `p`) hold NULL -/
example : ∃ d0 d1, ScanEx.dests'[0]? = some d0 ∧ ScanEx.dests'[1]? = some d1 ∧
    d1.keyVal (ScanEx.b "k") = some "5" ∧ d0.fieldVal [0] = some (some "0") ∧
    d0.fieldVal [2] = some (some "<nil>:<nil>") := by
  refine ⟨_, _, rfl, rfl, ?_, ?_, ?_⟩ <;> decide +kernel

/-- the theorems applied to the fixture (all hypotheses are satisfiable together) -/
example : ∃ (j di : Nat) (c : Bytes) (d : Dest),
    ScanEx.cols[j]? = some c ∧ markerIndex c = some 2 ∧ ScanEx.dests[di]? = some d ∧ d.tid = 1 := by
  obtain ⟨j, di, c, d, _, _, _, h1, h2, h3, h4, _⟩ :=
    scan_every_output_assigned ScanEx.get ScanEx.wf (k := 2) rfl
  exact ⟨j, di, c, d, h1, h2, h3, h4⟩

example : ∃ v txt d', ScanEx.row[2]? = some v ∧ ScanEx.dests'[0]? = some d' ∧
    expectedText ScanEx.E ScanEx.tt (.field 0 (ScanEx.b "T") ScanEx.fa) v = some txt ∧
    (Loc.field 0 (ScanEx.b "T") ScanEx.fa).valIn d' = some txt :=
  scan_by_alias ScanEx.get ScanEx.wf (k := 0) (j := 2) (di := 0) (c := ScanEx.b "_sqlair_0")
    rfl rfl (by decide +kernel) ScanEx.last0 rfl rfl

example : expectedText ScanEx.E ScanEx.tt (.mapKey 1 (ScanEx.b "M") (ScanEx.b "k")) (some "5") = some "5" ∧
    expectedText ScanEx.E ScanEx.tt (.field 0 (ScanEx.b "T") ScanEx.fa) none = some "0" ∧
    expectedText ScanEx.E ScanEx.tt (.field 0 (ScanEx.b "T") ScanEx.fp) none = some "<nil>:<nil>" := by
  decide +kernel

/-! ### 7. NULL -/

/-- NULL sets a plain field to its zero value and a pointer field to nil; Scanner fields and
    map elements receive the conversion of NULL -/
theorem null_semantics {E : ScanEnv} {tt : TypeTable} {outputs : List Loc} {cols : List Bytes} {row : List DV}
    {dests dests' : List Dest} (hget : scanGet E tt outputs cols row dests = (dests', none))
    (hwf : WFOut outputs dests) {k j di : Nat} {l : Loc} {c : Bytes} {d : Dest}
    (hk : outputs[k]? = some l) (hj : cols[j]? = some c) (hc : markerIndex c = some k)
    (hlast : ∀ j' c', j < j' → cols[j']? = some c' → markerIndex c' ≠ some k)
    (hnull : row[j]? = some none)
    (hd : dests[di]? = some d) (htid : d.tid = l.tid) :
    ∃ d', dests'[di]? = some d' ∧
      match l with
      | .field tid _ f =>
        match fieldCat tt (fieldTypeOf tt tid f.index true) with
        | .proxy => d'.fieldVal f.index = some (some (E.zeroText (fieldTypeOf tt tid f.index true)))
        | .directPtr _ => d'.fieldVal f.index = some (some E.nilText)
        | .directScanner => ∃ txt, E.conv none (fieldTypeOf tt tid f.index true) = some txt ∧
            d'.fieldVal f.index = some (some txt)
      | .mapKey tid _ key => ∃ txt, E.conv none (tt.get tid).elem = some txt ∧ d'.keyVal key = some txt
      | .slice .. => False := by
  obtain ⟨v, txt, d', hv, hd', hex, hval⟩ := scan_by_alias hget hwf hk hj hc hlast hd htid
  rw [hnull] at hv
  simp only [Option.some.injEq] at hv
  subst hv
  refine ⟨d', hd', ?_⟩
  cases l with
  | slice => simp [expectedText] at hex
  | mapKey tid tn key => exact ⟨txt, hex, hval⟩
  | field tid tn f =>
    simp only [expectedText] at hex
    simp only [Loc.valIn] at hval
    have hfv : d'.fieldVal f.index = some (some txt) := by
      cases h : d'.fieldVal f.index with
      | none => simp [h] at hval
      | some o => cases o with
        | none => simp [h] at hval
        | some x => simp [h] at hval; rw [hval]
    cases hcat : fieldCat tt (fieldTypeOf tt tid f.index true) with
    | proxy =>
      simp only [hcat, Option.some.injEq] at hex ⊢
      rw [hfv, hex]
    | directPtr e =>
      simp only [hcat, Option.some.injEq] at hex ⊢
      rw [hfv, hex]
    | directScanner =>
      simp only [hcat] at hex ⊢
      exact ⟨txt, hex, hfv⟩

/-- the same for a non-NULL value `x`: every kind of member receives the conversion of `x`
    into its type (the element type for pointer fields and map keys) -/
theorem nonnull_semantics {E : ScanEnv} {tt : TypeTable} {outputs : List Loc} {cols : List Bytes} {row : List DV}
    {dests dests' : List Dest} (hget : scanGet E tt outputs cols row dests = (dests', none))
    (hwf : WFOut outputs dests) {k j di : Nat} {l : Loc} {c : Bytes} {d : Dest} {x : String}
    (hk : outputs[k]? = some l) (hj : cols[j]? = some c) (hc : markerIndex c = some k)
    (hlast : ∀ j' c', j < j' → cols[j']? = some c' → markerIndex c' ≠ some k)
    (hx : row[j]? = some (some x))
    (hd : dests[di]? = some d) (htid : d.tid = l.tid) :
    ∃ d' txt, dests'[di]? = some d' ∧
      match l with
      | .field tid _ f =>
        d'.fieldVal f.index = some (some txt) ∧
        match fieldCat tt (fieldTypeOf tt tid f.index true) with
        | .proxy | .directScanner => E.conv (some x) (fieldTypeOf tt tid f.index true) = some txt
        | .directPtr elem => E.conv (some x) elem = some txt
      | .mapKey tid _ key => E.conv (some x) (tt.get tid).elem = some txt ∧ d'.keyVal key = some txt
      | .slice .. => False := by
  obtain ⟨v, txt, d', hv, hd', hex, hval⟩ := scan_by_alias hget hwf hk hj hc hlast hd htid
  rw [hx] at hv
  simp only [Option.some.injEq] at hv
  subst hv
  refine ⟨d', txt, hd', ?_⟩
  cases l with
  | slice => simp [expectedText] at hex
  | mapKey tid tn key => exact ⟨hex, hval⟩
  | field tid tn f =>
    simp only [expectedText] at hex
    simp only [Loc.valIn] at hval
    have hfv : d'.fieldVal f.index = some (some txt) := by
      cases h : d'.fieldVal f.index with
      | none => simp [h] at hval
      | some o => cases o with
        | none => simp [h] at hval
        | some x => simp [h] at hval; rw [hval]
    refine ⟨hfv, ?_⟩
    cases hcat : fieldCat tt (fieldTypeOf tt tid f.index true) <;> simp only [hcat] at hex ⊢ <;> exact hex

/-- `null_semantics` applied to the fixture: plain field `a` (output 0, column 2) and pointer
    field `p` (output 1, column 3) -/
example : ∃ d', ScanEx.dests'[0]? = some d' ∧ d'.fieldVal [0] = some (some "0") := by
  obtain ⟨d', h1, h2⟩ := null_semantics ScanEx.get ScanEx.wf (k := 0) (j := 2) (di := 0)
    (l := .field 0 (ScanEx.b "T") ScanEx.fa) (c := ScanEx.b "_sqlair_0") rfl rfl (by decide +kernel)
    ScanEx.last0 rfl rfl rfl
  exact ⟨d', h1, h2⟩

example : ∃ d', ScanEx.dests'[0]? = some d' ∧ d'.fieldVal [2] = some (some "<nil>:<nil>") := by
  obtain ⟨d', h1, h2⟩ := null_semantics ScanEx.get ScanEx.wf (k := 1) (j := 3) (di := 0)
    (l := .field 0 (ScanEx.b "T") ScanEx.fp) (c := ScanEx.b "_sqlair_1") rfl rfl (by decide +kernel)
    ScanEx.last1 rfl rfl rfl
  exact ⟨d', h1, h2⟩

/-- non-vacuity of `null_semantics`: the fixture has a NULL for the plain field `a` (zero value
    `"0"`), for the pointer field `p` (`nilText`); with an all-NULL row the map key receives the
    conversion of NULL -/
example : scanGet ScanEx.E ScanEx.tt ScanEx.outputs ScanEx.cols [none, none, none, none] ScanEx.dests =
    ([{ form := .ptrStruct, tid := 0, fields := [([0], some "0"), ([1], some "7"), ([2], some "<nil>:<nil>")] },
      { form := .mapVal, tid := 1, keys := [(ScanEx.b "z", "old"), (ScanEx.b "k", "NULL")] }], none) := by
  decide +kernel

/-- complement of `scan_error_before_scan_leaves_dests`: an error of `Get` that does not come
    from `ScanArgs` is a failure of `Rows.Scan` itself (a conversion failure or a short row);
    only then can earlier *direct* targets already have been written, as with database/sql -/
theorem scan_error_cases (E : ScanEnv) (tt : TypeTable) (outputs : List Loc) (cols : List Bytes) (row : List DV)
    (dests dests' : List Dest) (e : String) (h : scanGet E tt outputs cols row dests = (dests', some e)) :
    (scanArgs tt outputs cols dests = .error e ∧ dests' = dests) ∨
    ((∃ ts, scanArgs tt outputs cols dests = .ok ts) ∧ (e = "row-too-short" ∨ e = "conversion")) :=
  scanGet_error_cases E tt outputs cols row dests dests' e h

/-- the error classes of `ScanArgs` -/
theorem scanArgs_error_classes {tt : TypeTable} {outputs : List Loc} {cols : List Bytes} {dests : List Dest}
    {e : String} (h : scanArgs tt outputs cols dests = .error e) :
    e ∈ ["nil-argument", "nil-pointer", "nil-map", "need-map-or-pointer", "need-map-or-pointer-to-struct",
      "pointer-to-nil-map", "type-provided-twice", "too-few-columns", "internal-column-not-in-outputs",
      "slice-output", "value-missing", "nil-embedded-pointer", "column-missing", "destination-not-used"] :=
  scanArgs_error_mem h

/-! ### 6. missing columns and unused destinations -/

/-- if some output has no column carrying its alias, `ScanArgs` fails -/
theorem missing_column_error (tt : TypeTable) (outputs : List Loc) (cols : List Bytes) (dests : List Dest)
    {k : Nat} (hk : k < outputs.length) (hmiss : ∀ c ∈ cols, markerIndex c ≠ some k) :
    ∃ e, scanArgs tt outputs cols dests = .error e := by
  cases h : scanArgs tt outputs cols dests with
  | error e => exact ⟨e, rfl⟩
  | ok ts =>
    obtain ⟨m, _, _, _, hall, _⟩ := (scanArgs_ok_iff ..).mp h
    obtain ⟨c, hc, hmi⟩ := hall k hk
    exact absurd hmi (hmiss c hc)

/-- the checks of `ScanArgs` that come before "column-missing": the destinations are valid
    (`validateOutputs` builds the type-to-destination map `m`), there are at least as many
    columns as outputs, and every column that is an alias is the alias of an output whose
    member can be located in the destinations -/
def EarlierChecksPass (tt : TypeTable) (outputs : List Loc) (cols : List Bytes) (dests : List Dest)
    (m : List (Nat × Nat)) : Prop :=
  validateOutputs dests [] 0 = .ok m ∧ outputs.length ≤ cols.length ∧
  ∀ c ∈ cols, ∀ k, markerIndex c = some k → ∃ l t, outputs[k]? = some l ∧ locateTarget tt dests m l = .ok t

theorem earlierChecksPass_iff (tt : TypeTable) (outputs : List Loc) (cols : List Bytes) (dests : List Dest)
    (m : List (Nat × Nat)) :
    EarlierChecksPass tt outputs cols dests m ↔
      (validateOutputs dests [] 0 = .ok m ∧ outputs.length ≤ cols.length ∧
        ∀ c ∈ cols, ∃ t, colTarget tt outputs dests m c = .ok t) := by
  have conv : (∀ c ∈ cols, ∃ t, colTarget tt outputs dests m c = .ok t) ↔
      (∀ c ∈ cols, ∀ k, markerIndex c = some k → ∃ l t, outputs[k]? = some l ∧ locateTarget tt dests m l = .ok t) := by
    constructor
    · intro h c hc k hmi
      obtain ⟨t, ht⟩ := h c hc
      unfold colTarget at ht
      rw [hmi] at ht
      simp only at ht
      cases hout : outputs[k]? with
      | none => rw [hout] at ht; cases ht
      | some l => rw [hout] at ht; exact ⟨l, t, rfl, ht⟩
    · intro h c hc
      unfold colTarget
      cases hmi : markerIndex c with
      | none => exact ⟨_, rfl⟩
      | some k =>
        obtain ⟨l, t, hl, ht⟩ := h c hc k hmi
        exact ⟨t, by simp only [hl, ht]⟩
  unfold EarlierChecksPass
  rw [conv]

/-- … and the error is "column-missing" exactly when the earlier checks pass -/
theorem column_missing_iff (tt : TypeTable) (outputs : List Loc) (cols : List Bytes) (dests : List Dest) :
    scanArgs tt outputs cols dests = .error "column-missing" ↔
      ∃ m, EarlierChecksPass tt outputs cols dests m ∧
        ∃ k, k < outputs.length ∧ ∀ c ∈ cols, markerIndex c ≠ some k := by
  rw [scanArgs_column_missing_iff]
  constructor
  · rintro ⟨m, h1, h2, h3, h4⟩; exact ⟨m, (earlierChecksPass_iff ..).mpr ⟨h1, h2, h3⟩, h4⟩
  · rintro ⟨m, h, h4⟩
    obtain ⟨h1, h2, h3⟩ := (earlierChecksPass_iff ..).mp h
    exact ⟨m, h1, h2, h3, h4⟩

/-- if the type of some destination is not the type of any output whose alias is a column,
    `ScanArgs` fails -/
theorem unused_destination_error (tt : TypeTable) (outputs : List Loc) (cols : List Bytes) (dests : List Dest)
    {d : Dest} (hd : d ∈ dests)
    (hun : ∀ c ∈ cols, ∀ k l, markerIndex c = some k → outputs[k]? = some l → l.tid ≠ d.tid) :
    ∃ e, scanArgs tt outputs cols dests = .error e := by
  cases h : scanArgs tt outputs cols dests with
  | error e => exact ⟨e, rfl⟩
  | ok ts =>
    obtain ⟨m, hv, _, _, _, hused, _⟩ := (scanArgs_ok_iff ..).mp h
    have hm := validMap_of_ok hv
    obtain ⟨di, hlt, hdi⟩ := List.mem_iff_getElem.mp hd
    have hmem : (d.tid, di) ∈ m := by
      rw [hm.eq, mem_idxMap]
      exact ⟨d, by rw [List.getElem?_eq_getElem hlt, hdi], rfl⟩
    obtain ⟨c, hc, l, hl, ht⟩ := hused _ hmem
    unfold colOutput at hl
    cases hmi : markerIndex c with
    | none => rw [hmi] at hl; cases hl
    | some k =>
      rw [hmi] at hl
      exact absurd ht (hun c hc k l hmi hl)

/-- … and the error is "destination-not-used" exactly when the earlier checks pass and every
    output has its column -/
theorem destination_not_used_iff (tt : TypeTable) (outputs : List Loc) (cols : List Bytes) (dests : List Dest) :
    scanArgs tt outputs cols dests = .error "destination-not-used" ↔
      ∃ m, EarlierChecksPass tt outputs cols dests m ∧
        (∀ k, k < outputs.length → ∃ c ∈ cols, markerIndex c = some k) ∧
        ∃ d ∈ dests, ∀ c ∈ cols, ∀ k l, markerIndex c = some k → outputs[k]? = some l → l.tid ≠ d.tid := by
  rw [scanArgs_destination_not_used_iff]
  have conv : ∀ d : Dest, (∀ c ∈ cols, ∀ l, colOutput outputs c = some l → l.tid ≠ d.tid) ↔
      (∀ c ∈ cols, ∀ k l, markerIndex c = some k → outputs[k]? = some l → l.tid ≠ d.tid) := by
    intro d
    constructor
    · intro h c hc k l hmi hl
      exact h c hc l (by simp [colOutput, hmi, hl])
    · intro h c hc l hl
      unfold colOutput at hl
      cases hmi : markerIndex c with
      | none => rw [hmi] at hl; cases hl
      | some k => rw [hmi] at hl; exact h c hc k l hmi hl
  constructor
  · rintro ⟨m, h1, h2, h3, h4, d, hd, h5⟩
    exact ⟨m, (earlierChecksPass_iff ..).mpr ⟨h1, h2, h3⟩, h4, d, hd, (conv d).mp h5⟩
  · rintro ⟨m, h, h4, d, hd, h5⟩
    obtain ⟨h1, h2, h3⟩ := (earlierChecksPass_iff ..).mp h
    exact ⟨m, h1, h2, h3, h4, d, hd, (conv d).mpr h5⟩

/-- the theorems applied: without a column for output 1, and with an extra destination -/
example : ∃ e, scanArgs ScanEx.tt ScanEx.outputs [ScanEx.b "_sqlair_2", ScanEx.b "x", ScanEx.b "_sqlair_0"]
    ScanEx.dests = .error e :=
  missing_column_error _ _ _ _ (k := 1) (by decide) (by decide +kernel)

example : ∃ e, scanArgs ScanEx.tt ScanEx.outputs ScanEx.cols
    (ScanEx.dests ++ [{ form := .ptrStruct, tid := 5, fields := [] }]) = .error e :=
  unused_destination_error _ _ _ _ (d := { form := .ptrStruct, tid := 5, fields := [] }) (by simp) (by
    intro c hc k l hmi hout
    have hk : k < 3 := (List.getElem?_eq_some_iff.mp hout).1
    match k, hk, hout with
    | 0, _, h => cases h; decide
    | 1, _, h => cases h; decide
    | 2, _, h => cases h; decide)

/-- non-vacuity: a missing column, and an extra destination (of type 5) that no output uses -/
example : (scanGet ScanEx.E ScanEx.tt ScanEx.outputs [ScanEx.b "_sqlair_2", ScanEx.b "x", ScanEx.b "_sqlair_0"]
    ScanEx.row ScanEx.dests).2 = some "column-missing" := by decide +kernel

example : (scanGet ScanEx.E ScanEx.tt ScanEx.outputs ScanEx.cols ScanEx.row
    (ScanEx.dests ++ [{ form := .ptrStruct, tid := 5, fields := [] }])).2 = some "destination-not-used" := by
  decide +kernel

/-! ### 4. the order of the columns does not matter -/

/-- if the scan of `(cols, row)` succeeds and no alias occurs twice, then the scan of any
    permutation `(cols', row')` of the (column, value) pairs — foreign columns included —
    succeeds too and yields the same store: the same number of destinations, each with the same
    form, type and *identical* struct fields, and the same map content; the association lists
    of the map keys are permutations of each other (`StoreEquiv`), they need not be equal
    because new keys are appended in scan order (see `scan_perm_order_can_differ`) — Go maps
    are unordered, so this is equality of the Go values -/
theorem scan_perm_invariant {E : ScanEnv} {tt : TypeTable} {outputs : List Loc} {cols cols' : List Bytes}
    {row row' : List DV} {dests dests' : List Dest}
    (hget : scanGet E tt outputs cols row dests = (dests', none))
    (hwf : WFOut outputs dests)
    (hnodup : (cols.filterMap markerIndex).Nodup)
    (hperm : (cols.zip row).Perm (cols'.zip row'))
    (hlen' : cols'.length ≤ row'.length) :
    ∃ dests'', scanGet E tt outputs cols' row' dests = (dests'', none) ∧
      StoreEquiv dests' dests'' ∧
      ∀ (i : Nat) (d' d'' : Dest), dests'[i]? = some d' → dests''[i]? = some d'' →
        d'.fields = d''.fields ∧ ∀ key, d'.keyVal key = d''.keyVal key := by
  obtain ⟨dests'', hget', heq⟩ := scan_perm_core hget hwf.1 hnodup hperm hlen'
  refine ⟨dests'', hget', heq, ?_⟩
  intro i d' d'' hd' hd''
  obtain ⟨_, _, hf, hk⟩ := heq.2 i d' d'' hd' hd''
  refine ⟨hf, ?_⟩
  obtain ⟨m, _, _, _, _, _, _, _, hfin⟩ := (scanGet_ok_unfold ..).mp hget
  have hn := applyWrites_keys_nodup _ dests (fun d hd => (hwf.2 d hd).2) d'
    (by rw [← hfin]; exact List.mem_of_getElem? hd')
  exact keyVal_perm hk hn

/-- non-vacuity: all hypotheses hold of the fixture and its permutation -/
example : ∃ dests'', scanGet ScanEx.E ScanEx.tt ScanEx.outputs ScanEx.cols' ScanEx.row' ScanEx.dests = (dests'', none) ∧
    StoreEquiv ScanEx.dests' dests'' := by
  obtain ⟨d, h1, h2, _⟩ :=
    scan_perm_invariant (cols' := ScanEx.cols') (row' := ScanEx.row') ScanEx.get ScanEx.wf
      (by decide +kernel) (by decide +kernel) (by decide)
  exact ⟨d, h1, h2⟩

example : scanGet ScanEx.E ScanEx.tt ScanEx.outputs ScanEx.cols' ScanEx.row' ScanEx.dests = (ScanEx.dests', none) := by
  decide +kernel

/-- the association lists themselves can differ: two new keys of the same map are inserted in
    column order -/
theorem scan_perm_order_can_differ :
    let outputs : List Loc := [.mapKey 1 (ScanEx.b "M") (ScanEx.b "k"), .mapKey 1 (ScanEx.b "M") (ScanEx.b "j")]
    let dests : List Dest := [{ form := .mapVal, tid := 1 }]
    (scanGet ScanEx.E ScanEx.tt outputs [ScanEx.b "_sqlair_0", ScanEx.b "_sqlair_1"] [some "1", some "2"] dests).1 ≠
    (scanGet ScanEx.E ScanEx.tt outputs [ScanEx.b "_sqlair_1", ScanEx.b "_sqlair_0"] [some "2", some "1"] dests).1 := by
  decide +kernel

/-! ### 1. markers -/

/-- the generated alias `_sqlair_<n>` (n < 2^63) is marker `n`, and only these names are
    markers: no sign, no leading zeros, no other prefix, nothing after the digits -/
theorem markerIndex_markerName :
    (∀ n, n < 2 ^ 63 → markerIndex ("_sqlair_" ++ toString n).toUTF8.data = some n) ∧
    (∀ col n, markerIndex col = some n → col = ("_sqlair_" ++ toString n).toUTF8.data) :=
  ⟨fun n h => markerIndex_markerName_aux n h, fun _ _ h => markerIndex_eq_some h⟩

/-- as an equivalence (`markerName n` is `("_sqlair_" ++ toString n).toUTF8.data`) -/
theorem markerIndex_eq_some_iff (col : Bytes) (n : Nat) :
    markerIndex col = some n ↔ col = ("_sqlair_" ++ toString n).toUTF8.data ∧ n < 2 ^ 63 :=
  markerIndex_iff col n

example : markerIndex (ScanEx.b "_sqlair_10") = some 10 ∧ markerIndex (ScanEx.b "_sqlair_0") = some 0 ∧
    markerIndex (ScanEx.b "_sqlair_01") = none ∧ markerIndex (ScanEx.b "_sqlair_+1") = none ∧
    markerIndex (ScanEx.b "_sqlair_-1") = none ∧ markerIndex (ScanEx.b "_sqlair_") = none ∧
    markerIndex (ScanEx.b "sqlair_1") = none ∧ markerIndex (ScanEx.b "_sqlair_1x") = none ∧
    markerIndex (ScanEx.b "_sqlair_9223372036854775807") = some 9223372036854775807 ∧
    markerIndex (ScanEx.b "_sqlair_9223372036854775808") = none := by
  decide +kernel

end Sqlair
