/-
  GetAllArgs: the argument validation of Query.GetAll (pointer to slice of structs, struct
  pointers or maps) in front of the row loop modelled in Runtime.lean.  The element kind is
  only looked at when the first row arrives (observation O4 of DESIGN §6).
-/
import SqlairModel.Runtime

namespace Sqlair.Rt

/-- what reflection sees of one GetAll argument -/
inductive SliceArg where
  | ok            -- *[]T, *[]*T, *[]M
  | notPointer    -- e.g. a slice by value
  | nilPointer    -- (*[]T)(nil)
  | notSlice      -- pointer to something that is not a slice
  | badElem       -- pointer to a slice whose element kind is not struct / *struct / map
deriving DecidableEq, Repr, Inhabited

def SliceArg.rejectedUpFront : SliceArg → Bool
  | .notPointer | .nilPointer | .notSlice => true
  | _ => false

/-- `Query.GetAll` including its argument checks -/
def queryGetAllArgs (s : Script) (args : List SliceArg) (destsValid : Bool) (w : World) : GetAllResult × World :=
  if !s.hasOutputs && args.length > 0 then ({ err := some (.sqlair "outputs-not-referenced") }, w) else
  if args.any SliceArg.rejectedUpFront then ({ err := some (.sqlair "getall-args") }, w) else
  if args.contains .badElem then
    -- the element kind is checked inside the loop, after the first successful Next
    let (it, w) := iterOpen s w
    let (it, w, more) := it.next w
    if more then
      let (_, w, _) := it.close w
      ({ err := some (.sqlair "getall-elem") }, w)
    else
      let (_, w, cerr) := it.close w
      match cerr with
      | some e => ({ err := some e }, w)
      | none => if s.hasOutputs then ({ err := some .noRows }, w) else ({ err := none }, w)
  else queryGetAll s args.length destsValid w

end Sqlair.Rt
