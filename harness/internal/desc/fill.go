package desc

import (
	"fmt"
	"reflect"
	"strings"

	"verifharness/internal/rng"
)

// Filler builds random values of arbitrary types; leaf values are pairwise distinct so
// that a value identifies its source.
type Filler struct {
	R    *rng.R
	N    int
	Keys []string // keys to put into string-keyed maps
}

func (f *Filler) next() int { f.N++; return f.N }

// Fill returns a settable value of type t.
func (f *Filler) Fill(t reflect.Type, depth int) reflect.Value {
	v := reflect.New(t).Elem()
	f.fillInto(v, depth, false)
	return v
}

func (f *Filler) fillInto(v reflect.Value, depth int, embeddedPtr bool) {
	if !v.CanSet() {
		return
	}
	t := v.Type()
	zero := f.R.Chance(1, 4)
	switch t.Kind() {
	case reflect.Int, reflect.Int16, reflect.Int32, reflect.Int64:
		if !zero {
			v.SetInt(int64(f.next()))
		}
	case reflect.Int8:
		if !zero {
			v.SetInt(int64(f.next()%120 + 1))
		}
	case reflect.Uint, reflect.Uint8, reflect.Uint16, reflect.Uint32, reflect.Uint64:
		if !zero {
			v.SetUint(uint64(f.next()%250 + 1))
		}
	case reflect.String:
		if !zero {
			v.SetString(fmt.Sprintf("s%d", f.next()))
		}
	case reflect.Bool:
		v.SetBool(f.R.Chance(1, 2))
	case reflect.Float32, reflect.Float64:
		if !zero {
			v.SetFloat(float64(f.next()) + 0.5)
		}
	case reflect.Pointer:
		if zero && !(embeddedPtr && f.R.Chance(1, 2)) || depth > 6 {
			return
		}
		p := reflect.New(t.Elem())
		f.fillInto(p.Elem(), depth+1, false)
		v.Set(p)
	case reflect.Interface:
		if t.NumMethod() != 0 {
			return
		}
		switch f.R.Intn(4) {
		case 0:
		case 1:
			v.Set(reflect.ValueOf(int64(f.next())))
		case 2:
			v.Set(reflect.ValueOf(fmt.Sprintf("a%d", f.next())))
		default:
			v.Set(reflect.ValueOf(float64(f.next()) + 0.25))
		}
	case reflect.Struct:
		if zero && depth > 0 && f.R.Chance(1, 2) {
			return // a member of struct kind left entirely zero
		}
		for i := 0; i < t.NumField(); i++ {
			sf := t.Field(i)
			f.fillInto(v.Field(i), depth+1, sf.Anonymous && sf.Type.Kind() == reflect.Pointer)
		}
	case reflect.Map:
		if t.Key().Kind() != reflect.String {
			v.Set(reflect.MakeMap(t))
			return
		}
		m := reflect.MakeMap(t)
		keys := append([]string{}, f.Keys...)
		if f.R.Chance(1, 3) {
			keys = append(keys, fmt.Sprintf("extra%d", f.next()))
		}
		for _, k := range keys {
			if f.R.Chance(1, 12) {
				continue // a missing key
			}
			ev := reflect.New(t.Elem()).Elem()
			f.fillInto(ev, depth+1, false)
			m.SetMapIndex(reflect.ValueOf(k).Convert(t.Key()), ev)
		}
		v.Set(m)
	case reflect.Slice:
		if t.Elem().Kind() == reflect.Uint8 {
			if !zero {
				v.SetBytes([]byte(fmt.Sprintf("b%d", f.next())))
			} else if f.R.Chance(1, 2) {
				v.SetBytes([]byte{}) // empty but not nil: not the zero value, not NULL
			}
			return
		}
		n := f.R.Intn(4)
		s := reflect.MakeSlice(t, n, n)
		for i := 0; i < n; i++ {
			f.fillInto(s.Index(i), depth+1, false)
		}
		v.Set(s)
	}
}

// HarmoniseOmitEmpty makes, with probability 2/3 per member, every omitempty member of a
// slice of structs (or pointers to structs) all-zero or all-non-zero.
func (f *Filler) HarmoniseOmitEmpty(s reflect.Value) {
	if s.Len() < 2 {
		return
	}
	et := s.Type().Elem()
	ptr := et.Kind() == reflect.Pointer
	if ptr {
		et = et.Elem()
	}
	if et.Kind() != reflect.Struct {
		return
	}
	elem := func(i int) reflect.Value {
		e := s.Index(i)
		if ptr {
			if e.IsNil() {
				return reflect.Value{}
			}
			return e.Elem()
		}
		return e
	}
	for fi := 0; fi < et.NumField(); fi++ {
		if !strings.Contains(et.Field(fi).Tag.Get("db"), "omitempty") || !f.R.Chance(2, 3) {
			continue
		}
		e0 := elem(0)
		if !e0.IsValid() {
			return
		}
		z := e0.Field(fi).IsZero()
		for i := 1; i < s.Len(); i++ {
			e := elem(i)
			if !e.IsValid() {
				continue
			}
			fv := e.Field(fi)
			if z {
				fv.Set(reflect.Zero(fv.Type()))
			} else {
				for k := 0; k < 20 && fv.IsZero(); k++ {
					f.fillInto(fv, 1, false)
				}
			}
		}
	}
}
