/-
  A sequential `run` of a query whose generated SQL is what the cache holds for its
  (statement, DB) slot: it reuses the prepared statement.
-/
import SqlairProofs.Cache.IterClose

namespace Sqlair.Cache

/-- the operation table after a complete sequential run of operation `t` that hit `id` -/
def opsAfterHit (ops : List (Nat × Op)) (t s d q id : Nat) : List (Nat × Op) :=
  ainsert (ainsert (ainsert ops t { s := s, d := d, sql := q }) t { s := s, d := d, sql := q, pc := .ready id })
    t { s := s, d := d, sql := q, pc := .done }

theorem sequential_reuse_run {st : St} (hi : Inv st) {s d id q t : Nat} {x : DStmt}
    (hl : lookup2 st.stmtDB s d = some id) (hx : st.getDS id = some x) (hq : x.sql = q)
    (hs : s ∈ st.liveS) (hd : d ∈ st.liveD) (ht : st.getOp t = none) :
    run st [.query t s d q, .lookup t, .prepare t, .insert t, .exec t none] =
      { st with ops := opsAfterHit st.ops t s d q id, log := st.log ++ [.exec id d q] } := by
  obtain ⟨y, hy, hdb, hcc, _⟩ := hi.cache.ok s d id hl
  rw [getDS_eq] at hx
  rw [hx] at hy; cases hy
  rw [getOp_eq] at ht
  let ops1 := ainsert st.ops t { s := s, d := d, sql := q }
  let ops2 := ainsert ops1 t { s := s, d := d, sql := q, pc := .ready id }
  have h1 : step st (.query t s d q) = some { st with ops := ops1 } := by
    simp [step, hs, hd, getOp_eq, ht, setOp_eq, ops1]
  have h2 : step { st with ops := ops1 } (.lookup t) = some { st with ops := ops2 } := by
    simp [step, getOp_eq, alook_ainsert, hl, getDS_eq, hx, hq, setOp_eq, ops1, ops2]
  have h3 : step { st with ops := ops2 } (.prepare t) = none := by
    simp [step, getOp_eq, alook_ainsert, ops2]
  have h4 : step { st with ops := ops2 } (.insert t) = none := by
    simp [step, getOp_eq, alook_ainsert, ops2]
  have h5 : step { st with ops := ops2 } (.exec t none) =
      some { st with ops := opsAfterHit st.ops t s d q id, log := st.log ++ [.exec id d q] } := by
    simp [step, getOp_eq, alook_ainsert, getDS_eq, hx, hcc, setOp_eq, St.emit, hdb, hq, ops1, ops2, opsAfterHit]
  simp only [run, List.foldl_cons, List.foldl_nil, h1, h2, h3, h4, h5, Option.getD_some, Option.getD_none]

end Sqlair.Cache
