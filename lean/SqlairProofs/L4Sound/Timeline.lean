/-
  L4Sound, the transaction's timeline: closed forms of the phases before and after the
  operation, and the events / connections / finisher results of the predicted observation in
  the three scenarios (no transaction; transaction ended before the operation; after it).
-/
import SqlairProofs.L4Sound.Mid

namespace Sqlair.Rt

/-! ### finisher sequences -/

theorem l4s_runFinishers_nil (tx : TX) (w : World) : runFinishers [] tx w = (tx, w, []) := rfl

theorem l4s_runFinishers_cons (f : String) (rest : List String) (w : World) :
    runFinishers (f :: rest) {} w =
      ({ done := true }, { log := w.log ++ [finEv (f == "commit")], inUse := w.inUse - 1 },
       "" :: rest.map fun _ => "txDone") := by
  rw [runFinishers_eq_runFinish, List.map_cons, runFinish_fresh rfl]
  simp [renderOpt, Err.render]

theorem l4s_finEv_render_isFinisher (b : Bool) : isFinisher (finEv b).render = true := by
  cases b <;> decide

/-! ### the scenarios -/

/-- the transaction is ended after the operation -/
def Case.l4s_isLate (c : Case) : Bool := c.onTx && c.txEnd == "after"

theorem l4s_early_not_late {c : Case} (h : c.l4s_isEarly = true) : c.l4s_isLate = false := by
  unfold Case.l4s_isEarly at h
  unfold Case.l4s_isLate
  simp only [Bool.and_eq_true, Bool.or_eq_true, beq_iff_eq] at h
  rcases h.2 with h2 | h2 <;> simp [h2]

/-- the transaction is over when the operation starts -/
def Case.l4s_td (c : Case) : Bool := (l4s_pre c).1.done
/-- the world in which the operation starts -/
def l4s_w1 (c : Case) : World := (l4s_pre c).2.1
/-- the operation proper of the case -/
def l4s_m (c : Case) : Pred × World := l4s_mid c c.l4s_td (l4s_w1 c)

theorem l4s_predictSingle_eq (c : Case) :
    l4s_predictSingle c =
      { (l4s_m c).1 with
        log := (l4s_post c (l4s_pre c).1 (l4s_m c).2).2.1.log,
        inUse := (l4s_post c (l4s_pre c).1 (l4s_m c).2).2.1.inUse,
        finish := (l4s_pre c).2.2 ++ (l4s_post c (l4s_pre c).1 (l4s_m c).2).2.2 } := rfl

/-- not early: nothing happens before the operation -/
theorem l4s_pre_not_early {c : Case} (h : c.l4s_isEarly = false) : l4s_pre c = ({}, l4s_w0 c, []) := by
  unfold Case.l4s_isEarly at h
  unfold l4s_pre
  simp [h]

theorem l4s_w0_tx {c : Case} (h : c.onTx = true) : l4s_w0 c = { log := [.begin], inUse := 1 } := by
  simp [l4s_w0, h]

theorem l4s_w0_notTx {c : Case} (h : c.onTx = false) : l4s_w0 c = {} := by
  simp [l4s_w0, h]

/-- early, sequential finishers -/
theorem l4s_pre_early_seq {c : Case} (h : c.l4s_isEarly = true) (hc : c.concurrent = 0) {f : String}
    {rest : List String} (hf : c.finishers = f :: rest) :
    l4s_pre c = ({ done := true }, { log := [.begin, finEv (f == "commit")], inUse := 0 },
      "" :: rest.map fun _ => "txDone") := by
  have htx : c.onTx = true := by
    unfold Case.l4s_isEarly at h; simp only [Bool.and_eq_true] at h; exact h.1
  unfold Case.l4s_isEarly at h
  unfold l4s_pre
  simp [h, hc, hf, l4s_runFinishers_cons, l4s_w0_tx htx]

/-- early, concurrent finishers -/
theorem l4s_pre_early_conc {c : Case} (h : c.l4s_isEarly = true) (hc : c.concurrent > 0) :
    l4s_pre c = ({ done := true }, { log := [.begin], inUse := 0 }, []) := by
  have htx : c.onTx = true := by
    unfold Case.l4s_isEarly at h; simp only [Bool.and_eq_true] at h; exact h.1
  have hc0 : (c.concurrent == 0) = false := by simp; omega
  unfold Case.l4s_isEarly at h
  unfold l4s_pre
  simp [h, hc, hc0, l4s_w0_tx htx]

/-! ### after the operation -/

theorem l4s_post_not_late {c : Case} (h : c.l4s_isLate = false) (tx1 : TX) (w2 : World) :
    l4s_post c tx1 w2 = (tx1, w2, []) := by
  unfold Case.l4s_isLate at h
  unfold l4s_post
  simp [h]

theorem l4s_post_conc {c : Case} (hc : c.concurrent > 0) (tx1 : TX) (w2 : World) :
    l4s_post c tx1 w2 = (tx1, w2, []) := by
  have hc0 : (c.concurrent == 0) = false := by simp; omega
  unfold l4s_post
  simp [hc0]

theorem l4s_post_beginCancel {c : Case} (h : c.l4s_isLate = true) (hc : c.concurrent = 0)
    (hb : c.beginCancel = true) (tx1 : TX) (w2 : World) :
    l4s_post c tx1 w2 =
      (tx1, { log := w2.log ++ [.rollback], inUse := w2.inUse - 1 }, c.finishers.map fun _ => "txDone") := by
  unfold Case.l4s_isLate at h
  unfold l4s_post
  simp [h, hc, hb, World.emit]

theorem l4s_post_seq {c : Case} (h : c.l4s_isLate = true) (hc : c.concurrent = 0)
    (hb : c.beginCancel = false) {f : String} {rest : List String} (hf : c.finishers = f :: rest) (w2 : World) :
    l4s_post c {} w2 =
      ({ done := true }, { log := w2.log ++ [finEv (f == "commit")], inUse := w2.inUse - 1 },
       "" :: rest.map fun _ => "txDone") := by
  unfold Case.l4s_isLate at h
  unfold l4s_post
  simp [h, hc, hb, hf, l4s_runFinishers_cons]

end Sqlair.Rt
