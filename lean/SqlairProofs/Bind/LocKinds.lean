import SqlairProofs.Bind.Tag
import SqlairProofs.Bind.LocDefs
/-
  Bind/LocKinds: the input locators produced by `bindTypes` are well-kinded
  (`bindTypes_inputLocs_kindOK`): a `.field` locator names a struct type, a `.mapKey`
  locator a map type, a `.slice` locator a named slice type.
-/

namespace Sqlair

/-! ### infos are well-kinded -/

/-- the type id of an info has the kind its constructor promises; slices are named -/
def InfoKindOK (tt : TypeTable) : ArgInfo → Prop
  | .struct tid _ _ _ => (tt.get tid).kind = .struct
  | .map tid _ => (tt.get tid).kind = .map
  | .slice tid _ => (tt.get tid).kind = .slice ∧ (tt.get tid).name.size ≠ 0

def InfosKindOK (tt : TypeTable) (infos : List (Bytes × ArgInfo)) : Prop :=
  ∀ p ∈ infos, InfoKindOK tt p.2

theorem getArgInfo_kindOK {C : Cls} {tt : TypeTable} {tid : Nat} {info : ArgInfo}
    (h : getArgInfo C tt tid = .ok info) (hn : (tt.get tid).name.size ≠ 0) : InfoKindOK tt info := by
  unfold getArgInfo at h
  simp only [] at h
  split at h
  · rename_i hk
    split at h
    · cases h
    · cases h; exact hk
  · rename_i hk
    split at h
    · cases h
    · split at h
      · cases h
      · cases h; exact hk
  · rename_i hk
    cases h; exact ⟨hk, hn⟩
  · cases h

theorem generateArgInfo_kindOK {C : Cls} {tt : TypeTable} :
    ∀ (samples : List (Option Nat)) (acc infos : List (Bytes × ArgInfo)),
    generateArgInfo C tt samples acc = .ok infos → InfosKindOK tt acc → InfosKindOK tt infos := by
  intro samples
  induction samples with
  | nil => intro acc infos h hacc; simp only [generateArgInfo] at h; cases h; exact hacc
  | cons smp rest ih =>
    intro acc infos h hacc
    cases smp with
    | none => simp only [generateArgInfo] at h; cases h
    | some tid =>
      simp only [generateArgInfo] at h
      split at h
      all_goals first | (cases h; done) | skip
      all_goals
        split at h
        · cases h
        · rename_i hsz
          simp only [beq_iff_eq] at hsz
          split at h
          · cases h
          · rename_i info hg
            split at h
            · cases h
            · refine ih _ _ h ?_
              intro p hm
              rcases List.mem_append.1 hm with hm | hm
              · exact hacc p hm
              · simp only [List.mem_singleton] at hm
                subst hm
                exact getArgInfo_kindOK hg hsz

/-! ### locators returned by the infos -/

theorem getMember_kindOK {tt : TypeTable} {a : ArgInfo} (ha : InfoKindOK tt a) {m : Bytes} {l : Loc}
    (h : a.getMember m = .ok l) : l.kindOK tt := by
  unfold ArgInfo.getMember at h
  split at h
  · split at h
    · cases h; exact ha
    · cases h
  · cases h; exact ha
  · cases h

theorem getAll_kindOK {tt : TypeTable} {a : ArgInfo} (ha : InfoKindOK tt a)
    {ms : List (Loc × Bytes)} (h : a.getAll = .ok ms) : ∀ p ∈ ms, p.1.kindOK tt := by
  unfold ArgInfo.getAll at h
  split at h
  · split at h
    · cases h
    · cases h
      intro p hp
      simp only [List.mem_filterMap, Option.map_eq_some_iff] at hp
      obtain ⟨t, _, f, _, rfl⟩ := hp
      exact ha
  · cases h
  · cases h

theorem getSlice_kindOK {tt : TypeTable} {a : ArgInfo} (ha : InfoKindOK tt a) {l : Loc}
    (h : a.getSlice = .ok l) : l.kindOK tt := by
  unfold ArgInfo.getSlice at h
  split at h
  · cases h; exact ha
  · cases h
  · cases h

theorem getArg_kindOK {tt : TypeTable} {st st' : TEB} {n : Bytes} {a : ArgInfo}
    (hi : InfosKindOK tt st.argInfos) (h : getArg st n = .ok (a, st')) : InfoKindOK tt a := by
  obtain ⟨_, _, _, k, hk⟩ := getArg_ok h
  exact hi (k, a) hk

theorem inputMember_kindOK {tt : TypeTable} {st st' : TEB} {ty m : Bytes} {l : Loc}
    (hi : InfosKindOK tt st.argInfos) (h : inputMember st ty m = .ok (l, st')) : l.kindOK tt := by
  unfold inputMember at h
  split at h
  · cases h
  · rename_i a st1 hg
    split at h
    · cases h
    · rename_i l' hm
      cases h
      exact getMember_kindOK (getArg_kindOK hi hg) hm

theorem allStructInputs_kindOK {tt : TypeTable} {st st' : TEB} {ty : Bytes} {ms : List (Loc × Bytes)}
    (hi : InfosKindOK tt st.argInfos) (h : allStructInputs st ty = .ok (ms, st')) :
    ∀ p ∈ ms, p.1.kindOK tt := by
  unfold allStructInputs at h
  split at h
  · cases h
  · rename_i a st1 hg
    split at h
    · cases h
    · rename_i l' hm
      cases h
      exact getAll_kindOK (getArg_kindOK hi hg) hm

/-! ### the insert loops -/

def TColsKindOK (tt : TypeTable) (cols : List TCol) : Prop :=
  ∀ loc column e, TCol.insert loc column e ∈ cols → loc.kindOK tt

theorem TColsKindOK.nil {tt : TypeTable} : TColsKindOK tt [] := by
  intro _ _ _ h; cases h

theorem TColsKindOK.append {tt : TypeTable} {a b : List TCol} (ha : TColsKindOK tt a)
    (hb : TColsKindOK tt b) : TColsKindOK tt (a ++ b) := by
  intro loc column e h
  rcases List.mem_append.1 h with h | h
  · exact ha _ _ _ h
  · exact hb _ _ _ h

theorem TColsKindOK.single_insert {tt : TypeTable} {l : Loc} {c : Bytes} {e : Bool}
    (h : l.kindOK tt) : TColsKindOK tt [TCol.insert l c e] := by
  intro loc column e' hm
  simp only [List.mem_singleton, TCol.insert.injEq] at hm
  obtain ⟨rfl, _, _⟩ := hm
  exact h

theorem TColsKindOK.single_literal {tt : TypeTable} {c t : Bytes} :
    TColsKindOK tt [TCol.literal c t] := by
  intro loc column e' hm
  simp at hm

theorem TColsKindOK.filterMap {tt : TypeTable} {cols : List TCol} (h : TColsKindOK tt cols) :
    ∀ l ∈ cols.filterMap TCol.loc?, l.kindOK tt := by
  intro l hl
  simp only [List.mem_filterMap] at hl
  obtain ⟨c, hc, hcl⟩ := hl
  cases c with
  | insert loc column e =>
    simp only [TCol.loc?, Option.some.injEq] at hcl
    subst hcl; exact h _ _ _ hc
  | literal _ _ => simp [TCol.loc?] at hcl

theorem astInsertCols_kindOK {tt : TypeTable} : ∀ (srcs : List Acc) (st st' : TEB) (cols cols' : List TCol),
    astInsertCols st srcs cols = .ok (cols', st') → InfosKindOK tt st.argInfos →
    TColsKindOK tt cols → TColsKindOK tt cols' := by
  intro srcs
  induction srcs with
  | nil =>
    intro st st' cols cols' h _ hc
    simp only [astInsertCols] at h
    cases h; exact hc
  | cons src rest ih =>
    intro st st' cols cols' h hi hc
    simp only [astInsertCols] at h
    split at h
    · split at h
      · cases h
      · rename_i ms st1 ha
        have h1 := allStructInputs_kindOK hi ha
        refine ih _ _ _ _ h (by rw [(allStructInputs_ok ha).2.2]; exact hi) (hc.append ?_)
        intro loc column e hm
        simp only [List.mem_map] at hm
        obtain ⟨p, hp, hpe⟩ := hm
        cases hpe
        exact h1 p hp
    · split at h
      · cases h
      · rename_i l st1 ha
        exact ih _ _ _ _ h (by rw [(inputMember_ok ha).2.2]; exact hi)
          (hc.append (.single_insert (inputMember_kindOK hi ha)))

/-- provider-table invariant: every locator in the table is well-kinded -/
def ProvKindOK (tt : TypeTable) (m : List (Bytes × List Loc)) : Prop :=
  ∀ p ∈ m, ∀ l ∈ p.2, l.kindOK tt

theorem provAssign_kindOK {tt : TypeTable} {m : List (Bytes × List Loc)} {k : Bytes} {l : Loc}
    (hm : ProvKindOK tt m) (hl : l.kindOK tt) : ProvKindOK tt (provAssign m k l) := by
  unfold provAssign
  split
  · intro p hp l' hl'
    simp only [List.mem_map] at hp
    obtain ⟨q, hq, rfl⟩ := hp
    split at hl'
    · simp only [List.mem_singleton] at hl'; subst hl'; exact hl
    · exact hm q hq l' hl'
  · intro p hp l' hl'
    rcases List.mem_append.1 hp with hp | hp
    · exact hm p hp l' hl'
    · simp only [List.mem_singleton] at hp; subst hp
      simp only [List.mem_singleton] at hl'; subst hl'; exact hl

theorem provAppend_kindOK {tt : TypeTable} {m : List (Bytes × List Loc)} {k : Bytes} {l : Loc}
    (hm : ProvKindOK tt m) (hl : l.kindOK tt) : ProvKindOK tt (provAppend m k l) := by
  unfold provAppend
  split
  · intro p hp l' hl'
    simp only [List.mem_map] at hp
    obtain ⟨q, hq, rfl⟩ := hp
    split at hl'
    · rcases List.mem_append.1 hl' with h | h
      · exact hm q hq l' h
      · simp only [List.mem_singleton] at h; subst h; exact hl
    · exact hm q hq l' hl'
  · intro p hp l' hl'
    rcases List.mem_append.1 hp with hp | hp
    · exact hm p hp l' hl'
    · simp only [List.mem_singleton] at hp; subst hp
      simp only [List.mem_singleton] at hl'; subst hl'; exact hl

theorem provAppend_foldl_kindOK {tt : TypeTable} : ∀ (ms : List (Loc × Bytes)) (m : List (Bytes × List Loc)),
    ProvKindOK tt m → (∀ p ∈ ms, p.1.kindOK tt) →
    ProvKindOK tt (ms.foldl (fun pr (x : Loc × Bytes) => provAppend pr x.2 x.1) m) := by
  intro ms
  induction ms with
  | nil => intro m hm _; exact hm
  | cons x rest ih =>
    intro m hm h
    simp only [List.foldl_cons]
    exact ih _ (provAppend_kindOK hm (h x (by simp))) (fun p hp => h p (by simp [hp]))

theorem colInsertProviders_kindOK {tt : TypeTable} : ∀ (srcs : List Acc) (st st' : TEB)
    (prov prov' : List (Bytes × List Loc)) (rem rem' : Option Bytes),
    colInsertProviders st srcs prov rem = .ok ((prov', rem'), st') → InfosKindOK tt st.argInfos →
    ProvKindOK tt prov → ProvKindOK tt prov' := by
  intro srcs
  induction srcs with
  | nil =>
    intro st st' prov prov' rem rem' h _ hp
    simp only [colInsertProviders] at h
    cases h; exact hp
  | cons src rest ih =>
    intro st st' prov prov' rem rem' h hi hp
    simp only [colInsertProviders] at h
    split at h
    · split at h
      · cases h
      · rename_i hg
        have hg' := getArg_ok hg
        split at h
        · cases h
        · exact ih _ _ _ _ _ _ h (by rw [hg'.2.1]; exact hi) hp
      · rename_i hg
        have hg' := getArg_ok hg
        split at h
        · cases h
        · rename_i ms st2 ha
          have hi1 := hi
          rw [← hg'.2.1] at hi1
          exact ih _ _ _ _ _ _ h (by rw [(allStructInputs_ok ha).2.2]; exact hi1)
            (provAppend_foldl_kindOK ms prov hp (allStructInputs_kindOK hi1 ha))
    · split at h
      · cases h
      · rename_i l st1 ha
        exact ih _ _ _ _ _ _ h (by rw [(inputMember_ok ha).2.2]; exact hi)
          (provAssign_kindOK hp (inputMember_kindOK hi ha))

theorem colInsertCols_kindOK {tt : TypeTable} (prov : List (Bytes × List Loc)) (rem : Option Bytes)
    (hp : ProvKindOK tt prov) : ∀ (cs : List Col) (st st' : TEB) (cols cols' : List TCol),
    colInsertCols prov rem st cs cols = .ok (cols', st') → InfosKindOK tt st.argInfos →
    TColsKindOK tt cols → TColsKindOK tt cols' := by
  intro cs
  induction cs with
  | nil =>
    intro st st' cols cols' h _ hc
    simp only [colInsertCols] at h
    cases h; exact hc
  | cons c rest ih =>
    intro st st' cols cols' h hi hc
    simp only [colInsertCols] at h
    split at h
    · rename_i k l hf
      have hmem := List.mem_of_find?_eq_some hf
      exact ih _ _ _ _ h hi (hc.append (.single_insert (hp _ hmem l (by simp))))
    · cases h
    · split at h
      · cases h
      · rename_i l st1 ha
        exact ih _ _ _ _ h (by rw [(inputMember_ok ha).2.2]; exact hi)
          (hc.append (.single_insert (inputMember_kindOK hi ha)))
    · cases h

theorem basicInsertCols_kindOK {tt : TypeTable} : ∀ (ps : List (Col × Val)) (st st' : TEB)
    (cols cols' : List TCol),
    basicInsertCols st ps cols = .ok (cols', st') → InfosKindOK tt st.argInfos →
    TColsKindOK tt cols → TColsKindOK tt cols' := by
  intro ps
  induction ps with
  | nil =>
    intro st st' cols cols' h _ hc
    simp only [basicInsertCols] at h
    cases h; exact hc
  | cons p rest ih =>
    intro st st' cols cols' h hi hc
    obtain ⟨c, v⟩ := p
    simp only [basicInsertCols] at h
    split at h
    · exact ih _ _ _ _ h hi (hc.append .single_literal)
    · split at h
      · cases h
      · rename_i l st1 ha
        exact ih _ _ _ _ h (by rw [(inputMember_ok ha).2.2]; exact hi)
          (hc.append (.single_insert (inputMember_kindOK hi ha)))

/-! ### `bindSeg`, `bindSegs`, `bindTypes` -/

theorem InputLocsKindOK.nil {tt : TypeTable} : InputLocsKindOK tt [] := by
  intro _ h; cases h

theorem InputLocsKindOK.add {tt : TypeTable} {es : List TExpr} {e : TExpr}
    (h : InputLocsKindOK tt es) (he : ∀ l ∈ e.inputLocs, l.kindOK tt) :
    InputLocsKindOK tt (es ++ [e]) := by
  intro te hm
  rcases List.mem_append.1 hm with hm | hm
  · exact h _ hm
  · simp only [List.mem_singleton] at hm; subst hm; exact he

theorem bindSeg_inputLocs_kindOK {tt : TypeTable} {st st' : TEB} {s : OSeg}
    (h : bindSeg st s = .ok st') (hi : InfosKindOK tt st.argInfos)
    (hes : InputLocsKindOK tt st.exprs) : InputLocsKindOK tt st'.exprs := by
  by_cases hk : s.kind = .output
  · obtain ⟨cols, he, _⟩ := bindSeg_output hk h
    rw [he]
    exact hes.add (by intro l hl; cases hl)
  unfold bindSeg at h
  split at h
  · -- bypass
    cases h
    exact hes.add (by intro l hl; cases hl)
  · -- member
    split at h
    · split at h
      · cases h
      · rename_i l st1 ha
        cases h
        show InputLocsKindOK tt (st1.exprs ++ _)
        rw [(inputMember_ok ha).2.1]
        refine hes.add ?_
        intro l' hl'
        simp only [TExpr.inputLocs, List.mem_singleton] at hl'
        subst hl'; exact inputMember_kindOK hi ha
    · cases h
  · -- slice
    split at h
    · split at h
      · cases h
      · rename_i ai st1 hg
        split at h
        · cases h
        · rename_i l hs
          cases h
          show InputLocsKindOK tt (st1.exprs ++ _)
          rw [(getArg_ok hg).1]
          refine hes.add ?_
          intro l' hl'
          simp only [TExpr.inputLocs, List.mem_singleton] at hl'
          subst hl'; exact getSlice_kindOK (getArg_kindOK hi hg) hs
    · cases h
  · -- astInsert
    split at h
    · cases h
    · rename_i cols st1 ha
      cases h
      show InputLocsKindOK tt (st1.exprs ++ _)
      rw [(astInsertCols_ok _ _ _ _ _ ha .nil).2.1]
      exact hes.add (astInsertCols_kindOK _ _ _ _ _ ha hi .nil).filterMap
  · -- colInsert
    split at h
    · cases h
    · rename_i prov rem st1 hp
      have h0 := colInsertProviders_ok _ _ _ _ _ _ _ hp (by intro p hp; cases hp)
      have hk0 := colInsertProviders_kindOK (tt := tt) _ _ _ _ _ _ _ hp hi (by intro p hp; cases hp)
      split at h
      · cases h
      · rename_i cols st2 ha
        cases h
        show InputLocsKindOK tt (st2.exprs ++ _)
        rw [(colInsertCols_ok _ _ h0.1 _ _ _ _ _ ha .nil).2.1, h0.2.1]
        exact hes.add (colInsertCols_kindOK _ _ hk0 _ _ _ _ _ ha
          (by rw [h0.2.2]; exact hi) .nil).filterMap
  · -- basicInsert
    split at h
    · cases h
    · split at h
      · cases h
      · rename_i cols st1 ha
        cases h
        show InputLocsKindOK tt (st1.exprs ++ _)
        rw [(basicInsertCols_ok _ _ _ _ _ ha .nil).2.1]
        exact hes.add (basicInsertCols_kindOK _ _ _ _ _ ha hi .nil).filterMap
  · -- output
    rename_i hk'
    exact absurd hk' hk

theorem bindSegs_inputLocs_kindOK {tt : TypeTable} : ∀ (segs : List OSeg) (st st' : TEB),
    bindSegs st segs = .ok st' → InfosKindOK tt st.argInfos →
    InputLocsKindOK tt st.exprs → InputLocsKindOK tt st'.exprs := by
  intro segs
  induction segs with
  | nil => intro st st' h _ hes; simp only [bindSegs] at h; cases h; exact hes
  | cons s rest ih =>
    intro st st' h hi hes
    simp only [bindSegs] at h
    split at h
    · cases h
    · rename_i st1 hs
      exact ih _ _ h (by rw [bindSeg_argInfos hs]; exact hi) (bindSeg_inputLocs_kindOK hs hi hes)

/-- the input locators of a typed expression produced by `bindTypes` are well-kinded -/
theorem bindTypes_inputLocs_kindOK {C : Cls} {tt : TypeTable} {segs : List OSeg}
    {samples : List (Option Nat)} {tes : List TExpr}
    (h : bindTypes C tt segs samples = .ok tes) : InputLocsKindOK tt tes := by
  unfold bindTypes at h
  split at h
  · cases h
  · rename_i infos hg
    split at h
    · cases h
    · rename_i st hs
      split at h
      · cases h
        exact bindSegs_inputLocs_kindOK _ _ _ hs
          (generateArgInfo_kindOK _ _ _ hg (by intro _ hm; cases hm)) .nil
      · cases h

/-! ### non-vacuity -/

namespace LocKindsExample

def C : Cls :=
  { letter := fun c => (97 ≤ c && c ≤ 122) || (65 ≤ c && c ≤ 90), digit := fun c => 48 ≤ c && c ≤ 57 }

/-- `type T struct { A string `db:"a"` }` -/
def tt : TypeTable := #[
  { kind := .struct, kindStr := "struct", name := #[84],
    fields := [{ name := #[65], tag := #[97], exported := true, anon := false, ty := 1 }] },
  { kind := .string, kindStr := "string", name := #[] }]

/-- `… $T.a … INSERT INTO t (*) VALUES ($T.*)` -/
def segs : List OSeg := [
  { kind := .member, raw := #[], types := [{ ty := #[84], member := #[97] }] },
  { kind := .astInsert, raw := #[], types := [{ ty := #[84], member := star }] }]

/-- `bindTypes` succeeds with an input and an insert expression, each carrying one input
    locator, and these are well-kinded by the theorem -/
example : ∃ tes, bindTypes C tt segs [some 0] = .ok tes ∧
    tes.map (fun te => te.inputLocs.length) = [1, 1] ∧ InputLocsKindOK tt tes := by
  have hsome : (bindTypes C tt segs [some 0]).toOption.map
      (fun tes => tes.map (fun te => te.inputLocs.length)) = some [1, 1] := by decide
  cases hb : bindTypes C tt segs [some 0] with
  | error e => rw [hb] at hsome; cases hsome
  | ok tes =>
    rw [hb] at hsome
    refine ⟨tes, rfl, ?_, bindTypes_inputLocs_kindOK hb⟩
    simpa [Except.toOption] using hsome

end LocKindsExample

end Sqlair
