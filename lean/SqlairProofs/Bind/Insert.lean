/-
  Bind/Insert: specifications of the INSERT machinery of the query builder
  (`locateParams` value counts, `TCol.bind`, `bindCols`, `BCol.parameter`, `insertRow`,
  `insertRows`, `addInsert`).
-/
import SqlairProofs.Bind.Defs

namespace Sqlair


theorem bulkMapVals_length (key : Bytes) : ∀ (els : List GoVal) (acc vals : List String),
    bulkMapVals key els acc = .ok vals → vals.length = acc.length + els.length := by
  intro els
  induction els with
  | nil => intro acc vals h; simp [bulkMapVals] at h; subst h; simp
  | cons e rest ih =>
    intro acc vals h
    unfold bulkMapVals at h
    split at h
    · cases h
    · cases h
    · split at h
      · cases h
      · have := ih _ _ h; simp at this; simp; omega
    · cases h

theorem bulkFieldVals_length (f : SField) : ∀ (els : List GoVal) (first om : Bool) (acc vals : List String) (om' : Bool),
    bulkFieldVals f els first om acc = .ok (vals, om') → vals.length = acc.length + els.length := by
  intro els
  induction els with
  | nil => intro first om acc vals om' h; simp [bulkFieldVals] at h; obtain ⟨h1, _⟩ := h; subst h1; simp
  | cons e rest ih =>
    intro first om acc vals om' h
    unfold bulkFieldVals at h
    split at h
    · cases h
    · split at h
      · cases h
      · split at h
        · split at h
          · have := ih _ _ _ _ _ h; simp at this; simp; omega
          · split at h
            · cases h
            · have := ih _ _ _ _ _ h; simp at this; simp; omega
        · have := ih _ _ _ _ _ h; simp at this; simp; omega

/-- a bulk locator yields at least one value (an empty bulk slice is rejected) -/
theorem locateParams_bulk_pos {tt : TypeTable} {m : TypeToValue} {l : Loc} {p : Params}
    (h : locateParams tt m l = .ok p) (hb : p.bulk = true) : 1 ≤ p.vals.length := by
  unfold locateParams at h
  repeat' split at h
  all_goals first | (cases h; done) | skip
  all_goals cases h
  all_goals first | (simp at hb; done) | skip
  all_goals simp only
  · rename_i hne _ _ hv
    have := bulkMapVals_length _ _ _ _ hv
    cases ‹List GoVal› <;> simp_all
  · rename_i hne _ _ _ hv
    have := bulkFieldVals_length _ _ _ _ _ _ _ hv
    cases ‹List GoVal› <;> simp_all

/-- a non-bulk, non-slice locator yields exactly one value -/
theorem locateParams_single {tt : TypeTable} {m : TypeToValue} {l : Loc} {p : Params}
    (h : locateParams tt m l = .ok p) (hb : p.bulk = false) (hl : ∀ t n, l ≠ .slice t n) :
    p.vals.length = 1 := by
  unfold locateParams at h
  repeat' split at h
  all_goals first | (cases h; done) | skip
  all_goals cases h
  all_goals first | (simp at hb; done) | skip
  all_goals first | (exact absurd rfl (hl _ _)) | skip
  all_goals simp


/-- what `TCol.bind` computes for one column (independently of the numbering) -/
def ColBound (tt : TypeTable) (m : TypeToValue) (c : TCol) (bc : BCol) : Prop :=
  match c with
  | .literal column lit =>
    bc.vals = [] ∧ bc.om = false ∧ bc.bulk = false ∧ bc.literal = lit ∧ bc.column = column ∧
      bc.argType = none
  | .insert loc column explicit =>
    ∃ p, locateParams tt m loc = .ok p ∧ bc.vals = p.vals ∧ bc.om = p.om ∧ bc.bulk = p.bulk ∧
      bc.column = column ∧ bc.argType = some p.argType ∧ (p.om = true → explicit = false)

def ColsBound (tt : TypeTable) (m : TypeToValue) : List TCol → List BCol → Prop
  | [], [] => True
  | c :: cs, bc :: bcs => ColBound tt m c bc ∧ ColsBound tt m cs bcs
  | _, _ => False

theorem TCol.bind_spec {tt : TypeTable} {m : TypeToValue} {c : TCol} {ic ic' : Nat} {bc : BCol}
    (h : c.bind tt m ic = .ok (bc, ic')) :
    ColBound tt m c bc ∧ (bc.width ≠ 0 → bc.first = ic) ∧ ic' = ic + bc.width ∧
      (bc.bulk = false → bc.vals.length ≤ 1) ∧ (bc.bulk = true → 1 ≤ bc.vals.length) := by
  unfold TCol.bind at h
  split at h
  · cases h; simp [ColBound, BCol.width]
  · rename_i loc column explicit
    split at h
    · cases h
    · rename_i p hp
      split at h
      · cases h
      · split at h
        · cases h
        · rename_i h1 h2
          have hpos := locateParams_bulk_pos hp
          cases hom : p.om <;> simp [hom] at h <;> obtain ⟨h, rfl⟩ := h <;> subst h <;>
            simp [ColBound, BCol.width, hp, hom] <;> simp_all <;> omega


/-- `bindCols` only touches `inputCount` and `argUsed` -/
structure QBFrame (qb qb' : QB) : Prop where
  pieces : qb'.pieces = qb.pieces
  params : qb'.params = qb.params
  outputs : qb'.outputs = qb.outputs
  outputCount : qb'.outputCount = qb.outputCount

theorem bindCols_spec {tt : TypeTable} {m : TypeToValue} :
    ∀ (cols : List TCol) (qb : QB) (acc : List BCol) (bulk : Bool) (numRows : Nat)
      (qb' : QB) (bcs : List BCol) (n' : Nat),
    bindCols tt m cols qb acc bulk numRows = .ok (qb', bcs, n') →
    ∃ new, bcs = acc ++ new ∧ ColsBound tt m cols new ∧ BChain qb.inputCount new ∧
      qb'.inputCount = bcsEnd qb.inputCount new ∧ QBFrame qb qb' ∧
      (∀ bc ∈ new, bc.bulk = false → bc.vals.length ≤ 1) ∧
      (∀ bc ∈ new, bc.bulk = true → bc.vals.length = n') ∧
      (bulk = true → n' = numRows) ∧ ((∀ bc ∈ new, bc.bulk = false) → n' = numRows) ∧
      (1 ≤ numRows → 1 ≤ n') := by
  intro cols
  induction cols with
  | nil =>
    intro qb acc bulk numRows qb' bcs n' h
    simp [bindCols] at h
    obtain ⟨rfl, rfl, rfl⟩ := h
    exact ⟨[], by simp, trivial, trivial, by simp [bcsEnd], ⟨rfl, rfl, rfl, rfl⟩, by simp, by simp,
      fun _ => rfl, fun _ => rfl, id⟩
  | cons c rest ih =>
    intro qb acc bulk numRows qb' bcs n' h
    unfold bindCols at h
    split at h
    · cases h
    · rename_i bc ic hb
      obtain ⟨hcb, hfirst, hic, hsingle, hbulkpos⟩ := TCol.bind_spec hb
      simp only at h
      split at h
      · cases h
      · rename_i hmis
        obtain ⟨new, hbcs, hcols, hchain, hend, hframe, h1, h2, h3, h4, h5⟩ := ih _ _ _ _ _ _ _ h
        refine ⟨bc :: new, by simp [hbcs], ⟨hcb, hcols⟩, ⟨hfirst, ?_⟩, ?_, ?_, ?_, ?_, ?_, ?_, ?_⟩
        · subst hic; cases hat : bc.argType <;> simp [hat] at hchain <;> exact hchain
        · subst hic; cases hat : bc.argType <;> simp [hat] at hend <;> rw [hend] <;>
            simp [bcsEnd] <;> omega
        · cases hat : bc.argType <;> simp [hat] at hframe <;>
            exact ⟨hframe.pieces, hframe.params, hframe.outputs, hframe.outputCount⟩
        · intro b hb; rcases List.mem_cons.1 hb with rfl | hb
          · exact hsingle
          · exact h1 b hb
        · intro b hb hbb; rcases List.mem_cons.1 hb with rfl | hb
          · cases bulk <;> simp [hbb] at h3 hmis ⊢ <;> omega
          · exact h2 b hb hbb
        · intro hbt; subst hbt; simp at h3; exact h3
        · intro hall
          have hb0 : bc.bulk = false := hall bc (List.mem_cons_self)
          simp [hb0] at h4
          exact h4 (fun b hb => hall b (List.mem_cons_of_mem _ hb))
        · intro hn
          apply h5
          by_cases hc : (bc.bulk && !bulk) = true
          · simp [hc]; simp at hc; exact hbulkpos hc.1
          · simp [hc]; exact hn



/-- `BCol.parameter` computes `cellAt`/`paramAt` -/
theorem BCol.parameter_spec {bc : BCol} {r : Nat} {cell : Cell} {np : Option (Nat × String)}
    (h : bc.parameter r = .ok (cell, np)) : cell = bc.cellAt r ∧ np = bc.paramAt r := by
  unfold BCol.parameter at h
  unfold BCol.cellAt BCol.paramAt
  split at h
  · rename_i hv; cases h; simp [hv]
  · rename_i v hv; cases h; simp [hv]
  · rename_i vs h1 h2
    split at h
    · rename_i v hv
      cases h
      split
      · simp_all
      · simp_all
      · simp [hv]
    · cases h

/-- `BCol.parameter` fails only on a multi-valued column that lacks a value for the row -/
theorem BCol.parameter_ok {bc : BCol} {r : Nat} (h : bc.vals.length ≤ 1 ∨ r < bc.vals.length) :
    ∃ res, bc.parameter r = .ok res := by
  unfold BCol.parameter
  split
  · exact ⟨_, rfl⟩
  · exact ⟨_, rfl⟩
  · rename_i h1 h2
    split
    · exact ⟨_, rfl⟩
    · rename_i hn
      have : bc.vals.length ≤ r := by simpa using hn
      rcases h with h | h
      · match hv : bc.vals with
        | [] => exact absurd hv h1
        | [v] => exact absurd hv (h2 v)
        | _ :: _ :: _ => simp [hv] at h
      · omega

theorem BCol.parameter_err {bc : BCol} {r : Nat} {e : String} (h : bc.parameter r = .error e) :
    e = "internal-no-bulk-value" := by
  unfold BCol.parameter at h
  repeat' split at h
  all_goals cases h
  rfl

def insertRowStep (row : Nat) (acc : List Cell × List (Nat × String)) (bc : BCol) :
    Except String (List Cell × List (Nat × String)) :=
  if bc.om then pure acc else
    match bc.parameter row with
    | .error e => .error e
    | .ok (cell, np) => pure (acc.1 ++ [cell], match np with | some p => acc.2 ++ [p] | none => acc.2)

theorem insertRow_eq (cols : List BCol) (row : Nat) :
    insertRow cols row = cols.foldlM (insertRowStep row) ([], []) := rfl

theorem insertRowStep_fold (row : Nat) : ∀ (cols : List BCol) (acc res : List Cell × List (Nat × String)),
    cols.foldlM (insertRowStep row) acc = .ok res →
    res.1 = acc.1 ++ (keptCols cols).map (·.cellAt row) ∧
    res.2 = acc.2 ++ (keptCols cols).filterMap (·.paramAt row) := by
  intro cols
  induction cols with
  | nil => intro acc res h; simp [List.foldlM, pure, Except.pure] at h; subst h; simp [keptCols]
  | cons bc rest ih =>
    intro acc res h
    rw [foldlM_except_cons] at h
    split at h
    · cases h
    · rename_i acc' hstep
      have := ih _ _ h
      unfold insertRowStep at hstep
      split at hstep
      · rename_i hom
        cases hstep
        simpa [keptCols, hom] using this
      · rename_i hom
        split at hstep
        · cases hstep
        · rename_i cell np hp
          obtain ⟨rfl, rfl⟩ := BCol.parameter_spec hp
          cases hstep
          obtain ⟨h1, h2⟩ := this
          simp only [keptCols, List.filter_cons, hom] at h1 h2 ⊢
          constructor
          · simpa using h1
          · cases hpa : bc.paramAt row <;> simp [hpa] at h2 ⊢ <;> exact h2

theorem insertRow_spec {cols : List BCol} {row : Nat} {cells : List Cell} {ps : List (Nat × String)}
    (h : insertRow cols row = .ok (cells, ps)) :
    cells = (keptCols cols).map (·.cellAt row) ∧ ps = (keptCols cols).filterMap (·.paramAt row) := by
  rw [insertRow_eq] at h
  simpa using insertRowStep_fold row cols _ _ h

theorem insertRows_spec {cols : List BCol} : ∀ (rs : List Nat) (rows : List (List Cell)) (ps : List (Nat × String)),
    insertRows cols rs = .ok (rows, ps) →
    rows = rs.map (fun r => (keptCols cols).map (·.cellAt r)) ∧
    ps = rs.flatMap (fun r => (keptCols cols).filterMap (·.paramAt r)) := by
  intro rs
  induction rs with
  | nil => intro rows ps h; simp [insertRows] at h; simp [h]
  | cons r rest ih =>
    intro rows ps h
    unfold insertRows at h
    split at h
    · cases h
    · rename_i cells ps1 hr
      split at h
      · cases h
      · rename_i rows' ps' hrest
        cases h
        obtain ⟨rfl, rfl⟩ := insertRow_spec hr
        obtain ⟨rfl, rfl⟩ := ih _ _ hrest
        simp


theorem insertRowStep_fold_ok (row : Nat) : ∀ (cols : List BCol) (acc : List Cell × List (Nat × String)),
    (∀ bc ∈ cols, bc.om = false → bc.vals.length ≤ 1 ∨ row < bc.vals.length) →
    ∃ res, cols.foldlM (insertRowStep row) acc = .ok res := by
  intro cols
  induction cols with
  | nil => intro acc _; exact ⟨acc, rfl⟩
  | cons bc rest ih =>
    intro acc h
    rw [foldlM_except_cons]
    have hrest := fun acc' => ih acc' (fun b hb => h b (List.mem_cons_of_mem _ hb))
    cases hom : bc.om
    · obtain ⟨res, hres⟩ := BCol.parameter_ok (h bc (List.mem_cons_self) hom)
      have : insertRowStep row acc bc = .ok (acc.1 ++ [res.1], match res.2 with | some p => acc.2 ++ [p] | none => acc.2) := by
        simp [insertRowStep, hom, hres, pure, Except.pure]
      rw [this]; exact hrest _
    · have : insertRowStep row acc bc = .ok acc := by simp [insertRowStep, hom, pure, Except.pure]
      rw [this]; exact hrest _

theorem insertRow_ok {cols : List BCol} {row : Nat}
    (h : ∀ bc ∈ cols, bc.om = false → bc.vals.length ≤ 1 ∨ row < bc.vals.length) :
    ∃ res, insertRow cols row = .ok res := by
  rw [insertRow_eq]; exact insertRowStep_fold_ok row cols _ h

theorem insertRows_ok {cols : List BCol} : ∀ (rs : List Nat),
    (∀ r ∈ rs, ∀ bc ∈ cols, bc.om = false → bc.vals.length ≤ 1 ∨ r < bc.vals.length) →
    ∃ res, insertRows cols rs = .ok res := by
  intro rs
  induction rs with
  | nil => intro _; exact ⟨_, rfl⟩
  | cons r rest ih =>
    intro h
    obtain ⟨⟨cells, ps⟩, h1⟩ := insertRow_ok (h r (List.mem_cons_self))
    obtain ⟨⟨rows, ps'⟩, h2⟩ := ih (fun r' hr' => h r' (List.mem_cons_of_mem _ hr'))
    unfold insertRows
    simp [h1, h2]

theorem addInsert_ok {qb : QB} {cols : List BCol} {numRows : Nat}
    (h : ∀ bc ∈ cols, bc.om = false → bc.vals.length ≤ 1 ∨ bc.vals.length = numRows) :
    ∃ qb', addInsert qb cols numRows = .ok qb' := by
  have : ∃ res, insertRows cols (List.range numRows) = .ok res := by
    apply insertRows_ok
    intro r hr bc hbc hom
    rcases h bc hbc hom with h | h
    · exact Or.inl h
    · right; rw [h]; exact List.mem_range.1 hr
  obtain ⟨⟨rows, ps⟩, h⟩ := this
  unfold addInsert
  simp [h]


end Sqlair
