#!/usr/bin/env python3
"""Runs every claimed check against every seeded change (each in its own worktree under /tmp/seed, own build
directory) and writes /verif/seeded/matrix.json: which checks alarm on which change. Parallel over seeds."""
import json, os, subprocess, sys, concurrent.futures as cf
V = '/verif'
props = [c['property_id'] for c in json.load(open(f'{V}/MANIFEST.json'))['checks']]
ROOTS = {'': '/tmp/seed', 'b': '/tmp/seed2', 'c': '/tmp/seed3', 'd': '/tmp/seed4', 'e': '/tmp/seed5', 'f': '/tmp/seed6', 'g': '/tmp/seed7', 'h': '/tmp/seed8', 'i': '/tmp/seed9', 'j': '/tmp/seed10', 'k': '/tmp/seed11', 'l': '/tmp/seed12'}   # round suffix -> worktree root
def wt_of(seed):
    return f"{ROOTS[seed[3:]]}/{seed[:3]}"
seeds = sorted(d + suf for suf, root in ROOTS.items() if os.path.isdir(root)
               for d in os.listdir(root) if os.path.isdir(f'{root}/{d}') and d.startswith('C') and os.path.isdir(f'{V}/seeded/{d}{suf}'))
only_target = '--target-only' in sys.argv
vseeds = [a.split('=')[1].split(',') for a in sys.argv[1:] if a.startswith('--vseeds=')]
vseeds = vseeds[0] if vseeds else ['1']
args = [a for a in sys.argv[1:] if not a.startswith('--')]
if args:
    seeds = args

def run_seed(seed):
    env = dict(os.environ, VERIF_REPO=wt_of(seed), VERIF_BUILD=f'/tmp/vb/{seed}', VERIF_NO_EVIDENCE='1')
    os.makedirs(f'/tmp/vb/{seed}', exist_ok=True)
    row = {}
    for p in ([seed[:3]] if only_target else props):
      for vs in vseeds:
        key = p if vs == '1' else f'{p}@{vs}'
        try:
            r = subprocess.run([f'{V}/check', p], cwd=V, env=dict(env, VERIF_SEED=vs), capture_output=True, text=True, timeout=1500)
            lines = [l for l in r.stdout.splitlines() if l.startswith('VIOLATION')]
            row[key] = {'rc': r.returncode, 'concrete': any('no-failing-input-found' not in l for l in lines), 'n': len(lines)}
        except subprocess.TimeoutExpired:
            row[key] = {'rc': -1}
    subprocess.run(['rm', '-rf', f'/tmp/vb/{seed}'])
    return seed, row

matrix = {}
if os.path.exists(f'{V}/seeded/matrix.json'):
    matrix = json.load(open(f'{V}/seeded/matrix.json'))
with cf.ThreadPoolExecutor(max_workers=4) as ex:
    for seed, row in ex.map(run_seed, seeds):
        matrix.setdefault(seed, {}).update(row)
        alarms = [p + ('' if r.get('concrete') else '(nfi)') for p, r in row.items() if r['rc'] != 0]
        quiet = [p for p, r in row.items() if r['rc'] == 0]
        print(seed, 'alarms:', alarms, 'QUIET:' if quiet else '', quiet or '', flush=True)
        json.dump(matrix, open(f'{V}/seeded/matrix.json', 'w'), indent=1)
