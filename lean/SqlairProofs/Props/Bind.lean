/-
  Props/Bind: the bind-layer properties (C03 placeholders/arguments, C04 INSERT expansion,
  C05 output aliases, C07/C08/C16 acceptance) as theorems about the model
  `SqlairModel/Bind.lean`, for all type tables, typed expressions and argument lists.
  Helper lemmas live in `SqlairProofs/Bind/*.lean`.
-/
import SqlairProofs.Bind.Errors
import SqlairProofs.Bind.Reject
import SqlairProofs.Bind.Tag
import SqlairProofs.Bind.LocKinds
import SqlairProofs.Bind.PermPrepared
import SqlairProofs.Bind.ParserNodes

namespace Sqlair

/-! ## a concrete successful case (non-vacuity witness)

  `INSERT`-like typed expressions over a struct `T` (fields tagged `a`, `b` omitempty), a
  bulk argument `[]T` with two rows, a struct `U` (field `c`), a literal column, a plain
  input and an output expression.  `bindInputs` succeeds with a two-row insert piece and six
  parameters. -/
namespace BindExample

def tt : TypeTable := #[
  { kind := .struct, kindStr := "struct", name := #[84] },            -- 0: T
  { kind := .slice, kindStr := "slice", name := #[], elem := 0 },     -- 1: []T
  { kind := .struct, kindStr := "struct", name := #[85] },            -- 2: U
  { kind := .string, kindStr := "string", name := #[] } ]             -- 3: string

def fa : SField := { name := #[65], tag := #[97], omitEmpty := false, index := [0] }
def fb : SField := { name := #[66], tag := #[98], omitEmpty := true, index := [1] }
def fc : SField := { name := #[67], tag := #[99], omitEmpty := false, index := [0] }

def tes : List TExpr := [
  .bypass #[73],
  .insert [.insert (.field 0 #[84] fa) #[97] false, .insert (.field 0 #[84] fb) #[98] false,
           .insert (.field 2 #[85] fc) #[99] true, .literal #[100] #[49]],
  .input (.field 2 #[85] fc),
  .output [(#[99], .field 2 #[85] fc), (#[97], .field 0 #[84] fa)] ]

def row (a b : String) : GoVal :=
  .struct { t := 0, zero := false, r := "" }
    [.leaf { t := 3, zero := false, r := a }, .leaf { t := 3, zero := false, r := b }]

def args : List GoVal := [
  .slice { t := 1, zero := false, r := "" } [row "a0" "b0", row "a1" "b1"],
  .struct { t := 2, zero := false, r := "" } [.leaf { t := 3, zero := false, r := "c" }] ]

def expected : Primed :=
  { pieces := [.text #[73],
      .insert [#[97], #[98], #[99], #[100]]
        [[.ph 0, .ph 2, .ph 4, .lit #[49]], [.ph 1, .ph 3, .ph 4, .lit #[49]]],
      .inputs 5 1,
      .outputs 0 [#[99], #[97]]],
    params := [(0, "a0"), (2, "b0"), (4, "c"), (1, "a1"), (3, "b1"), (5, "c")],
    outputs := [.field 2 #[85] fc, .field 0 #[84] fa] }

theorem bindInputs_example : bindInputs tt tes args = .ok expected := by rfl


end BindExample

/-! ## a concrete successful Prepare + Query (non-vacuity witness for theorems about `bindTypes`)

  Type table with struct `T` (fields `A` tagged `a`, `B` tagged `b,omitempty`), `[]T`,
  struct `U` (field `C` tagged `c`); nodes: bypass, `(*) VALUES ($T.*, $U.c)`, `$U.c`,
  `&U.*`. -/
namespace PrepExample

def C : Cls := { letter := fun c => (97 ≤ c && c ≤ 122) || (65 ≤ c && c ≤ 90), digit := fun c => 48 ≤ c && c ≤ 57 }

def tt : TypeTable := #[
  { kind := .struct, kindStr := "struct", name := #[84], fields := [
      { name := #[65], tag := #[97], exported := true, anon := false, ty := 3 },
      { name := #[66], tag := #[98, 44, 111, 109, 105, 116, 101, 109, 112, 116, 121], exported := true, anon := false, ty := 3 }] },
  { kind := .slice, kindStr := "slice", name := #[], elem := 0 },
  { kind := .struct, kindStr := "struct", name := #[85], fields := [
      { name := #[67], tag := #[99], exported := true, anon := false, ty := 3 }] },
  { kind := .string, kindStr := "string", name := #[] } ]

def segs : List OSeg := [
  { kind := .bypass, raw := #[73] },
  { kind := .astInsert, raw := #[], types := [{ ty := #[84], member := star }, { ty := #[85], member := #[99] }] },
  { kind := .member, raw := #[], types := [{ ty := #[85], member := #[99] }] },
  { kind := .output, raw := #[], types := [{ ty := #[85], member := star }] } ]

def samples : List (Option Nat) := [some 0, some 2]

def fa : SField := { name := #[65], tag := #[97], omitEmpty := false, index := [0] }
def fb : SField := { name := #[66], tag := #[98], omitEmpty := true, index := [1] }
def fc : SField := { name := #[67], tag := #[99], omitEmpty := false, index := [0] }

def tes : List TExpr := [
  .bypass #[73],
  .insert [.insert (.field 0 #[84] fa) #[97] false, .insert (.field 0 #[84] fb) #[98] false,
           .insert (.field 2 #[85] fc) #[99] true],
  .input (.field 2 #[85] fc),
  .output [(#[99], .field 2 #[85] fc)] ]

theorem bindTypes_example : bindTypes C tt segs samples = .ok tes := by rfl

def row (a b : String) : GoVal :=
  .struct { t := 0, zero := false, r := "" }
    [.leaf { t := 3, zero := false, r := a }, .leaf { t := 3, zero := false, r := b }]

def args : List GoVal := [
  .slice { t := 1, zero := false, r := "" } [row "a0" "b0", row "a1" "b1"],
  .struct { t := 2, zero := false, r := "" } [.leaf { t := 3, zero := false, r := "c" }] ]

theorem bindInputs_example : ∃ pq, bindInputs tt tes args = .ok pq ∧ pq.params.length = 6 := ⟨_, rfl, rfl⟩

end PrepExample

/-! ## C03 -/

/-- C03.1: no duplicate argument names -/
theorem params_nodup {tt : TypeTable} {tes : List TExpr} {args : List GoVal} {pq : Primed}
    (h : bindInputs tt tes args = .ok pq) : (pq.params.map (·.1)).Nodup := by
  obtain ⟨qb, inv, _, hp, _⟩ := bindInputs_inv h
  rw [hp]; exact inv.nodup

open BindExample in
example : (expected.params.map (·.1)).Nodup := params_nodup bindInputs_example

/-- C03.2: no placeholder without argument, no argument without placeholder -/
theorem placeholders_eq_params {tt : TypeTable} {tes : List TExpr} {args : List GoVal} {pq : Primed}
    (h : bindInputs tt tes args = .ok pq) :
    ∀ n, n ∈ phsOf pq.pieces ↔ n ∈ pq.params.map (·.1) := by
  obtain ⟨qb, inv, hpc, hp, _⟩ := bindInputs_inv h
  rw [hp, hpc]; exact inv.iff

open BindExample in
example : 4 ∈ phsOf expected.pieces ∧ 4 ∈ expected.params.map (·.1) :=
  ⟨(placeholders_eq_params bindInputs_example 4).2 (by decide), by decide⟩

/-- C03.4: placeholder numbers increase in textual order: every number of an earlier piece
    is smaller than every number of a later piece -/
theorem inputs_fresh_and_ordered {tt : TypeTable} {tes : List TExpr} {args : List GoVal} {pq : Primed}
    (h : bindInputs tt tes args = .ok pq) :
    pq.pieces.Pairwise (fun p p' => ∀ a ∈ p.phs, ∀ b ∈ p'.phs, a < b) := by
  obtain ⟨qb, inv, hpc, _, _⟩ := bindInputs_inv h
  rw [hpc]; exact inv.ordered

/-- C03.4, positional form -/
theorem inputs_fresh_and_ordered_at {tt : TypeTable} {tes : List TExpr} {args : List GoVal} {pq : Primed}
    (h : bindInputs tt tes args = .ok pq) {pre mid post : List Piece} {p p' : Piece}
    (hp : pq.pieces = pre ++ p :: mid ++ p' :: post) :
    ∀ a ∈ p.phs, ∀ b ∈ p'.phs, a < b := by
  have := inputs_fresh_and_ordered h
  rw [hp, List.append_assoc, List.pairwise_append] at this
  have h2 := this.2.1
  rw [List.cons_append, List.pairwise_cons] at h2
  exact h2.1 p' (by simp)

open BindExample in
example : ∀ a ∈ (Piece.insert [#[97], #[98], #[99], #[100]]
      [[.ph 0, .ph 2, .ph 4, .lit #[49]], [.ph 1, .ph 3, .ph 4, .lit #[49]]]).phs,
    ∀ b ∈ (Piece.inputs 5 1).phs, a < b :=
  inputs_fresh_and_ordered_at (pre := [.text #[73]]) (mid := []) (post := [.outputs 0 [#[99], #[97]]])
    bindInputs_example rfl

/-! ## C04 -/

/-- C04.5: every insert piece is rectangular -/
theorem insert_rectangular {tt : TypeTable} {tes : List TExpr} {args : List GoVal} {pq : Primed}
    (h : bindInputs tt tes args = .ok pq) :
    ∀ cols rows, Piece.insert cols rows ∈ pq.pieces → ∀ r ∈ rows, r.length = cols.length := by
  obtain ⟨qb, inv, hpc, _, _⟩ := bindInputs_inv h
  rw [hpc]; exact inv.rect

open BindExample in
example : ∀ r ∈ [[Cell.ph 0, .ph 2, .ph 4, .lit #[49]], [.ph 1, .ph 3, .ph 4, .lit #[49]]],
    r.length = [#[97], #[98], #[99], (#[100] : Bytes)].length :=
  insert_rectangular bindInputs_example _ _ (by simp [expected])

/-! ## C05 -/

/-- C05.9: aliases are dense: in textual order they are `0, 1, …, n-1` where `n` is the
    number of output locators; the `first` of an outputs piece is the number of output
    columns before it; the k-th column text and the k-th locator are the k-th pair of the
    typed expressions. -/
theorem aliases_dense {tt : TypeTable} {tes : List TExpr} {args : List GoVal} {pq : Primed}
    (h : bindInputs tt tes args = .ok pq) :
    aliasesOf pq.pieces = List.range pq.outputs.length ∧
    (∀ pre first cols post, pq.pieces = pre ++ Piece.outputs first cols :: post →
      first = (pre.map Piece.numOut).sum) ∧
    pq.outputs.length = (pq.pieces.map Piece.numOut).sum ∧
    pq.pieces.flatMap Piece.outCols = (tes.flatMap TExpr.outCols).map (·.1) ∧
    pq.outputs = (tes.flatMap TExpr.outCols).map (·.2) := by
  obtain ⟨m, qb, _, hq, _, rfl⟩ := bindInputs_ok_unfold h
  have inv := foldlM_addToQuery_inv QBInv.init hq
  obtain ⟨⟨ps, h1, _, h3⟩, _, h5⟩ := foldlM_addToQuery_grow _ _ _ hq
  simp only [List.nil_append] at h1 h5
  refine ⟨by rw [inv.outLen]; exact inv.aliases, ?_, by rw [inv.outLen]; exact inv.outCount,
    by rw [h1]; exact h3, h5⟩
  intro pre first cols post hp
  have := inv.firsts
  simp only at hp
  rw [hp, outFirstsOK_append, outFirstsOK_cons] at this
  simpa using this.2.1 first cols rfl

open BindExample in
example : aliasesOf expected.pieces = [0, 1] := (aliases_dense bindInputs_example).1

/-- C05.10: the query has outputs iff some output expression has a column -/
theorem hasOutputs_iff {tt : TypeTable} {tes : List TExpr} {args : List GoVal} {pq : Primed}
    (h : bindInputs tt tes args = .ok pq) :
    pq.outputs ≠ [] ↔ ∃ cols, TExpr.output cols ∈ tes ∧ cols ≠ [] := by
  rw [(aliases_dense h).2.2.2.2]
  constructor
  · intro hne
    obtain ⟨x, hx⟩ := List.exists_mem_of_ne_nil _ hne
    simp only [List.mem_map, List.mem_flatMap] at hx
    obtain ⟨c, ⟨te, hte, hc⟩, _⟩ := hx
    cases te with
    | output cols => exact ⟨cols, hte, List.ne_nil_of_mem hc⟩
    | _ => simp [TExpr.outCols] at hc
  · rintro ⟨cols, hte, hne⟩
    obtain ⟨c, hc⟩ := List.exists_mem_of_ne_nil _ hne
    apply List.ne_nil_of_mem (a := c.2)
    simp only [List.mem_map, List.mem_flatMap]
    exact ⟨c, ⟨_, hte, hc⟩, rfl⟩


open BindExample in
example : expected.outputs ≠ [] :=
  (hasOutputs_iff bindInputs_example).2
    ⟨[(#[99], .field 2 #[85] fc), (#[97], .field 0 #[84] fa)], by simp [tes], by simp⟩

/-! ## C04 (continued) -/

/-- C04.6: the number of tuples is the `numRows` computed by `bindCols`: the common length
    of the bulk columns, or 1 if no bound column is bulk; it is never 0 -/
theorem insert_row_count {tt : TypeTable} {m : TypeToValue} {qb qb' : QB} {cols : List TCol}
    (h : addToQuery tt m qb (.insert cols) = .ok qb') :
    ∃ qb1 bcs numRows names rows,
      bindCols tt m cols qb [] false 1 = .ok (qb1, bcs, numRows) ∧
      qb'.pieces = qb.pieces ++ [.insert names rows] ∧
      rows.length = numRows ∧ 1 ≤ numRows ∧
      ((∀ bc ∈ bcs, bc.bulk = false) → numRows = 1) ∧
      (∀ bc ∈ bcs, bc.bulk = true → bc.vals.length = numRows) := by
  obtain ⟨bcs, numRows, s⟩ := addToQuery_insert_spec h
  obtain ⟨qb1, hb⟩ := s.bound
  exact ⟨qb1, bcs, numRows, _, _, hb, s.pieces, insRows_length _ _, s.rows_pos, s.no_bulk, s.bulk_len⟩

/-- C04.6 at the level of `bindInputs`: the piece generated for the insert expression at
    position `pre.length` -/
theorem insert_row_count_bindInputs {tt : TypeTable} {pre post : List TExpr} {cols : List TCol}
    {args : List GoVal} {pq : Primed} (h : bindInputs tt (pre ++ .insert cols :: post) args = .ok pq) :
    ∃ m q1 qb1 bcs numRows names rows, validateInputs tt args [] = .ok m ∧
      bindCols tt m cols q1 [] false 1 = .ok (qb1, bcs, numRows) ∧
      pq.pieces[pre.length]? = some (.insert names rows) ∧
      rows.length = numRows ∧ 1 ≤ numRows ∧
      ((∀ bc ∈ bcs, bc.bulk = false) → numRows = 1) ∧
      (∀ bc ∈ bcs, bc.bulk = true → bc.vals.length = numRows) := by
  obtain ⟨m, q1, q2, hm, _, hs, hp, _⟩ := bindInputs_step_at' h
  obtain ⟨qb1, bcs, numRows, names, rows, hb, hpc, h1, h2, h3, h4⟩ := insert_row_count hs
  exact ⟨m, q1, qb1, bcs, numRows, names, rows, hm, hb, hp _ hpc, h1, h2, h3, h4⟩

open BindExample in
example : ∃ names rows, expected.pieces[1]? = some (.insert names rows) ∧ rows.length = 2 := by
  obtain ⟨m, q1, qb1, bcs, numRows, names, rows, _, _, hp, hl, _⟩ :=
    insert_row_count_bindInputs (pre := [.bypass #[73]]) (post := tes.drop 2) (cols := _) bindInputs_example
  refine ⟨names, rows, hp, ?_⟩
  have : expected.pieces[1]? = some (.insert [#[97], #[98], #[99], #[100]]
      [[.ph 0, .ph 2, .ph 4, .lit #[49]], [.ph 1, .ph 3, .ph 4, .lit #[49]]]) := rfl
  have hp' : expected.pieces[1]? = some (.insert names rows) := hp
  rw [this] at hp'
  cases hp'; rfl

/-- C04.7 (omission): the insert piece and the parameters as functions of the bound columns.
    A column with `om = true` is filtered out: it contributes no name, no cell and no
    parameter; a kept column contributes exactly one name, one cell per row and at most one
    parameter per row.  `ColsBound` relates the bound columns to the typed columns
    (`locateParams` for insert columns, the literal text for literal columns). -/
theorem insert_omit_spec {tt : TypeTable} {m : TypeToValue} {qb qb' : QB} {cols : List TCol}
    (h : addToQuery tt m qb (.insert cols) = .ok qb') :
    ∃ qb1 bcs numRows, bindCols tt m cols qb [] false 1 = .ok (qb1, bcs, numRows) ∧
      ColsBound tt m cols bcs ∧
      qb'.pieces = qb.pieces ++
        [.insert ((bcs.filter (fun bc => !bc.om)).map (·.column))
          ((List.range numRows).map fun r => (bcs.filter (fun bc => !bc.om)).map (·.cellAt r))] ∧
      qb'.params = qb.params ++
        (List.range numRows).flatMap fun r => (bcs.filter (fun bc => !bc.om)).filterMap (·.paramAt r) := by
  obtain ⟨bcs, numRows, s⟩ := addToQuery_insert_spec h
  obtain ⟨qb1, hb⟩ := s.bound
  exact ⟨qb1, bcs, numRows, hb, s.cols, s.pieces, s.params⟩

/-- non-vacuity of the insert specifications: an `addToQuery` step on an insert expression
    with a bulk argument of two rows, a single-value column and a literal column succeeds
    with five parameters -/
example : ∃ qb', addToQuery BindExample.tt
    [(1, BindExample.args[0]!), (2, BindExample.args[1]!)] {} (BindExample.tes[1]!) = .ok qb' ∧
    qb'.params.length = 5 := ⟨_, rfl, rfl⟩

/-- C04.7 (cells): the cell and parameter of row `r < numRows` of a kept column: a literal
    column gives its literal and no parameter; a single-value column gives `.ph first` in
    every row and its parameter in row 0 only; a bulk column gives `.ph (first + r)` with
    the parameter value `vals[r]`.  `BChain`: the `first` of each column that reserves
    numbers is the running input count (column-major numbering). -/
theorem insert_cell_spec {tt : TypeTable} {m : TypeToValue} {qb qb' : QB} {cols : List TCol}
    (h : addToQuery tt m qb (.insert cols) = .ok qb') :
    ∃ qb1 bcs numRows, bindCols tt m cols qb [] false 1 = .ok (qb1, bcs, numRows) ∧
      BChain qb.inputCount bcs ∧ qb'.inputCount = bcsEnd qb.inputCount bcs ∧
      ∀ bc ∈ bcs, ∀ r, r < numRows →
        (bc.vals = [] → bc.cellAt r = .lit bc.literal ∧ bc.paramAt r = none) ∧
        (bc.bulk = false → ∀ v, bc.vals = [v] →
          bc.cellAt r = .ph bc.first ∧ bc.paramAt r = if r = 0 then some (bc.first, v) else none) ∧
        (bc.bulk = true → ∃ v, bc.vals[r]? = some v ∧
          bc.cellAt r = .ph (bc.first + r) ∧ bc.paramAt r = some (bc.first + r, v)) ∧
        (bc.bulk = false → bc.vals.length ≤ 1) := by
  obtain ⟨bcs, numRows, s⟩ := addToQuery_insert_spec h
  obtain ⟨qb1, hb⟩ := s.bound
  refine ⟨qb1, bcs, numRows, hb, s.ok.chain, s.inputCount, ?_⟩
  intro bc hbc r hr
  refine ⟨BCol.cellAt_lit, ?_, ?_, s.single bc hbc⟩
  · intro _ v hv
    have hl : bc.vals.length = 1 := by simp [hv]
    refine ⟨BCol.cellAt_single hl, ?_⟩
    by_cases h0 : r = 0
    · subst h0
      obtain ⟨v', hv', hp⟩ := BCol.paramAt_single hl
      rw [hv] at hv'; cases hv'; simpa using hp
    · simp [h0, BCol.paramAt_single_ne hl h0]
  · intro hbk
    have hlen := s.bulk_len bc hbc hbk
    rcases Nat.lt_or_ge bc.vals.length 2 with h2 | h2
    · have hl : bc.vals.length = 1 := by have := s.rows_pos; omega
      have hr0 : r = 0 := by omega
      subst hr0
      obtain ⟨v, hv, hp⟩ := BCol.paramAt_single hl
      exact ⟨v, by simp [hv], by simpa using BCol.cellAt_single hl, by simpa using hp⟩
    · obtain ⟨v, hv, hp⟩ := BCol.paramAt_multi h2 (by omega : r < bc.vals.length)
      exact ⟨v, hv, BCol.cellAt_multi h2, hp⟩

/-! ## C03 (continued) -/

/-- C03.3: a slice input expands to one placeholder and one parameter per element, in
    element order (none for the empty slice) -/
theorem slice_input_expansion {tt : TypeTable} {m : TypeToValue} {qb qb' : QB} {tid : Nat} {n : Bytes}
    (h : addToQuery tt m qb (.input (.slice tid n)) = .ok qb') :
    ∃ hd els, ttvGet m tid = some (.slice hd els) ∧
      qb'.pieces = qb.pieces ++ [.inputs qb.inputCount els.length] ∧
      qb'.params = qb.params ++
        ((List.range els.length).zip els).map (fun (i, e) => (qb.inputCount + i, e.h.r)) ∧
      qb'.inputCount = qb.inputCount + els.length := by
  obtain ⟨p, s⟩ := addToQuery_input_spec h
  obtain ⟨hd, els, hg, hv⟩ := locateParams_slice s.located
  refine ⟨hd, els, hg, ?_, ?_, ?_⟩
  · rw [s.pieces, hv]; simp
  · rw [s.params, hv, inputParams_map]
  · rw [s.inputCount, hv]; simp

/-- C03.3, element-wise: the `i`-th new parameter is `(inputCount + i, els[i].r)` -/
theorem slice_input_params_getElem {tt : TypeTable} {m : TypeToValue} {qb qb' : QB} {tid : Nat} {n : Bytes}
    (h : addToQuery tt m qb (.input (.slice tid n)) = .ok qb') :
    ∃ hd els, ttvGet m tid = some (.slice hd els) ∧ qb'.params.length = qb.params.length + els.length ∧
      ∀ i, i < els.length →
        qb'.params[qb.params.length + i]? = els[i]?.map (fun e => (qb.inputCount + i, e.h.r)) := by
  obtain ⟨p, s⟩ := addToQuery_input_spec h
  obtain ⟨hd, els, hg, hv⟩ := locateParams_slice s.located
  refine ⟨hd, els, hg, by rw [s.params, hv]; simp [inputParams_length], ?_⟩
  intro i hi
  rw [s.params, List.getElem?_append_right (by omega), Nat.add_sub_cancel_left, inputParams_getElem?, hv]
  simp; rfl

/-- non-vacuity: a named slice `S` with two elements expands to two placeholders -/
example :
    let m : TypeToValue := [(0, .slice { t := 0, zero := false, r := "" }
      [.leaf { t := 1, zero := false, r := "x" }, .leaf { t := 1, zero := false, r := "y" }])]
    ∃ qb', addToQuery #[{ kind := .slice, kindStr := "slice", name := #[83], elem := 1 }] m
      { inputCount := 7 } (.input (.slice 0 #[83])) = .ok qb' ∧
      qb'.pieces = [.inputs 7 2] ∧ qb'.params = [(7, "x"), (8, "y")] := ⟨_, rfl, rfl, rfl⟩

/-- C03: a plain input expression is bound to exactly the values its locator names: the new
    piece is `.inputs inputCount k` and the new parameters are `(inputCount + i, vals[i])`
    for the `k` values `vals` that `locateParams` finds -/
theorem input_placeholder_values {tt : TypeTable} {m : TypeToValue} {qb qb' : QB} {loc : Loc}
    (h : addToQuery tt m qb (.input loc) = .ok qb') :
    ∃ p, locateParams tt m loc = .ok p ∧ p.om = false ∧ p.bulk = false ∧
      qb'.pieces = qb.pieces ++ [.inputs qb.inputCount p.vals.length] ∧
      qb'.params = qb.params ++ inputParams qb.inputCount p.vals ∧
      (∀ i, (inputParams qb.inputCount p.vals)[i]? = p.vals[i]?.map (fun v => (qb.inputCount + i, v))) ∧
      qb'.inputCount = qb.inputCount + p.vals.length := by
  obtain ⟨p, s⟩ := addToQuery_input_spec h
  exact ⟨p, s.located, s.not_om, s.not_bulk, s.pieces, s.params, inputParams_getElem? _ _, s.inputCount⟩

/-- C03.3, forward direction: if the argument of type `tid` is a slice with elements `els`,
    `addToQuery` succeeds and appends exactly the piece `.inputs inputCount els.length` and
    the parameters `(inputCount + i, els[i].r)` in element order (nothing for the empty
    slice) -/
theorem slice_input_expansion_ok {tt : TypeTable} {m : TypeToValue} {qb : QB} {tid : Nat} {n : Bytes}
    {hd : VH} {els : List GoVal} (hg : ttvGet m tid = some (.slice hd els)) :
    addToQuery tt m qb (.input (.slice tid n)) = .ok { qb with
      argUsed := markUsed qb.argUsed tid
      inputCount := qb.inputCount + els.length
      params := qb.params ++
        ((List.range els.length).zip els).map (fun (i, e) => (qb.inputCount + i, e.h.r))
      pieces := qb.pieces ++ [.inputs qb.inputCount els.length] } := by
  have hp : locateParams tt m (.slice tid n) =
      .ok { vals := els.map (·.h.r), om := false, bulk := false, argType := tid } := by
    simp [locateParams, hg]
  simp only [addToQuery, hp, List.length_map]
  simp only [Bool.false_eq_true, if_false, List.zip_map_right, List.map_map]
  rfl

example {tt : TypeTable} {m : TypeToValue} {qb : QB} {tid : Nat} {n : Bytes} {hd : VH}
    (hg : ttvGet m tid = some (.slice hd [])) :
    ∃ qb', addToQuery tt m qb (.input (.slice tid n)) = .ok qb' ∧ qb'.params = qb.params ∧
      qb'.pieces = qb.pieces ++ [.inputs qb.inputCount 0] :=
  ⟨_, slice_input_expansion_ok hg, by simp, by simp⟩

/-- C03.3 at the level of `bindInputs`: the piece at the position of the slice input and its
    block of parameters -/
theorem slice_input_expansion_bindInputs {tt : TypeTable} {pre post : List TExpr} {tid : Nat} {n : Bytes}
    {args : List GoVal} {pq : Primed}
    (h : bindInputs tt (pre ++ .input (.slice tid n) :: post) args = .ok pq) :
    ∃ m hd els c, validateInputs tt args [] = .ok m ∧ ttvGet m tid = some (.slice hd els) ∧
      pq.pieces[pre.length]? = some (.inputs c els.length) ∧
      ∃ before after, pq.params = before ++
        ((List.range els.length).zip els).map (fun (i, e) => (c + i, e.h.r)) ++ after := by
  obtain ⟨m, q1, q2, hm, _, hs, hp, hps⟩ := bindInputs_step_at' h
  obtain ⟨hd, els, hg, h1, h2, _⟩ := slice_input_expansion hs
  exact ⟨m, hd, els, q1.inputCount, hm, hg, hp _ h1, hps _ h2⟩

/-- C04.7 at the level of `bindInputs`: the piece at the position of the insert expression
    and its block of parameters, as functions of the bound columns -/
theorem insert_spec_bindInputs {tt : TypeTable} {pre post : List TExpr} {cols : List TCol}
    {args : List GoVal} {pq : Primed} (h : bindInputs tt (pre ++ .insert cols :: post) args = .ok pq) :
    ∃ m q1 qb1 bcs numRows, validateInputs tt args [] = .ok m ∧
      bindCols tt m cols q1 [] false 1 = .ok (qb1, bcs, numRows) ∧ ColsBound tt m cols bcs ∧
      BChain q1.inputCount bcs ∧
      pq.pieces[pre.length]? = some
        (.insert ((bcs.filter (fun bc => !bc.om)).map (·.column))
          ((List.range numRows).map fun r => (bcs.filter (fun bc => !bc.om)).map (·.cellAt r))) ∧
      ∃ before after, pq.params = before ++
        ((List.range numRows).flatMap fun r => (bcs.filter (fun bc => !bc.om)).filterMap (·.paramAt r))
        ++ after := by
  obtain ⟨m, q1, q2, hm, _, hs, hp, hps⟩ := bindInputs_step_at' h
  obtain ⟨bcs, numRows, s⟩ := addToQuery_insert_spec hs
  obtain ⟨qb1, hb⟩ := s.bound
  exact ⟨m, q1, qb1, bcs, numRows, hm, hb, s.cols, s.ok.chain, hp _ s.pieces, hps _ s.params⟩

open BindExample in
example := insert_spec_bindInputs (pre := [.bypass #[73]]) (post := tes.drop 2) bindInputs_example

/-! ## C07 -/

/-- C07.12 (core): after a successful `bindCols`, `addInsert` cannot fail: every bulk column
    has `numRows` values, every other column at most one (for ALL typed expressions) -/
theorem addInsert_total_after_bindCols {tt : TypeTable} {m : TypeToValue} {qb qb1 : QB}
    {cols : List TCol} {bcs : List BCol} {numRows : Nat}
    (hb : bindCols tt m cols qb [] false 1 = .ok (qb1, bcs, numRows)) :
    ∃ qb', addInsert qb1 bcs numRows = .ok qb' := by
  obtain ⟨new, hbcs, _, _, _, _, h1, h2, _, _, _⟩ := bindCols_spec _ _ _ _ _ _ _ _ hb
  simp only [List.nil_append] at hbcs
  subst hbcs
  apply addInsert_ok
  intro bc hbc _
  cases hbk : bc.bulk
  · exact Or.inl (h1 bc hbc hbk)
  · exact Or.inr (h2 bc hbc hbk)

/-- C07.12: typed expressions produced by `bindTypes` never make `bindInputs` report an
    internal error -/
theorem no_internal_error {C : Cls} {tt : TypeTable} {segs : List OSeg} {samples : List (Option Nat)}
    {tes : List TExpr} (h : bindTypes C tt segs samples = .ok tes) (args : List GoVal) :
    bindInputs tt tes args ≠ .error "internal-multiple-values" ∧
    bindInputs tt tes args ≠ .error "internal-no-bulk-value" := by
  have hns : ∀ cols, TExpr.insert cols ∈ tes → NoSliceCols cols := bindTypes_insert_locs h
  constructor
  · intro he; exact bindInputs_no_internal_error hns args _ he (Or.inl rfl)
  · intro he; exact bindInputs_no_internal_error hns args _ he (Or.inr rfl)


open PrepExample in
example : bindInputs tt tes args ≠ .error "internal-multiple-values" :=
  (no_internal_error bindTypes_example args).1

/-- the hypothesis is needed: hand-built typed expressions with a slice locator in an insert
    column do reach the internal error -/
example :
    let tt : TypeTable := #[{ kind := .slice, kindStr := "slice", name := #[83], elem := 1 }]
    let v : GoVal := .slice { t := 0, zero := false, r := "" }
      [.leaf { t := 1, zero := false, r := "x" }, .leaf { t := 1, zero := false, r := "y" }]
    bindInputs tt [.insert [.insert (.slice 0 #[83]) #[97] false]] [v] =
      .error "internal-multiple-values" := rfl

/-! ## C04.8: rejections -/

/-- the argument errors of an insert expression, as conditions on its columns and the
    validated arguments `m` -/
inductive InsertRejected (tt : TypeTable) (m : TypeToValue) (cols : List TCol) : Prop
  /-- two bulk columns of different lengths -/
  | mismatchedBulk (l1 l2 : Loc) (c1 c2 : Bytes) (e1 e2 : Bool) (p1 p2 : Params)
      (h1 : TCol.insert l1 c1 e1 ∈ cols) (h2 : TCol.insert l2 c2 e2 ∈ cols)
      (hp1 : locateParams tt m l1 = .ok p1) (hp2 : locateParams tt m l2 = .ok p2)
      (hb1 : p1.bulk = true) (hb2 : p2.bulk = true) (hne : p1.vals.length ≠ p2.vals.length)
  /-- an empty bulk slice -/
  | emptyBulk (l : Loc) (c : Bytes) (ex : Bool) (hd : VH) (h : TCol.insert l c ex ∈ cols)
      (hl : ∀ t n, l ≠ .slice t n) (hg : ttvGet m l.tid = none)
      (hbulk : locateBulk tt m l.tid = some (.slice hd []))
  /-- a bulk slice mixing zero and non-zero values of an omitempty field -/
  | omitemptyMix (tid : Nat) (n : Bytes) (f : SField) (c : Bytes) (ex : Bool) (hd : VH) (els : List GoVal)
      (h : TCol.insert (.field tid n f) c ex ∈ cols) (hf : f.omitEmpty = true)
      (hg : ttvGet m tid = none) (hbulk : locateBulk tt m tid = some (.slice hd els))
      (e1 e2 s1 s2 v1 v2 : GoVal) (h1 : e1 ∈ els) (h2 : e2 ∈ els)
      (hs1 : bulkElem e1 = .ok s1) (hs2 : bulkElem e2 = .ok s2)
      (hv1 : fieldByIndex s1 f.index true = .ok v1) (hv2 : fieldByIndex s2 f.index true = .ok v2)
      (hz1 : v1.h.zero = true) (hz2 : v2.h.zero = false)
  /-- an explicitly referenced omitempty member whose value is zero -/
  | explicitZero (l : Loc) (c : Bytes) (p : Params) (h : TCol.insert l c true ∈ cols)
      (hp : locateParams tt m l = .ok p) (hom : p.om = true)

/-- C04.8 at `addToQuery` -/
theorem insert_rejections_step {tt : TypeTable} {m : TypeToValue} {cols : List TCol}
    (hr : InsertRejected tt m cols) (qb : QB) : ∃ e, addToQuery tt m qb (.insert cols) = .error e := by
  cases hr with
  | mismatchedBulk l1 l2 c1 c2 e1 e2 p1 p2 h1 h2 hp1 hp2 hb1 hb2 hne =>
    exact insert_rejects_mismatched_bulk h1 h2 hp1 hp2 hb1 hb2 hne
  | emptyBulk l c ex hd h hl hg hbulk =>
    exact insert_rejects_column h (Or.inl ⟨_, locateParams_rejects_empty_bulk hl hg hbulk⟩)
  | omitemptyMix tid n f c ex hd els h hf hg hbulk e1 e2 s1 s2 v1 v2 h1 h2 hs1 hs2 hv1 hv2 hz1 hz2 =>
    exact insert_rejects_column h
      (Or.inl (locateParams_rejects_mix hf hg hbulk h1 h2 hs1 hs2 hv1 hv2 hz1 hz2))
  | explicitZero l c p h hp hom =>
    exact insert_rejects_column h (Or.inr ⟨p, hp, hom, rfl⟩)

/-- C04.8: unequal bulk lengths, an empty bulk slice, a zero/non-zero mix under omitempty
    and an explicitly referenced zero omitempty member make `bindInputs` fail -/
theorem insert_rejections {tt : TypeTable} {tes : List TExpr} {args : List GoVal} {m : TypeToValue}
    {cols : List TCol} (hm : validateInputs tt args [] = .ok m) (hte : TExpr.insert cols ∈ tes)
    (hr : InsertRejected tt m cols) : ∃ e, bindInputs tt tes args = .error e :=
  bindInputs_error_of_step hm hte (insert_rejections_step hr)

/-- C04.8 for a plain input expression `$T.member` of an omitempty member that is zero -/
theorem input_rejection_explicit_zero {tt : TypeTable} {tes : List TExpr} {args : List GoVal}
    {m : TypeToValue} {l : Loc} {p : Params} (hm : validateInputs tt args [] = .ok m)
    (hte : TExpr.input l ∈ tes) (hp : locateParams tt m l = .ok p) (hom : p.om = true) :
    ∃ e, bindInputs tt tes args = .error e :=
  bindInputs_error_of_step hm hte (fun _ => ⟨_, input_rejects_explicit_zero hp hom⟩)


namespace RejectExample

def tt : TypeTable := #[
  { kind := .struct, kindStr := "struct", name := #[84] },            -- 0: T
  { kind := .slice, kindStr := "slice", name := #[], elem := 0 },     -- 1: []T
  { kind := .struct, kindStr := "struct", name := #[85] },            -- 2: U
  { kind := .string, kindStr := "string", name := #[] },              -- 3: string
  { kind := .slice, kindStr := "slice", name := #[], elem := 2 } ]    -- 4: []U

def fa : SField := { name := #[65], tag := #[97], omitEmpty := false, index := [0] }
def fb : SField := { name := #[66], tag := #[98], omitEmpty := true, index := [1] }
def fc : SField := { name := #[67], tag := #[99], omitEmpty := false, index := [0] }

def colA : TCol := .insert (.field 0 #[84] fa) #[97] false
def colB : TCol := .insert (.field 0 #[84] fb) #[98] false
def colBx : TCol := .insert (.field 0 #[84] fb) #[98] true
def colC : TCol := .insert (.field 2 #[85] fc) #[99] false

def rowT (a : String) (bz : Bool) : GoVal :=
  .struct { t := 0, zero := false, r := "" }
    [.leaf { t := 3, zero := false, r := a }, .leaf { t := 3, zero := bz, r := "b" }]
def rowU : GoVal := .struct { t := 2, zero := false, r := "" } [.leaf { t := 3, zero := false, r := "c" }]
def sliceT (els : List GoVal) : GoVal := .slice { t := 1, zero := false, r := "" } els
def sliceU (els : List GoVal) : GoVal := .slice { t := 4, zero := false, r := "" } els


/-- non-vacuity: each rejection happens, and omission happens when it should -/
example : bindInputs tt [.insert [colA, colC]]
    [sliceT [rowT "x" false, rowT "y" false], sliceU [rowU, rowU, rowU]] =
    .error "mismatched-bulk-lengths" := rfl
example : bindInputs tt [.insert [colA]] [sliceT []] = .error "empty-slice" := rfl
example : bindInputs tt [.insert [colA, colB]] [sliceT [rowT "x" true, rowT "y" false]] =
    .error "omitempty-mix" := rfl
example : bindInputs tt [.insert [colA, colBx]] [rowT "x" true] = .error "omitempty-explicit-zero" := rfl
example : bindInputs tt [.input (.field 0 #[84] fb)] [rowT "x" true] = .error "omitempty-explicit-zero" := rfl
/-- a zero omitempty column reached through `$T.*` is omitted, in all rows -/
example : bindInputs tt [.insert [colA, colB]] [sliceT [rowT "x" true, rowT "y" true]] =
    .ok { pieces := [.insert [#[97]] [[.ph 0], [.ph 1]]], params := [(0, "x"), (1, "y")], outputs := [] } := rfl

/-- the hypothesis `InsertRejected` of `insert_rejections` is satisfiable -/
example : InsertRejected tt [(0, rowT "x" true)] [colA, colBx] :=
  .explicitZero (.field 0 #[84] fb) #[98] { vals := ["b"], om := true, bulk := false, argType := 0 }
    (by simp [colBx]) rfl rfl

example : ∃ e, bindInputs tt [.insert [colA, colBx]] [rowT "x" true] = .error e :=
  insert_rejections (m := [(0, rowT "x" true)]) (cols := [colA, colBx]) rfl (by simp)
    (.explicitZero (.field 0 #[84] fb) #[98] { vals := ["b"], om := true, bulk := false, argType := 0 }
      (by simp [colBx]) rfl rfl)

end RejectExample

/-- C03 (bonus): the placeholder numbers are exactly `0, …, k-1` (no gaps) -/
theorem placeholders_dense {tt : TypeTable} {tes : List TExpr} {args : List GoVal} {pq : Primed}
    (h : bindInputs tt tes args = .ok pq) : ∃ k, ∀ n, n ∈ phsOf pq.pieces ↔ n < k := by
  obtain ⟨qb, inv, hpc, _, _⟩ := bindInputs_inv h
  exact ⟨qb.inputCount, fun n => by rw [hpc]; exact ⟨inv.bound n, inv.dense n⟩⟩

open BindExample in
example : ∃ k, ∀ n, n ∈ phsOf expected.pieces ↔ n < k := placeholders_dense bindInputs_example

/-- (bonus, C01 at the bind layer) pieces and typed expressions correspond one to one, and a
    bypass chunk becomes the text piece at the same position, unchanged -/
theorem pieces_correspond {tt : TypeTable} {tes : List TExpr} {args : List GoVal} {pq : Primed}
    (h : bindInputs tt tes args = .ok pq) :
    pq.pieces.length = tes.length ∧
    ∀ pre chunk post, tes = pre ++ .bypass chunk :: post → pq.pieces[pre.length]? = some (.text chunk) := by
  constructor
  · obtain ⟨m, qb, _, hq, _, rfl⟩ := bindInputs_ok_unfold h
    obtain ⟨⟨ps, h1, h2, _⟩, _, _⟩ := foldlM_addToQuery_grow _ _ _ hq
    simp only [List.nil_append] at h1
    rw [h1, h2]
  · intro pre chunk post hte
    subst hte
    obtain ⟨m, q1, q2, _, _, hs, hp, _⟩ := bindInputs_step_at' h
    apply hp
    simp [addToQuery] at hs
    subst hs; rfl

open BindExample in
example : expected.pieces.length = tes.length := (pieces_correspond bindInputs_example).1

/-! ## C05.11: no wildcard among the generated output columns

  Proved in `SqlairProofs/Bind/Tag.lean`:
  * `parseTag_ok_ne_star`: under `hC : C.letter 42 = false ∧ C.digit 42 = false`, a tag name
    accepted by `parseTag` is not `*` (`parseTag_ok_cases`/`parseTag_ok_runes`: it is
    non-empty and either quoted or consists of letter/digit/underscore runes;
    `parseTag_ok_noStarEnd`: it does not end with the byte `*`).  `hC` is needed: with a
    classifier that calls `*` a letter, `parseTag` accepts `*` (machine-checked there).
  * `generateArgInfo_validTags(End)`: the infos of a successful `generateArgInfo` have valid tags.
  * `no_star_generated` (full strength, `*` part): with valid tags no generated column is `*`.
  * `explicit_star_only_generating`: an explicit `*` column is only accepted as the single
    column of the generating form.
  The `t.*` part as sketched (valid tags only) is FALSE of the model for arbitrary nodes: a map
  type with the member `x.*` generates the column `x.*` (machine-checked `example` in Tag.lean;
  the parser never produces such a member).  The strongest true variant: -/

/-- C05.11 (partial, for an ARBITRARY node): no generated output column is `*` or of the form
    `t.*`.  Gap: the hypothesis `NodeNoStarEnd s` on the node (its members and columns are `*`
    or do not end with the byte `*`); it is proved of every node the parser produces
    (`parse_nodeNoStarEnd`, `SqlairProofs/Bind/ParserNodes.lean`), which gives the full
    statement `no_wildcard_generated` below. -/
theorem no_wildcard_generated_partial {st st' : TEB} {s : OSeg} (hk : s.kind = .output)
    (h : bindSeg st s = .ok st') (hv : ValidTagsEnd st.argInfos) (hn : NodeNoStarEnd s) :
    ∃ cols, st'.exprs = st.exprs ++ [.output cols] ∧
      ∀ c ∈ cols, c.1 ≠ star ∧ ∀ t, c.1 ≠ t ++ dot ++ star :=
  bindSeg_no_wildcard hk h hv hn

/-- C05.11 for `bindTypes` on arbitrary nodes (partial, same gap): no output column of a
    prepared statement is a wildcard, for every classifier that does not call `*` a letter
    or digit -/
theorem no_wildcard_prepared_partial {C : Cls} (hC : C.letter 42 = false ∧ C.digit 42 = false)
    {tt : TypeTable} {segs : List OSeg} {samples : List (Option Nat)} {tes : List TExpr}
    (h : bindTypes C tt segs samples = .ok tes) (hn : ∀ s ∈ segs, NodeNoStarEnd s) :
    ∀ cols, TExpr.output cols ∈ tes → ∀ c ∈ cols, c.1 ≠ star ∧ ∀ t, c.1 ≠ t ++ dot ++ star :=
  bindTypes_no_wildcard hC h hn

open PrepExample in
example : ∀ cols, TExpr.output cols ∈ tes → ∀ c ∈ cols, c.1 ≠ star ∧ ∀ t, c.1 ≠ t ++ dot ++ star :=
  no_wildcard_prepared_partial (C := C) (by decide) bindTypes_example (by
    intro s hs
    simp only [segs, List.mem_cons, List.not_mem_nil, or_false] at hs
    rcases hs with rfl | rfl | rfl | rfl <;> (unfold NodeNoStarEnd NoStarEnd; decide))


/-- C05.11 (full strength, end to end): parse a query with the Go-faithful decoder and bind
    it: no output column of the typed expressions is `*` or of the form `t.*`, for every
    type table and every classifier that does not call `*` (42) a letter or a digit (needed:
    machine-checked counterexamples in `Tag.lean` and `ParserNodes.lean`). -/
theorem no_wildcard_generated (inp : Bytes) {C : Cls}
    (hC : C.letter 42 = false ∧ C.digit 42 = false)
    {tt : TypeTable} {segs : List Seg} {samples : List (Option Nat)} {tes : List TExpr}
    (hp : parse { inp := inp, dec := decodeRune, letter := C.letter, digit := C.digit } = .ok segs)
    (hb : bindTypes C tt (segs.map (Seg.toOSeg inp)) samples = .ok tes) :
    ∀ cols, TExpr.output cols ∈ tes → ∀ c ∈ cols, c.1 ≠ star ∧ ∀ t, c.1 ≠ t ++ dot ++ star :=
  parse_bindTypes_no_wildcard_decodeRune inp hC hp hb

/-- non-vacuity: `SELECT &T.* FROM t` parses (`ParserNodesEx.parse_q1`), binds against a
    struct `T` with tags `a`, `b`, and the theorem applies to the result -/
example : (bindTypes ParserNodesEx.cls ParserNodesEx.tt
      (ParserNodesEx.segs1.map (Seg.toOSeg ParserNodesEx.q1)) [some 0]).isOk = true ∧
    ∀ tes, bindTypes ParserNodesEx.cls ParserNodesEx.tt
      (ParserNodesEx.segs1.map (Seg.toOSeg ParserNodesEx.q1)) [some 0] = .ok tes →
    ∀ cols, TExpr.output cols ∈ tes → ∀ c ∈ cols, c.1 ≠ star ∧ ∀ t, c.1 ≠ t ++ dot ++ star :=
  ⟨by rfl, fun _ hb => no_wildcard_generated ParserNodesEx.q1 (C := ParserNodesEx.cls) (by decide)
    ParserNodesEx.parse_q1 hb⟩

/-! ## C08.13: argument order

  Proved in `SqlairProofs/Bind/Perm.lean` and `PermPrepared.lean`.  The statement as sketched
  (arbitrary type table, typed expressions and arguments) is FALSE of the model:
  * `bindInputs_perm_counterexample_named_slice`, `bindInputs_perm_counterexample_named_ptr`
    (gap A): the "type-and-slice" test of `validateInputs` is asymmetric for an anonymous
    `[]P` with `P` a pointer type that is not the anonymous `*T` of a struct/map `T`; with
    hand-built typed expressions one order is accepted, the other rejected.
  * `bindInputs_perm_counterexample_noncanonical` (gap B): a type table with two ids for the
    same `[]T` (impossible for `reflect.Type`, a model artefact).
  True variants: `validateInputs_perm`, `addToQuery_perm(_eq)`, `bindInputs_perm_invariant_partial`
  (arbitrary typed expressions, hypotheses `PtrSliceSym tt args`, `SliceCanonOn tt (args.map argKey)`),
  and, for prepared statements, without the gap-A hypothesis: -/

/-- C08.13 (partial): for typed expressions produced by `bindTypes` on the same type table,
    acceptance and the whole result of `bindInputs` (SQL pieces, parameters, outputs) do not
    depend on the order of the arguments.  Gap: `SliceCanon tt` (anonymous slice types have a
    unique id: identity of `reflect.Type` is identity of ids), and the restriction to
    prepared statements (the asymmetry of `validateInputs` then only changes the error class:
    an argument of the offending type can never be used, so the accepted order ends with
    "argument-not-used"). -/
theorem bindInputs_perm_invariant_prepared_partial {C : Cls} {tt : TypeTable} {segs : List OSeg}
    {samples : List (Option Nat)} {tes : List TExpr} (h : bindTypes C tt segs samples = .ok tes)
    (hB : SliceCanon tt) {args args' : List GoVal} (hp : args.Perm args') :
    (bindInputs tt tes args).toOption = (bindInputs tt tes args').toOption :=
  bindInputs_perm_invariant_of_kindOK' tt tes (bindTypes_inputLocs_kindOK h) hB hp

open PrepExample in
example : (bindInputs tt tes args).toOption = (bindInputs tt tes args.reverse).toOption ∧
    (bindInputs tt tes args).isOk = true :=
  ⟨bindInputs_perm_invariant_prepared_partial bindTypes_example
    ((sliceCanon_iff_range tt).2 (by decide +kernel)) (List.reverse_perm _).symm, rfl⟩


end Sqlair
