/-
  Opacity of literals and comments, scanner level: on a state at a code offset of the
  lexer, every scanner primitive behaves the same on `E` and on `opqEnv E inp'`.

  The two skippers that run through a literal or a comment (`skipStringLiteral`,
  `skipComment`) are handled through the bridge lemmas of `LexScan.lean`: both runs stop
  where their lexer stops, the lexers agree (`OpqEnv.next`), and a consistent scanner state
  is determined by its offset (`opq_sc_eq`).
-/
import SqlairProofs.Opaque.Defs

namespace Sqlair

section
variable {E : Env} {inp' : Bytes}

/-! ### states -/

theorem opq_sc_ext {s t : Sc} (h1 : s.pos = t.pos) (h2 : s.nextPos = t.nextPos) (h3 : s.char = t.char)
    (h4 : s.lineNum = t.lineNum) (h5 : s.lineStart = t.lineStart) : s = t := by
  cases s; cases t; simp only [] at h1 h2 h3 h4 h5; subst h1 h2 h3 h4 h5; rfl

/-- a state at a code offset is consistent for the second input as well -/
theorem opq_good (R : OpqEnv E inp') {s : Sc} (l : LC E s) : Good (opqEnv E inp') s where
  pos_le := by rw [opq_len R]; exact l.good.pos_le
  next := fun hp => by
    rw [opq_len R] at hp
    show s.nextPos = s.pos + (E.dec inp' s.pos).2 ∧ s.char = (E.dec inp' s.pos).1
    rw [R.dec s.pos l.code hp]
    exact l.good.next hp
  next_eof := fun hp => by
    rw [opq_len R] at hp
    exact l.good.next_eof hp
  line := by
    show _ = lineColOf inp' s.pos
    rw [R.lineCol]; exact l.good.line
  lineStart_le := l.good.lineStart_le

/-- at the end of the input the current character is 0 (true of every state produced by
    `advanceChar`; `Good` says nothing about it) -/
def OpqEofZ (E : Env) (s : Sc) : Prop := E.len ≤ s.pos → s.char = 0

theorem opq_advanceChar_eofZ (s : Sc) : OpqEofZ E (advanceChar E s) := by
  intro hp
  rw [advanceChar_pos] at hp
  rw [advanceChar_char, if_pos hp]

/-- two consistent states (one for each input) at the same code offset are equal -/
theorem opq_sc_eq (R : OpqEnv E inp') {s1 s1' : Sc} (g : Good E s1) (g' : Good (opqEnv E inp') s1')
    (hpos : s1'.pos = s1.pos) (hc : LexCode E s1.pos) (hz : OpqEofZ E s1)
    (hz' : OpqEofZ (opqEnv E inp') s1') : s1' = s1 := by
  have hline := g'.line
  rw [show (opqEnv E inp').inp = inp' from rfl, R.lineCol, hpos, ← g.line] at hline
  have hl1 := (Prod.mk.inj hline).1
  have hl2 := (Prod.mk.inj hline).2
  have hs := g.lineStart_le
  have hs' := g'.lineStart_le
  by_cases hp : s1.pos < E.len
  · have hp' : s1'.pos < (opqEnv E inp').len := by rw [opq_len R, hpos]; exact hp
    obtain ⟨hn, hch⟩ := g.next hp
    obtain ⟨hn', hch'⟩ := g'.next hp'
    rw [show (opqEnv E inp').dec (opqEnv E inp').inp s1'.pos = E.dec inp' s1'.pos from rfl, hpos,
      R.dec s1.pos hc hp] at hn' hch'
    exact opq_sc_ext hpos (by rw [hn, hn']) (by rw [hch, hch']) hl1 (by omega)
  · have hle := g.pos_le
    have hpe : s1.pos = E.len := by omega
    have hpe' : s1'.pos = (opqEnv E inp').len := by rw [opq_len R, hpos]; exact hpe
    have hn := g.next_eof hpe
    have hn' := g'.next_eof hpe'
    have hch := hz (by omega)
    have hch' := hz' (by omega)
    exact opq_sc_ext hpos (by rw [hn, hn', hpos]) (by rw [hch, hch']) hl1 (by omega)

/-! ### advanceChar, skipChar -/

/-- `advanceChar` over a plain rune -/
theorem opq_advanceChar (R : OpqEnv E inp') {s : Sc} (l : LC E s)
    (hpl : s.pos < E.len → PlainAt E s.pos) : advanceChar (opqEnv E inp') s = advanceChar E s :=
  opq_sc_eq R (advanceChar_good R.decE l.good) (advanceChar_good R.decOK (opq_good R l))
    (by rw [advanceChar_pos, advanceChar_pos]) (advanceChar_lc R.decE l hpl).code
    (opq_advanceChar_eofZ s) (opq_advanceChar_eofZ s)

theorem opq_advanceChar_char (R : OpqEnv E inp') {s : Sc} (l : LC E s)
    (hc : s.char ≠ 34 ∧ s.char ≠ 39 ∧ s.char ≠ 45 ∧ s.char ≠ 47) :
    advanceChar (opqEnv E inp') s = advanceChar E s :=
  opq_advanceChar R l (fun hp => plainAt_of_char l.good hp hc)

theorem opq_advanceChar_name (R : OpqEnv E inp') {s : Sc} (l : LC E s)
    (hn : isNameChar E s.char = true) : advanceChar (opqEnv E inp') s = advanceChar E s := by
  have := nameChar_plain R.cls hn
  exact opq_advanceChar_char R l ⟨this.1, this.2.1, this.2.2.1, this.2.2.2.1⟩

/-- skipping a character other than the quotes, `-` and `/` -/
theorem opq_skipChar (R : OpqEnv E inp') {c : Nat} (hc : c ≠ 34 ∧ c ≠ 39 ∧ c ≠ 45 ∧ c ≠ 47) {s : Sc}
    (l : LC E s) : skipChar (opqEnv E inp') c s = skipChar E c s := by
  unfold skipChar
  rw [opq_len R]
  split
  · next hn => rw [opq_advanceChar_char R l (by rw [hn.2]; exact hc)]
  · rfl

theorem opq_skipChar_eofZ (c : Nat) {s : Sc} (hz : OpqEofZ E s) : OpqEofZ E (skipChar E c s).1 := by
  unfold skipChar
  split
  · exact opq_advanceChar_eofZ s
  · exact hz

/-! ### skipString -/

theorem opq_bAt (R : OpqEnv E inp') {p : Nat} (hc : LexCode E p) : bAt inp' p = bAt E.inp p := by
  unfold bAt; rw [R.byte p hc]

theorem opq_foldEqAt (R : OpqEnv E inp') : ∀ (kw : List Nat), (∀ k, k ∈ kw → 65 ≤ k ∧ k ≤ 90) →
    ∀ (p : Nat), p + kw.length ≤ E.len → LexCode E p → foldEqAt inp' p kw = foldEqAt E.inp p kw := by
  intro kw
  induction kw with
  | nil => intros; rfl
  | cons k ks ih =>
    intro hkw p hle hl
    simp only [List.length_cons] at hle
    unfold foldEqAt
    rw [opq_bAt R hl]
    by_cases hf : (asciiLower (bAt E.inp p) == asciiLower k) = true
    · have h1 : foldEqAt E.inp p [k] = true := by
        unfold foldEqAt foldEqAt; rw [hf]; rfl
      have hl1 := foldEqAt_lc R.decE R.asciiE [k] (fun k' hk' => by
        rw [List.mem_singleton] at hk'; subst hk'; exact hkw _ List.mem_cons_self) p
        (by simp only [List.length_cons, List.length_nil]; omega) h1 hl
      rw [ih (fun k' hk' => hkw k' (List.mem_cons_of_mem _ hk')) (p+1) (by omega) hl1]
    · rw [Bool.not_eq_true] at hf
      rw [hf]; rfl

theorem opq_skipString (R : OpqEnv E inp') (kw : List Nat) (hkw : ∀ k, k ∈ kw → 65 ≤ k ∧ k ≤ 90)
    {s : Sc} (l : LC E s) : skipString (opqEnv E inp') kw s = skipString E kw s := by
  unfold skipString
  rw [opq_len R, show (opqEnv E inp').inp = inp' from rfl, show (opqEnv E inp').dec = E.dec from rfl]
  by_cases hcond : s.pos + kw.length ≤ E.len ∧ foldEqAt E.inp s.pos kw = true
  · have hf := opq_foldEqAt R kw hkw s.pos hcond.1 l.code
    rw [if_pos hcond, if_pos ⟨hcond.1, by rw [hf]; exact hcond.2⟩]
    simp only []
    by_cases hp : s.pos + kw.length < E.len
    · simp only [if_pos hp, R.dec _ (foldEqAt_lc R.decE R.asciiE kw hkw s.pos hcond.1 hcond.2 l.code) hp]
    · simp only [if_neg hp]
  · have hn : ¬ (s.pos + kw.length ≤ E.len ∧ foldEqAt inp' s.pos kw = true) := by
      intro hx
      exact hcond ⟨hx.1, by rw [← opq_foldEqAt R kw hkw s.pos hx.1 l.code]; exact hx.2⟩
    rw [if_neg hcond, if_neg hn]

theorem opq_skipString_AS (R : OpqEnv E inp') {s : Sc} (l : LC E s) :
    skipString (opqEnv E inp') kwAS s = skipString E kwAS s := opq_skipString R kwAS kwAS_upper l

theorem opq_skipString_VALUES (R : OpqEnv E inp') {s : Sc} (l : LC E s) :
    skipString (opqEnv E inp') kwVALUES s = skipString E kwVALUES s :=
  opq_skipString R kwVALUES kwVALUES_upper l

/-! ### skipComment -/

theorem opq_commentLoop_eofZ (endc : Nat) : ∀ (f : Nat) {s s' : Sc}, OpqEofZ E s →
    commentLoop E endc f s = some s' → OpqEofZ E s' := by
  intro f
  induction f with
  | zero => intro s s' _ hs'; unfold commentLoop at hs'; cases hs'
  | succ f ih =>
    intro s s' hz hs'
    unfold commentLoop at hs'
    split at hs'
    · split at hs'
      · split at hs'
        · simp only [] at hs'
          split at hs'
          · cases hs'; exact opq_skipChar_eofZ 47 (opq_advanceChar_eofZ s)
          · exact ih (opq_skipChar_eofZ 47 (opq_advanceChar_eofZ s)) hs'
        · cases hs'; exact hz
      · exact ih (opq_advanceChar_eofZ s) hs'
    · cases hs'; exact hz

theorem opq_skipComment_eofZ {s : Sc} (hz : OpqEofZ E s) : OpqEofZ E (skipComment E s).1 := by
  unfold skipComment
  extract_lets c r1 r1' r2
  have hz1 : OpqEofZ E r1'.1 := by
    unfold r1'
    split
    · exact opq_skipChar_eofZ 45 hz
    · exact opq_skipChar_eofZ 47 hz
  have hz2 : OpqEofZ E r2.1 := by
    unfold r2
    split
    · exact opq_skipChar_eofZ 45 hz1
    · split
      · exact opq_skipChar_eofZ 42 hz1
      · exact hz1
  split
  · split
    · split
      · next s3 hs3 => exact opq_commentLoop_eofZ _ _ hz2 hs3
      · exact hz
    · exact hz
  · exact hz

/-- `skipComment` succeeds exactly on a comment opener -/
theorem opq_skipComment_flag (h : DecOK E) {s : Sc} (g : Good E s) :
    (skipComment E s).2 = true ↔ (s.pos < E.len ∧ (LineOpen E s.pos ∨ BlockOpen E s.pos)) := by
  obtain ⟨ht, hf⟩ := skipComment_eq_lexer h g
  constructor
  · intro hx
    obtain ⟨hp, hor⟩ := ht hx
    exact ⟨hp, hor.elim (fun a => Or.inl a.1) (fun a => Or.inr a.1)⟩
  · intro hx
    cases hb : (skipComment E s).2 with
    | true => rfl
    | false =>
      obtain ⟨hl, hbk⟩ := (hf hb).2 hx.1
      exact (hx.2.elim hl hbk).elim

theorem opq_skipComment (R : OpqEnv E inp') {s : Sc} (l : LC E s) :
    skipComment (opqEnv E inp') s = skipComment E s := by
  have g' := opq_good R l
  have hflag : (skipComment (opqEnv E inp') s).2 = (skipComment E s).2 := by
    have h1 := opq_skipComment_flag R.decE l.good
    have h2 := opq_skipComment_flag R.decOK g'
    rw [opq_len R] at h2
    have hiff : (skipComment (opqEnv E inp') s).2 = true ↔ (skipComment E s).2 = true := by
      rw [h1, h2]
      constructor
      · intro hx
        exact ⟨hx.1, hx.2.elim (fun a => Or.inl ((R.lineOpen _ l.code hx.1).mp a))
          (fun a => Or.inr ((R.blockOpen _ l.code hx.1).mp a))⟩
      · intro hx
        exact ⟨hx.1, hx.2.elim (fun a => Or.inl ((R.lineOpen _ l.code hx.1).mpr a))
          (fun a => Or.inr ((R.blockOpen _ l.code hx.1).mpr a))⟩
    cases hb : (skipComment E s).2 with
    | true => exact hiff.mpr hb
    | false =>
      cases hb' : (skipComment (opqEnv E inp') s).2 with
      | true => rw [hiff.mp hb'] at hb; cases hb
      | false => rfl
  refine Prod.ext ?_ hflag
  cases hb : (skipComment E s).2 with
  | true =>
    have hb' : (skipComment (opqEnv E inp') s).2 = true := by rw [hflag, hb]
    obtain ⟨hp, hn⟩ := skipComment_lexNext R.decE l.good hb
    obtain ⟨_, hn'⟩ := skipComment_lexNext R.decOK g' hb'
    rw [R.next _ l.code hp, hn] at hn'
    exact opq_sc_eq R (skipComment_bok R.decE l.good).good (skipComment_bok R.decOK g').good
      (Option.some.inj hn').symm (skipComment_lc R.decE l).code
      (opq_skipComment_eofZ (fun hx => by have := l.good.pos_le; omega))
      (opq_skipComment_eofZ (fun hx => by rw [opq_len R] at hx; have := l.good.pos_le; omega))
  | false =>
    have hb' : (skipComment (opqEnv E inp') s).2 = false := by rw [hflag, hb]
    rw [(skipComment_bok R.decE l.good).rest hb, (skipComment_bok R.decOK g').rest hb']

/-! ### skipStringLiteral -/

theorem opq_skipCharFindLoop_eofZ (c : Nat) : ∀ (f : Nat) {s s' : Sc},
    skipCharFindLoop E c f s = some (some s') → OpqEofZ E s' := by
  intro f
  induction f with
  | zero => intro s s' hs'; unfold skipCharFindLoop at hs'; cases hs'
  | succ f ih =>
    intro s s' hs'
    unfold skipCharFindLoop at hs'
    split at hs'
    · split at hs'
      · cases hs'; exact opq_advanceChar_eofZ s
      · exact ih hs'
    · cases hs'

theorem opq_skipCharFind_eofZ (c : Nat) {s : Sc} (ht : (skipCharFind E c s).2 = true) :
    OpqEofZ E (skipCharFind E c s).1 := by
  unfold skipCharFind at ht ⊢
  split at ht
  · next s' hs' => exact opq_skipCharFindLoop_eofZ c _ hs'
  · cases ht

theorem opq_strLitLoop_eofZ (c : Nat) : ∀ (f : Nat) (b : Bool) {s s' : Sc},
    strLitLoop E c f b s = some (some s') → OpqEofZ E s' := by
  intro f
  induction f with
  | zero => intro b s s' hs'; unfold strLitLoop at hs'; cases hs'
  | succ f ih =>
    intro b s s' hs'
    unfold strLitLoop at hs'
    simp only [] at hs'
    split at hs'
    · next ht =>
      split at hs'
      · cases hs'; exact opq_skipCharFind_eofZ c ht
      · exact ih _ hs'
    · cases hs'

theorem opq_skipStringLiteral_eofZ {s s1 : Sc} {u : Unit}
    (heq : skipStringLiteral E s = (s1, .ok u)) : OpqEofZ E s1 := by
  unfold skipStringLiteral at heq
  extract_lets c r r' at heq
  split at heq
  · split at heq
    · next s' hs' => cases heq; exact opq_strLitLoop_eofZ _ _ _ hs'
    · cases heq
    · cases heq
  · cases heq

theorem opq_skipStringLiteral (R : OpqEnv E inp') {s : Sc} (l : LC E s) :
    skipStringLiteral (opqEnv E inp') s = skipStringLiteral E s := by
  have g' := opq_good R l
  obtain ⟨hok, herr, hno⟩ := skipStringLiteral_eq_lexer R.decE l.good
  obtain ⟨hok', herr', hno'⟩ := skipStringLiteral_eq_lexer R.decOK g'
  obtain ⟨hnok, hnerr⟩ := skipStringLiteral_lexNext R.decE l.good
  obtain ⟨hnok', hnerr'⟩ := skipStringLiteral_lexNext R.decOK g'
  have lres := skipStringLiteral_lc R.decE l
  have gres' := (skipStringLiteral_sok R.decOK g').good
  rw [opq_len R] at hok' herr' hno' hnok' hnerr'
  generalize hr : skipStringLiteral E s = r at *
  generalize hr' : skipStringLiteral (opqEnv E inp') s = r' at *
  obtain ⟨s1, res⟩ := r
  obtain ⟨s1', res'⟩ := r'
  cases res with
  | ok u =>
    obtain ⟨hp, hn⟩ := hnok s1 u rfl
    obtain ⟨_, hq, _⟩ := hok s1 u rfl
    cases res' with
    | ok u' =>
      obtain ⟨_, hn'⟩ := hnok' s1' u' rfl
      rw [R.next _ l.code hp, hn] at hn'
      have : s1' = s1 := opq_sc_eq R lres.good gres' (Option.some.inj hn').symm lres.code
        (opq_skipStringLiteral_eofZ hr) (opq_skipStringLiteral_eofZ hr')
      rw [this]
    | err e' =>
      obtain ⟨_, hn'⟩ := hnerr' s1' e' rfl
      rw [R.next _ l.code hp, hn] at hn'
      cases hn'
    | no => exact ((hno' s1' rfl).2 ⟨hp, hq⟩).elim
  | err e =>
    obtain ⟨hp, hn⟩ := hnerr s1 e rfl
    obtain ⟨_, hq, _, hs1, he⟩ := herr s1 e rfl
    cases res' with
    | ok u' =>
      obtain ⟨_, hn'⟩ := hnok' s1' u' rfl
      rw [R.next _ l.code hp, hn] at hn'
      cases hn'
    | err e' =>
      obtain ⟨_, _, _, hs1', he'⟩ := herr' s1' e' rfl
      rw [hs1, he, hs1', he']
    | no => exact ((hno' s1' rfl).2 ⟨hp, hq⟩).elim
  | no =>
    obtain ⟨hs1, hnq⟩ := hno s1 rfl
    cases res' with
    | ok u' => obtain ⟨hp, hq, _⟩ := hok' s1' u' rfl; exact (hnq ⟨hp, hq⟩).elim
    | err e' => obtain ⟨hp, hq, _⟩ := herr' s1' e' rfl; exact (hnq ⟨hp, hq⟩).elim
    | no => rw [hs1, (hno' s1' rfl).1]

/-! ### skipBlanks -/

theorem opq_blanksLoop (R : OpqEnv E inp') : ∀ (f : Nat) {s : Sc}, LC E s →
    blanksLoop (opqEnv E inp') f s = blanksLoop E f s := by
  intro f
  induction f with
  | zero => intros; rfl
  | succ f ih =>
    intro s l
    unfold blanksLoop
    rw [opq_len R, opq_skipComment R l]
    split
    · simp only []
      split
      · exact ih (skipComment_lc R.decE l)
      · split
        · next hb =>
          have hc : s.char ≠ 34 ∧ s.char ≠ 39 ∧ s.char ≠ 45 ∧ s.char ≠ 47 := by omega
          rw [opq_advanceChar_char R l hc]
          exact ih (advanceChar_lc_char R.decE l hc)
        · rfl
    · rfl

theorem opq_skipBlanks (R : OpqEnv E inp') {s : Sc} (l : LC E s) :
    skipBlanks (opqEnv E inp') s = skipBlanks E s := by
  unfold skipBlanks
  rw [opq_len R, opq_blanksLoop R _ l]

/-! ### names -/

theorem opq_nameLoop (R : OpqEnv E inp') : ∀ (f : Nat) {s : Sc}, LC E s →
    nameLoop (opqEnv E inp') f s = nameLoop E f s := by
  intro f
  induction f with
  | zero => intros; rfl
  | succ f ih =>
    intro s l
    unfold nameLoop
    rw [opq_len R]
    by_cases hn : s.pos < E.len ∧ isNameChar E s.char = true
    · rw [if_pos hn, if_pos (show s.pos < E.len ∧ isNameChar (opqEnv E inp') s.char = true from hn),
        opq_advanceChar_name R l hn.2]
      exact ih (advanceChar_lc_name R.decE R.cls l hn.2)
    · rw [if_neg hn, if_neg (show ¬ (s.pos < E.len ∧ isNameChar (opqEnv E inp') s.char = true) from hn)]

theorem opq_nameLoop_getD (R : OpqEnv E inp') {s : Sc} (l : LC E s) :
    (nameLoop (opqEnv E inp') ((opqEnv E inp').len + 1) s).getD s = (nameLoop E (E.len + 1) s).getD s := by
  rw [opq_len R, opq_nameLoop R _ l]

/-- `parseTypeName`: the same state, and a name on both sides or on neither -/
theorem opq_parseTypeName (R : OpqEnv E inp') {s : Sc} (l : LC E s) :
    (∃ s1 a b, parseTypeName E s = (s1, some a) ∧ parseTypeName (opqEnv E inp') s = (s1, some b)) ∨
    (∃ s1, parseTypeName E s = (s1, none) ∧ parseTypeName (opqEnv E inp') s = (s1, none)) := by
  unfold parseTypeName
  by_cases hi : isInitialNameChar E s.char = true
  · have hi' : isInitialNameChar (opqEnv E inp') s.char = true := hi
    have hn := isInitialNameChar_isNameChar hi
    simp only [if_pos hi, if_pos hi']
    rw [opq_advanceChar_name R l hn, opq_nameLoop_getD R (advanceChar_lc_name R.decE R.cls l hn)]
    split
    · exact Or.inl ⟨_, _, _, rfl, rfl⟩
    · exact Or.inr ⟨_, rfl, rfl⟩
  · have hi' : ¬ isInitialNameChar (opqEnv E inp') s.char = true := hi
    simp only [if_neg hi, if_neg hi']
    split
    · exact Or.inl ⟨_, _, _, rfl, rfl⟩
    · exact Or.inr ⟨_, rfl, rfl⟩

end
end Sqlair
