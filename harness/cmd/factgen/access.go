package main

// Structural facts (DESIGN 12.5): which functions write the main-loop state of the parser
// (the model's frame property: helper parse functions take and return the scanner record
// only), and which functions of cache.go touch the two cache maps / take the cache mutex
// (the model treats look-up, insertion and the finalizers as atomic steps: that is the
// mutex).  Extracted with go/ast from the working tree on every run.

import (
	"go/ast"
	"sort"
)

// rootField returns the name of the field selected at the root of an lvalue / map operand:
// x.f, x.f[i], x.f[i][j], x.y.f ... -> f (the outermost selector that is being indexed).
func rootField(e ast.Expr) string {
	for {
		switch x := e.(type) {
		case *ast.IndexExpr:
			e = x.X
		case *ast.ParenExpr:
			e = x.X
		case *ast.StarExpr:
			e = x.X
		case *ast.SelectorExpr:
			return x.Sel.Name
		default:
			return ""
		}
	}
}

type access struct {
	writers, users map[string]bool
}

// fieldAccess: per function of the file, does it write (assign, inc/dec, delete from, append
// to) or mention at all one of the fields.
func fieldAccess(f *ast.File, fields map[string]bool) access {
	a := access{writers: map[string]bool{}, users: map[string]bool{}}
	for _, d := range f.Decls {
		fd, ok := d.(*ast.FuncDecl)
		if !ok || fd.Body == nil {
			continue
		}
		name := fd.Name.Name
		ast.Inspect(fd.Body, func(n ast.Node) bool {
			switch x := n.(type) {
			case *ast.AssignStmt:
				for _, l := range x.Lhs {
					if fields[rootField(l)] {
						a.writers[name] = true
					}
				}
			case *ast.IncDecStmt:
				if fields[rootField(x.X)] {
					a.writers[name] = true
				}
			case *ast.CallExpr:
				if id, ok := x.Fun.(*ast.Ident); ok && id.Name == "delete" && len(x.Args) > 0 && fields[rootField(x.Args[0])] {
					a.writers[name] = true
				}
			case *ast.SelectorExpr:
				if fields[x.Sel.Name] {
					a.users[name] = true
				}
			}
			return true
		})
	}
	return a
}

// callers of <anything>.<field>.<method>() per function, e.g. sc.mutex.Lock()
func methodCallers(f *ast.File, field string, methods map[string]bool) map[string]bool {
	out := map[string]bool{}
	for _, d := range f.Decls {
		fd, ok := d.(*ast.FuncDecl)
		if !ok || fd.Body == nil {
			continue
		}
		ast.Inspect(fd.Body, func(n ast.Node) bool {
			if c, ok := n.(*ast.CallExpr); ok {
				if s, ok := c.Fun.(*ast.SelectorExpr); ok && methods[s.Sel.Name] {
					if in, ok := s.X.(*ast.SelectorExpr); ok && in.Sel.Name == field {
						out[fd.Name.Name] = true
					}
				}
			}
			return true
		})
	}
	return out
}

func sortedKeys(m map[string]bool) []string {
	var l []string
	for k := range m {
		l = append(l, k)
	}
	sort.Strings(l)
	return l
}

func leanStrings(l []string) string {
	s := "["
	for i, x := range l {
		if i > 0 {
			s += ", "
		}
		s += "\"" + x + "\""
	}
	return s + "]"
}
