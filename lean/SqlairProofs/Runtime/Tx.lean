/-
  Runtime proofs, C12: `TX.Commit` / `TX.Rollback` sequences.
-/
import SqlairProofs.Runtime.Basic

namespace Sqlair.Rt

/-- a finish call: `true` = Commit / `false` = Rollback, and what the driver would answer -/
abbrev FinCall := Bool × Option Err

def finEv (commit : Bool) : Ev := if commit then .commit else .rollback

/-- is a finisher event -/
def Ev.isFin : Ev → Bool
  | .commit | .rollback => true
  | _ => false

/-- a sequence of finish calls, each one atomic step (the compare-and-swap of `TX.done`
    decides; the loser never reaches the driver) -/
def runFinish (tx : TX) (w : World) : List FinCall → TX × World × List (Option Err)
  | [] => (tx, w, [])
  | (c, fe) :: rest =>
    let (tx, w, e) := tx.finish c fe w
    let (tx, w, es) := runFinish tx w rest
    (tx, w, e :: es)

theorem runFinish_cons (tx : TX) (w : World) (c : FinCall) (rest : List FinCall) :
    runFinish tx w (c :: rest) =
      ((runFinish (tx.finish c.1 c.2 w).1 (tx.finish c.1 c.2 w).2.1 rest).1,
       (runFinish (tx.finish c.1 c.2 w).1 (tx.finish c.1 c.2 w).2.1 rest).2.1,
       (tx.finish c.1 c.2 w).2.2 :: (runFinish (tx.finish c.1 c.2 w).1 (tx.finish c.1 c.2 w).2.1 rest).2.2) := rfl

theorem TX.finish_done {tx : TX} (h : tx.done = true) (c : Bool) (fe : Option Err) (w : World) :
    tx.finish c fe w = (tx, w, some .txDone) := by
  simp [TX.finish, h]

theorem TX.finish_fresh {tx : TX} (h : tx.done = false) (c : Bool) (fe : Option Err) (w : World) :
    tx.finish c fe w = ({ done := true }, { log := w.log ++ [finEv c], inUse := w.inUse - 1 }, fe) := by
  simp [TX.finish, h, World.emit, finEv]

/-- on a finished transaction every finish call fails with `ErrTxDone` and does nothing -/
theorem runFinish_done {tx : TX} (h : tx.done = true) (w : World) (l : List FinCall) :
    runFinish tx w l = (tx, w, l.map fun _ => some .txDone) := by
  induction l with
  | nil => rfl
  | cons c rest ih => rw [runFinish_cons, TX.finish_done h]; simp [ih]

/-- on a live transaction the first call wins: it alone reaches the driver -/
theorem runFinish_fresh {tx : TX} (h : tx.done = false) (w : World) (c : FinCall) (rest : List FinCall) :
    runFinish tx w (c :: rest) =
      ({ done := true }, { log := w.log ++ [finEv c.1], inUse := w.inUse - 1 },
       c.2 :: rest.map fun _ => some .txDone) := by
  rw [runFinish_cons, TX.finish_fresh h, runFinish_done rfl]

theorem finEv_isFin (c : Bool) : (finEv c).isFin = true := by cases c <;> rfl

end Sqlair.Rt
