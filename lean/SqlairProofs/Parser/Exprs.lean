/-
  The expression parsers.  Each satisfies `EOK`: the scanner invariant is kept, an error is
  positioned, a node spans exactly from the entry offset to the (strictly later) exit
  offset, and on not-this the entry state is returned unchanged (the restore discipline).
-/
import SqlairProofs.Parser.Items

namespace Sqlair

section
variable {E : Env}

/-- contract of an expression parser -/
structure EOK (E : Env) (s : Sc) (r : Sc × Res Seg) : Prop extends XOK E s r where
  span : ∀ seg, r.2 = .ok seg → seg.a = s.pos ∧ seg.b = r.1.pos

theorem EOK.refl_no {s : Sc} (g : Good E s) : EOK E s (s, .no) :=
  ⟨XOK.refl_no g, fun _ hx => (by cases hx)⟩

theorem EOK.refl_err {s : Sc} (g : Good E s) {e : PErr} (he : ErrOK E e) : EOK E s (s, .err e) :=
  ⟨XOK.refl_err g he, fun _ hx => (by cases hx)⟩

theorem EOK.mk_err {s s' : Sc} (g : Good E s') (hle : s.pos ≤ s'.pos) {e : PErr} (he : ErrOK E e) :
    EOK E s (s', .err e) :=
  ⟨XOK.mk_err g hle he, fun _ hx => (by cases hx)⟩

theorem EOK.mk_ok {s s' : Sc} (g : Good E s') (hlt : s.pos < s'.pos) (seg : Seg)
    (ha : seg.a = s.pos) (hb : seg.b = s'.pos) : EOK E s (s', .ok seg) :=
  ⟨XOK.mk_ok g hlt seg, fun _ hx => (by cases hx; exact ⟨ha, hb⟩)⟩

theorem EOK.elim_ok {s : Sc} {r : Sc × Res Seg} (hr : EOK E s r) {s1 : Sc} {seg : Seg}
    (heq : r = (s1, .ok seg)) : Good E s1 ∧ s.pos < s1.pos ∧ seg.a = s.pos ∧ seg.b = s1.pos := by
  subst heq; exact ⟨hr.good, hr.prog seg rfl, hr.span seg rfl⟩

theorem EOK.elim_no {s : Sc} {r : Sc × Res Seg} (hr : EOK E s r) {s1 : Sc}
    (heq : r = (s1, .no)) : s1 = s := hr.toXOK.elim_no heq

theorem EOK.elim_err {s : Sc} {r : Sc × Res Seg} (hr : EOK E s r) {s1 : Sc} {e : PErr}
    (heq : r = (s1, .err e)) : Good E s1 ∧ s.pos ≤ s1.pos ∧ ErrOK E e := hr.toROK.elim_err heq

/-! ### output expressions -/

theorem parseOutputExpr_eok (h : DecOK E) {s : Sc} (g : Good E s) : EOK E s (parseOutputExpr E s) := by
  unfold parseOutputExpr
  have ht := parseTargetType_xok h g
  split
  · next heq => obtain ⟨g1, hle1, he⟩ := ht.toROK.elim_err heq; exact EOK.mk_err g1 hle1 he
  · next heq => obtain ⟨g1, hlt1⟩ := ht.elim_ok heq; exact EOK.mk_ok g1 hlt1 _ rfl rfl
  · next cp heq =>
    have hcp : cp = s := ht.elim_no heq
    subst hcp
    have hpc := parseColumns_post h g
    split
    · exact EOK.refl_no g
    · next s2 cols parenCols heq2 =>
      rw [heq2] at hpc
      have g2 : Good E s2 := hpc.good
      have hle2 : cp.pos ≤ s2.pos := hpc.mono
      extract_lets s3 r s4
      have hp3 : Post E s2 s3 := skipBlanks_post h g2
      have hb : BOK E s3 r := skipString_AS_bok hp3.good
      have hp4 : Post E r.1 s4 := skipBlanks_post h hb.good
      have := hp3.mono; have := hp4.mono
      split
      · exact EOK.refl_no g
      · next hr =>
        have hlt := hb.prog (by simpa using hr)
        have htt := parseTargetTypes_rok h hp4.good
        split
        · next heq3 => obtain ⟨g5, hle5, he⟩ := htt.elim_err heq3; exact EOK.mk_err g5 (by omega) he
        · exact EOK.refl_no g
        · next s5 types parenTypes heq3 =>
          obtain ⟨g5, hle5⟩ := htt.elim' heq3
          split
          · exact EOK.mk_err g5 (by omega) (errAt_ok hp4.good (by simp))
          split
          · exact EOK.mk_err g5 (by omega) (errAt_ok hp4.good (by simp))
          split
          · exact EOK.mk_err g5 (by omega) (errAt_ok g (by simp))
          · exact EOK.mk_ok g5 (by omega) _ rfl rfl

/-! ### input expressions -/

theorem parseSliceInputExpr_eok (h : DecOK E) {s : Sc} (g : Good E s) :
    EOK E s (parseSliceInputExpr E s) := by
  unfold parseSliceInputExpr
  extract_lets r
  have hb : BOK E s r := skipChar_bok h 36 g
  split
  · exact EOK.refl_no g
  · next hr =>
    have hlt := hb.prog (by simpa using hr)
    have hsl := (parseSliceAccessor_rok h hb.good).1
    split
    · next heq => exact EOK.refl_err g (hsl.elim_err heq).2.2
    · next heq => obtain ⟨g1, hle1⟩ := hsl.elim' heq; exact EOK.mk_ok g1 (by omega) _ rfl rfl
    · exact EOK.refl_no g

theorem parseMemberInputExpr_eok (h : DecOK E) {s : Sc} (g : Good E s) :
    EOK E s (parseMemberInputExpr E s) := by
  unfold parseMemberInputExpr
  have hm := parseInputMemberAccessor_sok h g
  split
  · next heq => exact EOK.refl_err g (hm.toROK.elim_err heq).2.2
  · exact EOK.refl_no g
  · next heq =>
    obtain ⟨g1, hlt1⟩ := hm.elim_ok heq
    split
    · exact EOK.refl_err g (errAt_ok g (by simp))
    · exact EOK.mk_ok g1 hlt1 _ rfl rfl

theorem parseComplexInsertValues_rok (h : DecOK E) {s : Sc} (g : Good E s) :
    ROK E s (parseComplexInsertValues E s) := by
  unfold parseComplexInsertValues
  have hl := parseList_rok h (fun s g => parseInputMemberAccessor_rok h g) g
  split
  · next heq => exact ROK.refl_err g (hl.elim_err heq).2.2
  · next heq => obtain ⟨g1, hle1⟩ := hl.elim' heq; exact ROK.mk_ok g1 hle1 _
  · split
    · exact ROK.refl_err g (errAt_ok g (by simp))
    · exact ROK.refl_no g

theorem parseAsteriskInsertExpr_eok (h : DecOK E) {s : Sc} (g : Good E s) :
    EOK E s (parseAsteriskInsertExpr E s) := by
  unfold parseAsteriskInsertExpr
  extract_lets r1 r2 r3 r4
  have hb1 : BOK E s r1 := skipChar_bok h 40 g
  have hp1 := skipBlanks_post h hb1.good
  have hb2 : BOK E _ r2 := skipChar_bok h 42 hp1.good
  have hp2 := skipBlanks_post h hb2.good
  have hb3 : BOK E _ r3 := skipChar_bok h 41 hp2.good
  have hp3 := skipBlanks_post h hb3.good
  have hb4 : BOK E _ r4 := skipString_VALUES_bok hp3.good
  have hp4 := skipBlanks_post h hb4.good
  have hc := parseComplexInsertValues_rok h hp4.good
  have := hp1.mono; have := hb2.mono; have := hp2.mono; have := hb3.mono; have := hp3.mono
  have := hb4.mono; have := hp4.mono
  split
  · exact EOK.refl_no g
  next hr1 =>
  have hlt := hb1.prog (by simpa using hr1)
  split
  · exact EOK.refl_no g
  split
  · exact EOK.refl_no g
  split
  · exact EOK.refl_no g
  split
  · next heq => obtain ⟨g1, hle1⟩ := hc.elim' heq; exact EOK.mk_ok g1 (by omega) _ rfl rfl
  · next heq => obtain ⟨g1, hle1, he⟩ := hc.elim_err heq; exact EOK.mk_err g1 (by omega) he
  · exact EOK.refl_no g

theorem basicLoop_lok (h : DecOK E) {cp : Sc} (gcp : Good E cp) (f : Nat) (ip : Bool) (vs : List Val)
    {s : Sc} (g : Good E s) (hle : cp.pos ≤ s.pos) (hf : E.len - s.pos < f) :
    LOK E cp s (basicLoop E cp f ip vs s) := by
  induction f generalizing s ip vs with
  | zero => omega
  | succ f ih =>
    unfold basicLoop
    extract_lets s1 item
    have hp1 : Post E s s1 := skipBlanks_post h g
    have := hp1.mono
    have hitem : LOK E cp s1 item := by
      unfold item
      have hm := parseInputMemberAccessor_rok h hp1.good
      split
      · next heq => obtain ⟨g2, hle2, he⟩ := hm.elim_err heq; exact LOK.mk_err g2 (by omega) he
      · next heq =>
        obtain ⟨g2, hle2⟩ := hm.elim' heq
        split
        · exact LOK.mk_err g2 (by omega) (errAt_ok hp1.good (by simp))
        · exact LOK.mk_ok g2 (by omega) hle2 _
      · next heq =>
        obtain ⟨g2, hle2⟩ := hm.elim' heq
        have hl := skipLiteralInList_rok h g2
        split
        · next heq3 => obtain ⟨g3, hle3, he⟩ := hl.elim_err heq3; exact LOK.mk_err g3 (by omega) he
        · next heq3 => obtain ⟨g3, hle3⟩ := hl.elim' heq3; exact LOK.mk_ok g3 (by omega) (by omega) _
        · exact LOK.cp_no gcp
    clear_value item
    split
    · obtain ⟨g2, hle2, he⟩ := hitem.toROK.elim_err rfl; exact LOK.mk_err g2 hle2 he
    · obtain ⟨g2, hle2⟩ := hitem.toROK.elim' rfl; exact LOK.mk_no g2 hle2
    · next s2 ip' vs' =>
      obtain ⟨g2, hle2⟩ := hitem.toROK.elim' rfl
      have hle2' : s1.pos ≤ s2.pos := hitem.okmono (ip', vs') rfl
      extract_lets s3 r1 r2
      have hp3 : Post E s2 s3 := skipBlanks_post h g2
      have hb1 : BOK E s3 r1 := skipChar_bok h 41 hp3.good
      have hb2 : BOK E s3 r2 := skipChar_bok h 44 hp3.good
      have := hp3.mono; have := hb1.mono
      split
      · split
        · exact LOK.mk_ok hb1.good (by omega) (by omega) _
        · exact LOK.mk_no hb1.good (by omega)
      split
      · next ht =>
        obtain ⟨g4, hlt⟩ := hb2.elim_true ht
        have := g4.pos_le
        exact (ih _ _ g4 (by omega) (by omega)).step (by omega)
      · exact LOK.cp_no gcp

theorem parseBasicInsertValues_rok (h : DecOK E) {s : Sc} (g : Good E s) :
    ROK E s (parseBasicInsertValues E s) := by
  unfold parseBasicInsertValues
  extract_lets r
  have hb : BOK E s r := skipChar_bok h 40 g
  split
  · split
    · exact ROK.refl_err g (errAt_ok g (by simp))
    · exact ROK.refl_no g
  · exact (basicLoop_lok h g (E.len + 1) false [] hb.good hb.mono (by omega)).toROK

theorem parseInsertExpr_eok (h : DecOK E) {s : Sc} (g : Good E s) : EOK E s (parseInsertExpr E s) := by
  unfold parseInsertExpr
  have ha := parseAsteriskInsertExpr_eok h g
  split
  · next heq => obtain ⟨g1, hle1, he⟩ := ha.elim_err heq; exact EOK.mk_err g1 hle1 he
  · next heq => obtain ⟨g1, hlt1, h1, h2⟩ := ha.elim_ok heq; exact EOK.mk_ok g1 hlt1 _ h1 h2
  · next cp heq =>
    have hcp : cp = s := ha.elim_no heq
    subst hcp
    have hpc := parseColumns_post h g
    split
    · next s1 columns heq2 =>
      rw [heq2] at hpc
      have g1 : Good E s1 := hpc.good
      have hle1 : cp.pos ≤ s1.pos := hpc.mono
      extract_lets r colcp complex
      have hp1 := skipBlanks_post h g1
      have hb : BOK E _ r := skipString_VALUES_bok hp1.good
      have hp2 : Post E r.1 colcp := skipBlanks_post h hb.good
      have := hp1.mono; have := hp2.mono
      split
      · exact EOK.refl_no g
      next hr =>
      have hlt := hb.prog (by simpa using hr)
      have hcx : ∀ s2 srcs, complex = some (s2, srcs) → Good E s2 ∧ colcp.pos ≤ s2.pos := by
        intro s2 srcs hc
        unfold complex at hc
        have hcv := parseComplexInsertValues_rok h hp2.good
        split at hc
        · next heq3 =>
          obtain ⟨g2, hle2⟩ := hcv.elim' heq3
          split at hc
          · cases hc; exact ⟨g2, hle2⟩
          · cases hc
        · cases hc
      clear_value complex
      split
      · next s2 srcs =>
        obtain ⟨g2, hle2⟩ := hcx s2 srcs rfl
        exact EOK.mk_ok g2 (by omega) _ rfl rfl
      · have hbv := parseBasicInsertValues_rok h hp2.good
        split
        · next heq3 => exact EOK.refl_err g (hbv.elim_err heq3).2.2
        · next heq3 => obtain ⟨g3, hle3⟩ := hbv.elim' heq3; exact EOK.mk_ok g3 (by omega) _ rfl rfl
        · exact EOK.refl_no g
    · exact EOK.refl_no g

theorem parseInputExpr_eok (h : DecOK E) {s : Sc} (g : Good E s) : EOK E s (parseInputExpr E s) := by
  unfold parseInputExpr
  have h1 := parseSliceInputExpr_eok h g
  split
  · next heq => obtain ⟨g1, hle1, he⟩ := h1.elim_err heq; exact EOK.mk_err g1 hle1 he
  · next heq => obtain ⟨g1, hlt1, ha, hb⟩ := h1.elim_ok heq; exact EOK.mk_ok g1 hlt1 _ ha hb
  · next s1 heq =>
    have hs1 : s1 = s := h1.elim_no heq
    subst hs1
    have h2 := parseMemberInputExpr_eok h g
    split
    · next heq => obtain ⟨g1, hle1, he⟩ := h2.elim_err heq; exact EOK.mk_err g1 hle1 he
    · next heq => obtain ⟨g1, hlt1, ha, hb⟩ := h2.elim_ok heq; exact EOK.mk_ok g1 hlt1 _ ha hb
    · next s2 heq =>
      have hs2 : s2 = s1 := h2.elim_no heq
      subst hs2
      exact parseInsertExpr_eok h g

/-! ### advanceToNextExpression -/

theorem advLoop_rok (h : DecOK E) (f : Nat) {s : Sc} (g : Good E s) (hf : E.len - s.pos < f) :
    ROK E s (advLoop E f s) := by
  induction f generalizing s with
  | zero => omega
  | succ f ih =>
    unfold advLoop
    have hpl := g.pos_le
    have step : ∀ {s1 : Sc}, Good E s1 → s.pos < s1.pos → ROK E s (advLoop E f s1) := by
      intro s1 g1 hlt
      have := g1.pos_le
      have hr := ih g1 (by omega)
      exact ⟨hr.good, by have := hr.mono; omega, hr.err⟩
    split
    · next hp =>
      have hsl := skipStringLiteral_sok h g
      split
      · next heq => obtain ⟨g1, hle, he⟩ := hsl.elim_err heq; exact ROK.mk_err g1 hle he
      · next heq => obtain ⟨g1, hlt⟩ := hsl.elim_ok heq; exact step g1 hlt
      · extract_lets r1 s1
        have hb1 : BOK E s r1 := skipComment_bok h g
        split
        · next ht => obtain ⟨g1, hlt⟩ := hb1.elim_true ht; exact step g1 hlt
        split
        · exact ROK.mk_ok g (Nat.le_refl _) _
        have ga : Good E s1 := advanceChar_good h g
        have hlt : s.pos < s1.pos := advanceChar_lt h g hp
        split
        · split
          · exact ROK.mk_ok ga (by omega) _
          split
          · exact ROK.mk_ok ga (by omega) _
          · exact step ga hlt
        · exact step ga hlt
    · exact ROK.mk_ok g (Nat.le_refl _) _

theorem advanceToNextExpression_post (h : DecOK E) {s : Sc} (g : Good E s) :
    Post E s (advanceToNextExpression E s).1 ∧
      ∀ e, (advanceToNextExpression E s).2 = some e → ErrOK E e := by
  unfold advanceToNextExpression
  split
  · exact ⟨⟨g, Nat.le_refl _⟩, fun e he => by cases he⟩
  · have hl := advLoop_rok h (E.len + 1) g (by omega)
    split
    · next heq =>
      obtain ⟨g1, hle1, he⟩ := hl.elim_err heq
      exact ⟨⟨g1, hle1⟩, fun e' he' => by cases he'; exact he⟩
    · next heq =>
      obtain ⟨g1, hle1⟩ := hl.elim' heq
      have hp := skipBlanks_post h g1
      exact ⟨⟨hp.good, by have := hp.mono; simp only []; omega⟩, fun e he => by cases he⟩
    · next heq =>
      obtain ⟨g1, hle1⟩ := hl.elim' heq
      exact ⟨⟨g1, hle1⟩, fun e he => by cases he⟩

/-! ### the restore discipline and progress, as stand-alone statements -/

theorem parseOutputExpr_no_restores (h : DecOK E) {s : Sc} (g : Good E s)
    (hn : (parseOutputExpr E s).2 = .no) : (parseOutputExpr E s).1 = s :=
  (parseOutputExpr_eok h g).no hn

theorem parseInputExpr_no_restores (h : DecOK E) {s : Sc} (g : Good E s)
    (hn : (parseInputExpr E s).2 = .no) : (parseInputExpr E s).1 = s :=
  (parseInputExpr_eok h g).no hn

theorem parseOutputExpr_ok_progress (h : DecOK E) {s : Sc} (g : Good E s) {seg : Seg}
    (hk : (parseOutputExpr E s).2 = .ok seg) :
    s.pos < (parseOutputExpr E s).1.pos ∧ seg.a = s.pos ∧ seg.b = (parseOutputExpr E s).1.pos :=
  ⟨(parseOutputExpr_eok h g).prog seg hk, (parseOutputExpr_eok h g).span seg hk⟩

theorem parseInputExpr_ok_progress (h : DecOK E) {s : Sc} (g : Good E s) {seg : Seg}
    (hk : (parseInputExpr E s).2 = .ok seg) :
    s.pos < (parseInputExpr E s).1.pos ∧ seg.a = s.pos ∧ seg.b = (parseInputExpr E s).1.pos :=
  ⟨(parseInputExpr_eok h g).prog seg hk, (parseInputExpr_eok h g).span seg hk⟩

end
end Sqlair
