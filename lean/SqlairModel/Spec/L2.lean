/-
  Spec/L2: observations of the bind layer (Prepare + Query seen at the database driver),
  agreement with the model, attribution of a disagreement to properties, and the
  executable `holds` predicates of C01 (end to end), C03, C04, C05, C07, C08.
-/
import SqlairModel.Bind

namespace Sqlair

/-- what the harness observed for one (query, samples, args) case -/
structure BindObs where
  prepOk : Bool
  prepErr : Bytes := #[]
  bindOk : Bool := false
  bindErr : Bytes := #[]
  /-- SQL received by the driver (if anything was prepared there) -/
  sql : Bytes := #[]
  /-- named values received by the driver: (name, canonical value text) -/
  params : List (String × String) := []
  /-- "query" | "exec" | "none" -/
  mode : String := "none"
  /-- number of driver calls caused by the Query -/
  events : Nat := 0
deriving Repr

structure BindModel where
  prep : Except String (List TExpr)
  bind : Except String Primed

def runModel (C : Cls) (tt : TypeTable) (segs : List OSeg) (samples : List (Option Nat)) (args : List GoVal) : BindModel :=
  match bindTypes C tt segs samples with
  | .error e => { prep := .error e, bind := .error "not-prepared" }
  | .ok tes => { prep := .ok tes, bind := bindInputs tt tes args }

/-! ### helpers on byte strings -/

def Bytes.hasPrefixAt (b : Bytes) (off : Nat) (p : Bytes) : Bool :=
  off + p.size ≤ b.size && b.extract off (off + p.size) == p

/-- leftmost occurrence of `p` in `b` at or after `off` -/
def Bytes.findFrom (b p : Bytes) (off : Nat) : Option Nat :=
  (List.range (b.size + 1 - off)).findSome? fun i => if b.hasPrefixAt (off + i) p then some (off + i) else none

/-- the bypass chunks occur in the SQL in order and without overlap, the first one (if
    the query starts with it) as a prefix and the last one (if the query ends with it) as
    a suffix.  Greedy leftmost matching decides the existence of such an embedding. -/
def chunksInOrder : List OSeg → Bytes → Nat → Bool → Bool
  | [], sql, off, pendingExpr => pendingExpr || off == sql.size
  | [s], sql, off, pendingExpr =>
    if s.kind == .bypass then
      if pendingExpr then off + s.raw.size ≤ sql.size && sql.hasPrefixAt (sql.size - s.raw.size) s.raw
      else sql.hasPrefixAt off s.raw && off + s.raw.size == sql.size
    else true
  | s :: rest, sql, off, pendingExpr =>
    if s.kind == .bypass then
      if pendingExpr then
        match sql.findFrom s.raw off with
        | none => false
        | some i => chunksInOrder rest sql (i + s.raw.size) false
      else sql.hasPrefixAt off s.raw && chunksInOrder rest sql (off + s.raw.size) false
    else chunksInOrder rest sql off true

def containsSub (b : Bytes) (s : String) : Bool := (b.findFrom (bs s) 0).isSome

def isDigitB (x : UInt8) : Bool := 48 ≤ x && x ≤ 57

/-- numbers `N` of all occurrences of `pre ++ N` in `b` -/
def numbersAfter (pre : Bytes) (b : Bytes) : List Nat :=
  (List.range b.size).filterMap fun i =>
    if b.hasPrefixAt i pre then
      let ds := (b.extract (i + pre.size) b.size).toList.takeWhile isDigitB
      if ds.isEmpty then none else some (ds.foldl (fun n d => n * 10 + (d.toNat - 48)) 0)
    else none

def dedup (l : List Nat) : List Nat := l.foldl (fun acc x => if acc.contains x then acc else acc ++ [x]) []

def sameSet (a b : List Nat) : Bool := a.all b.contains && b.all a.contains

/-! ### property predicates on the observation -/

def hasExpr (segs : List OSeg) : Bool := segs.any (·.kind != .bypass)
def hasOutputSeg (segs : List OSeg) : Bool := segs.any (·.kind == .output)

/-- occurrences of `pre` in `b` -/
def countOcc (pre : Bytes) (b : Bytes) : Nat :=
  ((List.range b.size).filter fun i => b.hasPrefixAt i pre).length

/-- offset after a placeholder `@sqlair_<digits>` at `off`, if there is one -/
def placeholderAt (sql : Bytes) (off : Nat) : Option Nat :=
  let pre := bs "@sqlair_"
  if sql.hasPrefixAt off pre then
    let ds := (sql.extract (off + pre.size) sql.size).toList.takeWhile isDigitB
    if ds.isEmpty then none else some (off + pre.size + ds.length)
  else none

/-- the offsets at which a comma separated list of placeholders starting at `off` may end:
    `off` itself (the empty list) and the end of every placeholder of the run -/
def placeholderListEnds (sql : Bytes) : Nat → Nat → List Nat
  | 0, off => [off]
  | fuel+1, off =>
    match placeholderAt sql off with
    | none => [off]
    | some e => off :: (if sql.hasPrefixAt e (bs ", @sqlair_") then (placeholderListEnds sql fuel (e + 2)).tail else []) ++ [e]

/-- for statements whose only expressions are member and slice inputs the SQL is determined
    up to the lengths of the slices: the bypass chunks verbatim, one placeholder per member,
    a comma separated list of placeholders (possibly empty) per slice, nothing else -/
def matchInputsOnly : List OSeg → Bytes → Nat → Bool
  | [], sql, off => off == sql.size
  | s :: rest, sql, off =>
    match s.kind with
    | .bypass => sql.hasPrefixAt off s.raw && matchInputsOnly rest sql (off + s.raw.size)
    | .member => match placeholderAt sql off with
      | some e => matchInputsOnly rest sql e
      | none => false
    | .slice => (placeholderListEnds sql sql.size off).any fun e => matchInputsOnly rest sql e
    | _ => true

def inputsOnly (segs : List OSeg) : Bool :=
  segs.all fun s => s.kind == .bypass || s.kind == .member || s.kind == .slice

/-- C01 end to end: every bypass chunk is in the SQL, in order, and a query without
    expressions is sent unchanged -/
def holdsC01e2e (q : Bytes) (segs : List OSeg) (o : BindObs) : Bool :=
  if !(o.prepOk && o.bindOk) || o.events == 0 then true else
  chunksInOrder segs o.sql 0 false && (hasExpr segs || o.sql == q)

def paramNum (name : String) : Option Nat :=
  if name.startsWith "sqlair_" then (name.drop 7).toNat? else none

/-- the token predicates below scan the SQL for generated names; they are evaluated only
    when the user's own text cannot be mistaken for generated text -/
def cleanForTokens (segs : List OSeg) : Bool :=
  -- two expansions glued together: the second may start with a digit (a db tag like "9")
  -- and read as the continuation of the number that ends the first
  (let ne := segs.filter fun s => !(s.kind == .bypass && s.raw.size == 0)
   (ne.zip ne.tail).all fun (a, b) => a.kind == .bypass || b.kind == .bypass) &&
  segs.all fun s => !(containsSub s.raw "sqlair_") && !(s.kind == .bypass && isDigitB (s.raw.getD 0 0)) &&
    s.cols.all (fun c => !isDigitB (c.column.getD 0 0) && !isDigitB (c.table.getD 0 0)) &&
    s.types.all (fun t => !isDigitB (t.member.getD 0 0))

/-- C01, exact form for statements whose only expressions are inputs -/
def holdsC01exact (segs : List OSeg) (o : BindObs) : Bool :=
  if !(o.prepOk && o.bindOk) || o.events == 0 || !inputsOnly segs || !cleanForTokens segs then true
  else matchInputsOnly segs o.sql 0

/-- no db tag of the type table contains the text `sqlair_`: generated column names come
    from tags, and a tag may be any quoted text (`c03_tokens_false_of_model`,
    `c05_tokens_false_of_model` are the witnesses that the token predicates need this) -/
def tagsClean (tt : TypeTable) : Bool :=
  tt.all fun td => td.fields.all fun f => !(containsSub f.tag "sqlair_")

/-- C03: placeholders and named arguments correspond one to one -/
def holdsC03 (segs : List OSeg) (o : BindObs) : Bool :=
  if !(o.prepOk && o.bindOk) || o.mode == "none" || !cleanForTokens segs then true else
  let phs := dedup (numbersAfter (bs "@sqlair_") o.sql)
  let names := o.params.map (·.1)
  let nums := names.filterMap paramNum
  nums.length == names.length && names.eraseDups.length == names.length && sameSet phs nums

/-- C05: aliases are _sqlair_0 … _sqlair_{n-1} in order; Query iff an output expression -/
def holdsC05 (segs : List OSeg) (o : BindObs) : Bool :=
  if !(o.prepOk && o.bindOk) || o.mode == "none" then true else
  ((o.mode == "query") == hasOutputSeg segs) &&
  (!cleanForTokens segs ||
    (let als := numbersAfter (bs " AS _sqlair_") o.sql
     als == List.range als.length && (hasOutputSeg segs == !als.isEmpty) &&
     -- every alias is the prefix followed by a number
     countOcc (bs " AS _sqlair_") o.sql == als.length &&
     -- a SQL wildcard is never generated as an output column
     !(containsSub o.sql "* AS _sqlair_") &&
     -- explicitly written columns and function calls are kept verbatim, each with an alias
     (segs.all fun s => s.kind != .output || s.cols.isEmpty || s.cols.any (fun c => c.column == bs "*") ||
        s.cols.all fun c => (o.sql.findFrom (c.str ++ bs " AS _sqlair_") 0).isSome)))

/-! ### C03, value level: an independent specification of "the field carrying that db tag" -/

/-- the member of `v` with db tag `tag`, found by searching the fields *by tag* — through
    exported, untagged, embedded structs and pointers to structs — without using the index
    paths `getStructFields` computes; map values are looked up by key -/
def valueByTag (C : Cls) (tt : TypeTable) : Nat → GoVal → Bytes → Option GoVal
  | 0, _, _ => none
  | fuel+1, v, tag =>
    match v with
    | .ptr _ (some p) => valueByTag C tt fuel p tag
    | .map _ kv => mapIndex kv tag
    | .struct h fs =>
      let td := tt.get h.t
      (td.fields.zip fs).findSome? fun (fd, fv) =>
        if fd.tag.size != 0 then
          match parseTag C fd.tag with
          | .ok (name, _) => if name == tag && fd.exported then some fv else none
          | .error _ => none
        else if fd.anon && fd.exported then
          match fv with
          | .struct .. => valueByTag C tt fuel fv tag
          | .ptr _ (some p) => valueByTag C tt fuel p tag
          | _ => none
        else none
    | _ => none

def GoVal.typeName (tt : TypeTable) (v : GoVal) : Bytes :=
  match v with
  | .ptr _ (some p) => (tt.get p.tid).name
  | v => (tt.get v.tid).name

/-- for statements whose only expressions are member inputs: the k-th argument the driver
    receives is named sqlair_k and is the value of the member the k-th expression names -/
def holdsC03vals (C : Cls) (tt : TypeTable) (segs : List OSeg) (args : List GoVal) (o : BindObs) : Bool :=
  if !(o.prepOk && o.bindOk) || o.mode == "none" then true else
  let exprs := segs.filter (·.kind != .bypass)
  if !exprs.all (·.kind == .member) then true else
  exprs.length == o.params.length &&
  ((List.range exprs.length).zip (exprs.zip o.params)).all fun (k, s, p) =>
    match s.types with
    | [a] =>
      -- evaluated only when exactly one argument has that type name (two same-named
      -- arguments are rejected by a correct Query; if they are accepted that is C08's failure)
      if (args.filter (fun v => v.typeName tt == a.ty)).length != 1 then true else
      match args.find? (fun v => v.typeName tt == a.ty) with
      | some v =>
        match valueByTag C tt 8 v a.member with
        | some fv => p.1 == s!"sqlair_{k}" && p.2 == fv.h.r
        | none => false
      | none => false
    | _ => true

/-- the driver texts of every node of a value tree (fuel = depth) -/
def GoVal.texts : Nat → GoVal → List String
  | 0, _ => []
  | _, .invalid => []
  | _, .leaf h => [h.r]
  | n+1, .struct h fs => h.r :: fs.flatMap (GoVal.texts n)
  | _, .ptr h none => [h.r]
  | n+1, .ptr h (some p) => h.r :: GoVal.texts n p
  | _, .map h none => [h.r]
  | n+1, .map h (some kv) => h.r :: kv.flatMap (fun e => GoVal.texts n e.2)
  | n+1, .slice h els => h.r :: els.flatMap (GoVal.texts n)
  | _, .iface h none => [h.r]
  | n+1, .iface h (some p) => h.r :: GoVal.texts n p

/-- C03, weakest value-level form, for every statement: each value handed to the driver is
    the driver text of some value inside the supplied arguments - nothing is made up,
    truncated or converted on the way -/
def holdsC03present (args : List GoVal) (o : BindObs) : Bool :=
  if !(o.prepOk && o.bindOk) || o.mode == "none" then true else
  let present := args.flatMap (GoVal.texts 16)
  o.params.all fun p => present.contains p.2

/-! ### agreement and attribution -/

def insertErrClasses : List String :=
  ["omitempty-mix", "omitempty-explicit-zero", "mismatched-bulk-lengths", "empty-slice",
   "nil-pointer-in-slice", "nil-map-in-slice", "internal-no-bulk-value", "internal-multiple-values"]

/-- does an implementation error text belong to the insert/bulk family (C04)? -/
def implErrIsInsert (e : Bytes) : Bool :=
  containsSub e "omitempty" || containsSub e "bulk insert" || containsSub e "with length 0" ||
  containsSub e "in slice of"

def Piece.prop : Piece → String
  | .text _ => "C01" | .inputs .. => "C03" | .outputs .. => "C05" | .insert .. => "C04"

/-- first piece whose rendering is not found at its place in the SQL -/
def firstBadPiece : List Piece → Bytes → Nat → Option String
  | [], sql, off => if off == sql.size then none else some "C01"
  | p :: rest, sql, off =>
    let r := p.render
    if sql.hasPrefixAt off r then firstBadPiece rest sql (off + r.size) else some p.prop

def insertNumbers (ps : List Piece) : List Nat :=
  ps.foldl (fun acc p => match p with
    | .insert _ rows => acc ++ (rows.foldl (fun a r => a ++ r.filterMap (fun c => match c with | .ph n => some n | _ => none)) [])
    | _ => acc) []

/-- properties a disagreement between model and observation touches ([] = agreement) -/
def affected (m : BindModel) (o : BindObs) : List String :=
  match m.prep with
  | .error _ => if o.prepOk then ["C07"] else []
  | .ok _ =>
    if !o.prepOk then ["C07"] else
    match m.bind with
    | .error cls =>
      if o.bindOk then [if insertErrClasses.contains cls then "C04" else "C08"]
      else if o.events > 0 then ["C08"] else []
    | .ok pq =>
      if !o.bindOk then [if implErrIsInsert o.bindErr then "C04" else "C08"] else
      if o.mode == "none" then [] else
      match firstBadPiece pq.pieces o.sql 0 with
      | some p => [p]
      | none =>
        let mparams := pq.params.map fun (n, v) => (s!"sqlair_{n}", v)
        let mode := if pq.outputs.isEmpty then "exec" else "query"
        let ins := insertNumbers pq.pieces
        let pdiff : List String :=
          if mparams == o.params then [] else
          match (mparams.zip o.params).find? (fun (a, b) => a != b) with
          | some ((n, _), _) => if ins.contains ((paramNum n).getD 0) then ["C04", "C03"] else ["C03"]
          | none => ["C03"]
        pdiff ++ (if mode == o.mode then [] else ["C05"])

/-- does the observation accept/reject like the model?  `some p` = it differs and the
    difference belongs to property `p` -/
def bindAcceptDiffers (m : BindModel) (o : BindObs) : Option String :=
  match m.prep, m.bind with
  | .ok _, .error cls =>
    if o.prepOk && o.bindOk then some (if insertErrClasses.contains cls then "C04" else "C08") else none
  | .ok _, .ok _ =>
    if o.prepOk && !o.bindOk then some (if implErrIsInsert o.bindErr then "C04" else "C08") else none
  | _, _ => none

/-- C07 (executable form): Prepare accepts exactly what the model's `bindTypes` accepts -/
def holdsC07 (m : BindModel) (o : BindObs) : Bool :=
  (match m.prep with | .ok _ => true | .error _ => false) == o.prepOk

/-- C08: argument lists are accepted exactly as the model accepts them, and a rejected
    Query sends nothing to the driver -/
def holdsC08 (m : BindModel) (o : BindObs) : Bool :=
  bindAcceptDiffers m o != some "C08" && (!(o.prepOk && !o.bindOk) || o.events == 0)

/-- C02 / C04: the literal values written in a `(cols) VALUES (…)` insert (with whatever
    comments and blanks the parser attached to them) appear in the SQL byte for byte -/
def literalsVerbatim (segs : List OSeg) (o : BindObs) : Bool :=
  if !(o.prepOk && o.bindOk) || o.mode == "none" then true else
  segs.all fun s => s.kind != .basicInsert ||
    s.vals.all fun v => match v with
      | .lit b => (o.sql.findFrom b 0).isSome
      | .acc _ => true

/-- C04 (rejections): bulk/omitempty argument errors are raised exactly as in the model -/
def holdsC04rej (m : BindModel) (o : BindObs) : Bool := bindAcceptDiffers m o != some "C04"

end Sqlair
