package main

import (
	"context"
	"database/sql/driver"
	"encoding/json"
	"flag"
	"fmt"
	"reflect"
	"strings"

	"github.com/canonical/sqlair"

	"verifharness/internal/desc"
	"verifharness/internal/fakedrv"
	"verifharness/internal/lean"
	"verifharness/internal/qgen"
	"verifharness/internal/rng"
	"verifharness/internal/zoo"
)

// flatDest flattens a destination argument into the model's field store.
func flatDest(tbl *desc.Table, arg any) map[string]any {
	if arg == nil {
		return map[string]any{"form": "nilArg"}
	}
	v := reflect.ValueOf(arg)
	switch v.Kind() {
	case reflect.Pointer:
		if v.IsNil() {
			return map[string]any{"form": "nilPtr"}
		}
		e := v.Elem()
		switch e.Kind() {
		case reflect.Struct:
			return map[string]any{"form": "ptrStruct", "tid": tbl.ID(e.Type()), "fields": flatFields(e)}
		case reflect.Map:
			if e.IsNil() {
				return map[string]any{"form": "ptrNilMap", "tid": tbl.ID(e.Type())}
			}
			return map[string]any{"form": "ptrMap", "tid": tbl.ID(e.Type()), "keys": flatKeys(e)}
		default:
			return map[string]any{"form": "ptrOther"}
		}
	case reflect.Map:
		if v.IsNil() {
			return map[string]any{"form": "nilMap"}
		}
		return map[string]any{"form": "mapVal", "tid": tbl.ID(v.Type()), "keys": flatKeys(v)}
	case reflect.Struct:
		return map[string]any{"form": "structVal"}
	default:
		return map[string]any{"form": "other"}
	}
}

func flatKeys(m reflect.Value) []any {
	out := []any{}
	if m.Type().Key().Kind() != reflect.String {
		return out
	}
	it := m.MapRange()
	for it.Next() {
		out = append(out, []any{hx(it.Key().String()), desc.DriverText(it.Value())})
	}
	return out
}

// flatFields lists every leaf field by reflect index path; the traversal enters exactly
// the fields sqlair's analysis enters (exported, untagged, embedded struct or *struct).
func flatFields(s reflect.Value) []any {
	out := []any{}
	var walk func(v reflect.Value, path []int, reachable bool, t reflect.Type)
	walk = func(v reflect.Value, path []int, reachable bool, t reflect.Type) {
		for i := 0; i < t.NumField(); i++ {
			f := t.Field(i)
			p := append(append([]int{}, path...), i)
			ft := f.Type
			if ft.Kind() == reflect.Pointer {
				ft = ft.Elem()
			}
			if f.Anonymous && f.Tag.Get("db") == "" && f.IsExported() && ft.Kind() == reflect.Struct {
				if !reachable {
					walk(reflect.Value{}, p, false, ft)
					continue
				}
				fv := v.Field(i)
				if fv.Kind() == reflect.Pointer {
					if fv.IsNil() {
						walk(reflect.Value{}, p, false, ft)
					} else {
						walk(fv.Elem(), p, true, ft)
					}
				} else {
					walk(fv, p, true, ft)
				}
				continue
			}
			pj := []any{}
			for _, x := range p {
				pj = append(pj, x)
			}
			if !reachable {
				out = append(out, []any{pj, nil})
			} else {
				out = append(out, []any{pj, desc.DriverText(v.Field(i))})
			}
		}
	}
	walk(s, nil, true, s.Type())
	return out
}

var convCache = map[string][2]any{}

// convOracle asks the installed database/sql what scanning v into a variable of type t
// gives (layer E flavour: the environment, not sqlair, answers).
func convOracle(v driver.Value, t reflect.Type) (string, bool) {
	key := fakedrv.ValueText(v) + "|" + t.String()
	if r, ok := convCache[key]; ok {
		return r[0].(string), r[1].(bool)
	}
	sqldb, st := fakedrv.Open()
	defer sqldb.Close()
	st.SetScript(fakedrv.Script{Columns: []string{"c"}, Rows: [][]driver.Value{{v}}})
	p := reflect.New(t)
	err := sqldb.QueryRow("q").Scan(p.Interface())
	res, ok := "", err == nil
	if ok {
		res = desc.DriverText(p.Elem())
	}
	convCache[key] = [2]any{res, ok}
	return res, ok
}

func valueFor(r *rng.R, t reflect.Type) driver.Value {
	if r.Chance(1, 7) {
		return nil
	}
	n := int64(r.Intn(900) + 1)
	if r.Chance(1, 8) {
		// deliberately unsuitable
		return r.Pick([]string{"abc", "", "x1"})
	}
	k := t.Kind()
	if k == reflect.Pointer {
		k = t.Elem().Kind()
		t = t.Elem()
	}
	switch {
	case k >= reflect.Int && k <= reflect.Uint64:
		if k == reflect.Int8 || k == reflect.Uint8 {
			return n % 100
		}
		return n
	case k == reflect.String:
		return fmt.Sprintf("v%d", n)
	case k == reflect.Float32 || k == reflect.Float64:
		return float64(n) + 0.5
	case k == reflect.Bool:
		return n%2 == 0
	case k == reflect.Slice:
		return []byte(fmt.Sprintf("b%d", n))
	case k == reflect.Interface:
		switch r.Intn(3) {
		case 0:
			return n
		case 1:
			return fmt.Sprintf("a%d", n)
		default:
			return float64(n)
		}
	case t.Name() == "MyV" || t.Name() == "NullInt64":
		return n
	case t.Name() == "NullString":
		return fmt.Sprintf("ns%d", n)
	}
	return n
}

var foreignCols = []string{"extra", "_sqlair_00", "_sqlair_+1", "_sqlair_-1", "_sqlair_99", "x_sqlair_0", "_sqlair_", "_SQLAIR_0", "_sqlair_0x", " _sqlair_0", "_sqlair_1e0", "_sqlair_9223372036854775808",
	// numbers that wrap around a 64-bit or 32-bit integer to a small value
	"_sqlair_18446744073709551616", "_sqlair_18446744073709551617", "_sqlair_18446744073709551618", "_sqlair_4294967296", "_sqlair_4294967297",
	"_sqlair_36893488147419103232", "_sqlair_36893488147419103233"}

func runL3(args []string) {
	fs := flag.NewFlagSet("l3", flag.ExitOnError)
	n := fs.Int("n", 1000, "number of generated cases")
	seed := fs.Uint64("seed", 1, "seed")
	tier := fs.String("tier", "quick", "tier")
	drv := fs.String("driver", "/verif/lean/.lake/build/bin/driver", "lean driver")
	out := fs.String("out", "", "report file")
	fs.String("repo", "/repo", "repository")
	fs.String("replay", "", "unused")
	fs.Parse(args)

	cl, err := lean.Start(*drv)
	if err != nil {
		fatalf("cannot start driver: %v", err)
	}
	defer cl.Close()
	modelClient = cl
	rep := newReport("l3", *seed, *tier)
	rep.Rule = "statements of 1-3 generated output expressions over the zoo; one scripted result row whose columns are the generated aliases permuted, " +
		"with foreign / near-miss column names interleaved, dropped or duplicated; values NULL / suitable / unsuitable per destination kind; destinations with prior contents " +
		"in every form (*struct, map, *map, nil, nil map, pointer to nil map, by value, duplicate, unrelated); non-trivial = at least one destination written or an error; " +
		"half of the cases on a DB where the same Statement was run before with the columns in reverse order; a failed read is repeated on the same Query; " +
		"distinct by hash of query, columns, row and destination forms"
	r := rng.New(*seed)
	g := qgen.New(r.Fork(), zooSchema())
	dist := map[string]int{}

	for i := 0; i < *n; i++ {
		cr := r.Fork()
		// 1. statement with outputs only
		k := 1 + cr.Intn(3)
		var outs []string
		for j := 0; j < k; j++ {
			outs = append(outs, gOutput(g))
		}
		q := "SELECT " + strings.Join(outs, ", ") + " FROM t"
		// sometimes the statement also has an input of a type that no output refers to: a
		// destination of that type is as unused as one of an unknown type
		withFilter := cr.Chance(1, 4)
		if withFilter {
			q += " WHERE z = $InFilter.z"
		}
		uses, order, pobs, ok := usesOf(q)
		if !ok {
			dist["skipped:parse-error"]++
			continue
		}
		var samples []any
		var types []reflect.Type
		for _, nme := range order {
			if e, ok := zoo.ByName(nme); ok && uses[nme].output {
				samples = append(samples, reflect.Zero(e.Type).Interface())
				types = append(types, e.Type)
			}
		}
		var qargs []any
		if withFilter {
			samples = append(samples, InFilter{})
			qargs = []any{InFilter{Z: 3}}
		}
		stmt, err := sqlair.Prepare(q, samples...)
		if err != nil {
			dist["skipped:prepare-error"]++
			continue
		}
		tbl := desc.NewTable()
		sids := []any{}
		for _, s := range samples {
			sids = append(sids, tbl.ID(reflect.TypeOf(s)))
		}
		margs := []any{}
		for _, a := range qargs {
			margs = append(margs, tbl.Val(reflect.ValueOf(a)))
		}
		base := map[string]any{"segs": pobs.(map[string]any)["segs"], "tt": tbl.Descs, "samples": sids, "cls": tbl.Cls(), "args": margs}
		base["k"] = "l3prep"
		prep, err := cl.Call(base)
		if err != nil {
			fatalf("driver l3prep: %v (query %s)", err, printable(q))
		}
		if !getBool(prep, "ok") {
			rep.countCase(q, true)
			rep.addMismatch(Finding{Case: map[string]any{"q": hx(q), "text": printable(q)}, Kind: "mismatch",
				Detail: fmt.Sprint("implementation prepared the statement, the model does not: ", prep["err"]), Affects: []string{"C07"}})
			continue
		}
		outputs := prep["outputs"].([]any)
		if len(outputs) == 0 {
			// the output expression did not survive (e.g. it sits behind an unterminated
			// comment): a statement without outputs scans nothing, not this layer's subject
			dist["skipped:no-outputs"]++
			continue
		}
		rev := map[int]reflect.Type{}
		for id := range tbl.Descs {
			rev[id] = nil
		}
		for _, t := range types {
			registerRev(tbl, t, rev)
		}
		// 2. destinations with prior contents
		var dests []any
		for _, t := range types {
			f := &desc.Filler{R: cr.Fork(), Keys: []string{"k", "id", "prior"}}
			f.N = cr.Intn(1000) * 100
			v := f.Fill(t, 0)
			if t.Kind() == reflect.Map {
				if v.IsNil() {
					v = reflect.MakeMap(t)
				}
				if cr.Chance(1, 2) {
					dests = append(dests, v.Interface())
				} else {
					p := reflect.New(t)
					p.Elem().Set(v)
					dests = append(dests, p.Interface())
				}
			} else {
				p := reflect.New(t)
				p.Elem().Set(v)
				dests = append(dests, p.Interface())
			}
		}
		note := "dests-ok"
		if withFilter && cr.Chance(1, 3) {
			dests = append(dests, &InFilter{Z: 5 * cr.Intn(2)})
			note = "dest-input-only-type"
		} else if cr.Chance(1, 5) && len(dests) > 0 {
			j := cr.Intn(len(dests))
			t := reflect.TypeOf(dests[j])
			switch cr.Intn(9) {
			case 0:
				dests = append(dests[:j:j], dests[j+1:]...)
				note = "dest-dropped"
			case 1:
				dests = append(dests, &Unrelated{Z: 5})
				note = "dest-unrelated"
			case 2:
				if t.Kind() == reflect.Pointer {
					dests[j] = reflect.Zero(t).Interface()
					note = "dest-nil-pointer"
				}
			case 3:
				if t.Kind() == reflect.Map {
					dests[j] = reflect.Zero(t).Interface()
					note = "dest-nil-map"
				}
			case 4:
				if t.Kind() == reflect.Pointer && t.Elem().Kind() == reflect.Map {
					dests[j] = reflect.New(t.Elem()).Interface()
					note = "dest-pointer-to-nil-map"
				}
			case 5:
				if t.Kind() == reflect.Pointer && t.Elem().Kind() == reflect.Struct {
					dests[j] = reflect.ValueOf(dests[j]).Elem().Interface()
					note = "dest-struct-by-value"
				}
			case 6:
				dests = append(dests, dests[j])
				note = "dest-duplicate"
			case 7:
				dests = append(dests, 42)
				note = "dest-int"
			default:
				dests = append(dests, nil)
				note = "dest-nil"
			}
		}
		dist[note]++
		// 3. columns and row
		type colv struct {
			name string
			val  driver.Value
		}
		var cols []colv
		for k, o := range outputs {
			om := o.(map[string]any)
			elem := int(om["elem"].(float64))
			t := rev[elem]
			var v driver.Value = int64(k + 1)
			if t != nil {
				v = valueFor(cr, t)
			}
			cols = append(cols, colv{fmt.Sprintf("_sqlair_%d", k), v})
		}
		if cr.Chance(2, 3) {
			for i := range cols {
				j := cr.Intn(i + 1)
				cols[i], cols[j] = cols[j], cols[i]
			}
			dist["cols:permuted"]++
		}
		nf := cr.Intn(3)
		for j := 0; j < nf; j++ {
			c := colv{cr.Pick(foreignCols), valueFor(cr, reflect.TypeOf(""))}
			p := cr.Intn(len(cols) + 1)
			cols = append(cols[:p], append([]colv{c}, cols[p:]...)...)
			dist["cols:foreign"]++
		}
		if cr.Chance(1, 10) && len(cols) > 0 {
			p := cr.Intn(len(cols))
			cols = append(cols[:p], cols[p+1:]...)
			dist["cols:dropped"]++
		}
		if cr.Chance(1, 10) && len(cols) > 0 {
			c := cols[cr.Intn(len(cols))]
			if idx := strings.TrimPrefix(c.name, "_sqlair_"); idx != c.name {
				var kk int
				fmt.Sscanf(idx, "%d", &kk)
				if kk >= 0 && kk < len(outputs) {
					om := outputs[kk].(map[string]any)
					if t := rev[int(om["elem"].(float64))]; t != nil {
						c.val = valueFor(cr, t)
					}
				}
			}
			cols = append(cols, c)
			dist["cols:duplicated"]++
		}
		// 4. conversions and zero texts the model may need
		conv := []any{}
		zero := []any{}
		seenConv := map[string]bool{}
		for _, o := range outputs {
			om := o.(map[string]any)
			for _, idk := range []string{"elem", "fty"} {
				idf, ok := om[idk].(float64)
				if !ok {
					continue
				}
				t := rev[int(idf)]
				if t == nil {
					continue
				}
				zero = append(zero, []any{int(idf), desc.DriverText(reflect.Zero(t))})
				for _, c := range cols {
					key := fmt.Sprint(fakedrv.ValueText(c.val), "|", int(idf))
					if seenConv[key] {
						continue
					}
					seenConv[key] = true
					res, ok := convOracle(c.val, t)
					var vj, rj any
					if c.val != nil {
						vj = fakedrv.ValueText(c.val)
					}
					if ok {
						rj = res
					}
					conv = append(conv, []any{vj, int(idf), rj})
				}
			}
		}
		// 5. observe
		before := []any{}
		for _, d := range dests {
			before = append(before, flatDest(tbl, d))
		}
		colNames := []string{}
		rowVals := []driver.Value{}
		colsJ, rowJ := []any{}, []any{}
		for _, c := range cols {
			colNames = append(colNames, c.name)
			rowVals = append(rowVals, c.val)
			colsJ = append(colsJ, hx(c.name))
			if c.val == nil {
				rowJ = append(rowJ, nil)
			} else {
				rowJ = append(rowJ, fakedrv.ValueText(c.val))
			}
		}
		var gerr error
		panicked := ""
		again := false
		var againErr error
		warm := cr.Chance(1, 2)
		if warm {
			dist["run-before-with-other-layout"]++
		}
		func() {
			defer func() {
				if p := recover(); p != nil {
					panicked = fmt.Sprint(p)
				}
			}()
			sqldb, st := fakedrv.Open()
			defer sqldb.Close()
			db := sqlair.NewDB(sqldb)
			if warm {
				// the same Statement has already been run on this DB, and the result then had its
				// columns in another order: what counts is the layout of the rows being read
				rn := make([]string, len(colNames))
				rv := make([]driver.Value, len(rowVals))
				for i := range colNames {
					rn[len(rn)-1-i], rv[len(rv)-1-i] = colNames[i], rowVals[i]
				}
				st.SetScript(fakedrv.Script{Columns: rn, Rows: [][]driver.Value{rv}})
				db.Query(context.Background(), stmt, qargs...).Run()
			}
			st.SetScript(fakedrv.Script{Columns: colNames, Rows: [][]driver.Value{rowVals}})
			qo := db.Query(context.Background(), stmt, qargs...)
			gerr = qo.Get(dests...)
			if gerr != nil {
				// the same Query read once more: the same result set is refused again
				again = true
				againErr = qo.Get(dests...)
			}
		}()
		caseJSON := map[string]any{"q": hx(q), "text": printable(q), "cols": colNames, "row": rowJ, "dests": fmt.Sprintf("%#v", dests), "note": note}
		kb, _ := json.Marshal([]any{q, colNames, rowJ, before})
		if panicked != "" {
			rep.countCase(string(kb), true)
			rep.addCrash(Finding{Case: caseJSON, Kind: "crash", Detail: "panic: " + panicked})
			continue
		}
		after := []any{}
		for _, d := range dests {
			after = append(after, flatDest(tbl, d))
		}
		obs := map[string]any{"err": gerr != nil, "dests": after}
		if gerr != nil {
			obs["errText"] = gerr.Error()
			dist["outcome:"+errClass(strings.TrimPrefix(gerr.Error(), "cannot get result: "))]++
		} else {
			dist["outcome:ok"]++
		}
		req := map[string]any{"k": "l3", "segs": base["segs"], "tt": tbl.Descs, "samples": sids, "cls": tbl.Cls(), "args": margs,
			"cols": colsJ, "row": rowJ, "dests": before, "conv": conv, "zero": zero, "obs": obs}
		resp, err := cl.Call(req)
		if err != nil {
			fatalf("driver l3: %v (case %v)", err, caseJSON)
		}
		rep.countCase(string(kb), true)
		if len(rep.Samples) < 5 && cr.Chance(1, 25) {
			rep.Samples = append(rep.Samples, map[string]any{"case": caseJSON, "impl": obs})
		}
		holds := map[string]bool{"C06": getBool(resp, "c06")}
		if again && againErr == nil && panicked == "" {
			holds["C06"] = false
			rep.addHolds("C06", Finding{Case: caseJSON, Kind: "holds", Detail: "a read that failed (" + gerr.Error() + ") returned no error when the same Query was read again: the row was mapped partially",
				Holds: holds, Impl: obs, Model: resp["model"]})
		}
		if !holds["C06"] {
			rep.addHolds("C06", Finding{Case: caseJSON, Kind: "holds", Detail: fmt.Sprint("row values did not land as the scan specification says: ", resp["diff"]),
				Holds: holds, Impl: obs, Model: resp["model"]})
		}
		if !getBool(resp, "agree") {
			rep.Mismatches = appendMismatch(rep.Mismatches, Finding{Case: caseJSON, Kind: "mismatch",
				Detail: fmt.Sprint("model and implementation disagree: ", resp["diff"]), Holds: holds, Impl: obs, Model: resp["model"]}, []string{"C06"})
		}
	}
	rep.Distribution["cases"] = dist
	if *out != "" {
		if err := rep.write(*out); err != nil {
			fatalf("write report: %v", err)
		}
	} else {
		b, _ := json.MarshalIndent(rep, "", " ")
		fmt.Println(string(b))
	}
}

// gOutput draws one output expression (over real zoo types).
func gOutput(g *qgen.G) string { return g.OutputExpr() }

// InFilter is used by statements as an input only.
type InFilter struct {
	Z int `db:"z"`
}

// registerRev fills the id -> reflect.Type map for everything reachable from t.
func registerRev(tbl *desc.Table, t reflect.Type, rev map[int]reflect.Type) {
	id := tbl.ID(t)
	if rev[id] != nil {
		return
	}
	rev[id] = t
	switch t.Kind() {
	case reflect.Pointer, reflect.Slice, reflect.Array:
		registerRev(tbl, t.Elem(), rev)
	case reflect.Map:
		registerRev(tbl, t.Key(), rev)
		registerRev(tbl, t.Elem(), rev)
	case reflect.Struct:
		for i := 0; i < t.NumField(); i++ {
			registerRev(tbl, t.Field(i).Type, rev)
		}
	}
}
