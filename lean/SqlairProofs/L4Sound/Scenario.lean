/-
  L4Sound: events, connections in use and finisher results of the predicted observation in the
  three scenarios of a single-operation case.
-/
import SqlairProofs.L4Sound.Timeline

namespace Sqlair.Rt

/-- what C12 asks of the finisher results -/
def l4s_finishOK (c : Case) (fin : List String) : Bool :=
  decide (c.concurrent > 0) ||
  (if c.beginCancel then fin.all (· == "txDone")
   else (fin.filter (· != "txDone")).length == 1 && fin.head? != some "txDone")

theorem l4s_finishOK_seq {c : Case} (hbc : c.beginCancel = false) (rest : List String) :
    l4s_finishOK c ("" :: rest.map fun _ => "txDone") = true := by
  have h1 : (rest.map fun _ => "txDone").filter (· != "txDone") = [] := by
    rw [List.filter_eq_nil_iff]; intro a ha
    obtain ⟨_, _, rfl⟩ := List.mem_map.1 ha
    decide
  have h2 : ("" != "txDone") = true := by decide
  have h3 : (some "" != some "txDone") = true := by decide
  simp only [l4s_finishOK, hbc, Bool.false_eq_true, if_false, List.filter_cons, h2, if_true, h1, List.head?_cons, h3]
  simp

theorem l4s_finishOK_beginCancel {c : Case} (hbc : c.beginCancel = true) (l : List String) :
    l4s_finishOK c (l.map fun _ => "txDone") = true := by
  simp [l4s_finishOK, hbc]

theorem l4s_conc_of_notTx {c : Case} (h : c.onTx = false) : c.l4s_conc = false := by
  simp [Case.l4s_conc, h]

theorem l4s_isEarly_of_notTx {c : Case} (h : c.onTx = false) : c.l4s_isEarly = false := by
  simp [Case.l4s_isEarly, h]

theorem l4s_isLate_of_notTx {c : Case} (h : c.onTx = false) : c.l4s_isLate = false := by
  simp [Case.l4s_isLate, h]

/-- no transaction -/
theorem l4s_obs_notTx (win : String) {c : Case} (h : c.onTx = false) :
    c.l4s_td = false ∧ l4s_w1 c = {} ∧
    (predObsW win c (l4s_predictSingle c)).events = (l4s_m c).2.log.map Ev.render ∧
    (predObsW win c (l4s_predictSingle c)).inUse = (l4s_m c).2.inUse := by
  have hpre := l4s_pre_not_early (l4s_isEarly_of_notTx h)
  rw [l4s_w0_notTx h] at hpre
  have hpost := l4s_post_not_late (l4s_isLate_of_notTx h) (l4s_pre c).1 (l4s_m c).2
  refine ⟨by simp [Case.l4s_td, hpre], by simp [l4s_w1, hpre], ?_, ?_⟩
  · show l4s_events win c _ = _
    simp [l4s_events, l4s_conc_of_notTx h, l4s_predictSingle_eq, hpost]
  · show (if c.l4s_conc && c.txEnd == "after" then _ else _) = _
    simp [l4s_conc_of_notTx h, l4s_predictSingle_eq, hpost]

/-- on a finished transaction the operation runs nothing -/
theorem l4s_mid_txDone {c : Case} (h : c.onTx = true) (w1 : World) :
    (l4s_mid c true w1).2.log = w1.log ∧ (l4s_mid c true w1).2.inUse = w1.inUse := by
  have hoe : (c.script true).openEvents = [] := Script.openEvents_of_txDone h rfl
  have hop : (c.script true).opensRows = false :=
    Script.not_opensRows_of_openErr (Script.openErr_of_txDone (s := c.script true) h rfl)
  rcases l4s_mid_effect c true w1 with h' | ⟨evs, h'⟩
  · rw [h']; exact ⟨rfl, rfl⟩
  · obtain ⟨h1, h2⟩ := h'.none hop
    exact ⟨by rw [h'.log, hoe, h1]; simp, h2⟩

/-- the transaction is ended before the operation -/
theorem l4s_obs_early {win : String} (hwin : isFinisher win = true) {c : Case} (hp : c.op ≠ "pair")
    (h : c.l4s_isEarly = true) (hw : c.concurrent > 0 ∨ c.finishers ≠ [])
    (hbc' : c.concurrent > 0 ∨ c.beginCancel = false) :
    c.l4s_td = true ∧
    ∃ fe, isFinisher fe = true ∧
      (predObsW win c (l4s_predictSingle c)).events = ["begin", fe] ∧
      (predObsW win c (l4s_predictSingle c)).inUse = 0 ∧
      l4s_finishOK c (predObsW win c (l4s_predictSingle c)).finish = true := by
  have htx : c.onTx = true := by
    unfold Case.l4s_isEarly at h; simp only [Bool.and_eq_true] at h; exact h.1
  have hnl := l4s_early_not_late h
  have hafter : (c.txEnd == "after") = false := by
    simpa [Case.l4s_isLate, htx] using hnl
  have hpost := l4s_post_not_late hnl (l4s_pre c).1 (l4s_m c).2
  by_cases hc : c.concurrent > 0
  · have hpre := l4s_pre_early_conc h hc
    have htd : c.l4s_td = true := by simp [Case.l4s_td, hpre]
    have hm := l4s_mid_txDone htx (l4s_w1 c)
    have hm' : (l4s_m c).2.log = [.begin] ∧ (l4s_m c).2.inUse = 0 := by
      unfold l4s_m; rw [htd, hm.1, hm.2]; simp [l4s_w1, hpre]
    have hconc : c.l4s_conc = true := by
      simp [Case.l4s_conc, htx, hc, hp]
    refine ⟨htd, win, hwin, ?_, ?_, ?_⟩
    · show l4s_events win c _ = _
      simp [l4s_events, hconc, hafter, l4s_predictSingle_eq, hpost, hm'.1, Ev.render]
    · show (if c.l4s_conc && c.txEnd == "after" then _ else _) = _
      simp [hafter, l4s_predictSingle_eq, hpost, hm'.2]
    · simp [l4s_finishOK, hc]
  · have hc0 : c.concurrent = 0 := by omega
    have hbc : c.beginCancel = false := by
      rcases hbc' with h' | h'
      · exact absurd h' hc
      · exact h'
    have hfin : c.finishers ≠ [] := by
      rcases hw with hw | hw
      · exact absurd hw hc
      · exact hw
    obtain ⟨f, rest, hf⟩ := List.exists_cons_of_ne_nil hfin
    have hpre := l4s_pre_early_seq h hc0 hf
    have htd : c.l4s_td = true := by simp [Case.l4s_td, hpre]
    have hm := l4s_mid_txDone htx (l4s_w1 c)
    have hm' : (l4s_m c).2.log = [.begin, finEv (f == "commit")] ∧ (l4s_m c).2.inUse = 0 := by
      unfold l4s_m; rw [htd, hm.1, hm.2]; simp [l4s_w1, hpre]
    have hconc : c.l4s_conc = false := by
      simp [Case.l4s_conc, hc0]
    refine ⟨htd, (finEv (f == "commit")).render, l4s_finEv_render_isFinisher _, ?_, ?_, ?_⟩
    · show l4s_events win c _ = _
      simp [l4s_events, hconc, l4s_predictSingle_eq, hpost, hm'.1, Ev.render]
    · show (if c.l4s_conc && c.txEnd == "after" then _ else _) = _
      simp [hconc, l4s_predictSingle_eq, hpost, hm'.2]
    · show l4s_finishOK c (l4s_predictSingle c).finish = true
      have hpost' := l4s_post_not_late hnl { done := true } (l4s_m c).2
      simp only [l4s_predictSingle_eq, hpre, hpost', List.append_nil]
      exact l4s_finishOK_seq hbc rest

theorem l4s_late_not_early {c : Case} (h : c.l4s_isLate = true) : c.l4s_isEarly = false := by
  cases he : c.l4s_isEarly
  · rfl
  · rw [l4s_early_not_late he] at h; exact absurd h (by simp)

/-- the transaction is ended after the operation -/
theorem l4s_obs_late {win : String} (hwin : isFinisher win = true) {c : Case} (hp : c.op ≠ "pair")
    (h : c.l4s_isLate = true) (hw : c.concurrent > 0 ∨ c.finishers ≠ []) :
    c.l4s_td = false ∧ l4s_w1 c = { log := [.begin], inUse := 1 } ∧
    ∃ fe, isFinisher fe = true ∧
      (predObsW win c (l4s_predictSingle c)).events = (l4s_m c).2.log.map Ev.render ++ [fe] ∧
      (predObsW win c (l4s_predictSingle c)).inUse = (l4s_m c).2.inUse - 1 ∧
      l4s_finishOK c (predObsW win c (l4s_predictSingle c)).finish = true := by
  have htx : c.onTx = true := by
    unfold Case.l4s_isLate at h; simp only [Bool.and_eq_true] at h; exact h.1
  have hafter : (c.txEnd == "after") = true := by
    unfold Case.l4s_isLate at h; simp only [Bool.and_eq_true] at h; exact h.2
  have hpre := l4s_pre_not_early (l4s_late_not_early h)
  rw [l4s_w0_tx htx] at hpre
  have htd : c.l4s_td = false := by simp [Case.l4s_td, hpre]
  have hw1 : l4s_w1 c = { log := [.begin], inUse := 1 } := by simp [l4s_w1, hpre]
  refine ⟨htd, hw1, ?_⟩
  by_cases hc : c.concurrent > 0
  · have hpost := l4s_post_conc hc (l4s_pre c).1 (l4s_m c).2
    have hconc : c.l4s_conc = true := by simp [Case.l4s_conc, htx, hc, hp]
    refine ⟨win, hwin, ?_, ?_, ?_⟩
    · show l4s_events win c _ = _
      simp [l4s_events, hconc, hafter, l4s_predictSingle_eq, hpost]
    · show (if c.l4s_conc && c.txEnd == "after" then _ else _) = _
      simp [hconc, hafter, l4s_predictSingle_eq, hpost]
    · simp [l4s_finishOK, hc]
  · have hc0 : c.concurrent = 0 := by omega
    have hconc : c.l4s_conc = false := by simp [Case.l4s_conc, hc0]
    cases hbc : c.beginCancel
    · have hfin : c.finishers ≠ [] := by
        rcases hw with hw | hw
        · exact absurd hw hc
        · exact hw
      obtain ⟨f, rest, hf⟩ := List.exists_cons_of_ne_nil hfin
      have hpost := l4s_post_seq h hc0 hbc hf (l4s_m c).2
      refine ⟨(finEv (f == "commit")).render, l4s_finEv_render_isFinisher _, ?_, ?_, ?_⟩
      · show l4s_events win c _ = _
        simp [l4s_events, hconc, l4s_predictSingle_eq, hpre, hpost]
      · show (if c.l4s_conc && c.txEnd == "after" then _ else _) = _
        simp [hconc, l4s_predictSingle_eq, hpre, hpost]
      · show l4s_finishOK c (l4s_predictSingle c).finish = true
        simp only [l4s_predictSingle_eq, hpre, hpost, List.nil_append]
        exact l4s_finishOK_seq hbc rest
    · have hpost := l4s_post_beginCancel h hc0 hbc (l4s_pre c).1 (l4s_m c).2
      refine ⟨"rollback", by decide, ?_, ?_, ?_⟩
      · show l4s_events win c _ = _
        simp [l4s_events, hconc, l4s_predictSingle_eq, hpost, Ev.render]
      · show (if c.l4s_conc && c.txEnd == "after" then _ else _) = _
        simp [hconc, l4s_predictSingle_eq, hpost]
      · show l4s_finishOK c (l4s_predictSingle c).finish = true
        have hpost' := l4s_post_beginCancel h hc0 hbc {} (l4s_m c).2
        simp only [l4s_predictSingle_eq, hpre, hpost', List.nil_append]
        exact l4s_finishOK_beginCancel hbc _

end Sqlair.Rt
