/-
  Props/L3Sound: the predicate the scan layer evaluates on the implementation's observation
  (`holdsC06obs`, `SqlairModel/Spec/L3.lean`) is a theorem of the scan model: for every scan
  environment, type table, output list, column list, row and destination list, the model's
  own result satisfies it.  The clause "an error raised before the scan leaves the
  destinations untouched" rests on `scanRow_error_kinds`: `Rows.Scan` ends with one of two
  errors only, so every other error is `ScanArgs`' and nothing was written.
-/
import SqlairModel.Spec.L3

namespace Sqlair

theorem destEq_refl (a : Dest) : destEq a a = true := by
  unfold destEq
  simp only [Bool.and_eq_true, List.all_eq_true, Bool.or_eq_true, List.contains_iff_mem]
  refine ⟨⟨⟨?_, ?_⟩, ?_⟩, ?_⟩
  · intro p hp; exact Or.inr hp
  · intro p hp; exact Or.inl hp
  · intro p hp; exact hp
  · intro p hp; exact hp

theorem destsEq_refl (l : List Dest) : destsEq l l = true := by
  unfold destsEq
  simp only [Bool.and_eq_true, beq_self_eq_true, true_and, List.all_eq_true]
  intro p hp
  induction l with
  | nil => simp at hp
  | cons a t ih =>
    simp only [List.zip_cons_cons, List.mem_cons] at hp
    rcases hp with h | h
    · subst h; exact destEq_refl a
    · exact ih h

/-- `Rows.Scan` in the model ends with "row-too-short" or "conversion", nothing else -/
theorem scanRow_error_kinds (E : ScanEnv) (ts : List Target) (vs : List DV) (dests : List Dest)
    (ps : List Pending) (d' : List Dest) (e : String)
    (h : scanRow E ts vs dests ps = (d', .error e)) : e = "conversion" ∨ e = "row-too-short" := by
  fun_induction scanRow E ts vs dests ps <;> simp_all

/-- an error that is not one of `Rows.Scan`'s is `ScanArgs`': the destinations are as before -/
theorem scanGet_preScanErr_untouched (E : ScanEnv) (tt : TypeTable) (outputs : List Loc) (cols : List Bytes)
    (row : List DV) (dests : List Dest)
    (h : preScanErr (scanGet E tt outputs cols row dests).2 = true) :
    (scanGet E tt outputs cols row dests).1 = dests := by
  unfold scanGet at h ⊢
  cases hs : scanArgs tt outputs cols dests with
  | error e => simp
  | ok ts =>
    simp only [hs] at h ⊢
    generalize hr : scanRow E ts row dests [] = r at h ⊢
    obtain ⟨d', res⟩ := r
    cases res with
    | ok ps => simp [preScanErr] at h
    | error e =>
      rcases scanRow_error_kinds E ts row dests [] d' e hr with he | he <;> subst he <;>
        simp [preScanErr] at h

/-- the scan layer's predicate holds of the model's own result, whatever the inputs -/
theorem holdsC06obs_model (E : ScanEnv) (tt : TypeTable) (outputs : List Loc) (cols : List Bytes)
    (row : List DV) (dests : List Dest) :
    let m := scanGet E tt outputs cols row dests
    holdsC06obs dests m m.2.isSome m.1 = true := by
  intro m
  unfold holdsC06obs
  simp only [beq_self_eq_true, destsEq_refl, Bool.true_and, Bool.or_eq_true, Bool.not_eq_true',
    Bool.and_eq_false_imp]
  by_cases hp : preScanErr m.2 = true
  · right
    have := scanGet_preScanErr_untouched E tt outputs cols row dests hp
    show destsEq dests m.1 = true
    rw [show m.1 = dests from this]
    exact destsEq_refl _
  · left
    intro _
    simpa using hp

/-- the predicate is not vacuous: an implementation that reports no error where the model
    reports one, or that writes a destination although the columns do not fit, fails it -/
example :
    holdsC06obs [{ form := .ptrStruct, tid := 1, fields := [([0], some "a")] }]
      ([{ form := .ptrStruct, tid := 1, fields := [([0], some "a")] }], some "column-missing") true
      [{ form := .ptrStruct, tid := 1, fields := [([0], some "b")] }] = false ∧
    holdsC06obs [{ form := .ptrStruct, tid := 1, fields := [([0], some "a")] }]
      ([{ form := .ptrStruct, tid := 1, fields := [([0], some "a")] }], some "column-missing") false
      [{ form := .ptrStruct, tid := 1, fields := [([0], some "a")] }] = false := by
  decide +kernel

end Sqlair
