/-
  Runtime proofs, C14: rows are delivered in driver order, each once; a fetch failure that is
  reached is pending; all `Close` results of a call sequence agree.
-/
import SqlairProofs.Runtime.GetAll

namespace Sqlair.Rt

/-! ### all `Close` results of a call sequence agree -/

theorem run_closed_agree (it : Iter) (w : World) (cs : List Call) :
    ∀ e1 e2, Out.closed e1 ∈ (run it w cs).2.2 → Out.closed e2 ∈ (run it w cs).2.2 → e1 = e2 := by
  induction cs generalizing it w with
  | nil => simp
  | cons c cs ih =>
    intro e1 e2 h1 h2
    rw [run_cons] at h1 h2
    simp only [List.mem_cons] at h1 h2
    cases c with
    | close =>
      have key : ∀ e', Out.closed e' ∈ (run (step it w .close).1 (step it w .close).2.1 cs).2.2 →
          e' = (it.close w).2.2 := by
        intro e' he'
        have := run_of_rows_none_outs (it := (step it w .close).1) (by simp) (step it w .close).2.1 cs e' he'
        simpa using this
      have h1' : e1 = (it.close w).2.2 := by
        rcases h1 with h1 | h1
        · simpa using h1
        · exact key e1 h1
      have h2' : e2 = (it.close w).2.2 := by
        rcases h2 with h2 | h2
        · simpa using h2
        · exact key e2 h2
      rw [h1', h2']
    | next =>
      rcases h1 with h1 | h1; · simp at h1
      rcases h2 with h2 | h2; · simp at h2
      exact ih _ _ e1 e2 h1 h2
    | get a =>
      rcases h1 with h1 | h1; · simp at h1
      rcases h2 with h2 | h2; · simp at h2
      exact ih _ _ e1 e2 h1 h2
    | cancel =>
      rcases h1 with h1 | h1; · simp at h1
      rcases h2 with h2 | h2; · simp at h2
      exact ih _ _ e1 e2 h1 h2

/-! ### the fetch results still ahead of an iterator -/

/-- the driver results an iterator can still reach -/
def Iter.remaining (it : Iter) : List (Except Err Row) :=
  match it.err, it.rows with
  | none, some r => if r.closed then [] else r.fetch
  | _, _ => []

/-- the leading run of successfully fetched rows -/
def leadRows : List (Except Err Row) → List Row
  | .ok r :: rest => r :: leadRows rest
  | _ => []

/-- id of the current row (`lastcols`) -/
def Iter.curId (it : Iter) : Option Nat := (it.rows.bind (·.cur)).map (·.id)

theorem leadRows_prefix_okRows (l : List (Except Err Row)) : leadRows l <+: okRows l := by
  induction l with
  | nil => simp [leadRows, okRows]
  | cons x rest ih =>
    cases x with
    | ok r => simpa [leadRows, okRows] using ih
    | error e => simp [leadRows]

theorem leadRows_map_ok (rows : List Row) : leadRows (rows.map .ok) = rows := by
  induction rows with
  | nil => rfl
  | cons r rest ih => simp [leadRows, ih]

theorem okRows_map_ok (rows : List Row) : okRows (rows.map .ok) = rows := by
  induction rows with
  | nil => rfl
  | cons r rest ih => simp [okRows, ih]

theorem leadRows_append_error (oks : List Row) (e : Err) (rest : List (Except Err Row)) :
    leadRows (oks.map .ok ++ .error e :: rest) = oks := by
  induction oks with
  | nil => rfl
  | cons r oks ih => simp [leadRows, ih]

theorem Iter.remaining_of_rows_none {it : Iter} (h : it.rows = none) : it.remaining = [] := by
  unfold Iter.remaining; split <;> simp_all

theorem Iter.remaining_of_err {it : Iter} {e : Err} (h : it.err = some e) : it.remaining = [] := by
  unfold Iter.remaining; split <;> simp_all

theorem Iter.remaining_of_rows {it : Iter} {r : Rows} (he : it.err = none) (hr : it.rows = some r) :
    it.remaining = if r.closed then [] else r.fetch := by
  simp [Iter.remaining, he, hr]

/-- what one `Next` does to the remaining fetch results -/
theorem Iter.next_remaining (it : Iter) (w : World) :
    ((it.next w).2.2 = false ∧ leadRows it.remaining = [] ∧ (it.next w).1.remaining = []) ∨
    (∃ row rest, it.remaining = .ok row :: rest ∧ (it.next w).2.2 = true ∧
      (it.next w).1.curId = some row.id ∧ (it.next w).1.remaining = rest) := by
  rcases Option.eq_none_or_eq_some it.err with he | ⟨e, he⟩
  · rcases Option.eq_none_or_eq_some it.rows with hr | ⟨r, hr⟩
    · left
      rw [Iter.next_of_rows_none hr]
      exact ⟨rfl, by simp [Iter.remaining_of_rows_none hr, leadRows],
        Iter.remaining_of_rows_none (by simpa using hr)⟩
    · have hrem := Iter.remaining_of_rows he hr
      have hn := Iter.next_of_rows he hr w
      have hrem' : (it.next w).1.remaining = if (r.next w).1.closed then [] else (r.next w).1.fetch := by
        rw [hn]; exact Iter.remaining_of_rows (by simpa using he) rfl
      cases hc : r.closed
      · simp only [hc, Bool.false_eq_true, if_false] at hrem
        cases hf : r.fetch with
        | nil =>
          left
          obtain ⟨h1, h2, _⟩ := Rows.next_nil hc hf w
          refine ⟨by rw [hn]; exact h1, by simp [hrem, hf, leadRows], by simp [hrem', h2]⟩
        | cons x rest =>
          cases x with
          | error e =>
            left
            obtain ⟨h1, h2, _⟩ := Rows.next_error hc hf w
            refine ⟨by rw [hn]; exact h1, by simp [hrem, hf, leadRows], by simp [hrem', h2]⟩
          | ok row =>
            right
            have hnx := Rows.next_ok hc hf w
            refine ⟨row, rest, by rw [hrem, hf], by rw [hn, hnx], ?_, ?_⟩
            · rw [hn, hnx]; simp [Iter.curId]
            · rw [hrem', hnx]; simp [hc]
      · left
        rw [Iter.next_of_ended (by simp [Iter.ended, hr, hc])]
        refine ⟨rfl, by simp [hrem, hc, leadRows], ?_⟩
        rw [Iter.remaining_of_rows (r := r) (by simpa using he) (by simpa using hr)]
        simp [hc]
  · left
    rw [Iter.next_of_err he]
    exact ⟨rfl, by simp [Iter.remaining_of_err he, leadRows], Iter.remaining_of_err (e := e) (by simpa using he)⟩


theorem Iter.cancel_remaining (it : Iter) (w : World) :
    (it.cancel w).1.remaining = [] ∨ (it.cancel w).1.remaining = it.remaining := by
  cases hr : it.rows with
  | none => right; rw [Iter.cancel_of_rows_none hr]
  | some r =>
    left
    rw [Iter.cancel_of_rows hr]
    rcases Option.eq_none_or_eq_some it.err with he | ⟨e, he⟩
    · rw [Iter.remaining_of_rows (r := (r.cancel w).1) (by simpa using he) rfl]; simp
    · exact Iter.remaining_of_err (e := e) (by simpa using he)

theorem iterOpen_remaining (s : Script) (w : World) :
    (iterOpen s w).1.remaining = if s.opensRows then s.fetch else [] := by
  cases hop : s.opensRows
  · rw [Iter.remaining_of_rows_none (by rw [iterOpen_rows]; exact Script.openRows_of_not_opensRows hop)]; rfl
  · have hrows := iterOpen_rows s w
    rw [Script.openRows_of_opensRows hop] at hrows
    have herr : (iterOpen s w).1.err = none := by
      rw [iterOpen_err]
      have h := hop
      simp only [Script.opensRows, Script.runsOK, Bool.and_eq_true, Option.isNone_iff_eq_none] at h
      exact h.2
    rw [Iter.remaining_of_rows herr hrows]; rfl

/-! ### rows are delivered in order, each once -/

/-- the rows made current by the successful `Next` calls of a call sequence -/
def delivered (it : Iter) (w : World) : List Call → List (Option Nat)
  | [] => []
  | c :: cs =>
    (if (step it w c).2.2 = .bool true then [(step it w c).1.curId] else []) ++
      delivered (step it w c).1 (step it w c).2.1 cs

theorem delivered_prefix (it : Iter) (w : World) (cs : List Call) :
    delivered it w cs <+: (leadRows it.remaining).map (fun r => some r.id) := by
  induction cs generalizing it w with
  | nil => simp [delivered]
  | cons c cs ih =>
    cases c with
    | cancel =>
      have := ih (it.cancel w).1 (it.cancel w).2
      rcases Iter.cancel_remaining it w with h | h
      · rw [h] at this
        simp only [leadRows, List.map_nil, List.prefix_nil] at this
        simp [delivered, this]
      · rw [h] at this
        simpa [delivered] using this
    | get a => simpa [delivered] using ih it w
    | close =>
      have := ih (it.close w).1 (it.close w).2.1
      rw [Iter.remaining_of_rows_none (by simp)] at this
      simp only [leadRows, List.map_nil, List.prefix_nil] at this
      simp [delivered, this]
    | next =>
      have := ih (it.next w).1 (it.next w).2.1
      rcases Iter.next_remaining it w with ⟨h1, h2, h3⟩ | ⟨row, rest, h1, h2, h3, h4⟩
      · rw [h3] at this
        simp only [leadRows, List.map_nil, List.prefix_nil] at this
        simp [delivered, this, h1]
      · rw [h4] at this
        simp only [delivered, step_next, h2, if_true, h3, h1, leadRows, List.map_cons, List.singleton_append]
        exact List.prefix_cons_inj _ |>.2 this

theorem delivered_complete (it : Iter) (w : World) (cs : List Call)
    (hc : ∀ c ∈ cs, c ≠ .cancel ∧ c ≠ .close)
    (hn : (leadRows it.remaining).length ≤ cs.count .next) :
    delivered it w cs = (leadRows it.remaining).map (fun r => some r.id) := by
  induction cs generalizing it w with
  | nil =>
    have : leadRows it.remaining = [] := by simpa using hn
    simp [delivered, this]
  | cons c cs ih =>
    have hcs : ∀ c ∈ cs, c ≠ .cancel ∧ c ≠ .close := fun c h => hc c (by simp [h])
    cases c with
    | cancel => exact absurd rfl (hc .cancel (by simp)).1
    | close => exact absurd rfl (hc .close (by simp)).2
    | get a => simpa [delivered] using ih it w hcs (by simpa using hn)
    | next =>
      rcases Iter.next_remaining it w with ⟨h1, h2, h3⟩ | ⟨row, rest, h1, h2, h3, h4⟩
      · have := delivered_prefix (it.next w).1 (it.next w).2.1 cs
        rw [h3] at this
        simp only [leadRows, List.map_nil, List.prefix_nil] at this
        simp [delivered, this, h1, h2]
      · have := ih (it.next w).1 (it.next w).2.1 hcs (by
          rw [h4]; rw [h1] at hn; simp [leadRows] at hn; omega)
        rw [h4] at this
        simp [delivered, h2, h3, h1, leadRows, this]

/-- a row `Get` stores is the current one -/
theorem Iter.get_row_cur {it : Iter} {a : GetArgs} {id : Nat} (h : it.get a = .row id) :
    it.curId = some id := by
  unfold Iter.get at h
  split at h; · simp at h
  split at h
  · split at h <;> simp at h
  · split at h; · simp at h
    rename_i r hr
    split at h
    · split at h
      · rename_i row hs
        simp at h
        unfold Rows.scan at hs
        split at hs; · simp at hs
        split at hs; · simp at hs
        split at hs; · simp at hs
        rename_i row' hcur
        split at hs
        · simp at hs; subst hs; simp [Iter.curId, hr, hcur, h]
        · simp at hs
      · simp at h
    · simp at h
    · simp at h


/-! ### a row `Get` stores is the one the last successful `Next` made current -/

theorem Iter.curId_of_ended {it : Iter} (hwf : it.WF) (h : it.ended = true) : it.curId = none := by
  cases hr : it.rows with
  | none => simp [Iter.curId, hr]
  | some r =>
    have he : it.err = none := by
      cases h' : it.err with
      | none => rfl
      | some e' => have := hwf.err_rows (by simp [h']); simp [hr] at this
    have hc : r.closed = true := by simpa [Iter.ended, he, hr] using h
    simp [Iter.curId, hr, (hwf.rows_wf r hr).closed_cur hc]

theorem Iter.cancel_ended (it : Iter) (w : World) : (it.cancel w).1.ended = true ∨ (it.cancel w).1 = it := by
  cases hr : it.rows with
  | none => right; rw [Iter.cancel_of_rows_none hr]
  | some r => left; simp [Iter.cancel_of_rows hr, Iter.ended]

theorem delivered_append (it : Iter) (w : World) (cs ds : List Call) :
    delivered it w (cs ++ ds) = delivered it w cs ++ delivered (run it w cs).1 (run it w cs).2.1 ds := by
  induction cs generalizing it w with
  | nil => simp [delivered]
  | cons c cs ih => simp [delivered, run_cons, ih]

/-- the current row, if any, is the last one delivered -/
theorem cur_is_last_delivered {it : Iter} (hwf : it.WF) (w : World) (cs : List Call) (d0 : List (Option Nat))
    (h0 : it.curId = none ∨ d0.getLast? = some it.curId) :
    (run it w cs).1.curId = none ∨
      (d0 ++ delivered it w cs).getLast? = some (run it w cs).1.curId := by
  induction cs generalizing it w d0 with
  | nil => simpa [delivered] using h0
  | cons c cs ih =>
    rw [run_cons]
    have hwf' := step_WF hwf w c
    have key : (step it w c).1.curId = none ∨
        (d0 ++ (if (step it w c).2.2 = .bool true then [(step it w c).1.curId] else [])).getLast?
          = some (step it w c).1.curId := by
      cases c with
      | get a => simpa using h0
      | close => left; simp [Iter.curId]
      | cancel =>
        rcases Iter.cancel_ended it w with h | h
        · left; exact Iter.curId_of_ended (Iter.cancel_WF hwf w) h
        · simpa [h] using h0
      | next =>
        cases hb : (it.next w).2.2
        · left; exact Iter.curId_of_ended (Iter.next_WF hwf w) (Iter.ended_of_next_false it w hb)
        · right; simp [hb]
    have := ih hwf' (step it w c).2.1 _ key
    simpa [delivered, List.append_assoc] using this

/-! ### reaching a fetch failure -/

/-- enough `Next` calls (without `Close`/cancel in between) reach the failing fetch, whose
    error is then pending -/
theorem run_reaches_error {it : Iter} (hwf : it.WF) {r : Rows} {oks : List Row} {e : Err}
    {rest : List (Except Err Row)} (he : it.err = none) (hr : it.rows = some r) (ho : r.closed = false)
    (hf : r.fetch = oks.map .ok ++ .error e :: rest) (w : World) (cs : List Call)
    (hc : ∀ c ∈ cs, c ≠ .cancel ∧ c ≠ .close) (hn : oks.length < cs.count .next) :
    (run it w cs).1.pending = some e := by
  induction cs generalizing it w r oks with
  | nil => simp at hn
  | cons c cs ih =>
    have hcs : ∀ c ∈ cs, c ≠ .cancel ∧ c ≠ .close := fun c h => hc c (by simp [h])
    rw [run_cons]
    cases c with
    | cancel => exact absurd rfl (hc .cancel (by simp)).1
    | close => exact absurd rfl (hc .close (by simp)).2
    | get a => exact ih hwf he hr ho hf w hcs (by simpa using hn)
    | next =>
      cases oks with
      | nil =>
        obtain ⟨_, hp⟩ := Iter.next_fetch_error he hr ho (by simpa using hf) w
        exact run_pending (Iter.next_WF hwf w) hp _ cs
      | cons row oks =>
        have hnx := Rows.next_ok (row := row) ho (by simpa using hf) w
        have hn' := Iter.next_of_rows he hr w
        rw [hnx] at hn'
        refine ih (it := (it.next w).1) (Iter.next_WF hwf w) (by simpa using he) (by rw [hn']) (by simpa using ho) rfl _ hcs ?_
        simp at hn; omega

end Sqlair.Rt
