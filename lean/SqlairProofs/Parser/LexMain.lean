/-
  Property C02, main loop: every attempt to parse an expression starts at a code offset of
  the reference lexer, every parsed expression ends at one, and a successful parse has
  walked the whole input along code offsets.
-/
import SqlairProofs.Parser.LexExprs
import SqlairProofs.Parser.Main

namespace Sqlair

section
variable {E : Env}

/-- every node is a bypass node or starts and ends at a code offset -/
def SegsOK (E : Env) (l : List Seg) : Prop :=
  ∀ seg, seg ∈ l → seg.kind = .bypass ∨ (LexCode E seg.a ∧ LexCode E seg.b)

theorem add_segsOK {st : PS} (hs : SegsOK E st.exprs) (e : Option Seg)
    (he : ∀ x, e = some x → LexCode E x.a ∧ LexCode E x.b) : SegsOK E (st.add e).exprs := by
  unfold PS.add
  simp only []
  have h1 : SegsOK E (if st.prevExprEnd ≠ st.currentExprStart
      then st.exprs ++ [{ kind := .bypass, a := st.prevExprEnd, b := st.currentExprStart }]
      else st.exprs) := by
    split
    · intro seg hm
      rcases List.mem_append.mp hm with hm | hm
      · exact hs seg hm
      · rw [List.mem_singleton] at hm
        subst hm
        exact Or.inl rfl
    · exact hs
  cases e with
  | none => exact h1
  | some x =>
    intro seg hm
    rcases List.mem_append.mp hm with hm | hm
    · exact h1 seg hm
    · rw [List.mem_singleton] at hm
      subst hm
      exact Or.inr (he seg rfl)

theorem initSc_lc : LC E (initSc E) := by
  obtain ⟨g, hp⟩ := initSc_good (E := E)
  exact ⟨g, by rw [hp]; exact LexCode.zero⟩

/-- the main loop walks along code offsets: when it succeeds it has reached the end of the
    input at a code offset, and every expression node it produced starts and ends at one -/
theorem parseLoop_lex (h : DecOK E) (ha : AsciiDec E) (hc : ClassAscii E) : ∀ (f : Nat) {st : PS},
    LC E st.sc → SegsOK E st.exprs → ∀ st', parseLoop E f st = .ok st' →
      LC E st'.sc ∧ st'.sc.pos = E.len ∧ SegsOK E st'.exprs := by
  intro f
  induction f with
  | zero => intro st _ _ st' hres; unfold parseLoop at hres; cases hres
  | succ f ih =>
    intro st l hs st' hres
    unfold parseLoop at hres
    obtain ⟨la, hstop⟩ := advanceToNextExpression_lc h hc l
    split at hres
    · cases hres
    · next sc1 heq =>
      rw [heq] at hstop
      have l1 : LC E sc1 := la.of_eq heq
      have hs1 : StopOK E sc1 := hstop rfl
      simp only [] at hres
      split at hres
      · next hlen =>
        cases hres
        exact ⟨l1, hlen, hs⟩
      · next hlen =>
        have hp1 : sc1.pos < E.len := by have := l1.good.pos_le; omega
        have ho := parseOutputExpr_eok h l1.good
        have lo := parseOutputExpr_lc h ha hc l1
        split at hres
        · cases hres
        · next sc2 seg heq2 =>
          obtain ⟨_, _, hsa, hsb⟩ := ho.elim_ok heq2
          have l2 : LC E sc2 := lo.of_eq heq2
          refine ih ?_ ?_ st' hres
          · exact l2
          · refine add_segsOK (by exact hs) _ (fun x hx => ?_)
            cases hx
            exact ⟨by rw [hsa]; exact l1.code, by rw [hsb]; exact l2.code⟩
        · next sc2 heq2 =>
          have hsc2 : sc2 = sc1 := ho.elim_no heq2
          subst hsc2
          have hi := parseInputExpr_eok h l1.good
          have li := parseInputExpr_lc h ha hc l1
          split at hres
          · cases hres
          · next sc3 seg heq3 =>
            obtain ⟨_, _, hsa, hsb⟩ := hi.elim_ok heq3
            have l3 : LC E sc3 := li.of_eq heq3
            refine ih ?_ ?_ st' hres
            · exact l3
            · refine add_segsOK (by exact hs) _ (fun x hx => ?_)
              cases hx
              exact ⟨by rw [hsa]; exact l1.code, by rw [hsb]; exact l3.code⟩
          · next sc3 heq3 =>
            have hsc3 : sc3 = sc2 := hi.elim_no heq3
            subst hsc3
            have hch := hs1.char hc hp1
            refine ih ?_ ?_ st' hres
            · exact advanceChar_lc_char h l1 ⟨hch.1, hch.2.1, hch.2.2.1, hch.2.2.2.1⟩
            · exact hs

/-- **The parser walks the lexer's path.**  If `parse` succeeds, the end of the input is a
    code offset of the reference lexer, and every node other than a bypass node starts and
    ends at a code offset. -/
theorem parse_lex (h : DecOK E) (ha : AsciiDec E) (hc : ClassAscii E) {segs : List Seg}
    (hp : parse E = .ok segs) : LexCode E E.len ∧ SegsOK E segs := by
  unfold parse at hp
  split at hp
  · cases hp
  · next st heq =>
    cases hp
    obtain ⟨l', hlen, hs'⟩ := parseLoop_lex h ha hc _ (by exact initSc_lc)
      (by intro _ hm; cases hm) st heq
    exact ⟨by rw [← hlen]; exact l'.code, add_segsOK hs' none (fun x hx => by cases hx)⟩

end
end Sqlair
