/-
  `iterClose`, and the invariant over all steps / all reachable states.
-/
import SqlairProofs.Cache.Fin

namespace Sqlair.Cache

theorem step_iterClose {st st' : St} {h : Nat} (hs : step st (.iterClose h) = some st') :
    ∃ id, alook st.iters h = some id ∧
      ((∃ x, dsGet st.ds id = some x ∧ x.closeCalled = true ∧ x.driverClosed = false ∧
          (st.iters.filter (·.1 != h)).any (·.2 == id) = false ∧
          st' = { st with iters := st.iters.filter (·.1 != h),
                          ds := dsUpd st.ds id (fun x => { x with driverClosed := true }),
                          log := st.log ++ [.close id] }) ∨
       ((∀ x, dsGet st.ds id = some x → x.closeCalled = true → x.driverClosed = false →
            (st.iters.filter (·.1 != h)).any (·.2 == id) = true) ∧
          st' = { st with iters := st.iters.filter (·.1 != h) })) := by
  simp only [step] at hs
  split at hs
  · rename_i h' id hf
    have hal : alook st.iters h = some id := by unfold alook; rw [hf]; rfl
    refine ⟨id, hal, ?_⟩
    simp only [getDS_eq, updDS_eq, iterHolds_eq, St.emit] at hs
    split at hs
    · rename_i x hx
      by_cases hc : (x.closeCalled && !x.driverClosed && !(st.iters.filter (·.1 != h)).any (·.2 == id)) = true
      · simp only [hc, if_true, Option.some.injEq] at hs
        simp only [Bool.and_eq_true, Bool.not_eq_true'] at hc
        left
        exact ⟨x, hx, hc.1.1, hc.1.2, hc.2, hs.symm⟩
      · simp only [hc, Bool.false_eq_true, if_false, Option.some.injEq] at hs
        right
        refine ⟨?_, hs.symm⟩
        intro y hy h1 h2
        rw [hx] at hy; cases hy
        simp only [h1, h2, Bool.not_false, Bool.and_self, Bool.true_and, Bool.not_eq_true', Bool.not_eq_false] at hc
        exact hc
    · rename_i hx
      right
      simp only [Option.some.injEq] at hs
      refine ⟨?_, hs.symm⟩
      intro y hy; rw [hx] at hy; cases hy
  · simp at hs

theorem inv_iterClose {st st' : St} {h : Nat} (hi : Inv st) (hs : step st (.iterClose h) = some st') : Inv st' := by
  obtain ⟨id, hal, hc⟩ := step_iterClose hs
  have hmem := alook_some_mem hal
  have hnd := hi.iters.nodup
  have hsame : ∀ id', (h, id') ∈ st.iters → id' = id := by
    intro id' hm
    have := alook_of_mem_nodup hnd hm
    rw [hal] at this; cases this; rfl
  have hnd' : ((st.iters.filter (·.1 != h)).map (·.1)).Nodup :=
    hnd.sublist (List.Sublist.map _ List.filter_sublist)
  have hkeep : ∀ h' id', (h', id') ∈ st.iters → id' ≠ id → (h', id') ∈ st.iters.filter (·.1 != h) := by
    intro h' id' hm hne
    apply List.mem_filter.2
    refine ⟨hm, ?_⟩
    simp only [bne_iff_ne, ne_eq]
    rintro rfl
    exact hne (hsame id' hm)
  rcases hc with ⟨x, hx, hcc, hdc, hheld, rfl⟩ | ⟨hheld, rfl⟩
  · -- the waiting close reaches the driver
    have hG : ∀ id', dsGet (dsUpd st.ds id (fun x => { x with driverClosed := true })) id' =
        if id' = id then some { x with driverClosed := true } else dsGet st.ds id' := by
      intro id'; rw [dsGet_upd (by intro x; rfl), hx]; rfl
    have hnot : Ev.close id ∉ st.log := by
      intro hm
      obtain ⟨y, hy, hyc⟩ := hi.log.close id hm
      rw [hx] at hy; cases hy; rw [hdc] at hyc; cases hyc
    constructor
    · have hd := hi.dsOK
      constructor
      · exact hd.ids.upd (by intro x; rfl)
      · intro id' y hy hf
        rw [hG] at hy
        split at hy
        · cases hy; exact hd.fin_open id x hx hf
        · exact hd.fin_open id' y hy hf
      · intro id' y hy
        rw [hG] at hy
        split at hy
        · cases hy; exact hd.calls id x hx
        · exact hd.calls id' y hy
      · intro id' y hy hf
        rw [hG] at hy
        split at hy
        · cases hy; exact hcc
        · exact hd.dclosed id' y hy hf
    · exact hi.maps
    · constructor
      · intro s d id' hl
        obtain ⟨y, hy, h1, h2, h3⟩ := hi.cache.ok s d id' hl
        rw [hG]
        split
        · rename_i e; subst e; rw [hx] at hy; cases hy
          exact ⟨_, rfl, h1, h2, h3⟩
        · exact ⟨y, hy, h1, h2, h3⟩
      · exact hi.cache.inj
    · exact hi.live
    · have ho := hi.ops
      constructor
      · exact ho.nodup
      · exact ho.keys
      · intro t o id' hm hpc
        obtain ⟨y, hy, h⟩ := ho.prepared t o id' hm hpc
        rw [hG]
        split
        · rename_i e; subst e; rw [hx] at hy; cases hy
          exact ⟨_, rfl, h⟩
        · exact ⟨y, hy, h⟩
      · intro t o id' hm hpc
        obtain ⟨y, hy, h⟩ := ho.ready t o id' hm hpc
        rw [hG]
        split
        · rename_i e; subst e; rw [hx] at hy; cases hy
          exact ⟨_, rfl, h⟩
        · exact ⟨y, hy, h⟩
    · constructor
      · exact hnd'
      · intro h' id' hm
        have hm0 := (List.mem_filter.1 hm).1
        obtain ⟨y, hy, hyc⟩ := hi.iters.isOpen h' id' hm0
        rw [hG]
        split
        · rename_i e; subst e
          exfalso
          have := List.any_eq_false.1 hheld (h', id') hm
          simp at this
        · exact ⟨y, hy, hyc⟩
      · intro id' y hy h1 h2
        rw [hG] at hy
        split at hy
        · cases hy; cases h2
        · rename_i e
          obtain ⟨h', hm⟩ := hi.iters.waiting id' y hy h1 h2
          exact ⟨h', hkeep h' id' hm e⟩
    · intro id' y hy
      rw [hG] at hy
      split at hy
      · cases hy; exact Or.inl hcc
      · exact hi.noLeak id' y hy
    · have hl := hi.log
      constructor
      · intro id' y hy
        apply List.mem_append_left
        rw [hG] at hy
        split at hy
        · rename_i e; cases hy; rw [e]; exact hl.prep id x hx
        · exact hl.prep id' y hy
      · apply exec_append hl.exec
        intro _ _ _ e; cases e
      · intro id' hm
        rcases List.mem_append.1 hm with hm | hm
        · exact hl.noEC id' hm
        · simp at hm
      · intro id' hm
        rw [hG]
        by_cases e : id' = id
        · simp only [e, if_true]; exact ⟨_, rfl, rfl⟩
        · simp only [e, if_false]
          apply hl.close
          rcases List.mem_append.1 hm with hm | hm
          · exact hm
          · simp at hm; exact absurd hm e
      · intro id'
        rw [List.count_append]
        by_cases e : id' = id
        · subst e
          have : List.count (Ev.close id') st.log = 0 := List.count_eq_zero.2 hnot
          simp [this]
        · have := hl.close1 id'
          have e' : ¬ id = id' := fun h => e h.symm
          simp [e']; exact this
      · intro id' y hy hdc
        rw [hG] at hy
        split at hy
        · rename_i e; simp [e]
        · exact List.mem_append_left _ (hl.logged id' y hy hdc)
  · -- nothing else happens
    refine { hi with iters := ?_ }
    constructor
    · exact hnd'
    · intro h' id' hm
      exact hi.iters.isOpen h' id' (List.mem_filter.1 hm).1
    · intro id' y hy h1 h2
      by_cases e : id' = id
      · subst e
        have := hheld y hy h1 h2
        obtain ⟨p, hp, hp2⟩ := List.any_eq_true.1 this
        refine ⟨p.1, ?_⟩
        have : p = (p.1, id') := by cases p; simp_all
        rw [← this]; exact hp
      · obtain ⟨h', hm⟩ := hi.iters.waiting id' y hy h1 h2
        exact ⟨h', hkeep h' id' hm e⟩

/-! ### all steps, all reachable states -/

theorem inv_step {st st' : St} (hi : Inv st) (x : Step) (h : step st x = some st') : Inv st' := by
  cases x with
  | newS => exact inv_newS hi h
  | newD => exact inv_newD hi h
  | query t s d q => exact inv_query hi h
  | lookup t => exact inv_lookup hi h
  | prepare t => exact inv_prepare hi h
  | insert t => exact inv_insert hi h
  | exec t it => exact inv_exec hi h
  | iterClose h' => exact inv_iterClose hi h
  | dropS s => exact inv_dropS hi h
  | dropD d => exact inv_dropD hi h
  | finS s => exact inv_finS hi h
  | finD d => exact inv_finD hi h
  | finDS id => exact inv_finDS hi h

/-- the states of all executions: any interleaving of the atomic steps of any number of
    operations with reference drops and finalizer runs -/
def Reachable (st : St) : Prop := ∃ steps, st = run {} steps

theorem run_append (st : St) (xs ys : List Step) : run st (xs ++ ys) = run (run st xs) ys := by
  unfold run; rw [List.foldl_append]

theorem run_cons (st : St) (x : Step) (xs : List Step) : run st (x :: xs) = run ((step st x).getD st) xs := rfl

theorem inv_run {st : St} (hi : Inv st) (steps : List Step) : Inv (run st steps) := by
  induction steps generalizing st with
  | nil => exact hi
  | cons x xs ih =>
    rw [run_cons]
    apply ih
    cases h : step st x with
    | none => exact hi
    | some st' => exact inv_step hi x h

theorem Reachable.inv {st : St} (h : Reachable st) : Inv st := by
  obtain ⟨steps, rfl⟩ := h
  exact inv_run inv_init steps

theorem Reachable.init : Reachable {} := ⟨[], rfl⟩

theorem Reachable.next {st st' : St} (h : Reachable st) (x : Step) (hs : Sqlair.Cache.step st x = some st') : Reachable st' := by
  obtain ⟨steps, rfl⟩ := h
  refine ⟨steps ++ [x], ?_⟩
  rw [run_append, run_cons, hs]; rfl

theorem Reachable.runs {st : St} (h : Reachable st) (steps : List Step) : Reachable (Sqlair.Cache.run st steps) := by
  obtain ⟨steps0, rfl⟩ := h
  exact ⟨steps0 ++ steps, (run_append _ _ _).symm⟩

/-- `Reachable` is the inductive closure: it holds for any predicate that holds initially
    and is preserved by enabled steps -/
theorem Reachable.induction {P : St → Prop} (h0 : P {}) (hstep : ∀ st st' x, P st → Sqlair.Cache.step st x = some st' → P st')
    {st : St} (h : Reachable st) : P st := by
  obtain ⟨steps, rfl⟩ := h
  suffices ∀ st0, P st0 → P (Sqlair.Cache.run st0 steps) from this _ h0
  induction steps with
  | nil => intro st0 h; exact h
  | cons x xs ih =>
    intro st0 h
    rw [run_cons]
    apply ih
    cases hs : Sqlair.Cache.step st0 x with
    | none => exact h
    | some st' => exact hstep _ _ _ h hs

end Sqlair.Cache
