/-
  L2Rows/Grid: `holdsC04rows` accepts every faithful rectangle: if the values the driver
  received are, row by row, the texts of the members (found by tag) of the rows for a list of
  column tags `colTags`, and `colTags` are the columns written in the statement (`colInsert`)
  or a sublist of the sorted tags of the first row (`astInsert`), the predicate is true.
-/
import SqlairModel.Spec.L2Rows

namespace Sqlair

theorem chunk_flatten {α : Type} (m : Nat) (hm : 0 < m) : ∀ (rs : List (List α)) (fuel : Nat),
    (∀ r ∈ rs, r.length = m) → rs.length < fuel → chunk m fuel rs.flatten = rs := by
  intro rs
  induction rs with
  | nil => intro fuel _ hf; cases fuel with
    | zero => omega
    | succ f => rfl
  | cons r rest ih =>
    intro fuel hall hf
    cases fuel with
    | zero => omega
    | succ f =>
      have hr : r.length = m := hall r (by simp)
      cases r with
      | nil => simp at hr; omega
      | cons a r' =>
        simp only [List.flatten_cons, List.cons_append, chunk]
        have h1 : (a :: (r' ++ rest.flatten)).take m = a :: r' := by
          rw [← List.cons_append, List.take_left' hr]
        have h2 : (a :: (r' ++ rest.flatten)).drop m = rest.flatten := by
          rw [← List.cons_append, List.drop_left' hr]
        rw [h1, h2, ih f (fun r hr => hall r (List.mem_cons_of_mem _ hr)) (by simpa using hf)]

/-- the column check of `holdsC04rows` -/
def colIsF (C : Cls) (tt : TypeTable) (rows : List GoVal) (grid : List (List String)) (c : Nat) (t : Bytes) : Bool :=
  (rows.zip grid).all fun (row, vals) =>
    match valueByTag C tt 8 row t, vals[c]? with
    | some fv, some p => fv.h.r == p
    | _, _ => false

theorem colIsF_true {C : Cls} {tt : TypeTable} {rows : List GoVal} {colTags : List Bytes} {g : GoVal → Bytes → String}
    (hg : ∀ row ∈ rows, ∀ t ∈ colTags, ∃ fv, valueByTag C tt 8 row t = some fv ∧ fv.h.r = g row t)
    {c : Nat} {t : Bytes} (hc : colTags[c]? = some t) :
    colIsF C tt rows (rows.map fun row => colTags.map (g row)) c t = true := by
  unfold colIsF
  rw [List.all_eq_true]
  intro p hp
  obtain ⟨row, vals⟩ := p
  have hmem := List.of_mem_zip hp
  have hv : vals = colTags.map (g row) := by
    rw [List.zip_map_right] at hp
    simp only [List.mem_map] at hp
    obtain ⟨⟨a, b⟩, hab, e⟩ := hp
    have := List.of_mem_zip hab
    simp only [Prod.map] at e
    cases e
    have hdiag : ∀ (l : List GoVal) (a b : GoVal), (a, b) ∈ l.zip l → a = b := by
      intro l
      induction l with
      | nil => intro a b h; cases h
      | cons x xs ih =>
        intro a b h
        simp only [List.zip_cons_cons, List.mem_cons, Prod.mk.injEq] at h
        rcases h with ⟨rfl, rfl⟩ | h
        · rfl
        · exact ih a b h
    rw [hdiag _ _ _ hab]
    rfl
  obtain ⟨fv, h1, h2⟩ := hg row hmem.1 t (List.mem_of_getElem? hc)
  simp only [h1, hv, List.getElem?_map, hc, Option.map_some, h2, beq_self_eq_true]

/-! ### the increasing selection of `assignCols` -/

/-- `is` is an increasing selection, from `lo` on, of one candidate per column -/
def AssignOK : List (List Nat) → Nat → List Nat → Prop
  | [], _, [] => True
  | cs :: cands, lo, i :: is => lo ≤ i ∧ i ∈ cs ∧ AssignOK cands (i + 1) is
  | _, _, _ => False

theorem assignCols_true : ∀ (cands : List (List Nat)) (fuel lo : Nat) (is : List Nat),
    cands.length < fuel → AssignOK cands lo is → assignCols fuel cands lo = true := by
  intro cands
  induction cands with
  | nil =>
    intro fuel lo is hf _
    cases fuel with
    | zero => omega
    | succ f => rfl
  | cons cs rest ih =>
    intro fuel lo is hf h
    cases fuel with
    | zero => omega
    | succ f =>
      cases is with
      | nil => exact absurd h (by simp [AssignOK])
      | cons i is =>
        obtain ⟨h1, h2, h3⟩ := h
        simp only [assignCols, List.any_eq_true, Bool.and_eq_true, decide_eq_true_eq]
        exact ⟨i, h2, h1, ih f (i + 1) is (by simpa using hf) h3⟩

/-- `is` are increasing positions, from `lo` on, of the elements of `ts` in `sorted` -/
def IncSel (sorted : List Bytes) : Nat → List Bytes → List Nat → Prop
  | _, [], [] => True
  | lo, t :: ts, i :: is => lo ≤ i ∧ sorted[i]? = some t ∧ IncSel sorted (i + 1) ts is
  | _, _, _ => False

theorem IncSel.mono {sorted : List Bytes} {lo lo' : Nat} (hle : lo' ≤ lo) :
    ∀ {ts : List Bytes} {is : List Nat}, IncSel sorted lo ts is → IncSel sorted lo' ts is := by
  intro ts is h
  cases ts with
  | nil => cases is with
    | nil => trivial
    | cons _ _ => exact absurd h (by simp [IncSel])
  | cons t ts => cases is with
    | nil => exact absurd h (by simp [IncSel])
    | cons i is => exact ⟨Nat.le_trans hle h.1, h.2.1, h.2.2⟩

theorem incSel_of_sublist {ts l : List Bytes} (h : ts.Sublist l) :
    ∀ pre : List Bytes, ∃ is, IncSel (pre ++ l) pre.length ts is := by
  induction h with
  | slnil => intro pre; exact ⟨[], trivial⟩
  | cons a _ ih =>
    intro pre
    obtain ⟨is, his⟩ := ih (pre ++ [a])
    refine ⟨is, ?_⟩
    have := his.mono (lo' := pre.length) (by simp)
    simpa using this
  | cons_cons a _ ih =>
    intro pre
    obtain ⟨is, his⟩ := ih (pre ++ [a])
    refine ⟨pre.length :: is, Nat.le_refl _, by simp, ?_⟩
    simpa using his

theorem assignOK_of_incSel {sorted : List Bytes} (F : Nat → List Nat) :
    ∀ (ts : List Bytes) (is : List Nat) (off lo : Nat), IncSel sorted lo ts is →
    (∀ (j : Nat) (t : Bytes) (i : Nat), ts[j]? = some t → sorted[i]? = some t → i ∈ F (off + j)) →
    AssignOK ((List.range' off ts.length).map F) lo is := by
  intro ts
  induction ts with
  | nil =>
    intro is off lo h _
    cases is with
    | nil => trivial
    | cons _ _ => exact absurd h (by simp [IncSel])
  | cons t ts ih =>
    intro is off lo h hF
    cases is with
    | nil => exact absurd h (by simp [IncSel])
    | cons i is =>
      obtain ⟨h1, h2, h3⟩ := h
      simp only [List.length_cons, List.range'_succ, List.map_cons]
      refine ⟨h1, by simpa using hF 0 t i (by simp) h2, ih is (off + 1) (i + 1) h3 ?_⟩
      intro j t' i' hj hi'
      have := hF (j + 1) t' i' (by simpa using hj) hi'
      rwa [show off + (j + 1) = off + 1 + j by omega] at this

theorem assignOK_of_incSel0 {sorted : List Bytes} (F : Nat → List Nat) (ts : List Bytes) (is : List Nat)
    (h : IncSel sorted 0 ts is)
    (hF : ∀ (j : Nat) (t : Bytes) (i : Nat), ts[j]? = some t → sorted[i]? = some t → i ∈ F j) :
    AssignOK ((List.range ts.length).map F) 0 is := by
  rw [List.range_eq_range']
  exact assignOK_of_incSel F ts is 0 0 h (fun j t i h1 h2 => by simpa using hF j t i h1 h2)

/-- the rows of the single argument, as `holdsC04rows` takes them -/
def rowsOfArg (arg : GoVal) : List GoVal :=
  match arg with
  | .slice _ els => els
  | v => [v]

/-- the part of `holdsC04rows` after the selection of the node and of the rows (a copy of
    its text with the rows as a parameter; `holdsC04rows_eq_tail` is the link) -/
def c04tail (C : Cls) (tt : TypeTable) (s : OSeg) (o : BindObs) (rows : List GoVal) : Bool :=
      if rows.isEmpty then true else
      match rows.mapM (tagsOfVal C tt 8) with
      | none => true
      | some tagLists =>
        match tagLists with
        | [] => true
        | tags :: _ =>
          let n := o.params.length
          if n == 0 then true else
          if n % rows.length != 0 then false else
          let ncols := n / rows.length
          let grid := chunk ncols (rows.length + 1) (o.params.map (·.2))
          grid.length == rows.length &&
          (let colIs (c : Nat) (t : Bytes) : Bool :=
             (rows.zip grid).all fun (row, vals) =>
               match valueByTag C tt 8 row t, vals[c]? with
               | some fv, some p => fv.h.r == p
               | _, _ => false
           if s.kind == .colInsert then
             s.cols.length == ncols &&
             ((List.range ncols).zip s.cols).all fun (c, col) => colIs c col.column
           else
             let sorted := sortBytes tags.eraseDups
             let cands : List (List Nat) := (List.range ncols).map fun c =>
               (List.range sorted.length).filter fun i => colIs c (sorted.getD i #[])
             assignCols (ncols + 1) cands 0)

theorem holdsC04rows_eq_tail (C : Cls) (tt : TypeTable) (segs : List OSeg) (arg : GoVal) (o : BindObs)
    (s : OSeg) (a : Acc) (hsegs : segs.filter (·.kind != .bypass) = [s]) (htypes : s.types = [a]) :
    holdsC04rows C tt segs [arg] o =
      (if !(o.prepOk && o.bindOk) || o.mode == "none" then true else
       if !(s.kind == .astInsert || s.kind == .colInsert) then true else
       if a.member != star then true else c04tail C tt s o (rowsOfArg arg)) := by
  unfold holdsC04rows
  rw [hsegs]
  simp only [htypes]
  cases arg <;> rfl

/-- `c04tail` accepts every faithful rectangle -/
theorem c04tail_of_grid {C : Cls} {tt : TypeTable} {o : BindObs}
    {s : OSeg} {colTags : List Bytes} {g : GoVal → Bytes → String} {rows : List GoVal}
    (hvals : o.params.map (·.2) = (rows.map fun row => colTags.map (g row)).flatten)
    (hg : ∀ row ∈ rows, ∀ t ∈ colTags, ∃ fv, valueByTag C tt 8 row t = some fv ∧ fv.h.r = g row t)
    (hcols : (s.kind = .colInsert ∧ s.cols.map (·.column) = colTags) ∨
      (s.kind = .astInsert ∧ ∀ tags tl, rows.mapM (tagsOfVal C tt 8) = some (tags :: tl) →
        colTags.Sublist (sortBytes tags.eraseDups))) :
    c04tail C tt s o rows = true := by
  unfold c04tail
  split
  · rfl
  rename_i hne
  cases hm : rows.mapM (tagsOfVal C tt 8) with
  | none => rfl
  | some tagLists =>
    cases tagLists with
    | nil => rfl
    | cons tags tl =>
      simp only
      have hlenv : o.params.length = rows.length * colTags.length := by
        have := congrArg List.length hvals
        simp only [List.length_map, List.length_flatten, List.map_map] at this
        rw [this]
        have : (List.map (List.length ∘ fun row => List.map (g row) colTags) rows) = rows.map fun _ => colTags.length := by
          apply List.map_congr_left; intro r _; simp
        rw [this, List.map_const', List.sum_replicate_nat]
      have hrpos : 0 < rows.length := by
        cases rows with
        | nil => simp at hne
        | cons _ _ => simp
      split
      · rfl
      rename_i hn0
      have hcpos : 0 < colTags.length := by
        rcases Nat.eq_zero_or_pos colTags.length with h0 | h0
        · rw [hlenv, h0] at hn0; simp at hn0
        · exact h0
      have hmod : (o.params.length % rows.length != 0) = false := by
        rw [hlenv]; simp
      simp only [hmod, Bool.false_eq_true, if_false]
      have hdiv : o.params.length / rows.length = colTags.length := by
        rw [hlenv, Nat.mul_comm, Nat.mul_div_cancel _ hrpos]
      rw [hdiv, hvals]
      rw [chunk_flatten colTags.length hcpos _ _ (by
        intro r hr
        obtain ⟨row, _, rfl⟩ := List.mem_map.1 hr
        simp) (by simp)]
      simp only [List.length_map, beq_self_eq_true, Bool.true_and]
      have hcolIs : ∀ c t, colTags[c]? = some t →
          ((rows.zip (rows.map fun row => colTags.map (g row))).all fun (row, vals) =>
            match valueByTag C tt 8 row t, vals[c]? with
            | some fv, some p => fv.h.r == p
            | _, _ => false) = true := fun c t hc => colIsF_true hg hc
      rcases hcols with ⟨hk, hct⟩ | ⟨hk, hsub⟩
      · have hk' : (s.kind == SegKind.colInsert) = true := by rw [hk]; decide
        simp only [hk', if_true, Bool.and_eq_true, beq_iff_eq]
        refine ⟨by rw [← hct]; simp, ?_⟩
        rw [List.all_eq_true]
        intro p hp
        obtain ⟨c, col⟩ := p
        obtain ⟨i, hi1, hi2⟩ := List.mem_iff_getElem.1 hp
        simp only [List.getElem_zip, List.getElem_range, Prod.mk.injEq] at hi2
        obtain ⟨rfl, rfl⟩ := hi2
        refine hcolIs i _ ?_
        subst hct
        simp only [List.length_zip, List.length_range, List.length_map] at hi1
        rw [List.getElem?_map, List.getElem?_eq_getElem (by omega)]
        rfl
      · have hk' : (s.kind == SegKind.colInsert) = false := by rw [hk]; decide
        simp only [hk', Bool.false_eq_true, if_false]
        obtain ⟨is, his⟩ := incSel_of_sublist (hsub tags tl hm) []
        simp only [List.nil_append, List.length_nil] at his
        apply assignCols_true _ _ _ is (by simp)
        apply assignOK_of_incSel0 _ colTags is his
        intro j t i hj hi
        simp only [List.mem_filter, List.mem_range]
        refine ⟨(List.getElem?_eq_some_iff.1 hi).1, ?_⟩
        have : (sortBytes tags.eraseDups).getD i #[] = t := by
          simp [List.getD, hi]
        rw [this]
        exact hcolIs j t hj

/-- `holdsC04rows` accepts every faithful rectangle -/
theorem holdsC04rows_of_grid {C : Cls} {tt : TypeTable} {segs : List OSeg} {arg : GoVal} {o : BindObs}
    {s : OSeg} {a : Acc} {colTags : List Bytes} {g : GoVal → Bytes → String}
    (hsegs : segs.filter (·.kind != .bypass) = [s]) (htypes : s.types = [a])
    (hvals : o.params.map (·.2) = ((rowsOfArg arg).map fun row => colTags.map (g row)).flatten)
    (hg : ∀ row ∈ rowsOfArg arg, ∀ t ∈ colTags, ∃ fv, valueByTag C tt 8 row t = some fv ∧ fv.h.r = g row t)
    (hcols : (s.kind = .colInsert ∧ s.cols.map (·.column) = colTags) ∨
      (s.kind = .astInsert ∧ ∀ tags tl, (rowsOfArg arg).mapM (tagsOfVal C tt 8) = some (tags :: tl) →
        colTags.Sublist (sortBytes tags.eraseDups))) :
    holdsC04rows C tt segs [arg] o = true := by
  rw [holdsC04rows_eq_tail C tt segs arg o s a hsegs htypes, c04tail_of_grid hvals hg hcols]
  simp

end Sqlair
