/-
  Spec/L2Rows: C04, row faithfulness, stated on the implementation's observation
  without the model's bind function (moved verbatim from `Driver/L2Rows.lean`, which
  re-exports these definitions, so that `SqlairProofs` can state theorems about them
  without importing `Driver`): for an insert expression fed from one `$T.*` source
  and run with a single argument (T, *T, []T, []*T, a map or a slice of maps) the values
  the driver receives form a rectangle, one row per element in order, and the columns (those written in the statement, or for `(*)` ONE increasing selection of the sorted db tags of T) are such that the value at row
  r, column c is the value of member c of element r.  The members are found by tag
  (`valueByTag`), never through the index paths the library computes.
-/
import SqlairModel.Spec.L2

namespace Sqlair

/-- no embedded (anonymous, exported, untagged) pointer field points to a map or to a
    pointer: `valueByTag`/`tagsOfVal` follow every non-nil embedded pointer, the library only
    pointers to structs -/
def embPtrOK (tt : TypeTable) : Bool :=
  tt.all fun td => td.fields.all fun f =>
    !(f.anon && f.exported && f.tag.size == 0 && (tt.get f.ty).kind == .ptr) ||
      ((tt.get (tt.get f.ty).elem).kind != .map && (tt.get (tt.get f.ty).elem).kind != .ptr)



/-- the db tags reachable in a value, by tag search; `none` if an embedded pointer on the
    way is nil (the type has more tags than the value shows) -/
def tagsOfVal (C : Cls) (tt : TypeTable) : Nat → GoVal → Option (List Bytes)
  | 0, _ => none
  | fuel+1, v =>
    match v with
    | .ptr _ (some p) => tagsOfVal C tt fuel p
    | .map _ (some kv) => some (kv.map (·.1))
    | .struct h fs =>
      let td := tt.get h.t
      (td.fields.zip fs).foldl (fun acc (fd, fv) =>
        match acc with
        | none => none
        | some l =>
          if fd.tag.size != 0 then
            match parseTag C fd.tag with
            | .ok (name, _) => if fd.exported then some (l ++ [name]) else some l
            | .error _ => none
          else if fd.anon && fd.exported then
            match fv with
            | .struct .. => (tagsOfVal C tt fuel fv).map (l ++ ·)
            | .ptr _ (some p) => (tagsOfVal C tt fuel p).map (l ++ ·)
            | .ptr _ none => none
            | _ => some l
          else some l) (some [])
    | _ => none

/-- assign to every column a tag whose values match the column in every row, the tags
    taken in increasing position of the sorted tag list (`(*)` lists the columns sorted) -/
def assignCols : Nat → List (List Nat) → Nat → Bool
  | 0, _, _ => false
  | _, [], _ => true
  | fuel+1, cands :: rest, lo =>
    cands.any fun i => lo ≤ i && assignCols fuel rest (i + 1)

def chunk {α} (n : Nat) : Nat → List α → List (List α)
  | 0, _ => []
  | _, [] => []
  | fuel+1, l => l.take n :: chunk n fuel (l.drop n)

def holdsC04rows (C : Cls) (tt : TypeTable) (segs : List OSeg) (args : List GoVal) (o : BindObs) : Bool :=
  if !(o.prepOk && o.bindOk) || o.mode == "none" then true else
  match segs.filter (·.kind != .bypass), args with
  | [s], [arg] =>
    if !(s.kind == .astInsert || s.kind == .colInsert) then true else
    match s.types with
    | [a] =>
      if a.member != star then true else
      let rows : List GoVal := match arg with
        | .slice _ els => els
        | v => [v]
      if rows.isEmpty then true else
      match rows.mapM (tagsOfVal C tt 8) with
      | none => true
      | some tagLists =>
        match tagLists with
        | [] => true
        | tags :: _ =>
          let n := o.params.length
          if n == 0 then true else      -- (everything omitted: the known finding of C17, not C04's)
          if n % rows.length != 0 then false else
          let ncols := n / rows.length
          let grid := chunk ncols (rows.length + 1) (o.params.map (·.2))
          grid.length == rows.length &&
          (let colIs (c : Nat) (t : Bytes) : Bool :=
             (rows.zip grid).all fun (row, vals) =>
               match valueByTag C tt 8 row t, vals[c]? with
               | some fv, some p => fv.h.r == p
               | _, _ => false
           if s.kind == .colInsert then
             -- the columns are written in the statement
             s.cols.length == ncols &&
             ((List.range ncols).zip s.cols).all fun (c, col) => colIs c col.column
           else
             let sorted := sortBytes tags.eraseDups
             let cands : List (List Nat) := (List.range ncols).map fun c =>
               (List.range sorted.length).filter fun i => colIs c (sorted.getD i #[])
             assignCols (ncols + 1) cands 0)
    | _ => true
  | _, _ => true

/-- the guards under which the driver evaluates `holdsC04rows` (each one shown necessary by a
    kernel-checked counterexample on the model's own observation, `Props/L2Rows.lean`): the
    written columns carry no table qualifier (`holdsC04rows` looks members up by the bare
    column name, the library by the qualified one), and the type table satisfies `embPtrOK` -/
def c04rowsGuards (tt : TypeTable) (segs : List OSeg) : Bool :=
  embPtrOK tt && segs.all fun s => s.cols.all fun c => c.table.size == 0

end Sqlair
