/-
  The micro-steps the finalizers of Statement and DB decompose into:
  `evictClose s d id` (close the statement cached at slot (s, d) and remove the slot from
  both maps), `eraseS s`, `eraseD d` (remove an emptied key).  Each preserves the invariant.
-/
import SqlairProofs.Cache.Close

namespace Sqlair.Cache

def evictClose (s d id : Nat) (st : St) : St :=
  { st.closeStmt id with
    dbStmt := delIdx (st.closeStmt id).dbStmt d s
    stmtDB := del2 (st.closeStmt id).stmtDB s d }

def eraseS (s : Nat) (st : St) : St := { st with stmtDB := st.stmtDB.filter (·.1 != s) }
def eraseD (d : Nat) (st : St) : St := { st with dbStmt := st.dbStmt.filter (·.1 != d) }

theorem alook_del2_isSome (m : List (Nat × List (Nat × Nat))) (s d k : Nat) :
    (alook (del2 m s d) k).isSome = (alook m k).isSome := by
  rw [del2_eq, alook_modify m s (fun row => row.filter (·.1 != d))]
  split
  · rename_i e; subst e; cases alook m k <;> rfl
  · rfl

theorem alook_delIdx_isSome (m : List (Nat × List Nat)) (d s k : Nat) :
    (alook (delIdx m d s) k).isSome = (alook m k).isSome := by
  rw [delIdx_eq, alook_modify m d (fun l => l.filter (· != s))]
  split
  · rename_i e; subst e; cases alook m k <;> rfl
  · rfl

theorem MapsOK.del {sm : List (Nat × List (Nat × Nat))} {dm : List (Nat × List Nat)} {nS nD : Nat}
    (hmp : MapsOK sm dm nS nD) (s d : Nat) : MapsOK (del2 sm s d) (delIdx dm d s) nS nD := by
  constructor
  · intro p hp
    rw [del2_eq] at hp
    obtain ⟨p0, hp0, rfl⟩ := List.mem_map.1 hp
    have := hmp.sKeys_lt p0 hp0
    split <;> exact this
  · intro p hp
    rw [delIdx_eq] at hp
    obtain ⟨p0, hp0, rfl⟩ := List.mem_map.1 hp
    have := hmp.dKeys_lt p0 hp0
    split <;> exact this
  · rw [keys_del2]; exact hmp.sKeys_nodup
  · rw [keys_delIdx]; exact hmp.dKeys_nodup
  · intro p hp
    rw [del2_eq] at hp
    obtain ⟨p0, hp0, rfl⟩ := List.mem_map.1 hp
    have := hmp.row_nodup p0 hp0
    split
    · exact this.sublist (List.Sublist.map _ List.filter_sublist)
    · exact this
  · intro p hp
    rw [delIdx_eq] at hp
    obtain ⟨p0, hp0, rfl⟩ := List.mem_map.1 hp
    have := hmp.idx_nodup p0 hp0
    split
    · exact this.filter _
    · exact this
  · intro s' d'
    rw [mem_getIdx_delIdx, lookup2_del2, hmp.index]
    by_cases e : s' = s ∧ d' = d
    · simp [e]
    · have e' : ¬ (d' = d ∧ s' = s) := fun h => e ⟨h.2, h.1⟩
      simp [e, e']

theorem inv_evictClose {st : St} {s d id : Nat} (hi : Inv st) (hl : lookup2 st.stmtDB s d = some id)
    (hno : ∀ t o, (t, o) ∈ st.ops → o.pc ≠ .done → ¬ (o.s = s ∧ o.d = d)) : Inv (evictClose s d id st) := by
  obtain ⟨x, hx, hdb, hcc, hfin⟩ := hi.cache.ok s d id hl
  unfold evictClose
  rw [closeStmt_eq hx hcc]
  have hr := closeRel_closeD hi.dsOK hx hcc hfin (st.iters.any (·.2 == id))
  have hL := lookup2_del2 st.stmtDB s d
  have hnc : ∀ s' d', lookup2 (del2 st.stmtDB s d) s' d' ≠ some id := by
    intro s' d' h
    rw [hL] at h
    split at h
    · cases h
    · rename_i e; exact e (hi.cache.inj _ _ _ _ _ h hl)
  have hnh : ∀ t o, (t, o) ∈ st.ops → o.pc ≠ .prepared id ∧ o.pc ≠ .ready id := by
    intro t o hm
    constructor
    · intro hpc
      obtain ⟨_, _, _, _, _, _, h6, _⟩ := hi.ops.prepared t o id hm hpc
      exact h6 s d hl
    · intro hpc
      obtain ⟨_, _, _, _, _, h5⟩ := hi.ops.ready t o id hm hpc
      have := h5 s d hl
      exact hno t o hm (by simp [hpc]) ⟨this.1.symm, this.2.symm⟩
  have hcache1 : CacheOK (del2 st.stmtDB s d) st.ds := by
    constructor
    · intro s' d' id' h
      rw [hL] at h
      split at h
      · cases h
      · exact hi.cache.ok _ _ _ h
    · intro s1 d1 s2 d2 id' h1 h2
      rw [hL] at h1 h2
      split at h1
      · cases h1
      · split at h2
        · cases h2
        · exact hi.cache.inj _ _ _ _ _ h1 h2
  have hops1 : OpsOK st.ops (del2 st.stmtDB s d) (delIdx st.dbStmt d s) st.ds := by
    have ho := hi.ops
    constructor
    · exact ho.nodup
    · intro t o hm hpc
      rw [alook_del2_isSome, alook_delIdx_isSome]; exact ho.keys t o hm hpc
    · intro t o id' hm hpc
      obtain ⟨y, h1, h2, h3, h4, h5, h6, h7⟩ := ho.prepared t o id' hm hpc
      refine ⟨y, h1, h2, h3, h4, h5, ?_, h7⟩
      intro s' d' h
      rw [hL] at h
      split at h
      · cases h
      · exact h6 _ _ h
    · intro t o id' hm hpc
      obtain ⟨y, h1, h2, h3, h4, h5⟩ := ho.ready t o id' hm hpc
      refine ⟨y, h1, h2, h3, h4, ?_⟩
      intro s' d' h
      rw [hL] at h
      split at h
      · cases h
      · exact h5 _ _ h
  exact {
    dsOK := hr.dsOK hi.dsOK
    maps := hi.maps.del s d
    cache := hr.cache hcache1 hnc
    live := ⟨fun s' hs' => by rw [alook_del2_isSome]; exact hi.live.liveS s' hs',
             fun d' hd' => by rw [alook_delIdx_isSome]; exact hi.live.liveD d' hd'⟩
    ops := hr.ops hops1 hnh
    iters := hr.iters hi.iters rfl
    noLeak := hr.noLeak hi.noLeak (by
      intro s' d' id' hne h
      rw [hL, if_neg]; exact h
      rintro ⟨rfl, rfl⟩; rw [hl] at h; cases h; exact hne rfl)
    log := hr.log hi.dsOK hi.log }

theorem inv_eraseS {st : St} {s : Nat} (hi : Inv st) (hrow : ∀ d, lookup2 st.stmtDB s d = none)
    (hlive : s ∉ st.liveS) (hno : ∀ t o, (t, o) ∈ st.ops → o.pc ≠ .done → o.s ≠ s) : Inv (eraseS s st) := by
  unfold eraseS
  have hL := lookup2_erase st.stmtDB s
  have hsub : ∀ s' d' id, lookup2 (st.stmtDB.filter (·.1 != s)) s' d' = some id → lookup2 st.stmtDB s' d' = some id := by
    intro s' d' id h
    rw [hL] at h
    split at h
    · cases h
    · exact h
  have hsup : ∀ s' d' id, lookup2 st.stmtDB s' d' = some id → lookup2 (st.stmtDB.filter (·.1 != s)) s' d' = some id := by
    intro s' d' id h
    rw [hL, if_neg]; exact h
    rintro rfl; rw [hrow] at h; cases h
  refine { hi with maps := ?_, cache := ?_, live := ?_, ops := ?_, noLeak := ?_ }
  · have hmp := hi.maps
    constructor
    · intro p hp; exact hmp.sKeys_lt p (List.mem_filter.1 hp).1
    · exact hmp.dKeys_lt
    · exact hmp.sKeys_nodup.sublist (List.Sublist.map _ List.filter_sublist)
    · exact hmp.dKeys_nodup
    · intro p hp; exact hmp.row_nodup p (List.mem_filter.1 hp).1
    · exact hmp.idx_nodup
    · intro s' d'
      rw [hmp.index, hL]
      by_cases e : s' = s
      · subst e; simp [hrow]
      · simp [e]
  · constructor
    · intro s' d' id h; exact hi.cache.ok _ _ _ (hsub _ _ _ h)
    · intro s1 d1 s2 d2 id h1 h2; exact hi.cache.inj _ _ _ _ _ (hsub _ _ _ h1) (hsub _ _ _ h2)
  · constructor
    · intro s' hs'
      rw [alook_erase, if_neg]; exact hi.live.liveS s' hs'
      rintro rfl; exact hlive hs'
    · exact hi.live.liveD
  · have ho := hi.ops
    constructor
    · exact ho.nodup
    · intro t o hm hpc
      rw [alook_erase, if_neg (hno t o hm hpc)]; exact ho.keys t o hm hpc
    · intro t o id' hm hpc
      obtain ⟨y, h1, h2, h3, h4, h5, h6, h7⟩ := ho.prepared t o id' hm hpc
      exact ⟨y, h1, h2, h3, h4, h5, fun s' d' h => h6 s' d' (hsub _ _ _ h), h7⟩
    · intro t o id' hm hpc
      obtain ⟨y, h1, h2, h3, h4, h5⟩ := ho.ready t o id' hm hpc
      exact ⟨y, h1, h2, h3, h4, fun s' d' h => h5 s' d' (hsub _ _ _ h)⟩
  · intro id x hx
    rcases hi.noLeak id x hx with h | h | ⟨s', d', h⟩ | h
    · exact Or.inl h
    · exact Or.inr (Or.inl h)
    · exact Or.inr (Or.inr (Or.inl ⟨s', d', hsup _ _ _ h⟩))
    · exact Or.inr (Or.inr (Or.inr h))

theorem inv_eraseD {st : St} {d : Nat} (hi : Inv st) (hidx : getIdx st.dbStmt d = [])
    (hlive : d ∉ st.liveD) (hno : ∀ t o, (t, o) ∈ st.ops → o.pc ≠ .done → o.d ≠ d) : Inv (eraseD d st) := by
  unfold eraseD
  refine { hi with maps := ?_, live := ?_, ops := ?_ }
  · have hmp := hi.maps
    constructor
    · exact hmp.sKeys_lt
    · intro p hp; exact hmp.dKeys_lt p (List.mem_filter.1 hp).1
    · exact hmp.sKeys_nodup
    · exact hmp.dKeys_nodup.sublist (List.Sublist.map _ List.filter_sublist)
    · exact hmp.row_nodup
    · intro p hp; exact hmp.idx_nodup p (List.mem_filter.1 hp).1
    · intro s' d'
      rw [getIdx_erase]
      by_cases e : d' = d
      · subst e
        have := hmp.index s' d'
        rw [hidx] at this
        simp only [if_true]
        exact this
      · simp only [e, if_false]; exact hmp.index s' d'
  · constructor
    · exact hi.live.liveS
    · intro d' hd'
      rw [alook_erase, if_neg]; exact hi.live.liveD d' hd'
      rintro rfl; exact hlive hd'
  · have ho := hi.ops
    constructor
    · exact ho.nodup
    · intro t o hm hpc
      rw [alook_erase, if_neg (hno t o hm hpc)]; exact ho.keys t o hm hpc
    · exact ho.prepared
    · exact ho.ready

end Sqlair.Cache
