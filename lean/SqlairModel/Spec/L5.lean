/-
  Spec/L5: sequential cache histories (the exact flavour of the L5 correspondence) and the
  invariants evaluated on the implementation's driver log (C09, C10, C11).
-/
import SqlairModel.Cache

namespace Sqlair.Cache

/-- operations of a sequential history; indices are creation-order ids (1-based) -/
inductive HOp where
  | newS | newD
  | run (s d shape : Nat)
  | mkq (q s d shape : Nat)      -- DB.Query: build a Query and keep it
  | runq (q : Nat)               -- run a Query built earlier
  | dropS (s : Nat) | dropD (d : Nat)
  | gc
deriving Repr, Inhabited

/-- one observation segment: what happened up to and including a gc barrier -/
structure Segment where
  calls : List (String × Nat × Nat × Nat) := []   -- ("prepare"|"exec", ds, db, shape) in order
  closed : List Nat := []                          -- driver statements closed in the segment
deriving Repr, Inhabited, DecidableEq

def insertSortedNat (x : Nat) : List Nat → List Nat
  | [] => [x]
  | y :: ys => if x ≤ y then x :: y :: ys else y :: insertSortedNat x ys
def sortNat (l : List Nat) : List Nat := l.foldl (fun acc x => insertSortedNat x acc) []

def segmentOf (evs : List Ev) : Segment :=
  evs.foldl (fun sg e => match e with
    | .prepare ds db sql => { sg with calls := sg.calls ++ [("prepare", ds, db, sql)] }
    | .exec ds db sql => { sg with calls := sg.calls ++ [("exec", ds, db, sql)] }
    | .close ds => { sg with closed := sortNat (ds :: sg.closed) }
    | .execClosed ds => { sg with calls := sg.calls ++ [("execClosed", ds, 0, 0)] }) {}

/-- run a history; returns the final state and the segments -/
def runHistory : List HOp → St → Nat → List Segment → Nat → St × List Segment
  | [], st, mark, segs, _ => (st, segs ++ [segmentOf (st.log.drop mark)])
  | op :: rest, st, mark, segs, t =>
    match op with
    | .newS => runHistory rest ((step st .newS).getD st) mark segs t
    | .newD => runHistory rest ((step st .newD).getD st) mark segs t
    | .run s d shape =>
      let st := run st [.query t s d shape, .lookup t, .prepare t, .insert t, .exec t none]
      runHistory rest st mark segs (t + 1)
    | .mkq q s d shape => runHistory rest ((step st (.query (1000 + q) s d shape)).getD st) mark segs t
    | .runq q =>
      let t' := 1000 + q
      runHistory rest (run st [.lookup t', .prepare t', .insert t', .exec t' none]) mark segs t
    | .dropS s => runHistory rest ((step st (.dropS s)).getD st) mark segs t
    | .dropD d => runHistory rest ((step st (.dropD d)).getD st) mark segs t
    | .gc =>
      let st := gc (st.ds.length + st.stmtDB.length + st.dbStmt.length + 1) st
      runHistory rest st st.log.length (segs ++ [segmentOf (st.log.drop mark)]) t

def isPrepareEv : Ev → Bool
  | .prepare .. => true
  | _ => false

/-- driver-level prepares per `run` / `runq` operation of a history (other operations
    contribute nothing): what C09's reuse clause bounds - a run whose SQL is cached for the
    pair prepares nothing -/
def prepCounts : List HOp → St → Nat → List Nat
  | [], _, _ => []
  | op :: rest, st, t =>
    let cnt (a b : St) : Nat := (b.log.filter isPrepareEv).length - (a.log.filter isPrepareEv).length
    match op with
    | .newS => prepCounts rest ((step st .newS).getD st) t
    | .newD => prepCounts rest ((step st .newD).getD st) t
    | .run s d shape =>
      let st' := run st [.query t s d shape, .lookup t, .prepare t, .insert t, .exec t none]
      cnt st st' :: prepCounts rest st' (t + 1)
    | .mkq q s d shape => prepCounts rest ((step st (.query (1000 + q) s d shape)).getD st) t
    | .runq q =>
      let t' := 1000 + q
      let st' := run st [.lookup t', .prepare t', .insert t', .exec t' none]
      cnt st st' :: prepCounts rest st' t
    | .dropS s => prepCounts rest ((step st (.dropS s)).getD st) t
    | .dropD d => prepCounts rest ((step st (.dropD d)).getD st) t
    | .gc => prepCounts rest (gc (st.ds.length + st.stmtDB.length + st.dbStmt.length + 1) st) t

/-- C09, reuse clause on a sequential history with one pooled connection: no operation
    prepares more often than the model (which prepares only on a cache miss) -/
def holdsC09reuse (model obs : List Nat) : Bool :=
  model.length != obs.length || (model.zip obs).all fun (m, o) => o ≤ m

/-- cached (statement, db, shape) triples -/
def St.pairs (st : St) : List (Nat × Nat × Nat) :=
  st.stmtDB.foldl (fun acc (s, row) =>
    acc ++ row.filterMap fun (d, id) => (st.getDS id).map fun x => (s, d, x.sql)) []

/-! ### invariants on an observed log (events carry the shape and DB the *call* asked for) -/

/-- an execution observed at the driver: which driver statement ran, on which DB, what
    SQL shape it had been prepared with, and what the call it served wanted -/
structure ExecObs where
  ds : Nat
  db : Nat          -- DB the driver statement lives on
  shape : Nat       -- shape of its SQL
  wantDb : Nat
  wantShape : Nat
  closedBefore : Bool   -- the driver statement had been closed before this execution
deriving Repr, Inhabited

/-- C09: every execution ran a statement prepared from the SQL generated for that call, on
    that call's DB -/
def holdsC09 (execs : List ExecObs) : Bool := execs.all fun e => e.db == e.wantDb && e.shape == e.wantShape

/-- C10: no closed driver statement is executed, no operation fails with "statement is closed" -/
def holdsC10 (execs : List ExecObs) (closedErrors : Nat) : Bool :=
  execs.all (fun e => !e.closedBefore) && closedErrors == 0

/-- C11 (after dropping everything and collecting garbage): every driver statement was
    closed exactly once and the cache is empty; in general: never closed twice and the open
    ones are bounded by the cached pairs times the pooled connections -/
def holdsC11 (doubleClose openStmts cachedPairs conns : Nat) (allDropped : Bool) (cacheEntries : Nat) : Bool :=
  doubleClose == 0 && openStmts ≤ cachedPairs * conns && (!allDropped || (openStmts == 0 && cacheEntries == 0))

end Sqlair.Cache
