#!/bin/sh
# Build the verification framework from files on disk only (offline).
set -e
V="$(cd "$(dirname "$0")" && pwd)"
cd "$V/lean" && lake build 2>&1 | tail -5
export GOFLAGS=-mod=mod GOPROXY=off GOSUMDB=off GOTOOLCHAIN=local
mkdir -p "$V/build"
(cd "$V/harness" && go build -o "$V/build/harness-facts" ./cmd/factgen && go build -o "$V/build/harness-zoogen" ./cmd/zoogen)
(cd "$V/lean" && lake build FactsCheck 2>&1 | tail -2)
if [ -z "$VERIF_REPO" ] || [ "$VERIF_REPO" = /repo ]; then
  cd "$V/harness" && go build -tags verif -o "$V/build/harness" ./cmd/harness
fi
echo setup-ok
