#!/bin/sh
# Unchanged-tree sweep against a clean scratch worktree of /repo (so that it can run while
# seeded changes are being applied to /repo itself). Usage: tools/localsweep.sh "<seeds>" [tier]
cd "$(dirname "$0")/.." || exit 2
WT=/tmp/cleanrepo
[ -d "$WT" ] || git -C /repo worktree add --detach "$WT" HEAD >/dev/null 2>&1
git -C "$WT" checkout -q --detach "$(git -C /repo rev-parse HEAD)" 2>/dev/null
bad=0
for seed in ${1:-1 2 3}; do
  for p in $(python3 -c "import json; print(' '.join(c['property_id'] for c in json.load(open('MANIFEST.json'))['checks']))"); do
    out=$(VERIF_SEED=$seed VERIF_REPO=$WT VERIF_BUILD=/tmp/vbclean VERIF_NO_EVIDENCE=1 timeout 3000 ./check $p --tier ${2:-quick} 2>&1)
    rc=$?
    [ $rc -ne 0 ] && { bad=$((bad+1)); echo "$out" | tail -3; }
  done
done
echo "local sweep done: alarms=$bad"
