/-
  E2E/InsertStore: C17, first half of the composition: what the INSERT expansion of
  `(*) VALUES ($T.*)` writes into the store, in terms of `locateParams`.
-/
import SqlairProofs.Props.Bind
import SqlairProofs.Props.Store

namespace Sqlair

/-- the value of row `r` among the values a locator yields: element `r` of a bulk slice, the
    single value otherwise -/
def Params.rowVal (p : Params) (r : Nat) : Option String := if p.bulk then p.vals[r]? else p.vals[0]?

/-- the typed columns generated for `(*) VALUES ($T.*)`: one per field, named by its tag,
    not explicit -/
def fieldCols (tid : Nat) (n : Bytes) (fields : List SField) : List TCol :=
  fields.map fun f => TCol.insert (.field tid n f) f.tag false

theorem colsBound_fieldCols {tt : TypeTable} {m : TypeToValue} {tid : Nat} {n : Bytes} :
    ∀ {fields : List SField} {bcs : List BCol}, ColsBound tt m (fieldCols tid n fields) bcs →
    bcs.map (·.column) = fields.map (·.tag) ∧
    ∀ (k : Nat) (f : SField), fields[k]? = some f → ∃ bc p, bcs[k]? = some bc ∧
      locateParams tt m (.field tid n f) = .ok p ∧ bc.vals = p.vals ∧ bc.om = p.om ∧
      bc.bulk = p.bulk ∧ bc.column = f.tag := by
  intro fields
  induction fields with
  | nil =>
    intro bcs h
    cases bcs with
    | nil => exact ⟨rfl, by simp⟩
    | cons _ _ => exact absurd h (by simp [fieldCols, ColsBound])
  | cons f rest ih =>
    intro bcs h
    cases bcs with
    | nil => exact absurd h (by simp [fieldCols, ColsBound])
    | cons bc bcs =>
      obtain ⟨h1, h2⟩ : ColBound tt m (TCol.insert (.field tid n f) f.tag false) bc ∧
          ColsBound tt m (fieldCols tid n rest) bcs := h
      obtain ⟨p, hp, hv, hom, hb, hc, _⟩ := h1
      obtain ⟨ih1, ih2⟩ := ih h2
      refine ⟨by simp [hc, ih1], ?_⟩
      intro k f' hk
      cases k with
      | zero => simp at hk; subst hk; exact ⟨bc, p, by simp, hp, hv, hom, hb, hc⟩
      | succ k => simp at hk; simpa using ih2 k f' hk

theorem paramValue_of_mem {ps : List (Nat × String)} (hnd : (ps.map (·.1)).Nodup) {n : Nat} {v : String}
    (h : (n, v) ∈ ps) : paramValue ps n = some v := by
  unfold paramValue
  induction ps with
  | nil => cases h
  | cons p rest ih =>
    rw [List.map_cons, List.nodup_cons] at hnd
    rcases List.mem_cons.1 h with h | h
    · subst h; simp [List.find?]
    · have hne : p.1 ≠ n := by
        intro heq
        exact hnd.1 (heq ▸ List.mem_map_of_mem (f := (·.1)) h)
      have : (p.1 == n) = false := by simpa using hne
      simp only [List.find?, this]
      exact ih hnd.2 h

theorem map_inj_of_nodup {α β : Type} {f : α → β} : ∀ {l : List α}, (l.map f).Nodup →
    ∀ {a b : α}, a ∈ l → b ∈ l → f a = f b → a = b := by
  intro l
  induction l with
  | nil => intro _ a b ha; cases ha
  | cons x xs ih =>
    intro hnd a b ha hb hab
    rw [List.map_cons, List.nodup_cons] at hnd
    rcases List.mem_cons.1 ha with ha' | ha' <;> rcases List.mem_cons.1 hb with hb' | hb'
    · rw [ha', hb']
    · subst ha'; exact absurd (hab ▸ List.mem_map_of_mem (f := f) hb') hnd.1
    · subst hb'; exact absurd (hab ▸ List.mem_map_of_mem (f := f) ha') hnd.1
    · exact ih hnd.2 ha' hb' hab

/-- row `r` of a successful `execInsert` is the tuple built from row `r` of the cells -/
theorem execInsert_getElem? {cols : List Bytes} {params : List (Nat × String)} :
    ∀ {rows : List (List Cell)} {stored : List SRow}, execInsert cols rows params = some stored →
    stored.length = rows.length ∧
    ∀ (r : Nat) (srow : SRow), stored[r]? = some srow →
      ∃ cells, rows[r]? = some cells ∧ insertTuple params cols cells = some srow := by
  intro rows
  unfold execInsert
  induction rows with
  | nil => intro stored h; simp at h; subst h; exact ⟨rfl, by simp⟩
  | cons x xs ih =>
    intro stored h
    rw [List.mapM_cons] at h
    cases hx : insertTuple params cols x with
    | none => simp [hx] at h
    | some rx =>
      cases hxs : xs.mapM (insertTuple params cols) with
      | none => simp [hx, hxs] at h
      | some rest =>
        simp [hx, hxs] at h
        subst h
        obtain ⟨ih1, ih2⟩ := ih hxs
        refine ⟨by simp [ih1], ?_⟩
        intro r srow hr
        cases r with
        | zero => simp at hr; subst hr; exact ⟨x, by simp, hx⟩
        | succ r => simp at hr; simpa using ih2 r srow hr

end Sqlair

namespace Sqlair

theorem Params.rowVal_of_not_bulk {p : Params} (h : p.bulk = false) (r : Nat) : p.rowVal r = p.vals[0]? := by
  simp [Params.rowVal, h]

theorem Params.rowVal_of_bulk {p : Params} (h : p.bulk = true) (r : Nat) : p.rowVal r = p.vals[r]? := by
  simp [Params.rowVal, h]

/-- what the store holds after executing the INSERT expansion of `(*) VALUES ($T.*)`:
    `located`: every field has its values; `kept`: the column list is the tags of the members
    that are not omitted; `stored`: in stored row `r`, a kept member's column holds row `r` of
    its values and an omitted member's column was not written -/
structure InsertStored (tt : TypeTable) (m : TypeToValue) (tid : Nat) (n : Bytes) (fields : List SField)
    (names : List Bytes) (rows : List (List Cell)) (P : List (Nat × String)) : Prop where
  rows_pos : 1 ≤ rows.length
  located : ∀ f ∈ fields, ∃ p, locateParams tt m (.field tid n f) = .ok p ∧
    (p.bulk = true → p.vals.length = rows.length) ∧ (f.tag ∈ names ↔ p.om = false)
  stored : ∀ stored, execInsert names rows P = some stored → stored.length = rows.length ∧
    ∀ (r : Nat) (srow : SRow), stored[r]? = some srow →
      ∀ f ∈ fields, ∀ p, locateParams tt m (.field tid n f) = .ok p →
        (p.om = false → ∃ v, p.rowVal r = some v ∧ rowGet srow f.tag = some v) ∧
        (p.om = true → rowGet srow f.tag = none)

theorem insert_store_step {tt : TypeTable} {m : TypeToValue} {q1 q2 : QB} {tid : Nat} {n : Bytes}
    {fields : List SField} (htags : (fields.map (·.tag)).Nodup)
    (hs : addToQuery tt m q1 (.insert (fieldCols tid n fields)) = .ok q2) :
    ∃ names rows news, q2.pieces = q1.pieces ++ [.insert names rows] ∧ q2.params = q1.params ++ news ∧
      ∀ P : List (Nat × String), (P.map (·.1)).Nodup → (∀ x ∈ news, x ∈ P) →
        InsertStored tt m tid n fields names rows P := by
  obtain ⟨qb1, bcs, numRows, hb, hcb, hpc, hpm⟩ := insert_omit_spec hs
  obtain ⟨qb1', bcs', numRows', hb', _, _, hcell⟩ := insert_cell_spec hs
  have e1 := Except.ok.inj (hb.symm.trans hb')
  simp only [Prod.mk.injEq] at e1
  obtain ⟨_, rfl, rfl⟩ := e1
  obtain ⟨qb1'', bcs'', numRows'', _, _, hb'', _, _, hpos, _, hbl⟩ := insert_row_count hs
  have e2 := Except.ok.inj (hb.symm.trans hb'')
  simp only [Prod.mk.injEq] at e2
  obtain ⟨_, rfl, rfl⟩ := e2
  obtain ⟨hcol, hk⟩ := colsBound_fieldCols hcb
  have hcolnd : (bcs.map (·.column)).Nodup := hcol ▸ htags
  refine ⟨_, _, _, hpc, hpm, ?_⟩
  intro P hP hsub
  -- the bound column of a field
  have hfield : ∀ f ∈ fields, ∃ bc p, bc ∈ bcs ∧ locateParams tt m (.field tid n f) = .ok p ∧
      bc.vals = p.vals ∧ bc.om = p.om ∧ bc.bulk = p.bulk ∧ bc.column = f.tag := by
    intro f hf
    obtain ⟨k, hk', hfk⟩ := List.mem_iff_getElem.1 hf
    obtain ⟨bc, p, h1, h2⟩ := hk k f (by rw [List.getElem?_eq_getElem hk', hfk])
    exact ⟨bc, p, List.mem_of_getElem? h1, h2⟩
  have hnames : ∀ f ∈ fields, ∀ p, locateParams tt m (.field tid n f) = .ok p →
      (f.tag ∈ (bcs.filter (fun bc => !bc.om)).map (·.column) ↔ p.om = false) := by
    intro f hf p hp
    obtain ⟨bc, p', hbc, hp', _, hom, _, hc⟩ := hfield f hf
    rw [hp] at hp'; cases hp'
    constructor
    · intro hmem
      obtain ⟨bc', hbc', hc'⟩ := List.mem_map.1 hmem
      rw [List.mem_filter] at hbc'
      have : bc' = bc := map_inj_of_nodup hcolnd hbc'.1 hbc (hc'.trans hc.symm)
      subst this
      rw [← hom]; simpa using hbc'.2
    · intro hp0
      exact List.mem_map.2 ⟨bc, List.mem_filter.2 ⟨hbc, by simp [hom, hp0]⟩, hc⟩
  refine ⟨by simpa using hpos, ?_, ?_⟩
  · intro f hf
    obtain ⟨bc, p, hbc, hp, hv, _, hbk, _⟩ := hfield f hf
    refine ⟨p, hp, ?_, hnames f hf p hp⟩
    intro hpb
    rw [← hv]; simpa using hbl bc hbc (hbk.trans hpb)
  · intro stored hexec
    have hnd : ((bcs.filter (fun bc => !bc.om)).map (·.column)).Nodup :=
      (List.filter_sublist.map _).nodup hcolnd
    have hrt := store_roundtrip hnd hexec
    obtain ⟨hlen, hrows⟩ := execInsert_getElem? hexec
    refine ⟨hlen, ?_⟩
    intro r srow hr f hf p hp
    obtain ⟨cells, hcells, hins⟩ := hrows r srow hr
    have hrn : r < numRows := by
      have := (List.getElem?_eq_some_iff.1 hcells).1
      simpa using this
    obtain ⟨bc, p', hbc, hp', hv, hom, hbk, hc⟩ := hfield f hf
    rw [hp] at hp'; cases hp'
    constructor
    · intro hp0
      have hkept : bc ∈ bcs.filter (fun bc => !bc.om) := List.mem_filter.2 ⟨hbc, by simp [hom, hp0]⟩
      -- what the select of the kept columns reads back
      have hsel : selectRow ((bcs.filter (fun bc => !bc.om)).map (·.column)) srow =
          (bcs.filter (fun bc => !bc.om)).map (fun bc => cellValue P (bc.cellAt r)) := by
        have := congrArg (·[r]?) hrt
        simp only [List.getElem?_map, hr, Option.map_some, List.getElem?_range hrn] at this
        simpa [Function.comp_def] using this
      have hget : rowGet srow bc.column = cellValue P (bc.cellAt r) := by
        unfold selectRow at hsel
        rw [List.map_map] at hsel
        exact List.map_inj_left.1 hsel bc hkept
      rw [← hc, hget]
      have hmem : ∀ r', r' < numRows → ∀ x, bc.paramAt r' = some x → x ∈ P := by
        intro r' hr' x hx
        apply hsub
        exact List.mem_flatMap.2 ⟨r', List.mem_range.2 hr', List.mem_filterMap.2 ⟨bc, hkept, hx⟩⟩
      cases hpb : p.bulk with
      | false =>
        have hbk' : bc.bulk = false := hbk.trans hpb
        have hl : p.vals.length = 1 := locateParams_single hp hpb (by intro t n h; cases h)
        obtain ⟨v, hv1⟩ : ∃ v, bc.vals = [v] := by
          rw [hv]
          match hpv : p.vals, hl with
          | [v], _ => exact ⟨v, rfl⟩
        have h0 := ((hcell bc hbc 0 hpos).2.1 hbk' v hv1).2
        have hr' := ((hcell bc hbc r hrn).2.1 hbk' v hv1).1
        simp only [if_true] at h0
        refine ⟨v, ?_, ?_⟩
        · rw [Params.rowVal_of_not_bulk hpb, ← hv, hv1]; rfl
        · rw [hr']; exact paramValue_of_mem hP (hmem 0 hpos _ h0)
      | true =>
        have hbk' : bc.bulk = true := hbk.trans hpb
        obtain ⟨v, hv1, hcl, hpa⟩ := (hcell bc hbc r hrn).2.2.1 hbk'
        refine ⟨v, ?_, ?_⟩
        · rw [Params.rowVal_of_bulk hpb, ← hv]; exact hv1
        · rw [hcl]; exact paramValue_of_mem hP (hmem r hrn _ hpa)
    · intro hp1
      apply unwritten_column_is_null hins
      intro hmem
      have := (hnames f hf p hp).1 hmem
      rw [hp1] at this; cases this

/-- the same at the level of `bindInputs`, with the parameters of the whole query -/
theorem insert_store_bindInputs {tt : TypeTable} {pre post : List TExpr} {tid : Nat} {n : Bytes}
    {fields : List SField} {args : List GoVal} {pq : Primed} (htags : (fields.map (·.tag)).Nodup)
    (h : bindInputs tt (pre ++ .insert (fieldCols tid n fields) :: post) args = .ok pq) :
    ∃ m names rows, validateInputs tt args [] = .ok m ∧
      pq.pieces[pre.length]? = some (.insert names rows) ∧
      InsertStored tt m tid n fields names rows pq.params := by
  obtain ⟨m, q1, q2, hm, _, hs, hp, hps⟩ := bindInputs_step_at' h
  obtain ⟨names, rows, news, h1, h2, h3⟩ := insert_store_step htags hs
  obtain ⟨before, after, hpq⟩ := hps _ h2
  refine ⟨m, names, rows, hm, hp _ h1, h3 pq.params (params_nodup h) ?_⟩
  intro x hx
  rw [hpq]; simp [hx]

end Sqlair

namespace Sqlair

/-- the accumulator of the element loop is a prefix of its result -/
theorem bulkFieldVals_prefix (f : SField) : ∀ (els : List GoVal) (fi o : Bool) (a vs : List String) (o' : Bool),
    bulkFieldVals f els fi o a = .ok (vs, o') → ∀ (j : Nat) (x : String), a[j]? = some x → vs[j]? = some x := by
  intro els
  induction els with
  | nil =>
    intro fi o a vs o' hh j x hj
    simp [bulkFieldVals] at hh; rw [← hh.1]; exact hj
  | cons y ys ihy =>
    intro fi o a vs o' hh j x hj
    unfold bulkFieldVals at hh
    have hj' : ∀ z : String, (a ++ [z])[j]? = some x := by
      intro z
      rw [List.getElem?_append_left (List.getElem?_eq_some_iff.1 hj).1]; exact hj
    split at hh
    · cases hh
    · split at hh
      · cases hh
      · split at hh
        · split at hh
          · exact ihy _ _ _ _ _ hh j x (hj' _)
          · split at hh
            · cases hh
            · exact ihy _ _ _ _ _ hh j x (hj' _)
        · exact ihy _ _ _ _ _ hh j x (hj' _)

/-- the values of the element loop of a bulk slice: value `i` is the text of the member of
    element `i` -/
theorem bulkFieldVals_vals (f : SField) : ∀ (els : List GoVal) (first om : Bool) (acc vals : List String) (om' : Bool),
    bulkFieldVals f els first om acc = .ok (vals, om') →
    ∀ (i : Nat) (e : GoVal), els[i]? = some e → ∃ s v, bulkElem e = .ok s ∧
      fieldByIndex s f.index true = .ok v ∧ vals[acc.length + i]? = some v.h.r := by
  intro els
  induction els with
  | nil => intro first om acc vals om' _ i e hi; simp at hi
  | cons x rest ih =>
    intro first om acc vals om' h i e hi
    unfold bulkFieldVals at h
    split at h
    · cases h
    · rename_i s hs
      split at h
      · cases h
      · rename_i v hv
        -- in every successful branch the recursive call appends `v.h.r`
        have key : ∀ first' om'', bulkFieldVals f rest first' om'' (acc ++ [v.h.r]) = .ok (vals, om') →
            ∃ s v, bulkElem e = .ok s ∧ fieldByIndex s f.index true = .ok v ∧
              vals[acc.length + i]? = some v.h.r := by
          intro first' om'' h'
          cases i with
          | zero =>
            simp at hi; subst hi
            exact ⟨s, v, hs, hv, bulkFieldVals_prefix f _ _ _ _ _ _ h' acc.length v.h.r (by simp)⟩
          | succ i =>
            simp at hi
            obtain ⟨s', v', h1, h2, h3⟩ := ih _ _ _ _ _ h' i e hi
            refine ⟨s', v', h1, h2, ?_⟩
            rw [← h3]; congr 1; simp; omega
        split at h
        · split at h
          · exact key _ _ h
          · split at h
            · cases h
            · exact key _ _ h
        · exact key _ _ h

/-- what `p.rowVal r` is in terms of the argument values: the text of the member in the
    argument of type `T` itself (every row), or in element `r` of the bulk slice `[]T`/`[]*T` -/
theorem locateParams_field_rowVal {tt : TypeTable} {m : TypeToValue} {tid : Nat} {n : Bytes} {f : SField}
    {p : Params} (hp : locateParams tt m (.field tid n f) = .ok p) :
    (∃ s v, ttvGet m tid = some s ∧ fieldByIndex s f.index true = .ok v ∧ p.bulk = false ∧
      p.om = (v.h.zero && f.omitEmpty) ∧ ∀ r, p.rowVal r = some v.h.r) ∨
    (∃ h els, ttvGet m tid = none ∧ locateBulk tt m tid = some (.slice h els) ∧ p.bulk = true ∧
      ∀ (r : Nat) (e : GoVal), els[r]? = some e → ∃ s v, bulkElem e = .ok s ∧
        fieldByIndex s f.index true = .ok v ∧ p.rowVal r = some v.h.r) := by
  unfold locateParams at hp
  simp only at hp
  split at hp
  · rename_i s hs
    split at hp
    · cases hp
    · rename_i v hv
      cases hp
      exact .inl ⟨s, v, hs, hv, rfl, rfl, fun r => by simp [Params.rowVal]⟩
  · rename_i hnone
    split at hp
    · rename_i h els hb
      split at hp
      · cases hp
      · split at hp
        · cases hp
        · rename_i vals om hvals
          cases hp
          refine .inr ⟨h, els, hnone, hb, rfl, ?_⟩
          intro r e he
          obtain ⟨s, v, h1, h2, h3⟩ := bulkFieldVals_vals f els _ _ _ _ _ hvals r e he
          exact ⟨s, v, h1, h2, by simpa [Params.rowVal] using h3⟩
    · cases hp
    · cases hp

end Sqlair
