#!/usr/bin/env python3
"""Refresh the fingerprints of harness/pins.json from /repo's working tree (after a change to the
library has been accepted and the models brought up to date). Model definitions and layers of
existing entries are kept; new functions get model=null and must be filled in by hand.
  tools/updatepins.py [--repo /repo]"""
import json, subprocess, sys, os
V = os.path.dirname(os.path.dirname(os.path.abspath(__file__)))
repo = sys.argv[sys.argv.index('--repo') + 1] if '--repo' in sys.argv else '/repo'
now = dict(json.loads(subprocess.run([f'{V}/build/harness-facts', '-pins', '-repo', repo], capture_output=True, text=True, check=True).stdout))
p = f'{V}/harness/pins.json'
tab = json.load(open(p))
out = {}
for k, h in now.items():
    e = tab.get(k, {'model': None, 'layers': [], 'why_unmodelled': 'NEW: fill in'})
    if e.get('hash') != h:
        print('updated' if k in tab else 'new', k)
    e['hash'] = h
    out[k] = e
for k in tab:
    if k not in now:
        print('gone', k)
json.dump(out, open(p, 'w'), indent=1, sort_keys=True)
