/-
  E2E/Shapes: the typed expressions `bindTypes` produces for `(*) VALUES ($T.*)` and `&T.*`
  are the shapes the C17 composition is stated for (`fieldCols` / `fieldOutputs`): the same
  fields of the struct, in the same (tag-sorted) order.
-/
import SqlairProofs.E2E.Nodes
import SqlairProofs.E2E.RoundTrip

namespace Sqlair

/-- the members `T.*` stands for: the fields of the struct in the order of its sorted tags -/
def starFieldsOf (fields : List SField) (tags : List Bytes) : List SField :=
  tags.filterMap fun t => fields.find? (fun f => f.tag == t)

/-- the output columns of `&T.*` -/
def fieldOutCols (tid : Nat) (n : Bytes) (fields : List SField) : List (Bytes × Loc) :=
  fields.map fun f => (f.tag, Loc.field tid n f)

theorem fieldOutCols_snd (tid : Nat) (n : Bytes) (fields : List SField) :
    (fieldOutCols tid n fields).map (·.2) = fieldOutputs tid n fields := by
  simp [fieldOutCols, fieldOutputs]

theorem fieldOutCols_fst (tid : Nat) (n : Bytes) (fields : List SField) :
    (fieldOutCols tid n fields).map (·.1) = fields.map (·.tag) := by
  simp [fieldOutCols]

theorem starFields_map (tid : Nat) (n : Bytes) (fields : List SField) (tags : List Bytes) :
    (tags.filterMap fun t => (fields.find? (fun f => f.tag == t)).map fun f => (Loc.field tid n f, t)) =
      (starFieldsOf fields tags).map (fun f => (Loc.field tid n f, f.tag)) := by
  unfold starFieldsOf
  induction tags with
  | nil => rfl
  | cons t rest ih =>
    simp only [List.filterMap_cons]
    cases hf : fields.find? (fun f => f.tag == t) with
    | none => simpa using ih
    | some f =>
      have ht : f.tag = t := by simpa using List.find?_some hf
      simp only [Option.map_some, List.map_cons, ht]
      rw [ih]

theorem getAll_eq {a : ArgInfo} {ms : List (Loc × Bytes)} (h : a.getAll = .ok ms) :
    ∃ tid n fields tags, a = .struct tid n fields tags ∧
      ms = (starFieldsOf fields tags).map (fun f => (Loc.field tid n f, f.tag)) := by
  unfold ArgInfo.getAll at h
  split at h
  · rename_i tid n fields tags
    split at h
    · cases h
    · cases h
      exact ⟨tid, n, fields, tags, rfl, starFields_map tid n fields tags⟩
  · cases h
  · cases h

/-- what `getArg` found -/
theorem getArg_find {st st' : TEB} {ty : Bytes} {a : ArgInfo} (h : getArg st ty = .ok (a, st')) :
    ∃ k, st.argInfos.find? (fun p => p.1 == ty) = some (k, a) := by
  unfold getArg at h
  split at h
  · cases h
  · rename_i k a' hf; cases h; exact ⟨k, hf⟩

/-- the typed expression of a node relative to the infos: for `(*) VALUES ($T.*)` and `&T.*`
    the exact shape, for every other node its kind -/
def NodeExprI (infos : List (Bytes × ArgInfo)) (s : OSeg) (e : TExpr) : Prop :=
  NodeExpr s e ∧ ∀ ty, s.types = [{ ty := ty, member := star }] →
    (s.kind = .astInsert → ∃ k tid n fields tags,
      infos.find? (fun p => p.1 == ty) = some (k, .struct tid n fields tags) ∧
      e = .insert (fieldCols tid n (starFieldsOf fields tags))) ∧
    (s.kind = .output → s.cols = [] → ∃ k tid n fields tags,
      infos.find? (fun p => p.1 == ty) = some (k, .struct tid n fields tags) ∧
      e = .output (fieldOutCols tid n (starFieldsOf fields tags)))

theorem bindSeg_exprI {st st' : TEB} {s : OSeg} (h : bindSeg st s = .ok st') :
    ∃ e, st'.exprs = st.exprs ++ [e] ∧ NodeExprI st.argInfos s e := by
  obtain ⟨e, he, hn⟩ := bindSeg_expr h
  refine ⟨e, he, hn, ?_⟩
  intro ty ht
  constructor
  · intro hk
    unfold bindSeg at h
    rw [hk, ht] at h
    simp only [astInsertCols, beq_self_eq_true, if_true] at h
    unfold allStructInputs at h
    cases hg : getArg st ty with
    | error x => simp [hg] at h
    | ok r =>
      obtain ⟨a, st1⟩ := r
      simp only [hg] at h
      cases ha : a.getAll with
      | error x => simp [ha] at h
      | ok ms =>
        simp only [ha, List.nil_append] at h
        cases h
        obtain ⟨k, hf⟩ := getArg_find hg
        obtain ⟨tid, n, fields, tags, rfl, rfl⟩ := getAll_eq ha
        refine ⟨k, tid, n, fields, tags, hf, ?_⟩
        have he' : (st1.exprs ++ [TExpr.insert _]) = st.exprs ++ [e] := he
        rw [(getArg_ok hg).1] at he'
        have := List.append_cancel_left he'
        simp only [List.cons.injEq, and_true] at this
        rw [← this]
        simp [fieldCols, List.map_map, Function.comp_def]
  · intro hk hc
    unfold bindSeg at h
    rw [hk, ht, hc] at h
    simp only [List.length_nil, beq_self_eq_true, Bool.true_or, if_true, outGenerated] at h
    unfold allStructOutputs at h
    cases hg : getArg st ty with
    | error x => simp [hg] at h
    | ok r =>
      obtain ⟨a, st1⟩ := r
      simp only [hg] at h
      cases ha : a.getAll with
      | error x => simp [ha] at h
      | ok ms =>
        simp only [ha] at h
        cases hm : markOutputs st1 ms with
        | error x => simp [hm] at h
        | ok st2 =>
          simp only [hm, List.nil_append] at h
          cases h
          obtain ⟨k, hf⟩ := getArg_find hg
          obtain ⟨tid, n, fields, tags, rfl, rfl⟩ := getAll_eq ha
          refine ⟨k, tid, n, fields, tags, hf, ?_⟩
          have he' : (st2.exprs ++ [TExpr.output _]) = st.exprs ++ [e] := he
          rw [(markOutputs_ok _ _ _ hm).1, (getArg_ok hg).1] at he'
          have := List.append_cancel_left he'
          simp only [List.cons.injEq, and_true] at this
          rw [← this]
          simp [fieldOutCols, List.map_map, Function.comp_def, newOutputColumn]

theorem bindSegs_exprsI : ∀ (segs : List OSeg) (st st' : TEB), bindSegs st segs = .ok st' →
    ∃ new, st'.exprs = st.exprs ++ new ∧ Corr (NodeExprI st.argInfos) segs new := by
  intro segs
  induction segs with
  | nil => intro st st' h; simp only [bindSegs] at h; cases h; exact ⟨[], by simp, .nil⟩
  | cons s rest ih =>
    intro st st' h
    simp only [bindSegs] at h
    split at h
    · cases h
    · rename_i st1 hs
      obtain ⟨e, he, hn⟩ := bindSeg_exprI hs
      obtain ⟨new, hnew, hc⟩ := ih _ _ h
      rw [bindSeg_argInfos hs] at hc
      exact ⟨e :: new, by rw [hnew, he]; simp, .cons hn hc⟩

/-- `bindTypes`: node `i` is bound to typed expression `i`; a `(*) VALUES ($T.*)` node to
    `.insert (fieldCols …)` and a `&T.*` node to `.output (fieldOutCols …)` over the *same*
    field list `starFieldsOf fields tags` of the sample named `T` -/
theorem bindTypes_exprsI {C : Cls} {tt : TypeTable} {segs : List OSeg} {samples : List (Option Nat)}
    {tes : List TExpr} (h : bindTypes C tt segs samples = .ok tes) :
    ∃ infos, generateArgInfo C tt samples [] = .ok infos ∧ Corr (NodeExprI infos) segs tes := by
  obtain ⟨infos, st, hg, hs, _, rfl⟩ := bindTypes_ok_unfold h
  obtain ⟨new, hnew, hc⟩ := bindSegs_exprsI _ _ _ hs
  simp only [List.nil_append] at hnew
  rw [hnew]; exact ⟨infos, hg, hc⟩

end Sqlair
