/-
  Algebra of the association-list helpers of SqlairModel/Cache.lean.
-/
import SqlairModel.Cache

namespace Sqlair.Cache

/-- generic association-list look-up (first match) -/
def alook {β : Type} (m : List (Nat × β)) (k : Nat) : Option β := (m.find? (·.1 == k)).map (·.2)

def hasKey {β : Type} (m : List (Nat × β)) (k : Nat) : Prop := ∃ v, alook m k = some v

@[simp] theorem alook_nil {β : Type} (k : Nat) : alook ([] : List (Nat × β)) k = none := rfl

theorem alook_cons {β : Type} (p : Nat × β) (m : List (Nat × β)) (k : Nat) :
    alook (p :: m) k = if p.1 = k then some p.2 else alook m k := by
  unfold alook
  by_cases h : p.1 = k <;> simp [h]

theorem alook_some_mem {β : Type} {m : List (Nat × β)} {k : Nat} {v : β} (h : alook m k = some v) :
    (k, v) ∈ m := by
  induction m with
  | nil => simp at h
  | cons p m ih =>
    rw [alook_cons] at h
    split at h
    · cases p; simp_all
    · exact List.mem_cons_of_mem _ (ih h)

theorem alook_none_iff {β : Type} {m : List (Nat × β)} {k : Nat} :
    alook m k = none ↔ ∀ p ∈ m, p.1 ≠ k := by
  induction m with
  | nil => simp
  | cons p m ih =>
    rw [alook_cons]
    by_cases h : p.1 = k <;> simp [h, ih]

theorem alook_isSome_iff {β : Type} {m : List (Nat × β)} {k : Nat} :
    (alook m k).isSome ↔ k ∈ m.map (·.1) := by
  induction m with
  | nil => simp
  | cons p m ih =>
    rw [alook_cons]
    by_cases h : p.1 = k
    · simp [h]
    · have : ¬ k = p.1 := fun e => h e.symm
      simp [h, ih, this]

theorem any_key_iff {β : Type} {m : List (Nat × β)} {k : Nat} :
    m.any (·.1 == k) = true ↔ k ∈ m.map (·.1) := by
  simp [List.any_eq_true]

theorem alook_of_mem_nodup {β : Type} {m : List (Nat × β)} {k : Nat} {v : β}
    (hn : (m.map (·.1)).Nodup) (h : (k, v) ∈ m) : alook m k = some v := by
  induction m with
  | nil => simp at h
  | cons p m ih =>
    rw [alook_cons]
    simp only [List.map_cons, List.nodup_cons] at hn
    rcases List.mem_cons.1 h with h | h
    · subst h; simp
    · have : p.1 ≠ k := by
        intro e; apply hn.1; rw [e]; exact List.mem_map.2 ⟨(k, v), h, rfl⟩
      simp [this, ih hn.2 h]

theorem alook_append {β : Type} (m m' : List (Nat × β)) (k : Nat) :
    alook (m ++ m') k = (alook m k).or (alook m' k) := by
  induction m with
  | nil => simp
  | cons p m ih =>
    simp only [List.cons_append, alook_cons]
    split <;> simp [ih]

/-- modify the value at a key (all occurrences) -/
theorem alook_modify {β : Type} (m : List (Nat × β)) (s : Nat) (f : β → β) (k : Nat) :
    alook (m.map fun p => if p.1 == s then (p.1, f p.2) else (p.1, p.2)) k =
      if k = s then (alook m s).map f else alook m k := by
  induction m with
  | nil => simp
  | cons p m ih =>
    simp only [List.map_cons, alook_cons, ih]
    by_cases h1 : p.1 = s <;> by_cases h2 : p.1 = k <;> by_cases h3 : k = s <;> simp_all

theorem alook_erase {β : Type} (m : List (Nat × β)) (s : Nat) (k : Nat) :
    alook (m.filter (·.1 != s)) k = if k = s then none else alook m k := by
  induction m with
  | nil => simp
  | cons p m ih =>
    by_cases h1 : p.1 = s
    · simp only [List.filter_cons, h1, bne_self_eq_false, Bool.false_eq_true, ↓reduceIte, ih, alook_cons]
      by_cases h3 : k = s
      · simp [h3]
      · have : ¬ s = k := fun e => h3 e.symm
        simp [h3, this]
    · have : (p.1 != s) = true := by simp [h1]
      simp only [List.filter_cons, this, ↓reduceIte, alook_cons, ih]
      by_cases h2 : p.1 = k <;> by_cases h3 : k = s <;> simp_all

theorem keys_modify {β : Type} (m : List (Nat × β)) (s : Nat) (f : β → β) :
    (m.map fun p => if p.1 == s then (p.1, f p.2) else (p.1, p.2)).map (·.1) = m.map (·.1) := by
  induction m with
  | nil => rfl
  | cons p m ih =>
    simp only [List.map_cons, ih]
    split <;> rfl


/-- insert-or-replace, the shape used by `set2`'s row update and by `setOp` -/
def ainsert {β : Type} (m : List (Nat × β)) (k : Nat) (v : β) : List (Nat × β) :=
  if m.any (·.1 == k) then m.map (fun p => if p.1 == k then (k, v) else p) else m ++ [(k, v)]

theorem alook_replace {β : Type} (m : List (Nat × β)) (k : Nat) (v : β) (k' : Nat) :
    alook (m.map (fun p => if p.1 == k then (k, v) else p)) k' =
      if k' = k then (alook m k).map (fun _ => v) else alook m k' := by
  induction m with
  | nil => simp
  | cons p m ih =>
    simp only [List.map_cons, alook_cons, ih]
    by_cases h1 : p.1 = k <;> by_cases h2 : p.1 = k' <;> by_cases h3 : k' = k <;> simp_all

theorem alook_ainsert {β : Type} (m : List (Nat × β)) (k : Nat) (v : β) (k' : Nat) :
    alook (ainsert m k v) k' = if k' = k then some v else alook m k' := by
  unfold ainsert
  split
  · rename_i h
    rw [alook_replace]
    split
    · have : (alook m k).isSome := alook_isSome_iff.2 (any_key_iff.1 h)
      cases h' : alook m k <;> simp_all
    · rfl
  · rename_i h
    rw [alook_append]
    have hn : alook m k = none := by
      cases h' : alook m k
      · rfl
      · exfalso; apply h; apply any_key_iff.2; apply alook_isSome_iff.1; simp [h']
    by_cases h3 : k' = k
    · subst h3; simp [hn, alook_cons]
    · have : ¬ k = k' := fun e => h3 e.symm
      simp [h3, alook_cons, this]

theorem mem_ainsert {β : Type} {m : List (Nat × β)} {k : Nat} {v : β} {p : Nat × β} :
    p ∈ ainsert m k v ↔ p = (k, v) ∨ (p ∈ m ∧ p.1 ≠ k) := by
  unfold ainsert
  split
  · rename_i h
    simp only [List.mem_map]
    constructor
    · rintro ⟨q, hq, rfl⟩
      by_cases e : q.1 = k
      · simp [e]
      · simp [e, hq]
    · rintro (rfl | ⟨hp, hne⟩)
      · obtain ⟨q, hq, hk⟩ := List.any_eq_true.1 h
        exact ⟨q, hq, by simp_all⟩
      · exact ⟨p, hp, by simp [hne]⟩
  · rename_i h
    simp only [List.mem_append, List.mem_singleton]
    constructor
    · rintro (hp | rfl)
      · right; refine ⟨hp, ?_⟩
        intro e; apply h; exact List.any_eq_true.2 ⟨p, hp, by simp [e]⟩
      · left; rfl
    · rintro (rfl | ⟨hp, _⟩)
      · right; rfl
      · left; exact hp

theorem keys_ainsert_nodup {β : Type} {m : List (Nat × β)} {k : Nat} {v : β}
    (h : (m.map (·.1)).Nodup) : ((ainsert m k v).map (·.1)).Nodup := by
  unfold ainsert
  split
  · have : (m.map (fun p => if p.1 == k then (k, v) else p)).map (·.1) = m.map (·.1) := by
      rw [List.map_map]; apply List.map_congr_left; intro p _
      simp only [Function.comp]; split <;> simp_all
    rw [this]; exact h
  · rename_i hk
    rw [List.map_append, List.nodup_append]
    refine ⟨h, by simp, ?_⟩
    intro a ha b hb
    simp at hb; subst hb
    intro e; subst e
    exact hk (any_key_iff.2 ha)

/-! ### the two-level map -/

theorem lookup2_eq (m : List (Nat × List (Nat × Nat))) (s d : Nat) :
    lookup2 m s d = (alook m s).bind (fun row => alook row d) := by
  unfold lookup2 alook
  cases m.find? (·.1 == s) <;> rfl

theorem set2_eq (m : List (Nat × List (Nat × Nat))) (s d v : Nat) :
    set2 m s d v = m.map fun p => if p.1 == s then (p.1, ainsert p.2 d v) else (p.1, p.2) := rfl

theorem del2_eq (m : List (Nat × List (Nat × Nat))) (s d : Nat) :
    del2 m s d = m.map fun p => if p.1 == s then (p.1, p.2.filter (·.1 != d)) else (p.1, p.2) := rfl

theorem addIdx_eq (m : List (Nat × List Nat)) (d s : Nat) :
    addIdx m d s = m.map fun p => if p.1 == d then (p.1, if p.2.contains s then p.2 else p.2 ++ [s]) else (p.1, p.2) := rfl

theorem delIdx_eq (m : List (Nat × List Nat)) (d s : Nat) :
    delIdx m d s = m.map fun p => if p.1 == d then (p.1, p.2.filter (· != s)) else (p.1, p.2) := rfl

theorem lookup2_set2 (m : List (Nat × List (Nat × Nat))) (s d v s' d' : Nat) :
    lookup2 (set2 m s d v) s' d' =
      if s' = s ∧ d' = d then (alook m s).map (fun _ => v) else lookup2 m s' d' := by
  rw [lookup2_eq, lookup2_eq, set2_eq, alook_modify m s (fun row => ainsert row d v)]
  by_cases h1 : s' = s
  · subst h1
    cases h : alook m s' with
    | none => simp
    | some row =>
      simp only [if_true, Option.map_some, Option.bind_some, alook_ainsert, true_and]
  · simp [h1]

theorem lookup2_del2 (m : List (Nat × List (Nat × Nat))) (s d s' d' : Nat) :
    lookup2 (del2 m s d) s' d' = if s' = s ∧ d' = d then none else lookup2 m s' d' := by
  rw [lookup2_eq, lookup2_eq, del2_eq, alook_modify m s (fun row => row.filter (·.1 != d))]
  by_cases h1 : s' = s
  · subst h1
    cases h : alook m s' with
    | none => simp
    | some row =>
      simp only [if_true, Option.map_some, Option.bind_some, alook_erase, true_and]
  · simp [h1]

theorem lookup2_append_empty (m : List (Nat × List (Nat × Nat))) (k s d : Nat) :
    lookup2 (m ++ [(k, [])]) s d = lookup2 m s d := by
  rw [lookup2_eq, lookup2_eq, alook_append]
  cases h : alook m s with
  | some row => simp
  | none => simp [alook_cons]

theorem lookup2_erase (m : List (Nat × List (Nat × Nat))) (k s d : Nat) :
    lookup2 (m.filter (·.1 != k)) s d = if s = k then none else lookup2 m s d := by
  rw [lookup2_eq, lookup2_eq, alook_erase]
  split <;> simp

theorem lookup2_some_hasKey {m : List (Nat × List (Nat × Nat))} {s d id : Nat}
    (h : lookup2 m s d = some id) : ∃ row, alook m s = some row ∧ alook row d = some id := by
  rw [lookup2_eq] at h
  cases h' : alook m s with
  | none => simp [h'] at h
  | some row => exact ⟨row, rfl, by simpa [h'] using h⟩

/-! ### the index -/

/-- statements recorded for a DB in `dbStmt` (the expression `finD` iterates over) -/
def getIdx (m : List (Nat × List Nat)) (d : Nat) : List Nat := (alook m d).getD []

/-- row of a statement in `stmtDB` (the expression `finS` iterates over) -/
def getRow (m : List (Nat × List (Nat × Nat))) (s : Nat) : List (Nat × Nat) := (alook m s).getD []

theorem mem_getIdx_addIdx (m : List (Nat × List Nat)) (d s d' s' : Nat) :
    s' ∈ getIdx (addIdx m d s) d' ↔ s' ∈ getIdx m d' ∨ (d' = d ∧ s' = s ∧ (alook m d).isSome) := by
  unfold getIdx
  rw [addIdx_eq, alook_modify m d (fun l => if l.contains s then l else l ++ [s])]
  by_cases h1 : d' = d
  · subst h1
    cases h : alook m d' with
    | none => simp
    | some l =>
      simp only [if_true, Option.map_some, Option.getD_some, Option.isSome_some, and_true, true_and]
      split
      · rename_i hc
        simp at hc
        constructor
        · exact Or.inl
        · rintro (h | rfl) <;> assumption
      · simp
  · simp [h1]

theorem mem_getIdx_delIdx (m : List (Nat × List Nat)) (d s d' s' : Nat) :
    s' ∈ getIdx (delIdx m d s) d' ↔ s' ∈ getIdx m d' ∧ ¬ (d' = d ∧ s' = s) := by
  unfold getIdx
  rw [delIdx_eq, alook_modify m d (fun l => l.filter (· != s))]
  by_cases h1 : d' = d
  · subst h1
    cases h : alook m d' with
    | none => simp
    | some l => simp
  · simp [h1]

theorem getIdx_append_empty (m : List (Nat × List Nat)) (k d : Nat) :
    getIdx (m ++ [(k, [])]) d = getIdx m d := by
  unfold getIdx
  rw [alook_append]
  cases h : alook m d with
  | some row => simp
  | none => simp [alook_cons]; split <;> rfl

theorem getIdx_erase (m : List (Nat × List Nat)) (k d : Nat) :
    getIdx (m.filter (·.1 != k)) d = if d = k then [] else getIdx m d := by
  unfold getIdx
  rw [alook_erase]
  split <;> simp


theorem keys_set2 (m : List (Nat × List (Nat × Nat))) (s d v : Nat) : (set2 m s d v).map (·.1) = m.map (·.1) := by
  rw [set2_eq]; exact keys_modify m s (fun row => ainsert row d v)

theorem keys_del2 (m : List (Nat × List (Nat × Nat))) (s d : Nat) : (del2 m s d).map (·.1) = m.map (·.1) := by
  rw [del2_eq]; exact keys_modify m s (fun row => row.filter (·.1 != d))

theorem keys_addIdx (m : List (Nat × List Nat)) (d s : Nat) : (addIdx m d s).map (·.1) = m.map (·.1) := by
  rw [addIdx_eq]; exact keys_modify m d (fun l => if l.contains s then l else l ++ [s])

theorem keys_delIdx (m : List (Nat × List Nat)) (d s : Nat) : (delIdx m d s).map (·.1) = m.map (·.1) := by
  rw [delIdx_eq]; exact keys_modify m d (fun l => l.filter (· != s))

end Sqlair.Cache
